From VP Require Import Base.Tactics Breaker.Model Breaker.Proofs Breaker.Props.
Open Scope Z_scope.

Check (C45_no_loss : forall cfg ops e,
  c_dlq cfg = true -> In e (started ops) ->
  In e (w_delivered (run cfg world0 ops)) \/
  (exists d, In d (w_dlq (run cfg world0 ops)) /\ d_ev d = e /\ d_conn d = c_name cfg) \/
  In e (inflight_events (run cfg world0 ops))).
Print Assumptions C45_no_loss.

Check (C45_dlq_entries_named : forall cfg ops d,
  In d (w_dlq (run cfg world0 ops)) ->
  d_conn d = c_name cfg /\ (d_err d = ErrOpen \/ exists c, d_err d = ErrInner c /\ In c (finish_codes ops))).
Print Assumptions C45_dlq_entries_named.

Check (C45_failed_call_to_dlq : forall cfg w s k code evs rest e,
  c_dlq cfg = true -> take_sender s (w_inflight w) = Some (evs, rest) ->
  0 <= k < Z.of_nat (length evs) -> In e evs ->
  exists d, In d (w_dlq (fst (step cfg w (OFinish s k code)))) /\ d_ev d = e /\ d_conn d = c_name cfg /\ d_err d = ErrInner code).
Print Assumptions C45_failed_call_to_dlq.

Check (C45_rejected_call_to_dlq : forall cfg w s bt evs e,
  c_dlq cfg = true -> snd (allow_request cfg (w_now w) (w_br w)) = false -> In e evs ->
  exists d, In d (w_dlq (fst (step cfg w (OStart s bt evs)))) /\ d_ev d = e /\ d_conn d = c_name cfg /\ d_err d = ErrOpen).
Print Assumptions C45_rejected_call_to_dlq.

Check (C45_world_breaker : forall cfg ops,
  brun cfg binit (bops_of cfg world0 ops) = (w_now (run cfg world0 ops), w_br (run cfg world0 ops))).
Print Assumptions C45_world_breaker.

Check (C45_opens_exactly : forall cfg ops now b,
  1 <= c_threshold cfg -> brun cfg binit ops = (now, b) -> b_state b = Closed ->
  consec ops < c_threshold cfg /\
  b_state (snd (brun cfg binit (ops ++ [BFail]))) = (if consec ops + 1 =? c_threshold cfg then Open else Closed)).
Print Assumptions C45_opens_exactly.

Check (C45_rejects_until_timeout : forall cfg ops now b,
  1 <= c_threshold cfg -> brun cfg binit ops = (now, b) -> b_state b = Open ->
  exists tf, last_fail_time ops = Some tf /\
    forall t, snd (allow_request cfg t b) = (c_timeout cfg <=? Z.max 0 (t - tf)) /\
              b_state (fst (allow_request cfg t b)) = (if c_timeout cfg <=? Z.max 0 (t - tf) then HalfOpen else Open)).
Print Assumptions C45_rejects_until_timeout.

Check (C45_single_probe : forall cfg ops now b adm,
  1 <= c_threshold cfg -> grun cfg (0, breaker0, 0) ops = (now, b, adm) -> b_state b = HalfOpen ->
  adm = 1 /\
  (forall t, snd (allow_request cfg t b) = false /\ b_state (fst (allow_request cfg t b)) = HalfOpen) /\
  b_state (record_success b) = Closed /\
  (forall t, b_state (record_failure cfg t b) = Open)).
Print Assumptions C45_single_probe.

Check (C45_at_most_one_probe : forall cfg ops now b adm,
  1 <= c_threshold cfg -> grun cfg (0, breaker0, 0) ops = (now, b, adm) -> b_state b <> Closed -> adm <= 1).
Print Assumptions C45_at_most_one_probe.

Check (C45_ghost_run_is_run : forall cfg ops, fst (grun cfg (0, breaker0, 0) ops) = brun cfg binit ops).
Print Assumptions C45_ghost_run_is_run.
