(* Pins the C10 statements and prints what they depend on. Compiled on every run. *)
From Coq Require Import String.
From VP Require Import Base.Tactics Expr.Syntax Expr.Float Expr.Model Expr.B64 Expr.Run Expr.PropsC10.
Close Scope string_scope.
Open Scope list_scope.

Check (C10_fold_sound : forall (O : fops) (X : xops O) (e : expr O),
  ~ Known_C10_identity O e ->
  exists e', fold O e = Some e' /\ forall env, eval O X env e' = eval O X env e).
Check (C10_fold_sound_b64 : forall e : E,
  ~ Known_C10_identity b64ops e ->
  exists e', fold64 e = Some e' /\ forall env, eval64 env e' = eval64 env e).
Check (C10_fold_never_panics : forall (O : fops) (e : expr O), exists e', fold O e = Some e').
Check (eq_refl : Known_C10_identity = fun (O : fops) (e : expr O) => identity_fires O e = true).
Check (C10_identity_refuted :
  let price := [112; 114; 105; 99; 101]%N in
  let name := [110; 97; 109; 101]%N in
  Known_C10_identity b64ops (e2 Mul (ex price) (ei 0)) /\
  Known_C10_identity b64ops (e2 Add (ex name) (ei 0)) /\
  run_case (e2 Mul (ex price) (ei 0)) [ev [65%N] [(price, vf 4612811918334230528)]] = "K1|F:i0|V:f0;V:i0"%string /\
  run_case (e2 Add (ex name) (ei 0)) [ev [65%N] [(name, vs [110%N])]] = "K1|F:x[110,97,109,101]|N;V:s[110]"%string).
Print Assumptions C10_fold_sound.
Print Assumptions C10_fold_sound_b64.
Print Assumptions C10_identity_refuted.
Print Assumptions C10_fold_never_panics.
