(* Pins the C10 statements and prints what they depend on. Compiled on every run. *)
From Coq Require Import String.
From VP Require Import Base.Tactics Expr.Syntax Expr.Float Expr.Model Expr.B64 Expr.Run Expr.Props.
Close Scope string_scope.
Open Scope list_scope.

Check (C10_fold_sound : forall (O : fops) (X : xops O) (e : expr O),
  exists e', fold O e = Some e' /\ forall env, eval O X env e' = eval O X env e).
Check (C10_fold_sound_b64 : forall e : E,
  exists e', fold64 e = Some e' /\ forall env, eval64 env e' = eval64 env e).
Print Assumptions C10_fold_sound.
Print Assumptions C10_fold_sound_b64.
