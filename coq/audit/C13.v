From Coq Require Import Sorted.
From VP Require Import Base.Tactics Window.Model Window.Run Window.Spec Window.Props.
Open Scope Z_scope.

Check (C13_time_sliding : forall size slide es,
  in_order es ->
  fst (run (init (KSliding size slide)) (map Add es)) = map of_opt (time_schedule size slide [] None es)).
Print Assumptions C13_time_sliding.

Check (C13_count_sliding : forall size slide es,
  fst (run (init (KSlidingCount size slide)) (map Add es)) = map of_opt (count_schedule size slide [] 0 es)).
Print Assumptions C13_count_sliding.

Check (C13_time_sliding_partitioned : forall size slide es k,
  in_order (of_key k es) ->
  pick k es (fst (run (init (KPSliding size slide)) (map Add es)))
  = map of_opt (time_schedule size slide [] None (of_key k es))).
Print Assumptions C13_time_sliding_partitioned.

Check (C13_count_sliding_partitioned : forall size slide es k,
  pick k es (fst (run (init (KPSlidingCount size slide)) (map Add es)))
  = map of_opt (count_schedule size slide [] 0 (of_key k es))).
Print Assumptions C13_count_sliding_partitioned.

Check (C13_time_contents : forall size slide es i e l,
  in_order es -> nth_error es i = Some e ->
  nth_error (fst (run (init (KSliding size slide)) (map Add es))) i = Some (OWin l) ->
  l = filter (fun x => ets e - size <=? ets x) (firstn (S i) es)).
Print Assumptions C13_time_contents.

Check (C13_count_contents : forall size slide es i l,
  nth_error (fst (run (init (KSlidingCount size slide)) (map Add es))) i = Some (OWin l) ->
  l = lastn size (firstn (S i) es) /\ (size <= length (firstn (S i) es))%nat).
Print Assumptions C13_count_contents.
