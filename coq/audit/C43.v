(* Pins the C43 statements and prints what they depend on. Compiled on every run. *)
From Coq Require Import String.
From VP Require Import Base.Tactics Text.Str Parse.Model Parse.Proofs Lsp.Model Lsp.Proofs Lsp.Props.
Open Scope N_scope.

Check (C43_pos_no_panic : forall alnum text line character, word_at alnum text line character <> WPanic).
Check (C43_offset_in_doc : forall text position,
  pos_in_doc text (fst (position_to_line_col text position)) (snd (position_to_line_col text position))).
Check (C43_range_in_doc : forall alnum text e, perr_ok text e -> range_in_doc text (error_range alnum text e)).
Check (C43_located_from_parser : forall alnum text a,
  loc_in text a -> range_in_doc text (error_range alnum text (ELocated (l_line a) (l_col a)))).
Check (C43_span_range_in_doc : forall text span_start span_end, range_in_doc text (span_range text span_start span_end)).

(* the notions the statements use *)
Check (eq_refl : pos_in_doc = fun (text : str) (line col : N) =>
  line <= count_nl text /\ col <= lenN (line_of text line)).
Check (eq_refl : range_in_doc = fun (text : str) (r : range) =>
  pos_in_doc text (r_sl r) (r_sc r) /\ pos_in_doc text (r_el r) (r_ec r)).
Check (eq_refl : perr_ok = fun (text : str) (e : perr) =>
  match e with
  | ELocated line column =>
    1 <= line <= 1 + count_nl text /\ 1 <= column <= 1 + lenN (line_of text (line - 1))
  | _ => True
  end).
Check (eq_refl : line_of = fun (s : str) (k : N) => nth (N.to_nat k) (split_nl s) []).

Print Assumptions C43_pos_no_panic.
Print Assumptions C43_offset_in_doc.
Print Assumptions C43_range_in_doc.
Print Assumptions C43_located_from_parser.
Print Assumptions C43_span_range_in_doc.
