(* Pins the C20 statements and prints what they depend on. Compiled on every run. *)
From Coq Require Import List ZArith NArith Bool.
From VP Require Import Codec.Model Codec.Proofs Codec.ProofsApi Codec.Props.
Import ListNotations.
Open Scope Z_scope.

Check (C20_value_roundtrip : forall v, vwf v = true ->
  option_map of_ser (sv_of_json (sv_json (to_ser v))) = Some (vnorm v)).
Check (C20_norm_only_changes_nan : forall v, no_nan v = true -> vnorm v = v).
Check (C20_event_roundtrip : forall e, ewf e = true -> ~ (ets e mod 1000000 <> 0) ->
  option_map ev_of_ser (sev_of_json (sev_json (ev_to_ser e))) = Some (enorm e)).
Check (C20_checkpoint_roundtrip :
  forall (text : Type) (print : json -> text) (parse : text -> option json),
  (forall j, json_ok j = true -> parse (print j) = Some j) ->
  forall l, Forall (fun e => ewf e = true /\ ~ (ets e mod 1000000 <> 0)) l ->
    match parse (print (JArr (map sev_json (map ev_to_ser l)))) with
    | Some j => option_map (map ev_of_ser) (evs_of_json j)
    | None => None
    end = Some (map enorm l)).
Check (C20_subms_refuted :
  exists e, ewf e = true /\ ets e mod 1000000 <> 0 /\
    option_map (map ev_of_ser) (evs_of_json (JArr (map sev_json (map ev_to_ser [e])))) <> Some [enorm e]).
(* the side conditions and the NaN normalisation, pinned *)
Check (eq_refl : ewf = fun e =>
  nodup_keys (map fst (efields e)) && forallb (fun kv => vwf (snd kv)) (efields e) && in_i64 (ets e / 1000000)).
Check (eq_refl : enorm = fun e => mkEv (ety e) (ets e) (map (fun kv => (fst kv, vnorm (snd kv))) (efields e))).
Check (eq_refl : fnorm = fun b => if f_nan b then 9221120237041090560 else b).
Check (eq_refl : vnorm (VArr [VFloat 1; VMap [([1%N], VFloat 18444492273895866369)]; VInt 3]) =
                 VArr [VFloat 1; VMap [([1%N], VFloat 9221120237041090560)]; VInt 3]).
Check (eq_refl : vwf (VMap [([1%N], VInt 9223372036854775807); ([2%N], VDur 18446744073709551615); ([3%N], VFloat 18446744073709551615)]) = true).
Check (eq_refl : vwf (VMap [([1%N], VNull); ([1%N], VNull)]) = false).

Print Assumptions C20_value_roundtrip.
Print Assumptions C20_norm_only_changes_nan.
Print Assumptions C20_event_roundtrip.
Print Assumptions C20_checkpoint_roundtrip.
Print Assumptions C20_subms_refuted.
