From Coq Require Import String List Bool Arith.
Import ListNotations.
From VP Require Import Rbac.Syntax Rbac.Model Rbac.Policy Rbac.Proofs Rbac.ProofsPure Rbac.Gen_Routes Rbac.Apps Rbac.Props.

Check (C29_authenticate_spec : forall (c : rbac) (key : option string),
  NoDup (map fst (rkeys c)) -> authenticate c key = spec_role c key).
Print Assumptions C29_authenticate_spec.

Check (C29_matrix_sound : forall (a : app) (cfg : config) (q : request) (route handler : string),
  cfg_wf cfg ->
  app_serve a cfg q = Served route handler ->
  exists e, In e (app_policy a) /\ ep_matches e q = true /\ granted (e_access e) (app_cfg a cfg) q = true).
Print Assumptions C29_matrix_sound.

Check (C29_matrix_complete : forall (a : app) (cfg : config) (q : request) (e : endpoint),
  cfg_wf cfg ->
  In e (app_policy a) -> ep_matches e q = true -> granted (e_access e) (app_cfg a cfg) q = true ->
  c_rate_ok cfg = true -> qbody q = BGood -> qquery_ok q = true ->
  exists route handler, app_serve a cfg q = Served route handler).
Print Assumptions C29_matrix_complete.

Check (C29_no_shadow : forall (a : app) (cfg : config) (q : request) (r : route),
  In r (app_routes a) -> addresses (app_prologues a) r q ->
  match app_serve a cfg q with
  | Served n _ | Denied n _ _ => n = rname r
  | Rejected _ => exists j, run_route (app_cfg a cfg) q r = OReject j
  end).
Print Assumptions C29_no_shadow.

Check (C29_reject_pure : forall (a : app) (cfg : config) (q : request) (r : route) (j : rej),
  In r (app_routes a) ->
  run_route cfg q r = OReject j -> is_auth_rej j = true ->
  forall s, In s (run_trace cfg q (qpath q) (rstages r)) -> reads_request_or_state s = false).
Print Assumptions C29_reject_pure.

Check (C29_handler_only_when_accepted : forall (cfg : config) (q : request) (r : route) (h : string),
  In (SHandler h) (run_trace cfg q (qpath q) (rstages r)) -> exists h', run_route cfg q r = OHandler h').
Print Assumptions C29_handler_only_when_accepted.
