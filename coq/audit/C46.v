From Coq Require Import String.
From VP Require Import Base.Tactics Text.Str Text.EventFile Text.EventFileProofs Text.EventFileProps.
Open Scope N_scope.

Check (C46_same :
  forall (Ev : Type) (parse_evt parse_json : str -> option Ev) (max_line : N) (file : str),
    ~ Known_C46_oversize max_line file ->
    stream Ev parse_evt parse_json max_line file
    = omap (map snd) (preload Ev parse_evt parse_json file)).
Print Assumptions C46_same.

Check (C46_same_nonvacuous :
  ~ Known_C46_oversize 1048576 demo_file
  /\ preload str Some Some demo_file
     = Ok [(100, s2l "A { x: 1 };"); (5000, s2l "B { y: 2 }"); (20, s2l "{""event_type"": ""C""}"); (100, s2l "D(1)")]
  /\ stream str Some Some 1048576 demo_file
     = Ok [s2l "A { x: 1 };"; s2l "B { y: 2 }"; s2l "{""event_type"": ""C""}"; s2l "D(1)"]).
Print Assumptions C46_same_nonvacuous.

Check (C46_oversize_refuted :
  exists file, Known_C46_oversize 1048576 file
    /\ stream str Some Some 1048576 file <> omap (map snd) (preload str Some Some file)).
Print Assumptions C46_oversize_refuted.
