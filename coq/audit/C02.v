(* Pins the C02 statements. Compiled on every run. *)
From VP Require Import Base.Tactics Zdd.Model Sase.Model Sase.ProofsBounds Sase.ProofsSound Sase.ProofsSoundEngine
  Sase.ProofsCompile Sase.Props Sase.Ref.
Check (C02_soundness_partial :
  forall steps negs part max_runs st lim evs out,
    run_collect (mkCfg (compile steps) negs part max_runs st lim) engine0 evs = Some out ->
    Forall (Forall (genuine (compile steps) negs evs)) out).
Check (C02_not_on_completing_event_refuted :
  ref_matches kf_negs None kf_steps kf_events = [[0; 1]%N] /\
  engine_stacks (mkCfg (compile kf_steps) kf_negs None 10 SDrop (mkLim 20 10)) engine0 kf_events = Some []).
Print Assumptions C02_soundness_partial.
Print Assumptions C02_not_on_completing_event_refuted.
