(* Pins the C02 statements. Compiled on every run. *)
From VP Require Import Base.Tactics Zdd.Model Sase.Model Sase.ProofsBounds Sase.ProofsSound Sase.ProofsSoundEngine
  Sase.ProofsCompile Sase.Props Sase.Ref.
Check (C02_soundness_partial :
  forall steps negs part max_runs st lim evs out,
    run_collect (mkCfg (compile steps) negs part max_runs st lim) engine0 evs = Some out ->
    Forall (Forall (genuine (compile steps) negs evs)) out).
Check (C02_not_on_completing_event_refuted :
  ref_matches kf_negs None kf_steps kf_events = [[0; 1]%N] /\
  engine_stacks (mkCfg (compile kf_steps) kf_negs None 10 SDrop (mkLim 20 10)) engine0 kf_events = Some []).
From Coq Require Import Permutation.
From VP Require Import Sase.ProofsExactRef Sase.ProofsExactText.
Check (C02_engine_is_per_start_greedy :
  forall s0 rest0 negs part max_runs st lim evs,
    Forall (fun s => st_all s = false) (s0 :: rest0) -> rest0 <> [] -> length evs <= max_runs ->
    exists l, engine_stacks (mkCfg (compile (s0 :: rest0)) negs part max_runs st lim) engine0 evs = Some l /\
              Permutation l (ref_e negs part s0 rest0 evs)).
Check (C02_exact_outside_known_class :
  forall s0 rest0 negs part max_runs st lim evs,
    Forall (fun s => st_all s = false) (s0 :: rest0) -> rest0 <> [] -> length evs <= max_runs ->
    known_c02 negs part s0 rest0 evs = false ->
    exists l, engine_stacks (mkCfg (compile (s0 :: rest0)) negs part max_runs st lim) engine0 evs = Some l /\
              Permutation l (ref_matches negs part (s0 :: rest0) evs)).
Check (C02_known_class_contains_witness :
  known_c02 kf_negs None (mkStep 1 None (Some 0%N) false) [mkStep 0 None None false] kf_events = true).
Print Assumptions C02_engine_is_per_start_greedy.
Print Assumptions C02_exact_outside_known_class.
Print Assumptions C02_soundness_partial.
Print Assumptions C02_not_on_completing_event_refuted.
