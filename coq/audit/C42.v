From Coq Require Import String.
From VP Require Import Base.Tactics Text.Str Text.Expand Text.ExpandSpec Text.ExpandProofs Text.ExpandProps.
Open Scope N_scope.

Check (C42_expand :
  forall (u : nat) (prog : list item),
    (1 <= u)%nat -> forallb wf prog = true -> (depth_prog prog <= 9)%nat ->
    weight_prog prog <= max_expanded_lines ->
    expand (unlines (render_prog u prog)) = ROk (unlines (hand_prog prog))).
Print Assumptions C42_expand.

Check (C42_same_text_to_parser :
  forall (u : nat) (prog : list item),
    (1 <= u)%nat -> forallb wf prog = true -> (depth_prog prog <= 9)%nat ->
    weight_prog prog <= max_expanded_lines ->
    expand (unlines (render_prog u prog)) = expand (unlines (hand_prog prog))).
Print Assumptions C42_same_text_to_parser.

Print Assumptions C42_nonvacuous.
Print Assumptions C42_outside_class_ragged_body.
