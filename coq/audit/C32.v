From Coq Require Import Permutation.
From VP Require Import Base.Tactics Coord.Model Coord.Spec Coord.Props Coord.Legacy.
Open Scope N_scope.

Check (C32_consistent_under_any_interleaving :
  forall timeout ops,
    all_steps assumed (init timeout) ops = true ->
    some_step known (init timeout) ops = false ->
    Consistent (sc (run (init timeout) ops))).
Print Assumptions C32_consistent_under_any_interleaving.

(* the statement's vocabulary, pinned *)
Check (eq_refl : Consistent = fun c : coord =>
  (forall g gr p d, get (groups c) g = Some gr -> get (gpl gr) p = Some d -> dst d = DRunning ->
                    exists wk, get (workers c) (dw d) = Some wk) /\
  (forall w wk, get (workers c) w = Some wk ->
                Permutation (wasg wk) (placed c w) /\ wrun wk = N.of_nat (length (wasg wk)))).
Check (eq_refl : known = fun s o => known_reregister s o || known_deregister s o || known_drain s o).
Check (eq_refl : assumed = fun (s : sys) (o : op) =>
  match o with
  | OHeartbeat w n => match get (workers (sc s)) w with Some wk => N.eqb n (wrun wk) | None => true end
  | ORegister _ _ _ run0 => N.eqb run0 0
  | OPlanDeploy spec _ => nodupb (spec_names spec)
  | _ => true
  end).

Check (C32_any_migration_commit_preserves : forall c m ok, Inv c -> Inv (fst (commit_migrate c m ok))).
Print Assumptions C32_any_migration_commit_preserves.
Check (C32_any_teardown_commit_preserves : forall c g, Inv c -> Inv (commit_teardown c g)).
Print Assumptions C32_any_teardown_commit_preserves.
Check (C32_any_deploy_commit_preserves :
  forall c spec tasks outs, NoDup (map tname tasks) -> Inv c -> Inv (commit_deploy c spec tasks outs)).
Print Assumptions C32_any_deploy_commit_preserves.

Check (C32_hypotheses_satisfiable :
  all_steps assumed (init 5) example_history = true /\ some_step known (init 5) example_history = false /\
  map (fun e => (fst e, wasg (snd e))) (workers (sc (run (init 5) example_history))) = [(1, [33]); (2, []); (3, [16])]).
Print Assumptions C32_hypotheses_satisfiable.

Check (C32_reregister_live_worker_refuted :
  exists ops, all_steps assumed (init 5) ops = true /\ some_step known_reregister (init 5) ops = true /\
              ~ Consistent (sc (run (init 5) ops))).
Print Assumptions C32_reregister_live_worker_refuted.
Check (C32_deregister_live_worker_refuted :
  exists ops, all_steps assumed (init 5) ops = true /\ some_step known_deregister (init 5) ops = true /\
              ~ Consistent (sc (run (init 5) ops))).
Print Assumptions C32_deregister_live_worker_refuted.
Check (C32_drain_force_deregister_refuted :
  exists ops, all_steps assumed (init 5) ops = true /\ some_step known_drain (init 5) ops = true /\
              ~ Consistent (sc (run (init 5) ops))).
Print Assumptions C32_drain_force_deregister_refuted.

(* the defect repaired by fix f5a501f, on the pre-fix commit function *)
Check (C32_legacy_stale_migration_commit_refuted :
  exists c m1 m2,
    Inv c /\ plan_migrate c 16 0 2 = inr m1 /\ plan_migrate c 16 0 3 = inr m2 /\
    ~ Consistent (legacy_commit_migrate (legacy_commit_migrate c m1) m2)).
Print Assumptions C32_legacy_stale_migration_commit_refuted.
