(* Pins the C23 statements and prints what they depend on. Compiled on every run. *)
From VP Require Import Base.Tactics Dispatch.Gen_Consts Dispatch.Model Dispatch.Spec Dispatch.Props.

Check (C23_reload_same_program_is_identity :
  forall (sstate : Type) (step_stream : N -> sstate -> event -> sstate * list event * list event)
         (init_state : N -> sstate) (p : program) (eng : engine sstate),
    reachable sstate step_stream init_state p eng ->
    fst (reload sstate init_state eng p) = eng /\
    r_added (snd (reload sstate init_state eng p)) = [] /\
    r_removed (snd (reload sstate init_state eng p)) = [] /\
    r_updated (snd (reload sstate init_state eng p)) = []).
Check (C23_reload_applies_changes :
  forall (sstate : Type) (step_stream : N -> sstate -> event -> sstate * list event * list event)
         (init_state : N -> sstate) (p : program) (eng : engine sstate) (p' : program),
    reachable sstate step_stream init_state p eng ->
    e_router (fst (reload sstate init_state eng p')) = e_router (load sstate init_state empty_engine p') /\
    (forall n,
        find_stream (e_streams (fst (reload sstate init_state eng p'))) n =
        match find_stream (e_streams (load sstate init_state empty_engine p')) n with
        | None => None
        | Some w =>
          match find_stream (e_streams eng) n with
          | Some o => if (sd_decl (st_def o) =? sd_decl (st_def w))%N then Some o else Some w
          | None => Some w
          end
        end) /\
    (forall n w, find_stream (e_streams (load sstate init_state empty_engine p')) n = Some w ->
                 st_state w = init_state (sd_decl (st_def w)))).
Check (C23_example_reachable : exists eng, reachable N ex_step ex_init ex_prog eng /\ eng <> ex_eng).

Print Assumptions C23_reload_same_program_is_identity.
Print Assumptions C23_reload_applies_changes.
