From VP Require Import Base.Tactics Value.Model Value.ProofsBase Value.ProofsEq Value.ProofsHash Value.FloatSpec Value.Props.
From Flocq Require Import IEEE754.Binary IEEE754.Bits.
Open Scope Z_scope.

Check (C40_refl : forall a, wf a = true -> veq a a = true).
Print Assumptions C40_refl.

Check (C40_sym : forall a b, wf a = true -> wf b = true -> veq a b = true -> veq b a = true).
Print Assumptions C40_sym.

Check (C40_trans : forall a b c, wf a = true -> wf b = true -> wf c = true ->
  veq a b = true -> veq b c = true -> veq a c = true).
Print Assumptions C40_trans.

Check (C40_hash : forall a b, wf a = true -> wf b = true -> veq a b = true -> hash_stream a = hash_stream b).
Print Assumptions C40_hash.

Check (C40_unrepaired_hash_refuted : exists a b,
  wf a = true /\ wf b = true /\ veq a b = true /\ hash_stream_unrepaired a <> hash_stream_unrepaired b).
Print Assumptions C40_unrepaired_hash_refuted.
