From VP Require Import Base.Tactics Value.Model Value.Props.
