From Coq Require Import String List Bool NArith ZArith.
Import ListNotations.
From VP Require Import Tenant.HandlerSyntax Tenant.Model Tenant.Spec Tenant.Proofs Tenant.Gen_Handlers Tenant.Props.
Open Scope N_scope.

Check (C28_handlers_tied : tenant_handlers = expected_handlers).
Print Assumptions C28_handlers_tied.
Check (C28_handlers_isolated : forallb chain_isolated tenant_handlers = true).
Print Assumptions C28_handlers_isolated.
Check (C28_every_request_has_handler : forall r : treq, existsb (fun c => String.eqb (h_name c) (handler_of r)) tenant_handlers = true).
Print Assumptions C28_every_request_has_handler.

Check (C28_step_isolation : forall (E : Type) (ops : engine_ops E) (ak : option string)
    (m : manager) (key : string) (r : treq) (b : N),
  owner m key <> Some b ->
  let m' := fst (step ops ak m (Tenant (Some key) r)) in
  comp m' b = comp m b /\ m_index m' = m_index m /\ keymap (m_tenants m') = keymap (m_tenants m)).
Print Assumptions C28_step_isolation.

Check (C28_response_local : forall (E : Type) (ops : engine_ops E) (ak : option string)
    (m1 m2 : manager) (key : string) (r : treq) (a : N),
  owner m1 key = Some a -> owner m2 key = Some a -> comp m1 a = comp m2 a ->
  snd (step ops ak m1 (Tenant (Some key) r)) = snd (step ops ak m2 (Tenant (Some key) r)) /\
  comp (fst (step ops ak m1 (Tenant (Some key) r))) a = comp (fst (step ops ak m2 (Tenant (Some key) r))) a).
Print Assumptions C28_response_local.

Check (C28_isolation : forall (E : Type) (ops : engine_ops E) (ak : option string) (b : N)
    (m : manager) (qs : list request),
  sim b (fst (run ops ak m qs)) (fst (run_for ops ak b m qs)) /\
  Forall2 agrees (snd (run ops ak m qs)) (snd (run_for ops ak b m qs))).
Print Assumptions C28_isolation.

Check (C28_foreign_id_refused : forall (E : Type) (ops : engine_ops E) (t : tenant) (r : treq) (p : N),
  names_pipeline r = Some p -> nassoc p (t_pipes t) = None ->
  is_refusal (snd (tenant_op ops t r)) /\ t_pipes (fst (tenant_op ops t r)) = t_pipes t).
Print Assumptions C28_foreign_id_refused.
