(* Pins the C21 statements and prints what they depend on. Compiled on every run. *)
From Coq Require Import Sorting.Sorted.
From VP Require Import Base.Tactics Store.Model Store.Run Store.ProofsFs Store.ProofsMgr Store.ProofsC21 Store.ProofsKeep Store.Props.
Open Scope N_scope.

Check (C21_recover_newest_complete :
  forall encode decode, (forall c, decode (encode c) = Some c) ->
  forall max evs, (1 <= max)%nat -> Forall (fun e => match e with ECorrupt _ => False | _ => True end) evs ->
    recover decode (sfs (run encode max evs)) = Ok (hd_error (sdone (run encode max evs)))).
Check (C21_acknowledged_recovered :
  forall encode decode, (forall c, decode (encode c) = Some c) ->
  forall max evs d n, (1 <= max)%nat -> Forall (fun e => match e with ECorrupt _ => False | _ => True end) evs ->
    smgr (run encode max evs) = Some n ->
    recover decode (sfs (run encode max (evs ++ [ESave d]))) = Ok (Some (mkCk n d))).
Check (C21_never_partial :
  forall encode decode, (forall c, decode (encode c) = Some c) ->
  forall max evs, (1 <= max)%nat ->
    Forall (fun e => match e with ECorrupt b => decode b = None | _ => True end) evs ->
    let s := run encode max evs in
    exists r, recover decode (sfs s) = Ok r /\
      (forall c, r = Some c ->
         In c (sdone s) /\ fs_get (sfs s) (FCk (cid c)) = Some (encode c) /\
         (forall id b, cid c < id -> fs_get (sfs s) (FCk id) = Some b -> decode b = None)) /\
      (r = None -> forall id b, fs_get (sfs s) (FCk id) = Some b -> decode b = None)).
Check (C21_older_recovered_when_newest_unreadable :
  forall encode decode, (forall c, decode (encode c) = Some c) ->
  forall max evs b c1 c2 D, (1 <= max)%nat ->
    Forall (fun e => match e with ECorrupt _ => False | _ => True end) evs ->
    decode b = None ->
    sdone (run encode max evs) = c1 :: c2 :: D ->
    fs_get (sfs (run encode max evs)) (FCk (cid c2)) <> None ->
    recover decode (sfs (run encode max (evs ++ [ECorrupt b]))) = Ok (Some c2)).
Check (C21_older_always_recovered_max2 :
  forall encode decode, (forall c, decode (encode c) = Some c) ->
  forall max evs b c1 c2 D, (2 <= max)%nat ->
    Forall (fun e => match e with ECorrupt _ => False | _ => True end) evs ->
    decode b = None -> sdone (run encode max evs) = c1 :: c2 :: D ->
    recover decode (sfs (run encode max (evs ++ [ECorrupt b]))) = Ok (Some c2)).
Check (C21_bound_after_completed :
  forall encode max evs d, smgr (run encode max evs) <> None ->
    (length (list_ckpts (sfs (run encode max (evs ++ [ESave d])))) <= max)%nat).
Check (C21_bound_all_states :
  forall encode max evs,
    (length (list_ckpts (sfs (run encode max evs))) <= max + spend (run encode max evs))%nat).
Check (C21_ids_increase :
  forall encode decode, (forall c, decode (encode c) = Some c) ->
  forall max evs, (1 <= max)%nat ->
    Forall (fun e => match e with ECorrupt b => decode b = None | _ => True end) evs ->
    StronglySorted (fun a b => cid b < cid a) (sdone (run encode max evs))).
Check (C21_readable_files_complete :
  forall encode decode, (forall c, decode (encode c) = Some c) ->
  (forall c k, (k < length (encode c))%nat -> decode (firstn k (encode c)) = None) ->
  forall max evs p b c,
    Forall (fun e => match e with ECorrupt b => decode b = None | _ => True end) evs ->
    fs_get (sfs (run encode max evs)) p = Some b -> decode b = Some c -> b = encode c).
Check (C21_eval_codec_contract :
  (forall c, toy_decode (toy_encode c) = Some c) /\
  (forall c k, (k < length (toy_encode c))%nat -> toy_decode (firstn k (toy_encode c)) = None)).
(* the history semantics (including the ghost list of completely written checkpoints) the theorems refer to *)
Check (eq_refl : step = fun encode max s e =>
    match e with
    | ENew => mkSt (sfs s) (Some (mgr_new (sfs s))) (sdone s) (spend s)
    | ESave d =>
        match smgr s with
        | None => s
        | Some n =>
            mkSt (apply_ops (sfs s) (checkpoint_ops encode (sfs s) n d max)) (Some (n + 1))
                 (mkCk n d :: sdone s) 0
        end
    | ECrash d k torn =>
        match smgr s with
        | None => s
        | Some n =>
            let ops := checkpoint_ops encode (sfs s) n d max in
            if Nat.leb (length ops) k
            then mkSt (apply_ops (sfs s) ops) (Some (n + 1)) (mkCk n d :: sdone s) 0
            else mkSt (exec_crash (sfs s) ops k torn) None
                      (if Nat.leb 2 k then mkCk n d :: sdone s else sdone s) (S (spend s))
        end
    | ECorrupt b =>
        match rev (list_ckpts (sfs s)) with
        | [] => s
        | id :: _ => mkSt (fs_write (sfs s) (FCk id) b) (smgr s) (sdone s) (spend s)
        end
    end).
Check (eq_refl : checkpoint_ops = fun encode f n d max =>
    let ops1 := [Write (FTmp n) (encode (mkCk n d)); Rename (FTmp n) (FCk n)] in
    ops1 ++ map (fun id => Remove (FCk id))
               (firstn (length (list_ckpts (apply_ops f ops1)) - max) (list_ckpts (apply_ops f ops1)))).
Check (eq_refl : run = fun encode max evs => fold_left (step encode max) evs (mkSt [] None [] 0)).

Print Assumptions C21_recover_newest_complete.
Print Assumptions C21_acknowledged_recovered.
Print Assumptions C21_never_partial.
Print Assumptions C21_older_recovered_when_newest_unreadable.
Print Assumptions C21_older_always_recovered_max2.
Print Assumptions C21_bound_after_completed.
Print Assumptions C21_bound_all_states.
Print Assumptions C21_ids_increase.
Print Assumptions C21_readable_files_complete.
Print Assumptions C21_eval_codec_contract.
