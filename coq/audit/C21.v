From VP Require Import Base.Tactics Store.Model Store.Run Store.Props.
