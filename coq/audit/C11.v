(* Pins the C11 statements and prints what they depend on. Compiled on every run. *)
From Coq Require Import String.
From VP Require Import Base.Tactics Expr.Syntax Expr.Float Expr.Gen_EvalTables Expr.Model Expr.B64 Expr.Run Expr.PropsC11.
Close Scope string_scope.
Open Scope list_scope.

Check (C11_no_panic : forall (O : fops) (X : xops O) (env : event O) (e : expr O),
  eval O X env e <> Panic).
Check (C11_no_panic_b64 : forall (env : event b64ops) (e : E), eval64 env e <> Panic).
Check (C11_builtins_covered :
  map (fun x : string * arity * builtin => (fst (fst x), snd (fst x))) model_builtins = builtin_arms).
Print Assumptions C11_no_panic.
Print Assumptions C11_no_panic_b64.
Print Assumptions C11_builtins_covered.
