(* Pins the C16 statements and prints what they depend on. Compiled on every run. *)
From VP Require Import Base.Tactics Dispatch.Gen_Consts Dispatch.Model Dispatch.Spec Dispatch.Props.

Check (C16_entry_points_agree :
  forall (sstate : Type) (step_stream : N -> sstate -> event -> sstate * list event * list event)
         (eng : engine sstate) (es : list event) (bs : list (list event)) (f1 f2 f3 : nat)
         (r1 r2 r3 : engine sstate * acc),
    concat bs = es ->
    process_each sstate step_stream f1 eng es = Some r1 ->
    process_batches sstate step_stream f2 false eng bs = Some r2 ->
    process_batches sstate step_stream f3 true eng bs = Some r3 ->
    r1 = r2 /\
    fst r3 = fst r1 /\ a_sent (snd r3) = a_sent (snd r1) /\
    Forall2 same_handoff (a_trace (snd r1)) (a_trace (snd r3))).
Check (C16_entry_points_terminate :
  forall (sstate : Type) (step_stream : N -> sstate -> event -> sstate * list event * list event)
         (eng : engine sstate) (bs : list (list event)),
    (exists fuel, process_each sstate step_stream fuel eng (concat bs)
                  = Some (spec_events sstate step_stream false eng (concat bs))) /\
    (exists fuel, process_batches sstate step_stream fuel false eng bs
                  = Some (spec_events sstate step_stream false eng (concat bs))) /\
    (exists fuel, process_batches sstate step_stream fuel true eng bs
                  = Some (spec_events sstate step_stream true eng (concat bs)))).
(* the definitions the statements are about are the ones the correspondence check runs *)
Check (process_each : forall sstate : Type, (N -> sstate -> event -> sstate * list event * list event) ->
                      nat -> engine sstate -> list event -> option (engine sstate * acc)).
Check (eq_refl : process_batch = fun sstate step fuel eng es => run_loop sstate step fuel false eng [] es acc0).
Check (eq_refl : process_batch_sync = fun sstate step fuel eng es => run_loop sstate step fuel true eng [] es acc0).
Check (eq_refl : process = fun sstate step fuel eng e => run_loop sstate step fuel false eng [(e, 0)] [] acc0).

Print Assumptions C16_entry_points_agree.
Print Assumptions C16_entry_points_terminate.
