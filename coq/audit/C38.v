From Coq Require Import String Sorting.Sorted.
From VP Require Import Base.Tactics Raft.Model Raft.Arms Raft.Gen_Commands Raft.ProofsSM Raft.ProofsLog Raft.ProofsRecover Raft.ProofsAgree
     Raft.Sync Raft.Gen_Replication Raft.ProofsSync.
From VP Require Import Raft.Props.
Open Scope Z_scope.
Check (C38_sync_idempotent :
  forall rs v, insync rs v -> veq (sync rs v) v).
Print Assumptions C38_sync_idempotent.
Check (C38_replicated_changes_stay_in_sync :
  forall ds rs v,
    insync rs v -> insync (apply_all (map cmd_of_delta ds) rs) (fold_left apply_delta ds v)).
Print Assumptions C38_replicated_changes_stay_in_sync.
Check (C38_no_revert :
  forall ds rs v, insync rs v ->
    veq (sync (apply_all (map cmd_of_delta ds) rs) (fold_left apply_delta ds v)) (fold_left apply_delta ds v)).
Print Assumptions C38_no_revert.
Check (C38_reachable_in_sync :
  forall ds, insync (apply_all (map cmd_of_delta ds) cstate0) (fold_left apply_delta ds view0)).
Print Assumptions C38_reachable_in_sync.
Check (C38_unreplicated_change_reverted :
  forall k,
    insync ex_rs ex_view /\ kind_of (ex_unreplicated k) = k /\
    ~ veq (sync ex_rs (apply_delta ex_view (ex_unreplicated k))) (apply_delta ex_view (ex_unreplicated k))).
Print Assumptions C38_unreplicated_change_reverted.
Check (C38_operations_replicate_their_changes :
  forall o,
    ~ Known_C38_not_replicated o -> covered (gen_replicates o) o = true).
Print Assumptions C38_operations_replicate_their_changes.
Check (C38_not_replicated_refuted :
  exists o, Known_C38_not_replicated o /\ covered (gen_replicates o) o = false).
Print Assumptions C38_not_replicated_refuted.
