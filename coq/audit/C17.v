(* Pins the C17 statements and prints what they depend on. Compiled on every run. *)
From Coq Require Import Permutation.
From VP Require Import Base.Tactics Dispatch.Gen_Consts Dispatch.Model Dispatch.Spec Dispatch.ProofsRouter Dispatch.Props.

Check (C17_router_insertion_order :
  forall (regs : list (N * N)) (t : N),
    routes_or_empty (register_all [] regs) t =
    fold_left push_new (map snd (filter (fun ts => (fst ts =? t)%N) regs)) [] /\
    NoDup (routes_or_empty (register_all [] regs) t) /\
    (forall s, In s (routes_or_empty (register_all [] regs) t) <-> In (t, s) regs)).
Check (C17_router_of_program :
  forall (sstate : Type) (init_state : N -> sstate) (p : program) (t : N),
    NoDup (routes_or_empty (e_router (load sstate init_state empty_engine p)) t) /\
    (forall s, In s (routes_or_empty (e_router (load sstate init_state empty_engine p)) t) <->
               exists d, In (s, d) p /\ In t (sd_keys d))).
Check (C17_due_exactly_once :
  forall (sstate : Type) (step_stream : N -> sstate -> event -> sstate * list event * list event)
         (init_state : N -> sstate) (p : program) (eng : engine sstate) (e : event) (d : nat),
    reachable sstate step_stream init_state p eng ->
    NoDup (due sstate eng (e, d)) /\
    (forall s e' d',
        In (s, e', d') (due sstate eng (e, d)) <->
        e' = e /\ d' = d /\ d < MAX_CHAIN_DEPTH /\
        In s (routes_or_empty (e_router eng) (ety e)) /\
        find_stream (e_streams eng) s <> None)).
Check (C17_exactly_once :
  forall (sstate : Type) (step_stream : N -> sstate -> event -> sstate * list event * list event)
         (sync : bool) (fuel : nat) (eng : engine sstate) (bs : list (list event)) (r : engine sstate * acc),
    process_batches sstate step_stream fuel sync eng bs = Some r ->
    map handoff (a_trace (snd r)) = flat_map (due sstate eng) (a_popped (snd r)) /\
    Permutation (a_popped (snd r))
                (tag 0 (concat bs) ++ flat_map (queued_by sstate sync eng) (a_trace (snd r)))).
Check (C17_exactly_once_per_event :
  forall (sstate : Type) (step_stream : N -> sstate -> event -> sstate * list event * list event)
         (fuel : nat) (eng : engine sstate) (es : list event) (r : engine sstate * acc),
    process_each sstate step_stream fuel eng es = Some r ->
    map handoff (a_trace (snd r)) = flat_map (due sstate eng) (a_popped (snd r)) /\
    Permutation (a_popped (snd r))
                (tag 0 es ++ flat_map (queued_by sstate false eng) (a_trace (snd r)))).
(* register_all is a fold of the model's add_route *)
Check (eq_refl : register_all = fun r regs => fold_left (fun r ts => add_route r (fst ts) (snd ts)) regs r).

Print Assumptions C17_router_insertion_order.
Print Assumptions C17_router_of_program.
Print Assumptions C17_due_exactly_once.
Print Assumptions C17_exactly_once.
Print Assumptions C17_exactly_once_per_event.
