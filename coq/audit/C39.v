From Coq Require Import String.
From VP Require Import Base.Tactics Text.Str Text.Connector Text.ConnectorProofs Text.ConnectorProps.
Open Scope N_scope.

Check (C39_roundtrip :
  forall c : connector, validate c = true ->
    exists ps, parse_decl (to_vpl_declaration c) = Some (cname c, ctype c, ps)
               /\ declared_params ps = stored_params c).
Print Assumptions C39_roundtrip.

Check (C39_injected_declarations :
  forall (source : str) (cs : list connector),
    (forall c, In c cs -> validate c = true) ->
    (forall d, In d (preamble_decls source cs) ->
       exists c ps, In c cs /\ In (cname c) (find_missing source)
                    /\ parse_decl d = Some (cname c, ctype c, ps)
                    /\ declared_params ps = stored_params c)
    /\ (forall n c, In n (find_missing source) -> lookup_conn n cs = Some c ->
          In (to_vpl_declaration c) (preamble_decls source cs))).
Print Assumptions C39_injected_declarations.

Check (C39_rest_unchanged :
  forall (source : str) (cs : list connector),
    forallb (fun c => negb (append_mode c)) cs = true ->
    fst (inject source cs)
    = (concat (map (fun d => d ++ [10]) (preamble_decls source cs)) ++ source)%list).
Print Assumptions C39_rest_unchanged.

Print Assumptions C39_nonvacuous.
Print Assumptions C39_unvalidated_counterexamples.
