(* Pins the C05 statements. Compiled on every run. *)
From VP Require Import Base.Tactics Zdd.Model Zdd.ProofsBase Zdd.ProofsPwo Zdd.ProofsArena
  Sase.Model Sase.ProofsBounds Sase.ProofsSound Sase.ProofsSoundEngine Sase.ProofsCompile Sase.ProofsKleene Sase.Props.
Check (C05_runs_bound :
  forall g evs en', 1 <= g_max_runs g -> run_engine g engine0 evs = Some en' ->
    runs_bounded (g_max_runs g) en').
Check (C05_enumeration_cap :
  forall r k p mx, KInv k -> k_needs k = true ->
  exists ms, enumerate r k p mx = Some ms /\ length ms <= Nat.max mx 1).
Check (eq_refl : runs_bounded = fun mx en =>
  length (e_runs en) <= mx /\ Forall (fun p => length (snd p) <= mx) (e_parts en)).
From VP Require Import Sase.ProofsNoPanic.
Check (C05_never_panics :
  forall steps negs part max_runs st lim evs,
    exists en', run_engine (mkCfg (compile steps) negs part max_runs st lim) engine0 evs = Some en').
Check (C05_step_never_panics :
  forall g en x, closed (g_nfa g) -> engine_safe (g_nfa g) en ->
    exists en' ms, process g en x = Some (en', ms) /\ engine_safe (g_nfa g) en').
Check (eq_refl : run_engine = fix run_engine (g : config) (en : engine) (evs : list event) : option engine :=
  match evs with
  | [] => Some en
  | e :: rest => match process g en e with Some (en', _) => run_engine g en' rest | None => None end
  end).
From VP Require Import Sase.ProofsCompile.
Check (C05_kleene_events_bound :
  forall steps negs part max_runs st lim evs en',
    count_all steps <= 1 -> (1 <= max_events lim)%N ->
    run_engine (mkCfg (compile steps) negs part max_runs st lim) engine0 evs = Some en' ->
    forall r, (In r (e_runs en') \/ exists k rs, In (k, rs) (e_parts en') /\ In r rs) -> r_inval r = false ->
      forall k, r_kc r = Some k -> (N.of_nat (length (k_events k)) <= max_events lim)%N).
Print Assumptions C05_kleene_events_bound.
Print Assumptions C05_never_panics.
Print Assumptions C05_runs_bound.
Print Assumptions C05_enumeration_cap.
