(* Pins the C05 statements. Compiled on every run. *)
From VP Require Import Base.Tactics Zdd.Model Zdd.ProofsBase Zdd.ProofsPwo Zdd.ProofsArena
  Sase.Model Sase.ProofsBounds Sase.ProofsSound Sase.ProofsSoundEngine Sase.ProofsCompile Sase.ProofsKleene Sase.Props.
Check (C05_runs_bound :
  forall g evs en', 1 <= g_max_runs g -> run_engine g engine0 evs = Some en' ->
    runs_bounded (g_max_runs g) en').
Check (C05_enumeration_cap :
  forall r k p mx, KInv k -> k_needs k = true ->
  exists ms, enumerate r k p mx = Some ms /\ length ms <= Nat.max mx 1).
Check (eq_refl : runs_bounded = fun mx en =>
  length (e_runs en) <= mx /\ Forall (fun p => length (snd p) <= mx) (e_parts en)).
Print Assumptions C05_runs_bound.
Print Assumptions C05_enumeration_cap.
