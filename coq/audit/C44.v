(* Pins the C44 statements and prints what they depend on. Compiled on every run. *)
From Coq Require Import List ZArith NArith Bool.
From VP Require Import Codec.Model Codec.Proofs Codec.ProofsApi Codec.Props Codec.Gen_ApiArms Codec.PropsArms.
Import ListNotations.
Open Scope Z_scope.

Check (C44_roundtrip : forall j, payload_wf j = true -> ~ (has_bigint j = true) ->
  value_to_json (json_to_value j) = j /\ same_kind j (json_to_value j) = true).
Check (C44_bigint_refuted :
  exists j, payload_wf j = true /\ has_bigint j = true /\
            ~ (value_to_json (json_to_value j) = j /\ same_kind j (json_to_value j) = true)).
Check (C44_bigint_always_float : forall z, 9223372036854775808 <= z -> exists b, json_to_value (JInt z) = VFloat b).
Check (eq_refl : same_kind = fun j v =>
  match j, v with
  | JNull, VNull | JBool _, VBool _ | JInt _, VInt _ | JFlt _, VFloat _ | JStr _, VStr _ | JArr _, VArr _ | JObj _, VMap _ => true
  | _, _ => false
  end).
Check (eq_refl : has_bigint (JArr [JInt 9223372036854775807; JObj [([1%N], JInt (-9223372036854775808))]]) = false).
Check (eq_refl : has_bigint (JObj [([1%N], JArr [JInt 9223372036854775808])]) = true).
Check (eq_refl : payload_wf (JObj [([1%N], JNull); ([1%N], JNull)]) = false).
Check (eq_refl : json_to_value (JInt 18446744073709551615) = VFloat 4895412794951729152).

Check (C44_arms_value_to_json : arms_value_to_json = expected_out_arms).
Check (C44_arms_json_from_value : arms_json_from_value = expected_out_arms).
Check (C44_arms_json_to_runtime_value : arms_json_to_runtime_value = expected_in_arms).

Print Assumptions C44_roundtrip.
Print Assumptions C44_bigint_refuted.
Print Assumptions C44_bigint_always_float.
Print Assumptions C44_arms_value_to_json.
Print Assumptions C44_arms_json_from_value.
Print Assumptions C44_arms_json_to_runtime_value.
