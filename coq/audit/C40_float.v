From VP Require Import Base.Tactics Value.Model Value.ProofsBase Value.ProofsEq Value.ProofsHash Value.FloatSpec Value.Props.
From Flocq Require Import IEEE754.Binary IEEE754.Bits.
Open Scope Z_scope.

Check (C40_float_nan_is_ieee : forall x, 0 <= x < 18446744073709551616 ->
  Model.is_nan x = Binary.is_nan 53 1024 (b64_of_bits x)).
Print Assumptions C40_float_nan_is_ieee.

Check (C40_float_eq_is_ieee : forall x y, 0 <= x < 18446744073709551616 -> 0 <= y < 18446744073709551616 ->
  ieee_eq x y = match Bcompare 53 1024 (b64_of_bits x) (b64_of_bits y) with Some Eq => true | _ => false end).
Print Assumptions C40_float_eq_is_ieee.
