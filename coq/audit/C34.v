From VP Require Import Base.Tactics Coord.Model Coord.Route Coord.RouteProps.
