From VP Require Import Base.Tactics Watermark.Model Watermark.Props.
