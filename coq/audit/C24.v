From VP Require Import Base.Tactics Watermark.Model Watermark.Run Watermark.Proofs Watermark.Props.
Open Scope Z_scope.

Check (C24_monotone : forall ops t n,
  ops_ok t ops -> wm_le (wm_of t n) (wm_of (fold_left wstep ops t) n)).
Print Assumptions C24_monotone.

Check (C24_effective_min : forall ops,
  ops_ok tr_new ops ->
  let t := fold_left wstep ops tr_new in
  match tr_eff t with
  | Some w => is_min w (tr_src t)
  | None => forall n s, In (n, s) (tr_src t) -> s_wm s = None
  end).
Print Assumptions C24_effective_min.

Check (C24_late_only_if : forall streams ops ty ts,
  eops_ok (load_streams streams) ops ->
  let e := fold_left enext ops (load_streams streams) in
  snd (e_event e ty ts) = false ->
  exists t wm, e_tr e = Some t /\ tr_eff t = Some wm /\ is_min wm (tr_src t) /\
               ts < wm /\ forall s, In s (consumers streams ty) -> ts < wm - lateness s).
Print Assumptions C24_late_only_if.

Check (C24_gate : forall eff streams ty ts,
  gate_pass eff streams ty ts = false ->
  exists wm, eff = Some wm /\ ts < wm /\ forall s, In s (consumers streams ty) -> ts < wm - lateness s).
Print Assumptions C24_gate.
