From Coq Require Import String Sorting.Sorted.
From VP Require Import Base.Tactics Raft.Model Raft.Arms Raft.Gen_Commands Raft.ProofsSM Raft.ProofsLog Raft.ProofsRecover Raft.ProofsAgree
     Raft.Sync Raft.Gen_Replication Raft.ProofsSync.
From VP Require Import Raft.Props.
Open Scope Z_scope.
Check (C36_recover :
  forall (G : list entry) (ops : list op) (d : disk),
    ground_ok G -> wf_hist G rstore0 ops -> In d (crash_disks ops rstore0) ->
    r_disk (ropen d) = d /\
    r_sm (ropen d) = sm_apply (gprefix G (acnt (d_applied d))) smv0).
Print Assumptions C36_recover.
Check (C36_recover_state :
  forall G ops d,
    ground_ok G -> wf_hist G rstore0 ops -> In d (crash_disks ops rstore0) ->
    sv_state (r_sm (ropen d)) = apply_all (cmds_of (gprefix G (acnt (d_applied d)))) cstate0).
Print Assumptions C36_recover_state.
Check (C36_restart_invisible :
  forall G ops,
    ground_ok G -> wf_hist G rstore0 ops -> ropen (r_disk (rs_run ops rstore0)) = rs_run ops rstore0).
Print Assumptions C36_restart_invisible.
Check (C36_example_conforming :
  ground_ok ex_G /\ wf_hist ex_G rstore0 ex_ops).
Print Assumptions C36_example_conforming.
Check (C36_example_nontrivial :
  exists d, nth_error (crash_disks ex_ops rstore0) 4 = Some d /\
            map fst (d_log d) = [2] /\
            pipeline_groups (sv_state (r_sm (ropen d))) = [(5%N, JNum 1)]).
Print Assumptions C36_example_nontrivial.
Check (C36_log_only_recovery_refuted :
  exists d, In d (crash_disks ex_ops rstore0) /\
            recover_state_log_only d <> sv_state (sm_apply (gprefix ex_G (acnt (d_applied d))) smv0)).
Print Assumptions C36_log_only_recovery_refuted.
