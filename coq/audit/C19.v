(* Pins the C19 statements and prints what they depend on. Compiled on every run. *)
From VP Require Import Base.Tactics Window.Model Window.Run Ckpt.Model Ckpt.Run Ckpt.ProofsRun Ckpt.Props.
Open Scope Z_scope.

Check (C19_windows :
  forall (k : kind) (ops : list cop),
    known_slide_counter k = false -> known_subms ops = false ->
    adds_only (fst (crun (init k) ops)) = adds_only (fst (crun (init k) (filter is_add ops)))).
Check (C19_slide_counter_refuted :
  exists (k : kind) (ops : list cop),
    known_slide_counter k = true /\ known_subms ops = false /\
    adds_only (fst (crun (init k) ops)) <> adds_only (fst (crun (init k) (filter is_add ops)))).
Check (C19_subms_refuted :
  (exists ops, known_subms ops = true /\
     adds_only (fst (crun (init (KTumbling 1000000)) ops))
     <> adds_only (fst (crun (init (KTumbling 1000000)) (filter is_add ops)))) /\
  (exists ops, known_subms ops = true /\
     adds_only (fst (crun (init (KCount 2)) ops))
     <> adds_only (fst (crun (init (KCount 2)) (filter is_add ops))))).
Check (C19_distinct :
  forall (cap : nat) (keys : list N),
    let d := fold_left (fun a k => fst (d_insert a k)) keys (mkD cap []) in
    d_restore d (d_checkpoint d) = d).
Check (C19_limit : forall l, l_restore l (l_checkpoint l) = l).
(* the classes are what they say *)
Check (eq_refl : known_slide_counter = fun k => match k with
  | KSlidingCount _ slide | KPSlidingCount _ slide => (1 <? slide)%nat | _ => false end).
Check (eq_refl : known_subms = fun ops =>
  existsb (fun o => match o with CAdd e => negb (of_ms (to_ms (ets e)) =? ets e) | CCp => false end) ops).

Print Assumptions C19_windows.
Print Assumptions C19_slide_counter_refuted.
Print Assumptions C19_subms_refuted.
Print Assumptions C19_distinct.
Print Assumptions C19_limit.
