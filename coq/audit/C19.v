(* Pins the C19 statements and prints what they depend on. Compiled on every run. *)
From VP Require Import Base.Tactics Window.Model Window.Run Ckpt.Model Ckpt.Run Ckpt.ProofsRun Ckpt.Props.
Open Scope Z_scope.

Check (C19_windows :
  forall (k : kind) (ops : list cop),
    known_slide_counter k = false -> known_subms ops = false ->
    adds_only (fst (crun (init k) ops)) = adds_only (fst (crun (init k) (filter is_add ops)))).
Check (C19_slide_counter_refuted :
  exists (k : kind) (ops : list cop),
    known_slide_counter k = true /\ known_subms ops = false /\
    adds_only (fst (crun (init k) ops)) <> adds_only (fst (crun (init k) (filter is_add ops)))).
Check (C19_subms_refuted :
  (exists ops, known_subms ops = true /\
     adds_only (fst (crun (init (KTumbling 1000000)) ops))
     <> adds_only (fst (crun (init (KTumbling 1000000)) (filter is_add ops)))) /\
  (exists ops, known_subms ops = true /\
     adds_only (fst (crun (init (KCount 2)) ops))
     <> adds_only (fst (crun (init (KCount 2)) (filter is_add ops))))).
Check (C19_distinct :
  forall (cap : nat) (keys : list N),
    let d := fold_left (fun a k => fst (d_insert a k)) keys (mkD cap []) in
    d_restore d (d_checkpoint d) = d).
Check (C19_limit : forall l, l_restore l (l_checkpoint l) = l).
(* the classes are what they say *)
Check (eq_refl : known_slide_counter = fun k => match k with
  | KSlidingCount _ slide | KPSlidingCount _ slide => (1 <? slide)%nat | _ => false end).
Check (eq_refl : known_subms = fun ops =>
  existsb (fun o => match o with CAdd e => negb (of_ms (to_ms (ets e)) =? ets e) | CCp => false end) ops).

Print Assumptions C19_windows.
Print Assumptions C19_slide_counter_refuted.
Print Assumptions C19_subms_refuted.
Print Assumptions C19_distinct.
Print Assumptions C19_limit.

(* watermark tracker part (Watermark/Ckpt.v) *)
From VP Require Import Watermark.Model Watermark.Run Watermark.Ckpt Watermark.CkptProofs Watermark.PropsCkpt.
Open Scope list_scope.
Check (C19_watermark_tracker : forall regs ops,
  fold_left (cwstep (reg_all regs)) ops (reg_all regs) = fold_left wstep (strip_w ops) (reg_all regs)).
Check (C19_watermark_restore_exact : forall regs ops,
  let t0 := reg_all regs in
  let t := fold_left wstep ops t0 in
  tr_restore t0 (tr_ckpt t) = t).
Check (C19_watermark_engine : forall streams ops,
  cerun false streams (load_streams streams) ops = erun2 (load_streams streams) (strip_e ops)).
(* the definitions the statements rest on are what they say *)
Check (eq_refl : tr_restore = fun t cp =>
  mkTr (fold_left (fun m p => sset (fst p) (snd p) m) (cp_src cp) (tr_src t)) (cp_eff cp)).
Check (eq_refl : cwstep = fun t0 t o => match o with CW o => wstep t o | CWCkr => tr_restore t0 (tr_ckpt t) end).
Check (eq_refl : strip_e = fun ops => flat_map (fun o => match o with CE o => [o] | CECkr => [] end) ops).
Print Assumptions C19_watermark_tracker.
Print Assumptions C19_watermark_restore_exact.
Print Assumptions C19_watermark_engine.
