From VP Require Import Base.Tactics Cmp.F64 Cmp.Arms Cmp.Gen_EvalArms Cmp.Model Cmp.Props_C08.

Check (C08_total :
  forall (f : fn) (o : cop) (l r : value),
    In o [OLt; OLe; OGt; OGe] -> In (ty_of l) [TInt; TFloat] -> In (ty_of r) [TInt; TFloat] ->
    exists b, eval_cmp f o l r = Some (VBool b)).
Print Assumptions C08_total.
