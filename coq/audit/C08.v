From Coq Require Import Reals.
From Flocq Require Import Core IEEE754.BinarySingleNaN.
From VP Require Import Base.Tactics Cmp.F64 Cmp.Arms Cmp.Gen_EvalArms Cmp.Model Cmp.Classes Cmp.Proofs_C08 Cmp.Props_C08.

Check (C08_total :
  forall (f : fn) (o : cop) (l r : value),
    In o [OLt; OLe; OGt; OGe] -> In (ty_of l) [TInt; TFloat] -> In (ty_of r) [TInt; TFloat] ->
    ~ Known_C08_binop_mixed_le_ge f o l r ->
    exists b, eval_cmp f o l r = Some (VBool b)).
Print Assumptions C08_total.
Print unit. (* ends the axiom block in the transcript *)

Check (C08_order :
  forall (f : fn) (o : cop) (r : rel) (a b : value),
    rel_of_cop o = Some r -> finite_num a -> finite_num b ->
    ~ Known_C08_binop_mixed_le_ge f o a b ->
    exists t, eval_cmp f o a b = Some (VBool t) /\ (t = true <-> R_rel r (num_val a) (num_val b))).
Print Assumptions C08_order.
Print unit. (* ends the axiom block in the transcript *)

Check (C08_order_sase :
  forall (o : cop) (r : rel) (a b : value),
    rel_of_cop o = Some r -> finite_num a -> finite_num b ->
    (compare_values a b o = true <-> R_rel r (num_val a) (num_val b))).
Print Assumptions C08_order_sase.
Print unit. (* ends the axiom block in the transcript *)

Check (C08_ge_iff :
  forall (f : fn) (a b : value), finite_num a -> finite_num b ->
    ~ Known_C08_binop_mixed_le_ge f OGe a b ->
    (eval_cmp f OGe a b = Some (VBool true) <->
     eval_cmp f OGt a b = Some (VBool true) \/ num_val a = num_val b)).
Print Assumptions C08_ge_iff.
Print unit. (* ends the axiom block in the transcript *)

Check (C08_cmp_int_float_exact :
  forall (i : Z) (x : f64), is_finite x = true -> (- 2 ^ 63 <= i < 2 ^ 63)%Z ->
    cmp_int_float i x = Some (Rcompare (IZR i) (B2R x))).
Print Assumptions C08_cmp_int_float_exact.
Print unit. (* ends the axiom block in the transcript *)

Check (C08_binop_mixed_le_ge_refuted :
  exists (f : fn) (o : cop) (a b : value),
    Known_C08_binop_mixed_le_ge f o a b /\ In o [OLt; OLe; OGt; OGe] /\ finite_num a /\ finite_num b /\
    ~ (exists t, eval_cmp f o a b = Some (VBool t))).
Print Assumptions C08_binop_mixed_le_ge_refuted.
Print unit. (* ends the axiom block in the transcript *)

Check (C08_expr_never_known :
  forall (o : cop) (l r : value), ~ Known_C08_binop_mixed_le_ge FExpr o l r).
Print Assumptions C08_expr_never_known.
Print unit. (* ends the axiom block in the transcript *)

Print Known_C08_binop_mixed_le_ge.
Print binop_mixed_le_ge.
(* the vocabulary of the statements, so that the pins cannot be weakened silently *)
Print num_val.
Print finite_num.
Print R_rel.
