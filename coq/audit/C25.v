(* Pins the C25 statements and prints what they depend on. Compiled on every run. *)
From Coq Require Import String.
From VP Require Import Base.Tactics Trend.Model Trend.Proofs Trend.ProofsHamlet Trend.Props.
Open Scope N_scope.

Check (C25_dp_spec : forall q es, dp_count q es = trends q es).
Check (C25_hamlet_correct : forall qs es i q,
  nth_error qs i = Some q -> has_kleene q -> ~ Known_C25_hamlet q es ->
  nth i (h_flush qs es) 0 = trends q es /\
  forall k out, nth_error (h_reports qs es) k = Some out -> nth_error out i = Some None).
Check (C25_sharing_invariant : forall qs es i q,
  nth_error qs i = Some q -> has_kleene q -> ~ Known_C25_hamlet q es ->
  nth i (h_flush qs es) 0 = nth 0 (h_flush [q] es) 0).
Check (C25_hamlet_correct_refuted :
  exists q es, Known_C25_hamlet q es /\ nth 0 (h_flush [q] es) 0 <> trends q es).
Check (C25_hamlet_incremental_refuted :
  exists q es out, nth_error (h_reports [q] es) 2 = Some out /\ nth_error out 0 = Some (Some 2) /\ trends q es = 1).
Check (C25_sharing_invariant_refuted :
  exists q q' es, nth 0 (h_flush [q; q'] es) 0 <> nth 0 (h_flush [q] es) 0 /\ nth 1 (h_flush [q; q'] es) 0 <> trends q' es).
Check (C25_greta_correct_refuted :
  exists q es, g_flush [q] es <> [trends q es] /\ snd (g_run [q] (g_init [q]) es) = [[0]; [1]; [4]]).
Check (C25_greta_sharing_refuted :
  exists q q' es, nth 0 (g_flush [q; q'] es) 0 <> nth 0 (g_flush [q] es) 0).

(* the notions the statements use *)
Check (eq_refl : trends = fun q es => N.of_nat (length (filter (accepts q) (sublists es)))).
Check (eq_refl : Known_C25_hamlet = fun q es => exists t, In t es /\ memN t (kleene_types q) = true).
Check (eq_refl : has_kleene = fun q => exists k, In k (q_kleene q) /\ (k < qlen q)%nat).

Print Assumptions C25_dp_spec.
Print Assumptions C25_hamlet_correct.
Print Assumptions C25_sharing_invariant.
Print Assumptions C25_hamlet_correct_refuted.
Print Assumptions C25_hamlet_incremental_refuted.
Print Assumptions C25_sharing_invariant_refuted.
Print Assumptions C25_greta_correct_refuted.
Print Assumptions C25_greta_sharing_refuted.
