From Coq Require Import String.
From VP Require Import Base.Tactics Trend.Model Trend.Props.
Open Scope N_scope.
Print Assumptions C25_hamlet_correct_refuted.
