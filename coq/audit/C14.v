(* Pins the C14 statements and prints what they depend on. Compiled on every run. *)
From Coq Require Import QArith List ZArith NArith Bool SetoidList.
From VP Require Import Agg.Model Agg.Spec Agg.Props.
Import ListNotations.
Open Scope Q_scope.

Check (C14_sum : forall avx p evs f,
  res_eq (apply avx p ASum evs f) (RNum (XNum (Qsum (vals evs (fld f)))))).
Check (C14_avg : forall avx p evs f,
  res_eq (apply avx p AAvg evs f)
         (match vals evs (fld f) with [] => RNull | v => RNum (XNum (Qsum v / Qlen v)) end)).
Check (C14_minmax : forall avx p evs f,
  match vals evs (fld f) with
  | [] => apply avx p AMin evs f = RNull /\ apply avx p AMax evs f = RNull
  | v => exists lo hi, apply avx p AMin evs f = RNum (XNum lo) /\ apply avx p AMax evs f = RNum (XNum hi) /\
                       In lo v /\ In hi v /\ forall x, In x v -> lo <= x /\ x <= hi
  end).
Check (C14_stddev : forall avx p evs f,
  let xs := nums evs (fld f) in
  res_eq (apply avx p AStdDev evs f)
         (if (length xs <? 2)%nat then RNull
          else if has_nan xs then RNum XNaN
               else RSqrt (Qsum (map (fun x => (x - mean (non_nan xs)) * (x - mean (non_nan xs))) (non_nan xs))
                           / (Qlen (non_nan xs) - 1)))).
Check (C14_ema : forall avx p period evs f,
  let xs := nums evs (fld f) in
  res_eq (apply avx p (AEma period) evs f)
         (match xs with
          | [] => RNull
          | _ => if has_nan xs then RNum XNaN
                 else RNum (XNum (ema_explicit (2 / (inject_Z period + 1)) (non_nan xs)))
          end)).
Check (C14_first_last : forall avx p evs f,
  apply avx p AFirst evs f
  = match evs with [] => RNull | e :: _ => match lookup (fld f) e with Some v => res_of_fval v | None => RNull end end
  /\ apply avx p ALast evs f
     = match rev evs with [] => RNull | e :: _ => match lookup (fld f) e with Some v => res_of_fval v | None => RNull end end).
Check (C14_count : forall avx p evs f, apply avx p ACount evs f = RInt (Z.of_nat (length evs))).
Check (C14_count_distinct : forall avx p evs f reps,
  NoDupA feq reps ->
  (forall v, InA feq v reps <-> InA feq v (present evs (fld f))) ->
  apply avx p ACountDistinct evs f = RInt (Z.of_nat (length reps))).
Check (C14_expr : forall avx p l lf op r rf evs f,
  apply avx p (AExpr l lf op r rf) evs f
  = expr_combine op (apply avx (match p with PCol => PRefs | _ => p end) l evs lf)
                    (apply avx (match p with PCol => PRefs | _ => p end) r evs rf)).
Check (C14_expr_arith : forall a b,
  xq_eq (float_op Add (XNum a) (XNum b)) (XNum (a + b)) /\
  xq_eq (float_op Sub (XNum a) (XNum b)) (XNum (a - b)) /\
  xq_eq (float_op Mul (XNum a) (XNum b)) (XNum (a * b)) /\
  (~ b == 0 -> xq_eq (float_op Div (XNum a) (XNum b)) (XNum (a / b))) /\
  (b == 0 -> float_op Div (XNum a) (XNum b) = XNaN)).
Check (C14_paths_agree : forall avx a evs f,
  apply avx PRow a evs f = apply avx PRefs a evs f /\ apply avx PRefs a evs f = apply avx PCol a evs f).
Check (C14_simd_variants_agree : forall p a evs f, res_eq (apply true p a evs f) (apply false p a evs f)).
Check (C14_meets_spec : forall avx p a evs f,
  match a with AExpr _ _ _ _ _ => True | _ => res_eq (apply avx p a evs f) (spec1 a evs (fld f)) end).

Print Assumptions C14_sum.
Print Assumptions C14_avg.
Print Assumptions C14_minmax.
Print Assumptions C14_stddev.
Print Assumptions C14_ema.
Print Assumptions C14_first_last.
Print Assumptions C14_count.
Print Assumptions C14_count_distinct.
Print Assumptions C14_expr.
Print Assumptions C14_expr_arith.
Print Assumptions C14_paths_agree.
Print Assumptions C14_simd_variants_agree.
Print Assumptions C14_meets_spec.
