(* C04: the theorems it rests on (pattern soundness of the SASE model). Compiled on every run. *)
From VP Require Import Base.Tactics Zdd.Model Sase.Model Sase.ProofsBounds Sase.ProofsSound Sase.ProofsSoundEngine
  Sase.ProofsCompile Sase.Props.
Check (C01_step_invariant :
  forall g P en x en' ms, flags_ok (g_nfa g) -> all_good g P en -> process g en x = Some (en', ms) ->
    all_good g (P ++ [x]) en' /\ Forall (genuine (g_nfa g) (g_negs g) (P ++ [x])) ms).
Print Assumptions C01_step_invariant.
