(* C04: pattern part. Compiled on every run. *)
From VP Require Import Base.Tactics Zdd.Model Sase.Model Sase.ProofsBounds Sase.ProofsSound Sase.ProofsSoundEngine
  Sase.ProofsCompile Sase.ProofsKeyed Sase.Props.
Check (C04_matches_single_key :
  forall g f evs out, g_part g = Some f -> run_tagged g engine0 evs = Some out ->
    Forall (fun p => Forall (match_keyed f (ekey f (fst p))) (snd p)) out).
Check (C04_runs_single_key :
  forall g f en x en' ms, g_part g = Some f -> parts_keyed f (e_parts en) -> process g en x = Some (en', ms) ->
    parts_keyed f (e_parts en') /\ Forall (match_keyed f (ekey f x)) ms).
Check (eq_refl : match_keyed = fun f k m =>
  exists st, Forall (fun p => ekey f (fst p) = k) st /\ m_stack m = map (fun p => eid (fst p)) st).
Check (eq_refl : ekey = fun f e => match get f e with Some v => KVal v | None => KMissing end).
From Coq Require Import Permutation.
From VP Require Import Sase.Ref.
Check (C04_sequence_patterns_decompose :
  forall s0 rest0 part max_runs st lim evs keys,
    Forall (fun s => st_all s = false) (s0 :: rest0) -> rest0 <> [] -> length evs <= max_runs ->
    NoDup keys -> (forall e, In e evs -> In (key_of part e) keys) ->
    let g := mkCfg (compile (s0 :: rest0)) [] part max_runs st lim in
    exists l ls, engine_stacks g engine0 evs = Some l /\
      Forall2 (fun k lk => engine_stacks g engine0 (filter (fun e => pkey_eqb (key_of part e) k) evs) = Some lk) keys ls /\
      Permutation l (concat ls)).
Print Assumptions C04_sequence_patterns_decompose.
Print Assumptions C04_matches_single_key.
Print Assumptions C04_runs_single_key.
