From Coq Require Import String Ascii List Bool Arith.
Import ListNotations.
From VP Require Import Path.Model Path.Proofs Path.Props.

Check (C31_inside : forall (root : node) (es : list (string * node)) (p wd : string) (q : list string),
  root = NDir es ->
  validate_path root p wd = VOk q ->
  exists wdc suffix wdn n,
    canonicalize root wd = Ok wdc /\
    canonicalize root (if is_absolute p then p else join wd p) = Ok q /\
    q = wdc ++ suffix /\
    lookup root wdc = Some wdn /\ lookup wdn suffix = Some n /\ not_link n /\ not_link wdn).
Print Assumptions C31_inside.
Check (C31_canonical_is_physical : forall (root : node) (es : list (string * node)) (p : string) (q : list string),
  root = NDir es -> canonicalize root p = Ok q -> exists n, lookup root q = Some n /\ not_link n).
Print Assumptions C31_canonical_is_physical.
Check (C31_escape_rejected : forall (root : node) (p wd : string) (wdc q : list string),
  canonicalize root wd = Ok wdc ->
  canonicalize root (if is_absolute p then p else join wd p) = Ok q ->
  is_prefix wdc q = false ->
  validate_path root p wd = VTraversal).
Print Assumptions C31_escape_rejected.
Check (C31_fuel_irrelevant : forall (fuel k : nat) (root : node) (resolved todo : list string) (links : nat) (q : list string),
  resolve fuel root resolved todo links = Ok q -> resolve (fuel + k) root resolved todo links = Ok q).
Print Assumptions C31_fuel_irrelevant.
Check (C31_fuel_sufficient : forall (root : node) (todo : list string) (k : nat),
  resolve (fuel_for root todo + k) root [] todo 0 = resolve (fuel_for root todo) root [] todo 0).
Print Assumptions C31_fuel_sufficient.
