From VP Require Import Base.Tactics Ctx.Model Ctx.Run Ctx.Proofs Ctx.ProofsLive Ctx.ProofsCut Ctx.ProofsRun Ctx.Props.

Check (C26_delivery : forall cfg sched s,
  mode cfg = Block -> run cfg init sched = Some s ->
  forall a b, a <> b ->
    recv_from a (g_recv (cs s b)) ++ inflight a (inbox (cs s b)) = sent_to b (g_sent (cs s a))).
Print Assumptions C26_delivery.

Check (C26_delivered_when_drained : forall cfg sched s a b,
  mode cfg = Block -> run cfg init sched = Some s -> a <> b -> inbox (cs s b) = [] ->
  recv_from a (g_recv (cs s b)) = sent_to b (g_sent (cs s a))).
Print Assumptions C26_delivered_when_drained.

Check (C26_blocking_variant : forall cfg sched s s',
  mode cfg = Block -> delivery_exact s -> run cfg s sched = Some s' -> delivery_exact s').
Print Assumptions C26_blocking_variant.

Check (C26_delivery_trysend_refuted : exists cfg sched s,
  mode cfg = Drop /\ n_ctx cfg = 2 /\ cap cfg = 1 /\ run cfg init sched = Some s /\
  ~ (forall a b, a <> b -> recv_from a (g_recv (cs s b)) ++ inflight a (inbox (cs s b)) = sent_to b (g_sent (cs s a)))).
Print Assumptions C26_delivery_trysend_refuted.

Check (C26_no_deadlock_acyclic : forall cfg sched s c,
  1 <= cap cfg -> ranked cfg -> run cfg init sched = Some s ->
  c < n_ctx cfg -> has_work s c -> exists c', c' < n_ctx cfg /\ can_step cfg s c').
Print Assumptions C26_no_deadlock_acyclic.

Check (C26_two_consumers_refuted : exists cfg sched s e x,
  mode cfg = Block /\ Known_C26_two_consumers (prog cfg) = true /\
  run cfg init (Ingress e :: sched) = Some s /\ quiescent (n_ctx cfg) s /\
  In x (engine (prog cfg) e) /\ ~ In x (output s)).
Print Assumptions C26_two_consumers_refuted.

Check (C26_macro_steps_are_schedules : forall cfg fuel ms s store os ls s' store',
  forallb (fun m => negb (is_restore m)) ms = true ->
  msteps cfg fuel s store ms = (os, ls, s', store') -> run cfg s ls = Some s').
Print Assumptions C26_macro_steps_are_schedules.
