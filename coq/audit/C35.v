From Coq Require Import String.
From VP Require Import Base.Tactics Raft.Model Raft.Arms Raft.Gen_Commands Raft.ProofsSM Raft.Props.
Check (C35_apply_all_app : forall l1 l2 s, apply_all (l1 ++ l2) s = apply_all l2 (apply_all l1 s)).
Print Assumptions C35_apply_all_app.
