From Coq Require Import String Sorting.Sorted.
From VP Require Import Base.Tactics Raft.Model Raft.Arms Raft.Gen_Commands Raft.ProofsSM Raft.ProofsLog Raft.ProofsRecover Raft.ProofsAgree
     Raft.Sync Raft.Gen_Replication Raft.ProofsSync.
From VP Require Import Raft.Props.
Open Scope Z_scope.
Check (C35_batching_mem :
  forall (batches : list (list entry)) (s : mstore),
    ms_sm (fold_left (fun s b => ms_step s (OApply b)) batches s) = sm_apply (concat batches) (ms_sm s)).
Print Assumptions C35_batching_mem.
Check (C35_batching_rocks :
  forall (batches : list (list entry)) (s : rstore),
    r_sm (fold_left (fun s b => rs_step s (OApply b)) batches s) = sm_apply (concat batches) (r_sm s)).
Print Assumptions C35_batching_rocks.
Check (C35_state_is_fold :
  forall es v, sv_state (sm_apply es v) = apply_all (cmds_of es) (sv_state v)).
Print Assumptions C35_state_is_fold.
Check (C35_apply_all_app :
  forall l1 l2 s, apply_all (l1 ++ l2) s = apply_all l2 (apply_all l1 s)).
Print Assumptions C35_apply_all_app.
Check (C35_snapshot_mem :
  forall (es1 es2 : list entry) (s0 : mstore),
    ms_sm (ms_run [OInstall (leader_snapshot es1); OApply es2] s0) = sm_apply (es1 ++ es2) smv0).
Print Assumptions C35_snapshot_mem.
Check (C35_snapshot_rocks :
  forall (es1 es2 : list entry) (s0 : rstore),
    r_sm (rs_run [OInstall (leader_snapshot es1); OApply es2] s0) = sm_apply (es1 ++ es2) smv0).
Print Assumptions C35_snapshot_rocks.
Check (C35_stores_agree :
  forall ops, agree (ms_run ops mstore0) (rs_run ops rstore0)).
Print Assumptions C35_stores_agree.
Check (C35_stores_agree_log_state :
  forall ops, ms_log_state (ms_run ops mstore0) = rs_log_state (rs_run ops rstore0)).
Print Assumptions C35_stores_agree_log_state.
Check (C35_contract_sorted :
  forall ops, log_sorted (ms_log (ms_run ops mstore0))).
Print Assumptions C35_contract_sorted.
Check (C35_contract_last_log_id :
  forall ops x,
    log_last (ms_log (ms_run ops mstore0)) = Some x ->
    snd (ms_log_state (ms_run ops mstore0)) = Some x /\
    exists i e, In (i, e) (ms_log (ms_run ops mstore0)) /\ x = e_id e /\
                forall p, In p (ms_log (ms_run ops mstore0)) -> fst p <= i).
Print Assumptions C35_contract_last_log_id.
Check (C35_contract_last_log_id_empty :
  forall s, ms_log s = [] -> ms_log_state s = (ms_purged s, ms_purged s)).
Print Assumptions C35_contract_last_log_id_empty.
Check (C35_contract_purge_everything :
  forall s l,
    (forall p, In p (ms_log s) -> fst p <= l_index l) -> ms_log_state (ms_step s (OPurge l)) = (Some l, Some l)).
Print Assumptions C35_contract_purge_everything.
Check (C35_example_purge_everything :
  let l := {| l_term := 1; l_node := 1; l_index := 2 |} in
  let s := ms_run [OAppend [ {| e_id := {| l_term := 0; l_node := 1; l_index := 0 |}; e_pl := PBlank |};
                             {| e_id := {| l_term := 1; l_node := 1; l_index := 1 |}; e_pl := PBlank |};
                             {| e_id := l; e_pl := PBlank |} ]] mstore0 in
  (forall p, In p (ms_log s) -> fst p <= l_index l) /\ ms_log s <> [] /\
  ms_log_state (ms_step s (OPurge l)) = (Some l, Some l) /\
  rs_log_state (rs_step (rs_run [OAppend (map snd (ms_log s))] rstore0) (OPurge l)) = (Some l, Some l)).
Print Assumptions C35_example_purge_everything.
Check (C35_contract_range :
  forall lo hi l e,
    In e (mem_range lo hi l) <-> exists i, In (i, e) l /\ in_range lo hi i = true).
Print Assumptions C35_contract_range.
Check (C35_contract_range_rocks :
  forall lo hi l, log_sorted l -> log_nonneg l -> rk_range lo hi l = mem_range lo hi l).
Print Assumptions C35_contract_range_rocks.
Check (C35_contract_nonneg :
  forall ops, Forall op_nonneg ops -> log_nonneg (ms_log (ms_run ops mstore0))).
Print Assumptions C35_contract_nonneg.
Check (C35_contract_append :
  forall j i e l, log_get j (log_insert i e l) = if j =? i then Some e else log_get j l).
Print Assumptions C35_contract_append.
Check (C35_contract_purge :
  forall j i l, log_get j (mem_purge_upto i l) = if j <=? i then None else log_get j l).
Print Assumptions C35_contract_purge.
Check (C35_contract_delete :
  forall j i l, log_get j (mem_delete_since i l) = if i <=? j then None else log_get j l).
Print Assumptions C35_contract_delete.
Check (C35_contract_purge_rocks :
  forall i l, log_sorted l -> rk_purge_upto i l = mem_purge_upto i l).
Print Assumptions C35_contract_purge_rocks.
Check (C35_contract_delete_rocks :
  forall i l, log_sorted l -> rk_delete_since i l = mem_delete_since i l).
Print Assumptions C35_contract_delete_rocks.
Check (C35_contract_vote :
  forall m o, ms_vote (ms_step m o) = match o with OVote v => Some v | _ => ms_vote m end).
Print Assumptions C35_contract_vote.
Check (C35_contract_snapshot :
  forall m o,
    ms_snap mstore0 = None /\
    ms_snap (ms_step m o) = match o with OBuild => Some (sm_snapshot (ms_sm m)) | OInstall sn => Some sn | _ => ms_snap m end).
Print Assumptions C35_contract_snapshot.
Check (C35_no_index_panic :
  forall es1 es2, sm_panics es2 (sm_apply es1 smv0) = false).
Print Assumptions C35_no_index_panic.
Check (C35_arms_match :
  forall c, gen_arm c = model_arm c).
Print Assumptions C35_arms_match.
Check (C35_register_init_match :
  gen_register_init = model_register_init).
Print Assumptions C35_register_init_match.
Check (C35_variants_match :
  gen_variant_names = model_variant_names /\ gen_field_names = model_field_names).
Print Assumptions C35_variants_match.
Check (C35_arm_frame :
  forall s c f, f <> a_field (model_arm c) -> same_on f s (apply_command s c)).
Print Assumptions C35_arm_frame.
Check (C35_arm_effect :
  forall s c k,
    cmd_key c = Some k ->
    match a_action (model_arm c) with
    | AInsert | AInsertIfStrId => has_key (a_field (model_arm c)) k (apply_command s c) = true
    | ARemove => has_key (a_field (model_arm c)) k (apply_command s c) = false
    | AUpdateIfPresent => has_key (a_field (model_arm c)) k (apply_command s c) = has_key (a_field (model_arm c)) k s
    | AAssign => True
    end).
Print Assumptions C35_arm_effect.
