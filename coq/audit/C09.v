From VP Require Import Base.Tactics Cmp.F64 Cmp.Arms Cmp.Gen_EvalArms Cmp.Model Cmp.Classes Cmp.Props_C09.

Check (C09_agree :
  forall (f : expr) (ev : event),
    ~ Known_C09_not f ev -> ~ Known_C09_or f ev ->
    where_accepts f ev = step_accepts f ev).
Print Assumptions C09_agree.
Print unit. (* ends the axiom block in the transcript *)

Check (C09_translation_total : forall f : expr, exists p, to_pred f = Some p).
Print Assumptions C09_translation_total.
Print unit. (* ends the axiom block in the transcript *)

Check (C09_not_refuted :
  exists f ev, Known_C09_not f ev /\ where_accepts f ev <> step_accepts f ev).
Print Assumptions C09_not_refuted.
Print unit. (* ends the axiom block in the transcript *)

Check (C09_or_refuted :
  exists f ev, Known_C09_or f ev /\ where_accepts f ev <> step_accepts f ev).
Print Assumptions C09_or_refuted.
Print unit. (* ends the axiom block in the transcript *)

(* the classes, so that they cannot be widened silently *)
Print Known_C09_not.
Print Known_C09_or.
Print not_over_valueless.
Print or_with_valueless.
