From Coq Require Import String Sorting.Sorted.
From VP Require Import Base.Tactics Raft.Model Raft.Arms Raft.Gen_Commands Raft.ProofsSM Raft.ProofsLog Raft.ProofsRecover Raft.ProofsAgree
     Raft.Sync Raft.Gen_Replication Raft.ProofsSync.
From VP Require Import Raft.Props.
Open Scope Z_scope.
Check (C37_agree_partial :
  forall G ops1 ops2, ground_ok G ->
    wf_hist G rstore0 ops1 -> wf_hist G rstore0 ops2 ->
    rcnt (rs_run ops1 rstore0) = rcnt (rs_run ops2 rstore0) ->
    r_sm (rs_run ops1 rstore0) = r_sm (rs_run ops2 rstore0)).
Print Assumptions C37_agree_partial.
Check (C37_agree_after_crash_partial :
  forall G ops1 ops2 d1 d2, ground_ok G ->
    wf_hist G rstore0 ops1 -> wf_hist G rstore0 ops2 ->
    In d1 (crash_disks ops1 rstore0) -> In d2 (crash_disks ops2 rstore0) ->
    acnt (d_applied d1) = acnt (d_applied d2) ->
    r_sm (ropen d1) = r_sm (ropen d2)).
Print Assumptions C37_agree_after_crash_partial.
Check (C37_agree_mem_rocks_partial :
  forall G ops1 ops2, ground_ok G ->
    wf_hist G rstore0 ops1 -> wf_hist G rstore0 ops2 ->
    acnt (sv_applied (ms_sm (ms_run ops1 mstore0))) = rcnt (rs_run ops2 rstore0) ->
    ms_sm (ms_run ops1 mstore0) = r_sm (rs_run ops2 rstore0)).
Print Assumptions C37_agree_mem_rocks_partial.
Check (C37_ack_not_lost_partial :
  forall G ops i e c, ground_ok G -> wf_hist G rstore0 ops ->
    nth_error G i = Some e -> e_pl e = PNormal c ->
    Z.of_nat i < rcnt (rs_run ops rstore0) ->
    exists before after,
      cmds_of (gprefix G (rcnt (rs_run ops rstore0))) = (before ++ c :: after)%list /\
      sv_state (r_sm (rs_run ops rstore0)) = apply_all after (apply_command (apply_all before cstate0) c)).
Print Assumptions C37_ack_not_lost_partial.
Check (C37_example_two_nodes :
  let ops2 := [OInstall (leader_snapshot (firstn 3 ex_G)); OAppend (skipn 3 ex_G); OApply (skipn 3 ex_G)] in
  wf_hist ex_G rstore0 ops2 /\
  rcnt (rs_run ex_ops rstore0) = rcnt (rs_run ops2 rstore0) /\
  d_log (r_disk (rs_run ex_ops rstore0)) <> d_log (r_disk (rs_run ops2 rstore0))).
Print Assumptions C37_example_two_nodes.
Check (C37_restart_keeps_promises_partial :
  forall k restarts,
    ~ Known_C37_mem_store_restart k restarts -> (0 < restarts)%nat -> restart_keeps_promises k).
Print Assumptions C37_restart_keeps_promises_partial.
Check (C37_mem_store_restart_refuted :
  exists k restarts, Known_C37_mem_store_restart k restarts /\ ~ restart_keeps_promises k).
Print Assumptions C37_mem_store_restart_refuted.
