(* Pins the C06 statements and prints what they depend on. Compiled on every run. *)
From Coq Require Import String.
From VP Require Import Base.Tactics Zdd.Model Zdd.Run Zdd.ProofsBase Zdd.ProofsOps Zdd.ProofsPwo Zdd.ProofsPwoTotal
  Zdd.ProofsQuery Zdd.ProofsArena Zdd.ProofsSeq Zdd.ProofsStandalone Zdd.ProofsProduct Zdd.ProofsProductTotal Zdd.Props.
Close Scope string_scope.
Open Scope list_scope.

Check (C06_arena_sequences : forall ops fs',
  spec_run [] ops = Some fs' ->
  exists ar hs out, aruns (arena0, []) ops [] = Some (ar, hs, out) /\ AInv ar /\ Rel ar hs fs').
Check (C06_arena_sequences_conv : forall ops ar hs out,
  aruns (arena0, []) ops [] = Some (ar, hs, out) ->
  AInv ar /\ exists fs', spec_run [] ops = Some fs' /\ Rel ar hs fs').
Check (C06_count : forall ar h F, AInv ar -> denotes ar h F ->
  exists c l, count_f (S (length (atable ar))) (atable ar) h = Some c /\ c = N.of_nat (length l) /\
    NoDup l /\ forall s, In s l <-> F s).
Check (C06_contains : forall t r elems, wf t -> valid t r ->
  exists b, contains_f (S (length t)) t r (norm_set elems) = Some b /\
            (b = true <-> In_fam t r (norm_set elems))).
Check (C06_iter : forall t r, wf t -> valid t r ->
  exists l, iter_f (S (length t)) t r = Some l /\ forall s, In s l <-> In_fam t r s).
Check (C06_standalone_union : forall x y, zwf x -> zwf y ->
  exists z, z_union x y = Some z /\ zwf z /\ forall s, zmem z s <-> zmem x s \/ zmem y s).
Check (C06_standalone_intersection : forall x y, zwf x -> zwf y ->
  exists z, z_inter x y = Some z /\ zwf z /\ forall s, zmem z s <-> zmem x s /\ zmem y s).
Check (C06_standalone_difference : forall x y, zwf x -> zwf y ->
  exists z, z_diff x y = Some z /\ zwf z /\ forall s, zmem z s <-> zmem x s /\ ~ zmem y s).
Check (C06_standalone_extend_optional : forall x v, zwf x ->
  exists z, z_pwo x v = Some z /\ zwf z /\ forall s, zmem z s <-> PW v (zmem x) s).
Check (C06_standalone_from_set : forall l, zwf (z_from_set l) /\ forall s, zmem (z_from_set l) s <-> s = norm_set l).
Check (C06_standalone_singleton : forall v, zwf (z_single v) /\ forall s, zmem (z_single v) s <-> s = [v]).
Check (C06_standalone_product : forall x y, zwf x -> zwf y ->
  exists z, z_product x y = Some z /\ zwf z /\ forall s, zmem z s <-> PROD (zmem x) (zmem y) s).
Check (eq_refl : PROD = fun A B s => exists x y, A x /\ B y /\ s = merge x y).
Check (merge_cons_lt : forall x a b, Forall (fun y => (x < y)%N) b -> merge (x :: a) b = x :: merge a b).
Check (merge_cons_eq : forall x a b, merge (x :: a) (x :: b) = x :: merge a b).
Check (merge_comm : forall a b, merge a b = merge b a).
(* the explicit semantics the theorems refer to, pinned too *)
Check (eq_refl : spec_step = fun fs o =>
  match o with
  | OBase => Some (fs ++ [fun s => s = []])
  | OEmpty => Some (fs ++ [fun _ => False])
  | OSingle v => Some (fs ++ [fun s => s = [v]])
  | OFromSet l => Some (fs ++ [fun s => s = norm_set l])
  | OPwo h v => match nth_error fs h with Some F => Some (fs ++ [PW v F]) | None => None end
  | OUnion a b => match nth_error fs a with Some A => match nth_error fs b with Some B => Some (fs ++ [fun s => A s \/ B s]) | None => None end | None => None end
  | OInter a b => match nth_error fs a with Some A => match nth_error fs b with Some B => Some (fs ++ [fun s => A s /\ B s]) | None => None end | None => None end
  | ODiff a b => match nth_error fs a with Some A => match nth_error fs b with Some B => Some (fs ++ [fun s => A s /\ ~ B s]) | None => None end | None => None end
  | OProduct _ _ => None
  | OCount h => match nth_error fs h with Some _ => Some fs | None => None end
  | OGc keep => nths fs keep
  end).
Check (eq_refl : PW = fun v F s => F s \/ exists s0, F s0 /\ s = ins v s0).
Check (eq_refl : denotes = fun ar h F => valid (atable ar) h /\ forall s, In_fam (atable ar) h s <-> F s).

Print Assumptions C06_arena_sequences.
Print Assumptions C06_arena_sequences_conv.
Print Assumptions C06_count.
Print Assumptions C06_contains.
Print Assumptions C06_iter.
Print Assumptions C06_standalone_union.
Print Assumptions C06_standalone_intersection.
Print Assumptions C06_standalone_difference.
Print Assumptions C06_standalone_extend_optional.
Print Assumptions C06_standalone_from_set.
Print Assumptions C06_standalone_singleton.
Print Assumptions C06_standalone_product.
