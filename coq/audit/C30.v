From VP Require Import Base.Tactics RateLimit.Model RateLimit.Proofs RateLimit.Props.
Open Scope Z_scope.

Check (C30_bound : forall cfg pre mid ip es_pre st1 es_mid st2 a T,
  c_enabled cfg = true -> 0 <= c_rate cfg -> 0 <= c_burst cfg ->
  trace cfg [] pre = (es_pre, st1) ->
  trace cfg st1 mid = (es_mid, st2) ->
  nondecr (map op_time mid) ->
  0 <= T -> (forall o, In o mid -> a <= op_time o <= a + T) ->
  (forall e, In e es_mid -> e_evicted e <> Some ip) ->
  count_admitted ip es_mid * NANO <= c_burst cfg * NANO + c_rate cfg * T).
Print Assumptions C30_bound.

Check (C30_retry_finite : forall cfg pre es_pre st now ip ch st' e ns,
  c_enabled cfg = true -> 0 <= c_rate cfg -> 0 <= c_burst cfg ->
  trace cfg [] pre = (es_pre, st) ->
  check cfg st now ip ch = (st', e) -> e_res e = Limited ns ->
  0 <= ns <= DUR_MAX_NS /\
  (0 < c_rate cfg -> ns * c_rate cfg <= NANO) /\
  (c_rate cfg = 0 -> ns = DUR_MAX_NS)).
Print Assumptions C30_retry_finite.

Check (C30_retry_sufficient : forall cfg pre es_pre st now ip ch st' e ns now' ch' st'' e',
  c_enabled cfg = true -> 0 < c_rate cfg -> 1 <= c_burst cfg ->
  trace cfg [] pre = (es_pre, st) ->
  check cfg st now ip ch = (st', e) -> e_res e = Limited ns ->
  now + ns + 1 <= now' ->
  check cfg st' now' ip ch' = (st'', e') ->
  is_allowed (e_res e') = true).
Print Assumptions C30_retry_sufficient.

Check (C30_no_panic : forall cfg st ops,
  exists es st', trace cfg st ops = (es, st') /\ length es = length ops).
Print Assumptions C30_no_panic.

Check (C30_repair_conservative : forall cfg b d,
  reset_after_unrepaired cfg b = Ok d -> reset_after cfg b = d).
Print Assumptions C30_repair_conservative.

Check (C30_unrepaired_panicked : forall cfg b,
  c_rate cfg = 0 -> b_nt b < NANO -> reset_after_unrepaired cfg b = Panic).
Print Assumptions C30_unrepaired_panicked.

Check (C30_evicts_oldest : forall st ch v, victim st ch = Some v ->
  exists b, In (v, b) st /\ forall k b', In (k, b') st -> b_last b <= b_last b').
Print Assumptions C30_evicts_oldest.
