From VP Require Import Base.Tactics RateLimit.Model RateLimit.Props.
