From VP Require Import Base.Tactics Ctx.Model Ctx.Run Ctx.Proofs Ctx.ProofsCut Ctx.Aligned Ctx.ProofsAligned Ctx.Props.

Check (C27_consistent_cut : forall cfg pre post s s',
  mode cfg = Block -> run cfg init pre = Some s -> run cfg s post = Some s' ->
  Known_C27_not_at_quiescence cfg pre post = false ->
  forall cp, In cp (completed s') -> In cp (completed s) \/ cut_consistent (n_ctx cfg) (snd cp)).
Print Assumptions C27_consistent_cut.

Check (C27_not_at_quiescence_refuted : exists cfg pre post s s' cp,
  mode cfg = Block /\ Known_C27_not_at_quiescence cfg pre post = true /\
  run cfg init pre = Some s /\ run cfg s post = Some s' /\
  In cp (completed s') /\ ~ In cp (completed s) /\ ~ cut_consistent (n_ctx cfg) (snd cp)).
Print Assumptions C27_not_at_quiescence_refuted.

Check (C27_consistent_cut_refuted : exists cfg sched s cp,
  mode cfg = Block /\ run cfg init sched = Some s /\ In cp (completed s) /\ ~ cut_consistent (n_ctx cfg) (snd cp)).
Print Assumptions C27_consistent_cut_refuted.

Check (C27_restore_exactly_once_iff : forall cfg cp sched s' a b sa sb,
  mode cfg = Block -> a <> b -> find_snap a cp = Some sa -> find_snap b cp = Some sb ->
  run cfg (restore cp) sched = Some s' ->
  (recv_from a (g_recv (cs s' b)) ++ inflight a (inbox (cs s' b)) = sent_to b (g_sent (cs s' a))
   <-> recv_from a (sn_recv sb) = sent_to b (sn_sent sa))).
Print Assumptions C27_restore_exactly_once_iff.

Check (C27_witness_lost_forever : forall sched s', run c27_cfg (restore c27_cp) sched = Some s' ->
  recv_from 0 (g_recv (cs s' 1)) ++ inflight 0 (inbox (cs s' 1)) <> sent_to 1 (g_sent (cs s' 0))).
Print Assumptions C27_witness_lost_forever.

Check (C27_aligned_consistent : forall g sched s a b k sa sb,
  arun g ainit sched = Some s -> In (a, b) (a_edges g) ->
  nth_error (a_snaps s a) k = Some sa -> nth_error (a_snaps s b) k = Some sb ->
  as_recv sb a = as_sent sa b).
Print Assumptions C27_aligned_consistent.
