(* Pins the C15 statements and prints what they depend on. Compiled on every run. *)
From Coq Require Import Sorted.
From VP Require Import Base.Tactics Join.Model Join.Spec Join.Proofs Join.Props.
Open Scope Z_scope.

Check (C15_inorder : forall c h,
  ((1 <= cap c)%nat /\ Forall (fun a : arrival => In (fst a) (sources c)) h) ->
  sorted_ts h = true -> outputs c h = map Out (spec_run c h)).
Check (C15_join_correlates : forall c h,
  ((1 <= cap c)%nat /\ Forall (fun a : arrival => In (fst a) (sources c)) h) ->
  ~ (sorted_ts h = false) -> outputs c h = map Out (spec_run c h)).
Check (C15_any_order_sound : forall c h,
  ((1 <= cap c)%nat /\ Forall (fun a : arrival => In (fst a) (sources c)) h) ->
  Forall2 (fun o sp => match o with
                       | Out (Some ch) => sp = Some ch
                       | Out None => True
                       | Panicked => False
                       end) (outputs c h) (spec_run c h)).
Check (C15_spec_produces_iff : forall c past a k,
  key_of c a = Some k ->
  (spec_out c past a <> None <->
   forall s, In s (sources c) ->
             exists a', In a' (past ++ [a]) /\ fst a' = s /\ key_of c a' = Some k /\
                        jts (snd a) - window c <= jts (snd a'))).
Check (C15_spec_most_recent : forall c past a ch s e,
  spec_out c past a = Some ch -> In (s, e) ch ->
  exists k p1 p2, key_of c a = Some k /\ past ++ [a] = p1 ++ (s, e) :: p2 /\
                  candidate c s k (jts (snd a)) (s, e) = true /\
                  forall a', In a' p2 -> candidate c s k (jts (snd a)) a' = false).
Check (C15_output_fields : forall c past a ch s e f v,
  NoDup (sources c) -> spec_out c past a = Some ch -> In (s, e) ch ->
  NoDup (map fst (jfields e)) -> In (f, v) (jfields e) ->
  im_lookup (Some s, f) (snd (correlated c ch)) = Some v).
Check (C15_gc_exact_on_sorted : forall cutoff l,
  StronglySorted (fun x y => jts x <= jts y) l ->
  skipn (partition_point (fun e => jts e <? cutoff) l) l = filter (fun e => negb (jts e <? cutoff)) l).
Check (C15_ooo_refuted_gc_ahead : exists c h,
  ((1 <= cap c)%nat /\ Forall (fun a : arrival => In (fst a) (sources c)) h) /\ sorted_ts h = false /\
  outputs c h <> map Out (spec_run c h)).
Check (C15_ooo_refuted_binary_search : exists c h,
  ((1 <= cap c)%nat /\ Forall (fun a : arrival => In (fst a) (sources c)) h) /\ sorted_ts h = false /\
  outputs c h <> map Out (spec_run c h)).
Check (C15_ooo_refuted_cap : exists c h,
  ((1 <= cap c)%nat /\ Forall (fun a : arrival => In (fst a) (sources c)) h) /\ sorted_ts h = false /\
  outputs c h <> map Out (spec_run c h)).

Print Assumptions C15_inorder.
Print Assumptions C15_join_correlates.
Print Assumptions C15_any_order_sound.
Print Assumptions C15_spec_produces_iff.
Print Assumptions C15_spec_most_recent.
Print Assumptions C15_output_fields.
Print Assumptions C15_gc_exact_on_sorted.
Print Assumptions C15_ooo_refuted_gc_ahead.
Print Assumptions C15_ooo_refuted_binary_search.
Print Assumptions C15_ooo_refuted_cap.
