From VP Require Import Base.Tactics Window.Model Window.Run Window.Props.
