From Coq Require Import Sorted.
From VP Require Import Base.Tactics Window.Model Window.Run Window.Spec Window.Props.
Open Scope Z_scope.

Check (C12_partition : forall k ops outs s,
  closing_kind k -> run (init k) ops = (outs, s) ->
  concat (all_windows outs) ++ buffered s = arrivals ops).
Print Assumptions C12_partition.

Check (C12_count_exact : forall n ops outs s,
  (1 <= n)%nat -> run (init (KCount n)) ops = (outs, s) ->
  Forall (fun l => length l = n) (add_windows ops outs) /\ (length (buffered s) < n)%nat).
Print Assumptions C12_count_exact.

Check (C12_tumbling_span : forall d ops outs s,
  1 <= d -> time_ordered ops -> run (init (KTumbling d)) ops = (outs, s) ->
  Forall (span_ok d) (all_windows outs ++ [buffered s])).
Print Assumptions C12_tumbling_span.

Check (C12_session_gap : forall g ops outs s,
  0 <= g -> in_order (arrivals ops) -> run (init (KSession g)) ops = (outs, s) ->
  Forall (gaps_ok g) (all_windows outs ++ [buffered s])).
Print Assumptions C12_session_gap.

Check (C12_partition_partitioned : forall k ops outs s key,
  pclosing_kind k -> run (init k) ops = (outs, s) ->
  of_key key (concat (all_windows outs)) ++ pbuffered key s = of_key key (arrivals ops)).
Print Assumptions C12_partition_partitioned.

Check (C12_session_close : forall g ops outs s,
  run (init (KSession g)) ops = (outs, s) ->
  Forall (closed_by_gap g) (add_closings ops outs)).
Print Assumptions C12_session_close.
