(* Pins the C18 statements and prints what they depend on. Compiled on every run. *)
From Coq Require Import Permutation String.
From VP Require Import Base.Tactics Simulate.Gen_Stateless Simulate.Model Simulate.Props.

Check (C18_stateless :
  forall (event out : Type) (key_of : event -> N) (pipeline : list event -> list out)
         (f : event -> list out) (n : nat) (es : list event),
    (forall l, pipeline l = flat_map f l) -> 0 < n ->
    Permutation (multi_stateless event out pipeline n es) (pipeline es)).
Check (C18_partitioned :
  forall (event out : Type) (key_of : event -> N) (pipeline : list event -> list out)
         (b : N -> nat) (n : nat) (es : list event) (K : list N),
    pipeline [] = [] ->
    (forall l K', NoDup K' -> (forall e, In e l -> In (key_of e) K') ->
       Permutation (pipeline l)
                   (flat_map (fun k => pipeline (filter (fun e => (key_of e =? k)%N) l)) K')) ->
    NoDup K -> (forall e, In e es -> In (key_of e) K) ->
    (forall k, b k < n) ->
    Permutation (multi_partitioned event out key_of pipeline b n es) (pipeline es)).
Check (C18_stateless_ops_per_event : forall o, In o stateless_ops -> per_event o = true).
(* is_stateless still lists exactly the kinds this development has classified *)
Check (eq_refl : stateless_ops = [KWhereExpr; KWhereClosure; KSelect; KEmit; KEmitExpr; KPrint; KLog; KHaving; KProcess; KPattern; KTo]).
Check (eq_refl : partition_key_sources = ["sase_partition_by"; "PartitionedWindow"; "PartitionedSlidingCountWindow"; "PartitionedAggregate"; "where_equality_key"]%string).

Print Assumptions C18_stateless.
Print Assumptions C18_partitioned.
Print Assumptions C18_stateless_ops_per_event.
