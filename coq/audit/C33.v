From VP Require Import Base.Tactics Coord.Model Coord.Spec Coord.ProofsC33 Coord.Props.
Open Scope N_scope.

Check (C33_deploy_on_available_and_pinned :
  forall c word spec ts c',
    plan_deploy c word spec = (inr ts, c') ->
    exists tss, ts = concat tss /\
      Forall2 (fun p tsp =>
                 map tname tsp = map (fun k => replica_name (pn p) k (N.max (preps p) 1)) (nseq (N.max (preps p) 1)) /\
                 forall t, In t tsp ->
                   avail_b c (tw t) = true /\ (forall a, paff p = Some a -> avail_b c a = true -> tw t = a))
              spec tss).
Print Assumptions C33_deploy_on_available_and_pinned.
Check (C33_available_means :
  forall c w, avail_b c w = true <->
              exists wk, get (workers c) w = Some wk /\ wst wk = WReady /\ wrun wk < wmax wk).
Print Assumptions C33_available_means.
Check (C33_migration_plan_target_available :
  forall c p g t m, plan_migrate c p g t = inr m -> mtgt m = t /\ avail_b c t = true).
Print Assumptions C33_migration_plan_target_available.
Check (C33_migration_target_available :
  forall c p g t ok c', migrate c p g t ok = (c', inr true) -> avail_b c t = true).
Print Assumptions C33_migration_target_available.
Check (C33_failover_target_available :
  forall c word w t, failover_target c word w = Some t -> avail_b c t = true /\ t <> w).
Print Assumptions C33_failover_target_available.
Check (C33_sweep_exact :
  forall c w wk, get (workers c) w = Some wk ->
    get (workers (fst (sweep c))) w =
      Some (if wstatus_eqb (wst wk) WReady && Z.ltb (ctimeout c) (cnow c - whb wk) then w_set_status WUnhealthy wk else wk)).
Print Assumptions C33_sweep_exact.
Check (C33_sweep_reports_exactly :
  forall c w wk, NoDup (map fst (workers c)) -> get (workers c) w = Some wk ->
    (In w (snd (sweep c)) <-> wst wk = WReady /\ (ctimeout c < cnow c - whb wk)%Z)).
Print Assumptions C33_sweep_reports_exactly.
Check (C33_only_the_sweep_marks_unhealthy :
  forall s o w,
    (match o with OSweep | OSetStatus _ _ => False | _ => True end) ->
    status_of (sc s) w = Some WReady ->
    status_of (sc (fst (step s o))) w = Some WReady \/ status_of (sc (fst (step s o))) w = None).
Print Assumptions C33_only_the_sweep_marks_unhealthy.
Check (C33_heartbeat_recovers :
  forall c w n wk, get (workers c) w = Some wk -> wst wk = WUnhealthy \/ wst wk = WReady ->
    exists wk', get (workers (fst (heartbeat c w n))) w = Some wk' /\
                wst wk' = WReady /\ whb wk' = cnow c /\ wrun wk' = n /\
                (avail_b (fst (heartbeat c w n)) w = true <-> n < wmax wk)).
Print Assumptions C33_heartbeat_recovers.
Check (C33_sweep_boundary :
  let s := run (init 3) [ORegister 1 4 10 0; ORegister 2 4 10 0; OAdvance 1; OHeartbeat 2 0; OAdvance 3] in
  map (fun e => (fst e, wst (snd e))) (workers (fst (sweep (sc s)))) = [(1, WUnhealthy); (2, WReady)]).
Print Assumptions C33_sweep_boundary.
