From VP Require Import Base.Tactics Coord.Model Coord.Props.
