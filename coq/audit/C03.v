(* Pins the C03 statements. Compiled on every run. *)
From VP Require Import Base.Tactics Zdd.Model Zdd.ProofsBase Zdd.ProofsPwo Zdd.ProofsArena
  Sase.Model Sase.ProofsBounds Sase.ProofsSound Sase.ProofsSoundEngine Sase.ProofsCompile Sase.ProofsKleene Sase.Props.
Check (C03_capture_is_power_set :
  forall k e al, KInv k -> exists k', kc_extend k e al = Some k' /\ KInv k' /\
    k_events k' = k_events k ++ [(e, al)] /\ k_next k' = (k_next k + 1)%N /\
    k_deferred k' = k_deferred k /\ k_needs k' = k_needs k).
Check (C03_capture_family :
  forall k, KInv k -> k_needs k = true ->
    forall s, In_fam (atable (k_arena k)) (k_handle k) s <-> subset_of (k_next k) s).
Check (C03_enumeration :
  forall r k p mx, KInv k -> k_needs k = true ->
  exists combos all,
    iter_f (S (length (atable (k_arena k)))) (atable (k_arena k)) (k_handle k) = Some combos /\
    NoDup combos /\ (forall s, In s combos <-> subset_of (k_next k) s) /\
    enum_all r k p combos = Some all /\
    enumerate r k p mx = Some (firstn (cap_of mx) all)).
Check (C03_admissible_exactly :
  forall r k p cs all m, enum_all r k p cs = Some all ->
  (In m all <-> exists ix ents, In ix cs /\ ix <> [] /\ nth_entries (k_events k) ix = Some ents /\
                                deferred_ok p (map fst ents) (r_cap r) = true /\ m = mk_match r k ix ents)).
Check (C03_distinct :
  forall r k p cs all, enum_all r k p cs = Some all -> NoDup cs -> NoDup (map m_combo all)).
Check (eq_refl : subset_of = fun n s => StronglySorted N.lt s /\ Forall (fun x => (x < n)%N) s).
Check (eq_refl : cap_of = fun mx => Nat.max mx 1).
From VP Require Import Sase.ProofsBounds Sase.ProofsCompile.
Check (C03_engine_captures_are_power_sets :
  forall steps negs part max_runs st lim evs en',
    count_all steps <= 1 ->
    run_engine (mkCfg (compile steps) negs part max_runs st lim) engine0 evs = Some en' ->
    forall r, (In r (e_runs en') \/ exists k rs, In (k, rs) (e_parts en') /\ In r rs) -> r_inval r = false ->
      forall k, r_kc r = Some k -> KInv k /\ (k_deferred k <> None -> k_needs k = true)).
Check (eq_refl : count_all = fun ss => length (filter st_all ss)).
Print Assumptions C03_engine_captures_are_power_sets.
Print Assumptions C03_capture_is_power_set.
Print Assumptions C03_capture_family.
Print Assumptions C03_enumeration.
Print Assumptions C03_admissible_exactly.
Print Assumptions C03_distinct.
