(* Pins the C07 statements and prints what they depend on. Compiled on every run. *)
From Coq Require Import String.
From VP Require Import Base.Tactics Zdd.Model Zdd.Run Zdd.ProofsBase Zdd.ProofsOps
  Zdd.ProofsQuery Zdd.ProofsArena Zdd.ProofsSeq Zdd.Props.
Close Scope string_scope.
Open Scope list_scope.

Check (C07_canonical : forall t r1 r2, wf t -> valid t r1 -> valid t r2 ->
  (forall s, In_fam t r1 s <-> In_fam t r2 s) -> r1 = r2).
Check (C07_wf_meaning : forall t, wf t ->
  (forall i n, nth_error t i = Some n ->
     nhi n <> REmpty /\ rlt (nlo n) i /\ rlt (nhi n) i /\ vgt t (nvar n) (nlo n) /\ vgt t (nvar n) (nhi n))
  /\ NoDup t).
Check (C07_reachable_canonical : forall ops ar hs out,
  aruns (arena0, []) ops [] = Some (ar, hs, out) ->
  wf (atable ar) /\
  forall i j hi hj, nth_error hs i = Some hi -> nth_error hs j = Some hj ->
    (forall s, In_fam (atable ar) hi s <-> In_fam (atable ar) hj s) -> hi = hj).
Check (C07_gc : forall ar live, AInv ar -> Forall (valid (atable ar)) live ->
  exists ar' rs, a_gc ar live = Some (ar', rs) /\ AInv ar' /\
    Forall2 (fun r r' => valid (atable ar') r' /\ forall s, In_fam (atable ar') r' s <-> In_fam (atable ar) r s) live rs).
Check (C07_iter_once_ascending : forall t r l, wf t -> valid t r -> iter_f (S (length t)) t r = Some l ->
  NoDup l /\ Forall (StronglySorted N.lt) l /\ forall s, In s l <-> In_fam t r s).
Check (eq_refl : vgt = fun t v r => match r with RNode j => exists m, nth_error t j = Some m /\ (v < nvar m)%N | _ => True end).
Check (eq_refl : rlt = fun r k => match r with RNode j => j < k | _ => True end).

Print Assumptions C07_canonical.
Print Assumptions C07_wf_meaning.
Print Assumptions C07_reachable_canonical.
Print Assumptions C07_gc.
Print Assumptions C07_iter_once_ascending.
