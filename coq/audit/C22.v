From VP Require Import Store.Tenant Store.TenantRun Store.TenantProps.
