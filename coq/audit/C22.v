(* Pins the C22 statements and prints what they depend on. Compiled on every run. *)
From Coq Require Import Permutation.
From VP Require Import Base.Tactics Store.Tenant Store.TenantRun Store.TenantProofs Store.TenantProps.
Open Scope N_scope.

Check (C22_recover : forall ops budget, w_fresh (run_ops ops budget) = true ->
  let w := run_ops ops budget in
  if w_frozen w
  then Permutation (recover (w_store w)) (w_acked w) \/ Permutation (recover (w_store w)) (w_mem w)
  else Permutation (recover (w_store w)) (w_acked w)).
Check (C22_restart_keeps_state : forall ops budget,
  w_fresh (run_ops ops budget) = true -> w_frozen (run_ops ops budget) = false ->
  Permutation (w_mem (run_ops (ops ++ [ORestart]) budget)) (w_mem (run_ops ops budget))).
(* the runner the statements are about *)
Check (eq_refl : step_op = fun w o =>
  if w_frozen w then w
  else match o with
  | ORestart =>
      let m := recover (w_store w) in
      mkW (w_store w) m m (w_budget w) false (w_trace w ++ [(true, O, false)]) (w_fresh w)
  | _ =>
      let fr_ok := match o with OCreate id _ _ => fresh_id (w_store w) (w_mem w) id | _ => true end in
      match op_effect (w_mem w) o with
      | None => mkW (w_store w) (w_mem w) (w_acked w) (w_budget w) false (w_trace w ++ [(false, O, false)]) (w_fresh w)
      | Some (m', ws) =>
          let '(s', b', fr, n) := do_writes (w_store w) ws (w_budget w) in
          mkW s' m' (if fr then w_acked w else m') b' fr (w_trace w ++ [(true, n, fr)]) (w_fresh w && fr_ok)
      end
  end).
Check (eq_refl : run_ops = fun ops budget => fold_left step_op ops (mkW [] [] [] budget false [] true)).
Check (eq_refl : recover = fun s =>
  match kv_get s KIndex with
  | Some (VIndex ids) => flat_map (fun id => match kv_get s (KTenant id) with Some (VSnap t) => [t] | _ => [] end) ids
  | _ => []
  end).

Print Assumptions C22_recover.
Print Assumptions C22_restart_keeps_state.
