(* Pins the C41 statements and prints what they depend on. Compiled on every run. *)
From Coq Require Import String.
From VP Require Import Base.Tactics Text.Str Text.Expand Parse.Model Parse.Props.
Open Scope N_scope.
Print Assumptions C41_demo_relocate.
