(* Pins the C41 statements and prints what they depend on. Compiled on every run. *)
From Coq Require Import String.
From VP Require Import Base.Tactics Text.Str Text.Expand Parse.Model Parse.Proofs Parse.Props.
Open Scope N_scope.

Check (C41_prepass_no_panic : forall source, prepass source <> PPanic).

Check (C41_expand_terminates :
  (forall f g lines orig, (length lines < f)%nat ->
     one_pass_o f g lines orig = one_pass_o (S (length lines)) g lines orig) /\
  (forall text orig e oo, length orig = length (str_lines text) ->
     one_pass_text_o text orig = POk (e, oo) ->
     length oo = length (str_lines e) /\
     N.of_nat (length (str_lines e)) <= N.of_nat (length (str_lines text)) + max_expanded_lines) /\
  (forall source t o, expand_o source = POk (t, o) ->
     length o = length (str_lines t) /\
     N.of_nat (length (str_lines t)) <= N.of_nat (length (str_lines source)) + 10 * max_expanded_lines /\
     exists oo, one_pass_text_o t o = POk (t, oo))).

Check (C41_position_in_range : forall source,
  (forall a, prepass source = PNest a -> loc_in source a) /\
  (forall p a, relocate source p = Some a -> loc_in source a)).

Check (C41_position_bounds : forall source a, loc_in source a ->
  l_pos a <= utf8_len source /\
  1 <= l_line a <= N.of_nat (length (split_nl source)) /\
  1 <= l_col a <= 1 + N.of_nat (length (line_of source (l_line a - 1)))).

Check (C41_from_position_in_range : forall source position, loc_in source (from_position source position)).

(* the notions the statements use, pinned too *)
Check (eq_refl : loc_in = fun (s : str) (a : loc) =>
  exists before after, s = (before ++ after)%list /\
    l_pos a = utf8_len before /\
    l_line a = 1 + count_nl before /\
    l_col a = 1 + N.of_nat (length (last_seg before))).
Check (eq_refl : count_nl = fun l => N.of_nat (length (filter (fun c => c =? 10) l))).
Check (eq_refl : max_expanded_lines = 100000).
Check (eq_refl : max_expansion_passes = 10%nat).
Check (eq_refl : relocate = fun source p =>
  match prepass source with
  | PPass expanded origins pre => Some (in_original source expanded origins pre p)
  | _ => None
  end).

Print Assumptions C41_prepass_no_panic.
Print Assumptions C41_expand_terminates.
Print Assumptions C41_position_in_range.
Print Assumptions C41_position_bounds.
Print Assumptions C41_from_position_in_range.
