From VP Require Import Base.Tactics Sase.Model Sase.Props.
