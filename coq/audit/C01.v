(* Pins the C01 statements. Compiled on every run. *)
From VP Require Import Base.Tactics Zdd.Model Zdd.ProofsBase Zdd.ProofsPwo Zdd.ProofsArena
  Sase.Model Sase.ProofsBounds Sase.ProofsSound Sase.ProofsSoundEngine Sase.ProofsCompile Sase.ProofsKleene Sase.Props.
Check (C01_matches_have_derivations_partial :
  forall steps negs part max_runs st lim evs out,
    run_collect (mkCfg (compile steps) negs part max_runs st lim) engine0 evs = Some out ->
    Forall (Forall (genuine (compile steps) negs evs)) out).
Check (C01_step_invariant :
  forall g P en x en' ms, flags_ok (g_nfa g) -> all_good g P en -> process g en x = Some (en', ms) ->
    all_good g (P ++ [x]) en' /\ Forall (genuine (g_nfa g) (g_negs g) (P ++ [x])) ms).
(* the notions the statements use *)
Check (eq_refl : genuine = fun n negs P m =>
  exists es st q, infix es P /\ deriv n negs es st q /\ accepting n q /\ m_stack m = map (fun x => eid (fst x)) st).
Check (d_take : forall n negs es st q x q' s',
      deriv n negs es st q -> nhit negs x (caps_of st) = false -> move n q q' ->
      nth_error n q' = Some s' -> matches_state s' x (caps_of st) = true ->
      deriv n negs (es ++ [x]) (st ++ [(x, s_alias s')]) q').
Check (d_skip : forall n negs es st q x,
      deriv n negs es st q -> nhit negs x (caps_of st) = false -> deriv n negs (es ++ [x]) st q).
Print Assumptions C01_matches_have_derivations_partial.
Print Assumptions C01_step_invariant.
