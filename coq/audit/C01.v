(* Pins the C01 statements. Compiled on every run. *)
From VP Require Import Base.Tactics Zdd.Model Zdd.ProofsBase Zdd.ProofsPwo Zdd.ProofsArena
  Sase.Model Sase.ProofsBounds Sase.ProofsSound Sase.ProofsSoundEngine Sase.ProofsCompile Sase.ProofsPattern Sase.ProofsKleene Sase.Props.
Check (C01_matches_have_derivations_partial :
  forall steps negs part max_runs st lim evs out,
    run_collect (mkCfg (compile steps) negs part max_runs st lim) engine0 evs = Some out ->
    Forall (Forall (genuine (compile steps) negs evs)) out).
Check (C01_step_invariant :
  forall g P en x en' ms, flags_ok (g_nfa g) -> all_good g P en -> process g en x = Some (en', ms) ->
    all_good g (P ++ [x]) en' /\ Forall (genuine (g_nfa g) (g_negs g) (P ++ [x])) ms).
(* the notions the statements use *)
Check (eq_refl : genuine = fun n negs P m =>
  exists es st q, infix es P /\ deriv n negs es st q /\ accepting n q /\ m_stack m = map (fun x => eid (fst x)) st).
Check (d_take : forall n negs es st q x q' s',
      deriv n negs es st q -> nhit negs x (caps_of st) = false -> move n q q' ->
      nth_error n q' = Some s' -> matches_state s' x (caps_of st) = true ->
      deriv n negs (es ++ [x]) (st ++ [(x, s_alias s')]) q').
Check (d_skip : forall n negs es st q x,
      deriv n negs es st q -> nhit negs x (caps_of st) = false -> deriv n negs (es ++ [x]) st q).
Check (C01_matches_are_occurrences :
  forall steps negs part max_runs st lim evs out,
    run_collect (mkCfg (compile steps) negs part max_runs st lim) engine0 evs = Some out ->
    Forall (Forall (occurrence steps negs evs)) out).
Check (eq_refl : occurrence = fun steps negs P m =>
  exists es st j, infix es P /\ pocc steps negs es st j /\ S j = length steps /\
                  m_stack m = map (fun x => eid (fst x)) st).
Check (p_start : forall steps negs e s0, nth_error steps 0 = Some s0 -> eager_ok s0 e [] = true -> pocc steps negs [e] [(e, st_alias s0)] 0).
Check (p_skip : forall steps negs es st j x, pocc steps negs es st j -> nhit negs x (caps_of st) = false -> pocc steps negs (es ++ [x]) st j).
Check (p_again : forall steps negs es st j x s, pocc steps negs es st j -> nhit negs x (caps_of st) = false ->
      nth_error steps j = Some s -> st_all s = true -> eager_ok s x (caps_of st) = true ->
      pocc steps negs (es ++ [x]) (st ++ [(x, st_alias s)]) j).
Check (p_next : forall steps negs es st j x s, pocc steps negs es st j -> nhit negs x (caps_of st) = false ->
      nth_error steps (S j) = Some s -> eager_ok s x (caps_of st) = true ->
      pocc steps negs (es ++ [x]) (st ++ [(x, st_alias s)]) (S j)).
Check (eq_refl : eager_ok = fun s x c =>
  N.eqb (ety x) (st_ty s) && match eager_pred s with Some p => eval_pred p x c | None => true end).
Check (eq_refl : eager_pred = fun s => if st_all s && postpone s then None else st_pred s).
Print Assumptions C01_matches_are_occurrences.
Print Assumptions C01_matches_have_derivations_partial.
Print Assumptions C01_step_invariant.
