(* Text/Expand.v — executable model of crates/varpulis-parser/src/expand.rs.  Definitions only.

   Rust                              here
   --------------------------------  ------------------------------
   is_declaration_for                is_decl_for
   parse_for_range                   parse_for_range     (bounds are i64 literals widened to i128: no overflow)
   line.len() - trim_start().len()   indent_of           (bytes)
   the body-collection while loop    in_body / take_while / drop_while, body_strip
   bl.get(strip..) / trim_start      strip_line          (offset beyond the end or off a char boundary => trim_start)
   the `for val in start..end` loop  copies
   expand_one_pass                   one_pass (on the list of lines; `generated` is the accumulator [gen]),
                                     one_pass_text (on the text)
   expand_with_origins (text part) = expand_go MAX_EXPANSION_PASSES, expand
   expand_declaration_loops

   Text = list of Unicode scalar values; byte offsets through utf8_len.  The line origins that
   expand_with_origins also returns are not part of this model (see Parse/).                 *)
From Coq Require Import String.
From VP Require Import Base.Tactics Text.Str.
Open Scope N_scope.

Inductive res (A : Type) : Type := ROk (a : A) | RErr.
Arguments ROk {A} a.
Arguments RErr {A}.

Definition max_loop_iterations : Z := 10000.
Definition max_expansion_passes : nat := 10.
Definition max_expanded_lines : N := 100000.

Definition is_decl_for (t : str) : bool :=
  starts_with (s2l "for ") t && ends_with (s2l ":") t && contains (s2l "..") t.

Inductive for_range := FNone | FSome (var : str) (start stop : Z).

Definition parse_for_range (t : str) : for_range :=
  match strip_prefix (s2l "for ") t with
  | None => FNone
  | Some r1 =>
    match strip_suffix (s2l ":") r1 with
    | None => FNone
    | Some rest =>
      match split_once (s2l " in ") rest with
      | None => FNone
      | Some (var0, range0) =>
        let var := trim var0 in
        let range := trim range0 in
        match split_once (s2l "..=") range with
        | Some (s, e) =>
          match parse_i64 (trim s), parse_i64 (trim e) with
          | Some a, Some b => FSome var a (b + 1)%Z
          | _, _ => FNone
          end
        | None =>
          match split_once (s2l "..") range with
          | Some (s, e) =>
            match parse_i64 (trim s), parse_i64 (trim e) with
            | Some a, Some b => FSome var a b
            | _, _ => FNone
            end
          | None => FNone
          end
        end
      end
    end
  end.

Definition indent_of (l : str) : N := utf8_len l - utf8_len (trim_start l).
Definition is_blank (l : str) : bool := match trim l with [] => true | _ => false end.

(* a line that the body-collection loop does not stop at *)
Definition in_body (l : str) : bool := is_blank l || negb (indent_of l =? 0).
Fixpoint take_lines (p : str -> bool) (l : list str) : list str :=
  match l with [] => [] | x :: r => if p x then x :: take_lines p r else [] end.
Fixpoint drop_lines (p : str -> bool) (l : list str) : list str :=
  match l with [] => [] | x :: r => if p x then drop_lines p r else l end.

(* indent of the first non-blank body line, default 4 *)
Fixpoint body_strip (body : list str) : N :=
  match body with
  | [] => 4
  | l :: r => if is_blank l then body_strip r else indent_of l
  end.

(* bl.get(n..) : None when byte offset n is not a char boundary (or beyond the end) *)
Fixpoint drop_bytes (n : N) (l : str) : option str :=
  if n =? 0 then Some l
  else match l with
       | [] => None
       | c :: r => if utf8_len1 c <=? n then drop_bytes (n - utf8_len1 c) r else None
       end.
Definition strip_line (strip : N) (bl : str) : str :=
  match (if strip <=? utf8_len bl then drop_bytes strip bl else None) with
  | Some s => s
  | None => trim_start bl
  end.

Definition copy_line (strip : N) (pat : str) (val : Z) (bl : str) : str :=
  if is_blank bl then [] else replace_all pat (z_to_str val) (strip_line strip bl).

Fixpoint zrange (start : Z) (n : nat) : list Z :=
  match n with O => [] | S k => start :: zrange (start + 1)%Z k end.

Definition copies (var : str) (start stop : Z) (body : list str) : list str :=
  let strip := body_strip body in
  let pat := ([123] ++ var ++ [125])%list in
  flat_map (fun v => map (copy_line strip pat v) body) (zrange start (Z.to_nat (stop - start))).

(* [gen] = lines generated so far in this pass (`generated`); at a loop with n iterations over k
   body lines the pass fails iff gen + n*k exceeds MAX_EXPANDED_LINES (the Rust loop adds k
   before each copy and tests after adding) *)
Fixpoint one_pass (fuel : nat) (gen : N) (lines : list str) : res (list str) :=
  match fuel with
  | O => RErr
  | S f =>
    match lines with
    | [] => ROk []
    | line :: rest =>
      let keep := match one_pass f gen rest with ROk r => ROk (line :: r) | e => e end in
      if (indent_of line =? 0) && is_decl_for (trim line) then
        match parse_for_range (trim line) with
        | FNone => keep
        | FSome var start stop =>
          if (max_loop_iterations <? stop - start)%Z then RErr
          else
            let body := take_lines in_body rest in
            let tot := gen + Z.to_N (stop - start) * N.of_nat (length body) in
            if max_expanded_lines <? tot then RErr
            else
              match one_pass f tot (drop_lines in_body rest) with
              | ROk r => ROk (copies var start stop body ++ r)%list
              | e => e
              end
        end
      else keep
    end
  end.

Definition unlines (ls : list str) : str := concat (map (fun l => l ++ [10])%list ls).

Definition one_pass_text (text : str) : res str :=
  let ls := str_lines text in
  match one_pass (S (length ls)) 0 ls with
  | ROk out => ROk (unlines out)
  | RErr => RErr
  end.

Fixpoint expand_go (passes : nat) (text : str) : res str :=
  match passes with
  | O => RErr
  | S n =>
    match one_pass_text text with
    | ROk e => if str_eqb e text then ROk text else expand_go n e
    | RErr => RErr
    end
  end.
Definition expand (source : str) : res str := expand_go max_expansion_passes source.
