(* Text/EventFileProofs.v — the streaming reader and the preload reader of Text/EventFile.v agree. *)
From Coq Require Import String.
From VP Require Import Base.Tactics Text.Str Text.StrLemmas Text.EventFile.
Open Scope N_scope.

Section Proofs.
  Variable Ev : Type.
  Variable parse_evt parse_json : str -> option Ev.
  Variable max_line : N.

  Notation preload_line := (preload_line Ev parse_evt parse_json).
  Notation file_line := (file_line Ev parse_evt parse_json).
  Notation preload_go := (preload_go Ev parse_evt parse_json).
  Notation stream_go := (stream_go Ev parse_evt parse_json max_line).

  (* what file_line keeps of one iteration of the preload loop *)
  Definition forget (r : N * option (N * Ev)) : option Ev :=
    match snd r with Some te => Some (snd te) | None => None end.

  Lemma file_line_preload_line : forall cur seg,
    file_line seg = omap forget (preload_line cur (strip_eol seg)).
  Proof.
    intros cur seg. unfold EventFile.file_line, EventFile.preload_line.
    rewrite trim_strip_eol.
    destruct (is_skip (trim seg)); [reflexivity|].
    destruct (starts_with (s2l "BATCH") (trim seg)).
    - destruct (batch_time (trim seg)) as [[t|]| |]; reflexivity.
    - destruct (starts_with (s2l "@") (trim seg)).
      + destruct (timing_prefix (trim seg)) as [[off text]| |]; cbn [omap snd]; try reflexivity.
        destruct (parse_event_text Ev parse_evt parse_json text); reflexivity.
      + destruct (parse_event_text Ev parse_evt parse_json (trim seg)); reflexivity.
  Qed.

  Lemma stream_go_preload_go : forall segs cur acc,
    Forall (fun s => utf8_len s <= max_line) segs ->
    stream_go segs (map snd acc) = omap (map snd) (preload_go (map strip_eol segs) cur acc).
  Proof.
    induction segs as [|s segs IH]; intros cur acc Hlim; cbn [EventFile.stream_go EventFile.preload_go map].
    - cbn [omap]. now rewrite map_rev.
    - inv Hlim.
      assert (Hs : (max_line <? utf8_len s) = false) by (apply N.ltb_ge; assumption).
      rewrite Hs, (file_line_preload_line cur s).
      destruct (preload_line cur (strip_eol s)) as [[cur' [[off e]|]]| |]; cbn [omap forget snd].
      + apply (IH cur' ((off, e) :: acc)). assumption.
      + apply IH. assumption.
      + reflexivity.
      + reflexivity.
  Qed.
End Proofs.

Definition oversize (max_line : N) (file : str) : bool :=
  existsb (fun seg => max_line <? utf8_len seg) (split_incl file).

Lemma stream_preload : forall (Ev : Type) (pe pj : str -> option Ev) (max_line : N) (file : str),
  oversize max_line file = false ->
  stream Ev pe pj max_line file = omap (map snd) (preload Ev pe pj file).
Proof.
  intros Ev pe pj max_line file H. unfold stream, preload, str_lines.
  apply (stream_go_preload_go Ev pe pj max_line (split_incl file) 0 []).
  apply Forall_forall. intros seg Hin.
  unfold oversize in H.
  destruct (max_line <? utf8_len seg) eqn:E; [|now apply N.ltb_ge].
  exfalso. assert (X : existsb (fun seg => max_line <? utf8_len seg) (split_incl file) = true)
    by (apply existsb_exists; eauto).
  congruence.
Qed.
