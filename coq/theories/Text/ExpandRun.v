(* Text/ExpandRun.v — evaluation of Text/Expand.v for the correspondence check (C42):
   OK|<cps of the expanded text>  (OKH|<length>|<hash> when longer than 3000)  or ERR *)
From Coq Require Import String.
From VP Require Import Base.Tactics Base.Render Text.Str Text.Expand.
Open Scope string_scope.

Definition str_of_cps (l : str) : string := join "." (map str_of_N l).
(* long results are compared through length and a polynomial hash *)
Definition hash_cps (l : str) : N := fold_left (fun h c => (h * 1000003 + c + 1) mod 2305843009213693951)%N l 0%N.
Definition expand_case (source : str) : string :=
  match expand source with
  | ROk t => if (3000 <? N.of_nat (length t))%N
             then "OKH|" ++ str_of_N (N.of_nat (length t)) ++ "|" ++ str_of_N (hash_cps t)
             else "OK|" ++ str_of_cps t
  | RErr => "ERR"
  end.

(* tie between the generator of checks/C42.py and the class / hand expansion of Text/ExpandSpec.v:
   W=<wf>|D=<depth>|G=<weight>|R=<length>,<hash of the rendered loop program>|H=<length>,<hash of the hand expansion> *)
From VP Require Import Text.ExpandSpec.
Definition spec_case (u : nat) (prog : list item) : string :=
  let r := unlines (render_prog u prog) in
  let h := unlines (hand_prog prog) in
  "W=" ++ str_of_bool (forallb wf prog) ++ "|D=" ++ str_of_nat (depth_prog prog) ++ "|G=" ++ str_of_N (weight_prog prog)
  ++ "|R=" ++ str_of_nat (length r) ++ "," ++ str_of_N (hash_cps r)
  ++ "|H=" ++ str_of_nat (length h) ++ "," ++ str_of_N (hash_cps h).
