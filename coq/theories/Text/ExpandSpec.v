(* Text/ExpandSpec.v — what "writing the copies by hand" means, for C42.  Definitions only.

   A declaration program is a list of items: a plain statement (a first line at the current
   indentation and continuation lines, e.g. a stream declaration followed by its indented
   .where/.emit lines, possibly with blank lines) or a loop `for VAR in A..B:` over a body of
   items.  [render] writes the program down with an indentation unit of [u] spaces per nesting
   level; [hand] writes out, for every loop, the copies of its body for each value in order,
   with {VAR} replaced by the value — nested loops as nested substitutions (the enclosing
   loop's value is substituted first).  [wf] is the class of programs the property quantifies
   over. *)
From Coq Require Import String.
From VP Require Import Base.Tactics Text.Str Text.Expand.
Open Scope N_scope.

Inductive item :=
| Plain (first : str) (conts : list str)
| Loop (var : str) (a b : Z) (body : list item).

Definition spaces (k : nat) : str := repeat 32 k.
Definition pad (k : nat) (l : str) : str := match l with [] => [] | _ => (spaces k ++ l)%list end.
Definition header (var : str) (a b : Z) : str :=
  (s2l "for " ++ var ++ s2l " in " ++ z_to_str a ++ s2l ".." ++ z_to_str b ++ s2l ":")%list.

Fixpoint render (u d : nat) (it : item) : list str :=
  match it with
  | Plain f cs => map (pad (d * u)) (f :: cs)
  | Loop x a b body => pad (d * u) (header x a b) :: flat_map (render u (S d)) body
  end.
Definition render_prog (u : nat) (prog : list item) : list str := flat_map (render u 0) prog.

(* {VAR} -> value, as str::replace does it *)
Definition repl (x : str) (v : Z) (l : str) : str := replace_all ([123] ++ x ++ [125]) (z_to_str v) l.
Definition apply_env (env : list (str * Z)) (l : str) : str :=
  fold_left (fun s p => repl (fst p) (snd p) s) env l.

Fixpoint hand (env : list (str * Z)) (it : item) : list str :=
  match it with
  | Plain f cs => map (apply_env env) (f :: cs)
  | Loop x a b body =>
    flat_map (fun v => flat_map (hand (env ++ [(x, v)])%list) body) (zrange a (Z.to_nat (b - a)))
  end.
Definition hand_prog (prog : list item) : list str := flat_map (hand []) prog.

Fixpoint depth (it : item) : nat :=
  match it with
  | Plain _ _ => O
  | Loop _ _ _ body => S (list_max (map depth body))
  end.
Definition depth_prog (prog : list item) : nat := list_max (map depth prog).

(* ---- the class of programs *)
Definition is_eol (c : N) : bool := (c =? 10) || (c =? 13).
Definition no_eol (l : str) : bool := forallb (fun c => negb (is_eol c)) l.
(* first character of a statement's text: not white space, not an opening brace, not 'f'
   (so that no plain line can be taken for a `for ` header, before or after substitution) *)
Definition good_first (c : N) : bool := negb (is_ws c) && negb (c =? 123) && negb (c =? 102).
Definition first_ok (l : str) : bool :=
  match l with c :: _ => good_first c && no_eol l | [] => false end.
(* continuation line: empty, or at least one space of extra indentation before its text *)
Definition cont_ok (l : str) : bool :=
  match l with
  | [] => true
  | c :: _ => (c =? 32) && first_ok (drop_while (N.eqb 32) l) && no_eol l
  end.
Definition var_ok (x : str) : bool := forallb (fun c => negb (is_ws c) && negb (c =? 123)) x.
Definition range_ok (a b : Z) : bool :=
  in_i64 a && in_i64 b && (b - a <=? max_loop_iterations)%Z.

Fixpoint wf (it : item) : bool :=
  match it with
  | Plain f cs => first_ok f && forallb cont_ok cs
  | Loop x a b body => var_ok x && range_ok a b && forallb wf body
  end.

(* size of a program for the MAX_EXPANDED_LINES limit: every loop counts its body once per value
   (at least once), plus its own header line; no expansion pass generates more lines than this *)
Definition sumN (l : list N) : N := fold_right N.add 0 l.
Fixpoint weight (it : item) : N :=
  match it with
  | Plain _ cs => 1 + N.of_nat (length cs)
  | Loop _ a b body => 1 + N.max 1 (Z.to_N (b - a)) * sumN (map weight body)
  end.
Definition weight_prog (prog : list item) : N := sumN (map weight prog).
