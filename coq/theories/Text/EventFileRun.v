(* Text/EventFileRun.v — evaluation of Text/EventFile.v for the correspondence check.
   The abstract event-line parsers are instantiated by "return the text itself unless it is in the
   list [bad]"; the driver obtains [bad] (and the events the texts stand for) from the real
   event-line parser.  One string per case:  P=<preload>#S=<stream>  with
     <preload> = OK|off:cp.cp.cp;off:cp...   or REJECT or PANIC
     <stream>  = OK|cp.cp.cp;...             or REJECT or PANIC                               *)
From Coq Require Import String.
From VP Require Import Base.Tactics Base.Render Text.Str Text.EventFile.
Open Scope string_scope.

Inductive part := Lit (s : str) | Rep (c : N) (n : N).
Definition nrepeat (c : N) (n : N) : str := N.iter n (cons c) [].
Definition assemble (ps : list part) : str :=
  concat (map (fun p => match p with Lit s => s | Rep c n => nrepeat c n end) ps).

Definition lookup_parser (bad : list str) (l : str) : option str :=
  if existsb (str_eqb l) bad then None else Some l.

Definition str_of_cps (l : str) : string := join "." (map str_of_N l).
Definition str_of_outcome {A} (f : A -> string) (o : outcome (list A)) : string :=
  match o with Ok l => "OK|" ++ join ";" (map f l) | Reject => "REJECT" | Panic => "PANIC" end.

Definition ef_case (max_line : N) (bad : list str) (ps : list part) : string :=
  let file := assemble ps in
  let pe := lookup_parser bad in
  "P=" ++ str_of_outcome (fun te : N * str => str_of_N (fst te) ++ ":" ++ str_of_cps (snd te))
                         (preload str pe pe file)
  ++ "#S=" ++ str_of_outcome str_of_cps (stream str pe pe max_line file).

(* phase 1 of the differential run: every text some line of the file hands to the event-line
   parser (independent of whether other lines fail), so that the driver can ask the real parser
   about each of them *)
Definition ef_requests (ps : list part) : string :=
  let texts := flat_map (fun seg => match file_line str Some Some seg with
                                    | Ok (Some t) => [t]
                                    | _ => []
                                    end) (split_incl (assemble ps)) in
  join ";" (map str_of_cps texts).
