(* Text/Str.v — strings as lists of Unicode scalar values (N), with executable versions of the
   Rust `str` operations the text-processing code uses.  Definitions only (lemmas: StrLemmas.v).

   Rust                          here
   ----------------------------  ------------------------------------------
   char::is_whitespace           is_ws          (Unicode White_Space)
   str::trim_start/trim_end/trim trim_start / trim_end / trim
   str::starts_with/ends_with    starts_with / ends_with
   str::strip_prefix/suffix      strip_prefix / strip_suffix
   str::len (bytes)              utf8_len
   str::split_inclusive('\n')    split_incl     (what BufRead::read_line yields, one call per element)
   str::lines                    str_lines
   str::split_whitespace         split_ws
   str::find(pat)/split_once     split_once
   str::contains                 contains
   str::replace / replacen(..,1) replace_all / replace_first
   u64/i64 ::from_str            parse_u64 / parse_i64
   i64::to_string                z_to_str                                               *)
From Coq Require Import String Ascii.
From VP Require Import Base.Tactics.
Open Scope N_scope.

Definition str := list N.

Fixpoint s2l (s : string) : str :=
  match s with EmptyString => [] | String a r => N_of_ascii a :: s2l r end.

Definition is_ws (c : N) : bool :=
  ((9 <=? c) && (c <=? 13)) || (c =? 32) || (c =? 133) || (c =? 160) || (c =? 5760)
  || ((8192 <=? c) && (c <=? 8202)) || (c =? 8232) || (c =? 8233) || (c =? 8239) || (c =? 8287)
  || (c =? 12288).

Fixpoint drop_while (p : N -> bool) (l : str) : str :=
  match l with [] => [] | c :: r => if p c then drop_while p r else l end.
Fixpoint take_while (p : N -> bool) (l : str) : str :=
  match l with [] => [] | c :: r => if p c then c :: take_while p r else [] end.

(* linear-time reverse (List.rev is quadratic); rv l = rev l is StrLemmas.rv_rev *)
Definition rv (l : str) : str := rev_append l [].

Definition trim_start (l : str) : str := drop_while is_ws l.
Definition trim_end (l : str) : str := rv (drop_while is_ws (rv l)).
Definition trim (l : str) : str := trim_end (trim_start l).

Fixpoint str_eqb (a b : str) : bool :=
  match a, b with
  | [], [] => true
  | x :: a', y :: b' => (x =? y) && str_eqb a' b'
  | _, _ => false
  end.

Fixpoint strip_prefix (p l : str) : option str :=
  match p, l with
  | [], _ => Some l
  | a :: p', b :: l' => if a =? b then strip_prefix p' l' else None
  | _ :: _, [] => None
  end.
Definition starts_with (p l : str) : bool :=
  match strip_prefix p l with Some _ => true | None => false end.
Definition strip_suffix (p l : str) : option str :=
  match strip_prefix (rv p) (rv l) with Some r => Some (rv r) | None => None end.
Definition ends_with (p l : str) : bool :=
  match strip_suffix p l with Some _ => true | None => false end.

(* trim_start_matches(c) / trim_end_matches(pat): strip repeatedly *)
Definition trim_start_char (c : N) (l : str) : str := drop_while (N.eqb c) l.
Fixpoint trim_end_pat_f (fuel : nat) (p l : str) : str :=
  match fuel with
  | O => l
  | S f => match p with
           | [] => l
           | _ => match strip_suffix p l with Some r => trim_end_pat_f f p r | None => l end
           end
  end.
Definition trim_end_pat (p l : str) : str := trim_end_pat_f (length l) p l.

Definition utf8_len1 (c : N) : N :=
  if c <? 128 then 1 else if c <? 2048 then 2 else if c <? 65536 then 3 else 4.
Fixpoint utf8_len (l : str) : N :=
  match l with [] => 0 | c :: r => utf8_len1 c + utf8_len r end.

(* split_inclusive('\n'): every piece but possibly the last ends with '\n'; no empty piece *)
Fixpoint split_incl_go (l : str) (cur : str) : list str :=
  match l with
  | [] => match cur with [] => [] | _ => [rv cur] end
  | c :: r => if c =? 10 then rv (c :: cur) :: split_incl_go r [] else split_incl_go r (c :: cur)
  end.
Definition split_incl (l : str) : list str := split_incl_go l [].

(* one element of str::lines from one element of split_inclusive: drop "\n", then one "\r" *)
Definition strip_eol (seg : str) : str :=
  match strip_suffix [10] seg with
  | None => seg
  | Some a => match strip_suffix [13] a with None => a | Some b => b end
  end.
Definition str_lines (l : str) : list str := map strip_eol (split_incl l).

(* split_whitespace *)
Fixpoint split_ws_go (l : str) (cur : str) : list str :=
  match l with
  | [] => match cur with [] => [] | _ => [rv cur] end
  | c :: r => if is_ws c
              then match cur with [] => split_ws_go r [] | _ => rv cur :: split_ws_go r [] end
              else split_ws_go r (c :: cur)
  end.
Definition split_ws (l : str) : list str := split_ws_go l [].

(* find the first occurrence of [p]: (text before, text after) *)
Fixpoint split_once (p l : str) : option (str * str) :=
  match strip_prefix p l with
  | Some r => Some ([], r)
  | None => match l with
            | [] => None
            | c :: l' => match split_once p l' with
                         | Some (a, b) => Some (c :: a, b)
                         | None => None
                         end
            end
  end.
Definition contains (p l : str) : bool :=
  match split_once p l with Some _ => true | None => false end.

(* str::replace: non-overlapping matches, left to right; an empty pattern is never used by the
   modelled code and leaves the text unchanged here *)
Fixpoint replace_all_f (fuel : nat) (p rep l : str) : str :=
  match fuel with
  | O => l
  | S f => match p with
           | [] => l
           | _ => match strip_prefix p l with
                  | Some r => rep ++ replace_all_f f p rep r
                  | None => match l with [] => [] | c :: l' => c :: replace_all_f f p rep l' end
                  end
           end
  end.
Definition replace_all (p rep l : str) : str := replace_all_f (S (length l)) p rep l.
Definition replace_first (p rep l : str) : str :=
  match p with
  | [] => l
  | _ => match split_once p l with Some (a, b) => a ++ rep ++ b | None => l end
  end.

(* integer parsing: FromStr for u64 / i64 — optional sign ('+', and '-' for i64), then one or
   more ASCII digits, value in range *)
Definition is_digit (c : N) : bool := (48 <=? c) && (c <=? 57).
(* decimal digits <-> Coq's Decimal.uint, so that parsing is N.of_uint and printing N.to_uint *)
Definition digit_of (c : N) : option (Decimal.uint -> Decimal.uint) :=
  match c with
  | 48 => Some Decimal.D0 | 49 => Some Decimal.D1 | 50 => Some Decimal.D2 | 51 => Some Decimal.D3
  | 52 => Some Decimal.D4 | 53 => Some Decimal.D5 | 54 => Some Decimal.D6 | 55 => Some Decimal.D7
  | 56 => Some Decimal.D8 | 57 => Some Decimal.D9 | _ => None
  end.
Fixpoint uint_of_str (l : str) : option Decimal.uint :=
  match l with
  | [] => Some Decimal.Nil
  | c :: r => match digit_of c, uint_of_str r with
              | Some d, Some u => Some (d u)
              | _, _ => None
              end
  end.
Fixpoint str_of_uint (u : Decimal.uint) : str :=
  match u with
  | Decimal.Nil => []
  | Decimal.D0 r => 48 :: str_of_uint r | Decimal.D1 r => 49 :: str_of_uint r
  | Decimal.D2 r => 50 :: str_of_uint r | Decimal.D3 r => 51 :: str_of_uint r
  | Decimal.D4 r => 52 :: str_of_uint r | Decimal.D5 r => 53 :: str_of_uint r
  | Decimal.D6 r => 54 :: str_of_uint r | Decimal.D7 r => 55 :: str_of_uint r
  | Decimal.D8 r => 56 :: str_of_uint r | Decimal.D9 r => 57 :: str_of_uint r
  end.
(* one or more ASCII digits *)
Definition parse_nat_str (l : str) : option N :=
  match l with
  | [] => None
  | _ => match uint_of_str l with Some u => Some (N.of_uint u) | None => None end
  end.
Definition u64_max : N := 18446744073709551615.
Definition parse_u64 (l : str) : option N :=
  let body := match l with 43 :: r => r | _ => l end in
  match parse_nat_str body with
  | Some n => if n <=? u64_max then Some n else None
  | None => None
  end.
Definition i64_min : Z := (-9223372036854775808)%Z.
Definition i64_max : Z := 9223372036854775807%Z.
Definition in_i64 (z : Z) : bool := ((i64_min <=? z) && (z <=? i64_max))%Z.
Definition parse_i64 (l : str) : option Z :=
  let '(neg, body) := match l with 43 :: r => (false, r) | 45 :: r => (true, r) | _ => (false, l) end in
  match parse_nat_str body with
  | Some n => let z := if neg then (- Z.of_N n)%Z else Z.of_N n in
              if in_i64 z then Some z else None
  | None => None
  end.

(* decimal rendering (i64::to_string / usize::to_string) *)
Definition n_to_str (n : N) : str := str_of_uint (N.to_uint n).
Definition z_to_str (z : Z) : str :=
  match z with
  | Z0 => [48]
  | Zpos p => n_to_str (Npos p)
  | Zneg p => 45 :: n_to_str (Npos p)
  end.
