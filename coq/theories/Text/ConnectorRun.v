(* Text/ConnectorRun.v — evaluation of Text/Connector.v for the correspondence check (C39).
   One string per case:
     V=<1/0 per connector>|D=<decl cps>/<decl cps>|M=<missing cps>/..|N=<lines>|I=<injected cps>|P=<parse>/<parse>
   <parse> (of each connector's own declaration) = ERR or name~type~key=tag=value,key=tag=value
   with value = cps of value_str, or "?" when the fragment does not model the value. *)
From Coq Require Import String.
From VP Require Import Base.Tactics Base.Render Text.Str Text.Connector.
Open Scope string_scope.

Definition str_of_cps (l : str) : string := join "." (map str_of_N l).
Definition mk (n t : str) (ps : list (str * str)) : connector := {| cname := n; ctype := t; cparams := ps |}.

Definition str_of_cfg (v : cfg) : string :=
  let tag := match v with CInt _ => "int" | CStr _ => "str" | CIdent _ => "ident" | CBool _ => "bool" | COther _ => "other" end in
  tag ++ "=" ++ match value_str v with Some s => str_of_cps s | None => "?" end.
Definition str_of_parse (r : option (str * str * list (str * cfg))) : string :=
  match r with
  | None => "ERR"
  | Some (n, t, ps) => str_of_cps n ++ "~" ++ str_of_cps t ++ "~"
                       ++ join "," (map (fun kv : str * cfg => str_of_cps (fst kv) ++ "=" ++ str_of_cfg (snd kv)) ps)
  end.

Definition conn_case (source : str) (cs : list connector) : string :=
  let decls := map to_vpl_declaration cs in
  let '(inj, n) := inject source cs in
  "V=" ++ join "" (map (fun c => str_of_bool (validate c)) cs)
  ++ "|D=" ++ join "/" (map str_of_cps decls)
  ++ "|M=" ++ join "/" (map str_of_cps (find_missing source))
  ++ "|N=" ++ str_of_N n
  ++ "|I=" ++ str_of_cps inj
  ++ "|P=" ++ join "/" (map (fun d => str_of_parse (parse_decl d)) decls).
