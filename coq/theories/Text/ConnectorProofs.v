(* Text/ConnectorProofs.v — a validated connector's declaration parses back to the stored
   parameters (model of the grammar fragment in Text/Connector.v). *)
From Coq Require Import String DecimalN DecimalFacts.
From VP Require Import Base.Tactics Text.Str Text.StrLemmas Text.Connector.
Open Scope N_scope.

Ltac norm_lits :=
  repeat match goal with
         | |- context [s2l ?x] => let v := eval vm_compute in (s2l x) in change (s2l x) with v
         end.

(* ---------------------------------------------------------------- generic list facts *)
Lemma take_while_app : forall p l rest,
  forallb p l = true -> (match rest with [] => true | c :: _ => negb (p c) end) = true ->
  take_while p (l ++ rest) = l.
Proof.
  induction l as [|a l IH]; intros rest Hl Hr; cbn in *.
  - destruct rest as [|c r]; [reflexivity|]. cbn. destruct (p c); [discriminate|reflexivity].
  - apply andb_true_iff in Hl as [Ha Hl]. rewrite Ha. f_equal. now apply IH.
Qed.

Lemma drop_while_app : forall p l rest,
  forallb p l = true -> (match rest with [] => true | c :: _ => negb (p c) end) = true ->
  drop_while p (l ++ rest) = rest.
Proof.
  induction l as [|a l IH]; intros rest Hl Hr; cbn in *.
  - destruct rest as [|c r]; [reflexivity|]. cbn. destruct (p c); [discriminate|reflexivity].
  - apply andb_true_iff in Hl as [Ha Hl]. rewrite Ha. now apply IH.
Qed.

Lemma skip_ws_cons : forall c r, is_gap c = false -> skip_ws (c :: r) = c :: r.
Proof. intros c r H. unfold skip_ws. cbn. now rewrite H. Qed.

Lemma skip_ws_space : forall r, skip_ws (32 :: r) = skip_ws r.
Proof. reflexivity. Qed.

(* ---------------------------------------------------------------- identifiers *)
Lemma ident_start_char : forall c, is_ident_start c = true -> is_ident_char c = true.
Proof. intros c H. unfold is_ident_start in H. unfold is_ident_char. apply orb_true_iff in H as [H|H]; rewrite H; [reflexivity|]. now rewrite orb_true_r. Qed.

Lemma ident_start_not_gap : forall c, is_ident_start c = true -> is_gap c = false.
Proof.
  intros c H. unfold is_ident_start, is_alpha in H. unfold is_gap.
  destruct (c =? 32) eqn:E1; [apply N.eqb_eq in E1; subst; discriminate|].
  destruct (c =? 9) eqn:E2; [apply N.eqb_eq in E2; subst; discriminate|].
  destruct (c =? 13) eqn:E3; [apply N.eqb_eq in E3; subst; discriminate|].
  destruct (c =? 10) eqn:E4; [apply N.eqb_eq in E4; subst; discriminate|].
  reflexivity.
Qed.

Lemma valid_name_chars : forall n, is_valid_name n = true ->
  exists c r, n = c :: r /\ is_ident_start c = true /\ forallb is_ident_char n = true.
Proof.
  intros [|c r] H; cbn in H; [discriminate|].
  apply andb_true_iff in H as [H1 H2]. exists c, r. repeat split; try assumption.
  cbn. now rewrite (ident_start_char _ H1).
Qed.

Lemma lex_ident_app : forall n rest,
  is_valid_name n = true ->
  (match rest with [] => true | c :: _ => negb (is_ident_char c) end) = true ->
  lex_ident (n ++ rest) = Some (n, rest).
Proof.
  intros n rest Hn Hr. destruct (valid_name_chars n Hn) as (c & r & -> & Hc & Hall).
  unfold lex_ident. cbn [app]. rewrite Hc.
  change (c :: (r ++ rest)%list) with ((c :: r) ++ rest)%list.
  now rewrite take_while_app, drop_while_app.
Qed.

(* ---------------------------------------------------------------- string literals *)
Lemma scan_string_repr : forall n v, (length v <= n)%nat -> forall rest acc,
  representable_go v = true ->
  scan_string (v ++ 34 :: rest) acc = Some ((rev acc ++ v)%list, rest).
Proof.
  induction n as [|n IH]; intros v Hlen rest acc Hv.
  - destruct v; [|cbn in Hlen; lia]. cbn. now rewrite rv_rev, app_nil_r.
  - destruct v as [|c v]; [cbn; now rewrite rv_rev, app_nil_r|].
    cbn [app]. cbn [representable_go] in Hv.
    destruct (N.eq_dec c 34) as [->|N34]; [discriminate|].
    destruct (N.eq_dec c 92) as [->|N92].
    + destruct v as [|d v]; [discriminate|]. cbn [app scan_string].
      rewrite (IH v); [| cbn in Hlen; lia | assumption].
      cbn [rev]. now rewrite <- !app_assoc.
    + assert (E : scan_string (c :: (v ++ 34 :: rest)%list) acc = scan_string (v ++ 34 :: rest) (c :: acc)).
      { cbn [scan_string]. destruct c as [|p]; [reflexivity|].
        repeat (destruct p as [p|p|]; try reflexivity); congruence. }
      assert (Hv' : representable_go v = true).
      { destruct c as [|p]; [assumption|].
        repeat (destruct p as [p|p|]; try assumption); congruence. }
      rewrite E, (IH v); [| cbn in Hlen; lia | assumption].
      cbn [rev]. now rewrite <- app_assoc.
Qed.

(* ---------------------------------------------------------------- canonical integers *)
Lemma uint_of_str_inv : forall v u, uint_of_str v = Some u -> str_of_uint u = v.
Proof.
  induction v as [|c v IH]; intros u H; cbn in H.
  - now inv H.
  - destruct (digit_of c) as [d|] eqn:Ed; [|discriminate].
    destruct (uint_of_str v) as [u'|] eqn:Eu; [|discriminate]. injection H as <-.
    specialize (IH u' eq_refl). unfold digit_of in Ed.
    destruct c as [|p]; [discriminate|].
    repeat (destruct p as [p|p|]; try discriminate); injection Ed as <-; cbn [str_of_uint]; now rewrite IH.
Qed.

Lemma uint_of_str_head : forall c v u, uint_of_str (c :: v) = Some u -> c <> 48 -> Decimal.unorm u = u.
Proof.
  intros c v u H Hc. cbn in H.
  destruct (digit_of c) as [d|] eqn:Ed; [|discriminate].
  destruct (uint_of_str v) as [u'|]; [|discriminate]. injection H as <-.
  unfold digit_of in Ed. destruct c as [|p]; [discriminate|].
  repeat (destruct p as [p|p|]; try discriminate); injection Ed as <-; try reflexivity; congruence.
Qed.

Lemma canonical_int_roundtrip : forall v, is_canonical_int v = true ->
  exists z, parse_i64 v = Some z /\ z_to_str z = v /\ forallb is_digit v = true /\ v <> [].
Proof.
  intros v H. unfold is_canonical_int in H. destruct v as [|c r]; [discriminate|].
  apply andb_true_iff in H as [H H3]. apply andb_true_iff in H as [Hd Hz].
  destruct (parse_i64 (c :: r)) as [z|] eqn:Ep; [|discriminate].
  exists z. repeat split; try assumption; try discriminate.
  assert (Hc : is_digit c = true) by (cbn in Hd; now apply andb_true_iff in Hd as [? _]).
  rewrite (parse_i64_digit_head c r Hc) in Ep.
  unfold parse_nat_str in Ep.
  destruct (uint_of_str (c :: r)) as [u|] eqn:Eu; [|discriminate].
  destruct (in_i64 (Z.of_N (N.of_uint u))); [|discriminate]. inv Ep.
  assert (Hn : n_to_str (N.of_uint u) = c :: r).
  { unfold n_to_str. rewrite DecimalN.Unsigned.to_of.
    apply orb_true_iff in Hz as [Hz|Hz].
    - apply str_eqb_eq in Hz. inv Hz. cbn in Eu. inv Eu. reflexivity.
    - rewrite (uint_of_str_head c r u Eu).
      + now apply uint_of_str_inv.
      + intros ->. discriminate. }
  destruct (N.of_uint u) as [|p] eqn:En; cbn [Z.of_N z_to_str].
  - rewrite <- Hn. reflexivity.
  - exact Hn.
Qed.

Definition delim_ok (rest : str) : bool :=
  match rest with c :: _ => (c =? 44) || (c =? 41) | [] => false end.

Lemma delim_cases : forall rest, delim_ok rest = true -> exists r, rest = 44 :: r \/ rest = 41 :: r.
Proof.
  intros [|c r] H; cbn in H; [discriminate|]. exists r.
  apply orb_true_iff in H as [H|H]; apply N.eqb_eq in H; subst; auto.
Qed.

Lemma lex_number_canonical : forall v rest z,
  forallb is_digit v = true -> v <> [] -> parse_i64 v = Some z -> delim_ok rest = true ->
  lex_number (v ++ rest) = Some (CInt z, rest).
Proof.
  intros v rest z Hd Hne Hp Hr. unfold lex_number.
  destruct (delim_cases rest Hr) as [r [-> | ->]];
    (rewrite take_while_app, drop_while_app by (assumption || reflexivity);
     destruct v as [|c v]; [congruence|]; now rewrite Hp).
Qed.

(* ---------------------------------------------------------------- one parameter *)
Definition cfg_of (v : str) : cfg :=
  if is_canonical_int v then CInt (match parse_i64 v with Some z => z | None => 0%Z end) else CStr v.

Lemma value_str_cfg_of : forall v, value_str (cfg_of v) = Some v.
Proof.
  intros v. unfold cfg_of. destruct (is_canonical_int v) eqn:E; [|reflexivity].
  destruct (canonical_int_roundtrip v E) as (z & Hp & Hz & _). rewrite Hp. cbn. now rewrite Hz.
Qed.

Lemma representable_go_of : forall v, representable v = true -> representable_go v = true.
Proof. intros v H. unfold representable in H. now apply andb_true_iff in H as [_ H]. Qed.

Lemma parse_value_rendered : forall v rest,
  representable v = true -> delim_ok rest = true ->
  parse_value ((if is_canonical_int v then v else [34] ++ v ++ [34]) ++ rest) = Some (cfg_of v, rest).
Proof.
  intros v rest Hv Hr. unfold cfg_of. destruct (is_canonical_int v) eqn:E.
  - destruct (canonical_int_roundtrip v E) as (z & Hp & _ & Hd & Hne). rewrite Hp.
    destruct v as [|c v]; [congruence|]. cbn [app]. unfold parse_value.
    assert (Hc : is_digit c = true) by (cbn in Hd; now apply andb_true_iff in Hd as [? _]).
    assert (H91 : (c =? 91) = false).
    { unfold is_digit in Hc. destruct (c =? 91) eqn:E91; [|reflexivity]. apply N.eqb_eq in E91. subst. discriminate. }
    rewrite H91, Hc. change (c :: (v ++ rest)%list) with ((c :: v) ++ rest)%list.
    now apply lex_number_canonical.
  - cbn [app]. unfold parse_value.
    change ((34 =? 91)) with false. change (is_digit 34) with false. change (34 =? 34) with true. cbv iota.
    rewrite <- app_assoc. cbn [app].
    rewrite (scan_string_repr (length v) v (le_n _) rest []) by now apply representable_go_of.
    reflexivity.
Qed.

Definition param_ok (kv : str * str) : bool := is_valid_name (fst kv) && representable (snd kv).

Lemma value_text_not_gap : forall v rest,
  exists c r, (if is_canonical_int v then v else [34] ++ v ++ [34]) ++ rest = c :: r /\ is_gap c = false.
Proof.
  intros v rest. destruct (is_canonical_int v) eqn:E.
  - destruct (canonical_int_roundtrip v E) as (z & _ & _ & Hd & Hne).
    destruct v as [|c v]; [congruence|]. exists c, (v ++ rest)%list. split; [reflexivity|].
    cbn in Hd. apply andb_true_iff in Hd as [Hc _]. unfold is_digit in Hc. unfold is_gap.
    destruct (c =? 32) eqn:E1; [apply N.eqb_eq in E1; subst; discriminate|].
    destruct (c =? 9) eqn:E2; [apply N.eqb_eq in E2; subst; discriminate|].
    destruct (c =? 13) eqn:E3; [apply N.eqb_eq in E3; subst; discriminate|].
    destruct (c =? 10) eqn:E4; [apply N.eqb_eq in E4; subst; discriminate|].
    reflexivity.
  - exists 34, ((v ++ [34]) ++ rest)%list. split; reflexivity.
Qed.

Lemma parse_param_rendered : forall kv rest,
  param_ok kv = true -> delim_ok rest = true ->
  parse_param (render_param kv ++ rest) = Some ((fst kv, cfg_of (snd kv)), rest).
Proof.
  intros [k v] rest Hok Hr. unfold param_ok in Hok. cbn [fst snd] in *.
  apply andb_true_iff in Hok as [Hk Hv].
  unfold render_param, parse_param. cbn [fst snd].
  norm_lits. rewrite <- !app_assoc. cbn [app].
  rewrite lex_ident_app by (assumption || reflexivity).
  rewrite skip_ws_cons by reflexivity. cbn [strip_prefix]. change (58 =? 58) with true. cbv iota.
  rewrite skip_ws_space.
  destruct (value_text_not_gap v rest) as (c & r & Heq & Hc).
  change (34 :: v ++ [34])%list with ([34] ++ v ++ [34])%list.
  rewrite Heq, skip_ws_cons, <- Heq by assumption.
  now rewrite parse_value_rendered.
Qed.

(* ---------------------------------------------------------------- parameter lists *)
Definition tail_text (ps : list (str * str)) : str :=
  concat (map (fun kv => [44; 32] ++ render_param kv) ps).

Lemma join_render : forall p ps,
  join_str [44; 32] (map render_param (p :: ps)) = (render_param p ++ tail_text ps)%list.
Proof.
  intros p ps. revert p. induction ps as [|q ps IH]; intros p.
  - cbn. now rewrite app_nil_r.
  - change (join_str [44; 32] (map render_param (p :: q :: ps)))
      with (render_param p ++ [44; 32] ++ join_str [44; 32] (map render_param (q :: ps)))%list.
    rewrite IH. unfold tail_text. cbn [map concat]. now rewrite <- !app_assoc.
Qed.

Lemma render_param_ident_start : forall kv, param_ok kv = true ->
  exists c r, render_param kv = c :: r /\ is_gap c = false.
Proof.
  intros [k v] H. unfold param_ok in H. cbn [fst snd] in H. apply andb_true_iff in H as [Hk _].
  destruct (valid_name_chars k Hk) as (c & r & -> & Hc & _).
  exists c. eexists. split; [unfold render_param; cbn [fst app]; reflexivity|].
  now apply ident_start_not_gap.
Qed.

Lemma parse_params_tail_rendered : forall ps fuel tl,
  forallb param_ok ps = true -> (length ps <= fuel)%nat ->
  parse_params_tail fuel (tail_text ps ++ 41 :: tl)
  = (map (fun kv => (fst kv, cfg_of (snd kv))) ps, 41 :: tl).
Proof.
  induction ps as [|p ps IH]; intros fuel tl Hok Hf.
  - cbn [tail_text map concat app]. destruct fuel; reflexivity.
  - destruct fuel as [|fuel]; [cbn in Hf; lia|].
    cbn [forallb] in Hok. apply andb_true_iff in Hok as [Hp Hps].
    unfold tail_text. cbn [map concat]. fold (tail_text ps).
    rewrite <- !app_assoc. cbn [app parse_params_tail].
    rewrite skip_ws_cons by reflexivity. cbn [strip_prefix]. change (44 =? 44) with true. cbv iota.
    rewrite skip_ws_space.
    destruct (render_param_ident_start p Hp) as (c & r & Heq & Hc).
    rewrite Heq. cbn [app]. rewrite skip_ws_cons by assumption.
    change (c :: (r ++ tail_text ps ++ 41 :: tl)%list) with ((c :: r) ++ (tail_text ps ++ 41 :: tl))%list.
    rewrite <- Heq.
    rewrite parse_param_rendered; [| assumption |].
    + rewrite IH by (assumption || (cbn in Hf; lia)). reflexivity.
    + destruct ps as [|q ps']; reflexivity.
Qed.

Lemma tail_text_length : forall ps, (length ps <= length (tail_text ps))%nat.
Proof.
  induction ps as [|p ps IH]; [cbn; lia|].
  unfold tail_text. cbn [map concat]. fold (tail_text ps). rewrite !app_length. cbn [length]. lia.
Qed.

(* ---------------------------------------------------------------- the declaration *)
Lemma lex_type_valid : forall t rest, is_valid_type t = true ->
  lex_type (t ++ 40 :: rest) = Some (t, 40 :: rest).
Proof.
  intros t rest H. unfold is_valid_type, valid_types in H. cbn [existsb] in H.
  repeat (apply orb_true_iff in H as [H|H]; [apply str_eqb_eq in H; subst t; vm_compute; reflexivity|]).
  discriminate.
Qed.

Lemma parse_decl_rendered : forall c, validate c = true ->
  parse_decl (to_vpl_declaration c)
  = Some (cname c, ctype c, map (fun kv => (fst kv, cfg_of (snd kv))) (cparams c)).
Proof.
  intros [n t ps] H. unfold validate in H. cbn [cname ctype cparams] in *.
  apply andb_true_iff in H as [H Hps]. apply andb_true_iff in H as [H _].
  apply andb_true_iff in H as [Hn Ht]. fold param_ok in Hps.
  change (forallb (fun kv => is_valid_name (fst kv) && representable (snd kv)) ps) with (forallb param_ok ps) in Hps.
  unfold to_vpl_declaration, parse_decl. cbn [cname ctype cparams].
  change (s2l "connector ") with (s2l "connector" ++ [32])%list.
  change (s2l " = ") with [32; 61; 32]. change (s2l "(") with [40]. change (s2l ")") with [41].
  change (s2l ", ") with [44; 32].
  rewrite <- !app_assoc.
  assert (Hsk : forall X, skip_ws (s2l "connector" ++ X) = (s2l "connector" ++ X)%list) by reflexivity.
  rewrite Hsk.
  rewrite strip_prefix_app. cbn [app]. rewrite skip_ws_space.
  destruct (valid_name_chars n Hn) as (c0 & r0 & En & Hc0 & _).
  assert (Hgap : skip_ws (n ++ 32 :: 61 :: 32 :: t ++ 40 :: join_str [44; 32] (map render_param ps) ++ [41])
                 = (n ++ 32 :: 61 :: 32 :: t ++ 40 :: join_str [44; 32] (map render_param ps) ++ [41])%list).
  { rewrite En. cbn [app]. apply skip_ws_cons. now apply ident_start_not_gap. }
  rewrite Hgap. rewrite lex_ident_app by (assumption || reflexivity).
  rewrite skip_ws_space, skip_ws_cons by reflexivity. cbn [strip_prefix]. change (61 =? 61) with true. cbv iota.
  rewrite skip_ws_space.
  assert (Ht0 : exists c1 r1, t = c1 :: r1 /\ is_gap c1 = false).
  { unfold is_valid_type, valid_types in Ht. cbn [existsb] in Ht.
    repeat (apply orb_true_iff in Ht as [Ht|Ht]; [apply str_eqb_eq in Ht; subst t; eexists; eexists; split; reflexivity|]).
    discriminate. }
  destruct Ht0 as (c1 & r1 & Et & Hc1).
  assert (Hgap2 : skip_ws (t ++ 40 :: join_str [44; 32] (map render_param ps) ++ [41])
                  = (t ++ 40 :: join_str [44; 32] (map render_param ps) ++ [41])%list).
  { rewrite Et. cbn [app]. now apply skip_ws_cons. }
  rewrite Hgap2, lex_type_valid by assumption.
  rewrite skip_ws_cons by reflexivity. cbn [strip_prefix]. change (40 =? 40) with true. cbv iota.
  destruct ps as [|p ps].
  - cbn [map join_str app]. rewrite skip_ws_cons by reflexivity.
    change (parse_param [41]) with (@None ((str * cfg) * str)). cbv iota.
    rewrite skip_ws_cons by reflexivity. cbn [strip_prefix]. change (41 =? 41) with true. reflexivity.
  - cbn [forallb] in Hps. apply andb_true_iff in Hps as [Hp Hps].
    rewrite join_render, <- app_assoc.
    destruct (render_param_ident_start p Hp) as (c2 & r2 & Ep & Hc2).
    assert (Hgap3 : skip_ws (render_param p ++ tail_text ps ++ [41]) = (render_param p ++ tail_text ps ++ [41])%list).
    { rewrite Ep. cbn [app]. now apply skip_ws_cons. }
    rewrite Hgap3, parse_param_rendered; [| assumption | destruct ps; reflexivity].
    rewrite parse_params_tail_rendered; [| assumption | rewrite app_length; pose proof (tail_text_length ps); lia].
    rewrite skip_ws_cons by reflexivity. cbn [strip_prefix]. change (41 =? 41) with true. cbv iota.
    reflexivity.
Qed.

(* ---------------------------------------------------------------- injection *)
Definition declared_params (ps : list (str * cfg)) : list (str * option str) :=
  map (fun kv => (fst kv, value_str (snd kv))) ps.
Definition stored_params (c : connector) : list (str * option str) :=
  map (fun kv => (fst kv, Some (snd kv))) (cparams c).

Lemma roundtrip : forall c, validate c = true ->
  exists ps, parse_decl (to_vpl_declaration c) = Some (cname c, ctype c, ps)
             /\ declared_params ps = stored_params c.
Proof.
  intros c H. eexists. split; [now apply parse_decl_rendered|].
  unfold declared_params, stored_params. rewrite map_map. apply map_ext.
  intros [k v]. cbn [fst snd]. now rewrite value_str_cfg_of.
Qed.

Lemma lookup_conn_some : forall n cs c, lookup_conn n cs = Some c -> In c cs /\ cname c = n.
Proof.
  induction cs as [|x cs IH]; intros c H; cbn in H; [discriminate|].
  destruct (str_eqb (cname x) n) eqn:E.
  - inv H. split; [now left|now apply str_eqb_eq].
  - destruct (IH c H) as [Hin Hn]. split; [now right|assumption].
Qed.

Lemma preamble_decls_spec : forall source cs d,
  In d (preamble_decls source cs) <->
  exists n c, In n (find_missing source) /\ lookup_conn n cs = Some c /\ d = to_vpl_declaration c.
Proof.
  intros source cs d. unfold preamble_decls. rewrite in_flat_map. split.
  - intros (n & Hn & Hd). destruct (lookup_conn n cs) as [c|] eqn:E; [|contradiction].
    destruct Hd as [<-|[]]. now exists n, c.
  - intros (n & c & Hn & Hl & ->). exists n. split; [assumption|]. rewrite Hl. now left.
Qed.

Lemma enriched_no_append : forall cs (src : str),
  forallb (fun c => negb (append_mode c)) cs = true ->
  fold_left (fun s c =>
     if append_mode c
     then append_client_ids s (cname c)
            (match lookup_param (s2l "client_id") (cparams c) with Some b => b | None => cname c end)
     else s) cs src = src.
Proof.
  induction cs as [|c cs IH]; intros src H; [reflexivity|].
  cbn [forallb] in H. apply andb_true_iff in H as [Hc Hcs]. cbn [fold_left].
  apply negb_true_iff in Hc. rewrite Hc. now apply IH.
Qed.

Lemma inject_no_append : forall source cs,
  forallb (fun c => negb (append_mode c)) cs = true ->
  fst (inject source cs) = (concat (map (fun d => d ++ [10]) (preamble_decls source cs)) ++ source)%list.
Proof.
  intros source cs H. unfold inject. rewrite enriched_no_append by assumption.
  destruct (preamble_decls source cs); reflexivity.
Qed.
