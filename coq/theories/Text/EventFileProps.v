(* Text/EventFileProps.v — property C46: both event-file readers read the same events.
   Model: Text/EventFile.v (tied to crates/varpulis-runtime/src/event_file.rs by checks/C46.py). *)
From Coq Require Import String.
From VP Require Import Base.Tactics Text.Str Text.EventFile Text.EventFileProofs.
Open Scope N_scope.

(* Known finding, class "oversize-line": some read_line piece of the file (a line with its
   newline) is longer than MAX_LINE_LENGTH bytes; the streaming reader skips it, the preload
   reader does not. *)
Definition Known_C46_oversize (max_line : N) (file : str) : Prop := oversize max_line file = true.

(* For every file text, every pair of event-line parsers (shared by the two readers) and every
   line-length limit: outside the known class the streaming reader yields exactly the events of
   the preload reader, in the same order (time offsets dropped), or both reject, or both panic. *)
Theorem C46_same :
  forall (Ev : Type) (parse_evt parse_json : str -> option Ev) (max_line : N) (file : str),
    ~ Known_C46_oversize max_line file ->
    stream Ev parse_evt parse_json max_line file
    = omap (map snd) (preload Ev parse_evt parse_json file).
Proof.
  intros Ev pe pj max_line file H. apply stream_preload.
  unfold Known_C46_oversize in H. destruct (oversize max_line file); congruence.
Qed.

(* non-vacuity: a file with a batch directive, timing prefixes, a JSON line, comments and a blank
   line is outside the known class and both readers return its four events *)
Definition demo_file : str :=
  s2l "# c" ++ [10] ++ s2l "BATCH 100" ++ [13; 10] ++ s2l "A { x: 1 };" ++ [10] ++ [10]
  ++ s2l "@5s B { y: 2 }" ++ [10] ++ s2l "  @20ms {""event_type"": ""C""}" ++ [10] ++ s2l "// d" ++ [10] ++ s2l "D(1)".
Example C46_same_nonvacuous :
  ~ Known_C46_oversize 1048576 demo_file
  /\ preload str Some Some demo_file
     = Ok [(100, s2l "A { x: 1 };"); (5000, s2l "B { y: 2 }"); (20, s2l "{""event_type"": ""C""}"); (100, s2l "D(1)")]
  /\ stream str Some Some 1048576 demo_file
     = Ok [s2l "A { x: 1 };"; s2l "B { y: 2 }"; s2l "{""event_type"": ""C""}"; s2l "D(1)"].
Proof. split; [|split]; [intros H; vm_compute in H; discriminate | vm_compute; reflexivity | vm_compute; reflexivity]. Qed.

(* the known class is a genuine exception: an event line padded with spaces beyond the limit *)
Definition oversize_witness (max_line : N) : str :=
  s2l "A {}" ++ N.iter max_line (cons 32) [] ++ [10] ++ s2l "B {}" ++ [10].
Theorem C46_oversize_refuted :
  exists file, Known_C46_oversize 1048576 file
    /\ stream str Some Some 1048576 file <> omap (map snd) (preload str Some Some file).
Proof.
  exists (oversize_witness 1048576). split.
  - vm_compute. reflexivity.
  - vm_compute. intros H. discriminate H.
Qed.
