(* Text/Connector.v — executable model of crates/varpulis-cluster/src/connector_config.rs and of
   the fragment of the VPL grammar a rendered connector declaration uses.  Definitions only.

   Rust (connector_config.rs)                 here
   -----------------------------------------  --------------------------
   is_valid_connector_name                    is_valid_name
   is_valid_connector_type                    is_valid_type
   validate_required_params                   required_ok
   is_representable_param_value               representable
   validate_connector                         validate
   is_canonical_integer                       is_canonical_int
   ClusterConnector::to_vpl_declaration       to_vpl_declaration   (params in HashMap iteration order,
                                                                    which is an input of the model)
   find_missing_connectors                    find_missing
   append_pipeline_client_ids                 append_client_ids
   inject_connectors                          inject              (connector map = list in iteration order)

   VPL grammar / parser (varpulis.pest, pest_parser.rs)    here
   -----------------------------------------  --------------------------
   WHITESPACE skipping between tokens         skip_ws
   identifier                                 lex_ident
   connector_type                             lex_type
   config_value  (float | duration | integer | string | boolean | identifier; config_array is
                  outside the fragment)       parse_value
   parse_config_value                         cfg (CInt/CStr/CIdent/CBool/COther)
   connector_param, connector_params          parse_param, parse_params_tail
   connector_decl + parse_connector_decl      parse_decl           (one declaration, then end of input)
   sink_factory::connector_params_to_config   value_str            (the string the runtime derives)
   Comments (# ..., /* ... */) between tokens are outside the fragment: a rendered declaration of a
   validated connector contains '#' or '/' only inside string literals. *)
From Coq Require Import String.
From VP Require Import Base.Tactics Text.Str.
Open Scope N_scope.

Record connector := { cname : str; ctype : str; cparams : list (str * str) }.

(* ---------------------------------------------------------------- validation *)
Definition is_alpha (c : N) : bool := ((65 <=? c) && (c <=? 90)) || ((97 <=? c) && (c <=? 122)).
Definition is_ident_start (c : N) : bool := is_alpha c || (c =? 95).
Definition is_ident_char (c : N) : bool := is_alpha c || is_digit c || (c =? 95).

Definition is_valid_name (s : str) : bool :=
  match s with [] => false | c :: r => is_ident_start c && forallb is_ident_char r end.

Definition valid_types : list str := [s2l "mqtt"; s2l "kafka"; s2l "nats"; s2l "http"; s2l "console"].
Definition is_valid_type (t : str) : bool := existsb (str_eqb t) valid_types.

Definition has_key (k : str) (ps : list (str * str)) : bool := existsb (fun kv => str_eqb (fst kv) k) ps.
Definition required_ok (t : str) (ps : list (str * str)) : bool :=
  if str_eqb t (s2l "mqtt") then has_key (s2l "host") ps
  else if str_eqb t (s2l "kafka") then has_key (s2l "brokers") ps
  else if str_eqb t (s2l "http") then has_key (s2l "url") ps
  else if str_eqb t (s2l "nats") then has_key (s2l "servers") ps
  else str_eqb t (s2l "console").

(* no double quote outside a backslash pair, no dangling backslash *)
Fixpoint representable_go (l : str) : bool :=
  match l with
  | [] => true
  | 34 :: _ => false
  | 92 :: r => match r with [] => false | _ :: r' => representable_go r' end
  | _ :: r => representable_go r
  end.
Definition is_eol (c : N) : bool := (c =? 10) || (c =? 13).
Definition representable (v : str) : bool := negb (existsb is_eol v) && representable_go v.

Definition validate (c : connector) : bool :=
  is_valid_name (cname c) && is_valid_type (ctype c) && required_ok (ctype c) (cparams c)
  && forallb (fun kv => is_valid_name (fst kv) && representable (snd kv)) (cparams c).

(* ---------------------------------------------------------------- rendering *)
Definition is_canonical_int (v : str) : bool :=
  match v with
  | [] => false
  | c :: r => forallb is_digit v && (str_eqb v [48] || negb (c =? 48))
              && match parse_i64 v with Some _ => true | None => false end
  end.

Fixpoint join_str (sep : str) (l : list str) : str :=
  match l with [] => [] | [x] => x | x :: r => x ++ sep ++ join_str sep r end.

Definition render_param (kv : str * str) : str :=
  fst kv ++ s2l ": " ++ (if is_canonical_int (snd kv) then snd kv else [34] ++ snd kv ++ [34]).
Definition to_vpl_declaration (c : connector) : str :=
  s2l "connector " ++ cname c ++ s2l " = " ++ ctype c ++ s2l "("
  ++ join_str (s2l ", ") (map render_param (cparams c)) ++ s2l ")".

(* ---------------------------------------------------------------- find_missing_connectors *)
Definition mem_str (x : str) (l : list str) : bool := existsb (str_eqb x) l.

(* all occurrences of [pat] in [line], left to right, continuing right after each match *)
Fixpoint scan_refs (fuel : nat) (pat line : str) (refs : list str) : list str :=
  match fuel with
  | O => refs
  | S f => match split_once pat line with
           | None => refs
           | Some (_, after) =>
             let refs' :=
               match after with
               | [] => refs
               | _ => let name := take_while is_ident_char after in
                      match name with
                      | [] => refs
                      | c :: _ => if is_ident_start c && negb (mem_str name refs)
                                  then (refs ++ [name])%list else refs
                      end
               end in
             scan_refs f pat after refs'
           end
  end.

Definition line_decl (trimmed : str) : option str :=
  match strip_prefix (s2l "connector ") trimmed with
  | Some rest => match split_once [61] rest with
                 | Some (before, _) => match trim before with [] => None | n => Some n end
                 | None => None
                 end
  | None => None
  end.

Fixpoint find_go (lines : list str) (declared referenced : list str) : list str * list str :=
  match lines with
  | [] => (declared, referenced)
  | l :: r =>
    let t := trim l in
    let declared' := match line_decl t with Some n => (declared ++ [n])%list | None => declared end in
    let r1 := scan_refs (S (length t)) (s2l ".from(") t referenced in
    let r2 := scan_refs (S (length t)) (s2l ".to(") t r1 in
    find_go r declared' r2
  end.
Definition find_missing (source : str) : list str :=
  let '(declared, referenced) := find_go (str_lines source) [] [] in
  filter (fun n => negb (mem_str n declared)) referenced.

(* ---------------------------------------------------------------- append_pipeline_client_ids *)
Definition pipeline_name (trimmed : str) : option str :=
  match strip_prefix (s2l "stream ") trimmed with
  | Some rest => match split_ws rest with n :: _ => Some n | [] => None end
  | None => None
  end.

Definition rewrite_line (cn base pname line : str) : str :=
  let pats := [s2l ".from(" ++ cn ++ [44]; s2l ".from(" ++ cn ++ [44]; s2l ".to(" ++ cn ++ [44]] in
  let fix go (ps : list str) : str :=
    match ps with
    | [] => line
    | p :: r => if contains p line
                then replace_first p (trim_end_pat [44] p ++ s2l ", client_id: """ ++ base ++ [45] ++ pname ++ s2l """,") line
                else go r
    end in
  go pats.

Definition append_client_ids (source cn base : str) : str :=
  let out := concat (map (fun line => (match pipeline_name (trim line) with
                                       | Some pn => rewrite_line cn base pn line
                                       | None => line
                                       end) ++ [10]) (str_lines source)) in
  if ends_with [10] source then out else removelast out.

(* ---------------------------------------------------------------- inject_connectors *)
Fixpoint lookup_conn (n : str) (cs : list connector) : option connector :=
  match cs with [] => None | c :: r => if str_eqb (cname c) n then Some c else lookup_conn n r end.
Fixpoint lookup_param (k : str) (ps : list (str * str)) : option str :=
  match ps with [] => None | (k', v) :: r => if str_eqb k' k then Some v else lookup_param k r end.

Definition append_mode (c : connector) : bool :=
  match lookup_param (s2l "client_id_mode") (cparams c) with
  | Some m => str_eqb m (s2l "append_pipeline")
  | None => false
  end.

Definition preamble_decls (source : str) (cs : list connector) : list str :=
  flat_map (fun n => match lookup_conn n cs with Some c => [to_vpl_declaration c] | None => [] end)
           (find_missing source).

Definition inject (source : str) (cs : list connector) : str * N :=
  let decls := preamble_decls source cs in
  let enriched := fold_left (fun src c =>
                    if append_mode c
                    then append_client_ids src (cname c)
                           (match lookup_param (s2l "client_id") (cparams c) with Some b => b | None => cname c end)
                    else src) cs source in
  match decls with
  | [] => (enriched, 0)
  | _ => (concat (map (fun d => d ++ [10]) decls) ++ enriched, N.of_nat (length decls) + 1)
  end.

(* ---------------------------------------------------------------- grammar fragment *)
Inductive cfg := CInt (z : Z) | CStr (s : str) | CIdent (s : str) | CBool (b : bool)
               | COther (raw : str).   (* float / duration: value not modelled *)

Definition value_str (v : cfg) : option str :=
  match v with
  | CInt z => Some (z_to_str z)
  | CStr s => Some s
  | CIdent s => Some s
  | CBool b => Some (if b then s2l "true" else s2l "false")
  | COther _ => None
  end.

Definition is_gap (c : N) : bool := (c =? 32) || (c =? 9) || (c =? 13) || (c =? 10).
Definition skip_ws (s : str) : str := drop_while is_gap s.

Definition lex_ident (s : str) : option (str * str) :=
  match s with
  | c :: _ => if is_ident_start c
              then Some (take_while is_ident_char s, drop_while is_ident_char s) else None
  | [] => None
  end.

Definition type_literals : list str :=
  [s2l "mqtt"; s2l "kafka"; s2l "nats"; s2l "http"; s2l "amqp"; s2l "file"; s2l "websocket"; s2l "grpc"].
Fixpoint first_prefix (lits : list str) (s : str) : option (str * str) :=
  match lits with
  | [] => None
  | l :: r => match strip_prefix l s with Some rest => Some (l, rest) | None => first_prefix r s end
  end.
Definition lex_type (s : str) : option (str * str) :=
  match first_prefix type_literals s with Some x => Some x | None => lex_ident s end.

(* string: dquote ( !(dquote | backslash) ANY | backslash ANY )* dquote ; the value is the raw
   text in between *)
Fixpoint scan_string (s : str) (acc : str) : option (str * str) :=
  match s with
  | [] => None
  | 34 :: r => Some (rv acc, r)
  | 92 :: r => match r with [] => None | c :: r' => scan_string r' (c :: 92 :: acc) end
  | c :: r => scan_string r (c :: acc)
  end.

Definition duration_units : list str := [s2l "ns"; s2l "us"; s2l "ms"; s2l "s"; s2l "m"; s2l "h"; s2l "d"].

(* digits first: float (d+ '.' d+ exponent?) | duration (d+ unit) | integer (d+) *)
Definition lex_number (s : str) : option (cfg * str) :=
  let ds := take_while is_digit s in
  let rest := drop_while is_digit s in
  match ds with
  | [] => None
  | _ =>
    let as_float :=
      match rest with
      | 46 :: r1 =>
        match take_while is_digit r1 with
        | [] => None
        | fr =>
          let r2 := drop_while is_digit r1 in
          let with_exp :=
            match r2 with
            | e :: r3 =>
              if (e =? 101) || (e =? 69) then
                let r4 := match r3 with sg :: r' => if (sg =? 43) || (sg =? 45) then r' else r3 | [] => r3 end in
                match take_while is_digit r4 with
                | [] => None
                | ex => Some (drop_while is_digit r4)
                end
              else None
            | [] => None
            end in
          Some (match with_exp with Some r5 => r5 | None => r2 end)
        end
      | _ => None
      end in
    match as_float with
    | Some r => Some (COther (firstn (length s - length r) s), r)
    | None =>
      match first_prefix duration_units rest with
      | Some (u, r) => Some (COther (ds ++ u), r)
      | None => Some (CInt (match parse_i64 ds with Some z => z | None => 0%Z end), rest)
      end
    end
  end.

Definition parse_value (s : str) : option (cfg * str) :=
  match s with
  | [] => None
  | c :: r =>
    if c =? 91 then None                                    (* config_array: outside the fragment *)
    else if is_digit c then lex_number s
    else if c =? 34 then match scan_string r [] with Some (v, rest) => Some (CStr v, rest) | None => None end
    else match strip_prefix (s2l "true") s with
         | Some rest => Some (CBool true, rest)
         | None => match strip_prefix (s2l "false") s with
                   | Some rest => Some (CBool false, rest)
                   | None => match lex_ident s with Some (i, rest) => Some (CIdent i, rest) | None => None end
                   end
         end
  end.

Definition parse_param (s : str) : option ((str * cfg) * str) :=
  match lex_ident s with
  | Some (k, r) => match strip_prefix [58] (skip_ws r) with
                   | Some r2 => match parse_value (skip_ws r2) with
                                | Some (v, r3) => Some ((k, v), r3)
                                | None => None
                                end
                   | None => None
                   end
  | None => None
  end.

(* ("," connector_param)* — a failed iteration consumes nothing *)
Fixpoint parse_params_tail (fuel : nat) (s : str) : list (str * cfg) * str :=
  match fuel with
  | O => ([], s)
  | S f => match strip_prefix [44] (skip_ws s) with
           | Some r => match parse_param (skip_ws r) with
                       | Some (p, r') => let '(ps, r'') := parse_params_tail f r' in (p :: ps, r'')
                       | None => ([], s)
                       end
           | None => ([], s)
           end
  end.

Definition parse_decl (s : str) : option (str * str * list (str * cfg)) :=
  match strip_prefix (s2l "connector") (skip_ws s) with
  | None => None
  | Some r0 =>
    match lex_ident (skip_ws r0) with
    | None => None
    | Some (name, r1) =>
      match strip_prefix [61] (skip_ws r1) with
      | None => None
      | Some r2 =>
        match lex_type (skip_ws r2) with
        | None => None
        | Some (ty, r3) =>
          match strip_prefix [40] (skip_ws r3) with
          | None => None
          | Some r4 =>
            let '(ps, r5) := match parse_param (skip_ws r4) with
                             | Some (p, r') => let '(ps, r'') := parse_params_tail (length r') r' in (p :: ps, r'')
                             | None => ([], r4)
                             end in
            match strip_prefix [41] (skip_ws r5) with
            | Some r6 => match skip_ws r6 with [] => Some (name, ty, ps) | _ => None end
            | None => None
            end
          end
        end
      end
    end
  end.
