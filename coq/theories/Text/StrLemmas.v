(* Text/StrLemmas.v — facts about the string operations of Text/Str.v *)
From Coq Require Import String.
From VP Require Import Base.Tactics Text.Str.
Open Scope N_scope.

Lemma rv_rev : forall l, rv l = rev l.
Proof. intros l. unfold rv. now rewrite rev_append_rev, app_nil_r. Qed.

Lemma strip_prefix_some : forall p l r, strip_prefix p l = Some r -> l = (p ++ r)%list.
Proof.
  induction p as [|a p IH]; intros l r H; cbn in H.
  - now inv H.
  - destruct l as [|b l]; [discriminate|].
    destruct (a =? b) eqn:E; [|discriminate].
    apply N.eqb_eq in E. subst b. cbn. f_equal. now apply IH.
Qed.

Lemma strip_prefix_app : forall p r, strip_prefix p (p ++ r)%list = Some r.
Proof.
  induction p as [|a p IH]; intros r; cbn; [reflexivity|].
  rewrite N.eqb_refl. apply IH.
Qed.

Lemma strip_suffix_some : forall p l r, strip_suffix p l = Some r -> l = (r ++ p)%list.
Proof.
  intros p l r H. unfold strip_suffix in H. rewrite !rv_rev in H.
  destruct (strip_prefix (rev p) (rev l)) as [x|] eqn:E; [|discriminate].
  inv H. rewrite rv_rev. apply strip_prefix_some in E.
  rewrite <- (rev_involutive l), E, rev_app_distr, rev_involutive. reflexivity.
Qed.

Lemma drop_while_app_ws : forall p l c, p c = true ->
  drop_while p (l ++ [c]) = match drop_while p l with [] => [] | x => (x ++ [c])%list end.
Proof.
  induction l as [|a l IH]; intros c Hc; cbn.
  - now rewrite Hc.
  - destruct (p a) eqn:Ea; [now apply IH|]. reflexivity.
Qed.

Lemma trim_end_snoc_ws : forall l c, is_ws c = true -> trim_end (l ++ [c]) = trim_end l.
Proof.
  intros l c Hc. unfold trim_end. rewrite !rv_rev, rev_app_distr. cbn [rev app drop_while]. now rewrite Hc.
Qed.

Lemma trim_snoc_ws : forall l c, is_ws c = true -> trim (l ++ [c]) = trim l.
Proof.
  intros l c Hc. unfold trim, trim_start. rewrite drop_while_app_ws by exact Hc.
  destruct (drop_while is_ws l) eqn:E; [reflexivity|].
  now apply trim_end_snoc_ws.
Qed.

Lemma trim_strip_eol : forall seg, trim (strip_eol seg) = trim seg.
Proof.
  intros seg. unfold strip_eol.
  destruct (strip_suffix [10] seg) as [a|] eqn:E1; [|reflexivity].
  apply strip_suffix_some in E1. subst seg.
  rewrite trim_snoc_ws by reflexivity.
  destruct (strip_suffix [13] a) as [b|] eqn:E2; [|reflexivity].
  apply strip_suffix_some in E2. subst a.
  now rewrite trim_snoc_ws by reflexivity.
Qed.

Lemma parse_i64_digit_head : forall c r, is_digit c = true ->
  parse_i64 (c :: r)
  = match parse_nat_str (c :: r) with
    | Some n => if in_i64 (Z.of_N n) then Some (Z.of_N n) else None
    | None => None
    end.
Proof.
  intros c r Hc. unfold parse_i64. destruct c as [|p]; [discriminate|].
  repeat (destruct p as [p|p|]; try reflexivity; try discriminate Hc).
Qed.

Lemma str_eqb_eq : forall a b, str_eqb a b = true -> a = b.
Proof.
  induction a as [|x a IH]; intros [|y b] H; cbn in H; try discriminate; [reflexivity|].
  apply andb_true_iff in H as [H1 H2]. apply N.eqb_eq in H1. subst. f_equal. now apply IH.
Qed.

Lemma str_eqb_refl : forall a, str_eqb a a = true.
Proof. induction a as [|x a IH]; [reflexivity|]. cbn. now rewrite N.eqb_refl, IH. Qed.
