(* Text/ExpandProps.v — property C42: declaration for-loops expand to the same program as
   writing the copies by hand.  Model: Text/Expand.v (tied to crates/varpulis-parser/src/expand.rs
   by checks/C42.py); the class of programs and the hand expansion: Text/ExpandSpec.v. *)
From Coq Require Import String.
From VP Require Import Base.Tactics Text.Str Text.Expand Text.ExpandSpec Text.ExpandProofs.
Open Scope N_scope.

(* For every well-formed declaration program — any statements, any loop variables, any ranges
   a..b with at most MAX_LOOP_ITERATIONS values (empty and reversed ranges included), loops
   nested up to 9 deep, of weight at most MAX_EXPANDED_LINES, written with any indentation unit
   of u >= 1 spaces — expand_declaration_loops returns exactly the text of the hand-written
   copies: for every loop the body once per value, in order, with {VAR} replaced by the value,
   nested loops as nested substitutions. *)
Theorem C42_expand :
  forall (u : nat) (prog : list item),
    (1 <= u)%nat -> forallb wf prog = true -> (depth_prog prog <= 9)%nat ->
    weight_prog prog <= max_expanded_lines ->
    expand (unlines (render_prog u prog)) = ROk (unlines (hand_prog prog)).
Proof.
  intros u prog Hu Hwf Hd Hw. apply expand_prog; try assumption. unfold max_expansion_passes. lia.
Qed.

(* The hand-written program goes through the expansion stage unchanged, so the loop program
   and the hand-written program hand the very same text to the rest of the parser
   (parse_inner = parse of the expanded text): they parse to the same program. *)
Theorem C42_same_text_to_parser :
  forall (u : nat) (prog : list item),
    (1 <= u)%nat -> forallb wf prog = true -> (depth_prog prog <= 9)%nat ->
    weight_prog prog <= max_expanded_lines ->
    expand (unlines (render_prog u prog)) = expand (unlines (hand_prog prog)).
Proof.
  intros u prog Hu Hwf Hd Hw. rewrite C42_expand by assumption. now rewrite expand_hand_fixpoint.
Qed.

(* non-vacuity: a program with a three-line statement, a loop containing a statement with a
   continuation line and a nested loop (negative start, shadowing inner variable), an empty
   range around a nested loop, and a trailing statement *)
Definition demo_prog : list item :=
  [Plain (s2l "stream P = E") [s2l "    .where(x > 1)"; []];
   Loop (s2l "i") 0 3 [Plain (s2l "stream S{i} = E{i}") [s2l "  .emit(a: {i})"];
                        Loop (s2l "j") (-1) 1 [Plain (s2l "stream T{i}_{j} = S{i}") [];
                                               Loop (s2l "i") 0 2 [Plain (s2l "const K{i}{j} = 1") []]];
                        Plain (s2l "const C{i} = {i}") [[]]];
   Loop (s2l "z") 5 5 [Loop (s2l "y") 0 1 [Plain (s2l "never") []]];
   Plain (s2l "stream Q = E") []].
Example C42_nonvacuous :
  forallb wf demo_prog = true /\ depth_prog demo_prog = 3%nat /\ weight_prog demo_prog = 47
  /\ length (render_prog 4 demo_prog) = 16%nat /\ length (hand_prog demo_prog) = 34%nat
  /\ nth 4 (hand_prog demo_prog) [] = s2l "  .emit(a: 0)"
  /\ nth 5 (hand_prog demo_prog) [] = s2l "stream T0_-1 = S0"
  /\ nth 6 (hand_prog demo_prog) [] = s2l "const K0-1 = 1".
Proof. repeat split; vm_compute; reflexivity. Qed.

(* outside the class (documented limits of the line-based expansion, reproduced on the code by
   checks/C42.py): a body line indented less than the first body line loses its first characters *)
Example C42_outside_class_ragged_body :
  expand (s2l "for i in 0..1:" ++ [10] ++ s2l "        stream A{i} = X" ++ [10] ++ s2l "    stream B{i} = Y" ++ [10])
  = ROk (s2l "stream A0 = X" ++ [10] ++ s2l "am B0 = Y" ++ [10]).
Proof. vm_compute. reflexivity. Qed.
