(* Text/ConnectorProps.v — property C39: injected connector declarations carry exactly the
   stored parameters.  Model: Text/Connector.v (tied to
   crates/varpulis-cluster/src/connector_config.rs and to the VPL parser by checks/C39.py). *)
From Coq Require Import String.
From VP Require Import Base.Tactics Text.Str Text.Connector Text.ConnectorProofs.
Open Scope N_scope.

(* For every connector accepted by validation — any name, type, any number of parameters in
   any order, any accepted values (numeric-looking, leading zeros, signs, inf/nan, backslashes,
   backslash-quote pairs, empty, any Unicode) — the rendered declaration parses, and it declares
   that connector's name and type with, for every parameter, a value whose runtime reading
   (value_str, the model of connector_params_to_config) is exactly the stored string. *)
Theorem C39_roundtrip :
  forall c : connector, validate c = true ->
    exists ps, parse_decl (to_vpl_declaration c) = Some (cname c, ctype c, ps)
               /\ declared_params ps = stored_params c.
Proof. exact roundtrip. Qed.

(* Every declaration line that injection prepends is such a declaration of a stored connector
   that the pipeline refers to, and every stored connector the pipeline refers to without
   declaring it gets one (this part also holds with client_id_mode = append_pipeline). *)
Theorem C39_injected_declarations :
  forall (source : str) (cs : list connector),
    (forall c, In c cs -> validate c = true) ->
    (forall d, In d (preamble_decls source cs) ->
       exists c ps, In c cs /\ In (cname c) (find_missing source)
                    /\ parse_decl d = Some (cname c, ctype c, ps)
                    /\ declared_params ps = stored_params c)
    /\ (forall n c, In n (find_missing source) -> lookup_conn n cs = Some c ->
          In (to_vpl_declaration c) (preamble_decls source cs)).
Proof.
  intros source cs Hv. split.
  - intros d Hd. apply preamble_decls_spec in Hd as (n & c & Hn & Hl & ->).
    destruct (lookup_conn_some n cs c Hl) as [Hin Hname].
    destruct (roundtrip c (Hv c Hin)) as (ps & Hp & Hps).
    exists c, ps. rewrite <- Hname in Hn. repeat split; assumption.
  - intros n c Hn Hl. apply preamble_decls_spec. now exists n, c.
Qed.

(* Injection never touches the rest of the pipeline: when no stored connector asks for the
   client-id rewriting (client_id_mode = append_pipeline), the injected source is the
   declaration lines followed by the original source text, character for character. *)
Theorem C39_rest_unchanged :
  forall (source : str) (cs : list connector),
    forallb (fun c => negb (append_mode c)) cs = true ->
    fst (inject source cs)
    = (concat (map (fun d => d ++ [10]) (preamble_decls source cs)) ++ source)%list.
Proof. exact inject_no_append. Qed.

(* non-vacuity: a validated connector with a leading-zero value, a signed number, inf, an empty
   value, a backslash-quote pair and a canonical port, referenced by a pipeline *)
Definition demo_conn : connector :=
  {| cname := s2l "mqtt_in"; ctype := s2l "mqtt";
     cparams := [(s2l "host", s2l "localhost"); (s2l "port", s2l "1883"); (s2l "client_id", s2l "007");
                 (s2l "qos", s2l "-1"); (s2l "rate", s2l "inf"); (s2l "note", []); (s2l "pw", s2l "a\""b\\")] |}.
Definition demo_source : str := s2l "stream S = E.from(mqtt_in, topic: ""t"")" ++ [10].
Example C39_nonvacuous :
  validate demo_conn = true
  /\ find_missing demo_source = [s2l "mqtt_in"]
  /\ to_vpl_declaration demo_conn
     = s2l "connector mqtt_in = mqtt(host: ""localhost"", port: 1883, client_id: ""007"", qos: ""-1"", rate: ""inf"", note: """", pw: ""a\""b\\"")"
  /\ fst (inject demo_source [demo_conn]) = (to_vpl_declaration demo_conn ++ [10] ++ demo_source)%list
  /\ forallb (fun c => negb (append_mode c)) [demo_conn] = true.
Proof. repeat split; vm_compute; reflexivity. Qed.

(* what validation has to exclude: with a quote outside a backslash pair, or a trailing
   backslash, the rendered declaration does not declare the stored value *)
Example C39_unvalidated_counterexamples :
  let c1 := {| cname := s2l "m"; ctype := s2l "console"; cparams := [(s2l "k", s2l "a""b")] |} in
  let c2 := {| cname := s2l "m"; ctype := s2l "console"; cparams := [(s2l "k", s2l "a\")] |} in
  validate c1 = false /\ parse_decl (to_vpl_declaration c1) = None
  /\ validate c2 = false /\ parse_decl (to_vpl_declaration c2) = None.
Proof. repeat split; vm_compute; reflexivity. Qed.
