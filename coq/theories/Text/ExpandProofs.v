(* Text/ExpandProofs.v — expansion of a well-formed loop program (Text/ExpandSpec.v) by the
   model of expand.rs (Text/Expand.v) is its hand expansion. *)
From Coq Require Import String DecimalN DecimalFacts.
From VP Require Import Base.Tactics Text.Str Text.StrLemmas Text.Expand Text.ExpandSpec.
Open Scope N_scope.

(* ================================================================ lines of the form  spaces k ++ c :: t *)
Lemma good_first_props : forall c, good_first c = true -> is_ws c = false /\ c <> 123 /\ c <> 102.
Proof.
  intros c H. unfold good_first in H. apply andb_true_iff in H as [H H3]. apply andb_true_iff in H as [H1 H2].
  apply negb_true_iff in H1, H2, H3. apply N.eqb_neq in H2, H3. auto.
Qed.

Lemma spaces_S : forall k, spaces (S k) = 32 :: spaces k.
Proof. reflexivity. Qed.

Lemma spaces_add : forall a b, spaces (a + b) = (spaces a ++ spaces b)%list.
Proof. intros a b. unfold spaces. apply repeat_app. Qed.

Lemma utf8_len_app : forall a b, utf8_len (a ++ b) = utf8_len a + utf8_len b.
Proof. induction a as [|c a IH]; intros b; cbn [app utf8_len]; [lia|]. rewrite IH. lia. Qed.

Lemma utf8_len_spaces : forall k, utf8_len (spaces k) = N.of_nat k.
Proof.
  induction k as [|k IH]; [reflexivity|]. rewrite spaces_S. cbn [utf8_len]. rewrite IH.
  change (utf8_len1 32) with 1. lia.
Qed.

Lemma trim_start_shape : forall k c t, is_ws c = false -> trim_start (spaces k ++ c :: t) = c :: t.
Proof.
  intros k c t Hc. unfold trim_start. induction k as [|k IH].
  - cbn. now rewrite Hc.
  - rewrite spaces_S. cbn [app drop_while]. change (is_ws 32) with true. cbv iota. exact IH.
Qed.

Lemma indent_of_shape : forall k c t, is_ws c = false -> indent_of (spaces k ++ c :: t) = N.of_nat k.
Proof.
  intros k c t Hc. unfold indent_of. rewrite trim_start_shape by assumption.
  rewrite utf8_len_app, utf8_len_spaces. lia.
Qed.

Lemma drop_while_snoc_keep : forall p x c, p c = false -> exists y, drop_while p (x ++ [c]) = (y ++ [c])%list.
Proof.
  intros p x c Hc. induction x as [|a x IH]; cbn.
  - rewrite Hc. now exists [].
  - destruct (p a); [exact IH|]. now exists (a :: x).
Qed.

Lemma trim_end_head : forall c t, is_ws c = false -> exists t', trim_end (c :: t) = c :: t'.
Proof.
  intros c t Hc. unfold trim_end. rewrite !rv_rev. cbn [rev].
  destruct (drop_while_snoc_keep is_ws (rev t) c Hc) as [y Hy]. rewrite Hy.
  rewrite rev_app_distr. cbn. eauto.
Qed.

Lemma trim_shape : forall k c t, is_ws c = false -> exists t', trim (spaces k ++ c :: t) = c :: t'.
Proof. intros k c t Hc. unfold trim. rewrite trim_start_shape by assumption. now apply trim_end_head. Qed.

Lemma is_blank_shape : forall k c t, is_ws c = false -> is_blank (spaces k ++ c :: t) = false.
Proof. intros k c t Hc. unfold is_blank. destruct (trim_shape k c t Hc) as [t' ->]. reflexivity. Qed.

Lemma is_blank_nil : is_blank [] = true.
Proof. reflexivity. Qed.

Lemma not_for_head : forall c t, c <> 102 -> is_decl_for (c :: t) = false.
Proof.
  intros c t Hc. unfold is_decl_for, starts_with. change (s2l "for ") with [102; 111; 114; 32]. cbn [strip_prefix].
  destruct (102 =? c) eqn:E; [apply N.eqb_eq in E; congruence|]. reflexivity.
Qed.

Lemma not_header_shape : forall k c t, good_first c = true -> is_decl_for (trim (spaces k ++ c :: t)) = false.
Proof.
  intros k c t H. destruct (good_first_props c H) as (Hw & _ & Hf).
  destruct (trim_shape k c t Hw) as [t' ->]. now apply not_for_head.
Qed.

Lemma drop_bytes_spaces : forall u k l, (u <= k)%nat -> drop_bytes (N.of_nat u) (spaces k ++ l) = Some (spaces (k - u) ++ l)%list.
Proof.
  induction u as [|u IH]; intros k l Hk.
  - rewrite Nat.sub_0_r. destruct (spaces k ++ l)%list; reflexivity.
  - destruct k as [|k]; [lia|]. rewrite spaces_S. cbn [app drop_bytes].
    assert (E0 : (N.of_nat (S u) =? 0) = false) by (apply N.eqb_neq; lia). rewrite E0.
    change (utf8_len1 32) with 1.
    assert (E1 : (1 <=? N.of_nat (S u)) = true) by (apply N.leb_le; lia). rewrite E1.
    replace (N.of_nat (S u) - 1) with (N.of_nat u) by lia.
    rewrite IH by lia. reflexivity.
Qed.

Lemma strip_line_shape : forall u k l, (u <= k)%nat ->
  strip_line (N.of_nat u) (spaces k ++ l) = (spaces (k - u) ++ l)%list.
Proof.
  intros u k l Hk. unfold strip_line.
  assert (E : (N.of_nat u <=? utf8_len (spaces k ++ l)) = true).
  { apply N.leb_le. rewrite utf8_len_app, utf8_len_spaces. lia. }
  rewrite E. now rewrite drop_bytes_spaces.
Qed.

(* ================================================================ replace_all *)
Lemma replace_all_cons_ne : forall p0 p rep c t, c <> p0 ->
  replace_all (p0 :: p) rep (c :: t) = c :: replace_all (p0 :: p) rep t.
Proof.
  intros p0 p rep c t Hc. unfold replace_all. cbn [length replace_all_f strip_prefix].
  destruct (p0 =? c) eqn:E; [apply N.eqb_eq in E; congruence|]. reflexivity.
Qed.

Lemma replace_all_nil : forall p rep, replace_all p rep [] = [].
Proof. intros [|p0 p] rep; reflexivity. Qed.

Lemma replace_all_spaces : forall p rep k l,
  replace_all (123 :: p) rep (spaces k ++ l) = (spaces k ++ replace_all (123 :: p) rep l)%list.
Proof.
  intros p rep k l. induction k as [|k IH]; [reflexivity|].
  rewrite spaces_S. cbn [app]. rewrite replace_all_cons_ne by discriminate. now rewrite IH.
Qed.

Lemma replace_all_f_absent : forall p0 p rep fuel l, (length l < fuel)%nat ->
  forallb (fun c => negb (c =? p0)) l = true -> replace_all_f fuel (p0 :: p) rep l = l.
Proof.
  induction fuel as [|fuel IH]; intros l Hf Hl; [lia|].
  destruct l as [|c l]; [reflexivity|]. cbn [forallb] in Hl. apply andb_true_iff in Hl as [Hc Hl].
  apply negb_true_iff in Hc. cbn [replace_all_f strip_prefix].
  rewrite N.eqb_sym in Hc. rewrite Hc. f_equal. apply IH; [cbn in Hf; lia|assumption].
Qed.

Lemma replace_all_absent : forall p0 p rep l,
  forallb (fun c => negb (c =? p0)) l = true -> replace_all (p0 :: p) rep l = l.
Proof. intros. unfold replace_all. apply replace_all_f_absent; [lia|assumption]. Qed.

Lemma strip_prefix_forallb : forall (P : N -> bool) p l r, strip_prefix p l = Some r -> forallb P l = true -> forallb P r = true.
Proof.
  intros P p l r H Hl. apply strip_prefix_some in H. subst l. rewrite forallb_app in Hl.
  now apply andb_true_iff in Hl as [_ ?].
Qed.

Lemma replace_all_f_forallb : forall (P : N -> bool) p rep fuel l,
  forallb P l = true -> forallb P rep = true -> forallb P (replace_all_f fuel p rep l) = true.
Proof.
  induction fuel as [|fuel IH]; intros l Hl Hr; [assumption|].
  cbn [replace_all_f]. destruct p as [|p0 p]; [assumption|].
  destruct (strip_prefix (p0 :: p) l) as [r|] eqn:E.
  - rewrite forallb_app, Hr. cbn. apply IH; [|assumption]. eapply strip_prefix_forallb; eassumption.
  - destruct l as [|c l]; [reflexivity|]. cbn [forallb] in *. apply andb_true_iff in Hl as [Hc Hl].
    rewrite Hc. cbn. now apply IH.
Qed.

Lemma replace_all_forallb : forall (P : N -> bool) p rep l,
  forallb P l = true -> forallb P rep = true -> forallb P (replace_all p rep l) = true.
Proof. intros. unfold replace_all. now apply replace_all_f_forallb. Qed.

(* ================================================================ decimal text *)
Lemma str_of_uint_digits : forall u, forallb is_digit (str_of_uint u) = true.
Proof. induction u; cbn; try reflexivity; assumption. Qed.

Definition num_char (c : N) : bool := is_digit c || (c =? 45).

Lemma z_to_str_chars : forall z, forallb num_char (z_to_str z) = true.
Proof.
  assert (H : forall n, forallb num_char (n_to_str n) = true).
  { intros n. unfold n_to_str. pose proof (str_of_uint_digits (N.to_uint n)) as Hd.
    rewrite forallb_forall in *. intros c Hc. unfold num_char. now rewrite (Hd c Hc). }
  intros [|p|p]; cbn [z_to_str]; [reflexivity|apply H|]. cbn [forallb]. now rewrite H.
Qed.

Lemma forallb_impl : forall (P Q : N -> bool) l, (forall c, P c = true -> Q c = true) -> forallb P l = true -> forallb Q l = true.
Proof. intros P Q l H Hl. rewrite forallb_forall in *. auto. Qed.

Lemma uint_of_str_of_uint : forall u, uint_of_str (str_of_uint u) = Some u.
Proof. induction u; cbn [str_of_uint uint_of_str]; try reflexivity; cbn [digit_of]; now rewrite IHu. Qed.

Lemma str_of_uint_nonnil : forall u, u <> Decimal.Nil -> str_of_uint u <> [].
Proof. intros [] H; try congruence; discriminate. Qed.

Lemma parse_nat_str_n_to_str : forall n, parse_nat_str (n_to_str n) = Some n.
Proof.
  intros n. unfold parse_nat_str, n_to_str.
  destruct (str_of_uint (N.to_uint n)) eqn:E.
  - exfalso. revert E. apply str_of_uint_nonnil. destruct n; [discriminate|]. cbn. apply DecimalPos.Unsigned.to_uint_nonnil.
  - rewrite <- E, uint_of_str_of_uint. now rewrite DecimalN.Unsigned.of_to.
Qed.

Lemma n_to_str_head_digit : forall p, exists c r, n_to_str (Npos p) = c :: r /\ is_digit c = true.
Proof.
  intros p. pose proof (str_of_uint_digits (N.to_uint (Npos p))) as Hd. unfold n_to_str.
  destruct (str_of_uint (N.to_uint (Npos p))) as [|c r] eqn:E.
  - exfalso. revert E. apply str_of_uint_nonnil. cbn. apply DecimalPos.Unsigned.to_uint_nonnil.
  - cbn [forallb] in Hd. apply andb_true_iff in Hd as [Hc _]. eauto.
Qed.

Lemma parse_i64_z_to_str : forall z, in_i64 z = true -> parse_i64 (z_to_str z) = Some z.
Proof.
  intros [|p|p] Hz; cbn [z_to_str].
  - reflexivity.
  - destruct (n_to_str_head_digit p) as (c & r & E & Hc).
    pose proof (parse_nat_str_n_to_str (Npos p)) as Hp. rewrite E in *.
    rewrite (parse_i64_digit_head c r Hc), Hp. cbn [Z.of_N]. now rewrite Hz.
  - unfold parse_i64. rewrite (parse_nat_str_n_to_str (Npos p)). cbn [Z.of_N Z.opp]. now rewrite Hz.
Qed.

(* ================================================================ searching *)
Lemma split_once_first : forall p0 p x y,
  forallb (fun c => negb (c =? p0)) x = true ->
  split_once (p0 :: p) (x ++ (p0 :: p) ++ y) = Some (x, y).
Proof.
  intros p0 p x y. induction x as [|c x IH]; intros Hx.
  - cbn [app split_once]. change (p0 :: (p ++ y)%list) with ((p0 :: p) ++ y)%list. now rewrite strip_prefix_app.
  - cbn [forallb] in Hx. apply andb_true_iff in Hx as [Hc Hx]. apply negb_true_iff in Hc.
    cbn [app split_once strip_prefix]. rewrite N.eqb_sym in Hc. rewrite Hc.
    change (split_once (p0 :: p) (x ++ p0 :: (p ++ y)%list)) with (split_once (p0 :: p) (x ++ (p0 :: p) ++ y)).
    now rewrite IH.
Qed.

Lemma split_once_some : forall p l x y, split_once p l = Some (x, y) -> l = (x ++ p ++ y)%list.
Proof.
  intros p l. induction l as [|c l IH]; intros x y H.
  - cbn in H. destruct (strip_prefix p []) as [r|] eqn:E; [|discriminate]. inv H.
    apply strip_prefix_some in E. cbn. exact E.
  - cbn [split_once] in H. destruct (strip_prefix p (c :: l)) as [r|] eqn:E.
    + inv H. apply strip_prefix_some in E. exact E.
    + destruct (split_once p l) as [[a b]|] eqn:E2; [|discriminate]. inv H.
      cbn [app]. f_equal. now apply IH.
Qed.

Lemma split_once_absent : forall p q l, In q p -> forallb (fun c => negb (c =? q)) l = true -> split_once p l = None.
Proof.
  intros p q l Hq Hl. destruct (split_once p l) as [[x y]|] eqn:E; [|reflexivity].
  apply split_once_some in E. subst l. rewrite !forallb_app in Hl.
  apply andb_true_iff in Hl as [_ Hl]. apply andb_true_iff in Hl as [Hl _].
  rewrite forallb_forall in Hl. specialize (Hl q Hq). rewrite N.eqb_refl in Hl. discriminate.
Qed.

Lemma contains_app : forall p u v, contains p (u ++ p ++ v) = true.
Proof.
  intros p u v. unfold contains. induction u as [|c u IH].
  - cbn [app]. destruct (p ++ v)%list eqn:E; cbn [split_once]; rewrite <- ?E, strip_prefix_app; reflexivity.
  - cbn [app split_once]. destruct (strip_prefix p (c :: (u ++ p ++ v)%list)); [reflexivity|].
    destruct (split_once p (u ++ p ++ v)) as [[a b]|]; [reflexivity|discriminate].
Qed.

Lemma strip_suffix_app : forall p l, strip_suffix p (l ++ p) = Some l.
Proof.
  intros p l. unfold strip_suffix. rewrite !rv_rev, rev_app_distr, strip_prefix_app, rv_rev.
  now rewrite rev_involutive.
Qed.

Lemma trim_start_head : forall c t, is_ws c = false -> trim_start (c :: t) = c :: t.
Proof. intros c t H. unfold trim_start. cbn. now rewrite H. Qed.

Lemma trim_end_last : forall t c, is_ws c = false -> trim_end (t ++ [c]) = (t ++ [c])%list.
Proof.
  intros t c H. unfold trim_end. rewrite !rv_rev, rev_app_distr. cbn [rev app drop_while]. rewrite H.
  cbn [rev]. now rewrite rev_involutive.
Qed.

Lemma trim_no_ws : forall l, forallb (fun c => negb (is_ws c)) l = true -> trim l = l.
Proof.
  intros l H. destruct l as [|c t]; [reflexivity|].
  destruct (exists_last (l := c :: t)) as (t' & d & E); [discriminate|].
  assert (Hd : is_ws d = false).
  { rewrite E in H. rewrite forallb_app in H. apply andb_true_iff in H as [_ H]. cbn in H.
    rewrite andb_true_r in H. now apply negb_true_iff. }
  cbn [forallb] in H. apply andb_true_iff in H as [Hc _]. apply negb_true_iff in Hc.
  unfold trim. rewrite trim_start_head by assumption. rewrite E. now apply trim_end_last.
Qed.

Lemma num_char_not_ws : forall c, num_char c = true -> negb (is_ws c) = true.
Proof.
  intros c H. unfold num_char, is_digit in H. apply negb_true_iff. unfold is_ws.
  destruct (c =? 45) eqn:E45; [apply N.eqb_eq in E45; subst; reflexivity|].
  rewrite orb_false_r in H. apply andb_true_iff in H as [H1 H2]. apply N.leb_le in H1, H2.
  repeat match goal with |- context [?a <=? ?b] => let E := fresh in destruct (a <=? b) eqn:E; [apply N.leb_le in E|apply N.leb_gt in E] end;
  repeat match goal with |- context [?a =? ?b] => let E := fresh in destruct (a =? b) eqn:E; [apply N.eqb_eq in E|apply N.eqb_neq in E] end;
  cbn; try reflexivity; lia.
Qed.

(* ================================================================ the header line *)
Lemma var_ok_props : forall x, var_ok x = true ->
  forallb (fun c => negb (is_ws c)) x = true /\ forallb (fun c => negb (c =? 123)) x = true
  /\ forallb (fun c => negb (c =? 32)) x = true.
Proof.
  intros x H. unfold var_ok in H. repeat split; eapply forallb_impl; try eassumption; cbv beta; intros c Hc;
    apply andb_true_iff in Hc as [H1 H2]; try assumption.
  apply negb_true_iff in H1. apply negb_true_iff. destruct (c =? 32) eqn:E; [|reflexivity].
  apply N.eqb_eq in E. subst. discriminate.
Qed.

Lemma num_char_ne : forall q, num_char q = false -> forall z, forallb (fun c => negb (c =? q)) (z_to_str z) = true.
Proof.
  intros q Hq z. eapply forallb_impl; [|apply z_to_str_chars]. cbv beta. intros c Hc.
  apply negb_true_iff. destruct (c =? q) eqn:E; [|reflexivity]. apply N.eqb_eq in E. subst. congruence.
Qed.

Definition range_text (a b : Z) : str := (z_to_str a ++ [46; 46] ++ z_to_str b)%list.

Lemma header_eq : forall x a b,
  header x a b = (s2l "for " ++ (x ++ s2l " in " ++ range_text a b) ++ s2l ":")%list.
Proof. intros. unfold header, range_text. change (s2l "..") with [46; 46]. now rewrite <- !app_assoc. Qed.

Lemma range_text_no_ws : forall a b, forallb (fun c => negb (is_ws c)) (range_text a b) = true.
Proof.
  intros a b. unfold range_text. rewrite !forallb_app. cbn [forallb].
  rewrite !(forallb_impl _ _ _ num_char_not_ws (z_to_str_chars _)). reflexivity.
Qed.

Lemma parse_range_text : forall a b, in_i64 a = true -> in_i64 b = true ->
  split_once (s2l "..=") (range_text a b) = None
  /\ split_once (s2l "..") (range_text a b) = Some (z_to_str a, z_to_str b).
Proof.
  intros a b Ha Hb. split.
  - apply (split_once_absent _ 61); [cbn; auto|]. unfold range_text. rewrite !forallb_app. cbn [forallb].
    rewrite !(num_char_ne 61 eq_refl). reflexivity.
  - change (s2l "..") with [46; 46]. unfold range_text. apply split_once_first. apply (num_char_ne 46 eq_refl).
Qed.

Lemma parse_for_range_header : forall x a b, var_ok x = true -> in_i64 a = true -> in_i64 b = true ->
  parse_for_range (header x a b) = FSome x a b.
Proof.
  intros x a b Hx Ha Hb. destruct (var_ok_props x Hx) as (Hws & _ & Hsp).
  unfold parse_for_range. rewrite header_eq, strip_prefix_app, strip_suffix_app.
  change (s2l " in ") with (32 :: [105; 110; 32]).
  rewrite split_once_first by assumption.
  rewrite (trim_no_ws x Hws), (trim_no_ws _ (range_text_no_ws a b)).
  destruct (parse_range_text a b Ha Hb) as [-> ->].
  rewrite !trim_no_ws by (eapply forallb_impl; [apply num_char_not_ws | apply z_to_str_chars]).
  now rewrite !parse_i64_z_to_str.
Qed.

Lemma header_first : forall x a b, exists t, header x a b = 102 :: t.
Proof. intros. unfold header. eexists. reflexivity. Qed.

Lemma header_last : forall x a b, exists t, header x a b = (t ++ [58])%list.
Proof. intros. rewrite header_eq. eexists. rewrite app_assoc. reflexivity. Qed.

Lemma trim_header : forall k x a b, trim (spaces k ++ header x a b) = header x a b.
Proof.
  intros k x a b. destruct (header_first x a b) as [t Ht]. unfold trim.
  rewrite Ht, trim_start_shape by reflexivity. rewrite <- Ht.
  destruct (header_last x a b) as [t' ->]. now apply trim_end_last.
Qed.

Lemma is_decl_for_header : forall x a b, is_decl_for (header x a b) = true.
Proof.
  intros x a b. unfold is_decl_for.
  assert (H1 : starts_with (s2l "for ") (header x a b) = true).
  { unfold starts_with. now rewrite header_eq, strip_prefix_app. }
  assert (H2 : ends_with (s2l ":") (header x a b) = true).
  { unfold ends_with. rewrite header_eq, app_assoc. now rewrite strip_suffix_app. }
  assert (H3 : contains (s2l "..") (header x a b) = true).
  { replace (header x a b) with ((s2l "for " ++ x ++ s2l " in " ++ z_to_str a) ++ s2l ".." ++ (z_to_str b ++ s2l ":"))%list
      by (unfold header; now rewrite <- !app_assoc).
    apply contains_app. }
  now rewrite H1, H2, H3.
Qed.

Lemma header_no_brace : forall x a b, var_ok x = true -> forallb (fun c => negb (c =? 123)) (header x a b) = true.
Proof.
  intros x a b Hx. destruct (var_ok_props x Hx) as (_ & Hb & _).
  unfold header. rewrite !forallb_app, Hb, !(num_char_ne 123 eq_refl). reflexivity.
Qed.

Lemma header_no_eol : forall x a b, var_ok x = true -> no_eol (header x a b) = true.
Proof.
  intros x a b Hx. destruct (var_ok_props x Hx) as (Hws & _ & _).
  unfold no_eol, header. rewrite !forallb_app.
  assert (E : forall l, forallb (fun c => negb (is_ws c)) l = true -> forallb (fun c => negb (ExpandSpec.is_eol c)) l = true).
  { intros l. apply forallb_impl. intros c Hc. apply negb_true_iff in Hc. apply negb_true_iff. unfold ExpandSpec.is_eol.
    destruct (c =? 10) eqn:E1; [apply N.eqb_eq in E1; subst; discriminate|].
    destruct (c =? 13) eqn:E2; [apply N.eqb_eq in E2; subst; discriminate|]. reflexivity. }
  rewrite (E x Hws).
  rewrite !(E _ (forallb_impl _ _ _ num_char_not_ws (z_to_str_chars _))). reflexivity.
Qed.

(* ================================================================ items *)
Lemma item_ind2 : forall P : item -> Prop,
  (forall f cs, P (Plain f cs)) ->
  (forall x a b body, Forall P body -> P (Loop x a b body)) ->
  forall it, P it.
Proof.
  intros P HP HL. fix IH 1. intros [f cs|x a b body]; [apply HP|].
  apply HL. induction body as [|it body IHb]; constructor; [apply IH|exact IHb].
Qed.

Definition text_line (l : str) : Prop :=
  exists r c t, l = (spaces r ++ c :: t)%list /\ good_first c = true /\ no_eol l = true.

Lemma pad_0 : forall l, pad 0 l = l.
Proof. intros [|c l]; reflexivity. Qed.

Lemma pad_shape : forall k r c t, pad k (spaces r ++ c :: t) = (spaces (k + r) ++ c :: t)%list.
Proof.
  intros k r c t. unfold pad. destruct (spaces r ++ c :: t)%list eqn:E.
  - destruct r; discriminate.
  - rewrite <- E, spaces_add, <- app_assoc. reflexivity.
Qed.

Lemma first_ok_inv : forall f, first_ok f = true ->
  exists c t, f = c :: t /\ good_first c = true /\ no_eol f = true.
Proof. intros [|c t] H; [discriminate|]. cbn [first_ok] in H. apply andb_true_iff in H as [H1 H2]. eauto. Qed.

Lemma leading_spaces : forall l, exists r, l = (spaces r ++ drop_while (N.eqb 32) l)%list
  /\ (forall l', l = 32 :: l' -> (1 <= r)%nat).
Proof.
  induction l as [|a l (r & Hr & _)].
  - exists 0%nat. split; [reflexivity|discriminate].
  - cbn [drop_while]. destruct (32 =? a) eqn:E.
    + apply N.eqb_eq in E. subst a. exists (S r). split; [rewrite spaces_S; cbn [app]; now f_equal|intros; lia].
    + exists 0%nat. split; [reflexivity|]. intros l' H. inv H. discriminate.
Qed.

Lemma cont_ok_inv : forall l, cont_ok l = true ->
  l = [] \/ exists r c t, (1 <= r)%nat /\ l = (spaces r ++ c :: t)%list /\ good_first c = true /\ no_eol l = true.
Proof.
  intros [|a l] H; [now left|right]. cbn [cont_ok] in H.
  apply andb_true_iff in H as [H Hn]. apply andb_true_iff in H as [Ha Hf]. apply N.eqb_eq in Ha. subst a.
  destruct (leading_spaces (32 :: l)) as (r & Hr & Hr1). specialize (Hr1 l eq_refl).
  destruct (first_ok_inv _ Hf) as (c & t & Hd & Hc & _).
  exists r, c, t. rewrite Hd in Hr. auto.
Qed.

(* ---- body membership *)
Lemma in_body_shape : forall k c t, is_ws c = false -> (1 <= k)%nat -> in_body (spaces k ++ c :: t) = true.
Proof.
  intros k c t Hc Hk. unfold in_body. rewrite is_blank_shape, indent_of_shape by assumption.
  assert (E : (N.of_nat k =? 0) = false) by (apply N.eqb_neq; lia). now rewrite E.
Qed.

Lemma in_body_top : forall c t, is_ws c = false -> in_body (c :: t) = false.
Proof.
  intros c t Hc. unfold in_body. change (c :: t) with (spaces 0 ++ c :: t)%list.
  now rewrite is_blank_shape, indent_of_shape by assumption.
Qed.

Lemma header_shape : forall x a b, exists t, header x a b = 102 :: t /\ is_ws 102 = false.
Proof. intros. destruct (header_first x a b) as [t ->]. eauto. Qed.

Lemma render_in_body : forall u, (1 <= u)%nat -> forall it d, wf it = true -> (1 <= d)%nat ->
  forallb in_body (render u d it) = true.
Proof.
  intros u Hu. induction it as [f cs|x a b body IH] using item_ind2; intros d Hwf Hd.
  - cbn [wf] in Hwf. apply andb_true_iff in Hwf as [Hf Hcs]. cbn [render].
    assert (Hk : (1 <= d * u)%nat) by nia.
    apply forallb_forall. intros l Hl. apply in_map_iff in Hl as (l0 & <- & Hl0).
    destruct Hl0 as [<-|Hl0].
    + destruct (first_ok_inv _ Hf) as (c & t & -> & Hc & _). destruct (good_first_props c Hc) as (Hw & _).
      change (c :: t) with (spaces 0 ++ c :: t)%list. rewrite pad_shape. apply in_body_shape; [assumption|lia].
    + rewrite forallb_forall in Hcs. destruct (cont_ok_inv _ (Hcs _ Hl0)) as [->|(r & c & t & Hr & -> & Hc & _)]; [reflexivity|].
      destruct (good_first_props c Hc) as (Hw & _). rewrite pad_shape. apply in_body_shape; [assumption|lia].
  - cbn [wf] in Hwf. apply andb_true_iff in Hwf as [_ Hb]. cbn [render forallb].
    destruct (header_shape x a b) as (t & Ht & Hw). rewrite Ht.
    change (102 :: t) with (spaces 0 ++ 102 :: t)%list. rewrite pad_shape, in_body_shape by (assumption || nia).
    cbn [andb]. apply forallb_forall. intros l Hl. apply in_flat_map in Hl as (it & Hit & Hl).
    rewrite Forall_forall in IH. rewrite forallb_forall in Hb.
    specialize (IH it Hit (S d) (Hb it Hit) ltac:(lia)). rewrite forallb_forall in IH. now apply IH.
Qed.

Lemma render_top_first : forall u it, wf it = true ->
  exists l ls, render u 0 it = l :: ls /\ in_body l = false.
Proof.
  intros u [f cs|x a b body] Hwf; cbn [render wf Nat.mul map] in *.
  - apply andb_true_iff in Hwf as [Hf _]. destruct (first_ok_inv _ Hf) as (c & t & -> & Hc & _).
    destruct (good_first_props c Hc) as (Hw & _). rewrite pad_0. eexists. eexists. split; [reflexivity|]. now apply in_body_top.
  - destruct (header_shape x a b) as (t & Ht & Hw). rewrite pad_0, Ht. eexists. eexists. split; [reflexivity|]. now apply in_body_top.
Qed.

Lemma take_drop_lines : forall p A B, forallb p A = true ->
  (match B with [] => true | l :: _ => negb (p l) end) = true ->
  take_lines p (A ++ B) = A /\ drop_lines p (A ++ B) = B.
Proof.
  induction A as [|a A IH]; intros B HA HB.
  - cbn [app]. destruct B as [|l B]; [auto|]. cbn. apply negb_true_iff in HB. rewrite HB. auto.
  - cbn [forallb] in HA. apply andb_true_iff in HA as [Ha HA]. cbn [app take_lines drop_lines]. rewrite Ha.
    destruct (IH B HA HB) as [-> ->]. auto.
Qed.

(* ---- substitution and the copy of one body line *)
Fixpoint subst_item (x : str) (v : Z) (it : item) : item :=
  match it with
  | Plain f cs => Plain (repl x v f) (map (repl x v) cs)
  | Loop y a b body => Loop y a b (map (subst_item x v) body)
  end.

Lemma repl_shape : forall x v r c t, c <> 123 ->
  repl x v (spaces r ++ c :: t) = (spaces r ++ c :: repl x v t)%list.
Proof.
  intros x v r c t Hc. unfold repl. cbn [app]. rewrite replace_all_spaces.
  now rewrite replace_all_cons_ne by assumption.
Qed.

Lemma repl_nil : forall x v, repl x v [] = [].
Proof. reflexivity. Qed.

Lemma num_char_not_eol : forall c, num_char c = true -> negb (ExpandSpec.is_eol c) = true.
Proof.
  intros c H. apply num_char_not_ws in H. apply negb_true_iff in H. apply negb_true_iff. unfold ExpandSpec.is_eol.
  destruct (c =? 10) eqn:E1; [apply N.eqb_eq in E1; subst; discriminate|].
  destruct (c =? 13) eqn:E2; [apply N.eqb_eq in E2; subst; discriminate|]. reflexivity.
Qed.

Lemma repl_no_eol : forall x v l, no_eol l = true -> no_eol (repl x v l) = true.
Proof.
  intros x v l H. unfold no_eol, repl. apply replace_all_forallb; [assumption|].
  eapply forallb_impl; [apply num_char_not_eol|apply z_to_str_chars].
Qed.

Lemma copy_line_nil : forall strip p v, copy_line strip p v [] = [].
Proof. reflexivity. Qed.

Lemma copy_line_shape : forall u x v k c t, is_ws c = false -> (u <= k)%nat ->
  copy_line (N.of_nat u) ([123] ++ x ++ [125]) v (spaces k ++ c :: t)
  = replace_all ([123] ++ x ++ [125]) (z_to_str v) (spaces (k - u) ++ c :: t).
Proof.
  intros u x v k c t Hc Hk. unfold copy_line. rewrite is_blank_shape by assumption.
  now rewrite strip_line_shape by assumption.
Qed.

Lemma le_Smul : forall u d r : nat, (u <= S d * u + r)%nat.
Proof. intros. lia. Qed.
Lemma sub_Smul : forall u d r : nat, (S d * u + r - u = d * u + r)%nat.
Proof. intros. lia. Qed.

Lemma copy_text_line : forall u x v d r c t, good_first c = true ->
  copy_line (N.of_nat u) ([123] ++ x ++ [125]) v (pad (S d * u) (spaces r ++ c :: t))
  = pad (d * u) (repl x v (spaces r ++ c :: t)).
Proof.
  intros u x v d r c t Hc. destruct (good_first_props c Hc) as (Hw & Hb & _).
  rewrite pad_shape, copy_line_shape by (assumption || apply le_Smul).
  rewrite repl_shape, pad_shape by assumption. fold (repl x v (spaces (S d * u + r - u) ++ c :: t)).
  rewrite repl_shape by assumption. now rewrite sub_Smul.
Qed.

Lemma copy_header_line : forall u x v d y a b, var_ok y = true ->
  copy_line (N.of_nat u) ([123] ++ x ++ [125]) v (pad (S d * u) (header y a b))
  = pad (d * u) (header y a b).
Proof.
  intros u x v d y a b Hy. destruct (header_shape y a b) as (t & Ht & Hw).
  pose proof (header_no_brace y a b Hy) as Hnb. rewrite Ht in *.
  change (102 :: t) with (spaces 0 ++ 102 :: t)%list. rewrite !pad_shape, copy_line_shape by (assumption || apply le_Smul).
  cbn [app]. rewrite replace_all_spaces, replace_all_absent by assumption.
  now rewrite sub_Smul.
Qed.

Lemma flat_map_map : forall {A B C} (f : B -> list C) (g : A -> B) l,
  flat_map f (map g l) = flat_map (fun a => f (g a)) l.
Proof. induction l as [|a l IH]; [reflexivity|]. cbn. now rewrite IH. Qed.

Lemma copy_item : forall u x v it d, wf it = true ->
  map (copy_line (N.of_nat u) ([123] ++ x ++ [125]) v) (render u (S d) it)
  = render u d (subst_item x v it).
Proof.
  intros u x v. induction it as [f cs|y a b body IH] using item_ind2; intros d Hwf.
  - cbn [wf] in Hwf. apply andb_true_iff in Hwf as [Hf Hcs].
    change (render u (S d) (Plain f cs)) with (map (pad (S d * u)) (f :: cs)).
    change (render u d (subst_item x v (Plain f cs))) with (map (pad (d * u)) (map (repl x v) (f :: cs))).
    rewrite !map_map. apply map_ext_in. intros l [<-|Hl].
    + destruct (first_ok_inv _ Hf) as (c & t & -> & Hc & _).
      change (c :: t) with (spaces 0 ++ c :: t)%list. now apply copy_text_line.
    + rewrite forallb_forall in Hcs. destruct (cont_ok_inv _ (Hcs _ Hl)) as [->|(r & c & t & _ & -> & Hc & _)].
      * reflexivity.
      * now apply copy_text_line.
  - cbn [wf] in Hwf. apply andb_true_iff in Hwf as [Hwf Hb]. apply andb_true_iff in Hwf as [Hy _].
    cbn [render subst_item map]. rewrite copy_header_line by assumption. f_equal.
    rewrite flat_map_map. rewrite Forall_forall in IH. rewrite forallb_forall in Hb.
    clear -IH Hb. induction body as [|it body IHb]; [reflexivity|].
    cbn [flat_map]. rewrite map_app. f_equal.
    + apply IH; [now left|apply Hb; now left].
    + apply IHb; intros; [apply IH|apply Hb]; try assumption; now right.
Qed.

Lemma wf_subst : forall x v it, wf it = true -> wf (subst_item x v it) = true.
Proof.
  intros x v. induction it as [f cs|y a b body IH] using item_ind2; intros Hwf.
  - cbn [wf subst_item] in *. apply andb_true_iff in Hwf as [Hf Hcs]. apply andb_true_iff. split.
    + destruct (first_ok_inv _ Hf) as (c & t & -> & Hc & Hn). destruct (good_first_props c Hc) as (_ & Hb & _).
      pose proof (repl_no_eol x v _ Hn) as Hn'.
      change (c :: t) with (spaces 0 ++ c :: t)%list in *. rewrite repl_shape in * by assumption.
      cbn [app spaces repeat first_ok] in *. now rewrite Hc, Hn'.
    + rewrite forallb_forall in *. intros l Hl. apply in_map_iff in Hl as (l0 & <- & Hl0).
      destruct (cont_ok_inv _ (Hcs _ Hl0)) as [->|(r & c & t & Hr & -> & Hc & Hn)]; [reflexivity|].
      destruct (good_first_props c Hc) as (Hw & Hb & _). pose proof (repl_no_eol x v _ Hn) as Hn'.
      rewrite repl_shape in * by assumption. destruct r as [|r]; [lia|].
      rewrite spaces_S in *. cbn [app cont_ok]. rewrite N.eqb_refl. cbn [andb].
      apply andb_true_iff. split; [|exact Hn'].
      assert (Hd : drop_while (N.eqb 32) (32 :: (spaces r ++ c :: repl x v t)%list) = c :: repl x v t).
      { cbn [drop_while]. rewrite N.eqb_refl. clear -Hw. induction r as [|r IHr].
        - cbn. destruct (32 =? c) eqn:E; [apply N.eqb_eq in E; subst; discriminate|reflexivity].
        - rewrite spaces_S. cbn [app drop_while]. now rewrite N.eqb_refl. }
      rewrite Hd. cbn [first_ok]. rewrite Hc. cbn [andb].
      unfold no_eol in *. cbn [app forallb] in Hn'. apply andb_true_iff in Hn' as [_ Hn'].
      rewrite forallb_app in Hn'. now apply andb_true_iff in Hn' as [_ Hn'].
  - cbn [wf subst_item] in *. apply andb_true_iff in Hwf as [Hwf Hb]. rewrite Hwf. cbn [andb].
    rewrite forallb_forall in *. intros it Hit. apply in_map_iff in Hit as (it0 & <- & Hit0).
    rewrite Forall_forall in IH. apply IH; auto.
Qed.

(* ================================================================ one pass over a rendered program *)
Definition step_item (it : item) : list item :=
  match it with
  | Plain _ _ => [it]
  | Loop x a b body => flat_map (fun v => map (subst_item x v) body) (zrange a (Z.to_nat (b - a)))
  end.
Definition step (prog : list item) : list item := flat_map step_item prog.

Definition keep_line (l : str) : bool := negb ((indent_of l =? 0) && is_decl_for (trim l)).

Lemma drop_lines_length : forall p l, (length (drop_lines p l) <= length l)%nat.
Proof. induction l as [|a l IH]; cbn; [lia|]. destruct (p a); cbn; lia. Qed.

Lemma one_pass_fuel : forall f1 L f2 gen, (length L < f1)%nat -> (length L < f2)%nat -> one_pass f1 gen L = one_pass f2 gen L.
Proof.
  induction f1 as [|f1 IH]; intros L f2 gen H1 H2; [lia|]. destruct f2 as [|f2]; [lia|].
  destruct L as [|line rest]; [reflexivity|]. cbn [length] in *. cbn [one_pass].
  rewrite (IH rest f2) by lia.
  pose proof (drop_lines_length in_body rest) as Hd.
  destruct ((indent_of line =? 0) && is_decl_for (trim line)); [|reflexivity].
  destruct (parse_for_range (trim line)); [reflexivity|].
  destruct (max_loop_iterations <? stop - start)%Z; [reflexivity|].
  destruct (max_expanded_lines <? _); [reflexivity|].
  rewrite (IH (drop_lines in_body rest) f2) by lia. reflexivity.
Qed.

Lemma one_pass_keep : forall ls R fuel gen, forallb keep_line ls = true ->
  one_pass (length ls + fuel) gen (ls ++ R)
  = match one_pass fuel gen R with ROk r => ROk (ls ++ r)%list | e => e end.
Proof.
  induction ls as [|l ls IH]; intros R fuel gen H.
  - cbn [length app Nat.add]. destruct (one_pass fuel gen R); reflexivity.
  - cbn [forallb] in H. apply andb_true_iff in H as [Hl Hls]. unfold keep_line in Hl. apply negb_true_iff in Hl.
    cbn [length app Nat.add one_pass]. rewrite Hl, (IH R fuel gen Hls).
    destruct (one_pass fuel gen R); reflexivity.
Qed.

Lemma keep_shape : forall k c t, good_first c = true -> keep_line (spaces k ++ c :: t) = true.
Proof. intros k c t H. unfold keep_line. rewrite not_header_shape by assumption. now rewrite andb_false_r. Qed.

Lemma plain_keep : forall u f cs, wf (Plain f cs) = true -> forallb keep_line (render u 0 (Plain f cs)) = true.
Proof.
  intros u f cs H. cbn [wf] in H. apply andb_true_iff in H as [Hf Hcs]. cbn [render Nat.mul].
  apply forallb_forall. intros l Hl. apply in_map_iff in Hl as (l0 & <- & Hl0). rewrite pad_0.
  destruct Hl0 as [<-|Hl0].
  - destruct (first_ok_inv _ Hf) as (c & t & -> & Hc & _). change (c :: t) with (spaces 0 ++ c :: t)%list. now apply keep_shape.
  - rewrite forallb_forall in Hcs. destruct (cont_ok_inv _ (Hcs _ Hl0)) as [->|(r & c & t & _ & -> & Hc & _)]; [reflexivity|].
    now apply keep_shape.
Qed.

Lemma body_strip_first : forall u it rest, wf it = true ->
  body_strip (render u 1 it ++ rest) = N.of_nat u.
Proof.
  intros u [f cs|x a b body] rest H; cbn [wf render map app] in *.
  - apply andb_true_iff in H as [Hf _]. destruct (first_ok_inv _ Hf) as (c & t & -> & Hc & _).
    destruct (good_first_props c Hc) as (Hw & _). change (c :: t) with (spaces 0 ++ c :: t)%list.
    rewrite pad_shape. cbn [body_strip]. rewrite is_blank_shape, indent_of_shape by assumption. f_equal. lia.
  - destruct (header_shape x a b) as (t & -> & Hw). change (102 :: t) with (spaces 0 ++ 102 :: t)%list.
    rewrite pad_shape. cbn [body_strip]. rewrite is_blank_shape, indent_of_shape by assumption. f_equal. lia.
Qed.

Lemma copies_body : forall u x a b body, forallb wf body = true ->
  copies x a b (flat_map (render u 1) body)
  = flat_map (fun v => flat_map (render u 0) (map (subst_item x v) body)) (zrange a (Z.to_nat (b - a))).
Proof.
  intros u x a b body Hb. unfold copies. apply flat_map_ext. intros v.
  destruct body as [|it body]; [reflexivity|].
  assert (Hs : body_strip (flat_map (render u 1) (it :: body)) = N.of_nat u).
  { cbn [flat_map]. cbn [forallb] in Hb. apply andb_true_iff in Hb as [Hit _]. now apply body_strip_first. }
  rewrite Hs, flat_map_map. rewrite forallb_forall in Hb. clear Hs.
  set (bd := it :: body) in *. clearbody bd. induction bd as [|it0 bd IHb]; [reflexivity|].
  cbn [flat_map]. rewrite map_app. f_equal.
  - apply copy_item. apply Hb. now left.
  - apply IHb. intros. apply Hb. now right.
Qed.

Lemma flat_map_flat_map : forall {A B C} (f : B -> list C) (g : A -> list B) l,
  flat_map f (flat_map g l) = flat_map (fun a => flat_map f (g a)) l.
Proof. induction l as [|a l IH]; [reflexivity|]. cbn [flat_map]. now rewrite flat_map_app, IH. Qed.

Lemma range_ok_props : forall a b, range_ok a b = true ->
  in_i64 a = true /\ in_i64 b = true /\ (max_loop_iterations <? b - a)%Z = false.
Proof.
  intros a b H. unfold range_ok in H. apply andb_true_iff in H as [H H3].
  apply andb_true_iff in H as [H1 H2]. repeat split; try assumption. apply Z.ltb_ge. now apply Z.leb_le.
Qed.

Lemma render_prog_first_not_body : forall u prog, forallb wf prog = true ->
  (match render_prog u prog with [] => true | l :: _ => negb (in_body l) end) = true.
Proof.
  intros u [|it prog] H; [reflexivity|]. cbn [forallb] in H. apply andb_true_iff in H as [Hit _].
  unfold render_prog. cbn [flat_map]. destruct (render_top_first u it Hit) as (l & ls & -> & Hl).
  cbn [app]. now rewrite Hl.
Qed.

(* ---- sizes *)
Fixpoint lines_of (it : item) : N :=
  match it with
  | Plain _ cs => 1 + N.of_nat (length cs)
  | Loop _ _ _ body => 1 + sumN (map lines_of body)
  end.

Definition item_cost (it : item) : N :=
  match it with
  | Plain _ _ => 0
  | Loop _ a b body => Z.to_N (b - a) * sumN (map lines_of body)
  end.
Definition pass_cost (prog : list item) : N := sumN (map item_cost prog).

Lemma sumN_app : forall a b, sumN (a ++ b) = sumN a + sumN b.
Proof. induction a as [|x a IH]; intros b; cbn [app sumN fold_right]; [reflexivity|]. fold (sumN (a ++ b)). fold (sumN a). rewrite IH. lia. Qed.

Lemma sumN_cons : forall x l, sumN (x :: l) = x + sumN l.
Proof. reflexivity. Qed.

Lemma render_length : forall u it d, N.of_nat (length (render u d it)) = lines_of it.
Proof.
  intros u. induction it as [f cs|x a b body IH] using item_ind2; intros d.
  - cbn [render lines_of]. rewrite map_length. cbn [length]. lia.
  - cbn [render lines_of length]. rewrite Nat2N.inj_succ. rewrite <- N.add_1_l. f_equal.
    rewrite Forall_forall in IH. clear -IH. induction body as [|it body IHb]; [reflexivity|].
    cbn [flat_map map]. rewrite app_length, Nat2N.inj_add, sumN_cons, IH by now left.
    rewrite IHb by (intros; apply IH; now right). reflexivity.
Qed.

Lemma render_body_length : forall u d body,
  N.of_nat (length (flat_map (render u d) body)) = sumN (map lines_of body).
Proof.
  intros u d. induction body as [|it body IH]; [reflexivity|].
  cbn [flat_map map]. now rewrite app_length, Nat2N.inj_add, sumN_cons, render_length, IH.
Qed.

Lemma one_pass_prog : forall u, (1 <= u)%nat -> forall prog fuel gen, forallb wf prog = true ->
  (length (render_prog u prog) < fuel)%nat -> gen + pass_cost prog <= max_expanded_lines ->
  one_pass fuel gen (render_prog u prog) = ROk (render_prog u (step prog)).
Proof.
  intros u Hu. induction prog as [|it prog IH]; intros fuel gen Hwf Hf Hcost.
  - destruct fuel; [cbn in Hf; lia|reflexivity].
  - cbn [forallb] in Hwf. apply andb_true_iff in Hwf as [Hit Hprog].
    unfold pass_cost in Hcost. cbn [map] in Hcost. rewrite sumN_cons in Hcost. fold (pass_cost prog) in Hcost.
    unfold render_prog, step in *. cbn [flat_map] in *. rewrite flat_map_app.
    destruct it as [f cs|x a b body].
    + (* plain statement: its lines are kept *)
      rewrite app_length in Hf. cbn [item_cost] in Hcost.
      rewrite (one_pass_fuel fuel _ (length (render u 0 (Plain f cs)) + S (length (flat_map (render u 0) prog))))
        by (rewrite ?app_length; lia).
      rewrite one_pass_keep by now apply plain_keep.
      rewrite IH by (assumption || lia). cbn [step_item flat_map]. now rewrite app_nil_r.
    + (* loop: header recognised, body collected, copies emitted *)
      cbn [wf] in Hit. apply andb_true_iff in Hit as [Hit Hbody]. apply andb_true_iff in Hit as [Hx Hr].
      destruct (range_ok_props a b Hr) as (Ha & Hb & Hmax).
      cbn [render Nat.mul]. rewrite pad_0. cbn [app]. destruct fuel as [|fuel]; [cbn in Hf; lia|].
      cbn [one_pass].
      assert (Hind : indent_of (header x a b) = 0).
      { destruct (header_shape x a b) as (t & -> & Hw). change (102 :: t) with (spaces 0 ++ 102 :: t)%list. now rewrite indent_of_shape. }
      assert (Htrim : trim (header x a b) = header x a b) by apply (trim_header 0).
      rewrite Hind, Htrim, is_decl_for_header.
      change ((0 =? 0) && true) with true. cbv iota.
      rewrite parse_for_range_header by assumption. rewrite Hmax.
      destruct (take_drop_lines in_body (flat_map (render u 1) body) (flat_map (render u 0) prog)) as [Ht Hd].
      { apply forallb_forall. intros l Hl. apply in_flat_map in Hl as (it & Hit & Hl).
        rewrite forallb_forall in Hbody. pose proof (render_in_body u Hu it 1 (Hbody it Hit) (le_n 1)) as Hall.
        rewrite forallb_forall in Hall. now apply Hall. }
      { apply (render_prog_first_not_body u prog Hprog). }
      rewrite Ht, Hd, render_body_length. cbn [item_cost] in Hcost.
      assert (Hlim : (max_expanded_lines <? gen + Z.to_N (b - a) * sumN (map lines_of body)) = false) by (apply N.ltb_ge; lia).
      rewrite Hlim, copies_body by assumption.
      cbn [render app length] in Hf. rewrite app_length in Hf.
      rewrite IH by (assumption || lia).
      cbn [step_item]. now rewrite (flat_map_flat_map (render u 0) (fun v => map (subst_item x v) body)).
Qed.

(* ================================================================ text <-> lines *)
Lemma split_incl_go_line : forall l rest cur, forallb (fun c => negb (c =? 10)) l = true ->
  split_incl_go (l ++ 10 :: rest) cur = (rev cur ++ l ++ [10])%list :: split_incl_go rest [].
Proof.
  induction l as [|c l IH]; intros rest cur H.
  - cbn [app split_incl_go]. change (10 =? 10) with true. cbv iota. rewrite rv_rev. reflexivity.
  - cbn [forallb] in H. apply andb_true_iff in H as [Hc Hl]. apply negb_true_iff in Hc.
    cbn [app split_incl_go]. rewrite Hc, IH by assumption. cbn [rev]. now rewrite <- app_assoc.
Qed.

Definition no_nl (l : str) : bool := forallb (fun c => negb (c =? 10)) l.

Lemma no_eol_no_nl : forall l, no_eol l = true -> no_nl l = true.
Proof.
  intros l. apply forallb_impl. intros c H. apply negb_true_iff in H. apply negb_true_iff.
  unfold ExpandSpec.is_eol in H. now apply orb_false_iff in H as [? _].
Qed.

Lemma split_incl_unlines : forall L, forallb no_eol L = true ->
  split_incl (unlines L) = map (fun l => l ++ [10])%list L.
Proof.
  unfold split_incl. induction L as [|l L IH]; intros H; [reflexivity|].
  cbn [forallb] in H. apply andb_true_iff in H as [Hl HL].
  unfold unlines. cbn [map concat]. rewrite <- app_assoc. cbn [app].
  rewrite split_incl_go_line by now apply no_eol_no_nl. cbn [rev app]. f_equal. now apply IH.
Qed.

Lemma strip_eol_line : forall l, no_eol l = true -> strip_eol (l ++ [10]) = l.
Proof.
  intros l H. unfold strip_eol. rewrite strip_suffix_app.
  destruct (strip_suffix [13] l) as [r|] eqn:E; [|reflexivity].
  apply strip_suffix_some in E. subst l. unfold no_eol in H. rewrite forallb_app in H.
  apply andb_true_iff in H as [_ H]. discriminate.
Qed.

Lemma str_lines_unlines : forall L, forallb no_eol L = true -> str_lines (unlines L) = L.
Proof.
  intros L H. unfold str_lines. rewrite split_incl_unlines by assumption. rewrite map_map.
  rewrite <- (map_id L) at 2. apply map_ext_in. intros l Hl. apply strip_eol_line.
  rewrite forallb_forall in H. now apply H.
Qed.

Lemma no_eol_pad : forall k l, no_eol l = true -> no_eol (pad k l) = true.
Proof.
  intros k l H. unfold pad. destruct l; [reflexivity|]. unfold no_eol in *. rewrite forallb_app, H, andb_true_r.
  unfold spaces. induction k; [reflexivity|]. cbn. exact IHk.
Qed.

Lemma cont_ok_no_eol : forall l, cont_ok l = true -> no_eol l = true.
Proof. intros [|c l] H; [reflexivity|]. cbn [cont_ok] in H. now apply andb_true_iff in H as [_ H]. Qed.

Lemma render_no_eol : forall u it d, wf it = true -> forallb no_eol (render u d it) = true.
Proof.
  intros u. induction it as [f cs|x a b body IH] using item_ind2; intros d H.
  - cbn [wf] in H. apply andb_true_iff in H as [Hf Hcs]. cbn [render].
    apply forallb_forall. intros l Hl. apply in_map_iff in Hl as (l0 & <- & Hl0). apply no_eol_pad.
    destruct Hl0 as [<-|Hl0].
    + destruct (first_ok_inv _ Hf) as (c & t & -> & _ & Hn). exact Hn.
    + rewrite forallb_forall in Hcs. apply cont_ok_no_eol. now apply Hcs.
  - cbn [wf] in H. apply andb_true_iff in H as [H Hb]. apply andb_true_iff in H as [Hx _].
    cbn [render forallb]. rewrite no_eol_pad by now apply header_no_eol. cbn [andb].
    apply forallb_forall. intros l Hl. apply in_flat_map in Hl as (it & Hit & Hl).
    rewrite Forall_forall in IH. rewrite forallb_forall in Hb. specialize (IH it Hit (S d) (Hb it Hit)).
    rewrite forallb_forall in IH. now apply IH.
Qed.

Lemma render_prog_no_eol : forall u prog, forallb wf prog = true -> forallb no_eol (render_prog u prog) = true.
Proof.
  intros u prog H. apply forallb_forall. intros l Hl. apply in_flat_map in Hl as (it & Hit & Hl).
  rewrite forallb_forall in H. pose proof (render_no_eol u it 0 (H it Hit)) as Hr.
  rewrite forallb_forall in Hr. now apply Hr.
Qed.

(* ================================================================ depth *)
Definition is_hdr (l : str) : bool := is_decl_for (trim l).

Lemma depth_subst : forall x v it, depth (subst_item x v it) = depth it.
Proof.
  intros x v. induction it as [f cs|y a b body IH] using item_ind2; [reflexivity|].
  cbn [depth subst_item]. f_equal. rewrite map_map. f_equal. apply map_ext_in. intros it Hit.
  rewrite Forall_forall in IH. now apply IH.
Qed.

Lemma list_max_in : forall l, (0 < list_max l)%nat -> In (list_max l) l.
Proof.
  induction l as [|a l IH]; intros H; [cbn in H; lia|].
  cbn [list_max fold_right] in *. fold (list_max l) in *.
  destruct (Nat.max_spec a (list_max l)) as [[Hlt ->]|[Hle ->]]; [right; apply IH; lia|now left].
Qed.

Lemma list_max_ge : forall l n, In n l -> (n <= list_max l)%nat.
Proof.
  intros l n H. pose proof (proj1 (list_max_le l (list_max l)) (le_n _)) as Hf.
  rewrite Forall_forall in Hf. now apply Hf.
Qed.

Lemma hdr_line : forall k x a b, is_hdr (spaces k ++ header x a b) = true
  /\ indent_of (spaces k ++ header x a b) = N.of_nat k.
Proof.
  intros k x a b. unfold is_hdr. rewrite trim_header, is_decl_for_header. split; [reflexivity|].
  destruct (header_shape x a b) as (t & -> & Hw). now apply indent_of_shape.
Qed.

Lemma pad_header : forall k x a b, pad k (header x a b) = (spaces k ++ header x a b)%list.
Proof. intros. destruct (header_first x a b) as [t ->]. reflexivity. Qed.

(* a header line at the deepest level exists ... *)
Lemma hdr_exists : forall u it d, (1 <= depth it)%nat ->
  exists l, In l (render u d it) /\ is_hdr l = true /\ indent_of l = N.of_nat ((d + depth it - 1) * u).
Proof.
  intros u. induction it as [f cs|x a b body IH] using item_ind2; intros d Hd; [cbn in Hd; lia|].
  cbn [depth render] in *. set (m := list_max (map depth body)) in *.
  destruct (Nat.eq_dec m 0) as [Hm|Hm].
  - exists (pad (d * u) (header x a b)). split; [now left|]. rewrite pad_header.
    destruct (hdr_line (d * u) x a b) as [H1 H2]. rewrite H1, H2. split; [reflexivity|]. f_equal. rewrite Hm. f_equal. lia.
  - assert (Hin : In m (map depth body)) by (apply list_max_in; fold m; lia).
    apply in_map_iff in Hin as (it & Hdep & Hit). rewrite Forall_forall in IH.
    destruct (IH it Hit (S d) ltac:(lia)) as (l & Hl & Hh & Hi).
    exists l. split; [right; apply in_flat_map; eauto|]. split; [assumption|]. rewrite Hi, Hdep. f_equal. f_equal. lia.
Qed.

(* ... and no header line is deeper *)
Lemma hdr_bound : forall u it d l, wf it = true -> In l (render u d it) -> is_hdr l = true ->
  (1 <= depth it)%nat /\ (N.to_nat (indent_of l) <= (d + depth it - 1) * u)%nat.
Proof.
  intros u. induction it as [f cs|x a b body IH] using item_ind2; intros d l Hwf Hl Hh.
  - exfalso. cbn [wf] in Hwf. apply andb_true_iff in Hwf as [Hf Hcs]. cbn [render] in Hl.
    apply in_map_iff in Hl as (l0 & <- & Hl0). unfold is_hdr in Hh. destruct Hl0 as [<-|Hl0].
    + destruct (first_ok_inv _ Hf) as (c & t & -> & Hc & _). change (c :: t) with (spaces 0 ++ c :: t)%list in Hh.
      rewrite pad_shape, not_header_shape in Hh by assumption. discriminate.
    + rewrite forallb_forall in Hcs. destruct (cont_ok_inv _ (Hcs _ Hl0)) as [->|(r & c & t & _ & -> & Hc & _)]; [discriminate|].
      rewrite pad_shape, not_header_shape in Hh by assumption. discriminate.
  - cbn [wf] in Hwf. apply andb_true_iff in Hwf as [_ Hb]. cbn [depth render] in *.
    set (m := list_max (map depth body)) in *. split; [lia|]. destruct Hl as [<-|Hl].
    + rewrite pad_header. destruct (hdr_line (d * u) x a b) as [_ ->]. rewrite Nat2N.id. nia.
    + apply in_flat_map in Hl as (it & Hit & Hl). rewrite Forall_forall in IH. rewrite forallb_forall in Hb.
      destruct (IH it Hit (S d) l (Hb it Hit) Hl Hh) as [H1 H2].
      assert (Hle : (depth it <= m)%nat) by (apply list_max_ge; now apply in_map).
      etransitivity; [exact H2|]. apply Nat.mul_le_mono_r. lia.
Qed.

Lemma depth_prog_step : forall prog, (1 <= depth_prog prog)%nat -> (depth_prog (step prog) < depth_prog prog)%nat.
Proof.
  intros prog H. unfold depth_prog in *.
  assert (Hall : Forall (fun k => k <= list_max (map depth prog) - 1)%nat (map depth (step prog))).
  { apply Forall_forall. intros k Hk. apply in_map_iff in Hk as (it' & <- & Hit').
    unfold step in Hit'. apply in_flat_map in Hit' as (it & Hit & Hit').
    assert (Hle : (depth it <= list_max (map depth prog))%nat) by (apply list_max_ge; now apply in_map).
    destruct it as [f cs|x a b body]; cbn [step_item] in Hit'.
    - destruct Hit' as [<-|[]]. cbn. lia.
    - apply in_flat_map in Hit' as (v & _ & Hit'). apply in_map_iff in Hit' as (it0 & <- & Hit0).
      rewrite depth_subst. cbn [depth] in Hle.
      assert (depth it0 <= list_max (map depth body))%nat by (apply list_max_ge; now apply in_map). lia. }
  apply list_max_le in Hall. lia.
Qed.

Lemma render_step_differs : forall u prog, (1 <= u)%nat -> forallb wf prog = true -> forallb wf (step prog) = true ->
  (1 <= depth_prog prog)%nat -> render_prog u (step prog) <> render_prog u prog.
Proof.
  intros u prog Hu Hwf Hwf' Hd Heq.
  pose proof (depth_prog_step prog Hd) as Hlt. unfold depth_prog in *.
  assert (Hin : In (list_max (map depth prog)) (map depth prog)) by (apply list_max_in; lia).
  apply in_map_iff in Hin as (it & Hdep & Hit).
  destruct (hdr_exists u it 0 ltac:(lia)) as (l & Hl & Hh & Hi).
  assert (Hl' : In l (render_prog u (step prog))) by (rewrite Heq; apply in_flat_map; eauto).
  apply in_flat_map in Hl' as (it' & Hit' & Hl').
  rewrite forallb_forall in Hwf'. destruct (hdr_bound u it' 0 l (Hwf' it' Hit') Hl' Hh) as [H1 H2].
  assert (Hle : (depth it' <= list_max (map depth (step prog)))%nat) by (apply list_max_ge; now apply in_map).
  rewrite Hi, Nat2N.id in H2. cbn [Nat.add] in H2.
  assert ((depth it - 1) * u <= (depth it' - 1) * u)%nat by exact H2.
  assert (depth it' - 1 < depth it - 1)%nat by lia. nia.
Qed.

(* ================================================================ hand expansion *)
Lemma hand_subst : forall x v it env, hand env (subst_item x v it) = hand ((x, v) :: env) it.
Proof.
  intros x v. induction it as [f cs|y a b body IH] using item_ind2; intros env.
  - cbn [subst_item hand]. change (repl x v f :: map (repl x v) cs) with (map (repl x v) (f :: cs)).
    rewrite map_map. reflexivity.
  - cbn [subst_item hand]. apply flat_map_ext. intros w. rewrite flat_map_map.
    rewrite Forall_forall in IH. clear -IH. induction body as [|it body IHb]; [reflexivity|].
    cbn [flat_map]. rewrite IH by now left. rewrite IHb by (intros; apply IH; now right). reflexivity.
Qed.

Lemma hand_step_item : forall it, flat_map (hand []) (step_item it) = hand [] it.
Proof.
  intros [f cs|x a b body]; cbn [step_item flat_map]; [now rewrite app_nil_r|].
  cbn [hand app]. rewrite flat_map_flat_map. apply flat_map_ext. intros v.
  rewrite flat_map_map. apply flat_map_ext. intros it. apply hand_subst.
Qed.

Lemma hand_step : forall prog, hand_prog (step prog) = hand_prog prog.
Proof.
  intros prog. unfold hand_prog, step. rewrite flat_map_flat_map. apply flat_map_ext. apply hand_step_item.
Qed.

Lemma depth0_plain : forall it, depth it = 0%nat -> exists f cs, it = Plain f cs.
Proof. intros [f cs|x a b body] H; [eauto|discriminate]. Qed.

Lemma depth0_items : forall prog, depth_prog prog = 0%nat -> forall it, In it prog -> exists f cs, it = Plain f cs.
Proof.
  intros prog H it Hit. apply depth0_plain.
  assert (depth it <= depth_prog prog)%nat by (apply list_max_ge; now apply in_map). lia.
Qed.

Lemma step_depth0 : forall prog, depth_prog prog = 0%nat -> step prog = prog.
Proof.
  induction prog as [|it prog IH]; intros H; [reflexivity|].
  destruct (depth0_items _ H it (or_introl eq_refl)) as (f & cs & ->).
  unfold step in *. cbn [flat_map step_item app]. f_equal. apply IH.
  unfold depth_prog in *. cbn [map list_max fold_right] in H. fold (list_max (map depth prog)) in H. lia.
Qed.

Lemma apply_env_nil : forall l, apply_env [] l = l.
Proof. reflexivity. Qed.

Lemma flat_map_ext_in : forall {A B} (f g : A -> list B) l,
  (forall a, In a l -> f a = g a) -> flat_map f l = flat_map g l.
Proof.
  induction l as [|a l IH]; intros H; [reflexivity|]. cbn [flat_map].
  rewrite (H a (or_introl eq_refl)), IH by (intros; apply H; now right). reflexivity.
Qed.

Lemma render_depth0 : forall u prog, depth_prog prog = 0%nat -> render_prog u prog = hand_prog prog.
Proof.
  intros u prog H. unfold render_prog, hand_prog. apply flat_map_ext_in. intros it Hit.
  destruct (depth0_items _ H it Hit) as (f & cs & ->). cbn [render hand Nat.mul].
  rewrite (map_ext _ (fun l => l)) by apply pad_0. rewrite map_id.
  rewrite (map_ext (apply_env []) (fun l => l)) by apply apply_env_nil. now rewrite map_id.
Qed.

Lemma wf_step : forall prog, forallb wf prog = true -> forallb wf (step prog) = true.
Proof.
  intros prog H. rewrite forallb_forall in *. intros it' Hit'. unfold step in Hit'.
  apply in_flat_map in Hit' as (it & Hit & Hit'). specialize (H it Hit).
  destruct it as [f cs|x a b body]; cbn [step_item] in Hit'.
  - destruct Hit' as [<-|[]]. exact H.
  - apply in_flat_map in Hit' as (v & _ & Hit'). apply in_map_iff in Hit' as (it0 & <- & Hit0).
    apply wf_subst. cbn [wf] in H. apply andb_true_iff in H as [_ Hb]. rewrite forallb_forall in Hb. now apply Hb.
Qed.

(* ================================================================ the line limit *)
Lemma sumN_map_le : forall {A} (f g : A -> N) l, (forall a, In a l -> f a <= g a) -> sumN (map f l) <= sumN (map g l).
Proof.
  induction l as [|a l IH]; intros H; [cbn; lia|]. cbn [map]. rewrite !sumN_cons.
  pose proof (H a (or_introl eq_refl)). pose proof (IH (fun x Hx => H x (or_intror Hx))). lia.
Qed.

Lemma lines_le_weight : forall it, lines_of it <= weight it.
Proof.
  induction it as [f cs|x a b body IH] using item_ind2; [apply N.le_refl|].
  cbn [lines_of weight]. rewrite Forall_forall in IH. pose proof (sumN_map_le lines_of weight body IH) as H.
  destruct (N.max_spec 1 (Z.to_N (b - a))) as [[? ->]|[? ->]]; nia.
Qed.

Lemma item_cost_le_weight : forall it, item_cost it <= weight it.
Proof.
  intros [f cs|x a b body]; cbn [item_cost weight]; [apply N.le_0_l|].
  pose proof (sumN_map_le lines_of weight body (fun it _ => lines_le_weight it)) as H.
  destruct (N.max_spec 1 (Z.to_N (b - a))) as [[? ->]|[? ->]]; nia.
Qed.

Lemma pass_cost_le_weight : forall prog, pass_cost prog <= weight_prog prog.
Proof. intros prog. apply sumN_map_le. intros it _. apply item_cost_le_weight. Qed.

Lemma weight_subst : forall x v it, weight (subst_item x v it) = weight it.
Proof.
  intros x v. induction it as [f cs|y a b body IH] using item_ind2.
  - cbn [subst_item weight]. now rewrite map_length.
  - cbn [subst_item weight]. do 3 f_equal. rewrite map_map. apply map_ext_in. rewrite Forall_forall in IH. exact IH.
Qed.

Lemma zrange_length : forall n a, length (zrange a n) = n.
Proof. induction n as [|n IH]; intros a; [reflexivity|]. cbn [zrange length]. now rewrite IH. Qed.

Lemma weight_copies : forall x body (range : list Z),
  sumN (map weight (flat_map (fun v => map (subst_item x v) body) range))
  = N.of_nat (length range) * sumN (map weight body).
Proof.
  intros x body. induction range as [|v range IH]; [reflexivity|].
  cbn [flat_map length]. rewrite map_app, sumN_app, IH, map_map.
  rewrite (map_ext (fun it => weight (subst_item x v it)) weight) by (intros; apply weight_subst). lia.
Qed.

Lemma weight_step_item : forall it, sumN (map weight (step_item it)) <= weight it.
Proof.
  intros [f cs|x a b body]; cbn [step_item].
  - cbn [map]. rewrite sumN_cons. cbn [sumN fold_right]. lia.
  - rewrite weight_copies, zrange_length. cbn [weight].
    replace (N.of_nat (Z.to_nat (b - a))) with (Z.to_N (b - a)) by (rewrite <- Z_N_nat; now rewrite N2Nat.id).
    destruct (N.max_spec 1 (Z.to_N (b - a))) as [[? ->]|[? ->]]; nia.
Qed.

Lemma weight_step : forall prog, weight_prog (step prog) <= weight_prog prog.
Proof.
  unfold weight_prog, step. induction prog as [|it prog IH]; [cbn; lia|].
  cbn [flat_map map]. rewrite map_app, sumN_app, sumN_cons. pose proof (weight_step_item it). lia.
Qed.

(* ================================================================ the passes *)
Lemma one_pass_text_prog : forall u prog, (1 <= u)%nat -> forallb wf prog = true ->
  weight_prog prog <= max_expanded_lines ->
  one_pass_text (unlines (render_prog u prog)) = ROk (unlines (render_prog u (step prog))).
Proof.
  intros u prog Hu Hwf Hw. unfold one_pass_text.
  rewrite str_lines_unlines by now apply render_prog_no_eol.
  rewrite one_pass_prog; [reflexivity|assumption|assumption|lia|].
  pose proof (pass_cost_le_weight prog). lia.
Qed.

Lemma expand_go_prog : forall u, (1 <= u)%nat -> forall n prog, forallb wf prog = true ->
  weight_prog prog <= max_expanded_lines -> (depth_prog prog < n)%nat ->
  expand_go n (unlines (render_prog u prog)) = ROk (unlines (hand_prog prog)).
Proof.
  intros u Hu. induction n as [|n IH]; intros prog Hwf Hw Hd; [lia|].
  cbn [expand_go]. rewrite one_pass_text_prog by assumption.
  destruct (Nat.eq_dec (depth_prog prog) 0) as [H0|H0].
  - rewrite step_depth0 by assumption. rewrite str_eqb_refl. now rewrite render_depth0.
  - pose proof (wf_step prog Hwf) as Hwf'.
    destruct (str_eqb (unlines (render_prog u (step prog))) (unlines (render_prog u prog))) eqn:E.
    + exfalso. apply str_eqb_eq in E.
      apply (render_step_differs u prog Hu Hwf Hwf' ltac:(lia)).
      rewrite <- (str_lines_unlines (render_prog u (step prog))) by now apply render_prog_no_eol.
      rewrite <- (str_lines_unlines (render_prog u prog)) by now apply render_prog_no_eol.
      now rewrite E.
    + rewrite IH; [now rewrite hand_step|assumption| |].
      * pose proof (weight_step prog). lia.
      * pose proof (depth_prog_step prog ltac:(lia)). lia.
Qed.

Lemma expand_prog : forall u prog, (1 <= u)%nat -> forallb wf prog = true ->
  weight_prog prog <= max_expanded_lines -> (depth_prog prog < max_expansion_passes)%nat ->
  expand (unlines (render_prog u prog)) = ROk (unlines (hand_prog prog)).
Proof. intros. unfold expand. now apply expand_go_prog. Qed.

(* the hand-written text is left alone by the expansion *)
Lemma hand_lines_keep : forall L gen, forallb keep_line L = true -> forall fuel, (length L < fuel)%nat -> one_pass fuel gen L = ROk L.
Proof.
  intros L gen H fuel Hf. rewrite (one_pass_fuel fuel L (length L + 1)) by lia.
  rewrite <- (app_nil_r L) at 2. rewrite one_pass_keep by assumption. cbn. now rewrite app_nil_r.
Qed.

Lemma flatten_exists : forall n prog, (depth_prog prog <= n)%nat -> forallb wf prog = true ->
  exists p0, forallb wf p0 = true /\ depth_prog p0 = 0%nat /\ hand_prog p0 = hand_prog prog
             /\ weight_prog p0 <= weight_prog prog.
Proof.
  induction n as [|n IH]; intros prog Hd Hwf.
  - exists prog. repeat split; [assumption|lia|lia].
  - destruct (Nat.eq_dec (depth_prog prog) 0) as [H0|H0]; [exists prog; repeat split; auto; lia|].
    destruct (IH (step prog)) as (p0 & Hw0 & Hd0 & Hh0 & Hwt).
    + pose proof (depth_prog_step prog ltac:(lia)). lia.
    + now apply wf_step.
    + exists p0. repeat split; try assumption; [now rewrite Hh0, hand_step|]. pose proof (weight_step prog). lia.
Qed.

Lemma expand_hand_fixpoint : forall prog, forallb wf prog = true -> weight_prog prog <= max_expanded_lines ->
  expand (unlines (hand_prog prog)) = ROk (unlines (hand_prog prog)).
Proof.
  intros prog Hwf Hw. destruct (flatten_exists (depth_prog prog) prog (le_n _) Hwf) as (p0 & Hw0 & Hd0 & Hh0 & Hwt).
  rewrite <- Hh0. rewrite <- (render_depth0 1 p0 Hd0) at 1.
  apply expand_prog; [lia|assumption|lia|]. rewrite Hd0. unfold max_expansion_passes. lia.
Qed.
