(* Text/EventFile.v — executable model of the two event-file readers in
   crates/varpulis-runtime/src/event_file.rs.  Definitions only.

   Rust                                            here
   ----------------------------------------------  ---------------------------
   EventFileParser::parse_batch_time               batch_time
   EventFileParser::parse_timing_prefix            timing_prefix
   EventFileParser::parse_event_text               parse_event_text   (the two event-line parsers
     (`{`-dispatch, also inlined in `parse`)                           are Section variables)
   EventFileParser::parse  (one loop iteration)    preload_line
   EventFileParser::parse                          preload
   EventFileParser::parse_file_line                file_line          (what StreamingEventReader::next
                                                                       calls on every read_line piece)
   StreamingEventReader::next, driven until the    stream
     first Err (what `simulate --immediate` does)
   The public EventFileParser::parse_line (skips BATCH and @ lines, used by neither reader) is
   not modelled.

   A file is its text (list of Unicode scalar values); files that are not valid UTF-8 are outside
   the model (both readers reject them: read_to_string / read_line fail).
   u64 arithmetic in parse_timing_prefix overflows to [Panic] (debug / overflow-checks build).
   The event-line parsers parse_event_line / parse_jsonl_line are shared by both readers and are
   abstract here: every statement below holds for any such pair of functions. *)
From Coq Require Import String.
From VP Require Import Base.Tactics Text.Str.
Open Scope N_scope.

Inductive outcome (A : Type) : Type :=
| Ok (a : A)
| Reject          (* Err(..) *)
| Panic.
Arguments Ok {A} a.
Arguments Reject {A}.
Arguments Panic {A}.

Definition omap {A B} (f : A -> B) (o : outcome A) : outcome B :=
  match o with Ok a => Ok (f a) | Reject => Reject | Panic => Panic end.

(* checked u64 multiplication *)
Definition mul_u64 (a b : N) : outcome N :=
  if a * b <=? u64_max then Ok (a * b) else Panic.

(* `BATCH <ms>`: second whitespace-separated word, if any, must be a u64 *)
Definition batch_time (line : str) : outcome (option N) :=
  match split_ws line with
  | _ :: t :: _ => match parse_u64 t with Some n => Ok (Some n) | None => Reject end
  | _ => Ok None
  end.

(* position of the first whitespace character: (before, from that character on) *)
Fixpoint break_ws (l : str) : option (str * str) :=
  match l with
  | [] => None
  | c :: r => if is_ws c then Some ([], l)
              else match break_ws r with Some (a, b) => Some (c :: a, b) | None => None end
  end.

Definition timing_prefix (line : str) : outcome (N * str) :=
  let line := trim_start_char 64 line in
  match break_ws line with
  | None => Reject
  | Some (timing, rest0) =>
    let rest := trim rest0 in
    let num (s : str) (k : N -> outcome N) : outcome (N * str) :=
      match parse_u64 s with
      | None => Reject
      | Some n => match k n with Ok ms => Ok (ms, rest) | Reject => Reject | Panic => Panic end
      end in
    if ends_with (s2l "ms") timing then num (trim_end_pat (s2l "ms") timing) (fun n => Ok n)
    else if ends_with (s2l "s") timing then num (trim_end_pat (s2l "s") timing) (fun n => mul_u64 n 1000)
    else if ends_with (s2l "m") timing then
      num (trim_end_pat (s2l "m") timing)
          (fun n => match mul_u64 n 60 with Ok x => mul_u64 x 1000 | o => o end)
    else num timing (fun n => Ok n)
  end.

Definition is_skip (line : str) : bool :=
  match line with [] => true | _ => starts_with (s2l "#") line || starts_with (s2l "//") line end.

Section Readers.
  Variable Ev : Type.
  Variable parse_evt : str -> option Ev.    (* parse_event_line *)
  Variable parse_json : str -> option Ev.   (* parse_jsonl_line *)
  Variable max_line : N.                    (* limits::MAX_LINE_LENGTH *)

  Definition parse_event_text (l : str) : outcome Ev :=
    match (if starts_with (s2l "{") l then parse_json l else parse_evt l) with
    | Some e => Ok e
    | None => Reject
    end.

  (* one iteration of the loop in EventFileParser::parse: new batch time, event (if any) *)
  Definition preload_line (cur : N) (raw : str) : outcome (N * option (N * Ev)) :=
    let line := trim raw in
    if is_skip line then Ok (cur, None)
    else if starts_with (s2l "BATCH") line then
      match batch_time line with
      | Ok (Some t) => Ok (t, None)
      | Ok None => Ok (cur, None)
      | Reject => Reject
      | Panic => Panic
      end
    else
      match (if starts_with (s2l "@") line then timing_prefix line else Ok (cur, line)) with
      | Ok (off, text) => omap (fun e => (cur, Some (off, e))) (parse_event_text text)
      | Reject => Reject
      | Panic => Panic
      end.

  Fixpoint preload_go (lines : list str) (cur : N) (acc : list (N * Ev)) : outcome (list (N * Ev)) :=
    match lines with
    | [] => Ok (rev acc)
    | l :: r => match preload_line cur l with
                | Ok (cur', None) => preload_go r cur' acc
                | Ok (cur', Some te) => preload_go r cur' (te :: acc)
                | Reject => Reject
                | Panic => Panic
                end
    end.
  Definition preload (file : str) : outcome (list (N * Ev)) := preload_go (str_lines file) 0 [].

  (* EventFileParser::parse_file_line *)
  Definition file_line (raw : str) : outcome (option Ev) :=
    let line := trim raw in
    if is_skip line then Ok None
    else if starts_with (s2l "BATCH") line then
      match batch_time line with
      | Ok _ => Ok None
      | Reject => Reject
      | Panic => Panic
      end
    else
      match (if starts_with (s2l "@") line then omap snd (timing_prefix line) else Ok line) with
      | Ok text => omap Some (parse_event_text text)
      | Reject => Reject
      | Panic => Panic
      end.

  (* StreamingEventReader: read_line pieces; oversized pieces are skipped *)
  Fixpoint stream_go (segs : list str) (acc : list Ev) : outcome (list Ev) :=
    match segs with
    | [] => Ok (rev acc)
    | s :: r => if max_line <? utf8_len s then stream_go r acc
                else match file_line s with
                     | Ok None => stream_go r acc
                     | Ok (Some e) => stream_go r (e :: acc)
                     | Reject => Reject
                     | Panic => Panic
                     end
    end.
  Definition stream (file : str) : outcome (list Ev) := stream_go (split_incl file) [].
End Readers.
