(* Rendering of model observables to strings, for the correspondence check:
   the driver prints [Eval vm_compute in (render ...)] and parses one string per case. *)
From Coq Require Import String Ascii List ZArith NArith DecimalString Decimal.
Import ListNotations.
Open Scope string_scope.

Definition str_of_N (n : N) : string := NilEmpty.string_of_uint (N.to_uint n).
Definition str_of_nat (n : nat) : string := str_of_N (N.of_nat n).
Definition str_of_Z (z : Z) : string :=
  match z with
  | Z0 => "0"
  | Zpos p => str_of_N (Npos p)
  | Zneg p => "-" ++ str_of_N (Npos p)
  end.
Definition str_of_bool (b : bool) : string := if b then "1" else "0".

Fixpoint join (sep : string) (l : list string) : string :=
  match l with
  | [] => ""
  | [x] => x
  | x :: r => x ++ sep ++ join sep r
  end.

Definition str_list {A} (f : A -> string) (l : list A) : string :=
  "[" ++ join "," (map f l) ++ "]".
Definition str_opt {A} (f : A -> string) (o : option A) : string :=
  match o with None => "none" | Some a => f a end.
