(* Common imports and arithmetic set-up for the whole development. *)
From Coq Require Export List Arith ZArith NArith Lia Bool.
From Coq Require Export ZifyBool ZifyNat ZifyN.
Export ListNotations.
Ltac Zify.zify_post_hook ::= Z.div_mod_to_equations.
Global Arguments N.add : simpl never.
Global Arguments N.sub : simpl never.
Global Arguments N.mul : simpl never.
Global Arguments N.eqb : simpl never.
Global Arguments N.ltb : simpl never.
Global Arguments N.leb : simpl never.
Global Arguments Z.add : simpl never.
Global Arguments Z.sub : simpl never.
Global Arguments Z.mul : simpl never.
Global Arguments Z.eqb : simpl never.
Global Arguments Z.ltb : simpl never.
Global Arguments Z.leb : simpl never.

Ltac inv H := inversion H; subst; clear H.
Ltac destr_match :=
  match goal with
  | |- context [match ?x with _ => _ end] => destruct x eqn:?
  end.
Ltac destr_match_in H :=
  match type of H with
  | context [match ?x with _ => _ end] => destruct x eqn:?
  end.
