(* C30 — property theorems only.  Model: RateLimit/Model.v (the definitions evaluated in the
   correspondence check); lemmas: RateLimit/Proofs.v.

   Reading guide.  [trace cfg [] pre = (_, st)] makes [st] range over every state the limiter
   can reach (any clients, any eviction tie-breaks).  Token counts are in units of 10^-9 token
   and times in ns, so [count * NANO <= burst * NANO + rate * T] is count <= burst + rate * T[s]. *)
From VP Require Import Base.Tactics RateLimit.Model RateLimit.Proofs.
Open Scope Z_scope.

(* For every reachable state and every further run [mid] of requests with non-decreasing times
   (any clients) that all fall in a window [a, a+T] and during which client [ip] is not evicted
   (stays tracked): the requests of [ip] admitted in that window number at most burst + rate*T. *)
Theorem C30_bound : forall cfg pre mid ip es_pre st1 es_mid st2 a T,
  c_enabled cfg = true -> 0 <= c_rate cfg -> 0 <= c_burst cfg ->
  trace cfg [] pre = (es_pre, st1) ->
  trace cfg st1 mid = (es_mid, st2) ->
  nondecr (map op_time mid) ->
  0 <= T -> (forall o, In o mid -> a <= op_time o <= a + T) ->
  (forall e, In e es_mid -> e_evicted e <> Some ip) ->
  count_admitted ip es_mid * NANO <= c_burst cfg * NANO + c_rate cfg * T.
Proof. exact window_bound. Qed.

(* hypotheses are satisfiable and the bound is tight: burst 2, rate 1/s, client 1 asks at 0,0,0,1s,1s:
   3 admitted in the 1 s window = burst + rate*T, no eviction although client 2 interleaves *)
Example C30_bound_nonvacuous :
  let cfg := {| c_enabled := true; c_rate := 1; c_burst := 2; c_cap := 2 |} in
  let mid := [(0,1,0); (0,1,0); (0,2,0); (0,1,0); (NANO,1,0); (NANO,1,0)] in
  nondecr (map op_time mid) /\
  (forall e, In e (fst (trace cfg [] mid)) -> e_evicted e <> Some 1) /\
  count_admitted 1 (fst (trace cfg [] mid)) = 3.
Proof. cbv zeta. split; [unfold NANO; cbn; lia|]. split; [|vm_compute; reflexivity]. vm_compute. intros e H. repeat (destruct H as [<-|H]; [discriminate|]). contradiction. Qed.

(* A rejected request always carries a finite retry-after: a Duration, at most one token period
   when the rate is positive, Duration::MAX when no token will ever arrive. *)
Theorem C30_retry_finite : forall cfg pre es_pre st now ip ch st' e ns,
  c_enabled cfg = true -> 0 <= c_rate cfg -> 0 <= c_burst cfg ->
  trace cfg [] pre = (es_pre, st) ->
  check cfg st now ip ch = (st', e) -> e_res e = Limited ns ->
  0 <= ns <= DUR_MAX_NS /\
  (0 < c_rate cfg -> ns * c_rate cfg <= NANO) /\
  (c_rate cfg = 0 -> ns = DUR_MAX_NS).
Proof. exact limited_retry_finite. Qed.

(* ...and it is long enough: a client that comes back retry-after (+1 ns, the value is rounded
   down) later is admitted, provided the bucket can hold a token at all. *)
Theorem C30_retry_sufficient : forall cfg pre es_pre st now ip ch st' e ns now' ch' st'' e',
  c_enabled cfg = true -> 0 < c_rate cfg -> 1 <= c_burst cfg ->
  trace cfg [] pre = (es_pre, st) ->
  check cfg st now ip ch = (st', e) -> e_res e = Limited ns ->
  now + ns + 1 <= now' ->
  check cfg st' now' ip ch' = (st'', e') ->
  is_allowed (e_res e') = true.
Proof. exact retry_sufficient_reachable. Qed.

Example C30_retry_nonvacuous :
  let cfg := {| c_enabled := true; c_rate := 3; c_burst := 1; c_cap := 4 |} in
  e_res (snd (check cfg (snd (trace cfg [] [(0,1,0)])) 5 1 0)) = Limited 333333328.
Proof. vm_compute. reflexivity. Qed.

(* No panic: [check]/[trace] are total functions of the repaired code (every request gets an
   answer, for every configuration including rate 0 and burst 0) ... *)
Theorem C30_no_panic : forall cfg st ops,
  exists es st', trace cfg st ops = (es, st') /\ length es = length ops.
Proof. exact every_request_answered. Qed.

(* ... the repair changes nothing where the old code answered, and the old code
   (Duration::from_secs_f64) panicked exactly when rate = 0 and less than one token was left. *)
Theorem C30_repair_conservative : forall cfg b d,
  reset_after_unrepaired cfg b = Ok d -> reset_after cfg b = d.
Proof. exact reset_after_repair_conservative. Qed.

Theorem C30_unrepaired_panicked : forall cfg b,
  c_rate cfg = 0 -> b_nt b < NANO -> reset_after_unrepaired cfg b = Panic.
Proof. exact reset_after_unrepaired_panics. Qed.

(* Eviction only ever removes a tracked client whose last_update is the oldest. *)
Theorem C30_evicts_oldest : forall st ch v, victim st ch = Some v ->
  exists b, In (v, b) st /\ forall k b', In (k, b') st -> b_last b <= b_last b'.
Proof. exact victim_oldest. Qed.
