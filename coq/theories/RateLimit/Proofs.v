(* Lemmas about the rate-limiter model (C30). *)
From VP Require Import Base.Tactics RateLimit.Model.
Open Scope Z_scope.

Definition op_time (o : op) : Z := fst (fst o).

Definition is_allowed (r : result) : bool := match r with Allowed _ _ => true | Limited _ => false end.
Definition admitted_by (ip : Z) (e : entry) : Z := if (e_ip e =? ip) && is_allowed (e_res e) then 1 else 0.
Fixpoint count_admitted (ip : Z) (es : list entry) : Z :=
  match es with [] => 0 | e :: r => admitted_by ip e + count_admitted ip r end.

Fixpoint nondecr (l : list Z) : Prop :=
  match l with
  | a :: r => match r with b :: _ => a <= b | [] => True end /\ nondecr r
  | [] => True
  end.
Definition span (l : list Z) : Z := match l with [] => 0 | a :: _ => last l a - a end.

Definition nonneg (st : state) : Prop := Forall (fun e => 0 <= b_nt (snd e)) st.

(* tokens the client could use at time t if it asked now (pending refill included, clamped) *)
Definition phi (cfg : config) (ip : Z) (st : state) (t : Z) : Z :=
  match lookup ip st with
  | Some b => Z.min (c_burst cfg * NANO) (b_nt b + c_rate cfg * Z.max 0 (t - b_last b))
  | None => c_burst cfg * NANO
  end.

Lemma NANO_pos : 0 < NANO. Proof. reflexivity. Qed.

(* ---- association list ---- *)
Lemma lookup_remove_same : forall ip st, lookup ip (remove ip st) = None.
Proof.
  induction st as [|[k b] r IH]; cbn; auto.
  destruct (k =? ip) eqn:E; cbn; auto. rewrite E. exact IH.
Qed.

Lemma lookup_remove_other : forall ip j st, j <> ip -> lookup ip (remove j st) = lookup ip st.
Proof.
  induction st as [|[k b] r IH]; intros Hne; cbn; auto.
  destruct (k =? j) eqn:E; cbn.
  - assert (k = j) by lia. subst. destruct (j =? ip) eqn:E2; [lia|]. auto.
  - destruct (k =? ip); auto.
Qed.

Lemma lookup_set_same : forall ip b st, lookup ip (set ip b st) = Some b.
Proof. intros. unfold set. cbn. rewrite Z.eqb_refl. reflexivity. Qed.

Lemma lookup_set_other : forall ip j b st, j <> ip -> lookup ip (set j b st) = lookup ip (st).
Proof.
  intros ip j b st Hne. unfold set. cbn. destruct (j =? ip) eqn:E; [lia|].
  apply lookup_remove_other; auto.
Qed.

Lemma nonneg_remove : forall j st, nonneg st -> nonneg (remove j st).
Proof. intros j st H. unfold nonneg, remove in *. rewrite Forall_forall in *. intros x Hx. apply filter_In in Hx. apply H. tauto. Qed.

Lemma nonneg_set : forall j b st, nonneg st -> 0 <= b_nt b -> nonneg (set j b st).
Proof. intros j b st H Hb. unfold set. constructor; auto. apply nonneg_remove; auto. Qed.

Lemma nonneg_lookup : forall ip st b, nonneg st -> lookup ip st = Some b -> 0 <= b_nt b.
Proof.
  induction st as [|[k b0] r IH]; cbn; intros b H L; [discriminate|].
  inv H. destruct (k =? ip); [inv L; auto | eauto].
Qed.

(* ---- one bucket ---- *)
Lemma refill_nt_bounds : forall cfg b now,
  0 <= c_rate cfg -> 0 <= c_burst cfg -> 0 <= b_nt b ->
  0 <= b_nt (refill cfg b now) <= c_burst cfg * NANO.
Proof.
  intros cfg b now Hr Hb Hn. unfold refill; cbn [b_nt].
  assert (0 <= Z.max 0 (now - b_last b) * c_rate cfg) by (apply Z.mul_nonneg_nonneg; lia).
  pose proof NANO_pos. assert (0 <= c_burst cfg * NANO) by (apply Z.mul_nonneg_nonneg; lia). lia.
Qed.

Lemma try_consume_spec : forall cfg b now b1 ok,
  try_consume cfg b now = (b1, ok) ->
  b_last b1 = now /\
  b_nt (refill cfg b now) = b_nt b1 + (if ok then NANO else 0) /\
  (ok = true -> NANO <= b_nt (refill cfg b now)) /\ (ok = false -> b_nt b1 < NANO).
Proof.
  intros cfg b now b1 ok H. unfold try_consume in H.
  destruct (NANO <=? b_nt (refill cfg b now)) eqn:E; inv H; cbn [b_nt b_last]; repeat split; intros; try reflexivity; try discriminate; try lia;
    unfold refill in *; cbn [b_nt] in *; lia.
Qed.

Lemma try_consume_nonneg : forall cfg b now b1 ok,
  0 <= c_rate cfg -> 0 <= c_burst cfg -> 0 <= b_nt b ->
  try_consume cfg b now = (b1, ok) -> 0 <= b_nt b1 <= c_burst cfg * NANO.
Proof.
  intros cfg b now b1 ok Hr Hb Hn H.
  pose proof (refill_nt_bounds cfg b now Hr Hb Hn). pose proof NANO_pos.
  destruct (try_consume_spec _ _ _ _ _ H) as (_ & E & Hok & _). destruct ok; [specialize (Hok eq_refl)|]; lia.
Qed.

(* ---- check: what it does to the state, seen from one client ---- *)
Definition wf_cfg (cfg : config) : Prop := c_enabled cfg = true /\ 0 <= c_rate cfg /\ 0 <= c_burst cfg.

Lemma bucket_new_nonneg : forall cfg now, 0 <= c_burst cfg -> 0 <= b_nt (bucket_new cfg now).
Proof. intros. cbn. pose proof NANO_pos. apply Z.mul_nonneg_nonneg; lia. Qed.

Lemma check_nonneg : forall cfg st now ip ch st' e,
  0 <= c_rate cfg -> 0 <= c_burst cfg -> nonneg st -> check cfg st now ip ch = (st', e) -> nonneg st'.
Proof.
  intros cfg st now ip ch st' e Hr Hb Hn H. unfold check in H.
  destruct (negb (c_enabled cfg)); [inv H; auto|].
  set (ev := match lookup ip st with Some _ => None | None => if c_cap cfg <=? Z.of_nat (length st) then victim st ch else None end) in *.
  set (st1 := match ev with Some v => remove v st | None => st end) in *.
  assert (N1 : nonneg st1) by (subst st1; destruct ev; auto using nonneg_remove).
  set (b0 := match lookup ip st1 with Some b => b | None => bucket_new cfg now end) in *.
  assert (N0 : 0 <= b_nt b0).
  { subst b0. destruct (lookup ip st1) eqn:L; [eapply nonneg_lookup; eauto | apply bucket_new_nonneg; auto]. }
  destruct (try_consume cfg b0 now) as [b1 ok] eqn:T. inv H.
  apply nonneg_set; auto. eapply try_consume_nonneg in T; eauto. lia.
Qed.

Lemma mul_max_step : forall r t t' l, 0 <= r -> t <= t' ->
  r * Z.max 0 (t' - l) <= r * Z.max 0 (t - l) + r * (t' - t).
Proof. intros. rewrite <- Z.mul_add_distr_l. apply Z.mul_le_mono_nonneg_l; lia. Qed.

Lemma phi_mono : forall cfg ip st t t', 0 <= c_rate cfg -> t <= t' ->
  phi cfg ip st t' <= phi cfg ip st t + c_rate cfg * (t' - t).
Proof.
  intros cfg ip st t t' Hr Ht. unfold phi. destruct (lookup ip st) as [b|].
  - pose proof (mul_max_step (c_rate cfg) t t' (b_last b) Hr Ht).
    assert (0 <= c_rate cfg * (t' - t)) by (apply Z.mul_nonneg_nonneg; lia). lia.
  - assert (0 <= c_rate cfg * (t' - t)) by (apply Z.mul_nonneg_nonneg; lia). lia.
Qed.

(* The potential argument, one request: what the client [ip] is granted now plus what it could
   still use afterwards is at most what it could use before plus rate * elapsed. *)
Lemma check_potential : forall cfg st t t' j ch st' e ip,
  wf_cfg cfg -> t <= t' ->
  check cfg st t' j ch = (st', e) -> e_evicted e <> Some ip ->
  NANO * admitted_by ip e + phi cfg ip st' t' <= phi cfg ip st t + c_rate cfg * (t' - t).
Proof.
  intros cfg st t t' j ch st' e ip (Hen & Hr & Hb) Ht H Hev. unfold check in H. rewrite Hen in H. cbn [negb] in H.
  set (ev := match lookup j st with Some _ => None | None => if c_cap cfg <=? Z.of_nat (length st) then victim st ch else None end) in *.
  set (st1 := match ev with Some v => remove v st | None => st end) in *.
  set (b0 := match lookup j st1 with Some b => b | None => bucket_new cfg t' end) in *.
  destruct (try_consume cfg b0 t') as [b1 ok] eqn:T. inv H. cbn [e_evicted] in Hev.
  assert (L1 : lookup ip st1 = lookup ip st).
  { subst st1. destruct ev as [v|]; auto. apply lookup_remove_other. congruence. }
  pose proof (phi_mono cfg ip st t t' Hr Ht) as Hmono.
  destruct (Z.eq_dec j ip) as [->|Hne].
  - (* the client's own request *)
    unfold admitted_by; cbn [e_ip e_res]. rewrite Z.eqb_refl. cbn [andb].
    destruct (try_consume_spec _ _ _ _ _ T) as (Hl & E & _ & _).
    assert (Hphi' : phi cfg ip (set ip b1 st1) t' <= b_nt b1).
    { unfold phi. rewrite lookup_set_same. rewrite Hl, Z.sub_diag. cbn [Z.max]. lia. }
    assert (Hre : b_nt (refill cfg b0 t') <= phi cfg ip st t').
    { unfold phi. rewrite <- L1. subst b0. destruct (lookup ip st1) as [b|].
      - unfold refill; cbn [b_nt]. lia.
      - unfold refill, bucket_new; cbn [b_nt b_last]. lia. }
    assert (Had : (if is_allowed (if ok then Allowed (remaining b1) (reset_after cfg b1) else Limited (reset_after cfg b1)) then 1 else 0)
                  = (if ok then 1 else 0)) by (destruct ok; reflexivity).
    rewrite Had. destruct ok; lia.
  - (* somebody else's request: the client's bucket is untouched *)
    unfold admitted_by; cbn [e_ip]. destruct (j =? ip) eqn:E; [lia|]. cbn [andb].
    assert (phi cfg ip (set j b1 st1) t' = phi cfg ip st t') as ->.
    { unfold phi. rewrite lookup_set_other by auto. rewrite L1. reflexivity. }
    lia.
Qed.

(* ---- traces ---- *)
Lemma trace_app : forall cfg a b st ea sa eb sb,
  trace cfg st a = (ea, sa) -> trace cfg sa b = (eb, sb) -> trace cfg st (a ++ b) = ((ea ++ eb)%list, sb).
Proof.
  induction a as [|[[t ip] ch] r IH]; intros b st ea sa eb sb Ha Hb; cbn in *.
  - inv Ha. auto.
  - destruct (check cfg st t ip ch) as [st1 e] eqn:C. destruct (trace cfg st1 r) as [es s2] eqn:T. inv Ha.
    erewrite IH; eauto. reflexivity.
Qed.

Lemma trace_nonneg : forall cfg ops st es st',
  0 <= c_rate cfg -> 0 <= c_burst cfg -> nonneg st -> trace cfg st ops = (es, st') -> nonneg st'.
Proof.
  induction ops as [|[[t ip] ch] r IH]; intros st es st' Hr Hb Hn H; cbn in H.
  - inv H; auto.
  - destruct (check cfg st t ip ch) as [st1 e] eqn:C. destruct (trace cfg st1 r) as [es' s2] eqn:T. inv H.
    apply (IH st1 es' st' Hr Hb); [eapply check_nonneg; eauto | exact T].
Qed.

Lemma trace_length : forall cfg ops st es st', trace cfg st ops = (es, st') -> length es = length ops.
Proof.
  induction ops as [|[[t ip] ch] r IH]; intros st es st' H; cbn in H.
  - inv H; auto.
  - destruct (check cfg st t ip ch) as [st1 e] eqn:C. destruct (trace cfg st1 r) as [es' s2] eqn:T. inv H.
    cbn. f_equal. eauto.
Qed.

(* time of the last request, starting from t0 *)
Definition end_time (t0 : Z) (ops : list op) : Z := last (map op_time ops) t0.

Lemma last_default : forall (l : list Z) b d d', last (b :: l) d = last (b :: l) d'.
Proof. induction l as [|c l IH]; intros; [reflexivity|]. cbn [last] in *. apply IH. Qed.
Lemma last_cons : forall (l : list Z) a d, last (a :: l) d = last l a.
Proof. destruct l as [|b l]; intros; [reflexivity|]. change (last (a :: b :: l) d) with (last (b :: l) d). apply last_default. Qed.
Lemma end_time_cons : forall t0 t j ch r, end_time t0 ((t, j, ch) :: r) = end_time t r.
Proof. intros. unfold end_time. cbn [map op_time fst]. apply last_cons. Qed.

Lemma segment_potential : forall cfg ip ops st t0 es st',
  wf_cfg cfg -> nondecr (t0 :: map op_time ops) ->
  trace cfg st ops = (es, st') ->
  (forall e, In e es -> e_evicted e <> Some ip) ->
  NANO * count_admitted ip es + phi cfg ip st' (end_time t0 ops)
    <= phi cfg ip st t0 + c_rate cfg * (end_time t0 ops - t0).
Proof.
  induction ops as [|[[t j] ch] r IH]; intros st t0 es st' W Hs H Hev.
  - cbn in H. inv H. unfold end_time; cbn. lia.
  - cbn in H. destruct (check cfg st t j ch) as [st1 e] eqn:C. destruct (trace cfg st1 r) as [es' s2] eqn:T. inv H.
    cbn [map op_time fst nondecr] in Hs. destruct Hs as (H0 & Hs'). unfold op_time in H0; cbn [fst] in H0.
    pose proof (check_potential cfg st t0 t j ch st1 e ip W H0 C (Hev e (or_introl eq_refl))) as P1.
    pose proof (IH st1 t es' st' W Hs' T (fun e' He' => Hev e' (or_intror He'))) as P2.
    rewrite end_time_cons. cbn [count_admitted].
    replace (c_rate cfg * (end_time t r - t0)) with (c_rate cfg * (t - t0) + c_rate cfg * (end_time t r - t)) by ring.
    lia.
Qed.

Lemma phi_nonneg : forall cfg ip st t, 0 <= c_rate cfg -> 0 <= c_burst cfg -> nonneg st -> 0 <= phi cfg ip st t.
Proof.
  intros cfg ip st t Hr Hb Hn. unfold phi. pose proof NANO_pos.
  assert (0 <= c_burst cfg * NANO) by (apply Z.mul_nonneg_nonneg; lia).
  destruct (lookup ip st) as [b|] eqn:L; auto.
  pose proof (nonneg_lookup _ _ _ Hn L). assert (0 <= c_rate cfg * Z.max 0 (t - b_last b)) by (apply Z.mul_nonneg_nonneg; lia). lia.
Qed.

Lemma phi_le_burst : forall cfg ip st t, phi cfg ip st t <= c_burst cfg * NANO.
Proof. intros. unfold phi. destruct (lookup ip st); lia. Qed.

Lemma nondecr_app_r : forall a b, nondecr (a ++ b) -> nondecr b.
Proof. induction a as [|x a IH]; cbn; intros b H; auto. apply IH. tauto. Qed.

Lemma span_end_time : forall t j ch r, span (map op_time ((t, j, ch) :: r)) = end_time t r - t.
Proof. intros. unfold span, end_time. cbn [map op_time fst]. rewrite last_cons. reflexivity. Qed.

(* Window bound from any state with non-negative token counts. *)
Lemma bound_from : forall cfg st mid es st' ip,
  wf_cfg cfg -> nonneg st -> nondecr (map op_time mid) ->
  trace cfg st mid = (es, st') ->
  (forall e, In e es -> e_evicted e <> Some ip) ->
  count_admitted ip es * NANO <= c_burst cfg * NANO + c_rate cfg * span (map op_time mid).
Proof.
  intros cfg st mid es st' ip W Hn Hs H Hev. destruct W as (Hen & Hr & Hb).
  destruct mid as [|[[t j] ch] r].
  - cbn in H. inv H. cbn. pose proof NANO_pos. assert (0 <= c_burst cfg * NANO) by (apply Z.mul_nonneg_nonneg; lia). lia.
  - rewrite span_end_time.
    assert (Hs0 : nondecr (t :: map op_time ((t, j, ch) :: r))).
    { cbn [nondecr map op_time fst] in *. split; [lia|]. exact Hs. }
    pose proof (segment_potential cfg ip ((t, j, ch) :: r) st t es st' (conj Hen (conj Hr Hb)) Hs0 H Hev) as P.
    rewrite end_time_cons in P.
    pose proof (phi_le_burst cfg ip st t).
    pose proof (phi_nonneg cfg ip st' (end_time t r) Hr Hb (trace_nonneg _ _ _ _ _ Hr Hb Hn H)).
    lia.
Qed.

Lemma nonneg_nil : nonneg []. Proof. constructor. Qed.

(* ---- retry-after ---- *)
Lemma reset_after_range : forall cfg b, 0 <= reset_after cfg b <= DUR_MAX_NS.
Proof.
  intros. unfold reset_after. destruct (NANO <=? b_nt b); [cbv; split; discriminate|].
  unfold dur_try_from_secs, secs_div. destruct (c_rate cfg =? 0); [cbv; split; discriminate|].
  destruct ((0 <=? (NANO - b_nt b) / c_rate cfg) && ((NANO - b_nt b) / c_rate cfg <=? DUR_MAX_NS)) eqn:E; [lia | cbv; split; discriminate].
Qed.

Lemma reset_after_pos_rate : forall cfg b, 0 < c_rate cfg -> 0 <= b_nt b -> b_nt b < NANO ->
  reset_after cfg b = (NANO - b_nt b) / c_rate cfg /\ reset_after cfg b * c_rate cfg <= NANO.
Proof.
  intros cfg b Hr Hn Hl. unfold reset_after. destruct (NANO <=? b_nt b) eqn:E; [lia|].
  unfold secs_div. destruct (c_rate cfg =? 0) eqn:E0; [lia|]. unfold dur_try_from_secs.
  assert (0 <= (NANO - b_nt b) / c_rate cfg) by (apply Z.div_pos; lia).
  assert ((NANO - b_nt b) / c_rate cfg * c_rate cfg <= NANO - b_nt b) by (rewrite Z.mul_comm; apply Z.mul_div_le; lia).
  assert ((NANO - b_nt b) / c_rate cfg <= NANO).
  { apply Z.le_trans with ((NANO - b_nt b) / 1); [|rewrite Z.div_1_r; lia]. apply Z.div_le_compat_l; lia. }
  assert (NANO <= DUR_MAX_NS) by (cbv; discriminate).
  destruct ((0 <=? (NANO - b_nt b) / c_rate cfg) && ((NANO - b_nt b) / c_rate cfg <=? DUR_MAX_NS)) eqn:E1; [split; lia | lia].
Qed.

Lemma reset_after_zero_rate : forall cfg b, c_rate cfg = 0 -> b_nt b < NANO -> reset_after cfg b = DUR_MAX_NS.
Proof.
  intros cfg b Hr Hl. unfold reset_after. destruct (NANO <=? b_nt b) eqn:E; [lia|].
  unfold secs_div. rewrite Hr. reflexivity.
Qed.

(* the repaired reset_after agrees with the old one wherever the old one did not panic,
   and the old one panicked exactly on a zero rate with less than one token *)
Lemma reset_after_repair_conservative : forall cfg b d, reset_after_unrepaired cfg b = Ok d -> reset_after cfg b = d.
Proof.
  intros cfg b d. unfold reset_after_unrepaired, reset_after, dur_from_secs.
  destruct (NANO <=? b_nt b); [intros H; inv H; auto|].
  destruct (dur_try_from_secs (secs_div (NANO - b_nt b) (c_rate cfg))); intros H; inv H; auto.
Qed.

Lemma reset_after_unrepaired_panics : forall cfg b, c_rate cfg = 0 -> b_nt b < NANO -> reset_after_unrepaired cfg b = Panic.
Proof.
  intros cfg b Hr Hl. unfold reset_after_unrepaired. destruct (NANO <=? b_nt b) eqn:E; [lia|].
  unfold secs_div. rewrite Hr. reflexivity.
Qed.

(* what a Limited answer looks like *)
Lemma check_limited : forall cfg st now ip ch st' e ns,
  wf_cfg cfg -> nonneg st -> check cfg st now ip ch = (st', e) -> e_res e = Limited ns ->
  exists b, lookup ip st' = Some b /\ b_last b = now /\ 0 <= b_nt b < NANO /\ b_nt b <= c_burst cfg * NANO /\ ns = reset_after cfg b.
Proof.
  intros cfg st now ip ch st' e ns (Hen & Hr & Hb) Hn H Hres. unfold check in H. rewrite Hen in H. cbn [negb] in H.
  set (ev := match lookup ip st with Some _ => None | None => if c_cap cfg <=? Z.of_nat (length st) then victim st ch else None end) in *.
  set (st1 := match ev with Some v => remove v st | None => st end) in *.
  assert (N1 : nonneg st1) by (subst st1; destruct ev; auto using nonneg_remove).
  set (b0 := match lookup ip st1 with Some b => b | None => bucket_new cfg now end) in *.
  assert (N0 : 0 <= b_nt b0).
  { subst b0. destruct (lookup ip st1) eqn:L; [eapply nonneg_lookup; eauto | apply bucket_new_nonneg; auto]. }
  destruct (try_consume cfg b0 now) as [b1 ok] eqn:T. inv H. cbn [e_res] in Hres.
  destruct ok; [discriminate|]. inv Hres.
  exists b1. rewrite lookup_set_same.
  destruct (try_consume_spec _ _ _ _ _ T) as (Hl & E & _ & Hlt).
  pose proof (try_consume_nonneg _ _ _ _ _ Hr Hb N0 T). specialize (Hlt eq_refl). repeat split; auto; lia.
Qed.

(* waiting for the announced time is enough (when the bucket can hold a token at all) *)
Lemma retry_sufficient : forall cfg st now ip ch st' e ns now' ch' st'' e',
  wf_cfg cfg -> 0 < c_rate cfg -> 1 <= c_burst cfg -> nonneg st ->
  check cfg st now ip ch = (st', e) -> e_res e = Limited ns ->
  now + ns + 1 <= now' ->
  check cfg st' now' ip ch' = (st'', e') ->
  is_allowed (e_res e') = true.
Proof.
  intros cfg st now ip ch st' e ns now' ch' st'' e' W Hr1 Hb1 Hn H Hres Hwait H'.
  destruct (check_limited _ _ _ _ _ _ _ _ W Hn H Hres) as (b & L & Hl & (Hn0 & Hlt) & Hle & ->).
  destruct W as (Hen & Hr & Hb).
  destruct (reset_after_pos_rate cfg b Hr1 Hn0 Hlt) as (Ens & _).
  unfold check in H'. rewrite Hen in H'. cbn [negb] in H'. rewrite L in H'. rewrite L in H'.
  destruct (try_consume cfg b now') as [b1 ok] eqn:T. inv H'. cbn [e_res].
  destruct ok; [reflexivity|]. exfalso.
  unfold try_consume in T. destruct (NANO <=? b_nt (refill cfg b now')) eqn:E; [inv T|].
  unfold refill in E; cbn [b_nt] in E.
  assert (NANO <= c_burst cfg * NANO) by (pose proof NANO_pos; nia).
  set (q := (NANO - b_nt b) / c_rate cfg) in *.
  assert (NANO - b_nt b < c_rate cfg * (q + 1)).
  { subst q. pose proof (Z.mul_succ_div_gt (NANO - b_nt b) (c_rate cfg) Hr1). lia. }
  assert (c_rate cfg * (q + 1) <= Z.max 0 (now' - b_last b) * c_rate cfg).
  { rewrite Z.mul_comm. apply Z.mul_le_mono_nonneg_r; lia. }
  lia.
Qed.

Lemma span_in_window : forall (l : list Z) a T, 0 <= T -> (forall x, In x l -> a <= x <= a + T) -> span l <= T.
Proof.
  intros l a T HT Hw. destruct l as [|x r]; [cbn; lia|].
  unfold span. pose proof (Hw x (or_introl eq_refl)).
  assert (In (last (x :: r) x) (x :: r)).
  { destruct (@exists_last _ (x :: r)) as (l' & y & E); [congruence|].
    rewrite E. rewrite last_last. apply in_or_app. right. left. reflexivity. }
  pose proof (Hw _ H0). lia.
Qed.

Lemma window_bound : forall cfg pre mid ip es_pre st1 es_mid st2 a T,
  c_enabled cfg = true -> 0 <= c_rate cfg -> 0 <= c_burst cfg ->
  trace cfg [] pre = (es_pre, st1) ->
  trace cfg st1 mid = (es_mid, st2) ->
  nondecr (map op_time mid) ->
  0 <= T -> (forall o, In o mid -> a <= op_time o <= a + T) ->
  (forall e, In e es_mid -> e_evicted e <> Some ip) ->
  count_admitted ip es_mid * NANO <= c_burst cfg * NANO + c_rate cfg * T.
Proof.
  intros cfg pre mid ip es_pre st1 es_mid st2 a T Hen Hr Hb Hpre Hmid Hs HT Hwin Hev.
  assert (Hn : nonneg st1) by (eapply trace_nonneg; eauto using nonneg_nil).
  pose proof (bound_from cfg st1 mid es_mid st2 ip (conj Hen (conj Hr Hb)) Hn Hs Hmid Hev) as B.
  assert (S : span (map op_time mid) <= T).
  { apply span_in_window with a; auto. intros x Hx. apply in_map_iff in Hx. destruct Hx as (o & <- & Ho). auto. }
  assert (c_rate cfg * span (map op_time mid) <= c_rate cfg * T) by (apply Z.mul_le_mono_nonneg_l; lia).
  lia.
Qed.

Lemma limited_retry_finite : forall cfg pre es_pre st now ip ch st' e ns,
  c_enabled cfg = true -> 0 <= c_rate cfg -> 0 <= c_burst cfg ->
  trace cfg [] pre = (es_pre, st) ->
  check cfg st now ip ch = (st', e) -> e_res e = Limited ns ->
  0 <= ns <= DUR_MAX_NS /\
  (0 < c_rate cfg -> ns * c_rate cfg <= NANO) /\
  (c_rate cfg = 0 -> ns = DUR_MAX_NS).
Proof.
  intros cfg pre es_pre st now ip ch st' e ns Hen Hr Hb Hpre H Hres.
  assert (Hn : nonneg st) by (eapply trace_nonneg; eauto using nonneg_nil).
  destruct (check_limited _ _ _ _ _ _ _ _ (conj Hen (conj Hr Hb)) Hn H Hres) as (b & L & Hl & (Hn0 & Hlt) & Hle & ->).
  split; [apply reset_after_range|]. split.
  - intros Hp. apply (reset_after_pos_rate cfg b Hp Hn0 Hlt).
  - intros Hz. apply reset_after_zero_rate; auto.
Qed.

Lemma retry_sufficient_reachable : forall cfg pre es_pre st now ip ch st' e ns now' ch' st'' e',
  c_enabled cfg = true -> 0 < c_rate cfg -> 1 <= c_burst cfg ->
  trace cfg [] pre = (es_pre, st) ->
  check cfg st now ip ch = (st', e) -> e_res e = Limited ns ->
  now + ns + 1 <= now' ->
  check cfg st' now' ip ch' = (st'', e') ->
  is_allowed (e_res e') = true.
Proof.
  intros cfg pre es_pre st now ip ch st' e ns now' ch' st'' e' Hen Hr Hb Hpre H Hres Hw H'.
  assert (Hn : nonneg st) by (eapply trace_nonneg; eauto using nonneg_nil; lia).
  eapply retry_sufficient with (st := st) (now := now); eauto. repeat split; auto; lia.
Qed.

Lemma every_request_answered : forall cfg st ops, exists es st', trace cfg st ops = (es, st') /\ length es = length ops.
Proof.
  intros. destruct (trace cfg st ops) as [es st'] eqn:T. exists es, st'. split; auto. eapply trace_length; eauto.
Qed.

(* the eviction victim is a tracked client other than the requester, with the oldest last_update *)
Lemma first_with_last_in : forall m st k, first_with_last m st = Some k -> exists b, In (k, b) st /\ b_last b = m.
Proof.
  induction st as [|[k0 b0] r IH]; cbn; intros k H; [discriminate|].
  destruct (b_last b0 =? m) eqn:E.
  - inv H. exists b0. split; auto. lia.
  - destruct (IH _ H) as (b & I & L). exists b. auto.
Qed.
Lemma lookup_in : forall ip st b, lookup ip st = Some b -> In (ip, b) st.
Proof.
  induction st as [|[k0 b0] r IH]; cbn; intros b H; [discriminate|].
  destruct (k0 =? ip) eqn:E; [inv H; left; f_equal; lia | right; auto].
Qed.
Lemma min_last_le : forall st m k b, min_last st = Some m -> In (k, b) st -> m <= b_last b.
Proof.
  induction st as [|[k0 b0] r IH]; cbn; intros m k b H I; [contradiction|].
  destruct (min_last r) as [m'|] eqn:M.
  - inv H. destruct I as [I|I]; [inv I; lia|]. pose proof (IH _ _ _ eq_refl I). lia.
  - inv H. destruct I as [I|I]; [inv I; lia|]. destruct r as [|[k1 b1] r']; [contradiction|]. cbn in M. destruct (min_last r'); discriminate.
Qed.
Lemma victim_oldest : forall st ch v, victim st ch = Some v ->
  exists b, In (v, b) st /\ forall k b', In (k, b') st -> b_last b <= b_last b'.
Proof.
  intros st ch v H. unfold victim in H. destruct (min_last st) as [m|] eqn:M; [|discriminate].
  assert (HF : forall k, first_with_last m st = Some k -> exists b, In (k, b) st /\ forall k' b', In (k', b') st -> b_last b <= b_last b').
  { intros k F. destruct (first_with_last_in _ _ _ F) as (b & I & L). exists b. split; auto. intros. rewrite L. eapply min_last_le; eauto. }
  destruct (lookup ch st) as [b|] eqn:L; auto.
  destruct (b_last b =? m) eqn:E; auto. inv H. exists b. split; [apply lookup_in; auto|].
  intros k b' I. assert (Eb : b_last b = m) by lia. rewrite Eb. eapply min_last_le; eauto.
Qed.
