(* Interpreter + rendering for the correspondence check of C30 (evaluated by vm_compute). *)
From Coq Require Import String.
From VP Require Import Base.Tactics Base.Render RateLimit.Model.
Open Scope string_scope.
Open Scope Z_scope.

Definition str_of_bucket (e : Z * bucket) : string :=
  str_of_Z (fst e) ++ ":" ++ str_of_Z (b_nt (snd e)) ++ ":" ++ str_of_Z (b_last (snd e)).

Definition str_of_entry (e : entry) (st : state) : string :=
  (match e_res e with
   | Allowed rem ns => "A," ++ str_of_Z rem ++ "," ++ str_of_Z ns
   | Limited ns => "L,0," ++ str_of_Z ns
   end) ++ "," ++ str_opt str_of_Z (e_evicted e) ++ "," ++ str_of_Z (e_unclamped e)
  ++ "|" ++ join ";" (map str_of_bucket st).

Fixpoint run (cfg : config) (st : state) (ops : list op) : list string :=
  match ops with
  | [] => []
  | (t, ip, ch) :: r =>
    let '(st1, e) := check cfg st t ip ch in
    str_of_entry e st1 :: run cfg st1 r
  end.

(* one case: config fields + op list -> one line, steps separated by '#' *)
Definition rl_case (enabled : bool) (rate burst cap : Z) (ops : list op) : string :=
  join "#" (run {| c_enabled := enabled; c_rate := rate; c_burst := burst; c_cap := cap |} [] ops).
