(* Executable model of crates/varpulis-cluster/src/rate_limit.rs (token bucket + per-IP map).

   Units.  Time is the virtual clock in nanoseconds ([Z]).  Token counts are kept in
   nano-tokens ([b_nt] = tokens * 10^9): rates are whole tokens per second and times whole
   nanoseconds, so every token count the code can reach is a multiple of 10^-9 and this
   fixed-point representation is the *exact* real-number semantics of the f64 formulas
   (the Rust uses f64; the difference is rounding error, see the check's tolerance rules).

   Rust                                   model
   ------------------------------------   ---------------------------
   RateLimitConfig                        config
   TokenBucket {tokens,last_update,..}    bucket (max_tokens/refill_rate are read from config)
   TokenBucket::new                       bucket_new
   TokenBucket::refill                    refill          (duration_since saturates at 0)
   TokenBucket::try_consume               try_consume
   TokenBucket::remaining                 remaining       (f64 as u32: floor, saturating)
   TokenBucket::reset_after               reset_after     (division by refill_rate, then
                                                           Duration::try_from_secs_f64(..).unwrap_or(Duration::MAX))
   Duration::from_secs_f64                dur_from_secs   (panics on non-finite: the pre-fix code path)
   RateLimiter::check                     check           (HashMap = association list; the victim among
                                                           equally old buckets depends on HashMap iteration
                                                           order, so it is an input: [choice])
   No proofs in this file. *)
From VP Require Import Base.Tactics.
Open Scope Z_scope.

Definition NANO : Z := 1000000000.
Definition U32_MAX : Z := 4294967295.
(* Duration::MAX = u64::MAX seconds + 999_999_999 ns *)
Definition DUR_MAX_NS : Z := 18446744073709551615 * NANO + 999999999.

Record config := { c_enabled : bool; c_rate : Z; c_burst : Z; c_cap : Z }.
Record bucket := { b_nt : Z; b_last : Z }.
Definition state := list (Z * bucket).          (* client id -> bucket *)

(* ---- f64 seconds as far as the code needs them: a finite non-negative number of ns, or +inf/NaN *)
Inductive xsecs := XFin (ns : Z) | XNonFinite.
(* Duration (ns) *)
Inductive outcome (A : Type) := Ok (a : A) | Panic.
Arguments Ok {A} a. Arguments Panic {A}.

(* tokens_needed / refill_rate, in ns;  x / 0.0 = inf for x > 0 *)
Definition secs_div (needed_nt rate : Z) : xsecs :=
  if rate =? 0 then XNonFinite else XFin (needed_nt / rate).

(* Duration::try_from_secs_f64: Err on negative, non-finite, overflow *)
Definition dur_try_from_secs (x : xsecs) : option Z :=
  match x with
  | XFin ns => if (0 <=? ns) && (ns <=? DUR_MAX_NS) then Some ns else None
  | XNonFinite => None
  end.
(* Duration::from_secs_f64 = try_from_secs_f64(..).expect(..) — the call the unrepaired code made *)
Definition dur_from_secs (x : xsecs) : outcome Z :=
  match dur_try_from_secs x with Some d => Ok d | None => Panic end.

Definition bucket_new (cfg : config) (now : Z) : bucket :=
  {| b_nt := c_burst cfg * NANO; b_last := now |}.

Definition refill (cfg : config) (b : bucket) (now : Z) : bucket :=
  let elapsed := Z.max 0 (now - b_last b) in
  {| b_nt := Z.min (b_nt b + elapsed * c_rate cfg) (c_burst cfg * NANO); b_last := now |}.

Definition try_consume (cfg : config) (b : bucket) (now : Z) : bucket * bool :=
  let b1 := refill cfg b now in
  if NANO <=? b_nt b1 then ({| b_nt := b_nt b1 - NANO; b_last := b_last b1 |}, true) else (b1, false).

Definition remaining (b : bucket) : Z := Z.min U32_MAX (Z.max 0 (b_nt b / NANO)).

Definition reset_after (cfg : config) (b : bucket) : Z :=
  if NANO <=? b_nt b then 0
  else match dur_try_from_secs (secs_div (NANO - b_nt b) (c_rate cfg)) with
       | Some d => d
       | None => DUR_MAX_NS
       end.

(* reset_after as it was before the repair (Duration::from_secs_f64): kept to state the old defect *)
Definition reset_after_unrepaired (cfg : config) (b : bucket) : outcome Z :=
  if NANO <=? b_nt b then Ok 0 else dur_from_secs (secs_div (NANO - b_nt b) (c_rate cfg)).

(* ---- the per-IP map ---- *)
Fixpoint lookup (ip : Z) (st : state) : option bucket :=
  match st with
  | [] => None
  | (k, b) :: r => if k =? ip then Some b else lookup ip r
  end.
Definition remove (ip : Z) (st : state) : state := filter (fun e => negb (fst e =? ip)) st.
Definition set (ip : Z) (b : bucket) (st : state) : state := (ip, b) :: remove ip st.

Fixpoint min_last (st : state) : option Z :=
  match st with
  | [] => None
  | (_, b) :: r => match min_last r with None => Some (b_last b) | Some m => Some (Z.min (b_last b) m) end
  end.
Fixpoint first_with_last (m : Z) (st : state) : option Z :=
  match st with
  | [] => None
  | (k, b) :: r => if b_last b =? m then Some k else first_with_last m r
  end.
(* buckets.iter().min_by_key(|(_, b)| b.last_update): some bucket of minimal last_update;
   which one among equals is decided by HashMap iteration order = [choice] (ignored unless it names one). *)
Definition victim (st : state) (choice : Z) : option Z :=
  match min_last st with
  | None => None
  | Some m =>
    match lookup choice st with
    | Some b => if b_last b =? m then Some choice else first_with_last m st
    | None => first_with_last m st
    end
  end.

Inductive result := Allowed (remaining : Z) (reset_ns : Z) | Limited (retry_ns : Z).

Record entry := { e_t : Z; e_ip : Z; e_res : result; e_evicted : option Z;
                  e_unclamped : Z (* tokens + elapsed*rate before .min(max_tokens); diagnostic only *) }.

Definition check (cfg : config) (st : state) (now ip choice : Z) : state * entry :=
  if negb (c_enabled cfg) then
    (st, {| e_t := now; e_ip := ip; e_res := Allowed U32_MAX 0; e_evicted := None; e_unclamped := 0 |})
  else
    let ev := match lookup ip st with
              | Some _ => None
              | None => if c_cap cfg <=? Z.of_nat (length st) then victim st choice else None
              end in
    let st1 := match ev with Some v => remove v st | None => st end in
    let b0 := match lookup ip st1 with Some b => b | None => bucket_new cfg now end in
    let '(b1, ok) := try_consume cfg b0 now in
    let res := if ok then Allowed (remaining b1) (reset_after cfg b1) else Limited (reset_after cfg b1) in
    (set ip b1 st1,
     {| e_t := now; e_ip := ip; e_res := res; e_evicted := ev;
        e_unclamped := b_nt b0 + Z.max 0 (now - b_last b0) * c_rate cfg |}).

(* one request = (virtual time, client, eviction tie-break) *)
Definition op := (Z * Z * Z)%type.

Fixpoint trace (cfg : config) (st : state) (ops : list op) : list entry * state :=
  match ops with
  | [] => ([], st)
  | (t, ip, ch) :: r =>
    let '(st1, e) := check cfg st t ip ch in
    let '(es, st2) := trace cfg st1 r in
    (e :: es, st2)
  end.
