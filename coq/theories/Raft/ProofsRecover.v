(* C36: after a crash at any point of a protocol-conforming history, reopening the RocksStore
   yields exactly the state machine of the committed log up to the persisted applied position. *)
From Coq Require Import String Sorting.Sorted.
From VP Require Import Base.Tactics Raft.Model Raft.ProofsSM Raft.ProofsLog.
Open Scope Z_scope.

(* ------------------------------------------------------------------ specification vocabulary *)
(* The committed log G: its k-th entry (from 0) has index k, as in openraft. *)
Definition ground_ok (G : list entry) : Prop :=
  forall k e, nth_error G k = Some e -> l_index (e_id e) = Z.of_nat k.
(* number of entries covered by a log id: entries 0..index *)
Definition acnt (o : option logid) : Z := match o with Some l => l_index l + 1 | None => 0 end.
Definition gprefix (G : list entry) (n : Z) : list entry := firstn (Z.to_nat n) G.
Definition glen (G : list entry) : Z := Z.of_nat (length G).
Definition scnt (d : disk) : Z := match d_snap d with Some sn => acnt (sn_last sn) | None => 0 end.
Definition rcnt (s : rstore) : Z := acnt (sv_applied (r_sm s)).

(* what openraft guarantees about the calls it makes (the caller's side of the contract) *)
Definition wf_op (G : list entry) (s : rstore) (o : op) : Prop :=
  match o with
  | OVote _ | OBuild => True
  | OAppend es => Forall (fun e => rcnt s <= l_index (e_id e)) es          (* never overwrites an applied entry *)
  | ODelete l => rcnt s <= l_index l                                        (* only uncommitted entries conflict *)
  | OPurge l => l_index l < scnt (r_disk s)                                 (* purge stays within the last snapshot *)
  | OApply es => es = firstn (length es) (skipn (Z.to_nat (rcnt s)) G) /\    (* the next committed entries, ... *)
                 Forall (fun e => log_get (l_index (e_id e)) (d_log (r_disk s)) = Some e) es   (* ... read from the log *)
  | OInstall sn => exists n, rcnt s < n <= glen G /\ sn = leader_snapshot (gprefix G n)   (* a later snapshot of the same log *)
  end.
Fixpoint wf_hist (G : list entry) (s : rstore) (ops : list op) : Prop :=
  match ops with
  | [] => True
  | o :: r => wf_op G s o /\ wf_hist G (rs_step s o) r
  end.

Definition Inv (G : list entry) (s : rstore) : Prop :=
  persisted s /\ log_sorted (d_log (r_disk s)) /\
  0 <= rcnt s <= glen G /\
  r_sm s = sm_apply (gprefix G (rcnt s)) smv0 /\
  (forall sn, d_snap (r_disk s) = Some sn ->
              exists n, 0 <= n <= rcnt s /\ sn = sm_snapshot (sm_apply (gprefix G n) smv0)) /\
  (forall i, scnt (r_disk s) <= i < rcnt s -> log_get i (d_log (r_disk s)) = nth_error G (Z.to_nat i)).

(* ------------------------------------------------------------------ list helpers *)
Lemma firstn_snoc : forall {A} (l : list A) m x, nth_error l m = Some x -> firstn (S m) l = firstn m l ++ [x].
Proof.
  induction l as [|a r IH]; intros m x H; destruct m; cbn in *; try discriminate.
  - now inv H.
  - f_equal. now apply IH.
Qed.

Lemma nth_error_firstn_lt : forall {A} (l : list A) n k, (k < n)%nat -> nth_error (firstn n l) k = nth_error l k.
Proof.
  induction l as [|a r IH]; intros n k H; destruct n, k; cbn; auto; try lia. apply IH. lia.
Qed.
Lemma nth_error_firstn_ge : forall {A} (l : list A) n k, (n <= k)%nat -> nth_error (firstn n l) k = None.
Proof.
  intros. apply nth_error_None. rewrite firstn_length. lia.
Qed.
Lemma nth_error_skipn_add : forall {A} (l : list A) m k, nth_error (skipn m l) k = nth_error l (m + k).
Proof.
  induction l as [|a r IH]; intros m k; destruct m; cbn; auto. now destruct k.
Qed.

Lemma firstn_split_add : forall {A} (l : list A) a b, firstn (a + b) l = firstn a l ++ firstn b (skipn a l).
Proof.
  induction l as [|x r IH]; intros a b; destruct a; cbn; auto.
  - now destruct b.
  - f_equal. apply IH.
Qed.

(* ------------------------------------------------------------------ applied position of a prefix *)
Lemma applied_prefix : forall G n, ground_ok G -> 0 <= n <= glen G ->
    acnt (sv_applied (sm_apply (gprefix G n) smv0)) = n.
Proof.
  intros G n Hg Hn. unfold gprefix, glen in *. rewrite sm_apply_applied.
  destruct (Z.to_nat n) as [|m] eqn:E.
  - cbn. lia.
  - assert (Hm : (m < length G)%nat) by lia.
    destruct (nth_error G m) as [x|] eqn:Ex; [|apply nth_error_None in Ex; lia].
    rewrite (firstn_snoc _ _ _ Ex), rev_app_distr. cbn [rev app acnt].
    rewrite (Hg _ _ Ex). lia.
Qed.

(* ------------------------------------------------------------------ sorted lists with the same elements are equal *)
Lemma sorted_ext : forall l1 l2 : log, log_sorted l1 -> log_sorted l2 ->
    (forall p, In p l1 <-> In p l2) -> l1 = l2.
Proof.
  induction l1 as [|a1 r1 IH]; intros l2 H1 H2 Hiff.
  - destruct l2 as [|a2 r2]; auto. exfalso. apply (Hiff a2). now left.
  - destruct l2 as [|a2 r2]. { exfalso. apply (Hiff a1). now left. }
    apply StronglySorted_inv in H1 as [Hs1 H4]. apply StronglySorted_inv in H2 as [Hs2 H6].
    rewrite Forall_forall in H4, H6.
    assert (a1 = a2).
    { destruct (proj1 (Hiff a1) (or_introl eq_refl)) as [E|E1]; auto.
      destruct (proj2 (Hiff a2) (or_introl eq_refl)) as [E|E2]; auto.
      apply H6 in E1. apply H4 in E2. unfold keys_lt in *. lia. }
    subst a2. f_equal. apply IH; auto. intros p. split; intros Hp.
    + destruct (proj1 (Hiff p) (or_intror Hp)) as [E|E]; auto. subst p. apply H4 in Hp. unfold keys_lt in Hp. lia.
    + destruct (proj2 (Hiff p) (or_intror Hp)) as [E|E]; auto. subst p. apply H6 in Hp. unfold keys_lt in Hp. lia.
Qed.

Lemma log_get_In : forall l i e, log_sorted l -> In (i, e) l -> log_get i l = Some e.
Proof.
  induction l as [|[k e'] r IH]; intros i e Hs Hin; [destruct Hin|].
  apply StronglySorted_inv in Hs as [Hs H2]. cbn [log_get].
  destruct Hin as [E|Hin].
  - inv E. now rewrite Z.eqb_refl.
  - destruct (i =? k) eqn:E; [|now apply IH].
    apply Z.eqb_eq in E. subst k. rewrite Forall_forall in H2. apply H2 in Hin. unfold keys_lt in Hin. cbn in Hin. lia.
Qed.
Lemma log_get_Some_In : forall l i e, log_get i l = Some e -> In (i, e) l.
Proof.
  induction l as [|[k e'] r IH]; intros i e H; cbn [log_get] in H; [discriminate|].
  destruct (i =? k) eqn:E.
  - apply Z.eqb_eq in E. subst k. inv H. now left.
  - right. now apply IH.
Qed.

(* ------------------------------------------------------------------ the slice of the log that recovery replays *)
Definition keyed (es : list entry) : log := map (fun e => (l_index (e_id e), e)) es.

Lemma keyed_sorted : forall es base,
    (forall k e, nth_error es k = Some e -> l_index (e_id e) = base + Z.of_nat k) -> log_sorted (keyed es).
Proof.
  induction es as [|x r IH]; intros base H; cbn [keyed map]; [constructor|].
  constructor.
  - apply (IH (base + 1)). intros k e Hk. rewrite (H (S k) e Hk). lia.
  - apply Forall_forall. intros p Hp. unfold keyed in Hp. apply in_map_iff in Hp. destruct Hp as [e [<- Hin]].
    apply In_nth_error in Hin. destruct Hin as [k Hk].
    unfold keys_lt. cbn [fst]. rewrite (H 0%nat x eq_refl), (H (S k) e Hk). lia.
Qed.

Lemma replay_keyed : forall es st, fold_left replay_entry (keyed es) st = apply_all (cmds_of es) st.
Proof.
  induction es as [|e r IH]; intros st; cbn [keyed map fold_left cmds_of]; auto.
  fold (keyed r). rewrite IH. unfold replay_entry. cbn [snd]. destruct (e_pl e); reflexivity.
Qed.

(* entries lo <= index < hi of the store's log are G's entries lo..hi-1 *)
Lemma replay_slice : forall G l lo hl, ground_ok G -> log_sorted l ->
    0 <= lo <= hl + 1 -> hl + 1 <= glen G ->
    (forall i, lo <= i < hl + 1 -> log_get i l = nth_error G (Z.to_nat i)) ->
    take_while (fun p => negb (hl <? fst p)) (drop_while (fun p => fst p <? lo) l) =
    keyed (firstn (Z.to_nat (hl + 1 - lo)) (skipn (Z.to_nat lo) G)).
Proof.
  intros G l lo hl Hg Hs Hlo Hhi Hget. set (hi := hl + 1) in *.
  rewrite (drop_while_filter (fun k => k <? lo)); auto; [|intros a b Hab Hb; lia].
  rewrite (take_while_filter (fun k => negb (hl <? k))); [|intros a b Hab Hb; lia|now apply filter_sorted].
  rewrite filter_filter_and.
  set (T := firstn (Z.to_nat (hi - lo)) (skipn (Z.to_nat lo) G)).
  assert (HT : forall k e, nth_error T k = Some e -> nth_error G (Z.to_nat lo + k) = Some e /\ (k < Z.to_nat (hi - lo))%nat).
  { intros k e Hk. unfold T in Hk. destruct (Nat.lt_ge_cases k (Z.to_nat (hi - lo))) as [Hlt|Hge].
    - rewrite nth_error_firstn_lt in Hk by exact Hlt. rewrite nth_error_skipn_add in Hk. auto.
    - rewrite nth_error_firstn_ge in Hk by exact Hge. discriminate. }
  apply sorted_ext.
  - now apply filter_sorted.
  - apply (keyed_sorted T lo). intros k e Hk. destruct (HT k e Hk) as [Hk' _]. rewrite (Hg _ _ Hk'). lia.
  - intros [i e]. rewrite filter_In. cbn [fst]. unfold keyed. rewrite in_map_iff. split.
    + intros [Hin Hr]. assert (Hi : lo <= i < hi) by lia.
      pose proof (log_get_In _ _ _ Hs Hin) as Hg1. rewrite (Hget i Hi) in Hg1.
      exists e. split; [f_equal; rewrite (Hg _ _ Hg1); lia|].
      apply (nth_error_In T (Z.to_nat i - Z.to_nat lo)). unfold T.
      rewrite nth_error_firstn_lt by lia. rewrite nth_error_skipn_add.
      replace (Z.to_nat lo + (Z.to_nat i - Z.to_nat lo))%nat with (Z.to_nat i) by lia. exact Hg1.
    + intros [e' [Heq Hin]]. inv Heq. apply In_nth_error in Hin. destruct Hin as [k Hk].
      destruct (HT k e Hk) as [Hk' Hlt]. pose proof (Hg _ _ Hk') as Hidx.
      assert (Hi : lo <= l_index (e_id e) < hi) by lia.
      split; [|lia]. apply log_get_Some_In. rewrite (Hget _ Hi). rewrite Hidx.
      rewrite Nat2Z.id. exact Hk'.
Qed.

(* ------------------------------------------------------------------ recovery under the invariant *)
Lemma sm_apply_prefix_split : forall G n a v, 0 <= n <= a ->
    sm_apply (gprefix G a) v = sm_apply (firstn (Z.to_nat (a - n)) (skipn (Z.to_nat n) G)) (sm_apply (gprefix G n) v).
Proof.
  intros G n a v H. unfold gprefix. rewrite <- sm_apply_app. f_equal.
  replace (Z.to_nat a) with (Z.to_nat n + Z.to_nat (a - n))%nat by lia. apply firstn_split_add.
Qed.

Lemma recover_state_inv : forall G d v, ground_ok G -> Inv G {| r_disk := d; r_sm := v |} ->
    recover_state d = sv_state v.
Proof.
  intros G d v Hg (Hp & Hs & Hr & Hsm & Hsn & Hlog). unfold rcnt, persisted in *. cbn [r_disk r_sm] in *.
  destruct Hp as [Hpa Hpm]. unfold recover_state. rewrite Hpa.
  destruct (sv_applied v) as [la|] eqn:Ela.
  2:{ cbn [acnt] in Hsm. rewrite Hsm. reflexivity. }
  cbn [acnt] in *.
  assert (Hgen : forall n, 0 <= n <= l_index la + 1 -> scnt d <= n ->
     fold_left replay_entry
       (take_while (fun p => negb (l_index la <? fst p)) (drop_while (fun p => fst p <? n) (d_log d)))
       (sv_state (sm_apply (gprefix G n) smv0)) = sv_state v).
  { intros n Hn Hge. rewrite (replay_slice G _ n (l_index la) Hg Hs); try lia.
    - rewrite replay_keyed, <- sm_apply_state, <- sm_apply_prefix_split by lia. now rewrite <- Hsm.
    - intros i Hi. apply Hlog. lia. }
  unfold scnt in Hgen. destruct (d_snap d) as [sn|] eqn:Esn.
  - destruct (Hsn sn eq_refl) as [n [Hn ->]]. cbn [sn_last sn_state sm_snapshot] in *.
    pose proof (applied_prefix G n Hg ltac:(lia)) as Hap.
    destruct (sv_applied (sm_apply (gprefix G n) smv0)) as [sid|] eqn:Esid; cbn [acnt] in *.
    + replace (l_index sid <=? l_index la) with true by lia.
      replace (l_index sid + 1) with n by lia. apply Hgen; lia.
    + subst n. apply (Hgen 0); lia.
  - apply (Hgen 0); lia.
Qed.

Lemma recover_under_inv : forall G s, ground_ok G -> Inv G s -> ropen (r_disk s) = s.
Proof.
  intros G [d v] Hg HI. pose proof (recover_state_inv G d v Hg HI) as Hst.
  destruct HI as ((Hpa & Hpm) & _). cbn [r_disk r_sm] in *. unfold ropen. f_equal.
  rewrite Hpa, Hpm, Hst. now destruct v.
Qed.

(* ------------------------------------------------------------------ the invariant is preserved by every conforming call *)
Lemma inv0 : forall G, Inv G rstore0.
Proof.
  intros G. unfold Inv. split; [exact persisted0|]. split; [constructor|].
  change (rcnt rstore0) with 0. split; [unfold glen; lia|]. split; [reflexivity|]. split.
  - intros sn H. discriminate H.
  - intros i Hi. unfold scnt in Hi. cbn in Hi. lia.
Qed.

Lemma es_chunk : forall (G es : list entry) a, (a <= length G)%nat ->
    es = firstn (length es) (skipn a G) ->
    (a + length es <= length G)%nat /\ (forall k, (k < length es)%nat -> nth_error es k = nth_error G (a + k)) /\
    firstn a G ++ es = firstn (a + length es) G.
Proof.
  intros G es a Ha H. assert (Hl : (length es <= length (skipn a G))%nat).
  { rewrite H at 1. rewrite firstn_length. lia. }
  rewrite skipn_length in Hl. split; [|split].
  - lia.
  - intros k Hk. rewrite H at 1. rewrite nth_error_firstn_lt by exact Hk. apply nth_error_skipn_add.
  - rewrite firstn_split_add. f_equal. exact H.
Qed.

Lemma inv_step : forall G s o, ground_ok G -> Inv G s -> wf_op G s o -> Inv G (rs_step s o).
Proof.
  intros G [d v] o Hg HI Hwf. pose proof HI as (Hp & Hs & Hr & Hsm & Hsn & Hlog).
  assert (Hp' := persisted_step _ o Hp).
  unfold rcnt, scnt in *. cbn [r_disk r_sm] in *.
  destruct o; cbn [wf_op] in Hwf; unfold Inv, rs_step, rcnt, scnt in *;
    cbn [op_write op_volatile r_disk r_sm d_with_vote d_with_log d_with_sm d_log d_snap] in *.
  - (* vote *) split; [exact Hp'|]. repeat split; auto; lia.
  - (* append *)
    split; [exact Hp'|]. repeat split; auto; try lia.
    + now apply log_append_sorted.
    + intros i Hi. rewrite log_get_append_other; [now apply Hlog|].
      eapply Forall_impl; [|exact Hwf]. intros e He. cbn in He. lia.
  - (* delete conflicting suffix *)
    split; [exact Hp'|]. repeat split; auto; try lia.
    + now apply take_while_sorted.
    + intros i Hi. rewrite rk_delete_since_eq by exact Hs. rewrite log_get_delete.
      replace (l_index l <=? i) with false by lia. now apply Hlog.
  - (* purge *)
    split; [exact Hp'|]. repeat split; auto; try lia.
    + now apply drop_while_sorted.
    + intros i Hi. rewrite rk_purge_upto_eq by exact Hs. rewrite log_get_purge.
      replace (i <=? l_index l) with false by lia. now apply Hlog.
  - (* apply *)
    destruct Hwf as [Hes Hin].
    assert (Hale : (Z.to_nat (acnt (sv_applied v)) <= length G)%nat) by (unfold glen in Hr; lia).
    destruct (es_chunk G es (Z.to_nat (acnt (sv_applied v))) Hale Hes) as (Hlen & Hnth & Happ).
    set (a := acnt (sv_applied v)) in *. set (a' := a + Z.of_nat (length es)).
    assert (Hv' : sm_apply es v = sm_apply (gprefix G a') smv0).
    { rewrite Hsm at 1. rewrite <- sm_apply_app. unfold gprefix. rewrite Happ. f_equal. f_equal. unfold a'. lia. }
    assert (Ha' : acnt (sv_applied (sm_apply es v)) = a').
    { rewrite Hv'. apply applied_prefix; auto. unfold a', glen. lia. }
    rewrite Ha'. split; [exact Hp'|]. repeat split; auto; try (unfold a', glen in *; lia).
    + intros sn Hsn'. destruct (Hsn sn Hsn') as [n [Hn Hx]]. exists n. split; auto. unfold a'. lia.
    + intros i Hi. destruct (Z.lt_ge_cases i a) as [Hlt|Hge]; [apply Hlog; lia|].
      set (k := (Z.to_nat i - Z.to_nat a)%nat).
      assert (Hk : (k < length es)%nat) by (unfold k, a' in *; lia).
      destruct (nth_error es k) as [e|] eqn:Ee; [|apply nth_error_None in Ee; lia].
      pose proof Ee as EG. rewrite (Hnth k Hk) in EG.
      replace (Z.to_nat a + k)%nat with (Z.to_nat i) in EG by (unfold k; lia).
      rewrite EG. rewrite Forall_forall in Hin. specialize (Hin e (nth_error_In _ _ Ee)).
      rewrite (Hg _ _ EG) in Hin. rewrite Z2Nat.id in Hin by lia. exact Hin.
  - (* build snapshot *)
    split; [exact Hp'|]. repeat split; auto; try lia.
    + intros sn Hsn'. inv Hsn'. exists (acnt (sv_applied v)). split; [lia|]. now rewrite Hsm at 1.
    + intros i Hi. cbn [sn_last sm_snapshot] in Hi. lia.
  - (* install snapshot *)
    destruct Hwf as [n [Hn ->]]. unfold leader_snapshot in *. rewrite sm_install_snapshot.
    pose proof (applied_prefix G n Hg ltac:(lia)) as Hap. rewrite Hap.
    split; [exact Hp'|]. repeat split; auto; try lia.
    + intros sn Hsn'. inv Hsn'. exists n. split; [lia|reflexivity].
    + intros i Hi. cbn [sn_last sm_snapshot] in Hi. lia.
Qed.

Lemma inv_run : forall G ops s, ground_ok G -> Inv G s -> wf_hist G s ops -> Inv G (rs_run ops s).
Proof.
  induction ops as [|o r IH]; intros s Hg HI Hwf; cbn [rs_run fold_left]; auto.
  destruct Hwf as [Hw Hr]. apply IH; auto. now apply inv_step.
Qed.

(* every disk a crash can leave is the disk of a state satisfying the invariant *)
Lemma crash_disks_inv : forall G ops s d, ground_ok G -> Inv G s -> wf_hist G s ops ->
    In d (crash_disks ops s) -> exists s', Inv G s' /\ r_disk s' = d.
Proof.
  induction ops as [|o r IH]; intros s d Hg HI Hwf Hin; cbn [crash_disks] in Hin.
  - destruct Hin as [<-|[]]. now exists s.
  - destruct Hin as [<-|Hin]; [now exists s|]. destruct Hwf as [Hw Hr].
    apply (IH (rs_step s o)); auto. now apply inv_step.
Qed.

Lemma recover_after_crash : forall G ops d, ground_ok G -> wf_hist G rstore0 ops ->
    In d (crash_disks ops rstore0) ->
    r_disk (ropen d) = d /\
    r_sm (ropen d) = sm_apply (gprefix G (acnt (d_applied d))) smv0.
Proof.
  intros G ops d Hg Hwf Hin.
  destruct (crash_disks_inv G ops rstore0 d Hg (inv0 G) Hwf Hin) as [s [HI <-]].
  rewrite (recover_under_inv G s Hg HI). split; auto.
  destruct HI as ((Hpa & _) & _ & _ & Hsm & _). rewrite Hpa. exact Hsm.
Qed.
