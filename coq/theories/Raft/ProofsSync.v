(* C38: sync_from_raft is the identity on a view that is in sync with the replicated state, and replicating
   every primitive change keeps the two in sync; an unreplicated change of any kind is reverted. *)
From Coq Require Import String.
From VP Require Import Base.Tactics Raft.Model Raft.ProofsSM Raft.Sync.
Open Scope Z_scope.

(* when the replicated state says unhealthy / draining the local status must agree; otherwise the local status is local *)
Definition st_compat (rst lst : wstatus) : Prop :=
  match rst with SUnhealthy | SDraining => lst = rst | _ => True end.

Definition insync (rs : cstate) (v : view) : Prop :=
  (forall id, match mget id (workers rs), mget id (v_workers v) with
              | Some e, Some w => vw_assigned w = w_assigned e /\ st_compat (status_of (w_status e)) (vw_status w)
              | None, None => True
              | _, _ => False
              end) /\
  (forall g, mget g (v_groups v) = mget g (pipeline_groups rs)) /\
  (forall n, mget n (v_connectors v) = mget n (connectors rs)) /\
  match scaling_policy rs with Some p => v_policy v = Some p | None => True end.

(* equality of views as maps *)
Definition veq (a b : view) : Prop :=
  (forall id, mget id (v_workers a) = mget id (v_workers b)) /\
  (forall g, mget g (v_groups a) = mget g (v_groups b)) /\
  (forall n, mget n (v_connectors a) = mget n (v_connectors b)) /\
  v_policy a = v_policy b.

Lemma mget_map_val : forall {A B} (f : str -> A -> B) id (m : amap A),
    mget id (map (fun p => (fst p, f (fst p) (snd p))) m) = option_map (f id) (mget id m).
Proof.
  induction m as [|[k a] r IH]; cbn [map mget fst snd option_map]; auto.
  destruct (N.eqb id k) eqn:E; auto. apply N.eqb_eq in E. now subst k.
Qed.

Lemma sync_fixpoint : forall rs v, insync rs v -> veq (sync rs v) v.
Proof.
  intros rs v (Hw & Hg & Hc & Hp). unfold veq, sync. cbn [v_workers v_groups v_connectors v_policy].
  repeat split; auto; [|destruct (scaling_policy rs); auto].
  intros id. rewrite (mget_map_val (fun k e => merge_worker (mget k (v_workers v)) e)).
  specialize (Hw id). destruct (mget id (workers rs)) as [e|], (mget id (v_workers v)) as [w|]; cbn [option_map]; try contradiction; auto.
  destruct Hw as [Ha Hs]. destruct w as [st asg]. cbn [vw_assigned vw_status] in *. unfold merge_worker. cbn [vw_status vw_assigned].
  subst asg. f_equal. f_equal. destruct (status_of (w_status e)); cbn in Hs; auto.
Qed.

Lemma status_roundtrip : forall st, status_of (str_of_status st) = st.
Proof. intros []; reflexivity. Qed.

Lemma st_compat_refl : forall st, st_compat st st.
Proof. intros []; cbn; auto. Qed.

(* replicating a primitive change keeps the view in sync *)
Lemma replicated_delta_insync : forall rs v d,
    insync rs v -> insync (apply_command rs (cmd_of_delta d)) (apply_delta v d).
Proof.
  intros rs v d (Hw & Hg & Hc & Hp).
  destruct d; cbn [cmd_of_delta apply_command apply_delta].
  - (* add worker *)
    unfold insync. cbn [workers set_workers pipeline_groups connectors scaling_policy v_workers with_workers v_groups v_connectors v_policy].
    repeat split; auto. intros i. destruct (N.eq_dec i id) as [->|Hne].
    + rewrite !mget_mset_same. cbn [vw_assigned vw_status w_assigned w_status]. split; [reflexivity|vm_compute; exact I].
    + rewrite !mget_mset_other by exact Hne. apply Hw.
  - (* remove worker *)
    unfold insync. cbn [workers set_workers pipeline_groups connectors scaling_policy v_workers with_workers v_groups v_connectors v_policy].
    repeat split; auto. intros i. destruct (N.eq_dec i id) as [->|Hne].
    + now rewrite !mget_mremove_same.
    + rewrite !mget_mremove_other by exact Hne. apply Hw.
  - (* status *)
    pose proof (Hw id) as Hid.
    destruct (mget id (workers rs)) as [e|] eqn:Ee, (mget id (v_workers v)) as [w|] eqn:Ev; try contradiction.
    + unfold insync. cbn [workers set_workers pipeline_groups connectors scaling_policy v_workers with_workers v_groups v_connectors v_policy].
      repeat split; auto. intros i. destruct (N.eq_dec i id) as [->|Hne].
      * rewrite !mget_mset_same. cbn [vw_assigned vw_status worker_with_status w_assigned w_status].
        destruct Hid as [Ha _]. split; auto. rewrite status_roundtrip. apply st_compat_refl.
      * rewrite !mget_mset_other by exact Hne. apply Hw.
    + repeat split; auto.
  - (* assigned pipelines *)
    pose proof (Hw id) as Hid.
    destruct (mget id (workers rs)) as [e|] eqn:Ee, (mget id (v_workers v)) as [w|] eqn:Ev; try contradiction.
    + unfold insync. cbn [workers set_workers pipeline_groups connectors scaling_policy v_workers with_workers v_groups v_connectors v_policy].
      repeat split; auto. intros i. destruct (N.eq_dec i id) as [->|Hne].
      * rewrite !mget_mset_same. cbn [vw_assigned vw_status worker_with_assigned w_assigned w_status].
        destruct Hid as [_ Hs]. split; auto.
      * rewrite !mget_mset_other by exact Hne. apply Hw.
    + repeat split; auto.
  - (* group set *)
    unfold insync. cbn [workers set_groups pipeline_groups connectors scaling_policy v_workers with_groups v_groups v_connectors v_policy].
    repeat split; auto. intros i. destruct (N.eq_dec i g) as [->|Hne].
    + now rewrite !mget_mset_same.
    + rewrite !mget_mset_other by exact Hne. apply Hg.
  - (* group removed *)
    unfold insync. cbn [workers set_groups pipeline_groups connectors scaling_policy v_workers with_groups v_groups v_connectors v_policy].
    repeat split; auto. intros i. destruct (N.eq_dec i g) as [->|Hne].
    + now rewrite !mget_mremove_same.
    + rewrite !mget_mremove_other by exact Hne. apply Hg.
  - (* connector set *)
    unfold insync. cbn [workers set_connectors pipeline_groups connectors scaling_policy v_workers with_connectors v_groups v_connectors v_policy].
    repeat split; auto. intros i. destruct (N.eq_dec i n) as [->|Hne].
    + now rewrite !mget_mset_same.
    + rewrite !mget_mset_other by exact Hne. apply Hc.
  - (* connector removed *)
    unfold insync. cbn [workers set_connectors pipeline_groups connectors scaling_policy v_workers with_connectors v_groups v_connectors v_policy].
    repeat split; auto. intros i. destruct (N.eq_dec i n) as [->|Hne].
    + now rewrite !mget_mremove_same.
    + rewrite !mget_mremove_other by exact Hne. apply Hc.
  - (* policy *)
    unfold insync. cbn [workers set_policy pipeline_groups connectors scaling_policy v_workers with_policy v_groups v_connectors v_policy].
    repeat split; auto. destruct p; auto.
Qed.

Lemma replicated_deltas_insync : forall ds rs v,
    insync rs v -> insync (apply_all (map cmd_of_delta ds) rs) (fold_left apply_delta ds v).
Proof.
  induction ds as [|d r IH]; intros rs v H; cbn [map apply_all fold_left]; auto.
  apply IH. now apply replicated_delta_insync.
Qed.

Lemma insync0 : insync cstate0 view0.
Proof. repeat split. Qed.
