(* C38: model of Coordinator::sync_from_raft (coordinator.rs) and of what a coordinator's operations change
   locally vs what they replicate.  Definitions only.

   view            the part of Coordinator the property is about: workers (status, assigned_pipelines),
                   pipeline_groups (opaque json = the serialized DeployedPipelineGroup), connectors, scaling_policy
   sync            sync_from_raft: for every replicated worker: existing local worker gets the replicated
                   assigned_pipelines, and the replicated status only when it is unhealthy / draining (a replicated
                   "ready" only refreshes last_heartbeat, which is not part of the view); unknown worker is added with
                   the replicated status; local workers missing from the replicated state are dropped; groups and
                   connectors are overwritten; the scaling policy only once one has been replicated (fix 2cac99e).
   delta           primitive local changes; cmd_of_delta = the ClusterCommand that replicates each
   op_kind         the operations of the property text; op_deltas = which primitive changes each performs
                   (read off coordinator.rs / api.rs); which commands each sends comes from the translator
                   (Gen_Replication.v gen_replicates). *)
From Coq Require Import String.
From VP Require Import Base.Tactics Raft.Model.
Open Scope Z_scope.

Definition s_unhealthy : str := 20%N.
Definition s_draining : str := 21%N.
Definition s_registering : str := 22%N.

Inductive wstatus := SReady | SUnhealthy | SDraining | SRegistering.
Definition status_of (s : str) : wstatus :=
  if N.eqb s s_unhealthy then SUnhealthy
  else if N.eqb s s_draining then SDraining
  else if N.eqb s s_registering then SRegistering
  else SReady.
Definition str_of_status (s : wstatus) : str :=
  match s with SReady => s_ready | SUnhealthy => s_unhealthy | SDraining => s_draining | SRegistering => s_registering end.

Record vworker := { vw_status : wstatus; vw_assigned : list str }.
Record view := { v_workers : amap vworker; v_groups : amap json; v_connectors : amap connector; v_policy : option json }.
Definition view0 : view := {| v_workers := []; v_groups := []; v_connectors := []; v_policy := None |}.

Definition merge_worker (local : option vworker) (e : worker) : vworker :=
  let rst := status_of (w_status e) in
  match local with
  | Some l => {| vw_status := match rst with SUnhealthy | SDraining => rst | _ => vw_status l end;
                 vw_assigned := w_assigned e |}
  | None => {| vw_status := rst; vw_assigned := w_assigned e |}
  end.

Definition sync (rs : cstate) (v : view) : view :=
  {| v_workers := map (fun p => (fst p, merge_worker (mget (fst p) (v_workers v)) (snd p))) (workers rs);
     v_groups := pipeline_groups rs;
     v_connectors := connectors rs;
     v_policy := match scaling_policy rs with Some p => Some p | None => v_policy v end |}.

(* ------------------------------------------------------------------ primitive local changes *)
Inductive delta :=
| DAddWorker (id address key : str) (cap : capacity)   (* register_worker: status Ready, nothing assigned *)
| DRemoveWorker (id : str)
| DSetStatus (id : str) (st : wstatus)                 (* no effect on an unknown worker *)
| DSetAssigned (id : str) (l : list str)               (* no effect on an unknown worker *)
| DSetGroup (g : str) (val : json)
| DRemoveGroup (g : str)
| DSetConnector (n : str) (c : connector)
| DRemoveConnector (n : str)
| DSetPolicy (p : option json).

Definition with_workers (v : view) (w : amap vworker) : view :=
  {| v_workers := w; v_groups := v_groups v; v_connectors := v_connectors v; v_policy := v_policy v |}.
Definition with_groups (v : view) (g : amap json) : view :=
  {| v_workers := v_workers v; v_groups := g; v_connectors := v_connectors v; v_policy := v_policy v |}.
Definition with_connectors (v : view) (c : amap connector) : view :=
  {| v_workers := v_workers v; v_groups := v_groups v; v_connectors := c; v_policy := v_policy v |}.
Definition with_policy (v : view) (p : option json) : view :=
  {| v_workers := v_workers v; v_groups := v_groups v; v_connectors := v_connectors v; v_policy := p |}.

Definition apply_delta (v : view) (d : delta) : view :=
  match d with
  | DAddWorker id _ _ _ => with_workers v (mset id {| vw_status := SReady; vw_assigned := [] |} (v_workers v))
  | DRemoveWorker id => with_workers v (mremove id (v_workers v))
  | DSetStatus id st =>
      match mget id (v_workers v) with
      | Some w => with_workers v (mset id {| vw_status := st; vw_assigned := vw_assigned w |} (v_workers v))
      | None => v
      end
  | DSetAssigned id l =>
      match mget id (v_workers v) with
      | Some w => with_workers v (mset id {| vw_status := vw_status w; vw_assigned := l |} (v_workers v))
      | None => v
      end
  | DSetGroup g val => with_groups v (mset g val (v_groups v))
  | DRemoveGroup g => with_groups v (mremove g (v_groups v))
  | DSetConnector n c => with_connectors v (mset n c (v_connectors v))
  | DRemoveConnector n => with_connectors v (mremove n (v_connectors v))
  | DSetPolicy p => with_policy v p
  end.

(* the command that replicates a primitive change *)
Definition cmd_of_delta (d : delta) : command :=
  match d with
  | DAddWorker id a k cap => RegisterWorker id a k cap
  | DRemoveWorker id => DeregisterWorker id
  | DSetStatus id st => WorkerStatusChanged id (str_of_status st)
  | DSetAssigned id l => WorkerPipelinesUpdated id l
  | DSetGroup g val => GroupUpdated g val
  | DRemoveGroup g => GroupRemoved g
  | DSetConnector n c => ConnectorUpdated n c
  | DRemoveConnector n => ConnectorRemoved n
  | DSetPolicy p => ScalingPolicySet p
  end.

(* kinds, for the tables *)
Inductive dkind := KAddWorker | KRemoveWorker | KSetStatus | KSetAssigned | KSetGroup | KRemoveGroup
                 | KSetConnector | KRemoveConnector | KSetPolicy.
Definition kind_of (d : delta) : dkind :=
  match d with
  | DAddWorker _ _ _ _ => KAddWorker | DRemoveWorker _ => KRemoveWorker | DSetStatus _ _ => KSetStatus
  | DSetAssigned _ _ => KSetAssigned | DSetGroup _ _ => KSetGroup | DRemoveGroup _ => KRemoveGroup
  | DSetConnector _ _ => KSetConnector | DRemoveConnector _ => KRemoveConnector | DSetPolicy _ => KSetPolicy
  end.
(* names of the ClusterCommand variants that replicate a kind of change (either of the two group / connector commands does) *)
Definition cmds_for (k : dkind) : list string :=
  match k with
  | KAddWorker => ["RegisterWorker"] | KRemoveWorker => ["DeregisterWorker"] | KSetStatus => ["WorkerStatusChanged"]
  | KSetAssigned => ["WorkerPipelinesUpdated"] | KSetGroup => ["GroupDeployed"; "GroupUpdated"] | KRemoveGroup => ["GroupRemoved"]
  | KSetConnector => ["ConnectorCreated"; "ConnectorUpdated"] | KRemoveConnector => ["ConnectorRemoved"]
  | KSetPolicy => ["ScalingPolicySet"]
  end%string.

(* ------------------------------------------------------------------ operations of the property text *)
Inductive op_kind :=
| OpRegister | OpDeregister | OpDeploy | OpTeardown | OpManualMigrate | OpApiRebalance | OpDrain
| OpFailover            (* health loop: worker marked unhealthy, its pipelines migrated *)
| OpAutoRebalance       (* health loop: pending_rebalance => rebalance() *)
| OpReconcile           (* health loop: reconcile_placements() *)
| OpRecovery            (* heartbeat of an unhealthy worker: status back to ready *)
| OpConnectorCreate | OpConnectorUpdate | OpConnectorDelete
| OpSetScalingPolicy.   (* start-up configuration of the scaling policy *)

(* which kinds of primitive change each operation performs on the view (coordinator.rs:
   register_worker; deregister_worker; commit_deploy_group (group + assign_pipeline on the chosen workers);
   commit_teardown_group (group removed + unassign_pipeline); commit_migrate_pipeline (placement in the group +
   unassign on the source + assign on the target); drain_worker (status Draining, migrations, deregister);
   health_sweep (status Unhealthy) + handle_worker_failure (migrations); rebalance (migrations);
   reconcile_placements (assign_pipeline); heartbeat (status Ready); create/update/delete_connector) *)
Definition op_deltas (o : op_kind) : list dkind :=
  match o with
  | OpRegister => [KAddWorker]
  | OpDeregister => [KRemoveWorker]
  | OpDeploy => [KSetGroup; KSetAssigned]
  | OpTeardown => [KRemoveGroup; KSetAssigned]
  | OpManualMigrate => [KSetGroup; KSetAssigned]
  | OpApiRebalance => [KSetGroup; KSetAssigned]
  | OpDrain => [KSetStatus; KSetGroup; KSetAssigned; KRemoveWorker]
  | OpFailover => [KSetStatus; KSetGroup; KSetAssigned]
  | OpAutoRebalance => [KSetGroup; KSetAssigned]
  | OpReconcile => [KSetAssigned]
  | OpRecovery => [KSetStatus]
  | OpConnectorCreate => [KSetConnector]
  | OpConnectorUpdate => [KSetConnector]
  | OpConnectorDelete => [KRemoveConnector]
  | OpSetScalingPolicy => []      (* start-up configuration of each coordinator; sync keeps it while nothing is replicated *)
  end.

Definition op_name (o : op_kind) : string :=
  match o with
  | OpRegister => "register" | OpDeregister => "deregister" | OpDeploy => "deploy" | OpTeardown => "teardown"
  | OpManualMigrate => "manual_migrate" | OpApiRebalance => "api_rebalance" | OpDrain => "drain"
  | OpFailover => "failover" | OpAutoRebalance => "auto_rebalance" | OpReconcile => "reconcile"
  | OpRecovery => "recovery" | OpConnectorCreate => "connector_create" | OpConnectorUpdate => "connector_update"
  | OpConnectorDelete => "connector_delete" | OpSetScalingPolicy => "set_scaling_policy"
  end%string.
Definition all_ops : list op_kind :=
  [OpRegister; OpDeregister; OpDeploy; OpTeardown; OpManualMigrate; OpApiRebalance; OpDrain; OpFailover;
   OpAutoRebalance; OpReconcile; OpRecovery; OpConnectorCreate; OpConnectorUpdate; OpConnectorDelete; OpSetScalingPolicy].

Fixpoint str_in (s : string) (l : list string) : bool :=
  match l with [] => false | x :: r => if String.eqb s x then true else str_in s r end.
Definition kind_replicated (sent : list string) (k : dkind) : bool := existsb (fun c => str_in c sent) (cmds_for k).
(* every kind of change the operation makes is replicated by one of the commands it sends *)
Definition covered (sent : list string) (o : op_kind) : bool := forallb (kind_replicated sent) (op_deltas o).
