(* Lemmas about the log (sorted association list), the RaftStorage contract of both stores,
   and the observational equality of MemStore and RocksStore. *)
From Coq Require Import String Sorting.Sorted.
From VP Require Import Base.Tactics Raft.Model.
Open Scope Z_scope.

Definition keys_lt (a b : Z * entry) : Prop := fst a < fst b.
Definition log_sorted (l : log) : Prop := StronglySorted keys_lt l.
Definition log_nonneg (l : log) : Prop := Forall (fun p => 0 <= fst p) l.

(* ------------------------------------------------------------------ insertion *)
Lemma log_insert_In : forall i e l p, In p (log_insert i e l) -> p = (i, e) \/ In p l.
Proof.
  induction l as [|[j e'] r IH]; intros p H; cbn [log_insert] in H.
  - destruct H as [H|[]]; auto.
  - destruct (i <? j) eqn:E1.
    + destruct H as [H|H]; auto.
    + destruct (i =? j) eqn:E2.
      * destruct H as [H|H]; auto. right. now right.
      * destruct H as [H|H]; [right; now left|]. apply IH in H. destruct H; auto. right. now right.
Qed.

Lemma log_insert_sorted : forall i e l, log_sorted l -> log_sorted (log_insert i e l).
Proof.
  induction l as [|[j e'] r IH]; intros Hs; cbn [log_insert].
  - constructor; constructor.
  - inv Hs. destruct (i <? j) eqn:E1.
    + constructor; [constructor; assumption|]. constructor.
      * unfold keys_lt; cbn. lia.
      * eapply Forall_impl; [|exact H2]. intros a Ha. unfold keys_lt in *. cbn in *. lia.
    + destruct (i =? j) eqn:E2.
      * constructor; auto. eapply Forall_impl; [|exact H2]. intros a Ha. unfold keys_lt in *. cbn in *. lia.
      * constructor; [now apply IH|]. apply Forall_forall. intros p Hp.
        apply log_insert_In in Hp. destruct Hp as [->|Hp].
        -- unfold keys_lt; cbn. lia.
        -- rewrite Forall_forall in H2. now apply H2.
Qed.

Lemma log_append_sorted : forall es l, log_sorted l -> log_sorted (log_append es l).
Proof.
  induction es as [|e r IH]; intros l H; cbn [log_append fold_left]; auto.
  apply IH. now apply log_insert_sorted.
Qed.

Lemma log_insert_nonneg : forall i e l, 0 <= i -> log_nonneg l -> log_nonneg (log_insert i e l).
Proof.
  intros i e l Hi H. apply Forall_forall. intros p Hp. apply log_insert_In in Hp.
  destruct Hp as [->|Hp]; cbn; auto. unfold log_nonneg in H. rewrite Forall_forall in H. now apply H.
Qed.
Lemma log_append_nonneg : forall es l,
    Forall (fun e => 0 <= l_index (e_id e)) es -> log_nonneg l -> log_nonneg (log_append es l).
Proof.
  induction es as [|e r IH]; intros l He H; cbn [log_append fold_left]; auto.
  inv He. apply IH; auto. now apply log_insert_nonneg.
Qed.

Lemma log_get_insert : forall j i e l,
    log_get j (log_insert i e l) = if j =? i then Some e else log_get j l.
Proof.
  induction l as [|[k e'] r IH]; cbn [log_insert log_get]; auto.
  destruct (i <? k) eqn:E1; cbn [log_get]; auto.
  destruct (i =? k) eqn:E2; cbn [log_get].
  - apply Z.eqb_eq in E2. subst k. destruct (j =? i); auto.
  - rewrite IH. destruct (j =? k) eqn:E3; auto. destruct (j =? i) eqn:E4; auto. lia.
Qed.

(* ------------------------------------------------------------------ filters *)
Lemma log_get_filter : forall (f : Z -> bool) j l,
    log_get j (filter (fun p => f (fst p)) l) = if f j then log_get j l else None.
Proof.
  induction l as [|[k e] r IH]; cbn [filter log_get fst].
  - now destruct (f j).
  - destruct (f k) eqn:Ek; cbn [log_get].
    + destruct (j =? k) eqn:E; auto. apply Z.eqb_eq in E. subst k. now rewrite Ek.
    + rewrite IH. destruct (j =? k) eqn:E; auto. apply Z.eqb_eq in E. subst k. now rewrite Ek.
Qed.

Lemma filter_sorted : forall (f : Z * entry -> bool) l, log_sorted l -> log_sorted (filter f l).
Proof.
  induction l as [|a r IH]; intros H; cbn [filter]; auto. inv H.
  destruct (f a); [|now apply IH]. constructor; [now apply IH|].
  apply Forall_forall. intros p Hp. apply filter_In in Hp. rewrite Forall_forall in H3. now apply H3.
Qed.
Lemma filter_nonneg : forall (f : Z * entry -> bool) l, log_nonneg l -> log_nonneg (filter f l).
Proof.
  intros f l H. apply Forall_forall. intros p Hp. apply filter_In in Hp.
  unfold log_nonneg in H. rewrite Forall_forall in H. now apply H.
Qed.

(* a predicate on keys that is downward closed: true on a key => true on every smaller key *)
Definition down_closed (f : Z -> bool) : Prop := forall a b, a <= b -> f b = true -> f a = true.

Lemma filter_all_false : forall (f : Z * entry -> bool) l, (forall p, In p l -> f p = false) -> filter f l = [].
Proof.
  induction l as [|a r IH]; intros H; cbn [filter]; auto.
  rewrite (H a) by now left. apply IH. intros p Hp. apply H. now right.
Qed.
Lemma filter_all_true : forall (f : Z * entry -> bool) l, (forall p, In p l -> f p = true) -> filter f l = l.
Proof.
  induction l as [|a r IH]; intros H; cbn [filter]; auto.
  rewrite (H a) by now left. f_equal. apply IH. intros p Hp. apply H. now right.
Qed.

Lemma take_while_filter : forall f l, down_closed f -> log_sorted l ->
    take_while (fun p => f (fst p)) l = filter (fun p => f (fst p)) l.
Proof.
  intros f l Hd. induction l as [|a r IH]; intros Hs; cbn [take_while filter]; auto. inv Hs.
  destruct (f (fst a)) eqn:E; [f_equal; auto|].
  symmetry. apply filter_all_false. intros p Hp. rewrite Forall_forall in H2. apply H2 in Hp.
  unfold keys_lt in Hp. destruct (f (fst p)) eqn:E2; auto.
  rewrite (Hd (fst a) (fst p)) in E; [discriminate|lia|exact E2].
Qed.
Lemma drop_while_filter : forall f l, down_closed f -> log_sorted l ->
    drop_while (fun p => f (fst p)) l = filter (fun p => negb (f (fst p))) l.
Proof.
  intros f l Hd. induction l as [|a r IH]; intros Hs; cbn [drop_while filter]; auto. inv Hs.
  destruct (f (fst a)) eqn:E; cbn [negb]; auto.
  f_equal. symmetry. apply filter_all_true. intros p Hp. rewrite Forall_forall in H2. apply H2 in Hp.
  unfold keys_lt in Hp. destruct (f (fst p)) eqn:E2; auto.
  rewrite (Hd (fst a) (fst p)) in E; [discriminate|lia|exact E2].
Qed.

Lemma take_while_sorted : forall (f : Z * entry -> bool) l, log_sorted l -> log_sorted (take_while f l).
Proof.
  induction l as [|a r IH]; intros H; cbn [take_while]; auto. inv H. destruct (f a); [|constructor].
  constructor; [now apply IH|]. apply Forall_forall. intros p Hp.
  assert (In p r). { clear - Hp. induction r as [|b r IH]; cbn [take_while] in Hp; [destruct Hp|]. destruct (f b); [|destruct Hp]. destruct Hp; [now left|right; auto]. }
  rewrite Forall_forall in H3. now apply H3.
Qed.
Lemma drop_while_sorted : forall (f : Z * entry -> bool) l, log_sorted l -> log_sorted (drop_while f l).
Proof.
  induction l as [|a r IH]; intros H; cbn [drop_while]; auto. destruct (f a); auto. inv H. now apply IH.
Qed.

(* ------------------------------------------------------------------ RocksStore iteration = BTreeMap semantics *)
Lemma rk_delete_since_eq : forall i l, log_sorted l -> rk_delete_since i l = mem_delete_since i l.
Proof.
  intros i l H. unfold rk_delete_since, mem_delete_since.
  rewrite (take_while_filter (fun k => k <? i)); auto.
  - apply filter_ext. intros [k e]. cbn. lia.
  - intros a b Hab Hb. lia.
Qed.
Lemma rk_purge_upto_eq : forall i l, log_sorted l -> rk_purge_upto i l = mem_purge_upto i l.
Proof.
  intros i l H. unfold rk_purge_upto, mem_purge_upto.
  rewrite (drop_while_filter (fun k => negb (i + 1 <=? k))); auto.
  - apply filter_ext. intros [k e]. cbn. lia.
  - intros a b Hab Hb. lia.
Qed.

Lemma filter_filter_and : forall {A} (f g : A -> bool) l, filter f (filter g l) = filter (fun x => g x && f x) l.
Proof.
  induction l as [|a r IH]; cbn [filter]; auto.
  destruct (g a); cbn [filter andb]; [destruct (f a)|]; now rewrite IH.
Qed.

Lemma rk_range_eq : forall lo hi l, log_sorted l -> log_nonneg l -> rk_range lo hi l = mem_range lo hi l.
Proof.
  intros lo hi l Hs Hn. unfold rk_range, mem_range. f_equal.
  rewrite (drop_while_filter (fun k => k <? rk_start lo)); auto; [|intros a b Hab Hb; lia].
  rewrite (take_while_filter (fun k => match rk_end hi with Some e => negb (e <=? k) | None => true end)).
  - rewrite filter_filter_and. apply filter_ext_in. intros [k e] Hin. cbn [fst].
    unfold log_nonneg in Hn. rewrite Forall_forall in Hn. specialize (Hn _ Hin). cbn in Hn.
    unfold in_range. destruct lo, hi; cbn [rk_start rk_end]; lia.
  - intros a b Hab Hb. destruct (rk_end hi); auto. lia.
  - now apply filter_sorted.
Qed.

(* ------------------------------------------------------------------ contract facts *)
Lemma mem_range_spec : forall lo hi l e,
    In e (mem_range lo hi l) <-> exists i, In (i, e) l /\ in_range lo hi i = true.
Proof.
  unfold mem_range. intros lo hi l e. rewrite in_map_iff. split.
  - intros [[i e'] [Heq Hin]]. cbn in Heq. subst e'. apply filter_In in Hin. destruct Hin as [Hin Hr]. exists i. auto.
  - intros [i [Hin Hr]]. exists (i, e). split; auto. apply filter_In. auto.
Qed.

Lemma mem_range_sorted : forall lo hi l, log_sorted l ->
    log_sorted (filter (fun p => in_range lo hi (fst p)) l).
Proof. intros. now apply filter_sorted. Qed.

Lemma log_get_purge : forall j i l, log_get j (mem_purge_upto i l) = if j <=? i then None else log_get j l.
Proof.
  intros. unfold mem_purge_upto. rewrite (log_get_filter (fun k => negb (k <=? i))). now destruct (j <=? i).
Qed.
Lemma log_get_delete : forall j i l, log_get j (mem_delete_since i l) = if i <=? j then None else log_get j l.
Proof.
  intros. unfold mem_delete_since. rewrite (log_get_filter (fun k => negb (i <=? k))). now destruct (i <=? j).
Qed.
Lemma log_get_append_other : forall j es l,
    Forall (fun e => l_index (e_id e) <> j) es -> log_get j (log_append es l) = log_get j l.
Proof.
  induction es as [|e r IH]; intros l H; cbn [log_append fold_left]; auto. inv H.
  change (fold_left (fun l e => log_insert (l_index (e_id e)) e l) r (log_insert (l_index (e_id e)) e l))
    with (log_append r (log_insert (l_index (e_id e)) e l)).
  rewrite IH by assumption. rewrite log_get_insert. destruct (j =? l_index (e_id e)) eqn:E; auto. lia.
Qed.

Lemma log_last_nil_iff : forall l, log_last l = None <-> l = [].
Proof.
  intros l. unfold log_last. split.
  - destruct (rev l) as [|[i e] r] eqn:E; [|discriminate]. intros _.
    apply (f_equal (@rev _)) in E. now rewrite rev_involutive in E.
  - intros ->. reflexivity.
Qed.
Lemma log_last_cons : forall a r, r <> [] -> log_last (a :: r) = log_last r.
Proof.
  intros a r Hne. unfold log_last. cbn [rev]. destruct (rev r) as [|[i e] t] eqn:E.
  - apply (f_equal (@rev _)) in E. rewrite rev_involutive in E. contradiction.
  - reflexivity.
Qed.
(* last_log_id is the id of the entry with the largest index *)
Lemma log_last_max : forall l x, log_sorted l -> log_last l = Some x ->
    exists i e, In (i, e) l /\ x = e_id e /\ forall p, In p l -> fst p <= i.
Proof.
  induction l as [|[i e] r IH]; intros x Hs H; [discriminate|]. inv Hs.
  destruct r as [|b r'].
  - cbn in H. inv H. exists i, e. split; [now left|]. split; auto. intros p [<-|[]]. cbn. lia.
  - rewrite log_last_cons in H by discriminate. destruct (IH x H2 H) as [j [e' [Hin [Hx Hmax]]]].
    exists j, e'. split; [now right|]. split; auto. intros p [<-|Hp]; auto.
    rewrite Forall_forall in H3. apply H3 in Hin. unfold keys_lt in Hin. cbn in *. lia.
Qed.

(* the case the property text names: once every entry is purged, last_log_id = last_purged *)
Lemma purge_all_log_state : forall s l,
    (forall p, In p (ms_log s) -> fst p <= l_index l) -> ms_log_state (ms_purge l s) = (Some l, Some l).
Proof.
  intros s l H. unfold ms_log_state, ms_purge, ms_with_log. cbn [ms_purged ms_log].
  unfold mem_purge_upto. rewrite filter_all_false; [reflexivity|].
  intros p Hp. apply H in Hp. destruct (fst p <=? l_index l) eqn:E; auto. lia.
Qed.

(* ------------------------------------------------------------------ both stores behave the same *)
Definition agree (m : mstore) (r : rstore) : Prop :=
  ms_vote m = d_vote (r_disk r) /\ ms_log m = d_log (r_disk r) /\ ms_purged m = d_purged (r_disk r) /\
  ms_sm m = r_sm r /\ ms_snap m = d_snap (r_disk r).

Lemma ms_step_sorted : forall m o, log_sorted (ms_log m) -> log_sorted (ms_log (ms_step m o)).
Proof.
  intros m o H. destruct o; cbn [ms_step ms_save_vote ms_append ms_delete_since ms_purge ms_apply ms_build ms_install ms_with_log ms_with_sm ms_log]; auto.
  - now apply log_append_sorted.
  - now apply filter_sorted.
  - now apply filter_sorted.
Qed.

Lemma agree_step : forall m r o, log_sorted (ms_log m) -> agree m r -> agree (ms_step m o) (rs_step r o).
Proof.
  intros m [d v] o Hs (Hv & Hl & Hp & Hsm & Hsn). cbn [r_disk r_sm] in *.
  destruct o; unfold agree, rs_step; cbn [ms_step op_write op_volatile r_disk r_sm
    ms_save_vote ms_append ms_delete_since ms_purge ms_apply ms_build ms_install ms_with_log ms_with_sm
    d_with_vote d_with_log d_with_sm ms_vote ms_log ms_purged ms_sm ms_snap d_vote d_log d_purged d_snap];
    rewrite <- ?Hl, <- ?Hsm; repeat split; auto.
  - now rewrite rk_delete_since_eq.
  - now rewrite rk_purge_upto_eq.
Qed.

Lemma agree_run : forall ops m r, log_sorted (ms_log m) -> agree m r -> agree (ms_run ops m) (rs_run ops r).
Proof.
  induction ops as [|o t IH]; intros m r Hs Ha; cbn [ms_run rs_run fold_left]; auto.
  apply IH; [now apply ms_step_sorted|now apply agree_step].
Qed.

Lemma agree0 : agree mstore0 rstore0.
Proof. repeat split. Qed.

Lemma agree_log_state : forall m r, agree m r -> ms_log_state m = rs_log_state r.
Proof. intros m r (Hv & Hl & Hp & Hsm & Hsn). unfold ms_log_state, rs_log_state. now rewrite Hl, Hp. Qed.

(* what RocksStore has persisted about the state machine is what its memory holds *)
Definition persisted (r : rstore) : Prop :=
  d_applied (r_disk r) = sv_applied (r_sm r) /\ d_member (r_disk r) = sv_member (r_sm r).
Lemma persisted_step : forall r o, persisted r -> persisted (rs_step r o).
Proof.
  intros [d v] o [Ha Hm]. cbn [r_disk r_sm] in *. destruct o; unfold persisted, rs_step;
    cbn [op_write op_volatile r_disk r_sm d_with_vote d_with_log d_with_sm d_applied d_member sm_install sv_applied sv_member]; auto.
Qed.
Lemma persisted0 : persisted rstore0.
Proof. split; reflexivity. Qed.

(* ------------------------------------------------------------------ reachable stores have sorted, non-negative logs *)
Lemma ms_run_sorted : forall ops m, log_sorted (ms_log m) -> log_sorted (ms_log (ms_run ops m)).
Proof.
  induction ops as [|o t IH]; intros m H; cbn [ms_run fold_left]; auto. apply IH. now apply ms_step_sorted.
Qed.

Definition op_nonneg (o : op) : Prop :=
  match o with OAppend es => Forall (fun e => 0 <= l_index (e_id e)) es | _ => True end.

Lemma ms_step_nonneg : forall m o, op_nonneg o -> log_nonneg (ms_log m) -> log_nonneg (ms_log (ms_step m o)).
Proof.
  intros m o Ho H. destruct o; cbn [ms_step ms_save_vote ms_append ms_delete_since ms_purge ms_apply ms_build ms_install ms_with_log ms_with_sm ms_log]; auto.
  - now apply log_append_nonneg.
  - now apply filter_nonneg.
  - now apply filter_nonneg.
Qed.
Lemma ms_run_nonneg : forall ops m, Forall op_nonneg ops -> log_nonneg (ms_log m) -> log_nonneg (ms_log (ms_run ops m)).
Proof.
  induction ops as [|o t IH]; intros m Ho H; cbn [ms_run fold_left]; auto. inv Ho.
  apply IH; auto. now apply ms_step_nonneg.
Qed.

(* vote: saved, then untouched by every other call *)
Lemma ms_vote_step : forall m o, ms_vote (ms_step m o) = match o with OVote v => Some v | _ => ms_vote m end.
Proof. intros m []; reflexivity. Qed.
Lemma rs_vote_step : forall r o, d_vote (r_disk (rs_step r o)) = match o with OVote v => Some v | _ => d_vote (r_disk r) end.
Proof. intros [d v] []; reflexivity. Qed.

(* current snapshot: none before the first build/install, afterwards the last one built or installed *)
Lemma ms_snap_step : forall m o,
    ms_snap (ms_step m o) = match o with
                            | OBuild => Some (sm_snapshot (ms_sm m))
                            | OInstall sn => Some sn
                            | _ => ms_snap m
                            end.
Proof. intros m []; reflexivity. Qed.
