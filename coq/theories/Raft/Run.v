(* Interpreter for op sequences over the two store models + rendering of the observables,
   used by the correspondence checks C35/C36 (cases evaluated by vm_compute).
   The string formats are mirrored by checks/raft_common.py (obs_str). *)
From Coq Require Import String.
From VP Require Import Base.Tactics Base.Render Raft.Model Raft.Sync.
Open Scope string_scope.
Open Scope Z_scope.

(* ------------------------------------------------------------------ rendering *)
Fixpoint insert_sorted (k : N) (v : string) (l : list (N * string)) : list (N * string) :=
  match l with
  | [] => [(k, v)]
  | (k', v') :: r => if N.leb k k' then (k, v) :: l else (k', v') :: insert_sorted k v r
  end.
Definition sort_kv (l : list (N * string)) : list (N * string) :=
  fold_right (fun p acc => insert_sorted (fst p) (snd p) acc) [] l.
Definition str_kvs (sep : string) (l : list (N * string)) : string :=
  join sep (map (fun p => str_of_N (fst p) ++ ":" ++ snd p) (sort_kv l)).
Definition str_map {V} (f : V -> string) (m : amap V) : string :=
  str_kvs ";" (map (fun p => (fst p, f (snd p))) m).

Fixpoint str_json (j : json) : string :=
  match j with
  | JNull => "n"
  | JBool b => if b then "t" else "f"
  | JNum z => "#" ++ str_of_Z z
  | JStr s => "$" ++ str_of_N s
  | JArr l => "[" ++ join "," (map str_json l) ++ "]"
  | JObj l => "{" ++ str_kvs "," ((fix go (l : list (str * json)) : list (N * string) :=
                                     match l with [] => [] | (k, v) :: r => (k, str_json v) :: go r end) l) ++ "}"
  end.

Definition str_strs (l : list str) : string := join "." (map str_of_N l).
Definition str_worker (w : worker) : string :=
  join "," [str_of_N (w_id w); str_of_N (w_address w); str_of_N (w_api_key w); str_of_N (w_status w);
            str_of_Z (w_cpu_cores w); str_of_Z (w_pipelines_running w); str_of_Z (w_max_pipelines w);
            str_strs (w_assigned w); str_of_Z (w_events w)].
Definition str_connector (c : connector) : string :=
  join "," [str_of_N (cn_name c); str_of_N (cn_type c);
            "<" ++ str_kvs "," (map (fun p => (fst p, str_of_N (snd p))) (cn_params c)) ++ ">";
            str_opt str_of_N (cn_desc c)].
Definition str_model (m : model_entry) : string :=
  join "," [str_of_N (me_name m); str_of_N (me_s3_key m); str_of_N (me_format m); str_strs (me_inputs m);
            str_strs (me_outputs m); str_of_Z (me_size m); str_of_N (me_uploaded m); str_of_N (me_desc m)].
Definition str_state (s : cstate) : string :=
  "W(" ++ str_map str_worker (workers s) ++ ")G(" ++ str_map str_json (pipeline_groups s) ++
  ")C(" ++ str_map str_connector (connectors s) ++ ")M(" ++ str_map str_json (active_migrations s) ++
  ")P(" ++ str_opt str_json (scaling_policy s) ++ ")R(" ++ str_map str_model (models s) ++ ")".

Definition str_logid (l : logid) : string :=
  str_of_Z (l_term l) ++ "." ++ str_of_Z (l_node l) ++ "." ++ str_of_Z (l_index l).
Definition str_ologid (o : option logid) : string := match o with None => "-" | Some l => str_logid l end.
Definition str_vote (v : vote) : string :=
  str_of_Z (v_term v) ++ "." ++ str_of_Z (v_node v) ++ "." ++ str_of_bool (v_committed v).
Definition str_smember (m : smember) : string := str_ologid (sm_id m) ++ "/" ++ str_of_N (sm_cfg m).

(* digest of a command: constructor number + its key (first string field) *)
Definition cmd_digest (c : command) : string :=
  match c with
  | RegisterWorker id _ _ _ => "0." ++ str_of_N id
  | DeregisterWorker id => "1." ++ str_of_N id
  | WorkerStatusChanged id _ => "2." ++ str_of_N id
  | WorkerPipelinesUpdated id _ => "3." ++ str_of_N id
  | GroupDeployed n _ => "4." ++ str_of_N n
  | GroupUpdated n _ => "5." ++ str_of_N n
  | GroupRemoved n => "6." ++ str_of_N n
  | MigrationStarted t => "7." ++ str_json t
  | MigrationUpdated id _ => "8." ++ str_of_N id
  | MigrationRemoved id => "9." ++ str_of_N id
  | ConnectorCreated n _ => "10." ++ str_of_N n
  | ConnectorUpdated n _ => "11." ++ str_of_N n
  | ConnectorRemoved n => "12." ++ str_of_N n
  | ScalingPolicySet p => "13." ++ str_opt str_json p
  | ModelRegistered n _ => "14." ++ str_of_N n
  | ModelRemoved n => "15." ++ str_of_N n
  end.
Definition str_entry (e : entry) : string :=
  str_logid (e_id e) ++ ":" ++
  match e_pl e with PBlank => "b" | PMember m => "m" ++ str_of_N m | PNormal c => "c" ++ cmd_digest c end.
Definition str_entries (l : list entry) : string := join "," (map str_entry l).

(* snapshot_id = "{leader_id}-{index}" with CommittedLeaderId displayed as T{term}-N{node}; "0-0" without a log id *)
Definition str_snapshot_id (o : option logid) : string :=
  match o with
  | None => "0-0"
  | Some l => "T" ++ str_of_Z (l_term l) ++ "-N" ++ str_of_Z (l_node l) ++ "-" ++ str_of_Z (l_index l)
  end.
Definition str_snapshot (sn : snapshot) : string :=
  str_ologid (sn_last sn) ++ "/" ++ str_smember (sn_mem sn) ++ "/" ++ str_snapshot_id (sn_last sn) ++ "/" ++ str_state (sn_state sn).

(* what the harness observes after every op *)
Definition str_obs (vt : option vote) (ls : option logid * option logid) (lg : log) (v : smv)
           (sn : option snapshot) (res : string) : string :=
  "V" ++ str_opt str_vote vt ++ "|P" ++ str_ologid (fst ls) ++ "|L" ++ str_ologid (snd ls) ++
  "|G" ++ str_entries (map snd lg) ++ "|A" ++ str_ologid (sv_applied v) ++ "|M" ++ str_smember (sv_member v) ++
  "|S" ++ str_opt str_snapshot sn ++ "|T" ++ str_state (sv_state v) ++ "|R" ++ res.

Definition obs_mem (s : mstore) (res : string) : string :=
  str_obs (ms_vote s) (ms_log_state s) (ms_log s) (ms_sm s) (ms_snap s) res.
Definition obs_rocks (s : rstore) (res : string) : string :=
  str_obs (d_vote (r_disk s)) (rs_log_state s) (d_log (r_disk s)) (r_sm s) (d_snap (r_disk s)) res.

(* ------------------------------------------------------------------ ops of the harness *)
Inductive xop :=
| XVote (v : vote) | XAppend (es : list entry) | XDelete (l : logid) | XPurge (l : logid)
| XApply (es : list entry) | XBuild
| XInstall (es : list entry)      (* a leader (fresh MemStore) applies es, builds a snapshot, it is installed here *)
| XRange (lo hi : bound)          (* try_get_log_entries on the store and on its log reader *)
| XRestart.                       (* rocks only: drop the store, open the directory again *)

Definition apply_res (es : list entry) : string := str_of_nat (length es).

Definition to_op (o : xop) : option op :=
  match o with
  | XVote v => Some (OVote v) | XAppend es => Some (OAppend es) | XDelete l => Some (ODelete l)
  | XPurge l => Some (OPurge l) | XApply es => Some (OApply es) | XBuild => Some OBuild
  | XInstall es => Some (OInstall (leader_snapshot es))
  | XRange _ _ | XRestart => None
  end.

Definition mem_xstep (s : mstore) (o : xop) : option (mstore * string) :=
  match o with
  | XApply es => if sm_panics es (ms_sm s) then None else Some (ms_step s (OApply es), apply_res es)
  | XBuild => let s' := ms_step s OBuild in Some (s', str_opt str_snapshot (ms_snap s'))
  | XInstall es => if sm_panics es smv0 then None else Some (ms_step s (OInstall (leader_snapshot es)), "")
  | XRange lo hi => let r := str_entries (mem_range lo hi (ms_log s)) in Some (s, r ++ "&" ++ r)
  | XRestart => None
  | _ => match to_op o with Some p => Some (ms_step s p, "") | None => None end
  end.

Definition rocks_xstep (s : rstore) (o : xop) : option (rstore * string) :=
  match o with
  | XApply es => if sm_panics es (r_sm s) then None else Some (rs_step s (OApply es), apply_res es)
  | XBuild => let s' := rs_step s OBuild in Some (s', str_opt str_snapshot (d_snap (r_disk s')))
  | XInstall es => if sm_panics es smv0 then None else Some (rs_step s (OInstall (leader_snapshot es)), "")
  | XRange lo hi => let r := str_entries (rk_range lo hi (d_log (r_disk s))) in Some (s, r ++ "&" ++ r)
  | XRestart => Some (ropen (r_disk s), "")
  | _ => match to_op o with Some p => Some (rs_step s p, "") | None => None end
  end.

Fixpoint mem_xrun (s : mstore) (ops : list xop) (acc : list string) : list string :=
  match ops with
  | [] => rev acc
  | o :: r => match mem_xstep s o with
              | None => rev ("PANIC" :: acc)
              | Some (s', res) => mem_xrun s' r (obs_mem s' res :: acc)
              end
  end.
Fixpoint rocks_xrun (s : rstore) (ops : list xop) (acc : list string) : list string :=
  match ops with
  | [] => rev acc
  | o :: r => match rocks_xstep s o with
              | None => rev ("PANIC" :: acc)
              | Some (s', res) => rocks_xrun s' r (obs_rocks s' res :: acc)
              end
  end.

Definition mem_case (ops : list xop) : string := join "#" (mem_xrun mstore0 ops []).
Definition rocks_case (ops : list xop) : string := join "#" (rocks_xrun rstore0 ops []).

(* C36: run [ops], crash after the k-th RocksDB write (every op that is not a read is one write),
   reopen: observation after reopen *)
Fixpoint ops_of (l : list xop) : list op :=
  match l with [] => [] | o :: r => match to_op o with Some p => p :: ops_of r | None => ops_of r end end.
Definition crash_case (ops : list xop) (k : nat) : string :=
  match nth_error (crash_disks (ops_of ops) rstore0) k with
  | Some d => obs_rocks (ropen d) ""
  | None => "NOCRASH"
  end.

(* C37: the state machine a coordinator must have after applying the committed entries [es] *)
Definition sm_case (es : list entry) : string :=
  let v := sm_apply es smv0 in
  if sm_panics es smv0 then "PANIC"
  else "A" ++ str_ologid (sv_applied v) ++ "|M" ++ str_smember (sv_member v) ++ "|T" ++ str_state (sv_state v).

(* C38: sync_from_raft on a coordinator view; workers with status and (sorted) assigned pipelines, keys of the rest *)
Definition str_status (s : wstatus) : string :=
  match s with SReady => "ready" | SUnhealthy => "unhealthy" | SDraining => "draining" | SRegistering => "registering" end.
Definition sorted_strs (l : list str) : string := join "." (map (fun p => str_of_N (fst p)) (sort_kv (map (fun x => (x, "")) l))).
Definition str_view (v : view) : string :=
  "W(" ++ str_map (fun w => str_status (vw_status w) ++ "/" ++ sorted_strs (vw_assigned w)) (v_workers v) ++
  ")G(" ++ sorted_strs (map fst (v_groups v)) ++ ")C(" ++ str_map (fun c => str_of_N (cn_type c)) (v_connectors v) ++
  ")P(" ++ (match v_policy v with Some _ => "1" | None => "0" end) ++ ")".
Definition sync_case (rs : cstate) (v : view) : string := str_view (sync rs v).

