(* Property theorems for C35 / C36 (statements only; proofs are in Proofs*.v). *)
From Coq Require Import String.
From VP Require Import Base.Tactics Raft.Model Raft.Arms Raft.Gen_Commands Raft.ProofsSM.
Open Scope Z_scope.

(* ---- C35: same committed log, any batching => same replicated state (both stores) *)
Theorem C35_batching_mem : forall (batches : list (list entry)) (s : mstore),
    ms_sm (fold_left (fun s b => ms_step s (OApply b)) batches s) = sm_apply (concat batches) (ms_sm s).
Proof. exact ms_apply_batches. Qed.

Theorem C35_batching_rocks : forall (batches : list (list entry)) (s : rstore),
    r_sm (fold_left (fun s b => rs_step s (OApply b)) batches s) = sm_apply (concat batches) (r_sm s).
Proof. exact rs_apply_batches. Qed.

Theorem C35_state_is_fold : forall es v, sv_state (sm_apply es v) = apply_all (cmds_of es) (sv_state v).
Proof. exact sm_apply_state. Qed.

Theorem C35_apply_all_app : forall l1 l2 s, apply_all (l1 ++ l2) s = apply_all l2 (apply_all l1 s).
Proof. exact apply_all_app. Qed.
