(* Property theorems for C35 / C36: statements only, each proved by a lemma of Proofs*.v.
   All of them are about the definitions of Raft/Model.v that Raft/Run.v evaluates in the
   correspondence checks. *)
From Coq Require Import String Sorting.Sorted.
From VP Require Import Base.Tactics Raft.Model Raft.Arms Raft.Gen_Commands Raft.ProofsSM Raft.ProofsLog Raft.ProofsRecover Raft.ProofsAgree
     Raft.Sync Raft.Gen_Replication Raft.ProofsSync.
Open Scope Z_scope.

(* ====================================================================== C35 *)

(* ---- same committed log, any batching => same replicated state, on every store *)
Theorem C35_batching_mem : forall (batches : list (list entry)) (s : mstore),
    ms_sm (fold_left (fun s b => ms_step s (OApply b)) batches s) = sm_apply (concat batches) (ms_sm s).
Proof. exact ms_apply_batches. Qed.

Theorem C35_batching_rocks : forall (batches : list (list entry)) (s : rstore),
    r_sm (fold_left (fun s b => rs_step s (OApply b)) batches s) = sm_apply (concat batches) (r_sm s).
Proof. exact rs_apply_batches. Qed.

(* the replicated state is the fold of apply_command over the log's commands; apply_all (l1 ++ l2) = apply_all l2 . apply_all l1 *)
Theorem C35_state_is_fold : forall es v, sv_state (sm_apply es v) = apply_all (cmds_of es) (sv_state v).
Proof. exact sm_apply_state. Qed.
Theorem C35_apply_all_app : forall l1 l2 s, apply_all (l1 ++ l2) s = apply_all l2 (apply_all l1 s).
Proof. exact apply_all_app. Qed.

(* ---- snapshot taken at any index (after es1), installed on ANY store state, then the rest = full replay *)
Theorem C35_snapshot_mem : forall (es1 es2 : list entry) (s0 : mstore),
    ms_sm (ms_run [OInstall (leader_snapshot es1); OApply es2] s0) = sm_apply (es1 ++ es2) smv0.
Proof. intros. cbn. apply snapshot_then_rest. Qed.
Theorem C35_snapshot_rocks : forall (es1 es2 : list entry) (s0 : rstore),
    r_sm (rs_run [OInstall (leader_snapshot es1); OApply es2] s0) = sm_apply (es1 ++ es2) smv0.
Proof. intros. cbn. apply snapshot_then_rest. Qed.

(* ---- the two stores are observationally equal on every call sequence (vote, log, purge position,
        state machine, current snapshot), hence also in get_log_state *)
Theorem C35_stores_agree : forall ops, agree (ms_run ops mstore0) (rs_run ops rstore0).
Proof. intros. apply agree_run; [constructor|exact agree0]. Qed.
Theorem C35_stores_agree_log_state : forall ops, ms_log_state (ms_run ops mstore0) = rs_log_state (rs_run ops rstore0).
Proof. intros. apply agree_log_state, C35_stores_agree. Qed.

(* ---- storage contract *)
(* reachable logs are sorted by index (what the lemmas below assume) *)
Theorem C35_contract_sorted : forall ops, log_sorted (ms_log (ms_run ops mstore0)).
Proof. intros. apply ms_run_sorted. constructor. Qed.
(* get_log_state: last_log_id is the id of the entry with the largest index ... *)
Theorem C35_contract_last_log_id : forall ops x,
    log_last (ms_log (ms_run ops mstore0)) = Some x ->
    snd (ms_log_state (ms_run ops mstore0)) = Some x /\
    exists i e, In (i, e) (ms_log (ms_run ops mstore0)) /\ x = e_id e /\
                forall p, In p (ms_log (ms_run ops mstore0)) -> fst p <= i.
Proof.
  intros ops x H. split.
  - unfold ms_log_state. cbn [snd]. now rewrite H.
  - apply log_last_max; [apply C35_contract_sorted|exact H].
Qed.
(* ... and falls back to last_purged when the log is empty; in particular after purging everything *)
Theorem C35_contract_last_log_id_empty : forall s, ms_log s = [] -> ms_log_state s = (ms_purged s, ms_purged s).
Proof. intros s H. unfold ms_log_state. rewrite H. reflexivity. Qed.
Theorem C35_contract_purge_everything : forall s l,
    (forall p, In p (ms_log s) -> fst p <= l_index l) -> ms_log_state (ms_step s (OPurge l)) = (Some l, Some l).
Proof. exact purge_all_log_state. Qed.
Example C35_example_purge_everything :
  let l := {| l_term := 1; l_node := 1; l_index := 2 |} in
  let s := ms_run [OAppend [ {| e_id := {| l_term := 0; l_node := 1; l_index := 0 |}; e_pl := PBlank |};
                             {| e_id := {| l_term := 1; l_node := 1; l_index := 1 |}; e_pl := PBlank |};
                             {| e_id := l; e_pl := PBlank |} ]] mstore0 in
  (forall p, In p (ms_log s) -> fst p <= l_index l) /\ ms_log s <> [] /\
  ms_log_state (ms_step s (OPurge l)) = (Some l, Some l) /\
  rs_log_state (rs_step (rs_run [OAppend (map snd (ms_log s))] rstore0) (OPurge l)) = (Some l, Some l).
Proof.
  cbn zeta. split; [|split; [discriminate|split; reflexivity]].
  intros p Hp. vm_compute in Hp. destruct Hp as [<-|[<-|[<-|[]]]]; vm_compute; discriminate.
Qed.
(* try_get_log_entries returns exactly the entries whose index is in the range (in index order: filter of a sorted log);
   the RocksDB seek/iterate/break version computes the same on reachable logs *)
Theorem C35_contract_range : forall lo hi l e,
    In e (mem_range lo hi l) <-> exists i, In (i, e) l /\ in_range lo hi i = true.
Proof. exact mem_range_spec. Qed.
Theorem C35_contract_range_rocks : forall lo hi l, log_sorted l -> log_nonneg l -> rk_range lo hi l = mem_range lo hi l.
Proof. exact rk_range_eq. Qed.
Theorem C35_contract_nonneg : forall ops, Forall op_nonneg ops -> log_nonneg (ms_log (ms_run ops mstore0)).
Proof. intros. apply ms_run_nonneg; [assumption|constructor]. Qed.
(* append overwrites / inserts, purge removes exactly the indices <= i, delete-conflict exactly those >= i *)
Theorem C35_contract_append : forall j i e l, log_get j (log_insert i e l) = if j =? i then Some e else log_get j l.
Proof. exact log_get_insert. Qed.
Theorem C35_contract_purge : forall j i l, log_get j (mem_purge_upto i l) = if j <=? i then None else log_get j l.
Proof. exact log_get_purge. Qed.
Theorem C35_contract_delete : forall j i l, log_get j (mem_delete_since i l) = if i <=? j then None else log_get j l.
Proof. exact log_get_delete. Qed.
Theorem C35_contract_purge_rocks : forall i l, log_sorted l -> rk_purge_upto i l = mem_purge_upto i l.
Proof. exact rk_purge_upto_eq. Qed.
Theorem C35_contract_delete_rocks : forall i l, log_sorted l -> rk_delete_since i l = mem_delete_since i l.
Proof. exact rk_delete_since_eq. Qed.
(* vote round trip; current snapshot is None until one is built or installed, then the last one *)
Theorem C35_contract_vote : forall m o, ms_vote (ms_step m o) = match o with OVote v => Some v | _ => ms_vote m end.
Proof. exact ms_vote_step. Qed.
Theorem C35_contract_snapshot : forall m o,
    ms_snap mstore0 = None /\
    ms_snap (ms_step m o) = match o with OBuild => Some (sm_snapshot (ms_sm m)) | OInstall sn => Some sn | _ => ms_snap m end.
Proof. intros. split; [reflexivity|apply ms_snap_step]. Qed.

(* ---- apply_command's only panic site (indexing a stored migration that is not an object) is unreachable *)
Theorem C35_no_index_panic : forall es1 es2, sm_panics es2 (sm_apply es1 smv0) = false.
Proof.
  intros. apply sm_no_panic. rewrite sm_apply_state. apply migs_ok_apply_all. exact migs_ok0.
Qed.

(* ---- translator tie: the arms / WorkerEntry literal regenerated from state_machine.rs are the model's,
        and the model's table describes what Model.apply_command does *)
Theorem C35_arms_match : forall c, gen_arm c = model_arm c.
Proof. intros []; reflexivity. Qed.
Theorem C35_register_init_match : gen_register_init = model_register_init.
Proof. reflexivity. Qed.
Theorem C35_variants_match : gen_variant_names = model_variant_names /\ gen_field_names = model_field_names.
Proof. split; reflexivity. Qed.
Theorem C35_arm_frame : forall s c f, f <> a_field (model_arm c) -> same_on f s (apply_command s c).
Proof. exact arm_frame. Qed.
Theorem C35_arm_effect : forall s c k,
    cmd_key c = Some k ->
    match a_action (model_arm c) with
    | AInsert | AInsertIfStrId => has_key (a_field (model_arm c)) k (apply_command s c) = true
    | ARemove => has_key (a_field (model_arm c)) k (apply_command s c) = false
    | AUpdateIfPresent => has_key (a_field (model_arm c)) k (apply_command s c) = has_key (a_field (model_arm c)) k s
    | AAssign => True
    end.
Proof. exact arm_effect. Qed.

(* ====================================================================== C36 *)

(* After a crash before or after any storage write of a protocol-conforming history, the reopened store
   (a) reads back exactly the disk the crash left (vote, log, purge position, applied position, snapshot), and
   (b) its state machine (state, applied position, membership) is the replay of the committed log G up to the
       persisted applied position. *)
Theorem C36_recover : forall (G : list entry) (ops : list op) (d : disk),
    ground_ok G -> wf_hist G rstore0 ops -> In d (crash_disks ops rstore0) ->
    r_disk (ropen d) = d /\
    r_sm (ropen d) = sm_apply (gprefix G (acnt (d_applied d))) smv0.
Proof. exact recover_after_crash. Qed.

(* in particular the replicated state is apply_all of the committed commands up to that position *)
Theorem C36_recover_state : forall G ops d,
    ground_ok G -> wf_hist G rstore0 ops -> In d (crash_disks ops rstore0) ->
    sv_state (r_sm (ropen d)) = apply_all (cmds_of (gprefix G (acnt (d_applied d)))) cstate0.
Proof.
  intros G ops d Hg Hwf Hin. destruct (C36_recover G ops d Hg Hwf Hin) as [_ ->]. apply sm_apply_state.
Qed.

(* a restart without a crash is invisible *)
Theorem C36_restart_invisible : forall G ops,
    ground_ok G -> wf_hist G rstore0 ops -> ropen (r_disk (rs_run ops rstore0)) = rs_run ops rstore0.
Proof. intros G ops Hg Hwf. apply (recover_under_inv G); auto. apply inv_run; auto. apply inv0. Qed.

(* Non-vacuity: a conforming history with a snapshot, a purge of applied entries and a snapshot installation;
   the disk left by a crash after the purge recovers a non-empty state that is no longer in the log. *)
Definition ex_cmd (k : N) : command := GroupDeployed k (JNum 1).
Definition ex_G : list entry :=
  [ {| e_id := {| l_term := 1; l_node := 1; l_index := 0 |}; e_pl := PMember 3%N |};
    {| e_id := {| l_term := 1; l_node := 1; l_index := 1 |}; e_pl := PNormal (ex_cmd 5%N) |};
    {| e_id := {| l_term := 1; l_node := 1; l_index := 2 |}; e_pl := PNormal (ex_cmd 6%N) |};
    {| e_id := {| l_term := 2; l_node := 1; l_index := 3 |}; e_pl := PNormal (GroupRemoved 5%N) |} ].
Definition ex_ops : list op :=
  [ OAppend (firstn 3 ex_G); OApply (firstn 2 ex_G); OBuild;
    OPurge {| l_term := 1; l_node := 1; l_index := 1 |}; OApply (firstn 1 (skipn 2 ex_G));
    OInstall (leader_snapshot ex_G); OVote {| v_term := 2; v_node := 1; v_committed := true |} ].

Example C36_example_conforming : ground_ok ex_G /\ wf_hist ex_G rstore0 ex_ops.
Proof.
  split.
  - intros k e H. do 4 (destruct k as [|k]; [inv H; reflexivity|]). destruct k; discriminate.
  - cbn [wf_hist ex_ops]. repeat split.
    all: try (repeat constructor; vm_compute; discriminate).
    all: try (vm_compute; reflexivity).
    exists 4. split; [vm_compute; split; [reflexivity|discriminate]|reflexivity].
Qed.

Example C36_example_nontrivial :
  exists d, nth_error (crash_disks ex_ops rstore0) 4 = Some d /\
            map fst (d_log d) = [2] /\
            pipeline_groups (sv_state (r_sm (ropen d))) = [(5%N, JNum 1)].
Proof. eexists. split; [reflexivity|]. split; vm_compute; reflexivity. Qed.

(* Regression witness of the defect fixed in /repo e78345c: recovery that replays only the surviving log
   entries (the old replay_log) loses the state applied before a purge. *)
Definition recover_state_log_only (d : disk) : cstate :=
  match d_applied d with
  | None => cstate0
  | Some la => fold_left replay_entry (take_while (fun p => negb (l_index la <? fst p)) (d_log d)) cstate0
  end.
Example C36_log_only_recovery_refuted :
  exists d, In d (crash_disks ex_ops rstore0) /\
            recover_state_log_only d <> sv_state (sm_apply (gprefix ex_G (acnt (d_applied d))) smv0).
Proof.
  destruct C36_example_nontrivial as [d [Hd _]]. exists d. split.
  - eapply nth_error_In. exact Hd.
  - vm_compute in Hd. inv Hd. vm_compute. discriminate.
Qed.

(* ====================================================================== C37 (partial by design) *)
(* Raft's own safety is openraft's and is a HYPOTHESIS here: every coordinator's storage is driven by calls that
   conform (wf_hist) to one committed log G (log matching / leader completeness / state-machine safety), and an
   acknowledged write is an entry of G. What is proved is what our code must add: with that, equal applied
   positions give equal replicated state machines - on RocksDB, across crashes and restarts, and between an
   in-memory and a persistent coordinator - and an acknowledged command stays folded into every later state. *)
Theorem C37_agree_partial : forall G ops1 ops2, ground_ok G ->
    wf_hist G rstore0 ops1 -> wf_hist G rstore0 ops2 ->
    rcnt (rs_run ops1 rstore0) = rcnt (rs_run ops2 rstore0) ->
    r_sm (rs_run ops1 rstore0) = r_sm (rs_run ops2 rstore0).
Proof. exact agree_rocks. Qed.

Theorem C37_agree_after_crash_partial : forall G ops1 ops2 d1 d2, ground_ok G ->
    wf_hist G rstore0 ops1 -> wf_hist G rstore0 ops2 ->
    In d1 (crash_disks ops1 rstore0) -> In d2 (crash_disks ops2 rstore0) ->
    acnt (d_applied d1) = acnt (d_applied d2) ->
    r_sm (ropen d1) = r_sm (ropen d2).
Proof. exact agree_after_crash. Qed.

Theorem C37_agree_mem_rocks_partial : forall G ops1 ops2, ground_ok G ->
    wf_hist G rstore0 ops1 -> wf_hist G rstore0 ops2 ->
    acnt (sv_applied (ms_sm (ms_run ops1 mstore0))) = rcnt (rs_run ops2 rstore0) ->
    ms_sm (ms_run ops1 mstore0) = r_sm (rs_run ops2 rstore0).
Proof. exact agree_mem_rocks. Qed.

Theorem C37_ack_not_lost_partial : forall G ops i e c, ground_ok G -> wf_hist G rstore0 ops ->
    nth_error G i = Some e -> e_pl e = PNormal c ->
    Z.of_nat i < rcnt (rs_run ops rstore0) ->
    exists before after,
      cmds_of (gprefix G (rcnt (rs_run ops rstore0))) = (before ++ c :: after)%list /\
      sv_state (r_sm (rs_run ops rstore0)) = apply_all after (apply_command (apply_all before cstate0) c).
Proof. exact ack_not_lost. Qed.

(* the hypotheses are satisfiable by two different histories over the same log (C36_example_conforming is one) *)
Example C37_example_two_nodes :
  let ops2 := [OInstall (leader_snapshot (firstn 3 ex_G)); OAppend (skipn 3 ex_G); OApply (skipn 3 ex_G)] in
  wf_hist ex_G rstore0 ops2 /\
  rcnt (rs_run ex_ops rstore0) = rcnt (rs_run ops2 rstore0) /\
  d_log (r_disk (rs_run ex_ops rstore0)) <> d_log (r_disk (rs_run ops2 rstore0)).
Proof.
  cbn zeta. split; [|split; [vm_compute; reflexivity|vm_compute; discriminate]].
  cbn [wf_hist]. repeat split.
  all: try (repeat constructor; vm_compute; discriminate).
  all: try (vm_compute; reflexivity).
  exists 3. split; [vm_compute; split; [reflexivity|discriminate]|reflexivity].
Qed.

(* Known finding C37 / class mem-store-restart: a coordinator on the in-memory store forgets its vote and its
   log when its process restarts, so the premise "every node conforms to one committed log" is void for it
   (it may vote twice in a term and may have acknowledged entries it no longer holds). The persistent store
   keeps both (C36_recover: r_disk (ropen d) = d). *)
Inductive store_kind := KMem | KRocks.
Definition Known_C37_mem_store_restart (k : store_kind) (restarts : nat) : Prop := k = KMem /\ (0 < restarts)%nat.
Definition restart_keeps_promises (k : store_kind) : Prop :=
  match k with
  | KRocks => forall s : rstore, r_disk (ropen (r_disk s)) = r_disk s
  | KMem => forall s : mstore, ms_vote (mem_restart s) = ms_vote s /\ ms_log (mem_restart s) = ms_log s
  end.
Theorem C37_restart_keeps_promises_partial : forall k restarts,
    ~ Known_C37_mem_store_restart k restarts -> (0 < restarts)%nat -> restart_keeps_promises k.
Proof.
  intros [] restarts Hk Hr; cbn.
  - exfalso. apply Hk. split; auto.
  - intros s. reflexivity.
Qed.
Theorem C37_mem_store_restart_refuted : exists k restarts, Known_C37_mem_store_restart k restarts /\ ~ restart_keeps_promises k.
Proof.
  exists KMem, 1%nat. split; [split; [reflexivity|lia]|].
  intros H. specialize (H (ms_step mstore0 (OVote {| v_term := 1; v_node := 1; v_committed := true |}))).
  destruct H as [H _]. vm_compute in H. discriminate.
Qed.

(* ====================================================================== C38 *)
(* sync_from_raft never changes a view that is in sync with the replicated state ... *)
Theorem C38_sync_idempotent : forall rs v, insync rs v -> veq (sync rs v) v.
Proof. exact sync_fixpoint. Qed.
(* ... replicating every primitive change (worker added / removed / status / assigned pipelines, group set / removed,
   connector set / removed, scaling policy) keeps the view in sync, from the empty coordinator on ... *)
Theorem C38_replicated_changes_stay_in_sync : forall ds rs v,
    insync rs v -> insync (apply_all (map cmd_of_delta ds) rs) (fold_left apply_delta ds v).
Proof. exact replicated_deltas_insync. Qed.
(* ... hence re-synchronising never reverts changes that were replicated *)
Theorem C38_no_revert : forall ds rs v, insync rs v ->
    veq (sync (apply_all (map cmd_of_delta ds) rs) (fold_left apply_delta ds v)) (fold_left apply_delta ds v).
Proof. intros. apply sync_fixpoint. now apply replicated_deltas_insync. Qed.
Theorem C38_reachable_in_sync : forall ds, insync (apply_all (map cmd_of_delta ds) cstate0) (fold_left apply_delta ds view0).
Proof. intros. apply replicated_deltas_insync. exact insync0. Qed.

(* Conversely a change of ANY kind that is not replicated is reverted by the next sync (for a status change: the
   recovery direction, replicated "unhealthy" vs local "ready"; for the scaling policy: once a policy has been replicated). *)
Definition ex_conn : connector := {| cn_name := 7%N; cn_type := 8%N; cn_params := []; cn_desc := None |}.
Definition ex_base : list delta :=
  [DAddWorker 5%N 9%N 9%N {| cpu_cores := 4; pipelines_running := 0; max_pipelines := 10 |}; DSetStatus 5%N SUnhealthy;
   DSetGroup 6%N (JNum 1); DSetConnector 7%N ex_conn; DSetPolicy (Some (JNum 0))].
Definition ex_rs : cstate := apply_all (map cmd_of_delta ex_base) cstate0.
Definition ex_view : view := fold_left apply_delta ex_base view0.
Definition ex_unreplicated (k : dkind) : delta :=
  match k with
  | KAddWorker => DAddWorker 4%N 9%N 9%N {| cpu_cores := 1; pipelines_running := 0; max_pipelines := 1 |}
  | KRemoveWorker => DRemoveWorker 5%N
  | KSetStatus => DSetStatus 5%N SReady
  | KSetAssigned => DSetAssigned 5%N [3%N]
  | KSetGroup => DSetGroup 6%N (JNum 2)
  | KRemoveGroup => DRemoveGroup 6%N
  | KSetConnector => DSetConnector 3%N ex_conn
  | KRemoveConnector => DRemoveConnector 7%N
  | KSetPolicy => DSetPolicy (Some (JNum 1))
  end.
Theorem C38_unreplicated_change_reverted : forall k,
    insync ex_rs ex_view /\ kind_of (ex_unreplicated k) = k /\
    ~ veq (sync ex_rs (apply_delta ex_view (ex_unreplicated k))) (apply_delta ex_view (ex_unreplicated k)).
Proof.
  intros k. split; [apply C38_reachable_in_sync|]. split; [destruct k; reflexivity|].
  intros (Hw & Hg & Hc & Hp).
  destruct k; cbn [ex_unreplicated] in *;
    try (specialize (Hw 5%N); vm_compute in Hw; discriminate);
    try (specialize (Hw 4%N); vm_compute in Hw; discriminate);
    try (specialize (Hg 6%N); vm_compute in Hg; discriminate);
    try (specialize (Hc 3%N); vm_compute in Hc; discriminate);
    try (specialize (Hc 7%N); vm_compute in Hc; discriminate);
    try (vm_compute in Hp; discriminate).
Qed.

(* The operations of the property text: each performs certain kinds of change (Sync.op_deltas) and sends the commands the
   translator found in its handler / health-loop branch (Gen_Replication.gen_replicates). Known finding classes = the
   operations that change something they do not replicate. *)
Definition Known_C38_not_replicated (o : op_kind) : Prop :=
  In o [OpDeploy; OpTeardown; OpManualMigrate; OpApiRebalance; OpDrain; OpFailover; OpAutoRebalance; OpRecovery].
Theorem C38_operations_replicate_their_changes : forall o,
    ~ Known_C38_not_replicated o -> covered (gen_replicates o) o = true.
Proof. intros [] H; try reflexivity; exfalso; apply H; cbn; tauto. Qed.
Theorem C38_not_replicated_refuted : exists o, Known_C38_not_replicated o /\ covered (gen_replicates o) o = false.
Proof. exists OpRecovery. split; [cbn; tauto|reflexivity]. Qed.
(* the list of uncovered operations in the current source, for the evidence file (not a requirement) *)
Definition uncovered_ops : list op_kind := filter (fun o => negb (covered (gen_replicates o) o)) all_ops.

