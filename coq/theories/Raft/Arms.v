(* Shape of the arms of state_machine.rs apply_command, as the translator
   translate/cluster_command.py extracts them (Gen_Commands.v gen_arm) and as the model
   implements them (model_arm, hand-written here next to Model.v apply_command).
   Props.v proves gen_arm = model_arm for every command and that model_arm describes
   what Model.apply_command does (frame + effect on the key). *)
From Coq Require Import String.
From VP Require Import Base.Tactics Raft.Model.
Open Scope string_scope.

Inductive sfield := FWorkers | FGroups | FConnectors | FMigrations | FPolicy | FModels.
Inductive action :=
| AInsert            (* state.F.insert(key, value) *)
| ARemove            (* state.F.remove(&key) *)
| AUpdateIfPresent   (* if let Some(x) = state.F.get_mut(&key) { x.target = value } *)
| AInsertIfStrId     (* if let Some(id) = task.get("id").and_then(as_str) { state.F.insert(id.to_string(), task) } *)
| AAssign.           (* state.F = value *)
(* a_key / a_val / a_target: the Rust expressions (identifiers) used, as text *)
Record arm := { a_field : sfield; a_action : action; a_key : string; a_val : string; a_target : string }.

Definition mk (f : sfield) (a : action) (k v t : string) : arm :=
  {| a_field := f; a_action := a; a_key := k; a_val := v; a_target := t |}.

Definition model_arm (c : command) : arm :=
  match c with
  | RegisterWorker _ _ _ _ => mk FWorkers AInsert "id.clone()" "WorkerEntry" ""
  | DeregisterWorker _ => mk FWorkers ARemove "id" "" ""
  | WorkerStatusChanged _ _ => mk FWorkers AUpdateIfPresent "id" "status" "w.status"
  | WorkerPipelinesUpdated _ _ => mk FWorkers AUpdateIfPresent "id" "assigned_pipelines" "w.assigned_pipelines"
  | GroupDeployed _ _ => mk FGroups AInsert "name" "group" ""
  | GroupUpdated _ _ => mk FGroups AInsert "name" "group" ""
  | GroupRemoved _ => mk FGroups ARemove "name" "" ""
  | MigrationStarted _ => mk FMigrations AInsertIfStrId "id.to_string()" "task" ""
  | MigrationUpdated _ _ => mk FMigrations AUpdateIfPresent "id" "serde_json::Value::String(status)" "m[""status""]"
  | MigrationRemoved _ => mk FMigrations ARemove "id" "" ""
  | ConnectorCreated _ _ => mk FConnectors AInsert "name" "connector" ""
  | ConnectorUpdated _ _ => mk FConnectors AInsert "name" "connector" ""
  | ConnectorRemoved _ => mk FConnectors ARemove "name" "" ""
  | ScalingPolicySet _ => mk FPolicy AAssign "" "policy" ""
  | ModelRegistered _ _ => mk FModels AInsert "name" "entry" ""
  | ModelRemoved _ => mk FModels ARemove "name" "" ""
  end.

(* the WorkerEntry literal built by the RegisterWorker arm: (field, initialiser) as text *)
Definition model_register_init : list (string * string) :=
  [("id", "id"); ("address", "address"); ("api_key", "api_key"); ("status", """ready"".to_string()");
   ("cpu_cores", "capacity.cpu_cores"); ("pipelines_running", "capacity.pipelines_running");
   ("max_pipelines", "capacity.max_pipelines"); ("assigned_pipelines", "Vec::new()"); ("events_processed", "0")].

(* the key a command addresses (first string field; for MigrationStarted the "id" inside the task) *)
Definition cmd_key (c : command) : option str :=
  match c with
  | RegisterWorker id _ _ _ | DeregisterWorker id | WorkerStatusChanged id _ | WorkerPipelinesUpdated id _
  | MigrationUpdated id _ | MigrationRemoved id => Some id
  | GroupDeployed n _ | GroupUpdated n _ | GroupRemoved n | ConnectorCreated n _ | ConnectorUpdated n _
  | ConnectorRemoved n | ModelRegistered n _ | ModelRemoved n => Some n
  | MigrationStarted t => json_get_str t s_id
  | ScalingPolicySet _ => None
  end.

(* "field f is the same in s and s'" *)
Definition same_on (f : sfield) (s s' : cstate) : Prop :=
  match f with
  | FWorkers => workers s = workers s'
  | FGroups => pipeline_groups s = pipeline_groups s'
  | FConnectors => connectors s = connectors s'
  | FMigrations => active_migrations s = active_migrations s'
  | FPolicy => scaling_policy s = scaling_policy s'
  | FModels => models s = models s'
  end.

(* "key k is bound in field f of s" *)
Definition has_key (f : sfield) (k : str) (s : cstate) : bool :=
  match f with
  | FWorkers => match mget k (workers s) with Some _ => true | None => false end
  | FGroups => match mget k (pipeline_groups s) with Some _ => true | None => false end
  | FConnectors => match mget k (connectors s) with Some _ => true | None => false end
  | FMigrations => match mget k (active_migrations s) with Some _ => true | None => false end
  | FPolicy => false
  | FModels => match mget k (models s) with Some _ => true | None => false end
  end.

(* names of the Rust variants / fields the model's constructors stand for (same order as Model.command) *)
Definition model_variant_names : list string :=
  ["RegisterWorker"; "DeregisterWorker"; "WorkerStatusChanged"; "WorkerPipelinesUpdated"; "GroupDeployed";
   "GroupUpdated"; "GroupRemoved"; "MigrationStarted"; "MigrationUpdated"; "MigrationRemoved"; "ConnectorCreated";
   "ConnectorUpdated"; "ConnectorRemoved"; "ScalingPolicySet"; "ModelRegistered"; "ModelRemoved"].
Definition model_field_names : list (list string) :=
  [["id"; "address"; "api_key"; "capacity"]; ["id"]; ["id"; "status"]; ["id"; "assigned_pipelines"];
   ["name"; "group"]; ["name"; "group"]; ["name"]; ["task"]; ["id"; "status"]; ["id"];
   ["name"; "connector"]; ["name"; "connector"]; ["name"]; ["policy"]; ["name"; "entry"]; ["name"]].
