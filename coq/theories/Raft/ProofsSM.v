(* Lemmas about the replicated state machine: batching, snapshot equivalence, arms table. *)
From Coq Require Import String.
From VP Require Import Base.Tactics Raft.Model Raft.Arms.
Open Scope Z_scope.

(* ------------------------------------------------------------------ maps *)
Section MapLemmas.
  Context {V : Type}.
  Lemma mget_mset_same : forall k (v : V) m, mget k (mset k v m) = Some v.
  Proof.
    induction m as [|[k' v'] r IH]; cbn [mset mget].
    - now rewrite N.eqb_refl.
    - destruct (N.eqb k k') eqn:E; cbn [mget]; rewrite ?N.eqb_refl, ?E; auto.
  Qed.
  Lemma mget_mset_other : forall k k' (v : V) m, k <> k' -> mget k (mset k' v m) = mget k m.
  Proof.
    intros k k' v m Hne. induction m as [|[k2 v2] r IH]; cbn [mset mget].
    - destruct (N.eqb k k') eqn:E; auto. apply N.eqb_eq in E. contradiction.
    - destruct (N.eqb k' k2) eqn:E; cbn [mget].
      + apply N.eqb_eq in E. subst k2. destruct (N.eqb k k') eqn:E2; auto.
        apply N.eqb_eq in E2. contradiction.
      + destruct (N.eqb k k2); auto.
  Qed.
  Lemma mget_mremove_same : forall k (m : amap V), mget k (mremove k m) = None.
  Proof.
    induction m as [|[k' v'] r IH]; cbn [mremove mget]; auto.
    destruct (N.eqb k k') eqn:E; cbn [mget]; rewrite ?E; auto.
  Qed.
  Lemma mget_mremove_other : forall k k' (m : amap V), k <> k' -> mget k (mremove k' m) = mget k m.
  Proof.
    intros k k' m Hne. induction m as [|[k2 v2] r IH]; cbn [mremove mget]; auto.
    destruct (N.eqb k' k2) eqn:E; cbn [mget].
    - apply N.eqb_eq in E. subst k2. destruct (N.eqb k k') eqn:E2; auto.
      apply N.eqb_eq in E2. contradiction.
    - destruct (N.eqb k k2); auto.
  Qed.
End MapLemmas.

(* ------------------------------------------------------------------ batching *)
Lemma apply_all_app : forall l1 l2 s, apply_all (l1 ++ l2) s = apply_all l2 (apply_all l1 s).
Proof. intros. unfold apply_all. apply fold_left_app. Qed.

Lemma sm_apply_app : forall a b v, sm_apply (a ++ b) v = sm_apply b (sm_apply a v).
Proof. intros. unfold sm_apply. apply fold_left_app. Qed.

Lemma sm_apply_batches : forall (batches : list (list entry)) v,
    fold_left (fun v b => sm_apply b v) batches v = sm_apply (concat batches) v.
Proof.
  induction batches as [|b r IH]; intros v; cbn [fold_left concat]; auto.
  rewrite IH, sm_apply_app. reflexivity.
Qed.

(* the commands of a list of entries, in order *)
Fixpoint cmds_of (es : list entry) : list command :=
  match es with
  | [] => []
  | e :: r => match e_pl e with PNormal c => c :: cmds_of r | _ => cmds_of r end
  end.

Lemma sm_apply_state : forall es v, sv_state (sm_apply es v) = apply_all (cmds_of es) (sv_state v).
Proof.
  induction es as [|e r IH]; intros v; cbn [sm_apply fold_left cmds_of]; auto.
  change (fold_left sm_apply_entry r (sm_apply_entry v e)) with (sm_apply r (sm_apply_entry v e)).
  rewrite IH. unfold sm_apply_entry. destruct (e_pl e); cbn [sv_state apply_all fold_left]; auto.
Qed.

Lemma sm_apply_applied : forall es v,
    sv_applied (sm_apply es v) = match rev es with [] => sv_applied v | e :: _ => Some (e_id e) end.
Proof.
  intros es. induction es as [|e r IH] using rev_ind; intros v; cbn [rev]; auto.
  rewrite sm_apply_app, rev_app_distr. cbn [rev app sm_apply fold_left].
  unfold sm_apply_entry. destruct (e_pl e); reflexivity.
Qed.

(* last membership entry of a list, if any *)
Fixpoint last_member (es : list entry) (m : smember) : smember :=
  match es with
  | [] => m
  | e :: r => match e_pl e with
              | PMember c => last_member r {| sm_id := Some (e_id e); sm_cfg := c |}
              | _ => last_member r m
              end
  end.
Lemma sm_apply_member : forall es v, sv_member (sm_apply es v) = last_member es (sv_member v).
Proof.
  induction es as [|e r IH]; intros v; cbn [sm_apply fold_left last_member]; auto.
  change (fold_left sm_apply_entry r (sm_apply_entry v e)) with (sm_apply r (sm_apply_entry v e)).
  rewrite IH. unfold sm_apply_entry. destruct (e_pl e); reflexivity.
Qed.

(* ------------------------------------------------------------------ snapshots *)
Lemma sm_install_snapshot : forall v, sm_install (sm_snapshot v) = v.
Proof. intros []. reflexivity. Qed.

Lemma snapshot_then_rest : forall es1 es2,
    sm_apply es2 (sm_install (leader_snapshot es1)) = sm_apply (es1 ++ es2) smv0.
Proof. intros. unfold leader_snapshot. rewrite sm_install_snapshot, sm_apply_app. reflexivity. Qed.

(* store level: the state machine part of a store only depends on the apply/install ops *)
Lemma ms_apply_batches : forall batches s,
    ms_sm (fold_left (fun s b => ms_apply b s) batches s) = sm_apply (concat batches) (ms_sm s).
Proof.
  induction batches as [|b r IH]; intros s; cbn [fold_left concat]; auto.
  rewrite IH, sm_apply_app. reflexivity.
Qed.
Lemma rs_apply_batches : forall batches s,
    r_sm (fold_left (fun s b => rs_step s (OApply b)) batches s) = sm_apply (concat batches) (r_sm s).
Proof.
  induction batches as [|b r IH]; intros s; cbn [fold_left concat]; auto.
  rewrite IH, sm_apply_app. reflexivity.
Qed.
(* ... and what RocksStore persists after the last batch is the applied position and membership of its memory *)
Lemma rs_apply_persisted : forall b s,
    d_applied (r_disk (rs_step s (OApply b))) = sv_applied (r_sm (rs_step s (OApply b))) /\
    d_member (r_disk (rs_step s (OApply b))) = sv_member (r_sm (rs_step s (OApply b))).
Proof. intros. split; reflexivity. Qed.

(* ------------------------------------------------------------------ panic freedom of the indexing arm *)
Definition is_obj (j : json) : bool := match j with JObj _ => true | _ => false end.
Definition migs_ok (s : cstate) : Prop := forall k m, mget k (active_migrations s) = Some m -> is_obj m = true.

Lemma migs_ok_apply : forall s c, migs_ok s -> migs_ok (apply_command s c).
Proof.
  intros s c H. destruct c; cbn [apply_command]; try exact H;
    try (repeat destr_match; try exact H; intros k m; cbn; apply H).
  - (* MigrationStarted *)
    destruct (json_get_str task s_id) as [mid|] eqn:E; try exact H.
    intros k m. cbn [active_migrations set_migrations].
    destruct (N.eq_dec k mid) as [->|Hne].
    + rewrite mget_mset_same. intros Heq. inv Heq.
      destruct m; cbn in E; try discriminate. reflexivity.
    + rewrite mget_mset_other by exact Hne. apply H.
  - (* MigrationUpdated *)
    destruct (mget id (active_migrations s)) as [j|] eqn:E; try exact H.
    destruct (json_index_set j s_status (JStr status)) as [j'|] eqn:E2; try exact H.
    intros k m. cbn [active_migrations set_migrations].
    destruct (N.eq_dec k id) as [->|Hne].
    + rewrite mget_mset_same. intros Heq. inv Heq.
      destruct j; cbn in E2; inv E2; reflexivity.
    + rewrite mget_mset_other by exact Hne. apply H.
  - (* MigrationRemoved *)
    intros k m. cbn [active_migrations set_migrations].
    destruct (N.eq_dec k id) as [->|Hne].
    + rewrite mget_mremove_same. discriminate.
    + rewrite mget_mremove_other by exact Hne. apply H.
Qed.

Lemma migs_ok_no_panic : forall s c, migs_ok s -> cmd_panics s c = false.
Proof.
  intros s c H. destruct c; cbn [cmd_panics]; auto.
  destruct (mget id (active_migrations s)) as [j|] eqn:E; auto.
  apply H in E. destruct j; cbn in E; try discriminate. reflexivity.
Qed.

Lemma migs_ok_apply_all : forall l s, migs_ok s -> migs_ok (apply_all l s).
Proof. induction l; intros s H; cbn; auto. apply IHl. now apply migs_ok_apply. Qed.

Lemma migs_ok0 : migs_ok cstate0.
Proof. intros k m. cbn. discriminate. Qed.

Lemma sm_no_panic : forall es v, migs_ok (sv_state v) -> sm_panics es v = false.
Proof.
  induction es as [|e r IH]; intros v H; cbn [sm_panics]; auto.
  assert (Hn : sm_panics_entry v e = false).
  { unfold sm_panics_entry. destruct (e_pl e); auto. now apply migs_ok_no_panic. }
  rewrite Hn. cbn [orb]. apply IH.
  unfold sm_apply_entry. destruct (e_pl e); cbn [sv_state]; auto. now apply migs_ok_apply.
Qed.

(* ------------------------------------------------------------------ arms table describes apply_command *)
Lemma sfield_eq_dec : forall a b : sfield, {a = b} + {a <> b}.
Proof. decide equality. Qed.

Lemma arm_frame : forall s c f, f <> a_field (model_arm c) -> same_on f s (apply_command s c).
Proof.
  intros s c f Hne.
  destruct c; cbn [model_arm mk a_field] in Hne; cbn [apply_command];
    repeat destr_match; destruct f; try contradiction; reflexivity.
Qed.

Lemma arm_effect : forall s c k,
    cmd_key c = Some k ->
    match a_action (model_arm c) with
    | AInsert | AInsertIfStrId => has_key (a_field (model_arm c)) k (apply_command s c) = true
    | ARemove => has_key (a_field (model_arm c)) k (apply_command s c) = false
    | AUpdateIfPresent => has_key (a_field (model_arm c)) k (apply_command s c) = has_key (a_field (model_arm c)) k s
    | AAssign => True
    end.
Proof.
  intros s c k Hk.
  destruct c; cbn [cmd_key] in Hk; inv Hk; cbn [model_arm mk a_action a_field has_key apply_command];
    cbn [workers pipeline_groups connectors active_migrations models set_workers set_groups set_connectors set_migrations set_models];
    rewrite ?mget_mset_same, ?mget_mremove_same; auto.
  - destruct (mget k (workers s)) eqn:E; cbn [workers set_workers]; rewrite ?mget_mset_same, ?E; auto.
  - destruct (mget k (workers s)) eqn:E; cbn [workers set_workers]; rewrite ?mget_mset_same, ?E; auto.
  - rewrite H0. cbn [active_migrations set_migrations]. now rewrite mget_mset_same.
  - destruct (mget k (active_migrations s)) eqn:E; cbn [active_migrations set_migrations]; rewrite ?E; auto.
    destruct (json_index_set j s_status (JStr status)); cbn [active_migrations set_migrations]; rewrite ?mget_mset_same, ?E; auto.
Qed.
