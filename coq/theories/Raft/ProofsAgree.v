(* C37 (partial by design): what follows for the coordinators' agreement from C35 (determinism, both
   stores equal) and C36 (recovery), GIVEN openraft's safety as a hypothesis: every node's storage calls
   conform (wf_hist) to ONE committed log G, and an acknowledged write is an entry of G. *)
From Coq Require Import String Sorting.Sorted.
From VP Require Import Base.Tactics Raft.Model Raft.ProofsSM Raft.ProofsLog Raft.ProofsRecover.
Open Scope Z_scope.

Lemma conforming_state : forall G ops, ground_ok G -> wf_hist G rstore0 ops ->
    r_sm (rs_run ops rstore0) = sm_apply (gprefix G (rcnt (rs_run ops rstore0))) smv0.
Proof.
  intros G ops Hg Hwf. pose proof (inv_run G ops rstore0 Hg (inv0 G) Hwf) as (_ & _ & _ & Hsm & _). exact Hsm.
Qed.

Lemma agree_rocks : forall G ops1 ops2, ground_ok G ->
    wf_hist G rstore0 ops1 -> wf_hist G rstore0 ops2 ->
    rcnt (rs_run ops1 rstore0) = rcnt (rs_run ops2 rstore0) ->
    r_sm (rs_run ops1 rstore0) = r_sm (rs_run ops2 rstore0).
Proof.
  intros G ops1 ops2 Hg H1 H2 Hpos.
  rewrite (conforming_state G ops1 Hg H1), (conforming_state G ops2 Hg H2), Hpos. reflexivity.
Qed.

(* ... also when either node crashed at any point and was restarted *)
Lemma agree_after_crash : forall G ops1 ops2 d1 d2, ground_ok G ->
    wf_hist G rstore0 ops1 -> wf_hist G rstore0 ops2 ->
    In d1 (crash_disks ops1 rstore0) -> In d2 (crash_disks ops2 rstore0) ->
    acnt (d_applied d1) = acnt (d_applied d2) ->
    r_sm (ropen d1) = r_sm (ropen d2).
Proof.
  intros G ops1 ops2 d1 d2 Hg H1 H2 I1 I2 Hpos.
  destruct (recover_after_crash G ops1 d1 Hg H1 I1) as [_ ->].
  destruct (recover_after_crash G ops2 d2 Hg H2 I2) as [_ ->]. now rewrite Hpos.
Qed.

(* a coordinator on the in-memory store and one on RocksDB *)
Lemma agree_mem_rocks : forall G ops1 ops2, ground_ok G ->
    wf_hist G rstore0 ops1 -> wf_hist G rstore0 ops2 ->
    acnt (sv_applied (ms_sm (ms_run ops1 mstore0))) = rcnt (rs_run ops2 rstore0) ->
    ms_sm (ms_run ops1 mstore0) = r_sm (rs_run ops2 rstore0).
Proof.
  intros G ops1 ops2 Hg H1 H2 Hpos.
  assert (Ha : agree (ms_run ops1 mstore0) (rs_run ops1 rstore0)) by (apply agree_run; [constructor|exact agree0]).
  destruct Ha as (_ & _ & _ & Hsm & _). rewrite Hsm in *. now apply (agree_rocks G).
Qed.

(* an acknowledged write (entry number i of the committed log) is folded into the state of every
   coordinator whose applied position is beyond i, and stays there *)
Lemma cmds_of_app : forall a b, cmds_of (a ++ b) = cmds_of a ++ cmds_of b.
Proof.
  induction a as [|e r IH]; intros b; cbn [app cmds_of]; auto. destruct (e_pl e); cbn [app]; now rewrite IH.
Qed.

Lemma firstn_nth_split : forall {A} (l : list A) i n x, nth_error l i = Some x -> (i < n)%nat ->
    firstn n l = firstn i l ++ x :: firstn (n - S i) (skipn (S i) l).
Proof.
  induction l as [|a r IH]; intros i n x H Hlt; destruct i; cbn in H; try discriminate.
  - inv H. destruct n; [lia|]. cbn. now rewrite Nat.sub_0_r.
  - destruct n; [lia|]. cbn [firstn app]. f_equal. rewrite (IH i n x H) by lia. reflexivity.
Qed.

Lemma ack_not_lost : forall G ops i e c, ground_ok G -> wf_hist G rstore0 ops ->
    nth_error G i = Some e -> e_pl e = PNormal c ->
    Z.of_nat i < rcnt (rs_run ops rstore0) ->
    exists before after,
      cmds_of (gprefix G (rcnt (rs_run ops rstore0))) = before ++ c :: after /\
      sv_state (r_sm (rs_run ops rstore0)) = apply_all after (apply_command (apply_all before cstate0) c).
Proof.
  intros G ops i e c Hg Hwf Hnth Hpl Hpos.
  rewrite (conforming_state G ops Hg Hwf). set (n := rcnt (rs_run ops rstore0)) in *.
  unfold gprefix. rewrite (firstn_nth_split G i (Z.to_nat n) e Hnth) by lia.
  exists (cmds_of (firstn i G)), (cmds_of (firstn (Z.to_nat n - S i) (skipn (S i) G))).
  split.
  - rewrite cmds_of_app. cbn [cmds_of]. now rewrite Hpl.
  - rewrite sm_apply_state, cmds_of_app. cbn [cmds_of]. rewrite Hpl.
    rewrite apply_all_app. reflexivity.
Qed.
