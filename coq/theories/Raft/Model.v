(* Executable model of the Raft-replicated coordinator state of crates/varpulis-cluster/src/raft/.
   Definitions only.

   Rust                                                   here
   ----                                                   ----
   mod.rs            enum ClusterCommand                  command (constructor for constructor; tied by
                                                          translate/cluster_command.py => Gen_Commands.v)
   state_machine.rs  CoordinatorState / WorkerEntry       cstate / worker
                     apply_command                        apply_command (+ cmd_panics: the one arm that can panic)
   store.rs          MemStore (RaftStorage v1)            mstore, ms_* (one function per trait method)
                     LogReader / try_get_log_entries      mem_range   (BTreeMap::range)
   persistent_store.rs RocksStore                         rstore = disk (three column families) + volatile part
                     each trait method                    rs_*  : volatile update + ONE atomic disk write (WriteBatch)
                     RocksLogReader/try_get_log_entries   rk_range    (seek + iterate until the end bound)
                     open / recover_metadata / replay_log ropen / recover_state
   Strings are interned as N (the harness prints "id","status","ready" for 0,1,2 and "s<n>" otherwise);
   HashMap / serde_json::Map are association lists (insert replaces in place, order never observed:
   rendering sorts by key).  u64 / usize are unbounded Z (indices far from 2^64). *)
From VP Require Import Base.Tactics.
Open Scope Z_scope.

Definition str := N.
Definition s_id : str := 0%N.
Definition s_status : str := 1%N.
Definition s_ready : str := 2%N.

(* ------------------------------------------------------------------ maps *)
Section AMap.
  Context {V : Type}.
  Definition amap := list (str * V).
  Fixpoint mget (k : str) (m : amap) : option V :=
    match m with
    | [] => None
    | (k', v) :: r => if N.eqb k k' then Some v else mget k r
    end.
  Fixpoint mset (k : str) (v : V) (m : amap) : amap :=
    match m with
    | [] => [(k, v)]
    | (k', v') :: r => if N.eqb k k' then (k, v) :: r else (k', v') :: mset k v r
    end.
  Fixpoint mremove (k : str) (m : amap) : amap :=
    match m with
    | [] => []
    | (k', v') :: r => if N.eqb k k' then mremove k r else (k', v') :: mremove k r
    end.
End AMap.
Arguments amap V : clear implicits.

(* ------------------------------------------------------------------ serde_json::Value *)
Inductive json :=
| JNull | JBool (b : bool) | JNum (z : Z) | JStr (s : str)
| JArr (l : list json) | JObj (l : list (str * json)).

(* task.get("id").and_then(|v| v.as_str()) : Value::get on a non-object is None *)
Definition json_get_str (j : json) (k : str) : option str :=
  match j with
  | JObj l => match mget k l with Some (JStr s) => Some s | _ => None end
  | _ => None
  end.

(* m["status"] = v  (IndexMut<&str>): Null becomes an object, an object gets the key
   inserted/replaced, anything else panics (None). *)
Definition json_index_set (j : json) (k : str) (v : json) : option json :=
  match j with
  | JNull => Some (JObj [(k, v)])
  | JObj l => Some (JObj (mset k v l))
  | _ => None
  end.

(* ------------------------------------------------------------------ commands *)
Record capacity := { cpu_cores : Z; pipelines_running : Z; max_pipelines : Z }.
Record connector := { cn_name : str; cn_type : str; cn_params : list (str * str); cn_desc : option str }.
Record model_entry := { me_name : str; me_s3_key : str; me_format : str; me_inputs : list str;
                        me_outputs : list str; me_size : Z; me_uploaded : str; me_desc : str }.

Inductive command :=
| RegisterWorker (id address api_key : str) (capacity : capacity)
| DeregisterWorker (id : str)
| WorkerStatusChanged (id status : str)
| WorkerPipelinesUpdated (id : str) (assigned_pipelines : list str)
| GroupDeployed (name : str) (group : json)
| GroupUpdated (name : str) (group : json)
| GroupRemoved (name : str)
| MigrationStarted (task : json)
| MigrationUpdated (id status : str)
| MigrationRemoved (id : str)
| ConnectorCreated (name : str) (connector : connector)
| ConnectorUpdated (name : str) (connector : connector)
| ConnectorRemoved (name : str)
| ScalingPolicySet (policy : option json)
| ModelRegistered (name : str) (entry : model_entry)
| ModelRemoved (name : str).

(* ------------------------------------------------------------------ replicated state *)
Record worker := { w_id : str; w_address : str; w_api_key : str; w_status : str;
                   w_cpu_cores : Z; w_pipelines_running : Z; w_max_pipelines : Z;
                   w_assigned : list str; w_events : Z }.

Record cstate := { workers : amap worker; pipeline_groups : amap json; connectors : amap connector;
                   active_migrations : amap json; scaling_policy : option json; models : amap model_entry }.

Definition cstate0 : cstate :=
  {| workers := []; pipeline_groups := []; connectors := []; active_migrations := [];
     scaling_policy := None; models := [] |}.

Definition set_workers (s : cstate) (x : amap worker) : cstate :=
  {| workers := x; pipeline_groups := pipeline_groups s; connectors := connectors s;
     active_migrations := active_migrations s; scaling_policy := scaling_policy s; models := models s |}.
Definition set_groups (s : cstate) (x : amap json) : cstate :=
  {| workers := workers s; pipeline_groups := x; connectors := connectors s;
     active_migrations := active_migrations s; scaling_policy := scaling_policy s; models := models s |}.
Definition set_connectors (s : cstate) (x : amap connector) : cstate :=
  {| workers := workers s; pipeline_groups := pipeline_groups s; connectors := x;
     active_migrations := active_migrations s; scaling_policy := scaling_policy s; models := models s |}.
Definition set_migrations (s : cstate) (x : amap json) : cstate :=
  {| workers := workers s; pipeline_groups := pipeline_groups s; connectors := connectors s;
     active_migrations := x; scaling_policy := scaling_policy s; models := models s |}.
Definition set_policy (s : cstate) (x : option json) : cstate :=
  {| workers := workers s; pipeline_groups := pipeline_groups s; connectors := connectors s;
     active_migrations := active_migrations s; scaling_policy := x; models := models s |}.
Definition set_models (s : cstate) (x : amap model_entry) : cstate :=
  {| workers := workers s; pipeline_groups := pipeline_groups s; connectors := connectors s;
     active_migrations := active_migrations s; scaling_policy := scaling_policy s; models := x |}.

Definition worker_with_status (w : worker) (st : str) : worker :=
  {| w_id := w_id w; w_address := w_address w; w_api_key := w_api_key w; w_status := st;
     w_cpu_cores := w_cpu_cores w; w_pipelines_running := w_pipelines_running w;
     w_max_pipelines := w_max_pipelines w; w_assigned := w_assigned w; w_events := w_events w |}.
Definition worker_with_assigned (w : worker) (a : list str) : worker :=
  {| w_id := w_id w; w_address := w_address w; w_api_key := w_api_key w; w_status := w_status w;
     w_cpu_cores := w_cpu_cores w; w_pipelines_running := w_pipelines_running w;
     w_max_pipelines := w_max_pipelines w; w_assigned := a; w_events := w_events w |}.

(* state_machine.rs apply_command, arm for arm.  The response is always ClusterResponse::Ok. *)
Definition apply_command (s : cstate) (c : command) : cstate :=
  match c with
  | RegisterWorker id address api_key cap =>
      set_workers s (mset id {| w_id := id; w_address := address; w_api_key := api_key; w_status := s_ready;
                                w_cpu_cores := cpu_cores cap; w_pipelines_running := pipelines_running cap;
                                w_max_pipelines := max_pipelines cap; w_assigned := []; w_events := 0 |}
                          (workers s))
  | DeregisterWorker id => set_workers s (mremove id (workers s))
  | WorkerStatusChanged id status =>
      match mget id (workers s) with
      | Some w => set_workers s (mset id (worker_with_status w status) (workers s))
      | None => s
      end
  | WorkerPipelinesUpdated id assigned =>
      match mget id (workers s) with
      | Some w => set_workers s (mset id (worker_with_assigned w assigned) (workers s))
      | None => s
      end
  | GroupDeployed name group => set_groups s (mset name group (pipeline_groups s))
  | GroupUpdated name group => set_groups s (mset name group (pipeline_groups s))
  | GroupRemoved name => set_groups s (mremove name (pipeline_groups s))
  | MigrationStarted task =>
      match json_get_str task s_id with
      | Some id => set_migrations s (mset id task (active_migrations s))
      | None => s
      end
  | MigrationUpdated id status =>
      match mget id (active_migrations s) with
      | Some m =>
          match json_index_set m s_status (JStr status) with
          | Some m' => set_migrations s (mset id m' (active_migrations s))
          | None => s   (* Rust panics here; see cmd_panics *)
          end
      | None => s
      end
  | MigrationRemoved id => set_migrations s (mremove id (active_migrations s))
  | ConnectorCreated name c => set_connectors s (mset name c (connectors s))
  | ConnectorUpdated name c => set_connectors s (mset name c (connectors s))
  | ConnectorRemoved name => set_connectors s (mremove name (connectors s))
  | ScalingPolicySet policy => set_policy s policy
  | ModelRegistered name e => set_models s (mset name e (models s))
  | ModelRemoved name => set_models s (mremove name (models s))
  end.

(* The only panic site of apply_command: indexing a stored migration that is neither an object nor null. *)
Definition cmd_panics (s : cstate) (c : command) : bool :=
  match c with
  | MigrationUpdated id status =>
      match mget id (active_migrations s) with
      | Some m => match json_index_set m s_status (JStr status) with Some _ => false | None => true end
      | None => false
      end
  | _ => false
  end.

Definition apply_all (l : list command) (s : cstate) : cstate := fold_left apply_command l s.

(* ------------------------------------------------------------------ log entries *)
Record logid := { l_term : Z; l_node : Z; l_index : Z }.
Inductive payload := PBlank | PNormal (c : command) | PMember (m : N).
Record entry := { e_id : logid; e_pl : payload }.
Record vote := { v_term : Z; v_node : Z; v_committed : bool }.
(* StoredMembership: log id of the membership entry + the config (opaque id; 0 = default) *)
Record smember := { sm_id : option logid; sm_cfg : N }.
Definition smember0 : smember := {| sm_id := None; sm_cfg := 0%N |}.

(* SnapshotMeta (last_log_id, last_membership; snapshot_id is derived from last_log_id) + the
   CoordinatorState inside the serialized data (install_snapshot uses meta's ids and data's state). *)
Record snapshot := { sn_last : option logid; sn_mem : smember; sn_state : cstate }.

Definition oidx (o : option logid) : Z := match o with Some l => l_index l | None => 0 end.

(* ------------------------------------------------------------------ the log: BTreeMap<u64, Entry> /
   default column family keyed by big-endian index: ascending association list *)
Definition log := list (Z * entry).

Fixpoint log_insert (i : Z) (e : entry) (l : log) : log :=
  match l with
  | [] => [(i, e)]
  | (j, e') :: r =>
      if i <? j then (i, e) :: l
      else if i =? j then (i, e) :: r
      else (j, e') :: log_insert i e r
  end.
Definition log_append (es : list entry) (l : log) : log :=
  fold_left (fun l e => log_insert (l_index (e_id e)) e l) es l.
Fixpoint log_get (i : Z) (l : log) : option entry :=
  match l with
  | [] => None
  | (j, e) :: r => if i =? j then Some e else log_get i r
  end.
Definition log_last (l : log) : option logid :=
  match rev l with [] => None | (_, e) :: _ => Some (e_id e) end.

Fixpoint take_while {A} (f : A -> bool) (l : list A) : list A :=
  match l with [] => [] | x :: r => if f x then x :: take_while f r else [] end.
Fixpoint drop_while {A} (f : A -> bool) (l : list A) : list A :=
  match l with [] => [] | x :: r => if f x then drop_while f r else l end.

Inductive bound := BIncl (n : Z) | BExcl (n : Z) | BUnb.
Definition in_range (lo hi : bound) (i : Z) : bool :=
  (match lo with BIncl n => n <=? i | BExcl n => n <? i | BUnb => true end) &&
  (match hi with BIncl n => i <=? n | BExcl n => i <? n | BUnb => true end).

(* store.rs: log.range(range) *)
Definition mem_range (lo hi : bound) (l : log) : list entry :=
  map snd (filter (fun p => in_range lo hi (fst p)) l).
(* store.rs delete_conflict_logs_since: remove range(index..) ; purge_logs_upto: remove range(..=index) *)
Definition mem_delete_since (i : Z) (l : log) : log := filter (fun p => negb (i <=? fst p)) l.
Definition mem_purge_upto (i : Z) (l : log) : log := filter (fun p => negb (fst p <=? i)) l.

(* persistent_store.rs try_get_log_entries (store and RocksLogReader): normalise the bounds,
   seek to start, iterate forward, break at the first index >= end *)
Definition rk_start (lo : bound) : Z := match lo with BIncl n => n | BExcl n => n + 1 | BUnb => 0 end.
Definition rk_end (hi : bound) : option Z := match hi with BIncl n => Some (n + 1) | BExcl n => Some n | BUnb => None end.
Definition rk_range (lo hi : bound) (l : log) : list entry :=
  map snd (take_while (fun p => match rk_end hi with Some e => negb (e <=? fst p) | None => true end)
                      (drop_while (fun p => fst p <? rk_start lo) l)).
(* delete_conflict_logs_since: seek to index, delete everything after; purge_logs_upto: from the start
   delete until the first index >= index+1 *)
Definition rk_delete_since (i : Z) (l : log) : log := take_while (fun p => fst p <? i) l.
Definition rk_purge_upto (i : Z) (l : log) : log := drop_while (fun p => negb (i + 1 <=? fst p)) l.

(* ------------------------------------------------------------------ state machine part shared by both stores *)
Record smv := { sv_applied : option logid; sv_member : smember; sv_state : cstate }.
Definition smv0 : smv := {| sv_applied := None; sv_member := smember0; sv_state := cstate0 |}.

(* one iteration of the loop in apply_to_state_machine *)
Definition sm_apply_entry (v : smv) (e : entry) : smv :=
  match e_pl e with
  | PBlank => {| sv_applied := Some (e_id e); sv_member := sv_member v; sv_state := sv_state v |}
  | PNormal c => {| sv_applied := Some (e_id e); sv_member := sv_member v; sv_state := apply_command (sv_state v) c |}
  | PMember m => {| sv_applied := Some (e_id e); sv_member := {| sm_id := Some (e_id e); sm_cfg := m |}; sv_state := sv_state v |}
  end.
Definition sm_apply (es : list entry) (v : smv) : smv := fold_left sm_apply_entry es v.
Definition sm_panics_entry (v : smv) (e : entry) : bool :=
  match e_pl e with PNormal c => cmd_panics (sv_state v) c | _ => false end.
Fixpoint sm_panics (es : list entry) (v : smv) : bool :=
  match es with [] => false | e :: r => sm_panics_entry v e || sm_panics r (sm_apply_entry v e) end.

(* get_snapshot_builder + build_snapshot *)
Definition sm_snapshot (v : smv) : snapshot :=
  {| sn_last := sv_applied v; sn_mem := sv_member v; sn_state := sv_state v |}.
(* install_snapshot *)
Definition sm_install (sn : snapshot) : smv :=
  {| sv_applied := sn_last sn; sv_member := sn_mem sn; sv_state := sn_state sn |}.

(* ------------------------------------------------------------------ MemStore *)
Record mstore := { ms_vote : option vote; ms_log : log; ms_purged : option logid;
                   ms_sm : smv; ms_snap : option snapshot }.
Definition mstore0 : mstore :=
  {| ms_vote := None; ms_log := []; ms_purged := None; ms_sm := smv0; ms_snap := None |}.

Definition ms_save_vote (v : vote) (s : mstore) : mstore :=
  {| ms_vote := Some v; ms_log := ms_log s; ms_purged := ms_purged s; ms_sm := ms_sm s; ms_snap := ms_snap s |}.
Definition ms_with_log (s : mstore) (l : log) (p : option logid) : mstore :=
  {| ms_vote := ms_vote s; ms_log := l; ms_purged := p; ms_sm := ms_sm s; ms_snap := ms_snap s |}.
Definition ms_with_sm (s : mstore) (v : smv) (sn : option snapshot) : mstore :=
  {| ms_vote := ms_vote s; ms_log := ms_log s; ms_purged := ms_purged s; ms_sm := v; ms_snap := sn |}.
Definition ms_append (es : list entry) (s : mstore) : mstore := ms_with_log s (log_append es (ms_log s)) (ms_purged s).
Definition ms_delete_since (l : logid) (s : mstore) : mstore := ms_with_log s (mem_delete_since (l_index l) (ms_log s)) (ms_purged s).
Definition ms_purge (l : logid) (s : mstore) : mstore := ms_with_log s (mem_purge_upto (l_index l) (ms_log s)) (Some l).
Definition ms_apply (es : list entry) (s : mstore) : mstore := ms_with_sm s (sm_apply es (ms_sm s)) (ms_snap s).
Definition ms_build (s : mstore) : mstore := ms_with_sm s (ms_sm s) (Some (sm_snapshot (ms_sm s))).
Definition ms_install (sn : snapshot) (s : mstore) : mstore := ms_with_sm s (sm_install sn) (Some sn).
(* A coordinator process that restarts on the in-memory store starts from MemStore::with_shared_state()
   again: nothing survives (bootstrap(), the non-persistent mode). *)
Definition mem_restart (s : mstore) : mstore := mstore0.
(* get_log_state: (last_purged, last_log_id) *)
Definition opt_or {A} (a b : option A) : option A := match a with Some _ => a | None => b end.
Definition ms_log_state (s : mstore) : option logid * option logid :=
  (ms_purged s, opt_or (log_last (ms_log s)) (ms_purged s)).

(* ------------------------------------------------------------------ RocksStore *)
(* the three column families: default (log), meta (vote, last_purged, last_applied, last_membership),
   snapshots (snapshot_data + snapshot_meta, always written together) *)
Record disk := { d_log : log; d_vote : option vote; d_purged : option logid;
                 d_applied : option logid; d_member : smember; d_snap : option snapshot }.
Definition disk0 : disk :=
  {| d_log := []; d_vote := None; d_purged := None; d_applied := None; d_member := smember0; d_snap := None |}.
Record rstore := { r_disk : disk; r_sm : smv }.

Definition d_with_vote (d : disk) (v : vote) : disk :=
  {| d_log := d_log d; d_vote := Some v; d_purged := d_purged d; d_applied := d_applied d; d_member := d_member d; d_snap := d_snap d |}.
Definition d_with_log (d : disk) (l : log) (p : option logid) : disk :=
  {| d_log := l; d_vote := d_vote d; d_purged := p; d_applied := d_applied d; d_member := d_member d; d_snap := d_snap d |}.
Definition d_with_sm (d : disk) (a : option logid) (m : smember) (sn : option snapshot) : disk :=
  {| d_log := d_log d; d_vote := d_vote d; d_purged := d_purged d; d_applied := a; d_member := m; d_snap := sn |}.

(* Every mutating trait method performs exactly one atomic RocksDB write (a single put or one
   WriteBatch).  [op_write] is that write as a function of the volatile state after the
   in-memory part of the method ran; a crash leaves either the old or the new disk. *)
Inductive op :=
| OVote (v : vote)
| OAppend (es : list entry)
| ODelete (l : logid)
| OPurge (l : logid)
| OApply (es : list entry)
| OBuild
| OInstall (sn : snapshot).

(* the same ops on the MemStore *)
Definition ms_step (s : mstore) (o : op) : mstore :=
  match o with
  | OVote v => ms_save_vote v s
  | OAppend es => ms_append es s
  | ODelete l => ms_delete_since l s
  | OPurge l => ms_purge l s
  | OApply es => ms_apply es s
  | OBuild => ms_build s
  | OInstall sn => ms_install sn s
  end.
Definition ms_run (ops : list op) (s : mstore) : mstore := fold_left ms_step ops s.

(* the snapshot a leader that applied [es] to an empty state machine builds and sends *)
Definition leader_snapshot (es : list entry) : snapshot := sm_snapshot (sm_apply es smv0).

(* in-memory effect of an op (RocksStore fields last_applied_log, last_membership, state) *)
Definition op_volatile (o : op) (v : smv) : smv :=
  match o with
  | OApply es => sm_apply es v
  | OInstall sn => sm_install sn
  | _ => v
  end.
(* the single disk write of an op; [v] is the volatile state BEFORE the op *)
Definition op_write (o : op) (v : smv) (d : disk) : disk :=
  match o with
  | OVote x => d_with_vote d x
  | OAppend es => d_with_log d (log_append es (d_log d)) (d_purged d)
  | ODelete l => d_with_log d (rk_delete_since (l_index l) (d_log d)) (d_purged d)
  | OPurge l => d_with_log d (rk_purge_upto (l_index l) (d_log d)) (Some l)
  | OApply es => let v' := sm_apply es v in d_with_sm d (sv_applied v') (sv_member v') (d_snap d)
  | OBuild => d_with_sm d (d_applied d) (d_member d) (Some (sm_snapshot v))
  | OInstall sn => d_with_sm d (sn_last sn) (sn_mem sn) (Some sn)
  end.
Definition rs_step (s : rstore) (o : op) : rstore :=
  {| r_disk := op_write o (r_sm s) (r_disk s); r_sm := op_volatile o (r_sm s) |}.
Definition rs_run (ops : list op) (s : rstore) : rstore := fold_left rs_step ops s.

Definition rs_log_state (s : rstore) : option logid * option logid :=
  (d_purged (r_disk s), opt_or (log_last (d_log (r_disk s))) (d_purged (r_disk s))).

(* open: recover_metadata (last_applied, last_membership), then replay_log: start from the stored
   snapshot when it is not ahead of last_applied, seek to the entry after it, apply Normal payloads
   until the first index > last_applied. *)
Definition replay_entry (st : cstate) (p : Z * entry) : cstate :=
  match e_pl (snd p) with PNormal c => apply_command st c | _ => st end.
Definition recover_state (d : disk) : cstate :=
  match d_applied d with
  | None => cstate0
  | Some la =>
      let '(st0, first) :=
        match d_snap d with
        | Some sn =>
            match sn_last sn with
            | Some sid => if l_index sid <=? l_index la then (sn_state sn, l_index sid + 1) else (cstate0, 0)
            | None => (cstate0, 0)
            end
        | None => (cstate0, 0)
        end in
      fold_left replay_entry
                (take_while (fun p => negb (l_index la <? fst p)) (drop_while (fun p => fst p <? first) (d_log d)))
                st0
  end.
Definition ropen (d : disk) : rstore :=
  {| r_disk := d; r_sm := {| sv_applied := d_applied d; sv_member := d_member d; sv_state := recover_state d |} |}.
Definition rstore0 : rstore := ropen disk0.

(* disks a process crash can leave behind while running [ops] from [s]: the disk before the
   first write and after every write *)
Fixpoint crash_disks (ops : list op) (s : rstore) : list disk :=
  match ops with
  | [] => [r_disk s]
  | o :: r => r_disk s :: crash_disks r (rs_step s o)
  end.
