(* Property theorems for C12 / C13 (statements only; proofs in Proofs*.v). *)
From VP Require Import Base.Tactics Window.Model Window.Run.
