(* Property theorems for C12 / C13.  Statements only; the proofs are in
   ProofsC12.v / ProofsC13.v.  Every theorem is about [run] / [step] of Window/Run.v,
   i.e. the very definitions the correspondence check evaluates against the Rust code. *)
From Coq Require Import Sorted.
From VP Require Import Base.Tactics Window.Model Window.Run Window.Spec Window.ProofsC12.
Open Scope Z_scope.

(* ------------------------------------------------------------------ C12 *)
Definition closing_kind (k : kind) : Prop :=
  match k with KTumbling _ | KCount _ | KSession _ => True | _ => False end.

(* Every event that reached a tumbling / count / session window is in exactly one closed
   window or still buffered, in arrival order, nothing twice -- for every op sequence
   (arrivals in any timestamp order, watermark advances, expiry checks, flushes), every
   size / duration / gap. *)
Theorem C12_partition : forall k ops outs s,
  closing_kind k -> run (init k) ops = (outs, s) ->
  concat (all_windows outs) ++ buffered s = arrivals ops.
Proof.
  intros k ops outs s Hk Hr.
  assert (Hc : closing_state (init k)) by (destruct k; try contradiction; exact I).
  pose proof (run_partition _ _ _ _ Hc Hr) as H.
  destruct k; try contradiction; exact H.
Qed.

(* A count window closes (on an arrival) with exactly its size, and never holds that many. *)
Theorem C12_count_exact : forall n ops outs s,
  (1 <= n)%nat -> run (init (KCount n)) ops = (outs, s) ->
  Forall (fun l => length l = n) (add_windows ops outs) /\ (length (buffered s) < n)%nat.
Proof.
  intros n ops outs s Hn Hr. apply (count_run ops (c_new n)); [cbn; lia | exact Hr].
Qed.

(* In-order (time-ordered) op sequences: every window a tumbling window of duration d closes,
   by arrival, watermark or flush, and what it still holds, contains only events earlier
   than its first event + d. *)
Theorem C12_tumbling_span : forall d ops outs s,
  1 <= d -> time_ordered ops -> run (init (KTumbling d)) ops = (outs, s) ->
  Forall (span_ok d) (all_windows outs ++ [buffered s]).
Proof.
  intros d ops outs s Hd Ho Hr. apply (tumbling_run d ops (t_new d) None); try assumption.
  unfold t_inv. cbn. split; [reflexivity|]. split; intros; discriminate.
Qed.

(* In-order arrivals: consecutive events of every session a session window of gap g closes
   (by arrival, watermark, expiry or flush), and of what it still holds, are at most g apart. *)
Theorem C12_session_gap : forall g ops outs s,
  0 <= g -> in_order (arrivals ops) -> run (init (KSession g)) ops = (outs, s) ->
  Forall (gaps_ok g) (all_windows outs ++ [buffered s]).
Proof.
  intros g ops outs s Hg Ho Hr. apply (session_run g ops (s_new g)); try assumption.
  unfold s_inv. cbn. split; [reflexivity|]. split; [exact I|]. split; [reflexivity|].
  intros b x E. destruct b; discriminate.
Qed.

(* The hypotheses are satisfiable by non-trivial inputs, and the conclusions are not vacuous. *)
Example C12_example_ops : list op :=
  [Add (mkEv 0 0 (-1)); Add (mkEv 1 2 (-1)); Add (mkEv 2 2 (-1)); Add (mkEv 3 3 (-1)); Wm 7;
   Add (mkEv 4 7 (-1)); Add (mkEv 5 9 (-1)); Add (mkEv 6 12 (-1)); Flush; Add (mkEv 7 12 (-1))].
Example C12_example_ordered : time_ordered C12_example_ops /\ in_order (arrivals C12_example_ops).
Proof.
  split; [cbn; repeat split; lia|].
  cbn. repeat (constructor; [|repeat (constructor; [cbn; lia|]); constructor]). constructor.
Qed.
Example C12_example_windows :
  all_windows (fst (run (init (KTumbling 3)) C12_example_ops))
  = [[mkEv 0 0 (-1); mkEv 1 2 (-1); mkEv 2 2 (-1)]; [mkEv 3 3 (-1)]; [mkEv 4 7 (-1); mkEv 5 9 (-1)]; [mkEv 6 12 (-1)]]
  /\ all_windows (fst (run (init (KSession 2)) C12_example_ops))
  = [[mkEv 0 0 (-1); mkEv 1 2 (-1); mkEv 2 2 (-1); mkEv 3 3 (-1)]; [mkEv 4 7 (-1); mkEv 5 9 (-1)]; [mkEv 6 12 (-1)]]
  /\ add_windows C12_example_ops (fst (run (init (KCount 3)) C12_example_ops))
  = [[mkEv 0 0 (-1); mkEv 1 2 (-1); mkEv 2 2 (-1)]; [mkEv 3 3 (-1); mkEv 4 7 (-1); mkEv 5 9 (-1)]].
Proof. vm_compute. repeat split. Qed.
