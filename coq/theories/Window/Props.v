(* Property theorems for C12 / C13.  Statements only; the proofs are in
   ProofsC12.v / ProofsC13.v.  Every theorem is about [run] / [step] of Window/Run.v,
   i.e. the very definitions the correspondence check evaluates against the Rust code. *)
From Coq Require Import Sorted.
From VP Require Import Base.Tactics Window.Model Window.Run Window.Spec Window.ProofsC12 Window.ProofsC13 Window.ProofsPart.
Open Scope Z_scope.

(* ------------------------------------------------------------------ C12 *)
Definition closing_kind (k : kind) : Prop :=
  match k with KTumbling _ | KCount _ | KSession _ => True | _ => False end.

(* Every event that reached a tumbling / count / session window is in exactly one closed
   window or still buffered, in arrival order, nothing twice -- for every op sequence
   (arrivals in any timestamp order, watermark advances, expiry checks, flushes), every
   size / duration / gap. *)
Theorem C12_partition : forall k ops outs s,
  closing_kind k -> run (init k) ops = (outs, s) ->
  concat (all_windows outs) ++ buffered s = arrivals ops.
Proof.
  intros k ops outs s Hk Hr.
  assert (Hc : closing_state (init k)) by (destruct k; try contradiction; exact I).
  pose proof (run_partition _ _ _ _ Hc Hr) as H.
  destruct k; try contradiction; exact H.
Qed.

(* A count window closes (on an arrival) with exactly its size, and never holds that many. *)
Theorem C12_count_exact : forall n ops outs s,
  (1 <= n)%nat -> run (init (KCount n)) ops = (outs, s) ->
  Forall (fun l => length l = n) (add_windows ops outs) /\ (length (buffered s) < n)%nat.
Proof.
  intros n ops outs s Hn Hr. apply (count_run ops (c_new n)); [cbn; lia | exact Hr].
Qed.

(* In-order (time-ordered) op sequences: every window a tumbling window of duration d closes,
   by arrival, watermark or flush, and what it still holds, contains only events earlier
   than its first event + d. *)
Theorem C12_tumbling_span : forall d ops outs s,
  1 <= d -> time_ordered ops -> run (init (KTumbling d)) ops = (outs, s) ->
  Forall (span_ok d) (all_windows outs ++ [buffered s]).
Proof.
  intros d ops outs s Hd Ho Hr. apply (tumbling_run d ops (t_new d) None); try assumption.
  unfold t_inv. cbn. split; [reflexivity|]. split; intros; discriminate.
Qed.

(* In-order arrivals: consecutive events of every session a session window of gap g closes
   (by arrival, watermark, expiry or flush), and of what it still holds, are at most g apart. *)
Theorem C12_session_gap : forall g ops outs s,
  0 <= g -> in_order (arrivals ops) -> run (init (KSession g)) ops = (outs, s) ->
  Forall (gaps_ok g) (all_windows outs ++ [buffered s]).
Proof.
  intros g ops outs s Hg Ho Hr. apply (session_run g ops (s_new g)); try assumption.
  unfold s_inv. cbn. split; [reflexivity|]. split; [exact I|]. split; [reflexivity|].
  intros b x E. destruct b; discriminate.
Qed.

(* ... and an arrival closes a session only when it is more than g after the session's last
   event (any op sequence, any timestamp order): sessions are not cut short. *)
Theorem C12_session_close : forall g ops outs s,
  run (init (KSession g)) ops = (outs, s) ->
  Forall (closed_by_gap g) (add_closings ops outs).
Proof.
  intros g ops outs s Hr. apply (session_close_run g ops (s_new g) outs s); [|exact Hr].
  unfold s_inv2. cbn. split; [reflexivity|]. split; [reflexivity|]. intros b x E. destruct b; discriminate.
Qed.

(* The partitioned forms (PartitionedTumblingWindow, PartitionedSessionWindow, the partitioned
   count window of engine/types.rs): for every key, the events of that key in the closed
   windows (closed by arrivals, by watermark / expiry sweeps over all partitions, or by flush),
   followed by what the key's partition still holds, are exactly the key's arrivals in
   arrival order -- for every op sequence. *)
Definition pclosing_kind (k : kind) : Prop :=
  match k with KPTumbling _ | KPSession _ | KPCount _ => True | _ => False end.

Theorem C12_partition_partitioned : forall k ops outs s key,
  pclosing_kind k -> run (init k) ops = (outs, s) ->
  of_key key (concat (all_windows outs)) ++ pbuffered key s = of_key key (arrivals ops).
Proof.
  intros k ops outs s key Hk Hr.
  assert (Hi : pstate_inv (init k)).
  { destruct k; try contradiction; cbn; (split; [constructor | intros k0 w H; discriminate]). }
  pose proof (prun_partition _ _ _ _ Hi Hr key) as H.
  destruct k; try contradiction; exact H.
Qed.

(* The hypotheses are satisfiable by non-trivial inputs, and the conclusions are not vacuous. *)
Example C12_example_ops : list op :=
  [Add (mkEv 0 0 (-1)); Add (mkEv 1 2 (-1)); Add (mkEv 2 2 (-1)); Add (mkEv 3 3 (-1)); Wm 7;
   Add (mkEv 4 7 (-1)); Add (mkEv 5 9 (-1)); Add (mkEv 6 12 (-1)); Flush; Add (mkEv 7 12 (-1))].
Example C12_example_ordered : time_ordered C12_example_ops /\ in_order (arrivals C12_example_ops).
Proof.
  split; [cbn; repeat split; lia|].
  cbn. repeat (constructor; [|repeat (constructor; [cbn; lia|]); constructor]). constructor.
Qed.
Example C12_example_windows :
  all_windows (fst (run (init (KTumbling 3)) C12_example_ops))
  = [[mkEv 0 0 (-1); mkEv 1 2 (-1); mkEv 2 2 (-1)]; [mkEv 3 3 (-1)]; [mkEv 4 7 (-1); mkEv 5 9 (-1)]; [mkEv 6 12 (-1)]]
  /\ all_windows (fst (run (init (KSession 2)) C12_example_ops))
  = [[mkEv 0 0 (-1); mkEv 1 2 (-1); mkEv 2 2 (-1); mkEv 3 3 (-1)]; [mkEv 4 7 (-1); mkEv 5 9 (-1)]; [mkEv 6 12 (-1)]]
  /\ add_windows C12_example_ops (fst (run (init (KCount 3)) C12_example_ops))
  = [[mkEv 0 0 (-1); mkEv 1 2 (-1); mkEv 2 2 (-1)]; [mkEv 3 3 (-1); mkEv 4 7 (-1); mkEv 5 9 (-1)]].
Proof. vm_compute. repeat split. Qed.
Example C12_example_partitioned :
  let ops := [Add (mkEv 0 0 1); Add (mkEv 1 1 2); Add (mkEv 2 2 1); Add (mkEv 3 4 1); Wm 5; Add (mkEv 4 5 2); Flush] in
  all_windows (fst (run (init (KPTumbling 3)) ops))
  = [[mkEv 0 0 1; mkEv 2 2 1]; [mkEv 1 1 2]; [mkEv 3 4 1]; [mkEv 4 5 2]].
Proof. vm_compute. reflexivity. Qed.

(* ------------------------------------------------------------------ C13 *)
(* For every (size, slide) and every in-order stream (ties allowed) the time-sliding window
   emits exactly according to [time_schedule]: an arrival emits iff it is the first one or
   at least [slide] after the previous emitting arrival, and the emission is, in arrival
   order, exactly the arrivals so far whose timestamp is within [size] of the trigger. *)
Theorem C13_time_sliding : forall size slide es,
  in_order es ->
  fst (run (init (KSliding size slide)) (map Add es)) = map of_opt (time_schedule size slide [] None es).
Proof.
  intros size slide es Ho. cbn [init]. rewrite run_sl. cbn [fst]. f_equal. now apply sliding_run0.
Qed.

(* For every (size, slide) and every stream the count-sliding window emits exactly according
   to [count_schedule]: an arrival emits iff at least [size] events have arrived and at
   least [slide] since the previous emission (or the start); the emission is the last
   [size] arrivals. *)
Theorem C13_count_sliding : forall size slide es,
  fst (run (init (KSlidingCount size slide)) (map Add es)) = map of_opt (count_schedule size slide [] 0 es).
Proof.
  intros size slide es. cbn [init]. rewrite run_sc. cbn [fst]. f_equal.
  apply (count_sliding_run es [] (sc_new size slide)). reflexivity.
Qed.

(* Partitioned forms (PartitionedSlidingWindow; PartitionedSlidingCountWindowState of
   engine/types.rs): what the window answers at the arrivals of key k is the plain schedule
   of the key's sub-stream -- other keys' events never influence it. *)
Theorem C13_time_sliding_partitioned : forall size slide es k,
  in_order (of_key k es) ->
  pick k es (fst (run (init (KPSliding size slide)) (map Add es)))
  = map of_opt (time_schedule size slide [] None (of_key k es)).
Proof.
  intros size slide es k Ho. cbn [init]. rewrite run_psl. cbn [fst]. rewrite pick_picko. f_equal.
  destruct (prun (sl_new size slide) sl_add [] es) as [m' outs] eqn:E. cbn [snd].
  pose proof (prun_proj (sl_new size slide) sl_add es [] k m' outs E) as H.
  cbn [pget_or_new pget] in H. rewrite <- (sliding_run0 size slide _ Ho). now rewrite H.
Qed.

Theorem C13_count_sliding_partitioned : forall size slide es k,
  pick k es (fst (run (init (KPSlidingCount size slide)) (map Add es)))
  = map of_opt (count_schedule size slide [] 0 (of_key k es)).
Proof.
  intros size slide es k. cbn [init]. rewrite run_psc. cbn [fst]. rewrite pick_picko. f_equal.
  destruct (prun (sc_new size slide) sc_add [] es) as [m' outs] eqn:E. cbn [snd].
  pose proof (prun_proj (sc_new size slide) sc_add es [] k m' outs E) as H.
  cbn [pget_or_new pget] in H.
  pose proof (count_sliding_run (of_key k es) [] (sc_new size slide) eq_refl) as H2. cbn [sc_new sc_size sc_slide sc_since] in H2.
  rewrite <- H2. now rewrite H.
Qed.

(* The contents clauses spelled out, without the schedule functions. *)
Theorem C13_time_contents : forall size slide es i e l,
  in_order es -> nth_error es i = Some e ->
  nth_error (fst (run (init (KSliding size slide)) (map Add es))) i = Some (OWin l) ->
  l = filter (fun x => ets e - size <=? ets x) (firstn (S i) es).
Proof.
  intros size slide es i e l Ho He H. rewrite (C13_time_sliding _ _ _ Ho), nth_error_map in H.
  destruct (nth_error (time_schedule size slide [] None es) i) as [[l0|]|] eqn:E; cbn in H; inv H.
  exact (time_schedule_contents _ _ _ _ _ _ _ _ E He).
Qed.

Theorem C13_count_contents : forall size slide es i l,
  nth_error (fst (run (init (KSlidingCount size slide)) (map Add es))) i = Some (OWin l) ->
  l = lastn size (firstn (S i) es) /\ (size <= length (firstn (S i) es))%nat.
Proof.
  intros size slide es i l H. rewrite C13_count_sliding, nth_error_map in H.
  destruct (nth_error (count_schedule size slide [] 0 es) i) as [[l0|]|] eqn:E; cbn in H; inv H.
  exact (count_schedule_contents _ _ _ _ _ _ _ E).
Qed.

Example C13_example_stream : list ev :=
  [mkEv 0 0 0; mkEv 1 1 1; mkEv 2 1 0; mkEv 3 3 0; mkEv 4 4 1; mkEv 5 4 0; mkEv 6 7 0].
Example C13_example_in_order : in_order C13_example_stream /\ in_order (of_key 0 C13_example_stream).
Proof.
  split; cbn; repeat (constructor; [|repeat (constructor; [cbn; lia|]); constructor]); constructor.
Qed.
Example C13_example_emissions :
  fst (run (init (KSliding 3 2)) (map Add C13_example_stream))
  = [OWin [mkEv 0 0 0]; ONone; ONone; OWin [mkEv 0 0 0; mkEv 1 1 1; mkEv 2 1 0; mkEv 3 3 0]; ONone; ONone;
     OWin [mkEv 4 4 1; mkEv 5 4 0; mkEv 6 7 0]]
  /\ fst (run (init (KSlidingCount 3 2)) (map Add C13_example_stream))
  = [ONone; ONone; OWin [mkEv 0 0 0; mkEv 1 1 1; mkEv 2 1 0]; ONone; OWin [mkEv 2 1 0; mkEv 3 3 0; mkEv 4 4 1]; ONone;
     OWin [mkEv 4 4 1; mkEv 5 4 0; mkEv 6 7 0]]
  /\ pick 0 C13_example_stream (fst (run (init (KPSliding 3 2)) (map Add C13_example_stream)))
  = [OWin [mkEv 0 0 0]; ONone; OWin [mkEv 0 0 0; mkEv 2 1 0; mkEv 3 3 0]; ONone; OWin [mkEv 5 4 0; mkEv 6 7 0]].
Proof. vm_compute. repeat split. Qed.
