(* Vocabulary of the C12 / C13 theorem statements: what "arrivals", "closed
   windows", "in order" and the reference emission schedules mean.
   Definitions only. *)
From Coq Require Import Sorted.
From VP Require Import Base.Tactics Window.Model Window.Run.
Open Scope Z_scope.

(* the events handed to the window, in arrival order *)
Definition arrivals (ops : list op) : list ev :=
  flat_map (fun o => match o with Add e => [e] | _ => [] end) ops.

(* the closed windows an op's output carries (flush results count as closed windows;
   peeks are not emissions) *)
Definition windows_of (o : out) : list (list ev) :=
  match o with
  | OWin l => [l]
  | OParts ps | OFlat ps => map snd ps
  | _ => []
  end.
Definition all_windows (outs : list out) : list (list ev) := flat_map windows_of outs.

(* the windows closed by an arrival (as opposed to flush / watermark / expiry) *)
Fixpoint add_windows (ops : list op) (outs : list out) : list (list ev) :=
  match ops, outs with
  | Add _ :: r, OWin l :: r' => l :: add_windows r r'
  | _ :: r, _ :: r' => add_windows r r'
  | _, _ => []
  end.

(* the windows closed by an arrival, each with the arrival that closed it *)
Fixpoint add_closings (ops : list op) (outs : list out) : list (list ev * ev) :=
  match ops, outs with
  | Add e :: r, OWin l :: r' => (l, e) :: add_closings r r'
  | _ :: r, _ :: r' => add_closings r r'
  | _, _ => []
  end.

(* the closing arrival is more than g after the last event of the session it closed *)
Definition closed_by_gap (g : Z) (p : list ev * ev) : Prop :=
  match rev (fst p) with
  | x :: _ => ets (snd p) - ets x > g
  | [] => True
  end.

(* what a non-partitioned window still holds *)
Definition buffered (s : wstate) : list ev :=
  match s with
  | WT w => t_buf w | WC w => c_buf w | WS w => s_buf w | WSl w => sl_buf w | WSc w => sc_buf w
  | _ => []
  end.

(* what partition [k] of a partitioned window still holds *)
Definition pbuffered (k : Z) (s : wstate) : list ev :=
  match s with
  | WPT _ m => match pget k m with Some w => t_buf w | None => [] end
  | WPS _ m => match pget k m with Some w => s_buf w | None => [] end
  | WPSl _ _ m => match pget k m with Some w => sl_buf w | None => [] end
  | WPC _ m => match pget k m with Some w => c_buf w | None => [] end
  | WPSc _ _ m => match pget k m with Some w => sc_buf w | None => [] end
  | _ => []
  end.

Definition of_key (k : Z) (l : list ev) : list ev := filter (fun e => pkey e =? k) l.

(* timestamps never decrease along the list *)
Definition in_order (es : list ev) : Prop := StronglySorted (fun x y => ets x <= ets y) es.

(* time-ordered op sequence: every arrival's timestamp is >= every earlier arrival's
   timestamp and >= every earlier watermark / expiry instant (a watermark promises that
   no earlier event follows; an event below it is out of order) *)
Definition omax (hi : option Z) (t : Z) : option Z :=
  match hi with None => Some t | Some h => Some (Z.max h t) end.
Definition ole (hi : option Z) (t : Z) : Prop :=
  match hi with None => True | Some h => h <= t end.
Fixpoint time_ordered_from (hi : option Z) (ops : list op) : Prop :=
  match ops with
  | [] => True
  | Add e :: r => ole hi (ets e) /\ time_ordered_from (omax hi (ets e)) r
  | Wm t :: r | Expire t :: r => time_ordered_from (omax hi t) r
  | _ :: r => time_ordered_from hi r
  end.
Definition time_ordered (ops : list op) : Prop := time_ordered_from None ops.

(* a tumbling window of duration d holds only events earlier than its first event + d *)
Definition span_ok (d : Z) (l : list ev) : Prop :=
  match l with
  | [] => True
  | f :: _ => Forall (fun e => ets e < ets f + d) l
  end.

(* consecutive events of a session are at most g apart (and in order) *)
Fixpoint gaps_ok (g : Z) (l : list ev) : Prop :=
  match l with
  | x :: ((y :: _) as r) => 0 <= ets y - ets x <= g /\ gaps_ok g r
  | _ => True
  end.

(* ---- reference emission schedules for the sliding windows (C13) ---- *)
(* time-sliding: an arrival e emits iff it is the first arrival or at least [slide] after
   the previous emitting arrival; the emission holds, in arrival order, exactly the
   arrivals so far with timestamp within [size] of e *)
Fixpoint time_schedule (size slide : Z) (seen : list ev) (last : option Z) (es : list ev)
  : list (option (list ev)) :=
  match es with
  | [] => []
  | e :: r =>
    let seen' := seen ++ [e] in
    if match last with None => true | Some l => ets e >=? l + slide end
    then Some (filter (fun x => ets e - size <=? ets x) seen') :: time_schedule size slide seen' (Some (ets e)) r
    else None :: time_schedule size slide seen' last r
  end.

Definition lastn {A} (n : nat) (l : list A) : list A := skipn (length l - n) l.

(* count-sliding: an arrival emits iff the window is full (>= size arrivals so far) and at
   least [slide] arrivals came since the previous emission (or since the start); the
   emission is the last [size] arrivals *)
Fixpoint count_schedule (size slide : nat) (seen : list ev) (since : nat) (es : list ev)
  : list (option (list ev)) :=
  match es with
  | [] => []
  | e :: r =>
    let seen' := seen ++ [e] in
    if (size <=? length seen')%nat && (slide <=? S since)%nat
    then Some (lastn size seen') :: count_schedule size slide seen' 0 r
    else None :: count_schedule size slide seen' (S since) r
  end.

(* the outputs a partitioned window gave at the arrivals of partition k *)
Definition pick (k : Z) (es : list ev) (outs : list out) : list out :=
  map snd (filter (fun p => pkey (fst p) =? k) (combine es outs)).
