(* Interpreter for op sequences over every window type + rendering of the
   observables, used by the correspondence checks C12/C13 (cases evaluated by
   vm_compute).  One op list is run against one window; each op yields one
   observable; a final observable gives what is still buffered. *)
From Coq Require Import String.
From VP Require Import Base.Tactics Base.Render Window.Model.
Open Scope string_scope.
Open Scope Z_scope.

Inductive op := Add (e : ev) | Wm (t : Z) | Expire (t : Z) | Flush | Cur.

Inductive out :=
| ONone                                   (* Rust: None *)
| OWin (l : list ev)                      (* Some(window) / flush result *)
| OParts (l : list (Z * list ev))         (* per-partition results *)
| OFlat (l : list (Z * list ev))          (* per-partition flush results, handed out as one flat list *)
| OPeek (l : list ev)                     (* non-destructive read of the buffer *)
| ONum (n : nat)
| OBad.                                   (* op not offered by this window type *)

Definition of_opt (o : option (list ev)) : out :=
  match o with None => ONone | Some l => OWin l end.

Inductive kind :=
| KTumbling (d : Z) | KCount (n : nat) | KSession (g : Z)
| KSliding (size slide : Z) | KSlidingCount (size slide : nat)
| KPTumbling (d : Z) | KPSession (g : Z) | KPSliding (size slide : Z)
| KPCount (n : nat) | KPSlidingCount (size slide : nat).

Inductive wstate :=
| WT (w : tumbling) | WC (w : cwin) | WS (w : session) | WSl (w : sliding) | WSc (w : scount)
| WPT (d : Z) (m : list (Z * tumbling)) | WPS (g : Z) (m : list (Z * session))
| WPSl (size slide : Z) (m : list (Z * sliding))
| WPC (n : nat) (m : list (Z * cwin)) | WPSc (size slide : nat) (m : list (Z * scount)).

Definition init (k : kind) : wstate :=
  match k with
  | KTumbling d => WT (t_new d) | KCount n => WC (c_new n) | KSession g => WS (s_new g)
  | KSliding a b => WSl (sl_new a b) | KSlidingCount a b => WSc (sc_new a b)
  | KPTumbling d => WPT d [] | KPSession g => WPS g [] | KPSliding a b => WPSl a b []
  | KPCount n => WPC n [] | KPSlidingCount a b => WPSc a b []
  end.

(* insertion sort of partitions by key; the key -1 ("default") sorts last, like the
   string "default" after the decimal keys 0..9 used by the generators *)
Definition korder (k : Z) : Z := if k <? 0 then 1000000 else k.
Fixpoint kinsert {A} (x : Z * A) (l : list (Z * A)) : list (Z * A) :=
  match l with
  | [] => [x]
  | y :: r => if korder (fst x) <=? korder (fst y) then x :: l else y :: kinsert x r
  end.
Fixpoint ksort {A} (l : list (Z * A)) : list (Z * A) :=
  match l with [] => [] | x :: r => kinsert x (ksort r) end.

Definition flat {A} (l : list (Z * list A)) : list A := concat (map snd (ksort l)).

Definition step (s : wstate) (o : op) : wstate * out :=
  match s, o with
  | WT w, Add e => let '(w', r) := t_add w e in (WT w', of_opt r)
  | WT w, Wm t => let '(w', r) := t_wm w t in (WT w', of_opt r)
  | WT w, Flush => let '(w', r) := t_flush w in (WT w', OWin r)
  | WT w, Cur => (s, ONum (length (t_buf w)))
  | WC w, Add e => let '(w', r) := c_add w e in (WC w', of_opt r)
  | WC w, Flush => let '(w', r) := c_flush w in (WC w', OWin r)
  | WC w, Cur => (s, ONum (length (c_buf w)))
  | WS w, Add e => let '(w', r) := s_add w e in (WS w', of_opt r)
  | WS w, Wm t => let '(w', r) := s_wm w t in (WS w', of_opt r)
  | WS w, Expire t => let '(w', r) := s_expire w t in (WS w', of_opt r)
  | WS w, Flush => let '(w', r) := s_flush w in (WS w', OWin r)
  | WSl w, Add e => let '(w', r) := sl_add w e in (WSl w', of_opt r)
  | WSl w, Wm t => let '(w', r) := sl_wm w t in (WSl w', of_opt r)
  | WSl w, Cur => (s, OPeek (sl_buf w))
  | WSc w, Add e => let '(w', r) := sc_add w e in (WSc w', of_opt r)
  | WSc w, Cur => (s, ONum (length (sc_buf w)))
  | WPT d m, Add e => let '(m', r) := pt_add d m e in (WPT d m', of_opt r)
  | WPT d m, Wm t => let '(m', r) := pt_wm t m in (WPT d m', OParts r)
  | WPT d m, Flush => let '(m', r) := pt_flush m in (WPT d m', OFlat r)
  | WPS g m, Add e => let '(m', r) := ps_add g m e in (WPS g m', of_opt r)
  | WPS g m, Wm t => let '(m', r) := ps_wm t m in (WPS g m', OParts r)
  | WPS g m, Expire t => let '(m', r) := ps_expire t m in (WPS g m', OParts r)
  | WPS g m, Flush => let '(m', r) := ps_flush m in (WPS g m', OFlat r)
  | WPSl a b m, Add e => let '(m', r) := psl_add a b m e in (WPSl a b m', of_opt r)
  | WPSl a b m, Wm t => let '(m', r) := psl_wm t m in (WPSl a b m', OParts r)
  | WPSl a b m, Cur => (s, OPeek (flat (map (fun kw => (fst kw, sl_buf (snd kw))) m)))
  | WPC n m, Add e => let '(m', r) := pc_add n m e in (WPC n m', of_opt r)
  | WPSc a b m, Add e => let '(m', r) := psc_add a b m e in (WPSc a b m', of_opt r)
  | _, _ => (s, OBad)
  end.

(* what the harness reads at the end: flush for the closing windows, the current
   contents for the sliding ones *)
Definition final (s : wstate) : out :=
  match s with
  | WT _ | WC _ | WS _ | WPT _ _ | WPS _ _ => snd (step s Flush)
  | WSl _ | WPSl _ _ _ => snd (step s Cur)
  | WSc w => ONum (length (sc_buf w))
  | WPC _ m => OWin (flat (map (fun kw => (fst kw, c_buf (snd kw))) m))
  | WPSc _ _ m => OPeek (flat (map (fun kw => (fst kw, sc_buf (snd kw))) m))
  end.

Fixpoint run (s : wstate) (ops : list op) : list out * wstate :=
  match ops with
  | [] => ([], s)
  | o :: r => let '(s', x) := step s o in let '(xs, s'') := run s' r in (x :: xs, s'')
  end.

(* ---- rendering ---- *)
Definition str_ids (l : list ev) : string := "[" ++ join "," (map (fun e => str_of_Z (eid e)) l) ++ "]".
Definition str_key (k : Z) : string := if k <? 0 then "d" else str_of_Z k.
Definition str_out (o : out) : string :=
  match o with
  | ONone => "-"
  | OWin l | OPeek l => str_ids l
  | OFlat ps => str_ids (flat ps)
  | OParts ps => "{" ++ join "/" (map (fun p => str_key (fst p) ++ ":" ++ str_ids (snd p)) (ksort ps)) ++ "}"
  | ONum n => str_of_nat n
  | OBad => "BAD"
  end.

Definition win_case (k : kind) (ops : list op) : string :=
  let '(outs, s) := run (init k) ops in
  join ";" (map str_out outs) ++ "|" ++ str_out (final s).

(* ---- Engine path: `.window(..).aggregate(n: count(), s: sum(x), f: first(x), l: last(x)).emit(..)`
   with x = 2^id: every non-empty window the Window op hands on becomes one output row;
   an empty result stops the pipeline (execute_pipeline returns early). *)
Definition str_agg (l : list ev) : string :=
  let xs := map (fun e => 2 ^ eid e) l in
  "(" ++ str_of_nat (length l) ++ "," ++ str_of_Z (fold_left Z.add xs 0) ++ "," ++
  str_of_Z (hd 0 xs) ++ "," ++ str_of_Z (last xs 0) ++ ")".

Definition str_eng_out (o : out) : string :=
  match o with
  | OWin (x :: l) => str_agg (x :: l)
  | OBad => "BAD"
  | _ => ""
  end.

Definition engine_case (k : kind) (ops : list op) : string :=
  let '(outs, _) := run (init k) ops in join ";" (map str_eng_out outs).
