(* C12 for the partitioned forms: per key, the closed windows and the partition's buffer
   partition the key's arrivals exactly -- over adds, watermark / expiry sweeps and flushes. *)
From Coq Require Import Sorted.
From VP Require Import Base.Tactics Window.Model Window.Run Window.Spec Window.ProofsC12 Window.ProofsC13.
Open Scope Z_scope.

Lemma of_key_app : forall k a b, of_key k (a ++ b) = of_key k a ++ of_key k b.
Proof. intros. unfold of_key. apply filter_app. Qed.

Lemma of_key_id : forall k l, Forall (fun e => pkey e = k) l -> of_key k l = l.
Proof.
  intros k l H. unfold of_key. apply filter_all. eapply Forall_impl; [|exact H]. cbn. intros a Ha. lia.
Qed.

Lemma of_key_none : forall k k0 l, k <> k0 -> Forall (fun e => pkey e = k) l -> of_key k0 l = [].
Proof.
  intros k k0. induction l as [|x l IH]; intros Hne H; [reflexivity|]. inv H.
  unfold of_key in *. cbn. destruct (pkey x =? k0) eqn:E; [lia|]. now apply IH.
Qed.

Lemma of_key_keyed : forall k l, Forall (fun e => pkey e = k) (of_key k l).
Proof.
  intros k l. unfold of_key. apply Forall_forall. intros x Hin. apply filter_In in Hin. lia.
Qed.

Lemma nodup_snoc : forall (l : list Z) k, NoDup l -> ~ In k l -> NoDup (l ++ [k]).
Proof.
  induction l as [|x l IH]; intros k Hn Hk; cbn.
  - constructor; [intros [] | constructor].
  - inv Hn. constructor.
    + intro Hin. apply in_app_or in Hin. destruct Hin as [Hin|[->|[]]]; [contradiction | apply Hk; now left].
    + apply IH; [assumption | intro; apply Hk; now right].
Qed.

Definition olist (o : option (list ev)) : list ev := match o with Some l => l | None => [] end.

Section Part.
  Context {W : Type}.
  Variable wbuf : W -> list ev.
  Variable wnew : W.
  Hypothesis wnew_empty : wbuf wnew = [].

  Definition pbuf (k : Z) (m : list (Z * W)) : list ev :=
    match pget k m with Some w => wbuf w | None => [] end.

  Definition keyed (m : list (Z * W)) : Prop :=
    forall k w, pget k m = Some w -> Forall (fun e => pkey e = k) (wbuf w).

  Lemma keyed_pbuf : forall m k, keyed m -> Forall (fun e => pkey e = k) (pbuf k m).
  Proof. intros m k H. unfold pbuf. destruct (pget k m) eqn:E; [now apply H | constructor]. Qed.

  Lemma keyed_step : forall m m' (X Y : Z -> list ev),
    keyed m -> (forall k, Forall (fun e => pkey e = k) (Y k)) ->
    (forall k, X k ++ pbuf k m' = pbuf k m ++ Y k) -> keyed m'.
  Proof.
    intros m m' X Y Hk HY Heq k w Hg. specialize (Heq k). unfold pbuf at 1 in Heq. rewrite Hg in Heq.
    assert (H : Forall (fun e => pkey e = k) (X k ++ wbuf w)).
    { rewrite Heq. apply Forall_app. split; [now apply keyed_pbuf | apply HY]. }
    apply Forall_app in H. tauto.
  Qed.

  Lemma pget_notin : forall k (m : list (Z * W)), ~ In k (map fst m) -> pget k m = None.
  Proof.
    intros k. induction m as [|[k' w'] m IH]; intros H; cbn in *; [reflexivity|].
    destruct (k =? k') eqn:E; [exfalso; apply H; left; lia | apply IH; tauto].
  Qed.

  Lemma pget_none_notin : forall k (m : list (Z * W)), pget k m = None -> ~ In k (map fst m).
  Proof.
    intros k. induction m as [|[k' w'] m IH]; intros H Hin; cbn in *; [exact Hin|].
    destruct (k =? k') eqn:E; [discriminate|]. destruct Hin as [Hin|Hin]; [lia | now apply IH].
  Qed.

  Lemma pset_keys : forall k (w : W) m,
    map fst (pset k w m) = match pget k m with Some _ => map fst m | None => map fst m ++ [k] end.
  Proof.
    intros k w. induction m as [|[k' w'] m IH]; cbn; [reflexivity|].
    destruct (k =? k') eqn:E; cbn.
    - f_equal. lia.
    - rewrite IH. destruct (pget k m); reflexivity.
  Qed.

  Lemma pset_nodup : forall k (w : W) m, NoDup (map fst m) -> NoDup (map fst (pset k w m)).
  Proof.
    intros k w m H. rewrite pset_keys. destruct (pget k m) eqn:E; [exact H|].
    apply nodup_snoc; [exact H | now apply pget_none_notin].
  Qed.

  (* ---- adds ---- *)
  Variable wadd : W -> ev -> W * option (list ev).
  Hypothesis Hadd : forall w e w' o, wadd w e = (w', o) -> olist o ++ wbuf w' = wbuf w ++ [e].

  Lemma padd_eq : forall m e m' o,
    p_add wnew wadd m e = (m', o) -> keyed m ->
    forall k0, of_key k0 (olist o) ++ pbuf k0 m' = pbuf k0 m ++ of_key k0 [e].
  Proof.
    intros m e m' o H Hk k0. unfold p_add in H.
    destruct (wadd (pget_or_new wnew (pkey e) m) e) as [w' o'] eqn:Hw. inv H.
    pose proof (Hadd _ _ _ _ Hw) as E.
    assert (Hold : wbuf (pget_or_new wnew (pkey e) m) = pbuf (pkey e) m).
    { unfold pget_or_new, pbuf. destruct (pget (pkey e) m); [reflexivity | exact wnew_empty]. }
    rewrite Hold in E.
    assert (Hall : Forall (fun x => pkey x = pkey e) (olist o ++ wbuf w')).
    { rewrite E. apply Forall_app. split; [now apply keyed_pbuf | constructor; [reflexivity | constructor]]. }
    apply Forall_app in Hall. destruct Hall as [Ho Hw'].
    destruct (Z.eq_dec (pkey e) k0) as [<-|Hne].
    - unfold pbuf at 1. rewrite pget_pset_same. rewrite (of_key_id _ _ Ho).
      unfold of_key. cbn. rewrite Z.eqb_refl. exact E.
    - unfold pbuf at 1. rewrite (pget_pset_other wadd) by exact Hne. fold (pbuf k0 m).
      rewrite (of_key_none _ _ _ Hne Ho). unfold of_key. cbn. destruct (pkey e =? k0) eqn:E2; [lia|].
      now rewrite app_nil_r.
  Qed.

  Lemma padd_nodup : forall m e m' o,
    p_add wnew wadd m e = (m', o) -> NoDup (map fst m) -> NoDup (map fst m').
  Proof.
    intros m e m' o H Hn. unfold p_add in H. destruct (wadd _ e) as [w' o']. inv H. now apply pset_nodup.
  Qed.

  (* ---- sweeps (watermark, expiry, flush) ---- *)
  Variable f : W -> W * option (list ev).
  Hypothesis Hf : forall w w' r, f w = (w', r) ->
    match r with Some evs => evs = wbuf w /\ wbuf w' = [] | None => wbuf w' = wbuf w end.

  Lemma sweep_ok : forall rc m m' outs,
    p_sweep f rc m = (m', outs) -> NoDup (map fst m) -> keyed m ->
    (forall k0, of_key k0 (concat (map snd outs)) ++ pbuf k0 m' = pbuf k0 m) /\
    (forall k1, In k1 (map fst m') -> In k1 (map fst m)) /\
    NoDup (map fst m').
  Proof.
    clear Hadd wadd wnew_empty. intros rc. induction m as [|[k w] r IH]; intros m' outs H Hn Hk; cbn [p_sweep] in H.
    - inv H. repeat split; [|constructor]. intros k1 [].
    - destruct (p_sweep f rc r) as [r' outs_r] eqn:Hr.
      cbn [map fst] in Hn. apply NoDup_cons_iff in Hn. destruct Hn as [Hnotin Hn].
      assert (Hkr : keyed r).
      { intros k1 w1 Hg. apply Hk. cbn [pget]. destruct (k1 =? k) eqn:E; [|exact Hg].
        exfalso. apply Hnotin. assert (k1 = k) by lia. subst k1.
        destruct (in_dec Z.eq_dec k (map fst r)) as [Hin|Hni]; [exact Hin|]. rewrite (pget_notin _ _ Hni) in Hg. discriminate. }
      destruct (IH _ _ eq_refl Hn Hkr) as (Heq & Hsub & Hnd).
      assert (Hkw : Forall (fun e => pkey e = k) (wbuf w)) by (apply Hk; cbn; now rewrite Z.eqb_refl).
      assert (Hnr' : ~ In k (map fst r')) by (intro Hin; apply Hnotin; now apply Hsub).
      assert (Hk0 : of_key k (concat (map snd outs_r)) = [] /\ pbuf k r' = []).
      { specialize (Heq k). unfold pbuf at 2 in Heq. rewrite (pget_notin _ _ Hnotin) in Heq.
        apply app_eq_nil in Heq. exact Heq. }
      destruct Hk0 as [Hk0a Hk0b].
      assert (Hother : forall k0, k0 <> k -> forall (w0 : W) l, pbuf k0 ((k, w0) :: l) = pbuf k0 l).
      { intros k0 Hne w0 l. unfold pbuf. cbn [pget]. destruct (k0 =? k) eqn:E; [lia | reflexivity]. }
      assert (Hsame : forall (w0 : W) l, pbuf k ((k, w0) :: l) = wbuf w0).
      { intros w0 l. unfold pbuf. cbn [pget]. now rewrite Z.eqb_refl. }
      destruct (f w) as [w' [evs|]] eqn:Efw; pose proof (Hf _ _ _ Efw) as Hfw; cbn beta iota in Hfw.
      + destruct Hfw as [-> Hw'].
        destruct rc.
        * (* closed partitions are removed; empty results are not reported *)
          inv H. split; [|split; [intros k1 Hin; right; now apply Hsub | exact Hnd]].
          intros k0. destruct (Z.eq_dec k0 k) as [->|Hne].
          -- rewrite Hsame, Hk0b, app_nil_r.
             destruct (wbuf w) as [|x l] eqn:Eb; cbn [nonempty].
             ++ exact Hk0a.
             ++ cbn [map snd concat]. rewrite of_key_app, Hk0a, app_nil_r. now apply of_key_id.
          -- rewrite (Hother _ Hne). rewrite <- (Heq k0).
             destruct (wbuf w) as [|x l] eqn:Eb; cbn [nonempty]; [reflexivity|].
             cbn [map snd concat]. rewrite of_key_app.
             rewrite (of_key_none k k0) by (auto; exact Hkw). reflexivity.
        * inv H. split; [|split].
          -- intros k0. cbn [map snd concat]. rewrite of_key_app. destruct (Z.eq_dec k0 k) as [->|Hne].
             ++ rewrite !Hsame, Hw', Hk0a, !app_nil_r. now apply of_key_id.
             ++ rewrite !(Hother _ Hne). rewrite (of_key_none k k0) by (auto; exact Hkw). apply Heq.
          -- intros k1 [<-|Hin]; [now left | right; now apply Hsub].
          -- cbn [map fst]. constructor; assumption.
      + inv H. split; [|split].
        * intros k0. destruct (Z.eq_dec k0 k) as [->|Hne].
          -- rewrite !Hsame, Hk0a, Hfw. reflexivity.
          -- rewrite !(Hother _ Hne). apply Heq.
        * intros k1 [<-|Hin]; [now left | right; now apply Hsub].
        * cbn [map fst]. constructor; assumption.
  Qed.
End Part.

(* ---- the three closing window types satisfy the per-window contracts ---- *)
Lemma t_add_eq : forall w e w' o, t_add w e = (w', o) -> olist o ++ t_buf w' = t_buf w ++ [e].
Proof. intros w e w' o H. unfold t_add in H. destruct (ets e >=? _); inv H; cbn; now rewrite ?app_nil_r. Qed.

Lemma c_add_eq : forall w e w' o, c_add w e = (w', o) -> olist o ++ c_buf w' = c_buf w ++ [e].
Proof. intros w e w' o H. unfold c_add in H. destruct (_ <=? _)%nat; inv H; cbn; now rewrite ?app_nil_r. Qed.

Lemma s_add_eq : forall w e w' o, s_add w e = (w', o) -> olist o ++ s_buf w' = s_buf w ++ [e].
Proof.
  intros w e w' o H. unfold s_add in H. destruct (s_last w); [destruct (_ >? _)|]; inv H; cbn; now rewrite ?app_nil_r.
Qed.

Definition sweep_contract {W} (wbuf : W -> list ev) (f : W -> W * option (list ev)) : Prop :=
  forall w w' r, f w = (w', r) ->
    match r with Some evs => evs = wbuf w /\ wbuf w' = [] | None => wbuf w' = wbuf w end.

Lemma t_wm_contract : forall wm, sweep_contract t_buf (fun w => t_wm w wm).
Proof.
  intros wm w w' r H. unfold t_wm in H. destruct (t_start w); [destruct (_ && _)|]; inv H; cbn; auto.
Qed.

Lemma s_wm_contract : forall wm, sweep_contract s_buf (fun w => s_wm w wm).
Proof.
  intros wm w w' r H. unfold s_wm in H. destruct (s_last w); [destruct (_ && _)|]; inv H; cbn; auto.
Qed.

Lemma s_expire_contract : forall now, sweep_contract s_buf (fun w => s_expire w now).
Proof.
  intros now w w' r H. unfold s_expire in H. destruct (s_last w); [destruct (_ >? _)|]; inv H; cbn; auto.
Qed.

Definition as_sweep {W} (f : W -> W * list ev) (w : W) : W * option (list ev) :=
  let '(w', evs) := f w in (w', Some evs).

Lemma p_flush_sweep : forall {W} (f : W -> W * list ev) m, p_flush f m = p_sweep (as_sweep f) false m.
Proof.
  intros W f. induction m as [|[k w] r IH]; cbn [p_flush p_sweep]; [reflexivity|].
  rewrite IH. destruct (p_sweep (as_sweep f) false r) as [r' outs]. unfold as_sweep. destruct (f w) as [w' evs]. reflexivity.
Qed.

Lemma t_flush_contract : sweep_contract t_buf (as_sweep t_flush).
Proof. intros w w' r H. unfold as_sweep, t_flush in H. inv H. cbn. auto. Qed.

Lemma s_flush_contract : sweep_contract s_buf (as_sweep s_flush).
Proof. intros w w' r H. unfold as_sweep, s_flush in H. inv H. cbn. auto. Qed.

(* ---- lifting to Run.step / Run.run ---- *)
Definition pstate_inv (s : wstate) : Prop :=
  match s with
  | WPT _ m => NoDup (map fst m) /\ keyed t_buf m
  | WPS _ m => NoDup (map fst m) /\ keyed s_buf m
  | WPC _ m => NoDup (map fst m) /\ keyed c_buf m
  | _ => False
  end.

Lemma of_key_nil : forall k, of_key k [] = [].
Proof. reflexivity. Qed.

Lemma windows_of_opt : forall o, concat (windows_of (of_opt o)) = olist o.
Proof. intros [l|]; cbn; now rewrite ?app_nil_r. Qed.

Lemma add_case : forall {W} (wbuf : W -> list ev) wnew wadd (m m' : list (Z * W)) e o,
  wbuf wnew = [] ->
  (forall w e w' o, wadd w e = (w', o) -> olist o ++ wbuf w' = wbuf w ++ [e]) ->
  p_add wnew wadd m e = (m', o) -> NoDup (map fst m) -> keyed wbuf m ->
  (NoDup (map fst m') /\ keyed wbuf m') /\
  forall k0, of_key k0 (concat (windows_of (of_opt o))) ++ pbuf wbuf k0 m' = pbuf wbuf k0 m ++ of_key k0 (arrivals [Add e]).
Proof.
  intros W wbuf wnew wadd m m' e o Hnew Hadd H Hn Hk.
  pose proof (padd_eq wbuf wnew Hnew wadd Hadd _ _ _ _ H Hk) as Heq.
  split; [split|].
  - eapply padd_nodup; eauto.
  - eapply (keyed_step wbuf m m' (fun k => of_key k (olist o)) (fun k => of_key k [e])); [exact Hk | intro; apply of_key_keyed | exact Heq].
  - intros k0. rewrite windows_of_opt. apply Heq.
Qed.

Lemma sweep_case : forall {W} (wbuf : W -> list ev) f rc (m m' : list (Z * W)) outs,
  sweep_contract wbuf f ->
  p_sweep f rc m = (m', outs) -> NoDup (map fst m) -> keyed wbuf m ->
  (NoDup (map fst m') /\ keyed wbuf m') /\
  forall k0, of_key k0 (concat (map snd outs)) ++ pbuf wbuf k0 m' = pbuf wbuf k0 m ++ [].
Proof.
  intros W wbuf f rc m m' outs Hf H Hn Hk.
  destruct (sweep_ok wbuf f Hf rc _ _ _ H Hn Hk) as (Heq & _ & Hnd).
  assert (Heq' : forall k0, of_key k0 (concat (map snd outs)) ++ pbuf wbuf k0 m' = pbuf wbuf k0 m ++ []).
  { intros k0. rewrite app_nil_r. apply Heq. }
  split; [split; [exact Hnd|] | exact Heq'].
  eapply (keyed_step wbuf m m' (fun k => of_key k (concat (map snd outs))) (fun _ => [])); [exact Hk | intro; constructor | exact Heq'].
Qed.

Lemma pstep_partition : forall s o s' x,
  pstate_inv s -> step s o = (s', x) ->
  pstate_inv s' /\
  forall k0, of_key k0 (concat (windows_of x)) ++ pbuffered k0 s' = pbuffered k0 s ++ of_key k0 (arrivals [o]).
Proof.
  intros s o s' x Hi Hs.
  destruct s as [w|w|w|w|w|d m|g m|a b m|n m|a b m]; try contradiction; destruct Hi as [Hn Hk];
    destruct o as [e|t|t| | ]; cbn [step] in Hs.
  all: try (inv Hs; split; [split; assumption | intros k0; cbn; now rewrite app_nil_r]).
  - destruct (pt_add d m e) as [m' r] eqn:E. inv Hs.
    apply (add_case t_buf (t_new d) t_add m m' e r eq_refl t_add_eq E Hn Hk).
  - destruct (pt_wm t m) as [m' r] eqn:E. inv Hs.
    apply (sweep_case t_buf _ false m m' r (t_wm_contract t) E Hn Hk).
  - destruct (pt_flush m) as [m' r] eqn:E. inv Hs. unfold pt_flush in E. rewrite p_flush_sweep in E.
    apply (sweep_case t_buf _ false m m' r t_flush_contract E Hn Hk).
  - destruct (ps_add g m e) as [m' r] eqn:E. inv Hs.
    apply (add_case s_buf (s_new g) s_add m m' e r eq_refl s_add_eq E Hn Hk).
  - destruct (ps_wm t m) as [m' r] eqn:E. inv Hs.
    apply (sweep_case s_buf _ true m m' r (s_wm_contract t) E Hn Hk).
  - destruct (ps_expire t m) as [m' r] eqn:E. inv Hs.
    apply (sweep_case s_buf _ true m m' r (s_expire_contract t) E Hn Hk).
  - destruct (ps_flush m) as [m' r] eqn:E. inv Hs. unfold ps_flush in E. rewrite p_flush_sweep in E.
    apply (sweep_case s_buf _ false m m' r s_flush_contract E Hn Hk).
  - destruct (pc_add n m e) as [m' r] eqn:E. inv Hs.
    apply (add_case c_buf (c_new n) c_add m m' e r eq_refl c_add_eq E Hn Hk).
Qed.

Lemma prun_partition : forall ops s outs s',
  pstate_inv s -> run s ops = (outs, s') ->
  forall k0, of_key k0 (concat (all_windows outs)) ++ pbuffered k0 s' = pbuffered k0 s ++ of_key k0 (arrivals ops).
Proof.
  induction ops as [|o r IH]; intros s outs s' Hi Hr k0; cbn [run] in Hr.
  - inv Hr. cbn. now rewrite app_nil_r.
  - destruct (step s o) as [s1 x] eqn:Hs. destruct (run s1 r) as [xs s2] eqn:Hr1. inv Hr.
    destruct (pstep_partition _ _ _ _ Hi Hs) as [Hi1 H1].
    specialize (IH _ _ _ Hi1 Hr1 k0). specialize (H1 k0).
    rewrite all_windows_cons, concat_app, arrivals_cons, !of_key_app, <- app_assoc, IH, !app_assoc. f_equal. exact H1.
Qed.
