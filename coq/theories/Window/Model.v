(* Executable model of the window state machines of
   crates/varpulis-runtime/src/window.rs and of the two partitioned count-window
   wrappers of crates/varpulis-runtime/src/engine/types.rs.
   Definitions only -- proofs live in Proofs*.v.  Function by function:

     t_add / t_flush / t_wm          TumblingWindow::add_shared / flush_shared / advance_watermark
     c_add / c_flush                 CountWindow::add_shared / flush_shared
     s_add / s_expire / s_flush / s_wm
                                     SessionWindow::add_shared / check_expired / flush_shared / advance_watermark
     sl_add / sl_wm                  SlidingWindow::add_shared / advance_watermark   (sl_buf = current_shared)
     sc_add                          SlidingCountWindow::add_shared                  (length sc_buf = current_count)
     p_add                           Partitioned{Tumbling,Session,Sliding}Window::add_shared,
                                     PartitionedWindowState::add, PartitionedSlidingCountWindowState::add
     pt_wm / pt_flush                PartitionedTumblingWindow::advance_watermark / flush_shared
     ps_expire / ps_wm / ps_flush    PartitionedSessionWindow::check_expired / advance_watermark / flush_shared
     psl_wm                          PartitionedSlidingWindow::advance_watermark

   Timestamps and durations are unbounded [Z] ticks (chrono DateTime/Duration
   arithmetic without overflow); an event is (arrival id, timestamp, key).
   The ColumnarBuffer is modelled by the list of events it holds in push order
   (take_all = the list, then empty).  FxHashMap partitions are an association
   list in first-insertion order; observables that depend on the hash order
   (partitioned flush, partitioned watermark results) are compared after sorting by
   key (see Run.v). *)
From VP Require Import Base.Tactics.
Open Scope Z_scope.

Record ev := mkEv { eid : Z; ets : Z; ekey : Z }.
(* ekey < 0 models an event without the partition field (Rust: key "default") *)

Definition nonempty {A} (l : list A) : bool := match l with [] => false | _ => true end.

(* ------------------------------------------------------------- tumbling *)
Record tumbling := mkT { t_dur : Z; t_buf : list ev; t_start : option Z }.
Definition t_new (d : Z) : tumbling := mkT d [] None.

Definition t_add (w : tumbling) (e : ev) : tumbling * option (list ev) :=
  let start := match t_start w with None => ets e | Some s => s end in
  if ets e >=? start + t_dur w
  then (mkT (t_dur w) [e] (Some (ets e)), Some (t_buf w))
  else (mkT (t_dur w) (t_buf w ++ [e]) (Some start), None).

(* flush_shared: takes the buffer, leaves window_start as it is *)
Definition t_flush (w : tumbling) : tumbling * list ev :=
  (mkT (t_dur w) [] (t_start w), t_buf w).

Definition t_wm (w : tumbling) (wm : Z) : tumbling * option (list ev) :=
  match t_start w with
  | Some s =>
    if (wm >=? s + t_dur w) && nonempty (t_buf w)
    then (mkT (t_dur w) [] (Some wm), Some (t_buf w))
    else (w, None)
  | None => (w, None)
  end.

(* ---------------------------------------------------------------- count *)
Record cwin := mkC { c_n : nat; c_buf : list ev }.
Definition c_new (n : nat) : cwin := mkC n [].

Definition c_add (w : cwin) (e : ev) : cwin * option (list ev) :=
  let b := c_buf w ++ [e] in
  if (c_n w <=? length b)%nat then (mkC (c_n w) [], Some b) else (mkC (c_n w) b, None).

Definition c_flush (w : cwin) : cwin * list ev := (mkC (c_n w) [], c_buf w).

(* -------------------------------------------------------------- session *)
Record session := mkS { s_gap : Z; s_buf : list ev; s_last : option Z }.
Definition s_new (g : Z) : session := mkS g [] None.

Definition s_add (w : session) (e : ev) : session * option (list ev) :=
  match s_last w with
  | Some l =>
    if ets e - l >? s_gap w
    then (mkS (s_gap w) [e] (Some (ets e)), Some (s_buf w))
    else (mkS (s_gap w) (s_buf w ++ [e]) (Some (ets e)), None)
  | None => (mkS (s_gap w) (s_buf w ++ [e]) (Some (ets e)), None)
  end.

Definition s_flush (w : session) : session * list ev := (mkS (s_gap w) [] None, s_buf w).

Definition s_expire (w : session) (now : Z) : session * option (list ev) :=
  match s_last w with
  | Some l => if now - l >? s_gap w then (fst (s_flush w), Some (s_buf w)) else (w, None)
  | None => (w, None)
  end.

Definition s_wm (w : session) (wm : Z) : session * option (list ev) :=
  match s_last w with
  | Some l =>
    if (wm >=? l + s_gap w) && nonempty (s_buf w)
    then (fst (s_flush w), Some (s_buf w)) else (w, None)
  | None => (w, None)
  end.

(* --------------------------------------------------------- time sliding *)
Record sliding := mkSl { sl_size : Z; sl_slide : Z; sl_buf : list ev; sl_last : option Z }.
Definition sl_new (size slide : Z) : sliding := mkSl size slide [] None.

(* position(|e| e.timestamp >= cutoff).unwrap_or(len) followed by drain(0..n) *)
Fixpoint drop_lt (cutoff : Z) (l : list ev) : list ev :=
  match l with
  | [] => []
  | x :: r => if ets x >=? cutoff then l else drop_lt cutoff r
  end.

Definition sl_add (w : sliding) (e : ev) : sliding * option (list ev) :=
  let b := drop_lt (ets e - sl_size w) (sl_buf w ++ [e]) in
  let emit := match sl_last w with None => true | Some l => ets e >=? l + sl_slide w end in
  if emit then (mkSl (sl_size w) (sl_slide w) b (Some (ets e)), Some b)
  else (mkSl (sl_size w) (sl_slide w) b (sl_last w), None).

Definition sl_wm (w : sliding) (wm : Z) : sliding * option (list ev) :=
  let b := drop_lt (wm - sl_size w) (sl_buf w) in
  let emit := match sl_last w with
              | None => nonempty b
              | Some l => (wm >=? l + sl_slide w) && nonempty b
              end in
  if emit then (mkSl (sl_size w) (sl_slide w) b (Some wm), Some b)
  else (mkSl (sl_size w) (sl_slide w) b (sl_last w), None).

(* -------------------------------------------------------- count sliding *)
Record scount := mkSc { sc_size : nat; sc_slide : nat; sc_buf : list ev; sc_since : nat }.
Definition sc_new (size slide : nat) : scount := mkSc size slide [] 0%nat.

Definition sc_add (w : scount) (e : ev) : scount * option (list ev) :=
  let b0 := sc_buf w ++ [e] in
  let since := S (sc_since w) in
  let b := skipn (length b0 - sc_size w)%nat b0 in       (* saturating_sub + drain(0..overflow) *)
  if (sc_size w <=? length b)%nat && (sc_slide w <=? since)%nat
  then (mkSc (sc_size w) (sc_slide w) b 0%nat, Some b)
  else (mkSc (sc_size w) (sc_slide w) b since, None).

(* ---------------------------------------------------------- partitioned *)
Section Part.
  Context {W : Type}.
  Variable wnew : W.

  Definition pmap := list (Z * W).

  (* all events without the field share the partition "default" *)
  Definition pkey (e : ev) : Z := if ekey e <? 0 then -1 else ekey e.

  Fixpoint pget (k : Z) (m : pmap) : option W :=
    match m with
    | [] => None
    | (k', w) :: r => if k =? k' then Some w else pget k r
    end.

  Fixpoint pset (k : Z) (w : W) (m : pmap) : pmap :=
    match m with
    | [] => [(k, w)]
    | (k', w') :: r => if k =? k' then (k, w) :: r else (k', w') :: pset k w r
    end.

  Definition pget_or_new (k : Z) (m : pmap) : W :=
    match pget k m with Some w => w | None => wnew end.

  (* entry(key).or_insert_with(new) ; window.add_shared(event) *)
  Definition p_add (wadd : W -> ev -> W * option (list ev)) (m : pmap) (e : ev) : pmap * option (list ev) :=
    let k := pkey e in
    let '(w', o) := wadd (pget_or_new k m) e in
    (pset k w' m, o).

  (* for (key, window) in &mut windows { if let Some(events) = f(window) { results.push((key, events)) } }
     [remove_closed = true] additionally removes the partitions that returned Some,
     and only reports the non-empty ones (PartitionedSessionWindow). *)
  Fixpoint p_sweep (f : W -> W * option (list ev)) (remove_closed : bool) (m : pmap)
    : pmap * list (Z * list ev) :=
    match m with
    | [] => ([], [])
    | (k, w) :: r =>
      let '(r', outs) := p_sweep f remove_closed r in
      match f w with
      | (w', Some evs) =>
        if remove_closed
        then (r', if nonempty evs then (k, evs) :: outs else outs)
        else ((k, w') :: r', (k, evs) :: outs)
      | (w', None) => ((k, w') :: r', outs)
      end
    end.

  (* for window in windows.values_mut() { all.extend(window.flush_shared()) } *)
  Fixpoint p_flush (f : W -> W * list ev) (m : pmap) : pmap * list (Z * list ev) :=
    match m with
    | [] => ([], [])
    | (k, w) :: r =>
      let '(r', outs) := p_flush f r in
      let '(w', evs) := f w in
      ((k, w') :: r', (k, evs) :: outs)
    end.
End Part.

Definition pt_add (d : Z) := p_add (t_new d) t_add.
Definition pt_wm (wm : Z) := p_sweep (fun w => t_wm w wm) false.
Definition pt_flush := p_flush t_flush.

Definition ps_add (g : Z) := p_add (s_new g) s_add.
Definition ps_expire (now : Z) := p_sweep (fun w => s_expire w now) true.
Definition ps_wm (wm : Z) := p_sweep (fun w => s_wm w wm) true.
Definition ps_flush := p_flush s_flush.

Definition psl_add (size slide : Z) := p_add (sl_new size slide) sl_add.
Definition psl_wm (wm : Z) := p_sweep (fun w => sl_wm w wm) false.

Definition pc_add (n : nat) := p_add (c_new n) c_add.
Definition psc_add (size slide : nat) := p_add (sc_new size slide) sc_add.
