(* Lemmas for C13: the sliding-window state machines follow the reference emission
   schedules of Spec.v; partitioned windows behave per key like the plain window on the
   key's sub-stream. *)
From Coq Require Import Sorted.
From VP Require Import Base.Tactics Window.Model Window.Run Window.Spec Window.ProofsC12.
Open Scope Z_scope.

(* ---- generic add-only runs of a plain and of a partitioned window ---- *)
Section Runs.
  Context {W : Type}.
  Variable wnew : W.
  Variable wadd : W -> ev -> W * option (list ev).

  Fixpoint wrun (w : W) (es : list ev) : W * list (option (list ev)) :=
    match es with
    | [] => (w, [])
    | e :: r => let '(w', o) := wadd w e in let '(w'', os) := wrun w' r in (w'', o :: os)
    end.

  Fixpoint prun (m : list (Z * W)) (es : list ev) : list (Z * W) * list (option (list ev)) :=
    match es with
    | [] => (m, [])
    | e :: r => let '(m', o) := p_add wnew wadd m e in let '(m'', os) := prun m' r in (m'', o :: os)
    end.

  Lemma pget_pset_same : forall k (w : W) m, pget k (pset k w m) = Some w.
  Proof.
    intros k w. induction m as [|[k' w'] m IH]; cbn.
    - now rewrite Z.eqb_refl.
    - destruct (k =? k') eqn:E; cbn; [now rewrite Z.eqb_refl | now rewrite E].
  Qed.

  Lemma pget_pset_other : forall k k' (w : W) m, k <> k' -> pget k' (pset k w m) = pget k' m.
  Proof.
    intros k k' w m Hne. induction m as [|[k0 w0] m IH]; cbn.
    - destruct (k' =? k) eqn:E; [lia | reflexivity].
    - destruct (k =? k0) eqn:E; cbn.
      + assert (k = k0) by lia. subst k0. destruct (k' =? k) eqn:E2; [lia | reflexivity].
      + destruct (k' =? k0); [reflexivity | exact IH].
  Qed.

  Definition picko (k : Z) (es : list ev) (outs : list (option (list ev))) : list (option (list ev)) :=
    map snd (filter (fun p => pkey (fst p) =? k) (combine es outs)).

  (* partition k of a partitioned window is the plain window run on the events of key k *)
  Lemma prun_proj : forall es m k m' outs,
    prun m es = (m', outs) ->
    wrun (pget_or_new wnew k m) (of_key k es) = (pget_or_new wnew k m', picko k es outs).
  Proof.
    induction es as [|e r IH]; intros m k m' outs H; cbn [prun] in H.
    - inv H. reflexivity.
    - destruct (p_add wnew wadd m e) as [m1 o] eqn:Ha. destruct (prun m1 r) as [m2 os] eqn:Hr. inv H.
      unfold p_add in Ha. destruct (wadd (pget_or_new wnew (pkey e) m) e) as [w' o'] eqn:Hw. inv Ha.
      specialize (IH _ k _ _ Hr).
      unfold of_key, picko in *. cbn [filter combine fst].
      destruct (pkey e =? k) eqn:E.
      + assert (pkey e = k) by lia. subst k. cbn [wrun map snd]. rewrite Hw.
        unfold pget_or_new in IH at 1. rewrite pget_pset_same in IH. rewrite IH. reflexivity.
      + unfold pget_or_new in IH at 1. rewrite pget_pset_other in IH by lia. exact IH.
  Qed.
End Runs.

(* ---- bridging the generic runs to Run.run ---- *)
Lemma run_sl : forall es w, run (WSl w) (map Add es) =
  (map of_opt (snd (wrun sl_add w es)), WSl (fst (wrun sl_add w es))).
Proof.
  induction es as [|e r IH]; intros w; [reflexivity|].
  cbn [map run step wrun]. destruct (sl_add w e) as [w' o]. rewrite IH.
  destruct (wrun sl_add w' r). reflexivity.
Qed.

Lemma run_sc : forall es w, run (WSc w) (map Add es) =
  (map of_opt (snd (wrun sc_add w es)), WSc (fst (wrun sc_add w es))).
Proof.
  induction es as [|e r IH]; intros w; [reflexivity|].
  cbn [map run step wrun]. destruct (sc_add w e) as [w' o]. rewrite IH.
  destruct (wrun sc_add w' r). reflexivity.
Qed.

Lemma run_psl : forall es a b m, run (WPSl a b m) (map Add es) =
  (map of_opt (snd (prun (sl_new a b) sl_add m es)), WPSl a b (fst (prun (sl_new a b) sl_add m es))).
Proof.
  induction es as [|e r IH]; intros a b m; [reflexivity|].
  cbn [map run step prun]. unfold psl_add. destruct (p_add (sl_new a b) sl_add m e) as [m' o]. rewrite IH.
  destruct (prun (sl_new a b) sl_add m' r). reflexivity.
Qed.

Lemma run_psc : forall es a b m, run (WPSc a b m) (map Add es) =
  (map of_opt (snd (prun (sc_new a b) sc_add m es)), WPSc a b (fst (prun (sc_new a b) sc_add m es))).
Proof.
  induction es as [|e r IH]; intros a b m; [reflexivity|].
  cbn [map run step prun]. unfold psc_add. destruct (p_add (sc_new a b) sc_add m e) as [m' o]. rewrite IH.
  destruct (prun (sc_new a b) sc_add m' r). reflexivity.
Qed.

Lemma pick_picko : forall k es outs, pick k es (map of_opt outs) = map of_opt (picko k es outs).
Proof.
  intros k. induction es as [|e r IH]; intros outs; [reflexivity|].
  destruct outs as [|o os]; [reflexivity|]. unfold pick, picko in *. cbn [map combine filter fst].
  destruct (pkey e =? k); cbn [map snd]; now rewrite IH.
Qed.

(* ---------------------------------------------------------- time sliding *)
Lemma filter_all : forall (P : ev -> bool) l, Forall (fun x => P x = true) l -> filter P l = l.
Proof.
  intros P. induction l as [|x l IH]; intros H; [reflexivity|].
  inv H. cbn. rewrite H2. f_equal. now apply IH.
Qed.

Lemma drop_filter_snoc : forall c c' seen e,
  in_order (seen ++ [e]) -> c <= c' ->
  drop_lt c' (filter (fun x => c <=? ets x) seen ++ [e]) = filter (fun x => c' <=? ets x) (seen ++ [e]).
Proof.
  intros c c'. induction seen as [|x seen IH]; intros e Ho Hc.
  - cbn. rewrite Z.geb_leb. destruct (c' <=? ets e); reflexivity.
  - cbn [app] in Ho. apply StronglySorted_inv in Ho. destruct Ho as [Ho Hx].
    cbn [filter app]. destruct (c <=? ets x) eqn:E1.
    + cbn [app drop_lt]. rewrite Z.geb_leb. destruct (c' <=? ets x) eqn:E2.
      * assert (Hall : Forall (fun y => (c' <=? ets y) = true) (seen ++ [e])).
        { eapply Forall_impl; [|exact Hx]. cbn. intros a Ha. lia. }
        rewrite (filter_all _ _ Hall). f_equal. f_equal.
        apply filter_all. apply Forall_app in Hall. destruct Hall as [Hall _].
        eapply Forall_impl; [|exact Hall]. cbn. intros a Ha. lia.
      * now apply IH.
    + assert (E2 : (c' <=? ets x) = false) by lia. rewrite E2. now apply IH.
Qed.

Lemma sliding_run : forall es seen w c,
  in_order (seen ++ es) ->
  sl_buf w = filter (fun x => c <=? ets x) seen ->
  (forall e, In e es -> c <= ets e - sl_size w) ->
  snd (wrun sl_add w es) = time_schedule (sl_size w) (sl_slide w) seen (sl_last w) es.
Proof.
  induction es as [|e r IH]; intros seen w c Ho Hb Hc; [reflexivity|].
  cbn [wrun time_schedule].
  assert (Ho' : in_order ((seen ++ [e]) ++ r)) by (rewrite <- app_assoc; exact Ho).
  pose proof (ss_app_inv _ _ _ Ho') as (Hse & _ & Hlt).
  assert (Hbuf : drop_lt (ets e - sl_size w) (sl_buf w ++ [e])
                 = filter (fun x => ets e - sl_size w <=? ets x) (seen ++ [e])).
  { rewrite Hb. apply drop_filter_snoc; [exact Hse|]. apply Hc. now left. }
  assert (Hnext : forall e', In e' r -> ets e - sl_size w <= ets e' - sl_size w).
  { intros e' Hin. enough (ets e <= ets e') by lia. apply Hlt; [|exact Hin]. apply in_or_app. right. now left. }
  unfold sl_add at 1. rewrite Hbuf.
  destruct (match sl_last w with None => true | Some l => ets e >=? l + sl_slide w end) eqn:E.
  - specialize (IH (seen ++ [e]) (mkSl (sl_size w) (sl_slide w) (filter (fun x => ets e - sl_size w <=? ets x) (seen ++ [e])) (Some (ets e))) _ Ho' eq_refl Hnext).
    cbn [sl_size sl_slide sl_last] in IH.
    cbv beta iota zeta. destruct (wrun sl_add _ r) as [w2 os]. cbn [snd] in *. now rewrite IH.
  - specialize (IH (seen ++ [e]) (mkSl (sl_size w) (sl_slide w) (filter (fun x => ets e - sl_size w <=? ets x) (seen ++ [e])) (sl_last w)) _ Ho' eq_refl Hnext).
    cbn [sl_size sl_slide sl_last] in IH.
    cbv beta iota zeta. destruct (wrun sl_add _ r) as [w2 os]. cbn [snd] in *. now rewrite IH.
Qed.

Lemma sliding_run0 : forall size slide es,
  in_order es ->
  snd (wrun sl_add (sl_new size slide) es) = time_schedule size slide [] None es.
Proof.
  intros size slide es Ho. destruct es as [|e0 r]; [reflexivity|].
  apply (sliding_run (e0 :: r) [] (sl_new size slide) (ets e0 - size)); [exact Ho|reflexivity|].
  cbn [sl_size sl_new]. intros e [<-|Hin]; [lia|].
  apply StronglySorted_inv in Ho. destruct Ho as [_ Hx]. rewrite Forall_forall in Hx. specialize (Hx _ Hin). lia.
Qed.

(* --------------------------------------------------------- count sliding *)
Lemma skipn_skipn' : forall (x y : nat) (l : list ev), skipn x (skipn y l) = skipn (x + y) l.
Proof.
  intros x y. revert x. induction y as [|y IH]; intros x l.
  - now rewrite Nat.add_0_r.
  - destruct l as [|a l]; [now rewrite !skipn_nil|]. rewrite Nat.add_succ_r. cbn [skipn]. apply IH.
Qed.

Lemma lastn_snoc : forall (n : nat) (l : list ev) e, lastn n (lastn n l ++ [e]) = lastn n (l ++ [e]).
Proof.
  intros n l e. unfold lastn. rewrite !app_length, skipn_length. cbn [length].
  rewrite !skipn_app, skipn_skipn', skipn_length.
  f_equal; f_equal; lia.
Qed.

Lemma lastn_length : forall (n : nat) (l : list ev), length (lastn n l) = Nat.min n (length l).
Proof. intros n l. unfold lastn. rewrite skipn_length. lia. Qed.

Lemma count_sliding_run : forall es seen w,
  sc_buf w = lastn (sc_size w) seen ->
  snd (wrun sc_add w es) = count_schedule (sc_size w) (sc_slide w) seen (sc_since w) es.
Proof.
  induction es as [|e r IH]; intros seen w Hb; [reflexivity|].
  cbn [wrun count_schedule]. unfold sc_add at 1.
  assert (Hbuf : skipn (length (sc_buf w ++ [e]) - sc_size w) (sc_buf w ++ [e]) = lastn (sc_size w) (seen ++ [e])).
  { rewrite Hb. apply lastn_snoc. }
  rewrite Hbuf.
  assert (Hfull : (sc_size w <=? length (lastn (sc_size w) (seen ++ [e])))%nat = (sc_size w <=? length (seen ++ [e]))%nat).
  { rewrite lastn_length. destruct (sc_size w <=? length (seen ++ [e]))%nat eqn:E.
    - apply Nat.leb_le in E. apply Nat.leb_le. lia.
    - apply Nat.leb_gt in E. apply Nat.leb_gt. lia. }
  rewrite Hfull.
  destruct ((sc_size w <=? length (seen ++ [e]))%nat && (sc_slide w <=? S (sc_since w))%nat) eqn:E.
  - specialize (IH (seen ++ [e]) (mkSc (sc_size w) (sc_slide w) (lastn (sc_size w) (seen ++ [e])) 0%nat) eq_refl).
    cbn [sc_size sc_slide sc_since] in IH.
    cbv beta iota zeta. destruct (wrun sc_add _ r) as [w2 os]. cbn [snd] in *. now rewrite IH.
  - specialize (IH (seen ++ [e]) (mkSc (sc_size w) (sc_slide w) (lastn (sc_size w) (seen ++ [e])) (S (sc_since w))) eq_refl).
    cbn [sc_size sc_slide sc_since] in IH.
    cbv beta iota zeta. destruct (wrun sc_add _ r) as [w2 os]. cbn [snd] in *. now rewrite IH.
Qed.

(* ------------------------------------------------- contents, spelled out *)
Lemma time_schedule_contents : forall size slide es seen last i e l,
  nth_error (time_schedule size slide seen last es) i = Some (Some l) ->
  nth_error es i = Some e ->
  l = filter (fun x => ets e - size <=? ets x) (seen ++ firstn (S i) es).
Proof.
  intros size slide. induction es as [|e0 r IH]; intros seen last i e l H He; [destruct i; discriminate|].
  cbn [time_schedule] in H. destruct i as [|i].
  - cbn in He. inv He. cbn [firstn]. destruct (match last with None => true | Some l0 => _ end); cbn in H; inv H. reflexivity.
  - cbn [nth_error] in He.
    replace (seen ++ firstn (S (S i)) (e0 :: r)) with ((seen ++ [e0]) ++ firstn (S i) r) by (rewrite <- app_assoc; reflexivity).
    destruct (match last with None => true | Some l0 => _ end); cbn [nth_error] in H; eapply IH; eauto.
Qed.

Lemma count_schedule_contents : forall size slide es seen since i l,
  nth_error (count_schedule size slide seen since es) i = Some (Some l) ->
  l = lastn size (seen ++ firstn (S i) es) /\ (size <= length (seen ++ firstn (S i) es))%nat.
Proof.
  intros size slide. induction es as [|e0 r IH]; intros seen since i l H; [destruct i; discriminate|].
  cbn [count_schedule] in H. destruct i as [|i].
  - cbn [firstn]. destruct (_ && _) eqn:E; cbn in H; inv H. split; [reflexivity|].
    apply andb_prop in E. destruct E as [E _]. now apply Nat.leb_le in E.
  - replace (seen ++ firstn (S (S i)) (e0 :: r)) with ((seen ++ [e0]) ++ firstn (S i) r) by (rewrite <- app_assoc; reflexivity).
    destruct (_ && _); cbn [nth_error] in H; eapply IH; eauto.
Qed.
