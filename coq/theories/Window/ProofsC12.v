(* Lemmas for C12: exact partition, count exactness, tumbling span, session gaps. *)
From Coq Require Import Sorted.
From VP Require Import Base.Tactics Window.Model Window.Run Window.Spec.
Open Scope Z_scope.

Definition closing_state (s : wstate) : Prop :=
  match s with WT _ | WC _ | WS _ => True | _ => False end.

Lemma arrivals_cons : forall o r, arrivals (o :: r) = arrivals [o] ++ arrivals r.
Proof. intros o r. unfold arrivals. cbn [flat_map]. now rewrite app_nil_r. Qed.

Lemma all_windows_cons : forall x r, all_windows (x :: r) = windows_of x ++ all_windows r.
Proof. reflexivity. Qed.

(* ---------------------------------------------------------------- partition *)
Lemma step_partition : forall s o s' x,
  closing_state s -> step s o = (s', x) ->
  closing_state s' /\ concat (windows_of x) ++ buffered s' = buffered s ++ arrivals [o].
Proof.
  intros s o s' x Hc Hs.
  destruct s as [w|w|w| | | | | | | ]; try contradiction; destruct o as [e|t|t| | ]; cbn [step] in Hs.
  all: try (inv Hs; cbn; split; [exact I | now rewrite app_nil_r]).
  - unfold t_add in Hs. destruct (ets e >=? _) eqn:E; inv Hs; cbn; split; try exact I.
    + now rewrite app_nil_r.
    + reflexivity.
  - unfold t_wm in Hs. destruct (t_start w) as [s0|]; [destruct (_ && _) eqn:E|]; inv Hs; cbn; split; try exact I;
      now rewrite ?app_nil_r.
  - unfold c_add in Hs. destruct (_ <=? _)%nat eqn:E; inv Hs; cbn; split; try exact I.
    + now rewrite !app_nil_r.
    + reflexivity.
  - unfold s_add in Hs. destruct (s_last w) as [l|]; [destruct (_ >? _) eqn:E|]; inv Hs; cbn; split; try exact I;
      now rewrite ?app_nil_r.
  - unfold s_wm in Hs. destruct (s_last w) as [l|]; [destruct (_ && _) eqn:E|]; inv Hs; cbn; split; try exact I;
      now rewrite ?app_nil_r.
  - unfold s_expire in Hs. destruct (s_last w) as [l|]; [destruct (_ >? _) eqn:E|]; inv Hs; cbn; split; try exact I;
      now rewrite ?app_nil_r.
Qed.

Lemma run_partition : forall ops s outs s',
  closing_state s -> run s ops = (outs, s') ->
  concat (all_windows outs) ++ buffered s' = buffered s ++ arrivals ops.
Proof.
  induction ops as [|o r IH]; intros s outs s' Hc Hr; cbn [run] in Hr.
  - inv Hr. cbn. now rewrite app_nil_r.
  - destruct (step s o) as [s1 x] eqn:Hs. destruct (run s1 r) as [xs s2] eqn:Hr1. inv Hr.
    destruct (step_partition _ _ _ _ Hc Hs) as [Hc1 H1].
    specialize (IH _ _ _ Hc1 Hr1).
    rewrite all_windows_cons, concat_app, arrivals_cons, <- app_assoc, IH, !app_assoc. f_equal. exact H1.
Qed.

(* -------------------------------------------------------------- count exact *)
Lemma count_run : forall ops w outs s',
  (length (c_buf w) < c_n w)%nat ->
  run (WC w) ops = (outs, s') ->
  Forall (fun l => length l = c_n w) (add_windows ops outs) /\
  (length (buffered s') < c_n w)%nat.
Proof.
  induction ops as [|o r IH]; intros w outs s' Hb Hr; cbn [run] in Hr.
  - inv Hr. cbn. split; [constructor | exact Hb].
  - destruct (step (WC w) o) as [s1 x] eqn:Hs. destruct (run s1 r) as [xs s2] eqn:Hr1. inv Hr.
    destruct o as [e|t|t| | ]; cbn [step] in Hs.
    + unfold c_add in Hs. destruct (_ <=? _)%nat eqn:E; inv Hs.
      * rewrite app_length in E. cbn [length] in E.
        apply IH in Hr1; [|cbn; lia]. cbn in Hr1. destruct Hr1 as [H1 H2].
        cbn [add_windows of_opt]. split; [|exact H2]. constructor; [|exact H1].
        rewrite app_length. cbn [length]. apply Nat.leb_le in E. lia.
      * apply IH in Hr1; [|cbn; rewrite app_length in *; cbn [length] in *; apply Nat.leb_gt in E; lia].
        cbn in Hr1. cbn [add_windows of_opt]. exact Hr1.
    + inv Hs. apply IH in Hr1; [|exact Hb]. exact Hr1.
    + inv Hs. apply IH in Hr1; [|exact Hb]. exact Hr1.
    + inv Hs. apply IH in Hr1; [|cbn; lia]. exact Hr1.
    + inv Hs. apply IH in Hr1; [|exact Hb]. exact Hr1.
Qed.
