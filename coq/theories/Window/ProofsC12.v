(* Lemmas for C12: exact partition, count exactness, tumbling span, session gaps. *)
From Coq Require Import Sorted.
From VP Require Import Base.Tactics Window.Model Window.Run Window.Spec.
Open Scope Z_scope.

Definition closing_state (s : wstate) : Prop :=
  match s with WT _ | WC _ | WS _ => True | _ => False end.

Lemma arrivals_cons : forall o r, arrivals (o :: r) = arrivals [o] ++ arrivals r.
Proof. intros o r. unfold arrivals. cbn [flat_map]. now rewrite app_nil_r. Qed.

Lemma all_windows_cons : forall x r, all_windows (x :: r) = windows_of x ++ all_windows r.
Proof. reflexivity. Qed.

(* ---------------------------------------------------------------- partition *)
Lemma step_partition : forall s o s' x,
  closing_state s -> step s o = (s', x) ->
  closing_state s' /\ concat (windows_of x) ++ buffered s' = buffered s ++ arrivals [o].
Proof.
  intros s o s' x Hc Hs.
  destruct s as [w|w|w| | | | | | | ]; try contradiction; destruct o as [e|t|t| | ]; cbn [step] in Hs.
  all: try (inv Hs; cbn; split; [exact I | now rewrite app_nil_r]).
  - unfold t_add in Hs. destruct (ets e >=? _) eqn:E; inv Hs; cbn; split; try exact I.
    + now rewrite app_nil_r.
    + reflexivity.
  - unfold t_wm in Hs. destruct (t_start w) as [s0|]; [destruct (_ && _) eqn:E|]; inv Hs; cbn; split; try exact I;
      now rewrite ?app_nil_r.
  - unfold c_add in Hs. destruct (_ <=? _)%nat eqn:E; inv Hs; cbn; split; try exact I.
    + now rewrite !app_nil_r.
    + reflexivity.
  - unfold s_add in Hs. destruct (s_last w) as [l|]; [destruct (_ >? _) eqn:E|]; inv Hs; cbn; split; try exact I;
      now rewrite ?app_nil_r.
  - unfold s_wm in Hs. destruct (s_last w) as [l|]; [destruct (_ && _) eqn:E|]; inv Hs; cbn; split; try exact I;
      now rewrite ?app_nil_r.
  - unfold s_expire in Hs. destruct (s_last w) as [l|]; [destruct (_ >? _) eqn:E|]; inv Hs; cbn; split; try exact I;
      now rewrite ?app_nil_r.
Qed.

Lemma run_partition : forall ops s outs s',
  closing_state s -> run s ops = (outs, s') ->
  concat (all_windows outs) ++ buffered s' = buffered s ++ arrivals ops.
Proof.
  induction ops as [|o r IH]; intros s outs s' Hc Hr; cbn [run] in Hr.
  - inv Hr. cbn. now rewrite app_nil_r.
  - destruct (step s o) as [s1 x] eqn:Hs. destruct (run s1 r) as [xs s2] eqn:Hr1. inv Hr.
    destruct (step_partition _ _ _ _ Hc Hs) as [Hc1 H1].
    specialize (IH _ _ _ Hc1 Hr1).
    rewrite all_windows_cons, concat_app, arrivals_cons, <- app_assoc, IH, !app_assoc. f_equal. exact H1.
Qed.

(* -------------------------------------------------------------- count exact *)
Lemma count_run : forall ops w outs s',
  (length (c_buf w) < c_n w)%nat ->
  run (WC w) ops = (outs, s') ->
  Forall (fun l => length l = c_n w) (add_windows ops outs) /\
  (length (buffered s') < c_n w)%nat.
Proof.
  induction ops as [|o r IH]; intros w outs s' Hb Hr; cbn [run] in Hr.
  - inv Hr. cbn. split; [constructor | exact Hb].
  - destruct (step (WC w) o) as [s1 x] eqn:Hs. destruct (run s1 r) as [xs s2] eqn:Hr1. inv Hr.
    destruct o as [e|t|t| | ]; cbn [step] in Hs.
    + unfold c_add in Hs. destruct (_ <=? _)%nat eqn:E; inv Hs.
      * rewrite app_length in E. cbn [length] in E.
        apply IH in Hr1; [|cbn; lia]. cbn in Hr1. destruct Hr1 as [H1 H2].
        cbn [add_windows of_opt]. split; [|exact H2]. constructor; [|exact H1].
        rewrite app_length. cbn [length]. apply Nat.leb_le in E. lia.
      * apply IH in Hr1; [|cbn; rewrite app_length in *; cbn [length] in *; apply Nat.leb_gt in E; lia].
        cbn in Hr1. cbn [add_windows of_opt]. exact Hr1.
    + inv Hs. apply IH in Hr1; [|exact Hb]. exact Hr1.
    + inv Hs. apply IH in Hr1; [|exact Hb]. exact Hr1.
    + inv Hs. apply IH in Hr1; [|cbn; lia]. exact Hr1.
    + inv Hs. apply IH in Hr1; [|exact Hb]. exact Hr1.
Qed.

(* ------------------------------------------------------------ tumbling span *)
Definition t_inv (d : Z) (w : tumbling) (hi : option Z) : Prop :=
  t_dur w = d /\
  (forall s, t_start w = Some s -> exists h, hi = Some h /\ s <= h) /\
  (forall f r, t_buf w = f :: r ->
     exists s, t_start w = Some s /\ s <= ets f /\ Forall (fun e => ets e < s + d) (t_buf w)).

Lemma t_inv_span : forall d w hi, t_inv d w hi -> span_ok d (t_buf w).
Proof.
  intros d w hi Hi. destruct Hi as (Hd & _ & Hb). unfold span_ok. destruct (t_buf w) as [|f r] eqn:E; [exact I|].
  destruct (Hb f r eq_refl) as (s & _ & Hle & Hall).
  eapply Forall_impl; [|exact Hall]. cbn. intros a Ha. lia.
Qed.

Lemma omax_ge : forall hi t h, omax hi t = Some h -> t <= h /\ (forall h0, hi = Some h0 -> h0 <= h).
Proof.
  intros [h0|] t h H; cbn in H; inv H; split; try lia; intros h1 H1; inv H1; lia.
Qed.

Lemma omax_some : forall hi t, exists h, omax hi t = Some h.
Proof. intros [h0|] t; cbn; eauto. Qed.

Lemma t_inv_mono : forall d w hi t, t_inv d w hi -> t_inv d w (omax hi t).
Proof.
  intros d w hi t Hi. destruct Hi as (Hd & Hs & Hb). split; [exact Hd|]. split; [|exact Hb].
  intros s E. destruct (Hs s E) as (h & Hh & Hle). destruct (omax_some hi t) as [h' Hh'].
  exists h'. split; [exact Hh'|]. destruct (omax_ge _ _ _ Hh') as [_ H2]. specialize (H2 _ Hh). lia.
Qed.

Lemma tumbling_run : forall d ops w hi outs s',
  1 <= d -> t_inv d w hi -> time_ordered_from hi ops ->
  run (WT w) ops = (outs, s') ->
  Forall (span_ok d) (all_windows outs ++ [buffered s']).
Proof.
  intros d. induction ops as [|o r IH]; intros w hi outs s' Hd Hi Ho Hr; cbn [run] in Hr.
  - inv Hr. cbn. constructor; [|constructor]. eapply t_inv_span; eauto.
  - destruct (step (WT w) o) as [s1 x] eqn:Hs. destruct (run s1 r) as [xs s2] eqn:Hr1. inv Hr.
    rewrite all_windows_cons, <- app_assoc.
    destruct o as [e|t|t| | ]; cbn [step] in Hs; cbn [time_ordered_from] in Ho.
    + (* Add *)
      destruct Ho as [Hle Ho].
      pose proof Hi as Hi0. destruct Hi0 as (Hdur & Hst & Hbuf). subst d.
      unfold t_add in Hs. destruct (ets e >=? _) eqn:E; inv Hs; cbn [of_opt windows_of app].
      * constructor; [eapply t_inv_span; eauto|].
        eapply IH; [exact Hd| |exact Ho|exact Hr1]. unfold t_inv.
        split; [reflexivity|]. split.
        -- intros s E1. cbn in E1. inv E1. destruct (omax_some hi (ets e)) as [h' Hh']. exists h'. split; [exact Hh'|].
           apply omax_ge in Hh'. lia.
        -- intros f r0 E1. cbn in E1. inv E1. exists (ets f). cbn. split; [reflexivity|]. split; [lia|].
           constructor; [lia|constructor].
      * eapply IH; [exact Hd| |exact Ho|exact Hr1]. unfold t_inv.
        split; [reflexivity|]. split.
        -- intros s E1. cbn in E1. destruct (omax_some hi (ets e)) as [h' Hh']. exists h'. split; [exact Hh'|].
           apply omax_ge in Hh'. destruct Hh' as [H1 H2].
           destruct (t_start w) as [s0|] eqn:Est; inv E1; [|lia].
           destruct (Hst _ eq_refl) as (h & Hh & Hsh). subst hi. cbn in Hle. specialize (H2 _ eq_refl). lia.
        -- intros f r0 E1. cbn [t_buf t_start] in *.
           assert (Hnew : ets e < match t_start w with Some s => s | None => ets e end + t_dur w) by lia.
           destruct (t_buf w) as [|f0 r1] eqn:Eb.
           ++ cbn in E1. inv E1. eexists. split; [reflexivity|]. split.
              ** destruct (t_start w) as [s0|] eqn:Est; [|lia].
                 destruct (Hst _ eq_refl) as (h & Hh & Hsh). subst hi. cbn in Hle. lia.
              ** constructor; [|constructor]. exact Hnew.
           ++ destruct (Hbuf _ _ eq_refl) as (s & Es & Hsf & Hall). rewrite Es in *.
              cbn in E1. inv E1. exists s. split; [reflexivity|]. split; [exact Hsf|].
              change (f :: r1 ++ [e]) with ((f :: r1) ++ [e]). apply Forall_app. split; [exact Hall|].
              constructor; [|constructor]. exact Hnew.
    + (* Wm *)
      pose proof Hi as Hi0. destruct Hi0 as (Hdur & Hst & Hbuf). subst d.
      unfold t_wm in Hs. destruct (t_start w) as [s0|] eqn:Est; [destruct (_ && _) eqn:E|]; inv Hs; cbn [of_opt windows_of app].
      * constructor; [eapply t_inv_span; eauto|].
        eapply IH; [exact Hd| |exact Ho|exact Hr1]. unfold t_inv.
        split; [reflexivity|]. split.
        -- intros s E1. cbn in E1. inv E1. destruct (omax_some hi s) as [h' Hh']. exists h'. split; [exact Hh'|].
           apply omax_ge in Hh'. lia.
        -- intros f r0 E1. cbn in E1. discriminate.
      * eapply IH; [exact Hd| |exact Ho|exact Hr1]. now apply t_inv_mono.
      * eapply IH; [exact Hd| |exact Ho|exact Hr1]. now apply t_inv_mono.
    + inv Hs. cbn [windows_of app]. eapply IH; [exact Hd| |exact Ho|exact Hr1]. now apply t_inv_mono.
    + (* Flush *)
      inv Hs. cbn [windows_of app]. constructor; [eapply t_inv_span; eauto|].
      pose proof Hi as Hi0. destruct Hi0 as (Hdur & Hst & Hbuf). subst d.
      eapply IH; [exact Hd| |exact Ho|exact Hr1]. unfold t_inv. split; [reflexivity|]. split; [exact Hst|]. intros f r0 E1. cbn in E1. discriminate.
    + inv Hs. cbn [windows_of app]. eapply IH; [exact Hd|exact Hi|exact Ho|exact Hr1].
Qed.

(* ------------------------------------------------------------- session gaps *)
Lemma ss_app_inv : forall (R : ev -> ev -> Prop) a b,
  StronglySorted R (a ++ b) ->
  StronglySorted R a /\ StronglySorted R b /\ (forall x y, In x a -> In y b -> R x y).
Proof.
  intros R. induction a as [|x a IH]; intros b H; cbn in *.
  - split; [constructor|]. split; [exact H|]. intros x y [].
  - apply StronglySorted_inv in H. destruct H as [H1 H2]. destruct (IH _ H1) as (Ha & Hb & Hab).
    rewrite Forall_app in H2. destruct H2 as [H2a H2b]. rewrite Forall_forall in H2b.
    split; [constructor; assumption|]. split; [exact Hb|].
    intros x0 y [->|Hin] Hy; [now apply H2b|now apply Hab].
Qed.

Lemma gaps_ok_snoc : forall g b e,
  gaps_ok g b -> (forall b0 x, b = b0 ++ [x] -> 0 <= ets e - ets x <= g) -> gaps_ok g (b ++ [e]).
Proof.
  intros g. induction b as [|x b IH]; intros e Hg Hl; [exact I|].
  destruct b as [|y b].
  - cbn. split; [|exact I]. apply (Hl [] x). reflexivity.
  - cbn [app gaps_ok] in *. destruct Hg as [H1 H2]. split; [exact H1|].
    apply IH; [exact H2|]. intros b0 x0 E. apply (Hl (x :: b0) x0). cbn. now rewrite E.
Qed.

Definition s_inv (g : Z) (w : session) : Prop :=
  s_gap w = g /\ gaps_ok g (s_buf w) /\
  (s_last w = None -> s_buf w = []) /\
  (forall b x, s_buf w = b ++ [x] -> s_last w = Some (ets x)).

Lemma snoc_inj : forall (b b0 : list ev) e x, b ++ [e] = b0 ++ [x] -> b = b0 /\ e = x.
Proof. intros b b0 e x H. apply app_inj_tail in H. exact H. Qed.

Lemma session_run : forall g ops w outs s',
  0 <= g -> s_inv g w -> in_order (s_buf w ++ arrivals ops) ->
  run (WS w) ops = (outs, s') ->
  Forall (gaps_ok g) (all_windows outs ++ [buffered s']).
Proof.
  intros g. induction ops as [|o r IH]; intros w outs s' Hg Hi Ho Hr; cbn [run] in Hr.
  - inv Hr. cbn. constructor; [|constructor]. apply Hi.
  - destruct (step (WS w) o) as [s1 x] eqn:Hs. destruct (run s1 r) as [xs s2] eqn:Hr1. inv Hr.
    rewrite all_windows_cons, <- app_assoc.
    pose proof Hi as Hi0. destruct Hi0 as (Hgap & Hok & Hnone & Hlast).
    assert (Hflush : s_inv g (mkS (s_gap w) [] None)).
    { unfold s_inv. cbn. split; [exact Hgap|]. split; [exact I|]. split; [reflexivity|].
      intros b x0 E. destruct b; discriminate. }
    assert (Hnil : in_order ([] ++ arrivals r) -> in_order (s_buf (mkS (s_gap w) [] None) ++ arrivals r)) by (intro H; exact H).
    rewrite arrivals_cons in Ho.
    destruct o as [e|t|t| | ]; cbn [step] in Hs; cbn [arrivals flat_map app] in Ho.
    + (* Add *)
      unfold s_add in Hs.
      destruct (s_last w) as [l|] eqn:El; [destruct (_ >? _) eqn:E|]; inv Hs; cbn [of_opt windows_of app].
      * constructor; [exact Hok|].
        eapply IH; [exact Hg| | |exact Hr1].
        -- unfold s_inv. cbn. split; [reflexivity|]. split; [exact I|]. split; [discriminate|].
           intros b x0 E0. destruct b as [|? [|? ?]]; inv E0. reflexivity.
        -- cbn [s_buf]. apply ss_app_inv in Ho. apply Ho.
      * eapply IH; [exact Hg| | |exact Hr1].
        -- unfold s_inv. cbn [s_gap s_buf s_last]. split; [reflexivity|]. split.
           ++ apply gaps_ok_snoc; [exact Hok|]. intros b0 x0 E0.
              pose proof (Hlast _ _ E0) as Hl0. inv Hl0. split; [|lia].
              apply ss_app_inv in Ho. destruct Ho as (_ & _ & Hab).
              specialize (Hab x0 e). cbn in Hab. enough (ets x0 <= ets e) by lia. apply Hab.
              ** rewrite E0. apply in_or_app. right. now left.
              ** now left.
           ++ split; [discriminate|]. intros b x0 E0. apply snoc_inj in E0. destruct E0 as [_ <-]. reflexivity.
        -- cbn [s_buf]. rewrite <- app_assoc. exact Ho.
      * eapply IH; [exact Hg| | |exact Hr1].
        -- unfold s_inv. cbn [s_gap s_buf s_last]. rewrite (Hnone eq_refl). cbn. split; [reflexivity|]. split; [exact I|].
           split; [discriminate|]. intros b x0 E0. destruct b as [|? [|? ?]]; inv E0. reflexivity.
        -- cbn [s_buf]. rewrite <- app_assoc. exact Ho.
    + (* Wm *)
      try rewrite app_nil_r in Ho.
      unfold s_wm in Hs. destruct (s_last w) as [l|] eqn:El; [destruct (_ && _) eqn:E|]; inv Hs; cbn [of_opt windows_of app fst s_flush].
      * constructor; [exact Hok|]. eapply IH; [exact Hg|exact Hflush| |exact Hr1]. apply Hnil. apply ss_app_inv in Ho. apply Ho.
      * eapply IH; [exact Hg|exact Hi|exact Ho|exact Hr1].
      * eapply IH; [exact Hg|exact Hi|exact Ho|exact Hr1].
    + (* Expire *)
      try rewrite app_nil_r in Ho.
      unfold s_expire in Hs. destruct (s_last w) as [l|] eqn:El; [destruct (_ >? _) eqn:E|]; inv Hs; cbn [of_opt windows_of app fst s_flush].
      * constructor; [exact Hok|]. eapply IH; [exact Hg|exact Hflush| |exact Hr1]. apply Hnil. apply ss_app_inv in Ho. apply Ho.
      * eapply IH; [exact Hg|exact Hi|exact Ho|exact Hr1].
      * eapply IH; [exact Hg|exact Hi|exact Ho|exact Hr1].
    + (* Flush *)
      try rewrite app_nil_r in Ho.
      inv Hs. cbn [windows_of app]. constructor; [exact Hok|].
      eapply IH; [exact Hg|exact Hflush| |exact Hr1]. apply Hnil. apply ss_app_inv in Ho. apply Ho.
    + try rewrite app_nil_r in Ho. inv Hs. cbn [windows_of app]. eapply IH; [exact Hg|exact Hi|exact Ho|exact Hr1].
Qed.

(* a session is closed by an arrival only when the gap to its last event is exceeded *)
Definition s_inv2 (g : Z) (w : session) : Prop :=
  s_gap w = g /\
  (s_last w = None -> s_buf w = []) /\
  (forall b x, s_buf w = b ++ [x] -> s_last w = Some (ets x)).

Lemma session_close_run : forall g ops w outs s',
  s_inv2 g w -> run (WS w) ops = (outs, s') ->
  Forall (closed_by_gap g) (add_closings ops outs).
Proof.
  intros g. induction ops as [|o r IH]; intros w outs s' Hi Hr; cbn [run] in Hr.
  - inv Hr. constructor.
  - destruct (step (WS w) o) as [s1 x] eqn:Hs. destruct (run s1 r) as [xs s2] eqn:Hr1. inv Hr.
    pose proof Hi as Hi0. destruct Hi0 as (Hgap & Hnone & Hlast).
    assert (Hflush : s_inv2 g (mkS (s_gap w) [] None)).
    { unfold s_inv2. cbn. split; [exact Hgap|]. split; [reflexivity|].
      intros b x0 E. destruct b; discriminate. }
    assert (Hone : forall e, s_inv2 g (mkS (s_gap w) [e] (Some (ets e)))).
    { intros e. unfold s_inv2. cbn. split; [exact Hgap|]. split; [discriminate|].
      intros b x0 E0. destruct b as [|? [|? ?]]; inv E0. reflexivity. }
    destruct o as [e|t|t| | ]; cbn [step] in Hs.
    + unfold s_add in Hs.
      destruct (s_last w) as [l|] eqn:El; [destruct (_ >? _) eqn:E|]; inv Hs; cbn [of_opt add_closings].
      * constructor.
        -- unfold closed_by_gap. cbn [fst snd]. destruct (rev (s_buf w)) as [|x0 b0] eqn:Er; [exact I|].
           assert (Eb : s_buf w = rev b0 ++ [x0]) by (rewrite <- (rev_involutive (s_buf w)), Er; reflexivity).
           pose proof (Hlast _ _ Eb) as Hl0. inv Hl0. lia.
        -- eapply IH; [apply Hone | exact Hr1].
      * eapply IH; [|exact Hr1]. unfold s_inv2. cbn [s_gap s_buf s_last]. split; [reflexivity|]. split; [discriminate|].
        intros b x0 E0. apply snoc_inj in E0. destruct E0 as [_ <-]. reflexivity.
      * eapply IH; [|exact Hr1]. rewrite (Hnone eq_refl). cbn [app]. apply Hone.
    + unfold s_wm in Hs. destruct (s_last w) as [l|] eqn:El; [destruct (_ && _) eqn:E|]; inv Hs; cbn [of_opt add_closings fst s_flush];
        (eapply IH; [|exact Hr1]; first [exact Hi | exact Hflush]).
    + unfold s_expire in Hs. destruct (s_last w) as [l|] eqn:El; [destruct (_ >? _) eqn:E|]; inv Hs; cbn [of_opt add_closings fst s_flush];
        (eapply IH; [|exact Hr1]; first [exact Hi | exact Hflush]).
    + inv Hs. cbn [add_closings]. eapply IH; [exact Hflush | exact Hr1].
    + inv Hs. cbn [add_closings]. eapply IH; [exact Hi | exact Hr1].
Qed.
