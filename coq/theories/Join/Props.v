(* C15 — joins correlate exactly the same-key events that are within the window.
   Only the property theorems; lemmas are in Join/Proofs.v, the model in Join/Model.v, the specification in Join/Spec.v. *)
From VP Require Import Base.Tactics.
From VP Require Import Join.Model Join.Spec Join.Proofs.
Open Scope Z_scope.

(* configurations and histories the statement is about: the per-key cap is at least 1 (0 panics in Vec::remove) and
   every arrival comes from one of the joined sources *)
Definition valid (c : cfg) (h : list arrival) : Prop :=
  (1 <= cap c)%nat /\ Forall (fun a : arrival => In (fst a) (sources c)) h.

(* known-finding class "ooo-history": some arrival carries a smaller timestamp than an earlier arrival *)
Definition Known_C15_ooo (h : list arrival) : Prop := sorted_ts h = false.

(* In-order histories: every add_event returns exactly the specified correlation -- an output iff every source has
   a same-key arrival (earlier or the arriving one) with ts >= t - W, built from the most recently arrived such event
   of each source, in `sources` order.  All configurations (2-way, 3-way, n-way; any window; any cap >= 1; any gc
   interval), all histories of any length, any interleaving of keys and sources, ties included. *)
Theorem C15_inorder : forall c h,
    valid c h -> sorted_ts h = true -> outputs c h = map Out (spec_run c h).
Proof. intros c h [Hcap Hsrc] Hs. apply outputs_inorder; assumption. Qed.

(* The property with its known-finding class made explicit. *)
Theorem C15_join_correlates : forall c h,
    valid c h -> ~ Known_C15_ooo h -> outputs c h = map Out (spec_run c h).
Proof.
  intros c h Hv Hk. apply C15_inorder; auto.
  unfold Known_C15_ooo in Hk. destruct (sorted_ts h); congruence.
Qed.

(* Any arrival order, out-of-order included: the join never produces a wrong or spurious correlation -- whenever an
   output is produced it is exactly the specified one (every source's most recently arrived same-key in-window event);
   and add_event never panics.  Out-of-order histories can therefore only LOSE outputs (the known finding). *)
Theorem C15_any_order_sound : forall c h,
    valid c h ->
    Forall2 (fun o sp => match o with
                         | Out (Some ch) => sp = Some ch
                         | Out None => True
                         | Panicked => False
                         end) (outputs c h) (spec_run c h).
Proof. intros c h [Hcap Hsrc]. apply outputs_sound_any_order; assumption. Qed.

(* What the specification function says, in the words of the property: an output is specified exactly when every
   joined source has an arrival with the same key whose timestamp is within the window of the arriving event. *)
Theorem C15_spec_produces_iff : forall c past a k,
    key_of c a = Some k ->
    (spec_out c past a <> None <->
     forall s, In s (sources c) ->
               exists a', In a' (past ++ [a]) /\ fst a' = s /\ key_of c a' = Some k /\
                          jts (snd a) - window c <= jts (snd a')).
Proof. exact spec_produces_iff. Qed.

(* ... and it is built from the most recently arrived such event of each source. *)
Theorem C15_spec_most_recent : forall c past a ch s e,
    spec_out c past a = Some ch -> In (s, e) ch ->
    exists k p1 p2, key_of c a = Some k /\ past ++ [a] = p1 ++ (s, e) :: p2 /\
                    candidate c s k (jts (snd a)) (s, e) = true /\
                    forall a', In a' p2 -> candidate c s k (jts (snd a)) a' = false.
Proof. exact spec_most_recent. Qed.

(* The output's fields: in the joined event built from a specified choice, "<source>.<field>" carries the value that
   field has in the chosen (most recently arrived in-window) event of that source -- for every source and field,
   whatever the event types are called (distinct source names; field names unique within an event, as in an IndexMap). *)
Theorem C15_output_fields : forall c past a ch s e f v,
    NoDup (sources c) -> spec_out c past a = Some ch -> In (s, e) ch ->
    NoDup (map fst (jfields e)) -> In (f, v) (jfields e) ->
    im_lookup (Some s, f) (snd (correlated c ch)) = Some v.
Proof. exact output_fields. Qed.

(* The garbage collector never removes more than what is out of every future window, and on in-order buffers the
   std binary search removes exactly the `< cutoff` prefix. *)
Theorem C15_gc_exact_on_sorted : forall cutoff l,
    ev_sorted l ->
    skipn (partition_point (fun e => jts e <? cutoff) l) l = filter (fun e => negb (jts e <? cutoff)) l.
Proof. exact partition_point_exact. Qed.

(* ---- non-vacuity: a concrete 2-way history with ties, an expiry and a GC run satisfies the hypotheses and
        produces both outputs and refusals *)
Definition mkev (id ty : N) (ts : Z) (k : N) : jev :=
  {| jid := id; jty := ty; jts := ts; jfields := [(0%N, k); (9%N, (1000 + id)%N)] |}.
Definition cfg2 (w : Z) (cp : nat) : cfg :=
  {| sources := [0%N; 1%N]; join_keys := [(0%N, 0%N); (1%N, 0%N)]; window := w; cap := cp |}.
Definition h_ex : list arrival :=
  [(0%N, mkev 0 0 0 0); (1%N, mkev 1 1 50 0); (1%N, mkev 2 1 50 1); (0%N, mkev 3 0 160 0); (1%N, mkev 4 1 400 0); (0%N, mkev 5 0 450 0)].
Example C15_inorder_applies :
  valid (cfg2 100 2) h_ex /\ sorted_ts h_ex = true /\
  map (fun o => match o with Out (Some _) => true | _ => false end) (outputs (cfg2 100 2) h_ex)
  = [false; true; false; false; false; true].
Proof.
  split; [split; [cbn; lia | repeat (constructor; [cbn; auto 6 |]); constructor] |].
  split; vm_compute; reflexivity.
Qed.

(* ---- the statement fails outside the class: three mechanisms, each replayed against the real JoinBuffer on every run *)
(* (i) an arrival far ahead runs the GC, which deletes an event still inside the window of a later-arriving older event *)
Definition h_gc_ahead : list arrival := [(0%N, mkev 0 0 0 0); (1%N, mkev 1 1 500 1); (1%N, mkev 2 1 50 0)].
Theorem C15_ooo_refuted_gc_ahead :
  exists c h, valid c h /\ Known_C15_ooo h /\ outputs c h <> map Out (spec_run c h).
Proof.
  exists (cfg2 100 1000), h_gc_ahead.
  split; [split; [cbn; lia | repeat (constructor; [cbn; auto 6 |]); constructor] |].
  split; [vm_compute; reflexivity |]. intros H. vm_compute in H. discriminate.
Qed.
(* (ii) partition_point on a buffer that is not sorted drains an in-window event *)
Definition h_binary_search : list arrival := [(0%N, mkev 0 0 300 0); (0%N, mkev 1 0 100 0); (0%N, mkev 2 0 100 0); (1%N, mkev 3 1 350 0)].
Theorem C15_ooo_refuted_binary_search :
  exists c h, valid c h /\ Known_C15_ooo h /\ outputs c h <> map Out (spec_run c h).
Proof.
  exists (cfg2 100 1000), h_binary_search.
  split; [split; [cbn; lia | repeat (constructor; [cbn; auto 6 |]); constructor] |].
  split; [vm_compute; reflexivity |]. intros H. vm_compute in H. discriminate.
Qed.
(* (iii) the per-key cap evicts the only in-window event while the newer arrival is out of the window *)
Definition h_cap : list arrival := [(0%N, mkev 0 0 300 0); (0%N, mkev 1 0 100 0); (1%N, mkev 2 1 300 0)].
Theorem C15_ooo_refuted_cap :
  exists c h, valid c h /\ Known_C15_ooo h /\ outputs c h <> map Out (spec_run c h).
Proof.
  exists (cfg2 100 1), h_cap.
  split; [split; [cbn; lia | repeat (constructor; [cbn; auto 6 |]); constructor] |].
  split; [vm_compute; reflexivity |]. intros H. vm_compute in H. discriminate.
Qed.
