(* Lemmas for C15: the JoinBuffer model meets the arrival-history specification on in-order histories. *)
From VP Require Import Base.Tactics.
From Coq Require Import Sorted.
From VP Require Import Join.Model Join.Spec.
Open Scope Z_scope.

(* ---------------------------------------------------------------- partition_point: soundness on monotone predicates *)
Section PP.
  Variable p : nat -> bool.
  Variable n : nat.
  Hypothesis p_mono : forall i j, (i <= j)%nat -> (j < n)%nat -> p j = true -> p i = true.

  Lemma pp_loop_inv : forall fuel base size,
      (1 <= size)%nat -> (base + size <= n)%nat -> (base = O \/ p base = true) ->
      let r := pp_loop fuel p base size in
      (r < n)%nat /\ (r = O \/ p r = true).
  Proof.
    induction fuel as [|fuel IH]; intros base size Hs Hb Hp; cbn [pp_loop].
    - split; [lia | exact Hp].
    - destruct (size <=? 1)%nat eqn:E.
      + split; [lia | exact Hp].
      + apply Nat.leb_gt in E.
        pose proof (Nat.div2_odd size) as Hodd.
        assert (Hh : (1 <= Nat.div2 size)%nat).
        { destruct size as [|[|s]]; try lia. }
        assert (Hh2 : (Nat.div2 size < size)%nat).
        { destruct (Nat.odd size); cbn [Nat.b2n] in Hodd; lia. }
        apply IH.
        * lia.
        * destruct (p (base + Nat.div2 size)%nat); lia.
        * destruct (p (base + Nat.div2 size)%nat) eqn:Ep; [right; exact Ep | exact Hp].
  Qed.
End PP.

Definition ev_le (x y : jev) : Prop := jts x <= jts y.
Definition ev_sorted (l : list jev) : Prop := StronglySorted ev_le l.

Lemma ev_sorted_nth : forall l d i j, ev_sorted l -> (i <= j)%nat -> (j < length l)%nat ->
                                      jts (nth i l d) <= jts (nth j l d).
Proof.
  induction l as [|x l IH]; intros d i j Hs Hij Hj; cbn [length] in Hj; [lia|].
  inv Hs.
  destruct i as [|i], j as [|j]; cbn [nth]; try lia.
  - rewrite Forall_forall in H2. apply H2. apply nth_In. lia.
  - apply IH; auto; lia.
Qed.

(* every index below the partition point satisfies the predicate, and the point is within bounds *)
Lemma partition_point_sound : forall cutoff l d,
    ev_sorted l ->
    let idx := partition_point (fun e => jts e <? cutoff) l in
    (idx <= length l)%nat /\ forall i, (i < idx)%nat -> jts (nth i l d) < cutoff.
Proof.
  intros cutoff l d Hs. unfold partition_point.
  destruct l as [|x l']; [cbn; split; [lia | intros; lia]|].
  set (l := x :: l') in *.
  set (p := fun i => jts (nth i l x) <? cutoff).
  assert (Hmono : forall i j, (i <= j)%nat -> (j < length l)%nat -> p j = true -> p i = true).
  { intros i j Hij Hj Hp. unfold p in *. apply Z.ltb_lt in Hp. apply Z.ltb_lt.
    pose proof (ev_sorted_nth l x i j Hs Hij Hj). lia. }
  destruct (pp_loop_inv p (length l) Hmono (length l) O (length l)) as [Hlt Hr].
  { subst l. cbn [length]. lia. }
  { lia. }
  { left; reflexivity. }
  set (r := pp_loop (length l) p O (length l)) in *.
  change (jts (nth r l x) <? cutoff) with (p r).
  destruct (p r) eqn:Epr.
  - split; [lia|]. intros i Hi.
    assert (Hpi : p i = true) by (apply (Hmono i r); [lia | exact Hlt | exact Epr]).
    unfold p in Hpi. apply Z.ltb_lt in Hpi.
    rewrite (nth_indep l d x); [exact Hpi | lia].
  - destruct Hr as [Hr | Hr]; [| congruence].
    split; [lia|]. intros i Hi. lia.
Qed.

(* ---------------------------------------------------------------- buffers as a finite map *)
Lemma bkey_eqb_refl : forall k, bkey_eqb k k = true.
Proof. intros [a b]. unfold bkey_eqb. cbn. rewrite !N.eqb_refl. reflexivity. Qed.
Lemma bkey_eqb_eq : forall a b, bkey_eqb a b = true <-> a = b.
Proof.
  intros [a1 a2] [b1 b2]. unfold bkey_eqb. cbn. rewrite andb_true_iff, !N.eqb_eq.
  split; [intros [-> ->]; reflexivity | intros H; inv H; auto].
Qed.
Lemma bkey_eqb_sym : forall a b, bkey_eqb a b = bkey_eqb b a.
Proof.
  intros a b. destruct (bkey_eqb a b) eqn:E.
  - apply bkey_eqb_eq in E. subst. symmetry. apply bkey_eqb_refl.
  - destruct (bkey_eqb b a) eqn:E2; auto. apply bkey_eqb_eq in E2. subst. rewrite bkey_eqb_refl in E. discriminate.
Qed.

Lemma get_remove_same : forall k b, buf_get k (buf_remove k b) = None.
Proof.
  intros k b. induction b as [|[k' v] b IH]; cbn; auto.
  destruct (bkey_eqb k k') eqn:E; cbn; auto. rewrite E. exact IH.
Qed.
Lemma get_remove_other : forall k k' b, bkey_eqb k' k = false -> buf_get k' (buf_remove k b) = buf_get k' b.
Proof.
  intros k k' b Hne. induction b as [|[k2 v] b IH]; cbn; auto.
  destruct (bkey_eqb k k2) eqn:E; cbn.
  - apply bkey_eqb_eq in E. subst. rewrite Hne. exact IH.
  - destruct (bkey_eqb k' k2); auto.
Qed.
Lemma get_set_same : forall k v b, buf_get k (buf_set k v b) = Some v.
Proof. intros. unfold buf_set. cbn. rewrite bkey_eqb_refl. reflexivity. Qed.
Lemma get_set_other : forall k k' v b, bkey_eqb k' k = false -> buf_get k' (buf_set k v b) = buf_get k' b.
Proof. intros. unfold buf_set. cbn. rewrite H. apply get_remove_other. exact H. Qed.

(* ---------------------------------------------------------------- the arrivals of one (source, key) *)
Definition matches (c : cfg) (s k : N) (a : arrival) : bool := N.eqb (fst a) s && has_key c k a.
Definition arrivals_of (c : cfg) (s k : N) (past : list arrival) : list jev :=
  map snd (filter (matches c s k) past).

Lemma arrivals_app : forall c s k p q, arrivals_of c s k (p ++ q) = arrivals_of c s k p ++ arrivals_of c s k q.
Proof. intros. unfold arrivals_of. rewrite filter_app, map_app. reflexivity. Qed.

Lemma sorted_filter_map : forall (P : arrival -> bool) past,
    ev_sorted (map snd past) -> ev_sorted (map snd (filter P past)).
Proof.
  induction past as [|a past IH]; cbn; intros Hs; [constructor|].
  inv Hs. destruct (P a); cbn; [| apply IH; assumption].
  constructor; [apply IH; assumption |].
  apply Forall_forall. intros x Hx. rewrite Forall_forall in H2. apply H2.
  apply in_map_iff in Hx. destruct Hx as [y [<- Hy]]. apply filter_In in Hy.
  apply in_map. tauto.
Qed.

Lemma ev_sorted_app_le : forall pre evs x y, ev_sorted (pre ++ evs) -> In x pre -> In y evs -> jts x <= jts y.
Proof.
  induction pre as [|p pre IH]; cbn; intros evs x y Hs Hx Hy; [tauto|].
  inv Hs. destruct Hx as [-> | Hx].
  - rewrite Forall_forall in H2. apply H2. apply in_or_app. auto.
  - eapply IH; eauto.
Qed.
Lemma ev_sorted_app_r : forall pre evs, ev_sorted (pre ++ evs) -> ev_sorted evs.
Proof. induction pre; cbn; intros evs Hs; auto. inv Hs. auto. Qed.
Lemma ev_sorted_snoc : forall l e, ev_sorted l -> Forall (fun x => jts x <= jts e) l -> ev_sorted (l ++ [e]).
Proof.
  induction l as [|x l IH]; cbn; intros e Hs Hf.
  - constructor; constructor.
  - inv Hs. inv Hf. constructor; [apply IH; assumption |].
    apply Forall_forall. intros y Hy. rewrite Forall_forall in H2. apply in_app_or in Hy. destruct Hy as [Hy | [<- | []]]; auto.
Qed.

(* ---------------------------------------------------------------- the invariant *)
Definition Inv (c : cfg) (past : list arrival) (tnow : Z) (b : list (bkey * list jev)) : Prop :=
  forall s k,
    match buf_get (s, k) b with
    | Some evs => evs <> [] /\ exists pre, arrivals_of c s k past = pre ++ evs
    | None => Forall (fun e => jts e < tnow - window c) (arrivals_of c s k past)
    end.

Lemma Inv_weaken : forall c past t t' b, t <= t' -> Inv c past t b -> Inv c past t' b.
Proof.
  intros c past t t' b Hle HI s k. specialize (HI s k).
  destruct (buf_get (s, k) b); auto.
  eapply Forall_impl; [| exact HI]. cbn. intros. lia.
Qed.

Lemma skipn_nil_length : forall {A} n (l : list A), skipn n l = [] -> (length l <= n)%nat.
Proof.
  induction n; destruct l; cbn; intros; try lia; try discriminate.
  apply IHn in H. lia.
Qed.

Lemma Inv_gc_one : forall c past t b s k,
    (forall s k, ev_sorted (arrivals_of c s k past)) ->
    Inv c past t b -> Inv c past t (gc_one (t - window c) s k b).
Proof.
  intros c past t b s k Hsorted HI. unfold gc_one.
  pose proof (HI s k) as Hsk.
  destruct (buf_get (s, k) b) as [evs|] eqn:Eg; [| exact HI].
  destruct Hsk as [Hne [pre Hpre]].
  assert (Hse : ev_sorted evs).
  { apply (ev_sorted_app_r pre). rewrite <- Hpre. apply Hsorted. }
  destruct evs as [|e0 evs0]; [congruence|].
  destruct (partition_point_sound (t - window c) (e0 :: evs0) e0 Hse) as [Hidx Hall].
  set (idx := partition_point (fun e => jts e <? t - window c) (e0 :: evs0)) in *.
  destruct (skipn idx (e0 :: evs0)) as [|e1 rest] eqn:Esk.
  - (* everything drained: the key entry is removed *)
    intros s' k'. destruct (bkey_eqb (s', k') (s, k)) eqn:E.
    + apply bkey_eqb_eq in E. inv E. rewrite get_remove_same.
      apply skipn_nil_length in Esk.
      assert (Hev : forall y, In y (e0 :: evs0) -> jts y < t - window c).
      { intros y Hy. apply (In_nth _ _ e0) in Hy. destruct Hy as [i [Hi <-]]. apply Hall. lia. }
      rewrite Hpre. apply Forall_forall. intros x Hx. apply in_app_or in Hx. destruct Hx as [Hx | Hx]; auto.
      assert (jts x <= jts e0).
      { apply (ev_sorted_app_le pre (e0 :: evs0)); auto; [rewrite <- Hpre; apply Hsorted | left; reflexivity]. }
      specialize (Hev e0 (or_introl eq_refl)). lia.
    + rewrite get_remove_other by exact E. apply HI.
  - intros s' k'. destruct (bkey_eqb (s', k') (s, k)) eqn:E.
    + apply bkey_eqb_eq in E. inv E. rewrite get_set_same. split; [discriminate|].
      exists (pre ++ firstn idx (e0 :: evs0)). rewrite Hpre, <- app_assoc, <- Esk, firstn_skipn. reflexivity.
    + rewrite get_set_other by exact E. apply HI.
Qed.

Lemma Inv_gc_loop : forall c past t q b,
    (forall s k, ev_sorted (arrivals_of c s k past)) ->
    Inv c past t b -> Inv c past t (snd (gc_loop t (t - window c) q b)).
Proof.
  intros c past t q. induction q as [|[[ex s] k] q IH]; intros b Hs HI; cbn [gc_loop]; [exact HI|].
  destruct (t <? ex); [exact HI|].
  apply IH; auto. apply Inv_gc_one; auto.
Qed.

Lemma Inv_cleanup : forall c past tnow t st,
    tnow <= t ->
    (forall s k, ev_sorted (arrivals_of c s k past)) ->
    Inv c past tnow (bufs st) -> Inv c past t (bufs (cleanup_expired c st t)).
Proof.
  intros c past tnow t st Hle Hs HI. apply (Inv_weaken _ _ _ t) in HI; auto.
  unfold cleanup_expired.
  destruct (match last_gc st with Some g => t - g <? gc_interval c | None => false end); [exact HI|].
  pose proof (Inv_gc_loop c past t (queue st) (bufs st) Hs HI) as H.
  destruct (gc_loop t (t - window c) (queue st) (bufs st)) as [q b]. exact H.
Qed.

(* pushing the arriving event (after cap eviction) *)
Lemma skipn_suffix : forall {A} n (l : list A), exists d, l = d ++ skipn n l.
Proof. intros. exists (firstn n l). symmetry. apply firstn_skipn. Qed.

Lemma Inv_push : forall c past t b s e k evs',
    key_of c (s, e) = Some k ->
    (exists d, match buf_get (s, k) b with Some l => l | None => [] end = d ++ evs') ->
    Inv c past t b ->
    Inv c (past ++ [(s, e)]) t (buf_set (s, k) (evs' ++ [e]) b).
Proof.
  intros c past t b s e k evs' Hk [d Hd] HI s' k'.
  rewrite arrivals_app.
  destruct (bkey_eqb (s', k') (s, k)) eqn:E.
  - apply bkey_eqb_eq in E. inv E. rewrite get_set_same.
    split; [destruct evs'; discriminate|].
    assert (Hm : arrivals_of c s k [(s, e)] = [e]).
    { unfold arrivals_of, matches, has_key. cbn. rewrite Hk, !N.eqb_refl. reflexivity. }
    rewrite Hm. specialize (HI s k).
    destruct (buf_get (s, k) b) as [l|].
    + destruct HI as [_ [pre Hpre]]. exists (pre ++ d). rewrite Hpre, Hd, !app_assoc. reflexivity.
    + destruct d; [|discriminate]. cbn in Hd. subst evs'. exists (arrivals_of c s k past). reflexivity.
  - rewrite get_set_other by exact E.
    assert (Hm : arrivals_of c s' k' [(s, e)] = []).
    { unfold arrivals_of, matches, has_key. cbn. rewrite Hk.
      destruct (N.eqb s s') eqn:E1; cbn; auto. destruct (N.eqb k' k) eqn:E2; cbn; auto.
      apply N.eqb_eq in E1, E2. subst. rewrite bkey_eqb_refl in E. discriminate. }
    rewrite Hm, app_nil_r. apply HI.
Qed.

(* an arrival without a key changes nobody's arrivals *)
Lemma arrivals_nokey : forall c s k a, key_of c a = None -> arrivals_of c s k [a] = [].
Proof.
  intros. unfold arrivals_of, matches, has_key. cbn. rewrite H. rewrite andb_false_r. reflexivity.
Qed.

(* ---------------------------------------------------------------- the reverse scan finds the specified event *)
Lemma find_conj_filter : forall {A} (p q : A -> bool) l,
    find (fun a => p a && q a) l = find q (filter p l).
Proof.
  induction l as [|a l IH]; cbn; auto.
  destruct (p a); cbn; auto. destruct (q a); auto.
Qed.
Lemma find_map_snd : forall (q : jev -> bool) (l : list arrival),
    option_map snd (find (fun a => q (snd a)) l) = find q (map snd l).
Proof. induction l as [|a l IH]; cbn; auto. destruct (q (snd a)); auto. Qed.
Lemma filter_rev : forall {A} (p : A -> bool) l, filter p (rev l) = rev (filter p l).
Proof.
  induction l as [|a l IH]; cbn; auto. rewrite filter_app, IH. cbn. destruct (p a); cbn; auto. rewrite app_nil_r. reflexivity.
Qed.

Lemma find_none_intro : forall {A} (p : A -> bool) l, (forall x, In x l -> p x = false) -> find p l = None.
Proof.
  induction l as [|a l IH]; cbn; intros H; auto.
  rewrite (H a (or_introl eq_refl)). apply IH. intros. apply H. right. assumption.
Qed.
Lemma find_ext' : forall {A} (p q : A -> bool) l, (forall a, p a = q a) -> find p l = find q l.
Proof. induction l as [|a l IH]; cbn; intros H; auto. rewrite H, IH; auto. Qed.

Lemma last_match_arrivals : forall c past s k t,
    last_match c past s k t = find (in_window c t) (rev (arrivals_of c s k past)).
Proof.
  intros. unfold last_match, arrivals_of.
  rewrite <- map_rev, <- filter_rev, <- find_map_snd. f_equal.
  rewrite <- (find_conj_filter (matches c s k) (fun a => in_window c t (snd a))).
  apply find_ext'. intros a. unfold candidate, matches. reflexivity.
Qed.

Lemma find_none_all : forall {A} (p : A -> bool) l, find p l = None -> forall x, In x l -> p x = false.
Proof. intros. eapply find_none; eauto. Qed.

Lemma source_choice : forall c past t b s k,
    Inv c past t b ->
    ev_sorted (arrivals_of c s k past) ->
    match buf_get (s, k) b with
    | None => None
    | Some evs => rfind_window c t evs
    end = last_match c past s k t.
Proof.
  intros c past t b s k HI Hs. rewrite last_match_arrivals. specialize (HI s k).
  destruct (buf_get (s, k) b) as [evs|].
  - destruct HI as [Hne [pre Hpre]]. rewrite Hpre in *. unfold rfind_window.
    rewrite rev_app_distr.
    destruct (find (in_window c t) (rev evs)) as [e|] eqn:Ef.
    + symmetry. clear - Ef. induction (rev evs) as [|x l IH]; cbn in *; [discriminate|].
      destruct (in_window c t x); auto.
    + assert (Hall : forall x, In x evs -> in_window c t x = false).
      { intros x Hx. apply (find_none_all _ _ Ef). apply in_rev in Hx. exact Hx. }
      assert (Hpre' : forall x, In x pre -> in_window c t x = false).
      { intros x Hx. destruct evs as [|y evs]; [congruence|].
        pose proof (ev_sorted_app_le pre (y :: evs) x y Hs Hx (or_introl eq_refl)) as Hle.
        specialize (Hall y (or_introl eq_refl)). unfold in_window in *.
        apply Z.leb_gt in Hall. apply Z.leb_gt. lia. }
      symmetry. apply find_none_intro.
      intros x Hx. apply in_app_or in Hx. destruct Hx as [Hx | Hx]; apply in_rev in Hx; auto.
  - symmetry. apply find_none_intro. intros x Hx. apply in_rev in Hx.
    rewrite Forall_forall in HI. specialize (HI x Hx). unfold in_window. apply Z.leb_gt. lia.
Qed.

(* ---------------------------------------------------------------- try_correlate computes the specified choice *)
Lemma correlate_spec : forall c past t b k srcs,
    Inv c past t b ->
    (forall s k, ev_sorted (arrivals_of c s k past)) ->
    correlate_sources c b k t srcs
    = all_some (map (fun s => option_map (pair s) (last_match c past s k t)) srcs).
Proof.
  intros c past t b k srcs HI Hs. induction srcs as [|s srcs IH]; cbn [correlate_sources map all_some]; [reflexivity|].
  rewrite <- (source_choice c past t b s k HI (Hs s k)).
  destruct (buf_get (s, k) b) as [evs|]; cbn [option_map]; [| reflexivity].
  destruct (rfind_window c t evs) as [e|]; cbn [option_map]; [| reflexivity].
  rewrite IH. reflexivity.
Qed.

Lemma arrivals_sorted : forall c s k past, ev_sorted (map snd past) -> ev_sorted (arrivals_of c s k past).
Proof. intros. unfold arrivals_of. apply sorted_filter_map. assumption. Qed.

Lemma cap_evict_suffix : forall c evs, (1 <= cap c)%nat -> exists evs' d, cap_evict c evs = Some evs' /\ evs = d ++ evs'.
Proof.
  intros c evs Hc. unfold cap_evict. destruct (cap c) as [|n] eqn:E; [lia|].
  destruct (S n <=? length evs)%nat.
  - eexists. exists (firstn (length evs - S n + 1) evs). split; [reflexivity|]. symmetry. apply firstn_skipn.
  - exists evs, []. split; reflexivity.
Qed.

Lemma existsb_eqb_In : forall s l, In s l -> existsb (N.eqb s) l = true.
Proof. intros. apply existsb_exists. exists s. split; auto. apply N.eqb_refl. Qed.

(* one add_event: the output is the specified one and the invariant is re-established *)
Lemma step_spec : forall c past tnow st s e,
    (1 <= cap c)%nat ->
    In s (sources c) ->
    Inv c past tnow (bufs st) ->
    ev_sorted (map snd past) ->
    Forall (fun a : arrival => jts (snd a) <= tnow) past ->
    tnow <= jts e ->
    snd (add_event c st s e) = Out (spec_out c past (s, e)) /\
    Inv c (past ++ [(s, e)]) (jts e) (bufs (fst (add_event c st s e))).
Proof.
  intros c past tnow st s e Hcap Hin HI Hsorted Hle Ht.
  assert (Hsort_past : forall s k, ev_sorted (arrivals_of c s k past)) by (intros; apply arrivals_sorted; assumption).
  unfold add_event, spec_out, key_of. cbn [fst snd].
  destruct (assoc s (join_keys c)) as [kf|] eqn:Ekf.
  2:{ cbn [fst snd]. split; [reflexivity|].
      intros s' k'. rewrite arrivals_app, arrivals_nokey, app_nil_r by (unfold key_of; cbn; rewrite Ekf; reflexivity).
      apply (Inv_weaken c past tnow (jts e)); assumption. }
  destruct (assoc kf (jfields e)) as [key|] eqn:Ekey.
  2:{ cbn [fst snd]. split; [reflexivity|].
      intros s' k'. rewrite arrivals_app, arrivals_nokey, app_nil_r by (unfold key_of; cbn; rewrite Ekf; exact Ekey).
      apply (Inv_weaken c past tnow (jts e)); assumption. }
  rewrite (existsb_eqb_In s (sources c) Hin).
  pose proof (Inv_cleanup c past tnow (jts e) st Ht Hsort_past HI) as HI1.
  set (st1 := cleanup_expired c st (jts e)) in *.
  destruct (cap_evict_suffix c (match buf_get (s, key) (bufs st1) with Some l => l | None => [] end) Hcap) as [evs' [d [Hev Hd]]].
  rewrite Hev. cbn [fst snd bufs].
  assert (Hk : key_of c (s, e) = Some key) by (unfold key_of; cbn; rewrite Ekf; exact Ekey).
  pose proof (Inv_push c past (jts e) (bufs st1) s e key evs' Hk (ex_intro _ d Hd) HI1) as HI2.
  split; [| exact HI2].
  f_equal. unfold try_correlate. cbn [bufs].
  apply correlate_spec; [exact HI2|].
  intros s' k'. apply arrivals_sorted. rewrite map_app. cbn [map snd].
  apply ev_sorted_snoc; [assumption|].
  apply Forall_forall. intros x Hx. apply in_map_iff in Hx. destruct Hx as [a [<- Ha]].
  rewrite Forall_forall in Hle. specialize (Hle a Ha). cbn in Hle. lia.
Qed.

Lemma run_from_spec : forall c h past tnow st,
    (1 <= cap c)%nat ->
    Forall (fun a : arrival => In (fst a) (sources c)) h ->
    Inv c past tnow (bufs st) ->
    ev_sorted (map snd past) ->
    Forall (fun a : arrival => jts (snd a) <= tnow) past ->
    sorted_from tnow h = true ->
    map fst (run_from c st h) = map Out (spec_from c past h).
Proof.
  intros c h. induction h as [|[s e] h IH]; intros past tnow st Hcap Hsrc HI Hsorted Hle Hs; [reflexivity|].
  cbn [run_from spec_from sorted_from snd] in *.
  apply andb_true_iff in Hs. destruct Hs as [Ht Hs]. apply Z.leb_le in Ht.
  inv Hsrc. cbn [fst] in H1.
  destruct (step_spec c past tnow st s e Hcap H1 HI Hsorted Hle Ht) as [Hout HI'].
  destruct (add_event c st s e) as [st' o]. cbn [fst snd] in *. subst o.
  cbn [map fst]. f_equal.
  apply (IH (past ++ [(s, e)]) (jts e) st'); auto.
  - rewrite map_app. cbn [map snd]. apply ev_sorted_snoc; [assumption|].
    apply Forall_forall. intros x Hx. apply in_map_iff in Hx. destruct Hx as [a [<- Ha]].
    rewrite Forall_forall in Hle. specialize (Hle a Ha). cbn in Hle. lia.
  - apply Forall_app. split.
    + eapply Forall_impl; [| exact Hle]. cbn. intros. lia.
    + constructor; [cbn; lia | constructor].
Qed.

Theorem outputs_inorder : forall c h,
    (1 <= cap c)%nat ->
    Forall (fun a : arrival => In (fst a) (sources c)) h ->
    sorted_ts h = true ->
    outputs c h = map Out (spec_run c h).
Proof.
  intros c h Hcap Hsrc Hs. unfold outputs, run, spec_run.
  destruct h as [|a h]; [reflexivity|].
  apply (run_from_spec c (a :: h) [] (jts (snd a)) init); auto.
  - intros s k. cbn. constructor.
  - constructor.
  - cbn [sorted_from]. cbn [sorted_ts] in Hs. rewrite Hs, Z.leb_refl. reflexivity.
Qed.

(* ---------------------------------------------------------------- partition_point is exact on sorted buffers *)
Section PPC.
  Variable p : nat -> bool.
  Variable n : nat.
  Hypothesis p_mono : forall i j, (i <= j)%nat -> (j < n)%nat -> p j = true -> p i = true.

  Lemma p_anti : forall i j, (i <= j)%nat -> (j < n)%nat -> p i = false -> p j = false.
  Proof. intros i j Hij Hj Hp. destruct (p j) eqn:E; auto. rewrite (p_mono i j Hij Hj E) in Hp. discriminate. Qed.

  Lemma pp_loop_complete : forall fuel base size,
      (1 <= size)%nat -> (size <= S fuel)%nat -> (base + size <= n)%nat ->
      (forall j, (base + size <= j)%nat -> (j < n)%nat -> p j = false) ->
      forall j, (pp_loop fuel p base size + 1 <= j)%nat -> (j < n)%nat -> p j = false.
  Proof.
    induction fuel as [|fuel IH]; intros base size Hs Hf Hb Hup j Hj Hjn; cbn [pp_loop] in Hj.
    - apply Hup; lia.
    - destruct (size <=? 1)%nat eqn:E.
      + apply Nat.leb_le in E. apply Hup; lia.
      + apply Nat.leb_gt in E.
        pose proof (Nat.div2_odd size) as Hodd.
        assert (Hh : (1 <= Nat.div2 size)%nat) by (destruct size as [|[|s]]; try lia).
        assert (Hh2 : (2 * Nat.div2 size <= size)%nat) by (destruct (Nat.odd size); cbn [Nat.b2n] in Hodd; lia).
        destruct (p (base + Nat.div2 size)%nat) eqn:Ep.
        * eapply (IH (base + Nat.div2 size)%nat (size - Nat.div2 size)%nat); try eassumption; try lia.
          intros j' Hj' Hjn'. apply Hup; lia.
        * eapply (IH base (size - Nat.div2 size)%nat); try eassumption; try lia.
          intros j' Hj' Hjn'. apply (p_anti (base + Nat.div2 size)%nat j'); auto. lia.
  Qed.
End PPC.

Lemma filter_all_true : forall {A} (q : A -> bool) l, (forall x, In x l -> q x = true) -> filter q l = l.
Proof.
  induction l as [|a l IH]; cbn; intros H; auto.
  rewrite (H a (or_introl eq_refl)), IH; auto.
Qed.

Lemma skipn_filter_split : forall (pred : jev -> bool) d l idx,
    (idx <= length l)%nat ->
    (forall i, (i < idx)%nat -> pred (nth i l d) = true) ->
    (forall j, (idx <= j)%nat -> (j < length l)%nat -> pred (nth j l d) = false) ->
    skipn idx l = filter (fun e => negb (pred e)) l.
Proof.
  intros pred d. induction l as [|x l IH]; intros idx Hidx Hlo Hhi.
  - destruct idx; reflexivity.
  - destruct idx as [|idx].
    + cbn [skipn]. symmetry. apply filter_all_true. intros y Hy.
      apply (In_nth _ _ d) in Hy. destruct Hy as [j [Hj <-]]. rewrite Hhi; auto. lia.
    + pose proof (Hlo O ltac:(lia)) as H0. cbn [nth] in H0.
      cbn [skipn filter]. rewrite H0. cbn [negb].
      apply IH.
      * cbn [length] in Hidx. lia.
      * intros i Hi. apply (Hlo (S i)). lia.
      * intros j Hj Hjl. apply (Hhi (S j)); cbn [length]; lia.
Qed.

Lemma partition_point_exact : forall cutoff l,
    ev_sorted l ->
    skipn (partition_point (fun e => jts e <? cutoff) l) l = filter (fun e => negb (jts e <? cutoff)) l.
Proof.
  intros cutoff l Hs.
  destruct l as [|x l']; [reflexivity|].
  destruct (partition_point_sound cutoff (x :: l') x Hs) as [Hidx Hlo].
  apply (skipn_filter_split (fun e => jts e <? cutoff) x); auto.
  - intros i Hi. apply Z.ltb_lt. apply Hlo. exact Hi.
  - intros j Hj Hjl. unfold partition_point in Hj.
    set (l := x :: l') in *.
    set (p := fun i => jts (nth i l x) <? cutoff) in *.
    assert (Hmono : forall i j, (i <= j)%nat -> (j < length l)%nat -> p j = true -> p i = true).
    { intros i j' Hij Hj' Hp. unfold p in *. apply Z.ltb_lt in Hp. apply Z.ltb_lt.
      pose proof (ev_sorted_nth l x i j' Hs Hij Hj'). lia. }
    set (r := pp_loop (length l) p O (length l)) in *.
    change (jts (nth r l x) <? cutoff) with (p r) in Hj.
    change (p j = false).
    destruct (p r) eqn:Epr.
    + assert (Hlen : (1 <= length l)%nat) by (subst l; cbn [length]; lia).
      apply (pp_loop_complete p (length l) Hmono (length l) O (length l)); [lia | lia | lia | | | exact Hjl].
      * intros j' Hj' Hjn. lia.
      * fold r. lia.
    + apply (p_anti p (length l) Hmono r j); auto. lia.
Qed.

(* ---------------------------------------------------------------- the specification in the words of the property *)
Lemma all_some_not_none : forall {A B} (f : A -> option B) l,
    all_some (map f l) <> None <-> forall s, In s l -> f s <> None.
Proof.
  intros A B f. induction l as [|a l IH]; cbn [map all_some].
  - split; [intros _ s [] | intros _; discriminate].
  - destruct (f a) as [x|] eqn:Ea.
    + destruct (all_some (map f l)) eqn:El.
      * split; [| intros _; discriminate].
        intros _ s [<- | Hs]; [congruence|]. apply IH; [discriminate | exact Hs].
      * split; [congruence|]. intros H. exfalso. apply (proj2 IH); [| reflexivity].
        intros s Hs. apply H. right. exact Hs.
    + split; [congruence|]. intros H. exfalso. apply (H a); [left; reflexivity | exact Ea].
Qed.

Lemma has_key_iff : forall c k a, has_key c k a = true <-> key_of c a = Some k.
Proof.
  intros. unfold has_key. destruct (key_of c a) as [k'|]; [| split; discriminate].
  rewrite N.eqb_eq. split; [intros ->; reflexivity | intros H; inv H; reflexivity].
Qed.

Lemma candidate_iff : forall c s k t a,
    candidate c s k t a = true <-> fst a = s /\ key_of c a = Some k /\ t - window c <= jts (snd a).
Proof.
  intros. unfold candidate, in_window. rewrite !andb_true_iff, N.eqb_eq, has_key_iff, Z.leb_le. tauto.
Qed.

Lemma spec_produces_iff : forall c past a k,
    key_of c a = Some k ->
    (spec_out c past a <> None <->
     forall s, In s (sources c) ->
               exists a', In a' (past ++ [a]) /\ fst a' = s /\ key_of c a' = Some k /\
                          jts (snd a) - window c <= jts (snd a')).
Proof.
  intros c past a k Hk. unfold spec_out. rewrite Hk, all_some_not_none.
  split; intros H s Hs; specialize (H s Hs).
  - unfold last_match in H.
    destruct (find (candidate c s k (jts (snd a))) (rev (past ++ [a]))) as [a'|] eqn:Ef; [| cbn in H; congruence].
    apply find_some in Ef. destruct Ef as [Hin Hc]. apply in_rev in Hin.
    apply candidate_iff in Hc. exists a'. tauto.
  - destruct H as [a' [Hin Hc]]. unfold last_match.
    destruct (find (candidate c s k (jts (snd a))) (rev (past ++ [a]))) as [a0|] eqn:Ef; [cbn; discriminate|].
    exfalso. apply in_rev in Hin. pose proof (find_none _ _ Ef a' Hin) as Hn.
    pose proof (proj2 (candidate_iff c s k (jts (snd a)) a') Hc) as Hc'. rewrite Hc' in Hn. discriminate.
Qed.

Lemma find_rev_split : forall {A} (q : A -> bool) l x,
    find q (rev l) = Some x -> exists p1 p2, l = p1 ++ x :: p2 /\ q x = true /\ forall y, In y p2 -> q y = false.
Proof.
  intros A q l. induction l as [|y l IH] using rev_ind; intros x Hf; [discriminate|].
  rewrite rev_app_distr in Hf. cbn in Hf.
  destruct (q y) eqn:Ey.
  - inv Hf. exists l, []. split; [reflexivity | split; [exact Ey | intros ? []]].
  - destruct (IH x Hf) as [p1 [p2 [-> [Hx Hp2]]]].
    exists p1, (p2 ++ [y]). split; [rewrite <- app_assoc; reflexivity | split; [exact Hx|]].
    intros z Hz. apply in_app_or in Hz. destruct Hz as [Hz | [<- | []]]; auto.
Qed.

Lemma all_some_in : forall {A B} (f : A -> option B) l ys y,
    all_some (map f l) = Some ys -> In y ys -> exists s, In s l /\ f s = Some y.
Proof.
  intros A B f. induction l as [|a l IH]; cbn [map all_some]; intros ys y H Hy.
  - inv H. destruct Hy.
  - destruct (f a) as [x|] eqn:Ea; [| discriminate].
    destruct (all_some (map f l)) as [xs|] eqn:El; [| discriminate]. inv H.
    destruct Hy as [<- | Hy].
    + exists a. split; [left; reflexivity | exact Ea].
    + destruct (IH xs y eq_refl Hy) as [s [Hs Hfs]]. exists s. split; [right; exact Hs | exact Hfs].
Qed.

Lemma spec_most_recent : forall c past a ch s e,
    spec_out c past a = Some ch -> In (s, e) ch ->
    exists k p1 p2, key_of c a = Some k /\ past ++ [a] = p1 ++ (s, e) :: p2 /\
                    candidate c s k (jts (snd a)) (s, e) = true /\
                    forall a', In a' p2 -> candidate c s k (jts (snd a)) a' = false.
Proof.
  intros c past a ch s e H Hin. unfold spec_out in H.
  destruct (key_of c a) as [k|] eqn:Hk; [| discriminate].
  destruct (all_some_in _ _ _ _ H Hin) as [s' [Hs' Hf]].
  unfold last_match in Hf.
  destruct (find (candidate c s' k (jts (snd a))) (rev (past ++ [a]))) as [a0|] eqn:Ef; cbn in Hf; [| discriminate].
  inv Hf.
  destruct (find_rev_split _ _ _ Ef) as [p1 [p2 [Hl [Hc Hp2]]]].
  pose proof (proj1 (candidate_iff c s k (jts (snd a)) a0) Hc) as [Hs0 _].
  assert (Ha0 : a0 = (s, snd a0)) by (destruct a0; cbn in *; subst; reflexivity).
  exists k, p1, p2. rewrite <- Ha0. auto.
Qed.

(* ---------------------------------------------------------------- the merged event carries each source's own fields *)
Fixpoint im_lookup (k : mkey) (m : list (mkey * N)) : option N :=
  match m with
  | [] => None
  | (k', v) :: r => if mkey_eqb k k' then Some v else im_lookup k r
  end.

Lemma mkey_eqb_refl : forall k, mkey_eqb k k = true.
Proof. intros [[p|] f]; unfold mkey_eqb; cbn; rewrite ?N.eqb_refl; reflexivity. Qed.
Lemma mkey_eqb_eq : forall a b, mkey_eqb a b = true -> a = b.
Proof.
  intros [[p|] f] [[q|] g]; unfold mkey_eqb; cbn; intros H; try discriminate.
  - apply andb_true_iff in H. destruct H as [H1 H2]. apply N.eqb_eq in H1, H2. subst. reflexivity.
  - apply N.eqb_eq in H. subst. reflexivity.
Qed.
Lemma mkey_eqb_trans_false : forall k a b, mkey_eqb a b = true -> mkey_eqb k a = mkey_eqb k b.
Proof. intros k a b H. apply mkey_eqb_eq in H. subst. reflexivity. Qed.

Lemma lookup_insert_same : forall k v m, im_lookup k (im_insert k v m) = Some v.
Proof.
  intros k v. induction m as [|[k' v'] m IH]; cbn [im_insert im_lookup].
  - rewrite mkey_eqb_refl. reflexivity.
  - destruct (mkey_eqb k k') eqn:E; cbn [im_lookup].
    + rewrite mkey_eqb_refl. reflexivity.
    + rewrite E. exact IH.
Qed.
Lemma lookup_insert_other : forall k k' v m, mkey_eqb k k' = false -> im_lookup k (im_insert k' v m) = im_lookup k m.
Proof.
  intros k k' v. induction m as [|[k2 v2] m IH]; intros Hne; cbn [im_insert im_lookup].
  - rewrite Hne. reflexivity.
  - destruct (mkey_eqb k' k2) eqn:E; cbn [im_lookup].
    + rewrite Hne. rewrite <- (mkey_eqb_trans_false k k' k2 E), Hne. reflexivity.
    + rewrite IH by exact Hne. reflexivity.
Qed.

(* one field of an event of source s' with type ty: which keys it may write *)
Lemma merge_field_other : forall srcs s' ty m fv K,
    (forall g, mkey_eqb K (Some s', g) = false) ->
    (N.eqb s' ty || existsb (N.eqb ty) srcs = false -> forall g, mkey_eqb K (Some ty, g) = false) ->
    (forall g, mkey_eqb K (None, g) = false) ->
    im_lookup K (merge_field srcs s' ty m fv) = im_lookup K m.
Proof.
  intros srcs s' ty m [f v] K H1 H2 H3. unfold merge_field.
  destruct (N.eqb s' ty || existsb (N.eqb ty) srcs) eqn:E.
  - destruct (im_contains (None, f) (im_insert (Some s', f) v m)).
    + apply lookup_insert_other. apply H1.
    + rewrite lookup_insert_other by apply H3. apply lookup_insert_other. apply H1.
  - destruct (im_contains (None, f) (im_insert (Some ty, f) v (im_insert (Some s', f) v m))).
    + rewrite lookup_insert_other by (apply H2; reflexivity). apply lookup_insert_other. apply H1.
    + rewrite lookup_insert_other by apply H3. rewrite lookup_insert_other by (apply H2; reflexivity).
      apply lookup_insert_other. apply H1.
Qed.

Lemma some_key_neq_src : forall s f s' g, s <> s' -> mkey_eqb (Some s, f) (Some s', g) = false.
Proof. intros. unfold mkey_eqb. cbn. destruct (N.eqb s s') eqn:E; [apply N.eqb_eq in E; congruence | reflexivity]. Qed.
Lemma some_key_neq_none : forall s f g, mkey_eqb (Some s, f) (None, g) = false.
Proof. reflexivity. Qed.

Lemma alias_not_source : forall srcs s s' ty f g,
    In s srcs -> N.eqb s' ty || existsb (N.eqb ty) srcs = false -> mkey_eqb (Some s, f) (Some ty, g) = false.
Proof.
  intros srcs s s' ty f g Hin H. apply orb_false_iff in H. destruct H as [_ H].
  apply some_key_neq_src. intros ->.
  assert (existsb (N.eqb ty) srcs = true) by (apply existsb_exists; exists ty; split; [exact Hin | apply N.eqb_refl]).
  congruence.
Qed.

(* an event of another source leaves "<s>.<f>" alone *)
Lemma merge_event_other : forall srcs s f s' e' m,
    In s srcs -> s <> s' ->
    im_lookup (Some s, f) (merge_event srcs m (s', e')) = im_lookup (Some s, f) m.
Proof.
  intros srcs s f s' e' m Hin Hne. unfold merge_event. cbn [fst snd].
  generalize dependent m. induction (jfields e') as [|fv fs IH]; intros m; cbn [fold_left]; [reflexivity|].
  rewrite IH. apply merge_field_other.
  - intros g. apply some_key_neq_src. exact Hne.
  - intros H g. eapply alias_not_source; eauto.
  - intros g. apply some_key_neq_none.
Qed.

(* the event of source s itself writes its own field values under "<s>.<field>" *)
Lemma merge_field_own : forall srcs s ty m f f' v',
    In s srcs ->
    im_lookup (Some s, f) (merge_field srcs s ty m (f', v'))
    = if N.eqb f f' then Some v' else im_lookup (Some s, f) m.
Proof.
  intros srcs s ty m f f' v' Hin. unfold merge_field.
  assert (Hown : im_lookup (Some s, f) (im_insert (Some s, f') v' m) = if N.eqb f f' then Some v' else im_lookup (Some s, f) m).
  { destruct (N.eqb f f') eqn:E.
    - apply N.eqb_eq in E. subst. apply lookup_insert_same.
    - apply lookup_insert_other. unfold mkey_eqb. cbn. rewrite N.eqb_refl, E. reflexivity. }
  destruct (N.eqb s ty || existsb (N.eqb ty) srcs) eqn:E.
  - destruct (im_contains (None, f') (im_insert (Some s, f') v' m)); [exact Hown|].
    rewrite lookup_insert_other by apply some_key_neq_none. exact Hown.
  - assert (Hal : mkey_eqb (Some s, f) (Some ty, f') = false) by (eapply alias_not_source; eauto).
    destruct (im_contains (None, f') (im_insert (Some ty, f') v' (im_insert (Some s, f') v' m))).
    + rewrite lookup_insert_other by exact Hal. exact Hown.
    + rewrite lookup_insert_other by apply some_key_neq_none. rewrite lookup_insert_other by exact Hal. exact Hown.
Qed.

Lemma merge_fields_own : forall srcs s ty fs m f v,
    In s srcs -> NoDup (map fst fs) -> In (f, v) fs ->
    im_lookup (Some s, f) (fold_left (merge_field srcs s ty) fs m) = Some v.
Proof.
  intros srcs s ty fs. induction fs as [|[f' v'] fs IH]; intros m f v Hin Hnd Hf; [destruct Hf|].
  cbn [fold_left]. cbn [map fst] in Hnd. inversion Hnd as [|? ? Hnot Hnd']; subst.
  destruct Hf as [Heq | Hf].
  - inversion Heq; subst. clear Heq.
    (* later fields have other names: the value stays *)
    assert (Hkeep : forall fs' m', ~ In f (map fst fs') ->
                                   im_lookup (Some s, f) (fold_left (merge_field srcs s ty) fs' m') = im_lookup (Some s, f) m').
    { induction fs' as [|[g w] fs' IH']; intros m' Hn; cbn [fold_left]; [reflexivity|].
      rewrite IH' by (intros Hc; apply Hn; right; exact Hc).
      rewrite (merge_field_own srcs s ty m' f g w Hin).
      destruct (N.eqb f g) eqn:E; [| reflexivity]. apply N.eqb_eq in E. subst. exfalso. apply Hn. left. reflexivity. }
    rewrite Hkeep by exact Hnot. rewrite (merge_field_own srcs s ty m f f v Hin), N.eqb_refl. reflexivity.
  - apply IH; assumption.
Qed.

Lemma fold_merge_other : forall srcs s f ch m,
    In s srcs -> ~ In s (map fst ch) ->
    im_lookup (Some s, f) (fold_left (merge_event srcs) ch m) = im_lookup (Some s, f) m.
Proof.
  intros srcs s f ch. induction ch as [|[s' e'] ch IH]; intros m Hin Hn; cbn [fold_left]; [reflexivity|].
  rewrite IH; [| exact Hin | intros Hc; apply Hn; right; exact Hc].
  apply merge_event_other; [exact Hin | intros ->; apply Hn; left; reflexivity].
Qed.

Lemma correlated_fields : forall c ch s e f v,
    In s (sources c) -> NoDup (map fst ch) -> In (s, e) ch ->
    NoDup (map fst (jfields e)) -> In (f, v) (jfields e) ->
    im_lookup (Some s, f) (snd (correlated c ch)) = Some v.
Proof.
  intros c ch s e f v Hs Hnd Hin Hfn Hf. unfold correlated. cbn [snd].
  generalize (@nil (mkey * N)) as m.
  induction ch as [|[s' e'] ch IH]; intros m; [destruct Hin|].
  cbn [fold_left]. cbn [map fst] in Hnd. inversion Hnd as [|? ? Hnot Hnd']; subst.
  destruct Hin as [Heq | Hin].
  - inversion Heq; subst. clear Heq.
    rewrite fold_merge_other by assumption.
    unfold merge_event. cbn [fst snd]. apply merge_fields_own; assumption.
  - apply IH; assumption.
Qed.

Lemma all_some_pair_fst : forall (g : N -> option jev) srcs ch,
    all_some (map (fun s => option_map (pair s) (g s)) srcs) = Some ch -> map fst ch = srcs.
Proof.
  intros g. induction srcs as [|s srcs IH]; intros ch H; cbn [map all_some] in H.
  - inversion H. reflexivity.
  - destruct (g s) as [e|]; cbn [option_map] in H; [| discriminate].
    destruct (all_some (map (fun s0 => option_map (pair s0) (g s0)) srcs)) as [l|] eqn:El; [| discriminate].
    inversion H. subst. cbn [map fst]. f_equal. apply IH. reflexivity.
Qed.

Lemma spec_out_sources : forall c past a ch, spec_out c past a = Some ch -> map fst ch = sources c.
Proof.
  intros c past a ch H. unfold spec_out in H. destruct (key_of c a) as [k|]; [| discriminate].
  eapply all_some_pair_fst. exact H.
Qed.

Lemma output_fields : forall c past a ch s e f v,
    NoDup (sources c) -> spec_out c past a = Some ch -> In (s, e) ch ->
    NoDup (map fst (jfields e)) -> In (f, v) (jfields e) ->
    im_lookup (Some s, f) (snd (correlated c ch)) = Some v.
Proof.
  intros c past a ch s e f v Hnd Hsp Hin Hfn Hf.
  pose proof (spec_out_sources c past a ch Hsp) as Hsrc.
  apply (correlated_fields c ch s e f v); auto.
  - rewrite <- Hsrc. apply (in_map fst) in Hin. exact Hin.
  - rewrite Hsrc. exact Hnd.
Qed.

(* ---------------------------------------------------------------- any arrival order: what is produced is right *)
(* Without any assumption on timestamps the buffers are still suffixes of the arrivals of their (source, key):
   the cap and the GC only ever drop a prefix.  Hence an output, when produced, is the specified one; out-of-order
   histories can only lose outputs. *)
Definition Inv2 (c : cfg) (past : list arrival) (b : list (bkey * list jev)) : Prop :=
  forall s k evs, buf_get (s, k) b = Some evs -> exists pre, arrivals_of c s k past = pre ++ evs.

Lemma Inv2_gc_one : forall c past cutoff b s k, Inv2 c past b -> Inv2 c past (gc_one cutoff s k b).
Proof.
  intros c past cutoff b s k HI. unfold gc_one.
  destruct (buf_get (s, k) b) as [evs|] eqn:Eg; [| exact HI].
  destruct (HI s k evs Eg) as [pre Hpre].
  set (idx := partition_point (fun e => jts e <? cutoff) evs).
  destruct (skipn idx evs) as [|e1 rest] eqn:Esk.
  - intros s' k' evs' Hg. destruct (bkey_eqb (s', k') (s, k)) eqn:E.
    + apply bkey_eqb_eq in E. inv E. rewrite get_remove_same in Hg. discriminate.
    + rewrite get_remove_other in Hg by exact E. apply HI. exact Hg.
  - intros s' k' evs' Hg. destruct (bkey_eqb (s', k') (s, k)) eqn:E.
    + apply bkey_eqb_eq in E. inv E. rewrite get_set_same in Hg. inv Hg.
      exists (pre ++ firstn idx evs). rewrite Hpre, <- app_assoc, <- Esk, firstn_skipn. reflexivity.
    + rewrite get_set_other in Hg by exact E. apply HI. exact Hg.
Qed.

Lemma Inv2_gc_loop : forall c past now cutoff q b, Inv2 c past b -> Inv2 c past (snd (gc_loop now cutoff q b)).
Proof.
  intros c past now cutoff q. induction q as [|[[ex s] k] q IH]; intros b HI; cbn [gc_loop]; [exact HI|].
  destruct (now <? ex); [exact HI|]. apply IH. apply Inv2_gc_one. exact HI.
Qed.

Lemma Inv2_cleanup : forall c past st t, Inv2 c past (bufs st) -> Inv2 c past (bufs (cleanup_expired c st t)).
Proof.
  intros c past st t HI. unfold cleanup_expired.
  destruct (match last_gc st with Some g => t - g <? gc_interval c | None => false end); [exact HI|].
  pose proof (Inv2_gc_loop c past t (t - window c) (queue st) (bufs st) HI) as H.
  destruct (gc_loop t (t - window c) (queue st) (bufs st)) as [q b]. exact H.
Qed.

Lemma Inv2_push : forall c past b s e k evs',
    key_of c (s, e) = Some k ->
    (exists d, match buf_get (s, k) b with Some l => l | None => [] end = d ++ evs') ->
    Inv2 c past b -> Inv2 c (past ++ [(s, e)]) (buf_set (s, k) (evs' ++ [e]) b).
Proof.
  intros c past b s e k evs' Hk [d Hd] HI s' k' l Hg.
  rewrite arrivals_app.
  destruct (bkey_eqb (s', k') (s, k)) eqn:E.
  - apply bkey_eqb_eq in E. inv E. rewrite get_set_same in Hg. inv Hg.
    assert (Hm : arrivals_of c s k [(s, e)] = [e]).
    { unfold arrivals_of, matches, has_key. cbn. rewrite Hk, !N.eqb_refl. reflexivity. }
    rewrite Hm.
    destruct (buf_get (s, k) b) as [l0|] eqn:Eg.
    + destruct (HI s k l0 Eg) as [pre Hpre]. exists (pre ++ d). rewrite Hpre, Hd, !app_assoc. reflexivity.
    + destruct d; [|discriminate]. cbn in Hd. subst evs'. exists (arrivals_of c s k past). reflexivity.
  - rewrite get_set_other in Hg by exact E.
    assert (Hm : arrivals_of c s' k' [(s, e)] = []).
    { unfold arrivals_of, matches, has_key. cbn. rewrite Hk.
      destruct (N.eqb s s') eqn:E1; cbn; auto. destruct (N.eqb k' k) eqn:E2; cbn; auto.
      apply N.eqb_eq in E1, E2. subst. rewrite bkey_eqb_refl in E. discriminate. }
    rewrite Hm, app_nil_r. apply HI. exact Hg.
Qed.

Lemma find_app_some : forall {A} (q : A -> bool) l1 l2 x, find q l1 = Some x -> find q (l1 ++ l2) = Some x.
Proof. induction l1 as [|a l1 IH]; cbn; intros l2 x H; [discriminate|]. destruct (q a); auto. Qed.

Lemma correlate_sound : forall c past t b k srcs ch,
    Inv2 c past b ->
    correlate_sources c b k t srcs = Some ch ->
    all_some (map (fun s => option_map (pair s) (last_match c past s k t)) srcs) = Some ch.
Proof.
  intros c past t b k srcs. induction srcs as [|s srcs IH]; intros ch HI H; cbn [correlate_sources map all_some] in *.
  - exact H.
  - destruct (buf_get (s, k) b) as [evs|] eqn:Eg; [| discriminate].
    destruct (rfind_window c t evs) as [e|] eqn:Er; [| discriminate].
    destruct (correlate_sources c b k t srcs) as [l|] eqn:Ec; [| discriminate]. inv H.
    destruct (HI s k evs Eg) as [pre Hpre].
    rewrite last_match_arrivals, Hpre, rev_app_distr.
    unfold rfind_window in Er. rewrite (find_app_some _ _ _ _ Er). cbn [option_map].
    rewrite (IH l HI eq_refl). reflexivity.
Qed.

Definition sound_out (o : outcome) (sp : option (list (N * jev))) : Prop :=
  match o with
  | Out (Some ch) => sp = Some ch
  | Out None => True
  | Panicked => False
  end.

Lemma step_sound : forall c past st s e,
    (1 <= cap c)%nat -> In s (sources c) -> Inv2 c past (bufs st) ->
    sound_out (snd (add_event c st s e)) (spec_out c past (s, e)) /\
    Inv2 c (past ++ [(s, e)]) (bufs (fst (add_event c st s e))).
Proof.
  intros c past st s e Hcap Hin HI.
  unfold add_event, spec_out, key_of. cbn [fst snd].
  destruct (assoc s (join_keys c)) as [kf|] eqn:Ekf.
  2:{ cbn [fst snd sound_out]. split; [exact I|].
      intros s' k' evs Hg. rewrite arrivals_app, arrivals_nokey, app_nil_r by (unfold key_of; cbn; rewrite Ekf; reflexivity).
      apply HI. exact Hg. }
  destruct (assoc kf (jfields e)) as [key|] eqn:Ekey.
  2:{ cbn [fst snd sound_out]. split; [exact I|].
      intros s' k' evs Hg. rewrite arrivals_app, arrivals_nokey, app_nil_r by (unfold key_of; cbn; rewrite Ekf; exact Ekey).
      apply HI. exact Hg. }
  rewrite (existsb_eqb_In s (sources c) Hin).
  pose proof (Inv2_cleanup c past st (jts e) HI) as HI1.
  set (st1 := cleanup_expired c st (jts e)) in *.
  destruct (cap_evict_suffix c (match buf_get (s, key) (bufs st1) with Some l => l | None => [] end) Hcap) as [evs' [d [Hev Hd]]].
  rewrite Hev. cbn [fst snd bufs].
  assert (Hk : key_of c (s, e) = Some key) by (unfold key_of; cbn; rewrite Ekf; exact Ekey).
  pose proof (Inv2_push c past (bufs st1) s e key evs' Hk (ex_intro _ d Hd) HI1) as HI2.
  split; [| exact HI2].
  unfold try_correlate. cbn [bufs].
  destruct (correlate_sources c (buf_set (s, key) (evs' ++ [e]) (bufs st1)) key (jts e) (sources c)) as [ch|] eqn:Ec;
    cbn [sound_out]; [| exact I].
  apply (correlate_sound c (past ++ [(s, e)]) (jts e) _ key (sources c) ch HI2 Ec).
Qed.

Lemma run_from_sound : forall c h past st,
    (1 <= cap c)%nat ->
    Forall (fun a : arrival => In (fst a) (sources c)) h ->
    Inv2 c past (bufs st) ->
    Forall2 sound_out (map fst (run_from c st h)) (spec_from c past h).
Proof.
  intros c h. induction h as [|[s e] h IH]; intros past st Hcap Hsrc HI; [constructor|].
  cbn [run_from spec_from].
  inv Hsrc. cbn [fst] in H1.
  destruct (step_sound c past st s e Hcap H1 HI) as [Hout HI'].
  destruct (add_event c st s e) as [st' o]. cbn [fst snd] in *.
  destruct o as [o|]; [| destruct Hout].
  cbn [map fst]. constructor; [exact Hout|].
  apply IH; assumption.
Qed.

Theorem outputs_sound_any_order : forall c h,
    (1 <= cap c)%nat ->
    Forall (fun a : arrival => In (fst a) (sources c)) h ->
    Forall2 sound_out (outputs c h) (spec_run c h).
Proof.
  intros c h Hcap Hsrc. unfold outputs, run, spec_run.
  apply run_from_sound; auto. intros s k evs Hg. discriminate.
Qed.
