(* Interpreter + rendering for the C15 correspondence check: one string per case. *)
From Coq Require Import List ZArith NArith Bool String.
From VP Require Import Base.Render Join.Model Join.Spec.
Import ListNotations.
Open Scope string_scope.

Definition str_of_mkey (k : mkey) : string :=
  match fst k with
  | Some p => str_of_N p ++ "." ++ str_of_N (snd k)
  | None => str_of_N (snd k)
  end.
Definition str_of_chosen (c : cfg) (o : option (list (N * jev))) : string :=
  match o with
  | None => "-"
  | Some ch => let '(ts, m) := correlated c ch in
               str_of_Z ts ++ ":" ++ join "," (map (fun kv : mkey * N => str_of_mkey (fst kv) ++ "=" ++ str_of_N (snd kv)) m)
  end.
Definition str_of_outcome (c : cfg) (o : outcome) : string :=
  match o with Panicked => "PANIC" | Out o => str_of_chosen c o end.

(* per arrival "<output>#<total buffered>" separated by ';', then '|' and the specification's outputs *)
Definition join_case (c : cfg) (h : list arrival) : string :=
  join ";" (map (fun on : outcome * nat => str_of_outcome c (fst on) ++ "#" ++ str_of_nat (snd on)) (run c h))
  ++ "|" ++ join ";" (map (str_of_chosen c) (spec_run c h)).

Definition pp_case (ts : list Z) (cutoff : Z) : string :=
  str_of_nat (partition_point (fun t => Z.ltb t cutoff) ts).
