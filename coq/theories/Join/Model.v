(* Executable model of crates/varpulis-runtime/src/join.rs (JoinBuffer).
     add_event               -> [add_event]
     cleanup_expired         -> [cleanup_expired], [gc_loop], [gc_one]   (expiry queue, gc interval, partition_point + drain)
     slice::partition_point  -> [partition_point]   (the std binary search of the toolchain, modelled step by step so
                                                     that its answers on UNSORTED buffers are reproduced; tied to the
                                                     real std by the "pp" requests of harness/crates/join)
     try_correlate           -> [try_correlate]     (reverse scan per source, early return)
     create_correlated_event -> [correlated]        (max timestamp, prefixed / type-prefixed / unprefixed field merge)
     stats().total_events    -> [total_events]
   Time is event time only (join.rs reads the wall clock only in a fallback that needs an empty source list).
   Times are integers (milliseconds).  Names (sources, event types), field names and values are interned as N;
   the join key value of an event is the value id of its key field (to_partition_key is injective on the strings the
   harness uses).  Definitions only -- no proofs in this file. *)
From Coq Require Import List ZArith NArith Bool Arith.
Import ListNotations.
Open Scope Z_scope.

Record jev := { jid : N; jty : N; jts : Z; jfields : list (N * N) }.   (* id, event type, timestamp, data *)

Record cfg := {
  sources : list N;                 (* JoinBuffer.sources *)
  join_keys : list (N * N);         (* source -> key field *)
  window : Z;                       (* window_duration, ms *)
  cap : nat                         (* max_events_per_key *)
}.

Definition bkey := (N * N)%type.    (* (source, key value) *)
Record jstate := {
  bufs : list (bkey * list jev);    (* buffers: source -> key -> Vec<(ts, event)>, arrival order *)
  queue : list (Z * N * N);         (* expiry_queue, kept sorted ascending by (expiry, source, key) = pop order of the min-heap *)
  last_gc : option Z
}.
Definition init : jstate := {| bufs := []; queue := []; last_gc := None |}.

Fixpoint assoc {A} (k : N) (l : list (N * A)) : option A :=
  match l with
  | [] => None
  | (k', v) :: r => if N.eqb k k' then Some v else assoc k r
  end.

Definition bkey_eqb (a b : bkey) : bool := N.eqb (fst a) (fst b) && N.eqb (snd a) (snd b).
Fixpoint buf_get (k : bkey) (b : list (bkey * list jev)) : option (list jev) :=
  match b with
  | [] => None
  | (k', v) :: r => if bkey_eqb k k' then Some v else buf_get k r
  end.
Definition buf_remove (k : bkey) (b : list (bkey * list jev)) : list (bkey * list jev) :=
  filter (fun kv => negb (bkey_eqb k (fst kv))) b.
Definition buf_set (k : bkey) (v : list jev) (b : list (bkey * list jev)) : list (bkey * list jev) :=
  (k, v) :: buf_remove k b.

(* gc_interval = (window.num_milliseconds() / 10).clamp(10, 1000) *)
Definition gc_interval (c : cfg) : Z := Z.max 10 (Z.min (Z.quot (window c) 10) 1000).

(* ---------------------------------------------------------------- slice::partition_point (std, Rust >= 1.82)
   binary_search_by(|x| if pred(x) { Less } else { Greater }):
     size = len; if size == 0 return 0; base = 0;
     while size > 1 { half = size / 2; mid = base + half; base = if pred(mid) { mid } else { base }; size -= half; }
     base + (pred(base) as usize)                                                                              *)
Fixpoint pp_loop (fuel : nat) (p : nat -> bool) (base size : nat) : nat :=
  match fuel with
  | O => base
  | S fuel' =>
      if (size <=? 1)%nat then base
      else let half := Nat.div2 size in
           let mid := (base + half)%nat in
           pp_loop fuel' p (if p mid then mid else base) (size - half)%nat
  end.
Definition partition_point {A} (pred : A -> bool) (l : list A) : nat :=
  match l with
  | [] => O
  | d :: _ =>
      let p := fun i => pred (nth i l d) in
      let base := pp_loop (length l) p O (length l) in
      (base + (if p base then 1 else 0))%nat
  end.

(* one popped queue entry: drain the `< cutoff` prefix found by partition_point, drop the key entry when empty *)
Definition gc_one (cutoff : Z) (s k : N) (b : list (bkey * list jev)) : list (bkey * list jev) :=
  match buf_get (s, k) b with
  | None => b
  | Some evs =>
      let idx := partition_point (fun e => jts e <? cutoff) evs in
      let evs' := skipn idx evs in
      match evs' with
      | [] => buf_remove (s, k) b
      | _ => buf_set (s, k) evs' b
      end
  end.

(* while let Some(peek) = queue.peek() { if expiry > now { break }; pop; clean that (source, key) } *)
Fixpoint gc_loop (now cutoff : Z) (q : list (Z * N * N)) (b : list (bkey * list jev)) : list (Z * N * N) * list (bkey * list jev) :=
  match q with
  | [] => ([], b)
  | (ex, s, k) :: r => if now <? ex then (q, b) else gc_loop now cutoff r (gc_one cutoff s k b)
  end.

Definition cleanup_expired (c : cfg) (st : jstate) (now : Z) : jstate :=
  let skip := match last_gc st with
              | Some g => now - g <? gc_interval c
              | None => false
              end in
  if skip then st
  else let '(q, b) := gc_loop now (now - window c) (queue st) (bufs st) in
       {| bufs := b; queue := q; last_gc := Some now |}.

(* BinaryHeap<Reverse<(expiry, source, key)>>::push, as sorted insertion (lexicographic tuple order) *)
Definition qle (a b : Z * N * N) : bool :=
  let '(e1, s1, k1) := a in let '(e2, s2, k2) := b in
  if e1 <? e2 then true else if e2 <? e1 then false
  else if N.ltb s1 s2 then true else if N.ltb s2 s1 then false
  else N.leb k1 k2.
Fixpoint qinsert (x : Z * N * N) (q : list (Z * N * N)) : list (Z * N * N) :=
  match q with
  | [] => [x]
  | y :: r => if qle x y then x :: q else y :: qinsert x r
  end.

(* while key_events.len() >= max { key_events.remove(0) }  -- with max = 0 this loops onto an empty Vec and
   Vec::remove(0) panics: [None] *)
Definition cap_evict (c : cfg) (evs : list jev) : option (list jev) :=
  match cap c with
  | O => None
  | _ => Some (if (cap c <=? length evs)%nat then skipn (length evs - cap c + 1) evs else evs)
  end.

Definition in_window (c : cfg) (t : Z) (e : jev) : bool := (t - window c) <=? jts e.    (* ts >= cutoff *)

(* key_events.iter().rev().find(|(ts, _)| *ts >= cutoff) *)
Definition rfind_window (c : cfg) (t : Z) (evs : list jev) : option jev := find (in_window c t) (rev evs).

(* the `for source in &self.sources` loop of try_correlate: None as soon as one source has no valid event *)
Fixpoint correlate_sources (c : cfg) (b : list (bkey * list jev)) (key : N) (t : Z) (srcs : list N) : option (list (N * jev)) :=
  match srcs with
  | [] => Some []
  | s :: r =>
      match buf_get (s, key) b with
      | None => None
      | Some evs =>
          match rfind_window c t evs with
          | None => None
          | Some e => match correlate_sources c b key t r with
                      | Some l => Some ((s, e) :: l)
                      | None => None
                      end
          end
      end
  end.
Definition try_correlate (c : cfg) (st : jstate) (key : N) (t : Z) : option (list (N * jev)) :=
  correlate_sources c (bufs st) key t (sources c).

Inductive outcome := Out (o : option (list (N * jev))) | Panicked.

(* JoinBuffer::add_event.  A source without a configured join key falls back to find_common_key_field in the Rust;
   that fallback is not modelled (the harness configures a key for every source): such an event is skipped. *)
Definition add_event (c : cfg) (st : jstate) (src : N) (e : jev) : jstate * outcome :=
  match assoc src (join_keys c) with
  | None => (st, Out None)
  | Some kf =>
      match assoc kf (jfields e) with
      | None => (st, Out None)                                   (* event missing the join key field: skipped *)
      | Some key =>
          let st1 := cleanup_expired c st (jts e) in
          if existsb (N.eqb src) (sources c) then                (* buffers.get_mut(source_name) *)
            let evs := match buf_get (src, key) (bufs st1) with Some l => l | None => [] end in
            match cap_evict c evs with
            | None => (st1, Panicked)
            | Some evs' =>
                let st2 := {| bufs := buf_set (src, key) (evs' ++ [e]) (bufs st1);
                              queue := qinsert (jts e + window c, src, key) (queue st1);
                              last_gc := last_gc st1 |} in
                (st2, Out (try_correlate c st2 key (jts e)))
            end
          else (st1, Out (try_correlate c st1 key (jts e)))
      end
  end.

(* arrival history: (source, event) in arrival order *)
Definition arrival := (N * jev)%type.
Fixpoint run_from (c : cfg) (st : jstate) (h : list arrival) : list (outcome * nat) :=
  match h with
  | [] => []
  | (s, e) :: r =>
      let '(st', o) := add_event c st s e in
      match o with
      | Panicked => [(Panicked, O)]
      | _ => (o, fold_right (fun kv n => (length (snd kv) + n)%nat) O (bufs st')) :: run_from c st' r
      end
  end.
Definition run (c : cfg) (h : list arrival) := run_from c init h.
Definition outputs (c : cfg) (h : list arrival) : list outcome := map fst (run c h).

(* ---------------------------------------------------------------- create_correlated_event *)
Definition mkey := (option N * N)%type.        (* "prefix.field" | "field" *)
Definition mkey_eqb (a b : mkey) : bool :=
  match fst a, fst b with
  | Some p, Some q => N.eqb p q && N.eqb (snd a) (snd b)
  | None, None => N.eqb (snd a) (snd b)
  | _, _ => false
  end.
(* IndexMap::insert: replace in place or append *)
Fixpoint im_insert (k : mkey) (v : N) (m : list (mkey * N)) : list (mkey * N) :=
  match m with
  | [] => [(k, v)]
  | (k', v') :: r => if mkey_eqb k k' then (k, v) :: r else (k', v') :: im_insert k v r
  end.
Definition im_contains (k : mkey) (m : list (mkey * N)) : bool := existsb (fun kv => mkey_eqb k (fst kv)) m.

(* "<source>.<field>" always; "<event type>.<field>" as an alias when the event type differs from the source name
   and is not itself the name of a joined source; "<field>" unprefixed, first writer wins *)
Definition merge_field (srcs : list N) (source ty : N) (m : list (mkey * N)) (fv : N * N) : list (mkey * N) :=
  let '(f, v) := fv in
  let m1 := im_insert (Some source, f) v m in
  let m2 := if N.eqb source ty || existsb (N.eqb ty) srcs then m1 else im_insert (Some ty, f) v m1 in
  if im_contains (None, f) m2 then m2 else im_insert (None, f) v m2.
Definition merge_event (srcs : list N) (m : list (mkey * N)) (se : N * jev) : list (mkey * N) :=
  fold_left (merge_field srcs (fst se) (jty (snd se))) (jfields (snd se)) m.
Definition correlated (c : cfg) (chosen : list (N * jev)) : Z * list (mkey * N) :=
  (fold_left (fun m se => Z.max m (jts (snd se))) (tl chosen) (match chosen with se :: _ => jts (snd se) | [] => 0 end),
   fold_left (merge_event (sources c)) chosen []).
