(* Specification of C15 over the arrival history, independent of buffers, caps, queues and garbage collection:
   on arrival of event e from source s with key k and timestamp t, a joined output is produced exactly when every
   joined source has an arrival (earlier, or e itself) with key k and timestamp >= t - W; the output is built from
   the most recently ARRIVED such event of each source. *)
From Coq Require Import List ZArith NArith Bool.
From VP Require Import Join.Model.
Import ListNotations.
Open Scope Z_scope.

Definition key_of (c : cfg) (a : arrival) : option N :=
  match assoc (fst a) (join_keys c) with
  | Some kf => assoc kf (jfields (snd a))
  | None => None
  end.

Definition has_key (c : cfg) (k : N) (a : arrival) : bool :=
  match key_of c a with Some k' => N.eqb k k' | None => false end.

(* arrival [a] is a candidate of source [s] for an event with key [k] arriving at time [t] *)
Definition candidate (c : cfg) (s k : N) (t : Z) (a : arrival) : bool :=
  N.eqb (fst a) s && has_key c k a && in_window c t (snd a).

(* the most recently arrived candidate *)
Definition last_match (c : cfg) (past : list arrival) (s k : N) (t : Z) : option jev :=
  option_map snd (find (candidate c s k t) (rev past)).

Fixpoint all_some {A} (l : list (option A)) : option (list A) :=
  match l with
  | [] => Some []
  | None :: _ => None
  | Some x :: r => match all_some r with Some xs => Some (x :: xs) | None => None end
  end.

(* expected result of the arrival [a] after the arrivals [past] *)
Definition spec_out (c : cfg) (past : list arrival) (a : arrival) : option (list (N * jev)) :=
  match key_of c a with
  | None => None
  | Some k => all_some (map (fun s => option_map (pair s) (last_match c (past ++ [a]) s k (jts (snd a)))) (sources c))
  end.

Fixpoint spec_from (c : cfg) (past h : list arrival) : list (option (list (N * jev))) :=
  match h with
  | [] => []
  | a :: r => spec_out c past a :: spec_from c (past ++ [a]) r
  end.
Definition spec_run (c : cfg) (h : list arrival) := spec_from c [] h.

(* timestamps never decrease along the arrival order *)
Fixpoint sorted_from (t : Z) (h : list arrival) : bool :=
  match h with
  | [] => true
  | a :: r => (t <=? jts (snd a)) && sorted_from (jts (snd a)) r
  end.
Definition sorted_ts (h : list arrival) : bool :=
  match h with [] => true | a :: r => sorted_from (jts (snd a)) r end.
