(* Trend/Props.v — property C25: "trend aggregation counts are correct and unaffected by sharing".

   The property FAILS on the code (GretaExecutor, HamletAggregator, Engine .trend_aggregate()); the failures
   are recorded as known findings, class by class, in /verif/known_findings.json.  This file states
     * the specification and its efficient equivalent (C25_dp_spec),
     * what does hold: outside the class Known_C25_hamlet the Hamlet model is correct and unaffected by sharing
       (C25_hamlet_correct, C25_sharing_invariant),
     * machine-checked witnesses that the property fails inside the classes, on the very models that the check
       ties to the code on every run (C25_*_refuted).                                                          *)
From Coq Require Import String.
From VP Require Import Base.Tactics Trend.Model Trend.Proofs Trend.ProofsHamlet.
Open Scope N_scope.

(* The GRETA-style dynamic programme (one counter per pattern state, linear in the stream) computes exactly the
   number of event trends obtained by enumerating all sub-sequences: for every query and every stream. *)
Theorem C25_dp_spec : forall q es, dp_count q es = trends q es.
Proof. exact dp_count_trends. Qed.

(* ---- finding classes (decidable predicates on the input) ---- *)

(* hamlet-kleene-count: the stream contains an event of one of the query's Kleene types *)
Definition Known_C25_hamlet (q : query) (es : list N) : Prop := exists t, In t es /\ memN t (kleene_types q) = true.

Lemma not_known_no_kleene : forall q es, ~ Known_C25_hamlet q es -> no_kleene_event q es.
Proof.
  intros q es H t Ht. destruct (memN t (kleene_types q)) eqn:E; [|reflexivity].
  exfalso. apply H. exists t. now split.
Qed.

(* Outside the class, HamletAggregator is right: a registered query with a Kleene step reports the number of
   trends at flush (which is 0: every trend needs an event of the Kleene type) and never reports anything
   incrementally - whatever other queries are registered next to it. *)
Theorem C25_hamlet_correct : forall qs es i q,
  nth_error qs i = Some q -> has_kleene q -> ~ Known_C25_hamlet q es ->
  nth i (h_flush qs es) 0 = trends q es /\
  forall k out, nth_error (h_reports qs es) k = Some out -> nth_error out i = Some None.
Proof.
  intros qs es i q A G H. pose proof (not_known_no_kleene q es H) as Hn.
  destruct (hamlet_silent qs es i q A G Hn) as [H1 H2]. split; [|exact H2].
  rewrite H1. symmetry. now apply trends_zero.
Qed.

(* ... and so running the query next to other queries reports the same value as running it alone *)
Theorem C25_sharing_invariant : forall qs es i q,
  nth_error qs i = Some q -> has_kleene q -> ~ Known_C25_hamlet q es ->
  nth i (h_flush qs es) 0 = nth 0 (h_flush [q] es) 0.
Proof.
  intros qs es i q A G H.
  destruct (C25_hamlet_correct qs es i q A G H) as [H1 _].
  destruct (C25_hamlet_correct [q] es 0 q eq_refl G H) as [H2 _]. congruence.
Qed.

(* ---- inside the classes the property fails: witnesses (replayed against the code by checks/C25.py) ---- *)
Definition qAB : query := {| q_types := [65; 66]; q_kleene := [1%nat] |}.        (* A B+ *)
Definition qCB : query := {| q_types := [67; 66]; q_kleene := [1%nat] |}.        (* C B+ *)
Definition qBA : query := {| q_types := [66; 65]; q_kleene := [1%nat] |}.        (* B A+ *)
Definition qABC : query := {| q_types := [65; 66; 67]; q_kleene := [1%nat] |}.   (* A B+ C *)

Example C25_hypotheses_satisfiable : has_kleene qAB /\ ~ Known_C25_hamlet qAB [65; 67; 65].
Proof.
  split; [exists 1%nat; split; [now left|cbn; lia]|].
  intros (t & Ht & Hm). cbn in Ht. destruct Ht as [<-|[<-|[<-|[]]]]; vm_compute in Hm; discriminate.
Qed.

(* stream A B: one trend; HamletAggregator::flush reports 3 *)
Theorem C25_hamlet_correct_refuted :
  exists q es, Known_C25_hamlet q es /\ nth 0 (h_flush [q] es) 0 <> trends q es.
Proof.
  exists qAB, [65; 66]. split; [exists 66; split; [cbn; auto|reflexivity]|]. vm_compute. discriminate.
Qed.

(* stream A B C, query A B+ C: one trend; the incremental report after C says 2 *)
Theorem C25_hamlet_incremental_refuted :
  exists q es out, nth_error (h_reports [q] es) 2 = Some out /\ nth_error out 0 = Some (Some 2) /\ trends q es = 1.
Proof. exists qABC, [65; 66; 67], [Some 2]. vm_compute. auto. Qed.

(* stream A B B: A B+ reports 5 alone and 3 when C B+ is registered next to it (and C B+ reports a trend
   although no C occurs) *)
Theorem C25_sharing_invariant_refuted :
  exists q q' es, nth 0 (h_flush [q; q'] es) 0 <> nth 0 (h_flush [q] es) 0 /\ nth 1 (h_flush [q; q'] es) 0 <> trends q' es.
Proof. exists qAB, qCB, [65; 66; 66]. vm_compute. split; discriminate. Qed.

(* GretaExecutor: stream A B B has three trends; the executor reports 1 and then 4 = 1 + 3 *)
Theorem C25_greta_correct_refuted :
  exists q es, g_flush [q] es <> [trends q es] /\ snd (g_run [q] (g_init [q]) es) = [[0]; [1]; [4]].
Proof. exists qAB, [65; 66; 66]. vm_compute. split; [discriminate|reflexivity]. Qed.

(* GretaExecutor: the count of A B+ on A B A B depends on whether B A+ is registered *)
Theorem C25_greta_sharing_refuted :
  exists q q' es, nth 0 (g_flush [q; q'] es) 0 <> nth 0 (g_flush [q] es) 0.
Proof. exists qAB, qBA, [65; 66; 65; 66]. vm_compute. discriminate. Qed.
