(* Trend/Props.v — property C25 (being written): refutation witnesses on the models that the check runs *)
From Coq Require Import String.
From VP Require Import Base.Tactics Trend.Model.
Open Scope N_scope.

Definition qAB : query := {| q_types := [65; 66]; q_kleene := [1%nat] |}.      (* A B+ *)
Definition qCB : query := {| q_types := [67; 66]; q_kleene := [1%nat] |}.      (* C B+ *)

(* one trend (A B), HamletAggregator::flush reports 3 *)
Theorem C25_hamlet_correct_refuted : exists q es, nth 0 (h_flush [q] es) 0 <> trends q es.
Proof. exists qAB, [65; 66]. vm_compute. discriminate. Qed.
