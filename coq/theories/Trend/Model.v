(* Trend/Model.v — trend aggregation counts (property C25).  Definitions only.

   Specification
     trends q es        number of event trends of query q in the stream es, by explicit enumeration of the
                        sub-sequences (sublists) of es and a run of the pattern automaton (run_from)
     dp_count q es      GRETA-style dynamic programme: one counter per automaton state (Trend/Proofs.v: = trends)

   Model of crates/varpulis-runtime/src/greta.rs (GretaExecutor)
     Rust                                   here
     GretaExecutor::process                 g_process      (add_event, start/end marks, add_predecessor_edges,
                                                            propagate_counts for every query over ALL nodes,
                                                            final_counts accumulate and are never reset between calls)
     GretaExecutor::flush                   g_flush

   Model of crates/varpulis-runtime/src/hamlet (HamletAggregator with one MergedTemplate built by
   TemplateBuilder::add_sequence per query and add_kleene at the state in front of each Kleene step, as
   engine/mod.rs does for a stream; one QueryRegistration per query)
     HamletAggregator::process              h_process      (close the previous graphlet on a type change, add the
                                                            event to the active graphlet, update_query_state per query)
     update_query_state                     h_update
     process_closed_graphlet                h_close        (shared / non-shared by the optimizer's decision)
       process_shared_graphlet              PropagationCoefficients::compute_kleene: coeffs 1,1,2,4,..; the end
                                            index resolves to coeff[n-1] * s, the new snapshot value to (sum of coeffs) * s
       process_non_shared_graphlet          compute_kleene_count = (2^n - 1) * s
     HamletAggregator::flush                h_flush
   The optimizer's decision is the one taken at registration (Shared iff at least min_queries = 2 queries carry
   the Kleene type): on the streams of the property (<= 12 events) a re-evaluation cannot change it (it needs an
   average graphlet size >= 4 under an exponential mean with weight 0.1).  Graphlet node bookkeeping (Kleene
   edges, propagate_shared, snapshot manager, pool) does not feed back into the counts and is not modelled.
   u64 saturation is not modelled (counts stay below 2^64 on the streams of the property).

   Event = its type (N); query = pattern types in order + positions carrying Kleene plus.                     *)
From Coq Require Import String.
From VP Require Import Base.Tactics.
Open Scope N_scope.

Record query := { q_types : list N; q_kleene : list nat }.

Definition is_kleene (q : query) (j : nat) : bool := existsb (Nat.eqb j) (q_kleene q).
Definition type_at (q : query) (j : nat) : option N := nth_error (q_types q) j.
Definition qlen (q : query) : nat := length (q_types q).
Definition type_is (q : query) (j : nat) (t : N) : bool :=
  match type_at q j with Some u => u =? t | None => false end.

(* ------------------------------------------------------------------ specification *)

(* pattern automaton: state st = number of pattern elements matched so far (the last consumed event belongs to
   element st-1); an event of the type of a Kleene element just matched stays, an event of the next element's
   type advances.  For patterns with pairwise distinct types this is exactly T0 T1+ .. membership. *)
Definition dstep (q : query) (st : nat) (t : N) : option nat :=
  match st with
  | S j => if is_kleene q j && type_is q j t then Some st
           else if type_is q st t then Some (S st) else None
  | O => if type_is q 0 t then Some 1%nat else None
  end.

Fixpoint run_from (q : query) (st : nat) (w : list N) : option nat :=
  match w with
  | [] => Some st
  | t :: r => match dstep q st t with Some st' => run_from q st' r | None => None end
  end.

Definition accepts (q : query) (w : list N) : bool :=
  match run_from q 0 w with Some st => Nat.eqb st (qlen q) | None => false end.

Fixpoint sublists {A} (l : list A) : list (list A) :=
  match l with
  | [] => [[]]
  | x :: r => (map (cons x) (sublists r) ++ sublists r)%list
  end.

(* number of event trends: index subsets of the stream whose events, in order, match the pattern *)
Definition trends (q : query) (es : list N) : N :=
  N.of_nat (length (filter (accepts q) (sublists es))).

(* GRETA-style DP: c[st] = number of sub-sequences of the processed prefix whose run ends in state st *)
Fixpoint nthd (l : list N) (k : nat) : N := match l, k with x :: _, O => x | _ :: r, S k' => nthd r k' | [], _ => 0 end.

Definition dp_step (q : query) (c : list N) (t : N) : list N :=
  map (fun st =>
         nthd c st
         + (match dstep q st t with Some st' => if Nat.eqb st' st then nthd c st else 0 | None => 0 end)
         + (match st with
            | S p => match dstep q p t with Some st' => if Nat.eqb st' st then nthd c p else 0 | None => 0 end
            | O => 0
            end))
      (seq 0 (S (qlen q))).

Definition dp_init (q : query) : list N := 1 :: repeat 0 (qlen q).
Definition dp_count (q : query) (es : list N) : N := nthd (fold_left (dp_step q) es (dp_init q)) (qlen q).

(* ------------------------------------------------------------------ greta.rs *)

Record gnode := { gn_type : N; gn_preds : list nat }.

Record gstate := { g_nodes : list gnode;           (* in insertion order; NodeId = position *)
                   g_final : list N }.            (* final_counts, per query *)

Definition first_type (q : query) : option N := hd_error (q_types q).
Definition last_type (q : query) : option N := nth_error (q_types q) (pred (qlen q)).
Definition opt_is (o : option N) (t : N) : bool := match o with Some u => u =? t | None => false end.

Fixpoint position_of (t : N) (l : list N) (k : nat) : option nat :=
  match l with [] => None | u :: r => if u =? t then Some k else position_of t r (S k) end.

Definition kleene_types (q : query) : list N :=
  flat_map (fun j => match type_at q j with Some u => [u] | None => [] end) (q_kleene q).
Definition memN (t : N) (l : list N) : bool := existsb (N.eqb t) l.

(* predecessor types of type t in one query *)
Definition pred_types (q : query) (t : N) : list N :=
  match position_of t (q_types q) 0 with
  | None => []
  | Some pos =>
    ((match pos with S p => match type_at q p with Some u => [u] | None => [] end | O => [] end)
     ++ (if memN t (kleene_types q) then [t] else []))%list
  end.

Definition nodes_of_type (nodes : list gnode) (t : N) : list nat :=
  map fst (filter (fun p => gn_type (snd p) =? t) (combine (seq 0 (length nodes)) nodes)).

Definition add_uniq (acc : list nat) (ids : list nat) : list nat :=
  fold_left (fun a i => if existsb (Nat.eqb i) a then a else (a ++ [i])%list) ids acc.

(* add_predecessor_edges: ONE predecessor list per node, the union over all queries *)
Definition g_preds (qs : list query) (nodes : list gnode) (t : N) : list nat :=
  fold_left (fun acc q => fold_left (fun a pt => add_uniq a (nodes_of_type nodes pt)) (pred_types q t) acc) qs [].

(* propagate_counts for one query over all nodes: counts in node order *)
Definition g_counts (q : query) (nodes : list gnode) : list N :=
  fold_left (fun counts nd =>
               (counts ++ [(if opt_is (first_type q) (gn_type nd) then 1 else 0)
                           + fold_left (fun s p => s + nthd counts p) (gn_preds nd) 0])%list)
            nodes [].

Definition g_end_total (q : query) (nodes : list gnode) : N :=
  fold_left (fun s p => if opt_is (last_type q) (gn_type (fst p)) then s + snd p else s)
            (combine nodes (g_counts q nodes)) 0.

Definition all_types (qs : list query) : list N := flat_map q_types qs.

(* process: the reported (query, count) pairs are those with count > 0 *)
Definition g_process (qs : list query) (s : gstate) (t : N) : gstate * list N :=
  if negb (memN t (all_types qs)) then (s, map (fun _ => 0) qs)      (* unknown type: nothing reported *)
  else
    let nd := {| gn_type := t; gn_preds := g_preds qs (g_nodes s) t |} in
    let nodes := (g_nodes s ++ [nd])%list in
    let fin := map (fun p => snd p + g_end_total (fst p) nodes) (combine qs (g_final s)) in
    ({| g_nodes := nodes; g_final := fin |}, fin).

Definition g_init (qs : list query) : gstate := {| g_nodes := []; g_final := map (fun _ => 0) qs |}.

Fixpoint g_run (qs : list query) (s : gstate) (es : list N) : gstate * list (list N) :=
  match es with
  | [] => (s, [])
  | t :: r => let '(s1, out) := g_process qs s t in
              let '(s2, outs) := g_run qs s1 r in (s2, out :: outs)
  end.
(* value flush() reports per query (0 = not reported) *)
Definition g_flush (qs : list query) (es : list N) : list N := g_final (fst (g_run qs (g_init qs) es)).

(* ------------------------------------------------------------------ hamlet *)

Record hq := { h_pos : nat;          (* current_state - the query's first state *)
               h_count : N;
               h_in : bool;          (* in_trend *)
               h_snap : N }.         (* snapshot_value *)

Record hstate := { h_qs : list hq;
                   h_final : list N;               (* final_counts *)
                   h_last : option N;              (* last_event_type *)
                   h_size : nat }.                 (* events in the active graphlet *)

Definition hq0 : hq := {| h_pos := 0; h_count := 0; h_in := false; h_snap := 1 |}.
Definition h_init (qs : list query) : hstate :=
  {| h_qs := map (fun _ => hq0) qs; h_final := map (fun _ => 0) qs; h_last := None; h_size := 0 |}.

(* queries_sharing_kleene(t): the queries that carry Kleene plus on type t, by index *)
Definition sharing (qs : list query) (t : N) : list nat :=
  map fst (filter (fun p => memN t (kleene_types (snd p))) (combine (seq 0 (length qs)) qs)).

Definition pow2 (n : nat) : N := 2 ^ N.of_nat n.

(* process_closed_graphlet for a graphlet of type t with n events *)
Definition h_close (qs : list query) (s : hstate) (t : N) (n : nat) : hstate :=
  if Nat.eqb n 0 then s
  else
    let l := sharing qs t in
    let shared := (2 <=? length l)%nat in
    let upd (i : nat) (st : hq) : hq :=
      if negb (existsb (Nat.eqb i) l) then st
      else if shared then
        (* coeffs 1,1,2,..,2^(n-2): end index coeff[n-1], sum of coeffs 2^(n-1) *)
        {| h_pos := h_pos st; h_count := h_count st + pow2 (n - 2) * h_snap st; h_in := h_in st;
           h_snap := pow2 (n - 1) * h_snap st |}
      else if h_in st then
        let k := (pow2 n - 1) * h_snap st in
        {| h_pos := h_pos st; h_count := h_count st + k; h_in := true; h_snap := k |}
      else st in
    {| h_qs := map (fun p => upd (fst p) (snd p)) (combine (seq 0 (length (h_qs s))) (h_qs s));
       h_final := h_final s; h_last := h_last s; h_size := h_size s |}.

(* update_query_state: new query state, new final count, and the incremental report (None = nothing) *)
Definition h_update (q : query) (st : hq) (fin : N) (t : N) : hq * N * option N :=
  let j := h_pos st in
  if negb (type_is q j t) then (st, fin, None)
  else
    let in1 := h_in st || Nat.eqb j 0 in
    let snap1 := if Nat.eqb j 0 then 1 else h_snap st in
    let count1 := if is_kleene q j && in1 then h_count st + snap1 else h_count st in
    let st1 := {| h_pos := S j; h_count := count1; h_in := in1; h_snap := snap1 |} in
    if Nat.eqb (S j) (qlen q) then
      let fin1 := if in1 then fin + N.max count1 1 else fin in
      (st1, fin1, Some fin1)
    else (st1, fin, None).

Fixpoint h_update_all (qs : list query) (sts : list hq) (fins : list N) (t : N)
  : list hq * list N * list (option N) :=
  match qs, sts, fins with
  | q :: qr, st :: sr, f :: fr =>
    let '(st1, f1, rep) := h_update q st f t in
    let '(sts1, fins1, reps) := h_update_all qr sr fr t in
    (st1 :: sts1, f1 :: fins1, rep :: reps)
  | _, _, _ => ([], [], [])
  end.

(* process: state and the incremental reports, one slot per query *)
Definition h_process (qs : list query) (s : hstate) (t : N) : hstate * list (option N) :=
  if negb (memN t (all_types qs)) then (s, map (fun _ => None) qs)
  else
    let same := opt_is (h_last s) t in
    let s1 := match h_last s with
              | Some lt => if same then s else h_close qs s lt (h_size s)
              | None => s
              end in
    let size := if same then S (h_size s) else 1%nat in
    let '(sts, fins, reps) := h_update_all qs (h_qs s1) (h_final s1) t in
    ({| h_qs := sts; h_final := fins; h_last := Some t; h_size := size |}, reps).

Fixpoint h_run (qs : list query) (s : hstate) (es : list N) : hstate * list (list (option N)) :=
  match es with
  | [] => (s, [])
  | t :: r => let '(s1, out) := h_process qs s t in
              let '(s2, outs) := h_run qs s1 r in (s2, out :: outs)
  end.

(* flush: value per query (0 = not reported) *)
Definition h_flush_state (qs : list query) (s : hstate) : list N :=
  let s1 := match h_last s with Some lt => h_close qs s lt (h_size s) | None => s end in
  map (fun p => let st := fst p in
                let fin := if h_in st && (0 <? h_count st) then snd p + h_count st else snd p in
                N.max fin (h_count st))
      (combine (h_qs s1) (h_final s1)).

Definition h_flush (qs : list query) (es : list N) : list N := h_flush_state qs (fst (h_run qs (h_init qs) es)).
Definition h_reports (qs : list query) (es : list N) : list (list (option N)) := snd (h_run qs (h_init qs) es).
