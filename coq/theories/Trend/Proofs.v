(* Trend/Proofs.v — the dynamic programme counts exactly the enumerated trends (property C25) *)
From Coq Require Import String Permutation.
From VP Require Import Base.Tactics Trend.Model.
Open Scope N_scope.

Definition ends_at (q : query) (st : nat) (l : list N) : bool :=
  match run_from q 0 l with Some s => Nat.eqb s st | None => false end.

(* number of sub-sequences of es whose run ends in state st *)
Definition cnt (q : query) (es : list N) (st : nat) : N :=
  N.of_nat (length (filter (ends_at q st) (sublists es))).

Lemma trends_cnt : forall q es, trends q es = cnt q es (qlen q).
Proof. reflexivity. Qed.

Lemma run_from_app : forall q l st e,
  run_from q st (l ++ [e]) = match run_from q st l with Some s => dstep q s e | None => None end.
Proof.
  induction l as [|t l IH]; intros st e; cbn [app run_from].
  - destruct (dstep q st e); reflexivity.
  - destruct (dstep q st t); [apply IH|reflexivity].
Qed.

Lemma dstep_cases : forall q st e s2, dstep q st e = Some s2 -> s2 = st \/ s2 = S st.
Proof.
  intros q st e s2 H. unfold dstep in H. destruct st as [|j].
  - destruct (type_is q 0 e); inv H. now right.
  - destruct (is_kleene q j && type_is q j e); [inv H; now left|].
    destruct (type_is q (S j) e); inv H. now right.
Qed.

(* ---- sub-sequences of a stream extended at the end ---- *)

Lemma sublists_snoc_perm : forall {A} (es : list A) e,
  Permutation (sublists (es ++ [e])) (sublists es ++ map (fun l => l ++ [e]) (sublists es)).
Proof.
  induction es as [|x es IH]; intros e; cbn [app sublists map].
  - apply perm_swap.
  - rewrite map_app, !map_map.
    set (S0 := sublists es) in *. specialize (IH e). set (S1 := sublists (es ++ [e])) in *.
    assert (H1 : Permutation (map (cons x) S1) (map (cons x) S0 ++ map (fun l => (x :: l) ++ [e]) S0)).
    { eapply perm_trans; [apply Permutation_map; exact IH|]. rewrite map_app, map_map. apply Permutation_refl. }
    eapply perm_trans; [apply Permutation_app; [exact H1|exact IH]|].
    rewrite <- !app_assoc. apply Permutation_app_head.
    rewrite !app_assoc. apply Permutation_app_tail. apply Permutation_app_comm.
Qed.

Lemma filter_length_perm : forall {A} (f : A -> bool) l l', Permutation l l' ->
  length (filter f l) = length (filter f l').
Proof.
  intros A f l l' H. induction H; cbn [filter].
  - reflexivity.
  - destruct (f x); cbn [length]; now rewrite IHPermutation.
  - destruct (f x), (f y); reflexivity.
  - congruence.
Qed.

Lemma filter_map_length : forall {A B} (f : B -> bool) (g : A -> B) l,
  length (filter f (map g l)) = length (filter (fun a => f (g a)) l).
Proof.
  induction l as [|a l IH]; cbn [map filter]; [reflexivity|]. destruct (f (g a)); cbn [length]; now rewrite IH.
Qed.

(* a predicate that is a disjunction of two mutually exclusive guarded predicates *)
Lemma filter_split_length : forall {A} (P P1 P2 : A -> bool) (a b : bool) l,
  (forall x, P x = (a && P1 x) || (b && P2 x)) ->
  (forall x, a && P1 x = true -> b && P2 x = true -> False) ->
  N.of_nat (length (filter P l)) =
  (if a then N.of_nat (length (filter P1 l)) else 0) + (if b then N.of_nat (length (filter P2 l)) else 0).
Proof.
  intros A P P1 P2 a b l HP Hex. induction l as [|x l IH]; cbn [filter length].
  - destruct a, b; reflexivity.
  - rewrite HP. specialize (Hex x).
    destruct a, b; cbn [andb orb] in *; destruct (P1 x) eqn:E1, (P2 x) eqn:E2; cbn [orb length] in *;
      try (exfalso; now apply Hex); lia.
Qed.

Definition stayb (q : query) (st : nat) (e : N) : bool :=
  match dstep q st e with Some s2 => Nat.eqb s2 st | None => false end.
Definition advb (q : query) (st : nat) (e : N) : bool :=
  match st with
  | S p => match dstep q p e with Some s2 => Nat.eqb s2 st | None => false end
  | O => false
  end.

Lemma ends_at_snoc : forall q st e l,
  ends_at q st (l ++ [e]) = (stayb q st e && ends_at q st l) || (advb q st e && ends_at q (pred st) l).
Proof.
  intros q st e l. unfold ends_at. rewrite run_from_app.
  destruct (run_from q 0 l) as [s|]; [|now rewrite !andb_false_r].
  destruct (Nat.eqb s st) eqn:E1.
  - apply Nat.eqb_eq in E1. subst s. rewrite andb_true_r.
    assert (Hp : Nat.eqb st (pred st) = true -> st = 0%nat) by (intros H; apply Nat.eqb_eq in H; lia).
    unfold stayb. destruct (Nat.eqb st (pred st)) eqn:E2.
    + rewrite (Hp eq_refl). unfold advb. now rewrite andb_false_l, orb_false_r.
    + now rewrite andb_false_r, orb_false_r.
  - rewrite andb_false_r, orb_false_l.
    destruct (Nat.eqb s (pred st)) eqn:E2.
    + apply Nat.eqb_eq in E2. rewrite andb_true_r. unfold advb. destruct st as [|p].
      * cbn in E2. subst s. now rewrite Nat.eqb_refl in E1.
      * cbn in E2. subst s. reflexivity.
    + rewrite andb_false_r. destruct (dstep q s e) as [s2|] eqn:Ed; [|reflexivity].
      apply dstep_cases in Ed. apply Nat.eqb_neq in E1, E2. apply Nat.eqb_neq. lia.
Qed.

Lemma cnt_snoc : forall q es e st,
  cnt q (es ++ [e]) st =
  cnt q es st + (if stayb q st e then cnt q es st else 0) + (if advb q st e then cnt q es (pred st) else 0).
Proof.
  intros q es e st. unfold cnt.
  rewrite (filter_length_perm _ _ _ (sublists_snoc_perm es e)), filter_app, app_length, Nat2N.inj_add.
  rewrite filter_map_length, <- N.add_assoc. f_equal.
  apply filter_split_length.
  - intros l. apply ends_at_snoc.
  - intros l H1 H2. apply andb_true_iff in H1 as [_ H1]. apply andb_true_iff in H2 as [Ha H2].
    unfold ends_at in *. destruct (run_from q 0 l) as [s|]; [|discriminate].
    apply Nat.eqb_eq in H1, H2. unfold advb in Ha. destruct st; [discriminate|]. cbn in H2. lia.
Qed.

(* ---- the dynamic programme ---- *)

Lemma nthd_map_seq : forall (f : nat -> N) n a k, (k < n)%nat -> nthd (map f (seq a n)) k = f (a + k)%nat.
Proof.
  induction n as [|n IH]; intros a k H; [lia|]. cbn [seq map]. destruct k as [|k]; cbn [nthd].
  - now rewrite Nat.add_0_r.
  - rewrite IH by lia. f_equal. lia.
Qed.

Lemma nthd_repeat0 : forall n k, nthd (repeat 0 n) k = 0.
Proof. induction n as [|n IH]; intros k; cbn [repeat]; destruct k; cbn [nthd]; auto. Qed.

Lemma dp_step_nth : forall q c e st, (st <= qlen q)%nat ->
  nthd (dp_step q c e) st =
  nthd c st + (if stayb q st e then nthd c st else 0) + (if advb q st e then nthd c (pred st) else 0).
Proof.
  intros q c e st H. unfold dp_step. rewrite nthd_map_seq by lia. cbn [plus].
  unfold stayb, advb. f_equal; [f_equal|].
  - destruct (dstep q st e) as [s2|]; [destruct (Nat.eqb s2 st)|]; reflexivity.
  - destruct st as [|p]; [reflexivity|]. cbn [pred].
    destruct (dstep q p e) as [s2|]; [destruct (Nat.eqb s2 (S p))|]; reflexivity.
Qed.

Lemma cnt_nil : forall q st, cnt q [] st = if Nat.eqb 0 st then 1 else 0.
Proof. intros q st. unfold cnt, ends_at. cbn. destruct st; reflexivity. Qed.

Lemma dp_cnt : forall q es st, (st <= qlen q)%nat ->
  nthd (fold_left (dp_step q) es (dp_init q)) st = cnt q es st.
Proof.
  intros q es. induction es as [|e es IH] using rev_ind; intros st H.
  - cbn [fold_left]. rewrite cnt_nil. unfold dp_init. destruct st as [|st]; cbn [nthd Nat.eqb]; [reflexivity|].
    apply nthd_repeat0.
  - rewrite fold_left_app. cbn [fold_left]. rewrite dp_step_nth by exact H. rewrite cnt_snoc.
    rewrite !IH by lia. reflexivity.
Qed.

Lemma dp_count_trends : forall q es, dp_count q es = trends q es.
Proof. intros q es. unfold dp_count. rewrite trends_cnt. apply dp_cnt. lia. Qed.
