(* Trend/Run.v — evaluation of Trend/Model.v for the correspondence check of C25.
   trend_case qs es renders, separated by '|':
     trends per query ; dp_count per query ;
     GRETA reports per event (per query, '/' between events) ; GRETA flush per query ;
     Hamlet incremental reports per event (per query, '-' = none) ; Hamlet flush per query               *)
From Coq Require Import String.
From VP Require Import Base.Tactics Base.Render Trend.Model.
Open Scope string_scope.

Definition str_ns (l : list N) : string := join "," (map str_of_N l).
Definition str_os (l : list (option N)) : string := join "," (map (fun o => match o with Some n => str_of_N n | None => "-" end) l).

Definition trend_case (qs : list query) (es : list N) : string :=
  str_ns (map (fun q => trends q es) qs) ++ "|" ++
  str_ns (map (fun q => dp_count q es) qs) ++ "|" ++
  join "/" (map str_ns (snd (g_run qs (g_init qs) es))) ++ "|" ++
  str_ns (g_flush qs es) ++ "|" ++
  join "/" (map str_os (h_reports qs es)) ++ "|" ++
  str_ns (h_flush qs es).
