(* Trend/ProofsHamlet.v — outside the finding class (no event of a Kleene type of the query in the stream) the
   Hamlet model reports nothing for the query, whatever is registered next to it; and there is no trend. *)
From Coq Require Import String.
From VP Require Import Base.Tactics Trend.Model Trend.Proofs.
Open Scope N_scope.

(* the stream contains no event of a Kleene type of q *)
Definition no_kleene_event (q : query) (es : list N) : Prop :=
  forall t, In t es -> memN t (kleene_types q) = false.
(* q has a Kleene step *)
Definition has_kleene (q : query) : Prop := exists k, In k (q_kleene q) /\ (k < qlen q)%nat.

Lemma memN_in : forall t l, memN t l = true <-> In t l.
Proof.
  intros t l. unfold memN. rewrite existsb_exists. split.
  - intros (x & Hx & E). apply N.eqb_eq in E. now subst.
  - intros H. exists t. split; [exact H|apply N.eqb_refl].
Qed.

Lemma kleene_type_in : forall q k t, In k (q_kleene q) -> type_is q k t = true -> memN t (kleene_types q) = true.
Proof.
  intros q k t Hk Ht. apply memN_in. unfold kleene_types. apply in_flat_map. exists k. split; [exact Hk|].
  unfold type_is in Ht. destruct (type_at q k) as [u|]; [|discriminate]. apply N.eqb_eq in Ht. subst. now left.
Qed.

Lemma is_kleene_in : forall q k, is_kleene q k = true <-> In k (q_kleene q).
Proof.
  intros q k. unfold is_kleene. rewrite existsb_exists. split.
  - intros (x & Hx & E). apply Nat.eqb_eq in E. now subst.
  - intros H. exists k. split; [exact H|apply Nat.eqb_refl].
Qed.

(* ------------------------------------------------------------------ no trend *)

Lemma run_passes : forall q k l st st', run_from q st l = Some st' -> (st <= k)%nat -> (k < st')%nat ->
  exists t, In t l /\ type_is q k t = true.
Proof.
  induction l as [|t l IH]; intros st st' H H1 H2; cbn [run_from] in H.
  - inv H. lia.
  - destruct (dstep q st t) as [s1|] eqn:Ed; [|discriminate].
    destruct (Nat.le_gt_cases s1 k) as [Hle|Hgt].
    + destruct (IH _ _ H Hle H2) as (u & Hu & Tu). exists u. split; [now right|exact Tu].
    + (* this event crosses position k: st = k, s1 = S k *)
      pose proof (dstep_cases _ _ _ _ Ed) as [->| ->]; [lia|].
      assert (st = k) by lia. subst st. exists t. split; [now left|].
      unfold dstep in Ed. destruct k as [|j].
      * destruct (type_is q 0 t); [reflexivity|discriminate].
      * destruct (is_kleene q j && type_is q j t); [inv Ed; lia|].
        destruct (type_is q (S j) t); [reflexivity|discriminate].
Qed.

Lemma sublists_incl : forall {A} (es l : list A), In l (sublists es) -> incl l es.
Proof.
  induction es as [|x es IH]; intros l H; cbn [sublists] in H.
  - destruct H as [<-|[]]. intros y [].
  - apply in_app_or in H as [H|H].
    + apply in_map_iff in H as (l' & <- & Hl'). intros y [->|Hy]; [now left|right; now apply (IH l')].
    + intros y Hy. right. now apply (IH l).
Qed.

Lemma trends_zero : forall q es, has_kleene q -> no_kleene_event q es -> trends q es = 0.
Proof.
  intros q es (k & Hk & Hlt) Hno. unfold trends.
  destruct (filter (accepts q) (sublists es)) as [|l r] eqn:E; [reflexivity|exfalso].
  assert (Hin : In l (filter (accepts q) (sublists es))) by (rewrite E; now left).
  apply filter_In in Hin as [Hl Ha]. unfold accepts in Ha.
  destruct (run_from q 0 l) as [st|] eqn:Er; [|discriminate]. apply Nat.eqb_eq in Ha. subst st.
  destruct (run_passes q k l 0 (qlen q) Er ltac:(lia) Hlt) as (t & Ht & Tt).
  pose proof (kleene_type_in q k t Hk Tt) as Hm.
  rewrite (Hno t (sublists_incl es l Hl t Ht)) in Hm. discriminate.
Qed.

(* ------------------------------------------------------------------ the Hamlet model *)

(* what holds of a query whose Kleene types do not occur: nothing counted, nothing final, and the query has not
   passed any of its Kleene steps *)
Definition okq (q : query) (st : hq) (fin : N) : Prop :=
  h_count st = 0 /\ fin = 0 /\ forall k, In k (q_kleene q) -> (k < qlen q)%nat -> (h_pos st <= k)%nat.

Lemma h_update_ok : forall q st fin t, has_kleene q -> memN t (kleene_types q) = false -> okq q st fin ->
  let '(st1, fin1, rep) := h_update q st fin t in okq q st1 fin1 /\ rep = None.
Proof.
  intros q st fin t (k0 & Hk0 & Hlt0) Hm (Hc & Hf & Hp). unfold h_update.
  destruct (type_is q (h_pos st) t) eqn:Et; cbn [negb]; [|split; [now repeat split|reflexivity]].
  assert (Hnk : is_kleene q (h_pos st) = false).
  { destruct (is_kleene q (h_pos st)) eqn:Ek; [|reflexivity]. apply is_kleene_in in Ek.
    rewrite (kleene_type_in q _ t Ek Et) in Hm. discriminate. }
  rewrite Hnk. cbn [andb].
  assert (Hlt : forall k, In k (q_kleene q) -> (k < qlen q)%nat -> (S (h_pos st) <= k)%nat).
  { intros k Hk Hl. specialize (Hp k Hk Hl). destruct (Nat.eq_dec (h_pos st) k) as [E|E]; [|lia].
    subst k. apply is_kleene_in in Hk. congruence. }
  assert (Hnf : Nat.eqb (S (h_pos st)) (qlen q) = false).
  { apply Nat.eqb_neq. specialize (Hlt k0 Hk0 Hlt0). lia. }
  rewrite Hnf. split; [|reflexivity]. repeat split; cbn [h_count h_pos]; auto.
Qed.

Lemma nth_error_combine_seq : forall {A} (l : list A) a n i x, (length l <= n)%nat ->
  nth_error l i = Some x -> nth_error (combine (seq a n) l) i = Some ((a + i)%nat, x).
Proof.
  induction l as [|y l IH]; intros a n i x Hn H; [destruct i; discriminate|].
  destruct n as [|n]; [cbn in Hn; lia|]. cbn [seq combine]. destruct i as [|i]; cbn [nth_error] in *.
  - inv H. now rewrite Nat.add_0_r.
  - rewrite (IH (S a) n i x) by (cbn in Hn; auto; lia). f_equal. f_equal. lia.
Qed.

Lemma combine_seq_in : forall (l : list query) a i q, In (i, q) (combine (seq a (length l)) l) ->
  (a <= i)%nat /\ nth_error l (i - a) = Some q.
Proof.
  induction l as [|y l IH]; intros a i q H; [destruct H|]. cbn [length seq combine] in H. destruct H as [H|H].
  - inv H. rewrite Nat.sub_diag. split; [lia|reflexivity].
  - destruct (IH _ _ _ H) as [H1 H2]. split; [lia|]. replace (i - a)%nat with (S (i - S a)) by lia. exact H2.
Qed.

Lemma sharing_member : forall qs t i, existsb (Nat.eqb i) (sharing qs t) = true ->
  exists q, nth_error qs i = Some q /\ memN t (kleene_types q) = true.
Proof.
  intros qs t i H. apply existsb_exists in H as (j & Hj & E). apply Nat.eqb_eq in E. subst j.
  unfold sharing in Hj. apply in_map_iff in Hj as ([j q] & Ej & Hin). cbn in Ej. subst j.
  apply filter_In in Hin as [Hin Hm]. cbn in Hm. exists q. split; [|exact Hm].
  destruct (combine_seq_in qs 0 i q Hin) as [_ H2]. now rewrite Nat.sub_0_r in H2.
Qed.

(* the invariant over all registered queries: every query whose Kleene types do not occur in the stream is ok *)
Definition good (es : list N) (q : query) : Prop := has_kleene q /\ no_kleene_event q es.
Definition inv (es : list N) (qs : list query) (sts : list hq) (fins : list N) : Prop :=
  length sts = length qs /\ length fins = length qs /\
  forall i q st fin, nth_error qs i = Some q -> nth_error sts i = Some st -> nth_error fins i = Some fin ->
    good es q -> okq q st fin.

Lemma h_update_all_inv : forall es t, In t es -> forall qs sts fins, inv es qs sts fins ->
  let '(sts1, fins1, reps) := h_update_all qs sts fins t in
  inv es qs sts1 fins1 /\ length reps = length qs /\
  forall i q, nth_error qs i = Some q -> good es q -> nth_error reps i = Some None.
Proof.
  intros es t Ht. induction qs as [|q qr IH]; intros sts fins (L1 & L2 & H).
  - destruct sts, fins; try discriminate. cbn. split; [|split; [reflexivity|intros i q A; destruct i; discriminate]].
    split; [reflexivity|]. split; [reflexivity|]. intros i q st fin A. destruct i; discriminate.
  - destruct sts as [|st sr]; [discriminate|]. destruct fins as [|f fr]; [discriminate|]. cbn [h_update_all].
    assert (Hr : inv es qr sr fr).
    { split; [cbn in L1; lia|]. split; [cbn in L2; lia|]. intros i q' st' f' A B C G. exact (H (S i) q' st' f' A B C G). }
    specialize (IH sr fr Hr).
    destruct (h_update q st f t) as [[st1 f1] rep] eqn:Eu.
    destruct (h_update_all qr sr fr t) as [[sts1 fins1] reps]. destruct IH as ((M1 & M2 & M3) & M4 & M5).
    split; [split; [cbn [length]; lia|split; [cbn [length]; lia|]]|split; [cbn [length]; lia|]].
    + intros i q' st' f' A B C G. destruct i as [|i]; cbn [nth_error] in *.
      * inv A. inv B. inv C. destruct G as [G1 G2].
        pose proof (h_update_ok q' st f t G1 (G2 t Ht) (H 0%nat q' st f eq_refl eq_refl eq_refl (conj G1 G2))) as Hu.
        rewrite Eu in Hu. apply Hu.
      * exact (M3 i q' st' f' A B C G).
    + intros i q' A G. destruct i as [|i]; cbn [nth_error] in *.
      * inv A. destruct G as [G1 G2].
        pose proof (h_update_ok q' st f t G1 (G2 t Ht) (H 0%nat q' st f eq_refl eq_refl eq_refl (conj G1 G2))) as Hu.
        rewrite Eu in Hu. destruct Hu as [_ ->]. reflexivity.
      * exact (M5 i q' A G).
Qed.

Lemma h_close_inv : forall es qs s lt n, In lt es -> inv es qs (h_qs s) (h_final s) ->
  inv es qs (h_qs (h_close qs s lt n)) (h_final (h_close qs s lt n)).
Proof.
  intros es qs s lt n Hlt (L1 & L2 & H). unfold h_close. destruct (Nat.eqb n 0); [exact (conj L1 (conj L2 H))|].
  cbn [h_qs h_final]. split; [now rewrite map_length, combine_length, seq_length, Nat.min_id|]. split; [exact L2|].
  intros i q st fin A B C G.
  rewrite nth_error_map in B.
  destruct (nth_error (h_qs s) i) as [st0|] eqn:E0.
  - rewrite (nth_error_combine_seq (h_qs s) 0 (length (h_qs s)) i st0 (le_n _) E0) in B. cbn in B. inv B.
    destruct (existsb (Nat.eqb i) (sharing qs lt)) eqn:Es.
    + destruct (sharing_member qs lt i Es) as (q' & A' & Hm). rewrite A in A'. inv A'.
      destruct G as [_ G2]. rewrite (G2 lt Hlt) in Hm. discriminate.
    + cbn [negb]. exact (H i q st0 fin A E0 C G).
  - exfalso. assert (Hn : nth_error (combine (seq 0 (length (h_qs s))) (h_qs s)) i = None).
    { apply nth_error_None. rewrite combine_length, seq_length, Nat.min_id. now apply nth_error_None. }
    rewrite Hn in B. discriminate.
Qed.

(* the invariant of the whole run: also the last event type is one of the stream *)
Definition sinv (es : list N) (qs : list query) (s : hstate) : Prop :=
  inv es qs (h_qs s) (h_final s) /\ forall lt, h_last s = Some lt -> In lt es.

Lemma h_process_inv : forall es qs s t, In t es -> sinv es qs s ->
  sinv es qs (fst (h_process qs s t)) /\
  forall i q, nth_error qs i = Some q -> good es q -> nth_error (snd (h_process qs s t)) i = Some None.
Proof.
  intros es qs s t Ht (Hi & Hl). unfold h_process.
  destruct (negb (memN t (all_types qs))).
  - cbn [fst snd]. split; [now split|]. intros i q A _. rewrite nth_error_map, A. reflexivity.
  - set (s1 := match h_last s with
               | Some lt => if opt_is (h_last s) t then s else h_close qs s lt (h_size s)
               | None => s end).
    assert (H1 : inv es qs (h_qs s1) (h_final s1)).
    { unfold s1. destruct (h_last s) as [lt|] eqn:El; [|exact Hi].
      destruct (opt_is (Some lt) t); [exact Hi|]. apply h_close_inv; [now apply Hl|exact Hi]. }
    pose proof (h_update_all_inv es t Ht qs (h_qs s1) (h_final s1) H1) as Hu.
    destruct (h_update_all qs (h_qs s1) (h_final s1) t) as [[sts fins] reps].
    destruct Hu as (Hu1 & Hu2 & Hu3). cbn [fst snd]. split.
    + split; [exact Hu1|]. cbn [h_last]. intros lt E. now inv E.
    + exact Hu3.
Qed.

Lemma h_run_inv : forall es qs rest s, incl rest es -> sinv es qs s ->
  sinv es qs (fst (h_run qs s rest)) /\
  forall k out, nth_error (snd (h_run qs s rest)) k = Some out ->
    forall i q, nth_error qs i = Some q -> good es q -> nth_error out i = Some None.
Proof.
  intros es qs. induction rest as [|t r IH]; intros s Hin Hs; cbn [h_run].
  - cbn. split; [exact Hs|]. intros k out H. destruct k; discriminate.
  - pose proof (h_process_inv es qs s t (Hin t (or_introl eq_refl)) Hs) as [P1 P2].
    destruct (h_process qs s t) as [s1 out1]. cbn [fst snd] in *.
    specialize (IH s1 (fun x hx => Hin x (or_intror hx)) P1).
    destruct (h_run qs s1 r) as [s2 outs]. cbn [fst snd] in *. destruct IH as [Q1 Q2].
    split; [exact Q1|]. intros k out H. destruct k as [|k]; cbn [nth_error] in H.
    + inv H. exact P2.
    + exact (Q2 k out H).
Qed.

Lemma h_init_inv : forall es qs, sinv es qs (h_init qs).
Proof.
  intros es qs. unfold sinv, inv, h_init. cbn [h_qs h_final h_last].
  split; [split; [now rewrite map_length|split; [now rewrite map_length|]]|intros lt E; discriminate].
  intros i q st fin A B C G. rewrite nth_error_map, A in B, C. cbn in B, C. inv B. inv C.
  split; [reflexivity|]. split; [reflexivity|]. intros; cbn; lia.
Qed.

(* a query whose Kleene types do not occur in the stream gets no incremental report and flush value 0,
   whatever else is registered *)
Lemma hamlet_silent : forall qs es i q, nth_error qs i = Some q -> has_kleene q -> no_kleene_event q es ->
  nth i (h_flush qs es) 0 = 0 /\
  forall k out, nth_error (h_reports qs es) k = Some out -> nth_error out i = Some None.
Proof.
  intros qs es i q A G1 G2. unfold h_flush, h_reports.
  pose proof (h_run_inv es qs es (h_init qs) (incl_refl es) (h_init_inv es qs)) as [(Hi & Hl) Hr].
  split.
  - unfold h_flush_state. set (s := fst (h_run qs (h_init qs) es)) in *.
    set (s1 := match h_last s with Some lt => h_close qs s lt (h_size s) | None => s end).
    assert (H1 : inv es qs (h_qs s1) (h_final s1)).
    { unfold s1. destruct (h_last s) as [lt|] eqn:El; [|exact Hi]. apply h_close_inv; [now apply Hl|exact Hi]. }
    destruct H1 as (L1 & L2 & H).
    assert (Hlt : (i < length qs)%nat) by (apply nth_error_Some; congruence).
    destruct (nth_error (h_qs s1) i) as [st|] eqn:E1; [|apply nth_error_None in E1; lia].
    destruct (nth_error (h_final s1) i) as [fin|] eqn:E2; [|apply nth_error_None in E2; lia].
    destruct (H i q st fin A E1 E2 (conj G1 G2)) as (Hc & Hf & _).
    apply nth_error_nth. rewrite nth_error_map.
    assert (Ec : nth_error (combine (h_qs s1) (h_final s1)) i = Some (st, fin)).
    { clear - E1 E2. revert i E1 E2. generalize (h_final s1). induction (h_qs s1) as [|a l IH]; intros l' i E1 E2;
        [destruct i; discriminate|]. destruct l' as [|b l']; [destruct i; discriminate|].
      destruct i; cbn [nth_error combine] in *; [now inv E1; inv E2|now apply IH]. }
    rewrite Ec. cbn [option_map fst snd]. rewrite Hc, Hf. change (0 <? 0) with false. rewrite andb_false_r. reflexivity.
  - intros k out H. exact (Hr k out H i q A (conj G1 G2)).
Qed.
