(* C14 — aggregates equal their mathematical definitions on every execution path.
   Only the property theorems; lemmas are in Agg/Proofs*.v, the model in Agg/Model.v, the definitions in Agg/Spec.v.
   Everything is over exact rationals (rounding is outside the model); [avx] selects the SIMD variant of simd.rs,
   [p] the execution path (PRow = apply, PRefs = apply_shared/apply_refs, PCol = apply_columnar);
   [nums evs f] are the numeric values of field f in window order (missing / non-numeric skipped, NaN kept),
   [vals evs f] the non-NaN ones. *)
From Coq Require Import QArith List ZArith NArith Bool SetoidList.
From VP Require Import Agg.Model Agg.Spec Agg.ProofsSum Agg.ProofsMinMax Agg.ProofsStat Agg.ProofsMisc.
Import ListNotations.
Open Scope Q_scope.

Lemma to_refs : forall avx p a evs f, apply avx p a evs f = apply_refs avx a evs f.
Proof.
  intros avx [| |] a evs f; cbn [apply]; [apply paths_row_refs | reflexivity | symmetry; apply paths_refs_col].
Qed.

(* Sum: every path and both lane structures return the sum of the non-NaN numeric values (0 when there are none) *)
Theorem C14_sum : forall avx p evs f,
    res_eq (apply avx p ASum evs f) (RNum (XNum (Qsum (vals evs (fld f))))).
Proof. intros. rewrite to_refs. apply (refs_meets_spec avx ASum). Qed.

(* Avg: the mean of the non-NaN numeric values, Null when there are none *)
Theorem C14_avg : forall avx p evs f,
    res_eq (apply avx p AAvg evs f)
           (match vals evs (fld f) with [] => RNull | v => RNum (XNum (Qsum v / Qlen v)) end).
Proof. intros. rewrite to_refs. apply (refs_meets_spec avx AAvg). Qed.

(* Min / Max: Null when there is no non-NaN numeric value, otherwise a least / greatest element of them *)
Theorem C14_minmax : forall avx p evs f,
    match vals evs (fld f) with
    | [] => apply avx p AMin evs f = RNull /\ apply avx p AMax evs f = RNull
    | v => exists lo hi, apply avx p AMin evs f = RNum (XNum lo) /\ apply avx p AMax evs f = RNum (XNum hi) /\
                         In lo v /\ In hi v /\ forall x, In x v -> lo <= x /\ x <= hi
    end.
Proof.
  intros avx p evs f. rewrite !to_refs. cbn [apply_refs]. rewrite refs_values.
  pose proof (min_f64_ok avx (vals evs (fld f))) as Hmin. pose proof (max_f64_ok avx (vals evs (fld f))) as Hmax.
  destruct (vals evs (fld f)) as [|x l]; [split; assumption|].
  destruct Hmin as [lo [Hlo [Hlin Hlle]]]. destruct Hmax as [hi [Hhi [Hhin Hhle]]].
  exists lo, hi. repeat split; auto.
Qed.

(* StdDev: Welford's single pass returns sqrt of the sample variance  sum (x - mean)^2 / (n - 1);
   Null below two numeric values; NaN is not filtered (any NaN makes the result NaN) on every path *)
Theorem C14_stddev : forall avx p evs f,
    let xs := nums evs (fld f) in
    res_eq (apply avx p AStdDev evs f)
           (if (length xs <? 2)%nat then RNull
            else if has_nan xs then RNum XNaN
                 else RSqrt (Qsum (map (fun x => (x - mean (non_nan xs)) * (x - mean (non_nan xs))) (non_nan xs))
                             / (Qlen (non_nan xs) - 1))).
Proof. intros. rewrite to_refs. apply (refs_meets_spec avx AStdDev). Qed.

(* Ema: the recurrence  e1 = x1, e_i = k x_i + (1-k) e_(i-1),  k = 2/(period+1)  equals the explicit weighted sum
   sum_{i<n-1} k (1-k)^i x_(n-i) + (1-k)^(n-1) x_1;  Null without numeric values; NaN is not filtered *)
Theorem C14_ema : forall avx p period evs f,
    let xs := nums evs (fld f) in
    res_eq (apply avx p (AEma period) evs f)
           (match xs with
            | [] => RNull
            | _ => if has_nan xs then RNum XNaN
                   else RNum (XNum (ema_explicit (2 / (inject_Z period + 1)) (non_nan xs)))
            end).
Proof.
  intros avx p period evs f xs. rewrite to_refs.
  pose proof (refs_meets_spec avx (AEma period) evs f) as H. cbv iota in H. cbn [spec1] in H. fold xs in H.
  destruct xs as [|x l]; [exact H|].
  destruct (has_nan (x :: l)); [exact H|].
  eapply res_eq_trans; [exact H|]. cbn. apply ema_closed_explicit.
Qed.

(* First / Last: the field of the first / last event of the window (Null when absent or the window is empty) *)
Theorem C14_first_last : forall avx p evs f,
    apply avx p AFirst evs f
    = match evs with [] => RNull | e :: _ => match lookup (fld f) e with Some v => res_of_fval v | None => RNull end end
    /\ apply avx p ALast evs f
       = match rev evs with [] => RNull | e :: _ => match lookup (fld f) e with Some v => res_of_fval v | None => RNull end end.
Proof. intros avx p evs f. rewrite !to_refs. split; reflexivity. Qed.

(* Count: the number of events *)
Theorem C14_count : forall avx p evs f, apply avx p ACount evs f = RInt (Z.of_nat (length evs)).
Proof. intros. rewrite to_refs. reflexivity. Qed.

(* CountDistinct: the number of equality classes of the values present in the field -- the length of ANY
   duplicate-free list of representatives (hash collisions of DefaultHasher are outside the model) *)
Theorem C14_count_distinct : forall avx p evs f reps,
    NoDupA feq reps ->
    (forall v, InA feq v reps <-> InA feq v (present evs (fld f))) ->
    apply avx p ACountDistinct evs f = RInt (Z.of_nat (length reps)).
Proof. intros avx p evs f reps Hn Hm. rewrite to_refs. cbn [apply_refs]. apply count_distinct_ok; assumption. Qed.

(* ExprAggregate combines the results of its operands on the same path (the columnar path falls back to shared) *)
Theorem C14_expr : forall avx p l lf op r rf evs f,
    apply avx p (AExpr l lf op r rf) evs f
    = expr_combine op (apply avx (match p with PCol => PRefs | _ => p end) l evs lf)
                      (apply avx (match p with PCol => PRefs | _ => p end) r evs rf).
Proof. intros avx [| |]; reflexivity. Qed.
Theorem C14_expr_arith : forall a b,
    xq_eq (float_op Add (XNum a) (XNum b)) (XNum (a + b)) /\
    xq_eq (float_op Sub (XNum a) (XNum b)) (XNum (a - b)) /\
    xq_eq (float_op Mul (XNum a) (XNum b)) (XNum (a * b)) /\
    (~ b == 0 -> xq_eq (float_op Div (XNum a) (XNum b)) (XNum (a / b))) /\
    (b == 0 -> float_op Div (XNum a) (XNum b) = XNaN).
Proof.
  intros a b. cbn [float_op xadd xsub xmul xlift2 xq_eq].
  repeat split; try (apply qadd_ok || apply qsub_ok || apply qmul_ok).
  - intros Hb. destruct (Qeq_bool b 0) eqn:E; [apply Qeq_bool_iff in E; contradiction|]. cbn. apply qdiv_ok.
  - intros Hb. apply Qeq_bool_iff in Hb. rewrite Hb. reflexivity.
Qed.

(* The row-based, shared-event and columnar paths return the same result: every aggregate (ExprAggregate and
   nesting included), every batch, every field -- syntactically equal model values *)
Theorem C14_paths_agree : forall avx a evs f,
    apply avx PRow a evs f = apply avx PRefs a evs f /\ apply avx PRefs a evs f = apply avx PCol a evs f.
Proof. intros. cbn [apply]. split; [apply paths_row_refs | apply paths_refs_col]. Qed.

(* ... and so do the AVX2 and the scalar lane structure *)
Theorem C14_simd_variants_agree : forall p a evs f, res_eq (apply true p a evs f) (apply false p a evs f).
Proof. intros. rewrite !to_refs. apply variants_refs. Qed.

(* Summary used by the correspondence check: every path of every simple aggregate equals the specification
   function [spec1] that Agg/Run.v prints next to the model's value *)
Theorem C14_meets_spec : forall avx p a evs f,
    match a with AExpr _ _ _ _ _ => True | _ => res_eq (apply avx p a evs f) (spec1 a evs (fld f)) end.
Proof. intros. rewrite to_refs. apply refs_meets_spec. Qed.

(* ---- non-vacuity: a batch with an Int, floats, a NaN, a string and a missing field; 7 events (one chunk + remainder) *)
Definition ev (v : fval) : event := [(0%N, v)].
Definition batch : list event :=
  [ev (VInt 10); ev (VFloat (41 # 2)); ev VNaN; ev (VOther 3); []; ev (VFloat 30); ev (VFloat (-5 # 1)); ev (VInt 10); ev (VFloat 7)].
Example C14_example_values :
  map (fun a => apply true PCol a batch None) [ACount; ASum; AAvg; AMin; AMax; ACountDistinct; AFirst; ALast]
  = [RInt 9; RNum (XNum (145 # 2)); RNum (XNum (145 # 12)); RNum (XNum (-5 # 1)); RNum (XNum (30 # 1)); RInt 7;
     RInt 10; RNum (XNum (7 # 1))]
  /\ apply true PRow AStdDev batch None = RNum XNaN
  /\ apply false PRefs AStdDev (ev (VInt 10) :: ev (VInt 20) :: ev (VInt 30) :: nil) None = RSqrt (100 # 1)
  /\ apply true PRow (AEma 3) (ev (VInt 100) :: ev (VInt 110) :: ev (VInt 120) :: nil) None = RNum (XNum (225 # 2)).
Proof. vm_compute. repeat split; reflexivity. Qed.
