(* Executable model of the aggregation functions of
     crates/varpulis-runtime/src/aggregation.rs   (AggregateFunc impls: apply / apply_refs / apply_columnar)
     crates/varpulis-runtime/src/simd.rs          (sum_f64{_scalar,_avx2}, min_f64.., max_f64.., extract_field_f64..)
     crates/varpulis-runtime/src/columnar.rs      (ColumnarBuffer::ensure_float_column)
   over EXACT RATIONALS: a finite f64 is its dyadic value, an Int is its integer value, NaN is a flag
   (C14 says "up to floating-point rounding": rounding is not modelled, the correspondence check uses a
   stated tolerance; infinities are outside the model).
   Every arithmetic result is normalised by [Qred] (keeps numerators/denominators small under vm_compute;
   [Qred q == q], so all theorems are stated up to [Qeq]).
   Definitions only -- no proofs in this file. *)
From Coq Require Import QArith List ZArith NArith Bool.
Import ListNotations.
Open Scope Q_scope.

(* ---------------------------------------------------------------- values and events *)
(* A field value as far as the aggregates can tell values apart:
   VNull = Value::Null, VOther id = any other non-numeric value (Bool / Str ..; equal ids <=> equal values),
   VInt = Value::Int, VFloat q = finite Value::Float with value q, VNaN = Value::Float(NaN). *)
Inductive fval := VNull | VOther (id : N) | VInt (z : Z) | VFloat (q : Q) | VNaN.

(* Event = its data map (IndexMap, unique keys): field id -> value.  Field 0 is "value" (the default field). *)
Definition event := list (N * fval).

(* f64 as far as the model goes: a rational or NaN *)
Inductive xq := XNum (q : Q) | XNaN.

Fixpoint lookup (f : N) (e : event) : option fval :=
  match e with
  | [] => None
  | (g, v) :: r => if N.eqb f g then Some v else lookup f r
  end.

(* Event::get_float = data.get(key).and_then(Value::as_float): Float(n) => n, Int(n) => n as f64 *)
Definition get_float (f : N) (e : event) : option xq :=
  match lookup f e with
  | Some (VInt z) => Some (XNum (inject_Z z))
  | Some (VFloat q) => Some (XNum q)
  | Some VNaN => Some XNaN
  | _ => None
  end.

(* field.unwrap_or("value") *)
Definition fld (f : option N) : N := match f with Some g => g | None => 0%N end.

(* ---------------------------------------------------------------- arithmetic *)
Definition qadd (a b : Q) : Q := Qred (a + b).
Definition qsub (a b : Q) : Q := Qred (a - b).
Definition qmul (a b : Q) : Q := Qred (a * b).
Definition qdiv (a b : Q) : Q := Qred (a / b).
Definition qltb (a b : Q) : bool := negb (Qle_bool b a).      (* a < b *)
Definition qofZ (z : Z) : Q := inject_Z z.

Definition xlift2 (f : Q -> Q -> Q) (a b : xq) : xq :=
  match a, b with XNum x, XNum y => XNum (f x y) | _, _ => XNaN end.
Definition xadd := xlift2 qadd.
Definition xsub := xlift2 qsub.
Definition xmul := xlift2 qmul.
Definition xdiv := xlift2 qdiv.     (* only used with a non-zero divisor, or guarded as in ExprAggregate *)

(* .filter(|v| !v.is_nan()) *)
Fixpoint non_nan (l : list xq) : list Q :=
  match l with
  | [] => []
  | XNum q :: r => q :: non_nan r
  | XNaN :: r => non_nan r
  end.

(* ---------------------------------------------------------------- field extraction (three shapes) *)
(* simd::extract_field_f64 and ColumnarBuffer::ensure_float_column: missing / non-numeric => NaN *)
Definition extract_field (evs : list event) (f : N) : list xq :=
  map (fun e => match get_float f e with Some x => x | None => XNaN end) evs.
Definition ensure_float_column := extract_field.

(* events.iter().filter_map(|e| e.get_float(field)) : missing / non-numeric skipped, NaN kept *)
Fixpoint filter_map_float (evs : list event) (f : N) : list xq :=
  match evs with
  | [] => []
  | e :: r => match get_float f e with
              | Some x => x :: filter_map_float r f
              | None => filter_map_float r f
              end
  end.

(* simd::extract_field_f64_filtered (values only): Some(v) and !v.is_nan() *)
Fixpoint extract_filtered (evs : list event) (f : N) : list Q :=
  match evs with
  | [] => []
  | e :: r => match get_float f e with
              | Some (XNum q) => q :: extract_filtered r f
              | _ => extract_filtered r f
              end
  end.

(* ---------------------------------------------------------------- simd::sum_f64 *)
Definition lanes := (Q * Q * Q * Q)%type.

(* the `for i in 0..chunks` loop shared by both variants: four lane accumulators over len/4 full chunks;
   returns the lanes and the remainder (len % 4 trailing values) *)
Fixpoint sum_chunks (l : list Q) (acc : lanes) : lanes * list Q :=
  match l with
  | a :: b :: c :: d :: r =>
      let '(s0, s1, s2, s3) := acc in
      sum_chunks r (qadd s0 a, qadd s1 b, qadd s2 c, qadd s3 d)
  | rem => (acc, rem)
  end.

(* sum_f64_scalar: remainder goes into lane 0, then sum0 + sum1 + sum2 + sum3 *)
Definition sum_f64_scalar (values : list Q) : Q :=
  let '((s0, s1, s2, s3), rem) := sum_chunks values (0, 0, 0, 0) in
  let s0' := fold_left qadd rem s0 in
  qadd (qadd (qadd s0' s1) s2) s3.

(* sum_f64_avx2: horizontal sum of the vector first, then the remainder is added to the total *)
Definition sum_f64_avx2 (values : list Q) : Q :=
  let '((s0, s1, s2, s3), rem) := sum_chunks values (0, 0, 0, 0) in
  let total := qadd (qadd (qadd s0 s1) s2) s3 in
  fold_left qadd rem total.

(* sum_f64: is_x86_feature_detected!("avx2") is the model input [avx] *)
Definition sum_f64 (avx : bool) (values : list Q) : Q :=
  if avx then sum_f64_avx2 values else sum_f64_scalar values.

(* ---------------------------------------------------------------- simd::min_f64 / max_f64 *)
(* min and max are the same code with the comparison flipped; the functions are written once over the strict
   comparison [lt] ("strictly better than") and instantiated with  a <_min b := a < b  and  a <_max b := a > b.
   Accumulators start at +INFINITY (min) / -INFINITY (max): [None]. *)
Section MinMax.
  Variable lt : Q -> Q -> bool.
  (* scalar loop body:  if v < min { min = v }   /   if v > max { max = v } *)
  Definition acc_step (v : Q) (m : option Q) : option Q :=
    match m with None => Some v | Some x => if lt v x then Some v else m end.
  (* _mm256_min_pd(a, b) per lane = a < b ? a : b ;  _mm256_max_pd(a, b) = a > b ? a : b  (second operand otherwise) *)
  Definition vec_step (a : option Q) (b : Q) : option Q :=
    match a with None => Some b | Some x => if lt x b then Some x else Some b end.
  (* f64::min / f64::max on two lane results (either may still be the infinity) *)
  Definition f_comb (a b : option Q) : option Q :=
    match a, b with
    | None, _ => b
    | _, None => a
    | Some x, Some y => if lt y x then Some y else Some x
    end.
  Definition olanes := (option Q * option Q * option Q * option Q)%type.
  (* the `for i in 0..chunks` loop: four lanes over len/4 full chunks; returns the lanes and the remainder *)
  Fixpoint mm_chunks (l : list Q) (acc : olanes) : olanes * list Q :=
    match l with
    | a :: b :: c :: d :: r =>
        let '(m0, m1, m2, m3) := acc in
        mm_chunks r (vec_step m0 a, vec_step m1 b, vec_step m2 c, vec_step m3 d)
    | rem => (acc, rem)
    end.
  (* min_f64_scalar / max_f64_scalar *)
  Definition mm_scalar (values : list Q) : option Q := fold_left (fun m v => acc_step v m) values None.
  (* min_f64_avx2 / max_f64_avx2: horizontal combination of the lanes, then the remainder with the scalar body *)
  Definition mm_avx2 (values : list Q) : option Q :=
    let '((m0, m1, m2, m3), rem) := mm_chunks values (None, None, None, None) in
    fold_left (fun m v => acc_step v m) rem (f_comb (f_comb (f_comb m0 m1) m2) m3).
End MinMax.

Definition lt_min (a b : Q) : bool := qltb a b.      (* a < b *)
Definition lt_max (a b : Q) : bool := qltb b a.      (* a > b *)
Definition min_f64_scalar := mm_scalar lt_min.
Definition max_f64_scalar := mm_scalar lt_max.
Definition min_f64_avx2 := mm_avx2 lt_min.
Definition max_f64_avx2 := mm_avx2 lt_max.

(* results of the aggregate functions (Value) *)
Inductive res :=
| RNull
| RInt (z : Z)
| RNum (x : xq)              (* Value::Float *)
| RSqrt (q : Q)              (* Value::Float(sqrt q): StdDev; the square root is not modelled *)
| ROther (id : N)            (* First / Last returning a non-numeric value *)
| RInf                       (* an infinity escaping min/max: unreachable, see C14_minmax *)
| RUnmodelled.               (* arithmetic on a square root inside ExprAggregate *)

(* min_f64: None when empty, else Some(variant) *)
Definition min_f64 (avx : bool) (values : list Q) : res :=
  match values with
  | [] => RNull
  | _ => match (if avx then min_f64_avx2 values else min_f64_scalar values) with
         | Some q => RNum (XNum q) | None => RInf end
  end.
Definition max_f64 (avx : bool) (values : list Q) : res :=
  match values with
  | [] => RNull
  | _ => match (if avx then max_f64_avx2 values else max_f64_scalar values) with
         | Some q => RNum (XNum q) | None => RInf end
  end.

Definition qlen (l : list Q) : Q := qofZ (Z.of_nat (length l)).

(* `sum / len as f64`, Null when empty (simd_avg and the Avg impls) *)
Definition avg_of (avx : bool) (values : list Q) : res :=
  match values with
  | [] => RNull
  | _ => RNum (XNum (qdiv (sum_f64 avx values) (qlen values)))
  end.

(* ---------------------------------------------------------------- StdDev (Welford), Ema *)
(* loop body of StdDev::apply / apply_refs; NaN is NOT filtered *)
Definition welford_step (st : Z * xq * xq) (x : xq) : Z * xq * xq :=
  let '(count, mean, m2) := st in
  let count' := (count + 1)%Z in
  let delta := xsub x mean in
  let mean' := xadd mean (xdiv delta (XNum (qofZ count'))) in
  let delta2 := xsub x mean' in
  (count', mean', xadd m2 (xmul delta delta2)).

Definition stddev_of (xs : list xq) : res :=
  let '(count, _, m2) := fold_left welford_step xs (0%Z, XNum 0, XNum 0) in
  if (count <? 2)%Z then RNull
  else match xdiv m2 (XNum (qofZ (count - 1))) with
       | XNum v => RSqrt v
       | XNaN => RNum XNaN
       end.

(* k = 2.0 / (period as f64 + 1.0) *)
Definition ema_k (period : Z) : Q := qdiv 2 (qadd (qofZ period) 1).
Definition ema_step (k : Q) (ema : option xq) (value : xq) : option xq :=
  Some (match ema with
        | Some prev => xadd (xmul value (XNum k)) (xmul prev (XNum (qsub 1 k)))
        | None => value
        end).
Definition ema_of (period : Z) (xs : list xq) : res :=
  match fold_left (ema_step (ema_k period)) xs None with
  | Some x => RNum x
  | None => RNull
  end.

(* ---------------------------------------------------------------- First / Last / Count / CountDistinct *)
Definition res_of_fval (v : fval) : res :=
  match v with
  | VNull => RNull
  | VOther id => ROther id
  | VInt z => RInt z
  | VFloat q => RNum (XNum q)
  | VNaN => RNum XNaN
  end.
(* events.first().and_then(|e| e.get(field)).cloned().unwrap_or(Null) *)
Definition first_of (evs : list event) (f : N) : res :=
  match evs with
  | [] => RNull
  | e :: _ => match lookup f e with Some v => res_of_fval v | None => RNull end
  end.
Definition last_of (evs : list event) (f : N) : res :=
  match rev evs with
  | [] => RNull
  | e :: _ => match lookup f e with Some v => res_of_fval v | None => RNull end
  end.

(* equality classes of Value's Hash impl on these values: discriminant + payload; all NaNs equal, -0.0 = 0.0
   (both have the rational value 0).  DefaultHasher collisions are not modelled. *)
Definition feqb (a b : fval) : bool :=
  match a, b with
  | VNull, VNull => true
  | VOther i, VOther j => N.eqb i j
  | VInt x, VInt y => Z.eqb x y
  | VFloat x, VFloat y => Qeq_bool x y
  | VNaN, VNaN => true
  | _, _ => false
  end.
Definition seen_insert (seen : list fval) (v : fval) : list fval :=
  if existsb (feqb v) seen then seen else seen ++ [v].
Definition count_distinct_of (evs : list event) (f : N) : res :=
  RInt (Z.of_nat (length (fold_left (fun seen e => match lookup f e with
                                                   | Some v => seen_insert seen v
                                                   | None => seen end) evs []))).

(* ---------------------------------------------------------------- ExprAggregate *)
Inductive binop := Add | Sub | Mul | Div.

Definition float_op (op : binop) (l r : xq) : xq :=
  match op with
  | Add => xadd l r
  | Sub => xsub l r
  | Mul => xmul l r
  | Div => match r with                       (* if r != 0.0 { l / r } else { NAN };  NaN != 0.0 is true *)
           | XNum q => if Qeq_bool q 0 then XNaN else xdiv l r
           | XNaN => XNaN
           end
  end.
Definition int_op (op : binop) (l r : Z) : Z :=      (* i64; overflow is outside the model *)
  match op with
  | Add => (l + r)%Z
  | Sub => (l - r)%Z
  | Mul => (l * r)%Z
  | Div => if (r =? 0)%Z then 0%Z else Z.quot l r
  end.
Definition is_numeric (r : res) : bool :=
  match r with RInt _ | RNum _ | RSqrt _ | RUnmodelled => true | _ => false end.
(* the `match (left_val, right_val)` of ExprAggregate::apply / apply_refs *)
Definition expr_combine (op : binop) (l r : res) : res :=
  match l, r with
  | RNum a, RNum b => RNum (float_op op a b)
  | RInt a, RInt b => RInt (int_op op a b)
  | RInt a, RNum b => RNum (float_op op (XNum (qofZ a)) b)
  | RNum a, RInt b => RNum (float_op op a (XNum (qofZ b)))
  | _, _ => if is_numeric l && is_numeric r then RUnmodelled else RNull
  end.

(* ---------------------------------------------------------------- the aggregate functions, per path *)
Inductive agg :=
| ACount | ASum | AAvg | AMin | AMax | AStdDev | AFirst | ALast | ACountDistinct
| AEma (period : Z)
| AExpr (l : agg) (lf : option N) (op : binop) (r : agg) (rf : option N).

(* AggregateFunc::apply (row path: &[Event]) *)
Fixpoint apply_row (avx : bool) (a : agg) (evs : list event) (field : option N) : res :=
  let f := fld field in
  match a with
  | ACount => RInt (Z.of_nat (length evs))
  | ASum => RNum (XNum (sum_f64 avx (non_nan (extract_field evs f))))            (* simd_sum *)
  | AAvg => avg_of avx (non_nan (extract_field evs f))                            (* simd_avg *)
  | AMin => min_f64 avx (extract_filtered evs f)                                  (* simd_min *)
  | AMax => max_f64 avx (extract_filtered evs f)                                  (* simd_max *)
  | AStdDev => stddev_of (filter_map_float evs f)
  | AFirst => first_of evs f
  | ALast => last_of evs f
  | ACountDistinct => count_distinct_of evs f
  | AEma p => ema_of p (filter_map_float evs f)
  | AExpr l lf op r rf => expr_combine op (apply_row avx l evs lf) (apply_row avx r evs rf)
  end.

(* AggregateFunc::apply_refs (shared path: apply_shared collects &Event and calls apply_refs) *)
Fixpoint apply_refs (avx : bool) (a : agg) (evs : list event) (field : option N) : res :=
  let f := fld field in
  match a with
  | ACount => RInt (Z.of_nat (length evs))
  | ASum => RNum (XNum (sum_f64 avx (non_nan (filter_map_float evs f))))
  | AAvg => avg_of avx (non_nan (filter_map_float evs f))
  | AMin => min_f64 avx (non_nan (filter_map_float evs f))
  | AMax => max_f64 avx (non_nan (filter_map_float evs f))
  | AStdDev => stddev_of (filter_map_float evs f)
  | AFirst => first_of evs f
  | ALast => last_of evs f
  | ACountDistinct => count_distinct_of evs f
  | AEma p => ema_of p (filter_map_float evs f)
  | AExpr l lf op r rf => expr_combine op (apply_refs avx l evs lf) (apply_refs avx r evs rf)
  end.

(* AggregateFunc::apply_columnar: Count/Sum/Avg/Min/Max override it and read the Float64 column;
   every other function inherits the default, which is apply_shared(buffer.events()) = apply_refs.
   The column cache of ColumnarBuffer is a memo of a pure function and is not modelled. *)
Definition apply_columnar (avx : bool) (a : agg) (evs : list event) (field : option N) : res :=
  let f := fld field in
  match a with
  | ACount => RInt (Z.of_nat (length evs))                                        (* buffer.len() *)
  | ASum => RNum (XNum (sum_f64 avx (non_nan (ensure_float_column evs f))))
  | AAvg => avg_of avx (non_nan (ensure_float_column evs f))
  | AMin => min_f64 avx (non_nan (ensure_float_column evs f))
  | AMax => max_f64 avx (non_nan (ensure_float_column evs f))
  | _ => apply_refs avx a evs field
  end.

Inductive path := PRow | PRefs | PCol.
Definition apply (avx : bool) (p : path) (a : agg) (evs : list event) (field : option N) : res :=
  match p with
  | PRow => apply_row avx a evs field
  | PRefs => apply_refs avx a evs field
  | PCol => apply_columnar avx a evs field
  end.
