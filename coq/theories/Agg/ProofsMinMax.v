(* C14 lemmas, part 2: Min / Max -- scalar loop and AVX2 lane structure return an extremal element of the list. *)
From Coq Require Import QArith List ZArith NArith Bool Lia.
From VP Require Import Agg.Model Agg.Spec Agg.ProofsSum.
Import ListNotations.
Open Scope Q_scope.

Section Generic.
  Variable lt : Q -> Q -> bool.
  Variable le : Q -> Q -> Prop.            (* "at least as good as": <= for min, >= for max *)
  Hypothesis le_refl : forall a, le a a.
  Hypothesis le_trans : forall a b c, le a b -> le b c -> le a c.
  Hypothesis lt_true : forall a b, lt a b = true -> le a b.
  Hypothesis lt_false : forall a b, lt a b = false -> le b a.

  (* accumulator [m] summarises the set [S] of processed values: it is one of them and at least as good as all *)
  Definition Low (m : option Q) (S : Q -> Prop) : Prop :=
    (forall q, m = Some q -> S q) /\ (forall x, S x -> exists q, m = Some q /\ le q x).

  Lemma Low_acc_step : forall m S v, Low m S -> Low (acc_step lt v m) (fun x => S x \/ x = v).
  Proof.
    intros m S v [H1 H2]. unfold acc_step. destruct m as [x|].
    - destruct (lt v x) eqn:E.
      + split.
        * intros q Hq. inversion Hq. subst. right. reflexivity.
        * intros y [Hy | ->].
          -- destruct (H2 y Hy) as [q [Hq Hle]]. inversion Hq. subst. exists v. split; [reflexivity|].
             eapply le_trans; [apply lt_true; exact E | exact Hle].
          -- exists v. split; [reflexivity | apply le_refl].
      + split.
        * intros q Hq. left. apply H1. exact Hq.
        * intros y [Hy | ->].
          -- apply H2. exact Hy.
          -- exists x. split; [reflexivity | apply lt_false; exact E].
    - split.
      + intros q Hq. inversion Hq. subst. right. reflexivity.
      + intros y [Hy | ->].
        * destruct (H2 y Hy) as [q [Hq _]]. discriminate.
        * exists v. split; [reflexivity | apply le_refl].
  Qed.

  Lemma Low_ext : forall m S S', (forall x, S x <-> S' x) -> Low m S -> Low m S'.
  Proof.
    intros m S S' He [H1 H2]. split.
    - intros q Hq. apply He. apply H1. exact Hq.
    - intros x Hx. apply H2. apply He. exact Hx.
  Qed.

  Lemma Low_fold : forall rem m S,
      Low m S -> Low (fold_left (fun m v => acc_step lt v m) rem m) (fun x => S x \/ In x rem).
  Proof.
    induction rem as [|v rem IH]; intros m S H; cbn [fold_left].
    - eapply Low_ext; [| exact H]. intros x. cbn. tauto.
    - eapply Low_ext; [| apply IH; apply Low_acc_step; exact H].
      intros x. cbn. split; [intros [[?|?]|?]; auto | intros [?|[?|?]]; auto].
  Qed.

  Lemma Low_vec_step : forall m S v, Low m S -> Low (vec_step lt m v) (fun x => S x \/ x = v).
  Proof.
    intros m S v [H1 H2]. unfold vec_step. destruct m as [x|].
    - destruct (lt x v) eqn:E.
      + split.
        * intros q Hq. left. apply H1. exact Hq.
        * intros y [Hy | ->].
          -- apply H2. exact Hy.
          -- exists x. split; [reflexivity | apply lt_true; exact E].
      + split.
        * intros q Hq. inversion Hq. subst. right. reflexivity.
        * intros y [Hy | ->].
          -- destruct (H2 y Hy) as [q [Hq Hle]]. inversion Hq. subst. exists v. split; [reflexivity|].
             eapply le_trans; [apply lt_false; exact E | exact Hle].
          -- exists v. split; [reflexivity | apply le_refl].
    - split.
      + intros q Hq. inversion Hq. subst. right. reflexivity.
      + intros y [Hy | ->].
        * destruct (H2 y Hy) as [q [Hq _]]. discriminate.
        * exists v. split; [reflexivity | apply le_refl].
  Qed.

  Lemma Low_f_comb : forall a b Sa Sb, Low a Sa -> Low b Sb -> Low (f_comb lt a b) (fun x => Sa x \/ Sb x).
  Proof.
    intros a b Sa Sb [A1 A2] [B1 B2]. unfold f_comb. destruct a as [x|], b as [y|].
    - destruct (lt y x) eqn:E.
      + split.
        * intros q Hq. right. apply B1. exact Hq.
        * intros z [Hz | Hz].
          -- destruct (A2 z Hz) as [q [Hq Hle]]. inversion Hq. subst. exists y. split; [reflexivity|].
             eapply le_trans; [apply lt_true; exact E | exact Hle].
          -- apply B2. exact Hz.
      + split.
        * intros q Hq. left. apply A1. exact Hq.
        * intros z [Hz | Hz].
          -- apply A2. exact Hz.
          -- destruct (B2 z Hz) as [q [Hq Hle]]. inversion Hq. subst. exists x. split; [reflexivity|].
             eapply le_trans; [apply lt_false; exact E | exact Hle].
    - split.
      + intros q Hq. left. apply A1. exact Hq.
      + intros z [Hz | Hz]; [apply A2; exact Hz |]. destruct (B2 z Hz) as [q [Hq _]]. discriminate.
    - split.
      + intros q Hq. right. apply B1. exact Hq.
      + intros z [Hz | Hz]; [| apply B2; exact Hz]. destruct (A2 z Hz) as [q [Hq _]]. discriminate.
    - split.
      + intros q Hq. discriminate.
      + intros z [Hz | Hz]; [destruct (A2 z Hz) as [q [Hq _]] | destruct (B2 z Hz) as [q [Hq _]]]; discriminate.
  Qed.

  Lemma Low_empty : Low None (fun _ => False).
  Proof. split; [intros q Hq; discriminate | intros x []]. Qed.

  (* four lanes, each summarising its own set *)
  Lemma mm_chunks_low : forall l m0 m1 m2 m3 S0 S1 S2 S3,
      Low m0 S0 -> Low m1 S1 -> Low m2 S2 -> Low m3 S3 ->
      exists n0 n1 n2 n3 T0 T1 T2 T3 rem,
        mm_chunks lt l (m0, m1, m2, m3) = ((n0, n1, n2, n3), rem) /\
        Low n0 T0 /\ Low n1 T1 /\ Low n2 T2 /\ Low n3 T3 /\
        forall x, (T0 x \/ T1 x \/ T2 x \/ T3 x \/ In x rem) <-> (S0 x \/ S1 x \/ S2 x \/ S3 x \/ In x l).
  Proof.
    intros l. induction l using list_ind4; intros m0 m1 m2 m3 S0 S1 S2 S3 H0 H1 H2 H3.
    1-4: (eexists _, _, _, _, S0, S1, S2, S3, _; split; [reflexivity|]; repeat (split; [assumption|]); intros x; reflexivity).
    cbn [mm_chunks].
    destruct (IHl _ _ _ _ _ _ _ _ (Low_vec_step m0 S0 a H0) (Low_vec_step m1 S1 b H1)
                  (Low_vec_step m2 S2 c H2) (Low_vec_step m3 S3 d H3))
      as [n0 [n1 [n2 [n3 [T0 [T1 [T2 [T3 [rem [He [L0 [L1 [L2 [L3 Hx]]]]]]]]]]]]]].
    exists n0, n1, n2, n3, T0, T1, T2, T3, rem. split; [exact He|].
    repeat (split; [assumption|]). intros x. rewrite Hx. cbn [In].
    split; intros H; repeat (destruct H as [H|H]); subst; auto 10.
  Qed.

  Definition Extremal (q : Q) (l : list Q) : Prop := In q l /\ forall x, In x l -> le q x.

  Lemma Low_extremal : forall m l, l <> [] -> Low m (fun x => In x l) -> exists q, m = Some q /\ Extremal q l.
  Proof.
    intros m l Hl [H1 H2]. destruct l as [|x l]; [congruence|].
    destruct (H2 x (or_introl eq_refl)) as [q [Hq _]]. exists q. split; [exact Hq|]. split.
    - apply H1. exact Hq.
    - intros y Hy. destruct (H2 y Hy) as [q' [Hq' Hle]]. rewrite Hq in Hq'. inversion Hq'. subst. exact Hle.
  Qed.

  Lemma mm_scalar_extremal : forall l, l <> [] -> exists q, mm_scalar lt l = Some q /\ Extremal q l.
  Proof.
    intros l Hl. apply Low_extremal; [exact Hl|]. unfold mm_scalar.
    eapply Low_ext; [| apply Low_fold; apply Low_empty]. intros x. cbn. tauto.
  Qed.

  Lemma mm_avx2_extremal : forall l, l <> [] -> exists q, mm_avx2 lt l = Some q /\ Extremal q l.
  Proof.
    intros l Hl. apply Low_extremal; [exact Hl|]. unfold mm_avx2.
    destruct (mm_chunks_low l None None None None _ _ _ _ Low_empty Low_empty Low_empty Low_empty)
      as [n0 [n1 [n2 [n3 [T0 [T1 [T2 [T3 [rem [He [L0 [L1 [L2 [L3 Hx]]]]]]]]]]]]]].
    rewrite He.
    eapply Low_ext; [| apply Low_fold; apply Low_f_comb; [apply Low_f_comb; [apply Low_f_comb |] |]; eassumption].
    intros x. cbn beta. specialize (Hx x). destruct Hx as [Hf Hb]. split.
    - intros H.
      assert (Hd : T0 x \/ T1 x \/ T2 x \/ T3 x \/ In x rem).
      { destruct H as [[[[H|H]|H]|H]|H]; auto 6. }
      apply Hf in Hd. destruct Hd as [[]|[[]|[[]|[[]|Hd]]]]. exact Hd.
    - intros H.
      pose proof (Hb (or_intror (or_intror (or_intror (or_intror H))))) as Hd.
      destruct Hd as [H0|[H0|[H0|[H0|H0]]]]; auto 6.
  Qed.
End Generic.

(* ---------------------------------------------------------------- instances *)
Lemma qltb_true : forall a b, qltb a b = true -> a < b.
Proof.
  intros a b H. unfold qltb in H. apply negb_true_iff in H.
  destruct (Qlt_le_dec a b) as [Hlt | Hle]; [exact Hlt|].
  apply Qle_bool_iff in Hle. congruence.
Qed.
Lemma qltb_false : forall a b, qltb a b = false -> b <= a.
Proof. intros a b H. unfold qltb in H. apply negb_false_iff in H. apply Qle_bool_iff. exact H. Qed.

Definition Qge' (a b : Q) : Prop := b <= a.

Lemma min_extremal : forall (avx : bool) (l : list Q), l <> [] ->
    exists q, (if avx then min_f64_avx2 l else min_f64_scalar l) = Some q /\ In q l /\ forall x, In x l -> q <= x.
Proof.
  intros avx l Hl.
  assert (Ht : forall a b, lt_min a b = true -> a <= b) by (intros a b H; apply Qlt_le_weak, qltb_true; exact H).
  assert (Hf : forall a b, lt_min a b = false -> b <= a) by (intros a b H; apply qltb_false; exact H).
  destruct avx.
  - apply (mm_avx2_extremal lt_min Qle Qle_refl Qle_trans Ht Hf l Hl).
  - apply (mm_scalar_extremal lt_min Qle Qle_refl Qle_trans Ht Hf l Hl).
Qed.

Lemma max_extremal : forall (avx : bool) (l : list Q), l <> [] ->
    exists q, (if avx then max_f64_avx2 l else max_f64_scalar l) = Some q /\ In q l /\ forall x, In x l -> x <= q.
Proof.
  intros avx l Hl.
  assert (Hr : forall a, Qge' a a) by (intros; apply Qle_refl).
  assert (Htr : forall a b c, Qge' a b -> Qge' b c -> Qge' a c) by (unfold Qge'; intros; eapply Qle_trans; eauto).
  assert (Ht : forall a b, lt_max a b = true -> Qge' a b) by (intros a b H; apply Qlt_le_weak, qltb_true; exact H).
  assert (Hf : forall a b, lt_max a b = false -> Qge' b a) by (intros a b H; apply qltb_false; exact H).
  destruct avx.
  - apply (mm_avx2_extremal lt_max Qge' Hr Htr Ht Hf l Hl).
  - apply (mm_scalar_extremal lt_max Qge' Hr Htr Ht Hf l Hl).
Qed.

Lemma min_f64_ok : forall avx l,
    match l with
    | [] => min_f64 avx l = RNull
    | _ => exists q, min_f64 avx l = RNum (XNum q) /\ In q l /\ forall x, In x l -> q <= x
    end.
Proof.
  intros avx l. destruct l as [|x l]; [reflexivity|].
  destruct (min_extremal avx (x :: l) ltac:(discriminate)) as [q [Hq He]].
  exists q. split; [| exact He]. unfold min_f64. rewrite Hq. reflexivity.
Qed.
Lemma max_f64_ok : forall avx l,
    match l with
    | [] => max_f64 avx l = RNull
    | _ => exists q, max_f64 avx l = RNum (XNum q) /\ In q l /\ forall x, In x l -> x <= q
    end.
Proof.
  intros avx l. destruct l as [|x l]; [reflexivity|].
  destruct (max_extremal avx (x :: l) ltac:(discriminate)) as [q [Hq He]].
  exists q. split; [| exact He]. unfold max_f64. rewrite Hq. reflexivity.
Qed.

(* the specification function's list_min / list_max are extremal too *)
Lemma list_min_ok : forall l, match list_min l with
                              | None => l = []
                              | Some m => In m l /\ forall x, In x l -> m <= x
                              end.
Proof.
  induction l as [|x l IH]; cbn [list_min]; [reflexivity|].
  destruct (list_min l) as [m|].
  - destruct IH as [Hin Hle]. destruct (Qle_bool x m) eqn:E.
    + apply Qle_bool_iff in E. split; [left; reflexivity|].
      intros y [<- | Hy]; [apply Qle_refl | eapply Qle_trans; [exact E | apply Hle; exact Hy]].
    + assert (m <= x).
      { destruct (Qlt_le_dec m x) as [H|H]; [apply Qlt_le_weak; exact H|]. apply Qle_bool_iff in H. congruence. }
      split; [right; exact Hin|]. intros y [<- | Hy]; [exact H | apply Hle; exact Hy].
  - subst l. split; [left; reflexivity|]. intros y [<- | []]. apply Qle_refl.
Qed.
Lemma list_max_ok : forall l, match list_max l with
                              | None => l = []
                              | Some m => In m l /\ forall x, In x l -> x <= m
                              end.
Proof.
  induction l as [|x l IH]; cbn [list_max]; [reflexivity|].
  destruct (list_max l) as [m|].
  - destruct IH as [Hin Hle]. destruct (Qle_bool m x) eqn:E.
    + apply Qle_bool_iff in E. split; [left; reflexivity|].
      intros y [<- | Hy]; [apply Qle_refl | eapply Qle_trans; [apply Hle; exact Hy | exact E]].
    + assert (x <= m).
      { destruct (Qlt_le_dec x m) as [H|H]; [apply Qlt_le_weak; exact H|]. apply Qle_bool_iff in H. congruence. }
      split; [right; exact Hin|]. intros y [<- | Hy]; [exact H | apply Hle; exact Hy].
  - subst l. split; [left; reflexivity|]. intros y [<- | []]. apply Qle_refl.
Qed.
