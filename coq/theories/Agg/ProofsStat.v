(* C14 lemmas, part 3: Welford's recurrence computes the sample variance; the EMA recurrence has the closed form. *)
From Coq Require Import QArith Qfield List ZArith NArith Bool Lia.
From VP Require Import Agg.Model Agg.Spec Agg.ProofsSum.
Import ListNotations.
Open Scope Q_scope.

Definition sq (x : Q) : Q := x * x.
Definition S1 (l : list Q) : Q := Qsum l.
Definition S2 (l : list Q) : Q := Qsum (map sq l).

Lemma Qlen_cons : forall x l, Qlen (x :: l) == Qlen l + 1.
Proof.
  intros. unfold Qlen. cbn [length]. rewrite Nat2Z.inj_succ. unfold Z.succ. rewrite inject_Z_plus. reflexivity.
Qed.
Lemma Qlen_app1 : forall l x, Qlen (l ++ [x]) == Qlen l + 1.
Proof.
  intros. unfold Qlen. rewrite app_length. cbn [length]. rewrite Nat2Z.inj_add. rewrite inject_Z_plus. reflexivity.
Qed.
Lemma Qlen_nonzero : forall l, l <> [] -> ~ Qlen l == 0.
Proof. intros l Hl H. pose proof (Qlen_pos l Hl) as Hp. rewrite H in Hp. apply (Qlt_irrefl 0). exact Hp. Qed.
Lemma Qlen_nonneg : forall l, 0 <= Qlen l.
Proof. intros. unfold Qlen, Qle. cbn. lia. Qed.
Lemma Qlen_succ_nonzero : forall l, ~ Qlen l + 1 == 0.
Proof.
  intros l H. pose proof (Qlen_nonneg l) as Hp.
  assert (0 < Qlen l + 1). { apply Qlt_le_trans with (0 + 1); [reflexivity | apply Qplus_le_l; exact Hp]. }
  rewrite H in H0. apply (Qlt_irrefl 0). exact H0.
Qed.

(* sum of squared deviations from an arbitrary centre *)
Lemma sqdev_centre : forall c l,
    Qsum (map (fun x => (x - c) * (x - c)) l) == S2 l - 2 * c * S1 l + Qlen l * (c * c).
Proof.
  intros c. induction l as [|x l IH].
  - unfold S1, S2, Qlen. cbn. ring.
  - cbn [map]. unfold S1, S2 in *. cbn [map]. rewrite !Qsum_cons, IH, Qlen_cons. unfold sq. ring.
Qed.

Lemma sqdev_alt : forall l, l <> [] -> sqdev l == S2 l - S1 l * S1 l / Qlen l.
Proof.
  intros l Hl. unfold sqdev. rewrite sqdev_centre. unfold mean. fold (S1 l).
  pose proof (Qlen_nonzero l Hl). field. exact H.
Qed.

(* ---------------------------------------------------------------- Welford over Q *)
Definition wstepQ (st : Z * Q * Q) (x : Q) : Z * Q * Q :=
  let '(count, mean, m2) := st in
  let count' := (count + 1)%Z in
  let delta := qsub x mean in
  let mean' := qadd mean (qdiv delta (qofZ count')) in
  let delta2 := qsub x mean' in
  (count', mean', qadd m2 (qmul delta delta2)).

Definition lift_st (st : Z * Q * Q) : Z * xq * xq := let '(c, a, b) := st in (c, XNum a, XNum b).

Lemma welford_step_num : forall st x, welford_step (lift_st st) (XNum x) = lift_st (wstepQ st x).
Proof. intros [[c a] b] x. reflexivity. Qed.

Lemma welford_fold_num : forall qs st,
    fold_left welford_step (map XNum qs) (lift_st st) = lift_st (fold_left wstepQ qs st).
Proof.
  induction qs as [|x qs IH]; intros st; cbn [map fold_left]; [reflexivity|].
  rewrite welford_step_num. apply IH.
Qed.

Definition WInv (st : Z * Q * Q) (xs : list Q) : Prop :=
  let '(c, mean, m2) := st in
  c = Z.of_nat (length xs) /\
  (xs = [] -> mean == 0 /\ m2 == 0) /\
  (xs <> [] -> mean == S1 xs / Qlen xs /\ m2 == S2 xs - S1 xs * S1 xs / Qlen xs).

Lemma S1_app1 : forall l x, S1 (l ++ [x]) == S1 l + x.
Proof. intros. unfold S1. rewrite Qsum_app, Qsum_cons, Qsum_nil. ring. Qed.
Lemma S2_app1 : forall l x, S2 (l ++ [x]) == S2 l + x * x.
Proof. intros. unfold S2. rewrite map_app, Qsum_app. cbn [map]. rewrite Qsum_cons, Qsum_nil. unfold sq. ring. Qed.

Lemma welford_algebra_mean : forall a n x mean,
    ~ n == 0 -> ~ n + 1 == 0 -> mean == a / n ->
    mean + (x - mean) / (n + 1) == (a + x) / (n + 1).
Proof. intros a n x mean Hn Hn1 Hm. rewrite Hm. field. split; assumption. Qed.

Lemma welford_algebra_m2 : forall a b n x mean m2,
    ~ n == 0 -> ~ n + 1 == 0 -> mean == a / n -> m2 == b - a * a / n ->
    m2 + (x - mean) * (x - (mean + (x - mean) / (n + 1))) == (b + x * x) - (a + x) * (a + x) / (n + 1).
Proof. intros a b n x mean m2 Hn Hn1 Hm H2. rewrite Hm, H2. field. split; assumption. Qed.

Lemma WInv_step : forall st xs x, WInv st xs -> WInv (wstepQ st x) (xs ++ [x]).
Proof.
  intros [[c mean] m2] xs x [Hc [Hnil Hne]]. unfold wstepQ. cbn beta iota.
  split; [| split].
  - rewrite app_length. cbn [length]. lia.
  - intros H. destruct xs; discriminate.
  - intros _.
    assert (Hcq : qofZ (c + 1) == Qlen xs + 1).
    { unfold qofZ, Qlen. rewrite Hc, inject_Z_plus. reflexivity. }
    repeat (rewrite ?qadd_ok, ?qsub_ok, ?qmul_ok, ?qdiv_ok). rewrite Hcq.
    rewrite S1_app1, S2_app1, Qlen_app1.
    destruct xs as [|y ys].
    + destruct (Hnil eq_refl) as [Hm H2]. rewrite Hm, H2. unfold S1, S2, Qlen. cbn. split; field.
    + assert (Hxs : y :: ys <> []) by discriminate.
      destruct (Hne Hxs) as [Hm H2].
      pose proof (Qlen_nonzero _ Hxs) as Hn. pose proof (Qlen_succ_nonzero (y :: ys)) as Hn1.
      split.
      * apply welford_algebra_mean; assumption.
      * apply welford_algebra_m2; assumption.
Qed.

Lemma WInv_fold : forall xs pre st, WInv st pre -> WInv (fold_left wstepQ xs st) (pre ++ xs).
Proof.
  induction xs as [|x xs IH]; intros pre st H; cbn [fold_left].
  - rewrite app_nil_r. exact H.
  - replace (pre ++ x :: xs) with ((pre ++ [x]) ++ xs) by (rewrite <- app_assoc; reflexivity).
    apply IH. apply WInv_step. exact H.
Qed.

Lemma WInv_init : WInv (0%Z, 0, 0) [].
Proof. split; [reflexivity | split; [intros _; split; reflexivity | intros H; congruence]]. Qed.

Lemma inject_Z_minus1 : forall z, inject_Z (z - 1) == inject_Z z - 1.
Proof. intros. unfold Z.sub. rewrite inject_Z_plus. reflexivity. Qed.

(* StdDev on NaN-free input *)
Lemma stddev_of_num : forall qs,
    res_eq (stddev_of (map XNum qs))
           (if (length qs <? 2)%nat then RNull else RSqrt (variance qs)).
Proof.
  intros qs. unfold stddev_of.
  change (0%Z, XNum 0, XNum 0) with (lift_st (0%Z, 0, 0)). rewrite welford_fold_num.
  pose proof (WInv_fold qs [] _ WInv_init) as H. cbn [app] in H.
  destruct (fold_left wstepQ qs (0%Z, 0, 0)) as [[c mean] m2]. cbn [lift_st].
  destruct H as [Hc [_ Hne]]. subst c.
  destruct (length qs <? 2)%nat eqn:E.
  - apply Nat.ltb_lt in E. replace (Z.of_nat (length qs) <? 2)%Z with true by (symmetry; apply Z.ltb_lt; lia). exact I.
  - apply Nat.ltb_ge in E. replace (Z.of_nat (length qs) <? 2)%Z with false by (symmetry; apply Z.ltb_ge; lia).
    cbn [xdiv xlift2 res_eq].
    assert (Hq : qs <> []) by (destruct qs; [cbn in E; lia | discriminate]).
    destruct (Hne Hq) as [_ H2].
    rewrite qdiv_ok, H2. unfold variance. rewrite (sqdev_alt qs Hq). unfold qofZ, Qlen.
    rewrite inject_Z_minus1. reflexivity.
Qed.

(* NaN anywhere poisons mean and m2 *)
Lemma welford_nan_state : forall xs c, fold_left welford_step xs (c, XNaN, XNaN) = ((c + Z.of_nat (length xs))%Z, XNaN, XNaN).
Proof.
  induction xs as [|x xs IH]; intros c; cbn [fold_left length].
  - f_equal. f_equal. lia.
  - replace (welford_step (c, XNaN, XNaN) x) with ((c + 1)%Z, XNaN, XNaN) by (destruct x; reflexivity).
    rewrite IH. f_equal. f_equal. lia.
Qed.
Lemma welford_nan_step : forall c mean m2, welford_step (c, mean, m2) XNaN = ((c + 1)%Z, XNaN, XNaN).
Proof. intros c [a|] [b|]; reflexivity. Qed.
Lemma welford_count : forall xs c mean m2, fst (fst (fold_left welford_step xs (c, mean, m2))) = (c + Z.of_nat (length xs))%Z.
Proof.
  induction xs as [|x xs IH]; intros c mean m2; cbn [fold_left length].
  - cbn. lia.
  - unfold welford_step at 2. cbn beta iota. rewrite IH. lia.
Qed.

Lemma has_nan_split : forall xs, has_nan xs = true -> exists pre post, xs = pre ++ XNaN :: post.
Proof.
  induction xs as [|x xs IH]; cbn; [discriminate|].
  destruct x as [q|]; cbn.
  - intros H. destruct (IH H) as [pre [post ->]]. exists (XNum q :: pre), post. reflexivity.
  - intros _. exists [], xs. reflexivity.
Qed.
Lemma no_nan_map : forall xs, has_nan xs = false -> xs = map XNum (non_nan xs).
Proof.
  induction xs as [|x xs IH]; cbn; [reflexivity|].
  destruct x as [q|]; cbn; [| discriminate]. intros H. rewrite <- IH by exact H. reflexivity.
Qed.

Lemma stddev_of_nan : forall xs, has_nan xs = true ->
    stddev_of xs = if (length xs <? 2)%nat then RNull else RNum XNaN.
Proof.
  intros xs H. destruct (has_nan_split xs H) as [pre [post ->]]. unfold stddev_of.
  rewrite fold_left_app. cbn [fold_left].
  destruct (fold_left welford_step pre (0%Z, XNum 0, XNum 0)) as [[c mean] m2] eqn:Epre.
  pose proof (welford_count pre 0%Z (XNum 0) (XNum 0)) as Hc. rewrite Epre in Hc. cbn [fst] in Hc.
  rewrite welford_nan_step, welford_nan_state. rewrite app_length. cbn [length].
  destruct (length pre + S (length post) <? 2)%nat eqn:E.
  - apply Nat.ltb_lt in E. replace (c + 1 + Z.of_nat (length post) <? 2)%Z with true by (symmetry; apply Z.ltb_lt; lia). reflexivity.
  - apply Nat.ltb_ge in E. replace (c + 1 + Z.of_nat (length post) <? 2)%Z with false by (symmetry; apply Z.ltb_ge; lia). reflexivity.
Qed.

Lemma non_nan_length_no_nan : forall xs, has_nan xs = false -> length (non_nan xs) = length xs.
Proof. intros xs H. rewrite (no_nan_map xs H) at 2. rewrite map_length. reflexivity. Qed.

Lemma stddev_of_ok : forall xs,
    res_eq (stddev_of xs)
           (if (length xs <? 2)%nat then RNull
            else if has_nan xs then RNum XNaN else RSqrt (variance (non_nan xs))).
Proof.
  intros xs. destruct (has_nan xs) eqn:E.
  - rewrite (stddev_of_nan xs E). destruct (length xs <? 2)%nat; cbn; exact I.
  - rewrite (no_nan_map xs E) at 1. rewrite <- (non_nan_length_no_nan xs E). apply stddev_of_num.
Qed.

(* ---------------------------------------------------------------- EMA *)
Lemma dot_cons : forall a w b v, dot (a :: w) (b :: v) = a * b + dot w v.
Proof. reflexivity. Qed.
Lemma dot_nil_l : forall v, dot [] v = 0.
Proof. reflexivity. Qed.
Lemma dot_nil_r : forall w, dot w [] = 0.
Proof. destruct w; reflexivity. Qed.
Lemma dot_scale : forall c w v, dot (map (Qmult c) w) v == c * dot w v.
Proof.
  intros c. induction w as [|a w IH]; intros v.
  - cbn [map]. rewrite !dot_nil_l. ring.
  - destruct v as [|b v]; cbn [map].
    + rewrite !dot_nil_r. ring.
    + rewrite !dot_cons, IH. ring.
Qed.

Definition estepQ (k : Q) (e : option Q) (x : Q) : option Q :=
  Some (match e with Some prev => qadd (qmul x k) (qmul prev (qsub 1 k)) | None => x end).
Definition lift_o (e : option Q) : option xq := option_map XNum e.

Lemma ema_step_num : forall k e x, ema_step k (lift_o e) (XNum x) = lift_o (estepQ k e x).
Proof. intros k [p|] x; reflexivity. Qed.
Lemma ema_fold_num : forall k qs e, fold_left (ema_step k) (map XNum qs) (lift_o e) = lift_o (fold_left (estepQ k) qs e).
Proof.
  induction qs as [|x qs IH]; intros e; cbn [map fold_left]; [reflexivity|].
  rewrite ema_step_num. apply IH.
Qed.

Definition EInv (k' : Q) (e : option Q) (xs : list Q) : Prop :=
  match xs with
  | [] => e = None
  | _ => exists v, e = Some v /\ v == ema_closed k' xs
  end.

Lemma ema_closed_snoc : forall k xs x, xs <> [] ->
    ema_closed k (xs ++ [x]) == k * x + (1 - k) * ema_closed k xs.
Proof.
  intros k xs x Hxs. unfold ema_closed. rewrite rev_app_distr, app_length. cbn [rev app length].
  rewrite Nat.add_1_r.
  destruct (length xs) as [|m] eqn:El; [destruct xs; [congruence | discriminate]|].
  cbn [ema_weights]. rewrite dot_cons, dot_scale. reflexivity.
Qed.
Lemma ema_closed_single : forall k x, ema_closed k [x] == x.
Proof. intros. unfold ema_closed. cbn. ring. Qed.

Lemma EInv_step : forall k k' e xs x, k == k' -> EInv k' e xs -> EInv k' (estepQ k e x) (xs ++ [x]).
Proof.
  intros k k' e xs x Hk H. unfold EInv in *.
  destruct xs as [|y ys].
  - subst e. cbn [app estepQ]. exists x. split; [reflexivity|]. symmetry. apply ema_closed_single.
  - destruct H as [v [-> Hv]]. cbn [app].
    change (y :: ys ++ [x]) with ((y :: ys) ++ [x]).
    destruct ((y :: ys) ++ [x]) eqn:E; [destruct ys; discriminate|]. rewrite <- E.
    eexists. split; [reflexivity|].
    rewrite ema_closed_snoc by discriminate.
    rewrite qadd_ok, !qmul_ok, qsub_ok, Hv, Hk. ring.
Qed.

Lemma EInv_fold : forall k k' xs pre e, k == k' -> EInv k' e pre -> EInv k' (fold_left (estepQ k) xs e) (pre ++ xs).
Proof.
  intros k k'. induction xs as [|x xs IH]; intros pre e Hk H; cbn [fold_left].
  - rewrite app_nil_r. exact H.
  - replace (pre ++ x :: xs) with ((pre ++ [x]) ++ xs) by (rewrite <- app_assoc; reflexivity).
    apply IH; [exact Hk|]. apply EInv_step; assumption.
Qed.

Lemma ema_k_ok : forall p, ema_k p == 2 / (inject_Z p + 1).
Proof. intros. unfold ema_k. rewrite qdiv_ok, qadd_ok. reflexivity. Qed.

Lemma ema_of_num : forall p qs,
    res_eq (ema_of p (map XNum qs))
           (match qs with [] => RNull | _ => RNum (XNum (ema_closed (2 / (inject_Z p + 1)) qs)) end).
Proof.
  intros p qs. unfold ema_of. change (@None xq) with (lift_o None). rewrite ema_fold_num.
  pose proof (EInv_fold (ema_k p) (2 / (inject_Z p + 1)) qs [] None (ema_k_ok p) eq_refl) as H. cbn [app] in H.
  unfold EInv in H. destruct qs as [|x qs].
  - rewrite H. exact I.
  - destruct H as [v [-> Hv]]. cbn [lift_o option_map res_eq xq_eq]. exact Hv.
Qed.

Lemma ema_nan_state : forall k xs, fold_left (ema_step k) xs (Some XNaN) = Some XNaN.
Proof.
  induction xs as [|x xs IH]; cbn [fold_left]; [reflexivity|].
  replace (ema_step k (Some XNaN) x) with (Some XNaN) by (destruct x; reflexivity). exact IH.
Qed.
Lemma ema_nan_step : forall k e, ema_step k e XNaN = Some XNaN.
Proof. intros k [[q|]|]; reflexivity. Qed.

Lemma ema_of_nan : forall p xs, has_nan xs = true -> ema_of p xs = RNum XNaN.
Proof.
  intros p xs H. destruct (has_nan_split xs H) as [pre [post ->]]. unfold ema_of.
  rewrite fold_left_app. cbn [fold_left]. rewrite ema_nan_step, ema_nan_state. reflexivity.
Qed.

Lemma ema_of_ok : forall p xs,
    res_eq (ema_of p xs)
           (match xs with
            | [] => RNull
            | _ => if has_nan xs then RNum XNaN else RNum (XNum (ema_closed (2 / (inject_Z p + 1)) (non_nan xs)))
            end).
Proof.
  intros p xs. destruct (has_nan xs) eqn:E.
  - rewrite (ema_of_nan p xs E). destruct xs; [discriminate | exact I].
  - rewrite (no_nan_map xs E) at 1.
    pose proof (ema_of_num p (non_nan xs)) as H.
    destruct xs as [|x xs]; [exact H|].
    destruct x as [q|]; [| discriminate]. exact H.
Qed.

(* the dot-product form is the explicit weighted sum *)
Lemma ema_terms_dot : forall k r i, r <> [] ->
    ema_terms k i r == qpow (1 - k) i * dot (ema_weights k (length r)) r.
Proof.
  intros k. induction r as [|x r IH]; intros i Hr; [congruence|].
  destruct r as [|y r'].
  - cbn [ema_terms length ema_weights]. rewrite dot_cons, dot_nil_l. ring.
  - change (ema_terms k i (x :: y :: r')) with (k * qpow (1 - k) i * x + ema_terms k (S i) (y :: r')).
    rewrite (IH (S i)) by discriminate.
    change (length (x :: y :: r')) with (S (length (y :: r'))).
    change (ema_weights k (S (length (y :: r')))) with (k :: map (Qmult (1 - k)) (ema_weights k (length (y :: r')))).
    rewrite dot_cons, dot_scale. cbn [qpow]. ring.
Qed.

Lemma ema_closed_explicit : forall k xs, ema_closed k xs == ema_explicit k xs.
Proof.
  intros k xs. unfold ema_closed, ema_explicit.
  destruct (rev xs) as [|x r] eqn:E.
  - destruct xs as [|y ys]; [reflexivity|]. apply (f_equal (@length Q)) in E. rewrite rev_length in E. discriminate.
  - rewrite (ema_terms_dot k (x :: r) 0) by discriminate.
    rewrite <- E, rev_length. cbn [qpow]. ring.
Qed.
