(* Interpreter + rendering for the C14 correspondence check: one string per case. *)
From Coq Require Import QArith List ZArith NArith Bool String.
From VP Require Import Base.Render Agg.Model Agg.Spec.
Import ListNotations.
Open Scope string_scope.

Definition str_of_Q (q : Q) : string :=
  let r := Qred q in str_of_Z (Qnum r) ++ "/" ++ str_of_N (Npos (Qden r)).
Definition str_of_xq (x : xq) : string :=
  match x with XNum q => "Q" ++ str_of_Q q | XNaN => "NaN" end.
Definition str_of_res (r : res) : string :=
  match r with
  | RNull => "N"
  | RInt z => "I" ++ str_of_Z z
  | RNum x => str_of_xq x
  | RSqrt q => "S" ++ str_of_Q q
  | ROther id => "O" ++ str_of_N id
  | RInf => "INF"
  | RUnmodelled => "U"
  end.

(* per aggregate: <model value on the requested path>|<spec> ; aggregates separated by ';'.
   The three model paths are provably equal (C14_paths_agree), so each aggregate is evaluated on ONE path, chosen by
   the driver in rotation; the implementation's three paths are all compared against that value.
   The specification function computes with unreduced rationals (it is the plain mathematical definition), which is
   slow on long batches: it is printed only when [with_spec] (the driver asks for it on short batches), "-" otherwise. *)
Definition agg_case (avx with_spec : bool) (evs : list event) (aggs : list (agg * option N * path)) : string :=
  join ";" (map (fun afp : agg * option N * path => let '(a, f, p) := afp in
                   str_of_res (apply avx p a evs f) ++ "|" ++
                   (if with_spec then str_of_res (spec1 a evs (fld f)) else "-")) aggs).
