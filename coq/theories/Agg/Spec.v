(* Mathematical definitions the aggregates are compared against (right-hand sides of the C14 theorems).
   Nothing here mentions lanes, chunks, paths or Welford's recurrence. *)
From Coq Require Import QArith List ZArith NArith Bool.
From VP Require Import Agg.Model.
Import ListNotations.
Open Scope Q_scope.

(* numeric reading of a value: Int => its integer, Float => its dyadic value, NaN => NaN, anything else => none *)
Definition num_of (v : fval) : option xq :=
  match v with
  | VInt z => Some (XNum (inject_Z z))
  | VFloat q => Some (XNum q)
  | VNaN => Some XNaN
  | _ => None
  end.

(* the numeric values of field [f] in window order (missing and non-numeric fields skipped, NaN kept) *)
Definition nums (evs : list event) (f : N) : list xq :=
  flat_map (fun e => match lookup f e with
                     | Some v => match num_of v with Some x => [x] | None => [] end
                     | None => [] end) evs.
(* ... and the non-NaN ones *)
Definition vals (evs : list event) (f : N) : list Q := non_nan (nums evs f).
Definition has_nan (l : list xq) : bool := existsb (fun x => match x with XNaN => true | _ => false end) l.

Definition Qsum (l : list Q) : Q := fold_right Qplus 0 l.
Definition Qlen (l : list Q) : Q := inject_Z (Z.of_nat (length l)).
Definition mean (l : list Q) : Q := Qsum l / Qlen l.
(* sum of squared deviations from the mean *)
Definition sqdev (l : list Q) : Q := Qsum (map (fun x => (x - mean l) * (x - mean l)) l).
(* sample variance *)
Definition variance (l : list Q) : Q := sqdev l / (Qlen l - 1).

(* closed form of the exponential moving average of x1..xn (oldest first) with smoothing k:
     ema = sum_{i=0}^{n-2} k (1-k)^i x_{n-i}  +  (1-k)^(n-1) x_1
   i.e. the i-th newest value has weight k (1-k)^i, the oldest one (which seeds the recurrence) (1-k)^(n-1). *)
Fixpoint qpow (a : Q) (n : nat) : Q := match n with O => 1 | S m => a * qpow a m end.
Fixpoint ema_terms (k : Q) (i : nat) (newest_first : list Q) : Q :=
  match newest_first with
  | [] => 0
  | [x1] => qpow (1 - k) i * x1
  | x :: older => k * qpow (1 - k) i * x + ema_terms k (S i) older
  end.
Definition ema_explicit (k : Q) (xs : list Q) : Q := ema_terms k 0 (rev xs).

(* the same as a dot product with a weight vector (convenient for the induction) *)
Fixpoint ema_weights (k : Q) (n : nat) : list Q :=     (* weights for n values, newest first *)
  match n with
  | O => []
  | S O => [1]
  | S m => k :: map (Qmult (1 - k)) (ema_weights k m)
  end.
Definition dot (a b : list Q) : Q := Qsum (map (fun p => fst p * snd p) (combine a b)).
Definition ema_closed (k : Q) (xs : list Q) : Q := dot (ema_weights k (length xs)) (rev xs).

(* equality of results up to equality of rationals *)
Definition xq_eq (a b : xq) : Prop :=
  match a, b with XNum x, XNum y => x == y | XNaN, XNaN => True | _, _ => False end.
Definition res_eq (a b : res) : Prop :=
  match a, b with
  | RNull, RNull => True
  | RInt x, RInt y => x = y
  | RNum x, RNum y => xq_eq x y
  | RSqrt x, RSqrt y => x == y
  | ROther i, ROther j => i = j
  | RInf, RInf => True
  | RUnmodelled, RUnmodelled => True
  | _, _ => False
  end.

(* number of distinct values: any duplicate-free list with the same members has this length *)
Definition feq (a b : fval) : Prop := feqb a b = true.
Definition present (evs : list event) (f : N) : list fval :=
  flat_map (fun e => match lookup f e with Some v => [v] | None => [] end) evs.

(* ---- the specification function (used by Run.v to print the expected value next to the model's) *)
Fixpoint list_min (l : list Q) : option Q :=
  match l with
  | [] => None
  | x :: r => match list_min r with None => Some x | Some m => Some (if Qle_bool x m then x else m) end
  end.
Fixpoint list_max (l : list Q) : option Q :=
  match l with
  | [] => None
  | x :: r => match list_max r with None => Some x | Some m => Some (if Qle_bool m x then x else m) end
  end.
Fixpoint dedup (l : list fval) : list fval :=
  match l with
  | [] => []
  | x :: r => if existsb (feqb x) r then dedup r else x :: dedup r
  end.

Definition spec1 (a : agg) (evs : list event) (f : N) : res :=
  match a with
  | ACount => RInt (Z.of_nat (length evs))
  | ASum => RNum (XNum (Qsum (vals evs f)))
  | AAvg => match vals evs f with [] => RNull | v => RNum (XNum (mean v)) end
  | AMin => match list_min (vals evs f) with None => RNull | Some m => RNum (XNum m) end
  | AMax => match list_max (vals evs f) with None => RNull | Some m => RNum (XNum m) end
  | AStdDev => let xs := nums evs f in
               if (length xs <? 2)%nat then RNull
               else if has_nan xs then RNum XNaN else RSqrt (variance (non_nan xs))
  | AFirst => first_of evs f
  | ALast => last_of evs f
  | ACountDistinct => RInt (Z.of_nat (length (dedup (present evs f))))
  | AEma p => let xs := nums evs f in
              match xs with
              | [] => RNull
              | _ => if has_nan xs then RNum XNaN else RNum (XNum (ema_closed (2 / (inject_Z p + 1)) (non_nan xs)))
              end
  | AExpr _ _ _ _ _ => RUnmodelled
  end.
