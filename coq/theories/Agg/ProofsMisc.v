(* C14 lemmas, part 4: CountDistinct, path agreement, the summary against the specification function. *)
From Coq Require Import QArith List ZArith NArith Bool Lia SetoidList SetoidPermutation.
From VP Require Import Agg.Model Agg.Spec Agg.ProofsSum Agg.ProofsMinMax Agg.ProofsStat.
Import ListNotations.
Open Scope Q_scope.

(* ---------------------------------------------------------------- feq is an equivalence *)
Lemma feq_refl : forall a, feq a a.
Proof.
  intros [| i | z | q |]; unfold feq; cbn; auto using N.eqb_refl, Z.eqb_refl.
  apply Qeq_bool_iff. reflexivity.
Qed.
Lemma feq_sym : forall a b, feq a b -> feq b a.
Proof.
  intros [| i | z | q |] [| j | y | r |]; unfold feq; cbn; intros H; try discriminate; auto.
  - rewrite N.eqb_sym. exact H.
  - rewrite Z.eqb_sym. exact H.
  - apply Qeq_bool_iff. symmetry. apply Qeq_bool_iff. exact H.
Qed.
Lemma feq_trans : forall a b c, feq a b -> feq b c -> feq a c.
Proof.
  intros [| i | z | q |] [| j | y | r |] [| k | x | s |]; unfold feq; cbn; intros H1 H2; try discriminate; auto.
  - apply N.eqb_eq in H1, H2. subst. apply N.eqb_refl.
  - apply Z.eqb_eq in H1, H2. subst. apply Z.eqb_refl.
  - apply Qeq_bool_iff. apply Qeq_bool_iff in H1, H2. rewrite H1. exact H2.
Qed.
Global Instance feq_equiv : Equivalence feq.
Proof. split; [exact feq_refl | exact feq_sym | exact feq_trans]. Qed.

Lemma existsb_feqb_InA : forall v l, existsb (feqb v) l = true <-> InA feq v l.
Proof.
  intros v l. rewrite existsb_exists, InA_alt. unfold feq. split; intros [y [H1 H2]]; exists y; tauto.
Qed.

(* the seen-set of count_distinct: duplicate-free, same members as the values inserted *)
Lemma seen_insert_nodup : forall seen v, NoDupA feq seen -> NoDupA feq (seen_insert seen v).
Proof.
  intros seen v H. unfold seen_insert. destruct (existsb (feqb v) seen) eqn:E; [exact H|].
  assert (Hn : ~ InA feq v seen) by (intros Hc; apply existsb_feqb_InA in Hc; congruence).
  clear E. induction H as [|x l Hx Hl IH]; cbn [app].
  - constructor; [intros Hc; inversion Hc | constructor].
  - constructor.
    + intros Hc. apply InA_app in Hc. destruct Hc as [Hc | Hc]; [contradiction|].
      inversion Hc as [? ? Hxv | ? ? Hf]; subst; [| inversion Hf].
      apply Hn. left. symmetry. exact Hxv.
    + apply IH. intros Hc. apply Hn. right. exact Hc.
Qed.
Lemma seen_insert_in : forall seen v x, InA feq x (seen_insert seen v) <-> InA feq x seen \/ feq x v.
Proof.
  intros seen v x. unfold seen_insert. destruct (existsb (feqb v) seen) eqn:E.
  - apply existsb_feqb_InA in E. split; [auto|]. intros [H | H]; [exact H|].
    rewrite H. exact E.
  - rewrite InA_app_iff. split.
    + intros [H | H]; [left; exact H | right]. inversion H as [? ? Hx | ? ? Hf]; subst; [exact Hx | inversion Hf].
    + intros [H | H]; [left; exact H | right; left; exact H].
Qed.

Definition seen_fold (evs : list event) (f : N) (seen : list fval) : list fval :=
  fold_left (fun seen e => match lookup f e with Some v => seen_insert seen v | None => seen end) evs seen.

Lemma seen_fold_spec : forall evs f seen,
    NoDupA feq seen ->
    NoDupA feq (seen_fold evs f seen) /\
    forall x, InA feq x (seen_fold evs f seen) <-> InA feq x seen \/ InA feq x (present evs f).
Proof.
  induction evs as [|e evs IH]; intros f seen H; unfold seen_fold; cbn [fold_left present flat_map].
  - split; [exact H|]. intros x. split; [auto | intros [?|Hc]; [assumption | inversion Hc]].
  - fold (present evs f).
    destruct (lookup f e) as [v|].
    + destruct (IH f (seen_insert seen v) (seen_insert_nodup seen v H)) as [Hn Hi]. split; [exact Hn|].
      intros x. unfold seen_fold in Hi. rewrite Hi, seen_insert_in. cbn [app]. rewrite InA_cons. tauto.
    + cbn [app]. apply IH. exact H.
Qed.

Lemma PermutationA_len : forall (l1 l2 : list fval), PermutationA feq l1 l2 -> length l1 = length l2.
Proof. induction 1; cbn [length]; congruence. Qed.

(* any duplicate-free list of representatives has as many elements as count_distinct reports *)
Lemma count_distinct_ok : forall evs f reps,
    NoDupA feq reps ->
    (forall v, InA feq v reps <-> InA feq v (present evs f)) ->
    count_distinct_of evs f = RInt (Z.of_nat (length reps)).
Proof.
  intros evs f reps Hn Hm. unfold count_distinct_of. f_equal. f_equal.
  destruct (seen_fold_spec evs f [] (NoDupA_nil feq)) as [Hs Hi].
  change (fold_left _ evs []) with (seen_fold evs f []).
  apply PermutationA_len.
  apply NoDupA_equivlistA_PermutationA; [exact feq_equiv | exact Hs | exact Hn |].
  intros x. rewrite Hi, Hm. split; [intros [Hc|?]; [inversion Hc | assumption] | auto].
Qed.

(* dedup (used by the specification function) produces such a list of representatives *)
Lemma dedup_spec : forall l, NoDupA feq (dedup l) /\ forall v, InA feq v (dedup l) <-> InA feq v l.
Proof.
  induction l as [|x l [IHn IHi]]; cbn [dedup].
  - split; [constructor | intros; reflexivity].
  - destruct (existsb (feqb x) l) eqn:E.
    + split; [exact IHn|]. intros v. rewrite IHi, InA_cons. split; [auto|].
      intros [H | H]; [| exact H]. apply existsb_feqb_InA in E. rewrite H. exact E.
    + split.
      * constructor; [| exact IHn]. intros Hc. apply IHi in Hc. apply existsb_feqb_InA in Hc. congruence.
      * intros v. rewrite !InA_cons, IHi. reflexivity.
Qed.

(* ---------------------------------------------------------------- the three paths agree (syntactically) *)
Lemma paths_row_refs : forall avx a evs f, apply_row avx a evs f = apply_refs avx a evs f.
Proof.
  intros avx a. induction a; intros evs f; cbn [apply_row apply_refs]; try reflexivity.
  - rewrite row_values, refs_values. reflexivity.
  - rewrite row_values, refs_values. reflexivity.
  - rewrite filtered_values, refs_values. reflexivity.
  - rewrite filtered_values, refs_values. reflexivity.
  - rewrite IHa1, IHa2. reflexivity.
Qed.
Lemma paths_refs_col : forall avx a evs f, apply_refs avx a evs f = apply_columnar avx a evs f.
Proof.
  intros avx a evs f. destruct a; cbn [apply_refs apply_columnar]; try reflexivity;
    unfold ensure_float_column; rewrite row_values, refs_values; reflexivity.
Qed.

(* ---------------------------------------------------------------- each function on the refs path vs the definitions *)
Lemma res_eq_refl : forall r, res_eq r r.
Proof. intros [| z | [q|] | q | i | |]; cbn; auto; reflexivity. Qed.

Lemma minimal_unique : forall l a b,
    In a l -> (forall x, In x l -> a <= x) -> In b l -> (forall x, In x l -> b <= x) -> a == b.
Proof. intros l a b Ha Hal Hb Hbl. apply Qle_antisym; auto. Qed.
Lemma maximal_unique : forall l a b,
    In a l -> (forall x, In x l -> x <= a) -> In b l -> (forall x, In x l -> x <= b) -> a == b.
Proof. intros l a b Ha Hal Hb Hbl. apply Qle_antisym; auto. Qed.

Lemma nums_length_ltb : forall evs f, length (filter_map_float evs f) = length (nums evs f).
Proof. intros. rewrite filter_map_float_nums. reflexivity. Qed.

Theorem refs_meets_spec : forall avx a evs f,
    match a with AExpr _ _ _ _ _ => True | _ => res_eq (apply_refs avx a evs f) (spec1 a evs (fld f)) end.
Proof.
  intros avx a evs f. destruct a; cbn [apply_refs spec1]; try apply res_eq_refl; try exact I.
  - (* sum *) rewrite refs_values. cbn. apply sum_f64_ok.
  - (* avg *) rewrite refs_values. pose proof (avg_of_ok avx (vals evs (fld f))) as H.
    destruct (vals evs (fld f)); exact H.
  - (* min *) rewrite refs_values.
    pose proof (min_f64_ok avx (vals evs (fld f))) as H. pose proof (list_min_ok (vals evs (fld f))) as Hs.
    destruct (vals evs (fld f)) as [|x l] eqn:E.
    + rewrite H. cbn. exact I.
    + destruct H as [q [-> [Hin Hle]]]. destruct (list_min (x :: l)) as [m|]; [| discriminate].
      destruct Hs as [Hm Hml]. cbn. apply (minimal_unique (x :: l)); assumption.
  - (* max *) rewrite refs_values.
    pose proof (max_f64_ok avx (vals evs (fld f))) as H. pose proof (list_max_ok (vals evs (fld f))) as Hs.
    destruct (vals evs (fld f)) as [|x l] eqn:E.
    + rewrite H. cbn. exact I.
    + destruct H as [q [-> [Hin Hle]]]. destruct (list_max (x :: l)) as [m|]; [| discriminate].
      destruct Hs as [Hm Hml]. cbn. apply (maximal_unique (x :: l)); assumption.
  - (* stddev *) rewrite filter_map_float_nums. apply stddev_of_ok.
  - (* count_distinct *)
    destruct (dedup_spec (present evs (fld f))) as [Hn Hi].
    rewrite (count_distinct_ok evs (fld f) (dedup (present evs (fld f))) Hn Hi). cbn. reflexivity.
  - (* ema *) rewrite filter_map_float_nums. apply ema_of_ok.
Qed.

(* ---------------------------------------------------------------- res_eq is an equivalence; ExprAggregate respects it *)
Lemma xq_eq_sym : forall a b, xq_eq a b -> xq_eq b a.
Proof. intros [x|] [y|]; cbn; auto. intros H. symmetry. exact H. Qed.
Lemma xq_eq_trans : forall a b c, xq_eq a b -> xq_eq b c -> xq_eq a c.
Proof. intros [x|] [y|] [z|]; cbn; auto; try tauto. intros H1 H2. rewrite H1. exact H2. Qed.
Lemma res_eq_sym : forall a b, res_eq a b -> res_eq b a.
Proof.
  intros [| x | x | x | i | |] [| y | y | y | j | |]; cbn; auto.
  - apply xq_eq_sym.
  - intros H. symmetry. exact H.
Qed.
Lemma res_eq_trans : forall a b c, res_eq a b -> res_eq b c -> res_eq a c.
Proof.
  intros [| x | x | x | i | |] [| y | y | y | j | |] [| z | z | z | k | |]; cbn; auto; try tauto; try congruence.
  - apply xq_eq_trans.
  - intros H1 H2. rewrite H1. exact H2.
Qed.

Lemma xlift2_proper : forall (g : Q -> Q -> Q), Proper (Qeq ==> Qeq ==> Qeq) g ->
    forall a a' b b', xq_eq a a' -> xq_eq b b' -> xq_eq (xlift2 g a b) (xlift2 g a' b').
Proof.
  intros g Hg [x|] [x'|] [y|] [y'|]; cbn; auto; try tauto. intros H1 H2. apply Hg; assumption.
Qed.

Lemma float_op_proper : forall op a a' b b', xq_eq a a' -> xq_eq b b' -> xq_eq (float_op op a b) (float_op op a' b').
Proof.
  intros op a a' b b' Ha Hb. destruct op; cbn [float_op].
  - apply xlift2_proper; [exact qadd_proper | exact Ha | exact Hb].
  - apply xlift2_proper; [exact qsub_proper | exact Ha | exact Hb].
  - apply xlift2_proper; [exact qmul_proper | exact Ha | exact Hb].
  - destruct b as [q|], b' as [q'|]; cbn in Hb; try tauto.
    assert (Hz : Qeq_bool q 0 = Qeq_bool q' 0).
    { destruct (Qeq_bool q 0) eqn:E1, (Qeq_bool q' 0) eqn:E2; auto.
      - apply Qeq_bool_iff in E1. apply Qeq_bool_neq in E2. exfalso. apply E2. rewrite <- Hb. exact E1.
      - apply Qeq_bool_iff in E2. apply Qeq_bool_neq in E1. exfalso. apply E1. rewrite Hb. exact E2. }
    rewrite <- Hz. destruct (Qeq_bool q 0); [exact I|].
    apply xlift2_proper; [exact qdiv_proper | exact Ha | exact Hb].
Qed.

Lemma expr_combine_proper : forall op l l' r r', res_eq l l' -> res_eq r r' ->
    res_eq (expr_combine op l r) (expr_combine op l' r').
Proof.
  intros op l l' r r' Hl Hr.
  destruct l as [| x | x | x | i | |], l' as [| x' | x' | x' | i' | |]; cbn in Hl; try tauto;
    destruct r as [| y | y | y | j | |], r' as [| y' | y' | y' | j' | |]; cbn in Hr; try tauto;
      cbn [expr_combine is_numeric andb res_eq]; subst; auto;
        try (apply float_op_proper; cbn; auto; reflexivity).
Qed.

(* every function, every path: the two SIMD variants agree (up to equality of rationals) *)
Lemma variants_refs : forall a evs f, res_eq (apply_refs true a evs f) (apply_refs false a evs f).
Proof.
  induction a; intros evs f;
    try (match goal with
         | |- res_eq (apply_refs true ?a _ _) _ =>
             pose proof (refs_meets_spec true a evs f) as H1; pose proof (refs_meets_spec false a evs f) as H2;
             cbv iota in H1, H2; eapply res_eq_trans; [exact H1 | apply res_eq_sym; exact H2]
         end).
  cbn [apply_refs]. apply expr_combine_proper; [apply IHa1 | apply IHa2].
Qed.
