(* C14 lemmas, part 1: arithmetic normalisation, field extraction, Sum and Avg (lane reassociation is exact in Q). *)
From Coq Require Import QArith Qfield List ZArith NArith Bool Lia.
From VP Require Import Agg.Model Agg.Spec.
Import ListNotations.
Open Scope Q_scope.

(* ---------------------------------------------------------------- Qred-normalised operations *)
Lemma qadd_ok : forall a b, qadd a b == a + b.
Proof. intros. unfold qadd. apply Qred_correct. Qed.
Lemma qsub_ok : forall a b, qsub a b == a - b.
Proof. intros. unfold qsub. apply Qred_correct. Qed.
Lemma qmul_ok : forall a b, qmul a b == a * b.
Proof. intros. unfold qmul. apply Qred_correct. Qed.
Lemma qdiv_ok : forall a b, qdiv a b == a / b.
Proof. intros. unfold qdiv. apply Qred_correct. Qed.

Global Instance qadd_proper : Proper (Qeq ==> Qeq ==> Qeq) qadd.
Proof. intros a a' Ha b b' Hb. rewrite !qadd_ok, Ha, Hb. reflexivity. Qed.

Global Instance qsub_proper : Proper (Qeq ==> Qeq ==> Qeq) qsub.
Proof. intros a a' Ha b b' Hb. rewrite !qsub_ok, Ha, Hb. reflexivity. Qed.
Global Instance qmul_proper : Proper (Qeq ==> Qeq ==> Qeq) qmul.
Proof. intros a a' Ha b b' Hb. rewrite !qmul_ok, Ha, Hb. reflexivity. Qed.
Global Instance qdiv_proper : Proper (Qeq ==> Qeq ==> Qeq) qdiv.
Proof. intros a a' Ha b b' Hb. rewrite !qdiv_ok, Ha, Hb. reflexivity. Qed.

Global Instance Qsum_proper_cons : forall x, Proper (Qeq ==> Qeq) (fun s => x + s).
Proof. intros x a b H. rewrite H. reflexivity. Qed.

Lemma Qsum_cons : forall x l, Qsum (x :: l) = x + Qsum l.
Proof. reflexivity. Qed.
Lemma Qsum_nil : Qsum [] = 0.
Proof. reflexivity. Qed.

Lemma Qsum_app : forall a b, Qsum (a ++ b) == Qsum a + Qsum b.
Proof.
  induction a as [|x a IH]; intros b.
  - change (Qsum b == 0 + Qsum b). ring.
  - change (x + Qsum (a ++ b) == x + Qsum a + Qsum b). rewrite IH. ring.
Qed.

(* ---------------------------------------------------------------- the three extraction shapes give the same values *)
Lemma filter_map_float_nums : forall evs f, filter_map_float evs f = nums evs f.
Proof.
  induction evs as [|e evs IH]; intros f; cbn [filter_map_float nums flat_map]; [reflexivity|].
  fold (nums evs f). rewrite <- IH. unfold get_float, num_of.
  destruct (lookup f e) as [[| |z|q|]|]; reflexivity.
Qed.

Lemma non_nan_extract_field : forall evs f, non_nan (extract_field evs f) = non_nan (filter_map_float evs f).
Proof.
  induction evs as [|e evs IH]; intros f; cbn [extract_field map filter_map_float]; [reflexivity|].
  fold (extract_field evs f).
  destruct (get_float f e) as [[q|]|]; cbn [non_nan]; rewrite IH; reflexivity.
Qed.

Lemma extract_filtered_non_nan : forall evs f, extract_filtered evs f = non_nan (filter_map_float evs f).
Proof.
  induction evs as [|e evs IH]; intros f; cbn [extract_filtered filter_map_float]; [reflexivity|].
  destruct (get_float f e) as [[q|]|]; cbn [non_nan]; rewrite IH; reflexivity.
Qed.

Lemma row_values : forall evs f, non_nan (extract_field evs f) = vals evs f.
Proof. intros. unfold vals. rewrite non_nan_extract_field, filter_map_float_nums. reflexivity. Qed.
Lemma refs_values : forall evs f, non_nan (filter_map_float evs f) = vals evs f.
Proof. intros. unfold vals. rewrite filter_map_float_nums. reflexivity. Qed.
Lemma filtered_values : forall evs f, extract_filtered evs f = vals evs f.
Proof. intros. rewrite extract_filtered_non_nan. apply refs_values. Qed.

(* ---------------------------------------------------------------- sum_f64 *)
Definition lane_total (a : lanes) : Q := let '(s0, s1, s2, s3) := a in s0 + s1 + s2 + s3.

(* induction over lists four elements at a time *)
Lemma list_ind4 : forall (P : list Q -> Prop),
    P [] -> (forall a, P [a]) -> (forall a b, P [a; b]) -> (forall a b c, P [a; b; c]) ->
    (forall a b c d r, P r -> P (a :: b :: c :: d :: r)) ->
    forall l, P l.
Proof.
  intros P H0 H1 H2 H3 H4.
  assert (H : forall n l, (length l <= n)%nat -> P l).
  { induction n as [|n IH]; intros l Hl.
    - destruct l; [exact H0 | cbn in Hl; lia].
    - destruct l as [|a [|b [|c [|d r]]]]; auto.
      apply H4. apply IH. cbn in Hl. lia. }
  intros l. apply (H (length l)). lia.
Qed.

Lemma sum_chunks_total : forall l acc,
    lane_total (fst (sum_chunks l acc)) + Qsum (snd (sum_chunks l acc)) == lane_total acc + Qsum l.
Proof.
  intros l. induction l using list_ind4; intros [[[s0 s1] s2] s3]; try reflexivity.
  cbn [sum_chunks]. rewrite IHl. unfold lane_total. rewrite !qadd_ok, !Qsum_cons. ring.
Qed.

Lemma fold_left_qadd : forall rem s, fold_left qadd rem s == s + Qsum rem.
Proof.
  induction rem as [|x rem IH]; intros s; cbn [fold_left].
  - rewrite Qsum_nil. ring.
  - rewrite IH, qadd_ok, Qsum_cons. ring.
Qed.

Lemma sum_f64_scalar_ok : forall l, sum_f64_scalar l == Qsum l.
Proof.
  intros l. unfold sum_f64_scalar.
  pose proof (sum_chunks_total l (0, 0, 0, 0)) as H.
  destruct (sum_chunks l (0, 0, 0, 0)) as [[[[s0 s1] s2] s3] rem]. cbn [fst snd lane_total] in H.
  rewrite !qadd_ok, fold_left_qadd. rewrite <- (Qplus_0_l (Qsum l)).
  setoid_replace (0 + Qsum l) with (0 + 0 + 0 + 0 + Qsum l) by ring. rewrite <- H. ring.
Qed.

Lemma sum_f64_avx2_ok : forall l, sum_f64_avx2 l == Qsum l.
Proof.
  intros l. unfold sum_f64_avx2.
  pose proof (sum_chunks_total l (0, 0, 0, 0)) as H.
  destruct (sum_chunks l (0, 0, 0, 0)) as [[[[s0 s1] s2] s3] rem]. cbn [fst snd lane_total] in H.
  rewrite fold_left_qadd, !qadd_ok.
  setoid_replace (Qsum l) with (0 + 0 + 0 + 0 + Qsum l) by ring. rewrite <- H. ring.
Qed.

Lemma sum_f64_ok : forall avx l, sum_f64 avx l == Qsum l.
Proof. intros [|] l; [apply sum_f64_avx2_ok | apply sum_f64_scalar_ok]. Qed.

(* ---------------------------------------------------------------- Avg *)
Lemma qlen_Qlen : forall l, qlen l = Qlen l.
Proof. reflexivity. Qed.

Lemma Qlen_pos : forall l, l <> [] -> 0 < Qlen l.
Proof.
  intros l Hl. destruct l as [|x l]; [congruence|].
  unfold Qlen. cbn [length]. unfold Qlt. cbn. lia.
Qed.

Lemma avg_of_ok : forall avx l,
    res_eq (avg_of avx l) (match l with [] => RNull | _ => RNum (XNum (mean l)) end).
Proof.
  intros avx l. destruct l as [|x l]; cbn [avg_of res_eq]; [exact I|].
  cbn [xq_eq]. unfold mean. rewrite qdiv_ok, sum_f64_ok. reflexivity.
Qed.
