(* Reference design for C27: aligned checkpoint barriers (definitions only).

   Differences from the code (Ctx/Model.v): one FIFO channel per pair of contexts plus one input channel per
   context; the coordinator injects a barrier into the INPUT channel of a context ([AInject b]); a context that takes
   a barrier from a channel stops reading that channel; when the barrier has arrived on its input channel and on the
   channel from every upstream context it snapshots, puts a barrier on every outgoing channel and resumes reading.
   The engine is abstract: [a_react c e] is any list of (target, event) forwards, restricted to the graph's edges.
   Channels are unbounded here (capacity only delays steps; it does not change which states are consistent).
   Ghost: [a_done a b] = everything b has taken from channel a->b, [a_sent a b] = events a has put on it. *)
From VP Require Import Base.Tactics Ctx.Model.

Inductive item := IEv (e : event) | IBar.

Record agraph := { a_edges : list (nat * nat); a_react : nat -> event -> list (nat * event) }.

Record asnap := { as_recv : nat -> list event;    (* per upstream context: the events consumed from it *)
                  as_sent : nat -> list event }.  (* per downstream context: the events sent to it *)

Record astate := {
  a_chan : nat -> nat -> list item;
  a_ing : nat -> list item;
  a_blocked : nat -> list nat;
  a_ing_blocked : nat -> bool;
  a_done : nat -> nat -> list item;
  a_sent : nat -> nat -> list event;
  a_snaps : nat -> list asnap }.

Definition ainit : astate :=
  {| a_chan := fun _ _ => []; a_ing := fun _ => []; a_blocked := fun _ => []; a_ing_blocked := fun _ => false;
     a_done := fun _ _ => []; a_sent := fun _ _ => []; a_snaps := fun _ => [] |}.

Definition is_edge (g : agraph) (a b : nat) : bool := existsb (fun p => Nat.eqb (fst p) a && Nat.eqb (snd p) b) (a_edges g).
Definition upstream (g : agraph) (b : nat) : list nat := map fst (filter (fun p => Nat.eqb (snd p) b) (a_edges g)).
Definition outs_to (g : agraph) (c t : nat) (e : event) : list event :=
  if is_edge g c t then map snd (filter (fun p => Nat.eqb (fst p) t) (a_react g c e)) else [].

Fixpoint events (l : list item) : list event :=
  match l with [] => [] | IEv e :: r => e :: events r | IBar :: r => events r end.
Fixpoint nbars (l : list item) : nat :=
  match l with [] => 0 | IEv _ :: r => nbars r | IBar :: r => S (nbars r) end.

(* context c runs event e through its engine and forwards the outputs *)
Definition aprocess (g : agraph) (s : astate) (c : nat) (e : event) : astate :=
  {| a_chan := fun x y => if Nat.eqb x c then a_chan s x y ++ map IEv (outs_to g c y e) else a_chan s x y;
     a_ing := a_ing s; a_blocked := a_blocked s; a_ing_blocked := a_ing_blocked s; a_done := a_done s;
     a_sent := fun x y => if Nat.eqb x c then a_sent s x y ++ outs_to g c y e else a_sent s x y;
     a_snaps := a_snaps s |}.

Definition ready (g : agraph) (s : astate) (b : nat) : bool :=
  a_ing_blocked s b && forallb (fun a => memb a (a_blocked s b)) (upstream g b).

(* when the barrier has arrived on every input of b: snapshot, forward the barrier, resume *)
Definition asnapshot (g : agraph) (s : astate) (b : nat) : astate :=
  if ready g s b then
    {| a_chan := fun x y => if Nat.eqb x b && is_edge g b y then a_chan s x y ++ [IBar] else a_chan s x y;
       a_ing := a_ing s;
       a_blocked := fun x => if Nat.eqb x b then [] else a_blocked s x;
       a_ing_blocked := fun x => if Nat.eqb x b then false else a_ing_blocked s x;
       a_done := a_done s; a_sent := a_sent s;
       a_snaps := fun x => if Nat.eqb x b
                           then a_snaps s b ++ [{| as_recv := fun a => events (a_done s a b); as_sent := fun t => a_sent s b t |}]
                           else a_snaps s x |}
  else s.

(* b takes the head item i of channel a->b *)
Definition apop (s : astate) (a b : nat) (i : item) (r : list item) (block : bool) : astate :=
  {| a_chan := fun x y => if Nat.eqb x a && Nat.eqb y b then r else a_chan s x y;
     a_ing := a_ing s;
     a_blocked := fun x => if block && Nat.eqb x b then a :: a_blocked s b else a_blocked s x;
     a_ing_blocked := a_ing_blocked s;
     a_done := fun x y => if Nat.eqb x a && Nat.eqb y b then a_done s a b ++ [i] else a_done s x y;
     a_sent := a_sent s; a_snaps := a_snaps s |}.

Definition set_ing (s : astate) (b : nat) (l : list item) (blk : bool) : astate :=
  {| a_chan := a_chan s; a_ing := fun x => if Nat.eqb x b then l else a_ing s x; a_blocked := a_blocked s;
     a_ing_blocked := fun x => if Nat.eqb x b then blk else a_ing_blocked s x;
     a_done := a_done s; a_sent := a_sent s; a_snaps := a_snaps s |}.

Inductive alabel := AIn (b : nat) (e : event) | AInject (b : nat) | ATakeIn (b : nat) | ATake (b a : nat).

Definition anext (g : agraph) (s : astate) (l : alabel) : option astate :=
  match l with
  | AIn b e => Some (set_ing s b (a_ing s b ++ [IEv e]) (a_ing_blocked s b))
  | AInject b => Some (set_ing s b (a_ing s b ++ [IBar]) (a_ing_blocked s b))
  | ATakeIn b =>
    if a_ing_blocked s b then None else
    match a_ing s b with
    | [] => None
    | IEv e :: r => Some (aprocess g (set_ing s b r false) b e)
    | IBar :: r => Some (asnapshot g (set_ing s b r true) b)
    end
  | ATake b a =>
    if negb (is_edge g a b) || memb a (a_blocked s b) then None else
    match a_chan s a b with
    | [] => None
    | IEv e :: r => Some (aprocess g (apop s a b (IEv e) r false) b e)
    | IBar :: r => Some (asnapshot g (apop s a b IBar r true) b)
    end
  end.

Fixpoint arun (g : agraph) (s : astate) (sched : list alabel) : option astate :=
  match sched with
  | [] => Some s
  | l :: r => match anext g s l with Some s' => arun g s' r | None => None end
  end.
