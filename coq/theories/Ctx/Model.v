(* Executable model of the context runtime: crates/varpulis-runtime/src/context.rs.

   A labelled transition system.  One label = one atomic action of one thread; a schedule is a list of labels;
   [next cfg s l = None] when the action is not enabled (the thread would block / has nothing to do).

   Rust                                                   model
   ----------------------------------------------------   ----------------------------------------------
   ContextOrchestrator::build_with_checkpoint,            [route]: event type -> context of the LAST stream (declaration
     passes 1+2 (ingress_routing: type -> ONE context)      order) whose source is that type
   mpsc::channel(channel_capacity) per context            [inbox] : list msg, at most [cap] entries, FIFO
   EventTypeRouter::dispatch_await (process().await)      [Ingress e]: enabled iff the routed inbox has room
   ContextRuntime::run, arm event_rx.recv():
     Some(Event(e)): engine.process_shared(e)             [Recv c] on an event: consumed+1, [outq] := engine output
     Some(CheckpointBarrier(b)): handle_checkpoint_barrier [Recv c] on a barrier: snapshot of c appended to the ack channel
   ContextRuntime::drain_and_route_output, one iteration  [Route c]: head of [outq]; if its type is routed to ANOTHER context
                                                            t: put it into t's inbox, then (always) onto the output channel.
                                                            mode Block (the code: tx.send().await): not enabled while t is full;
                                                            [Wait c] then queues c as a waiter of t's inbox and the next
                                                            message t takes out hands the freed slot to the first waiter
                                                            (tokio's fair semaphore: a promised slot counts as occupied);
                                                            mode Drop  (try_send, result ignored — the code before the fix
                                                            recorded in known_findings.json): the event is lost when t is full.
                                                            An event routed to c itself is not forwarded.
   Engine::process_inner (stateless .where/.emit          [engine]: breadth-first over the context's own streams, depth limit 10
     streams of one context)
   CheckpointCoordinator::initiate                        [Init] then one [BSend c] per context: barrier try_send straight
                                                            into the inbox (lost when full); other threads may run in between
   CheckpointCoordinator::receive_ack / try_complete      [AckRecv]: next ack; all contexts acked => completed checkpoint
   Engine::restore_checkpoint per context (restart)       [restore]: every context at its snapshot, all channels empty

   Ghost state (not in the code, used to state the properties): every message carries its producing context
   ([MEv (Some a) e]; [None] = external input); [g_recv] logs what a context consumed, [g_sent] what it forwarded
   (in production order, whether or not the inbox accepted it); a snapshot carries copies of both logs.
   The output channel and the ack channel are unbounded here (the code: caller-chosen capacity / 2 x #contexts,
   at most one ack per context outstanding).  No proofs in this file. *)
From VP Require Import Base.Tactics.

Record event := { e_ty : N; e_id : Z; e_v : Z }.
(* stream S = <src> .context(c) .where(v >= thr) .emit(id: id, v: v) *)
Record stream := { s_name : N; s_src : N; s_ctx : nat; s_thr : Z }.
Inductive sendmode := Drop | Block.
Record config := { n_ctx : nat; cap : nat; mode : sendmode; prog : list stream }.

Inductive msg := MEv (src : option nat) (e : event) | MBar (id : N).

Record snap := { sn_consumed : N; sn_recv : list (option nat * event); sn_sent : list (nat * event) }.

Record cstate := { inbox : list msg; outq : list event; consumed : N;
                   g_recv : list (option nat * event); g_sent : list (nat * event) }.

Record pend := { p_id : N; p_tosend : list nat; p_acks : list (nat * snap) }.

Record state := { cs : nat -> cstate; output : list event; ackq : list (nat * N * snap);
                  next_id : N; pending : option pend; completed : list (N * list (nat * snap));
                  wq : nat -> list nat;     (* per inbox: contexts blocked in send().await on it, FIFO *)
                  rs : nat -> list nat }.   (* per inbox: waiting senders that have been given a slot and not used it yet *)

(* ---- routing table and engine ---- *)
Fixpoint route (p : list stream) (t : N) : option nat :=
  match p with
  | [] => None
  | s :: r => match route r t with
              | Some c => Some c
              | None => if N.eqb (s_src s) t then Some (s_ctx s) else None
              end
  end.

Definition streams_of (p : list stream) (c : nat) : list stream := filter (fun s => Nat.eqb (s_ctx s) c) p.

Definition fire (s : stream) (e : event) : list event :=
  if N.eqb (s_src s) (e_ty e) && Z.leb (s_thr s) (e_v e)
  then [{| e_ty := s_name s; e_id := e_id e; e_v := e_v e |}] else [].

Definition step_event (ss : list stream) (e : event) : list event := flat_map (fun s => fire s e) ss.

(* pending_events queue of process_inner: FIFO, so the emissions come level by level *)
Fixpoint bfs (fuel : nat) (ss : list stream) (level : list event) : list event :=
  match fuel with
  | O => []
  | S f => let nxt := flat_map (step_event ss) level in nxt ++ bfs f ss nxt
  end.

Definition engine (ss : list stream) (e : event) : list event := bfs 10 ss [e].

(* ---- state plumbing ---- *)
Definition upd {A} (f : nat -> A) (k : nat) (v : A) : nat -> A := fun x => if Nat.eqb x k then v else f x.
Definition memb (a : nat) (l : list nat) : bool := existsb (Nat.eqb a) l.

Definition cstate0 : cstate := {| inbox := []; outq := []; consumed := 0%N; g_recv := []; g_sent := [] |}.
Definition init : state :=
  {| cs := fun _ => cstate0; output := []; ackq := []; next_id := 1%N; pending := None; completed := [];
     wq := fun _ => []; rs := fun _ => [] |}.

Definition set_cs (s : state) (f : nat -> cstate) : state :=
  {| cs := f; output := output s; ackq := ackq s; next_id := next_id s; pending := pending s; completed := completed s;
     wq := wq s; rs := rs s |}.
Definition push_inbox (st : cstate) (m : msg) : cstate :=
  {| inbox := inbox st ++ [m]; outq := outq st; consumed := consumed st; g_recv := g_recv st; g_sent := g_sent st |}.
(* a free slot: the queue and the slots already promised to waiting senders fill less than the capacity *)
Definition room (cfg : config) (s : state) (t : nat) : bool :=
  Nat.ltb (length (inbox (cs s t)) + length (rs s t)) (cap cfg).
Definition snapshot (st : cstate) : snap := {| sn_consumed := consumed st; sn_recv := g_recv st; sn_sent := g_sent st |}.

Inductive label := Ingress (e : event) | Recv (c : nat) | Route (c : nat) | Wait (c : nat) | Init | BSend (c : nat) | AckRecv.

Fixpoint remove_nat (c : nat) (l : list nat) : list nat :=
  match l with [] => [] | x :: r => if Nat.eqb x c then r else x :: remove_nat c r end.
Definition put_ack (c : nat) (sn : snap) (l : list (nat * snap)) : list (nat * snap) :=
  filter (fun x => negb (Nat.eqb (fst x) c)) l ++ [(c, sn)].

(* taking a message out of c's inbox frees a slot; tokio's fair semaphore hands it to the first waiting sender *)
Definition grant_wq (s : state) (c : nat) : nat -> list nat :=
  match wq s c with [] => wq s | _ :: rest => upd (wq s) c rest end.
Definition grant_rs (s : state) (c : nat) : nat -> list nat :=
  match wq s c with [] => rs s | w :: _ => upd (rs s) c (rs s c ++ [w]) end.

(* where the head of c's engine output goes: another declared context, or nowhere *)
Definition target_of (cfg : config) (c : nat) (e : event) : option nat :=
  match route (prog cfg) (e_ty e) with
  | Some t => if Nat.ltb t (n_ctx cfg) && negb (Nat.eqb t c) then Some t else None
  | None => None
  end.

Definition next (cfg : config) (s : state) (l : label) : option state :=
  match l with
  | Ingress e =>
    match route (prog cfg) (e_ty e) with
    | Some t => if Nat.ltb t (n_ctx cfg) && room cfg s t
                then Some (set_cs s (upd (cs s) t (push_inbox (cs s t) (MEv None e)))) else None
    | None => None
    end
  | Recv c =>
    if negb (Nat.ltb c (n_ctx cfg)) then None else
    let st := cs s c in
    match outq st, inbox st with
    | [], MEv src e :: r =>
      Some {| cs := upd (cs s) c {| inbox := r; outq := engine (streams_of (prog cfg) c) e;
                                    consumed := consumed st + 1; g_recv := g_recv st ++ [(src, e)]; g_sent := g_sent st |};
              output := output s; ackq := ackq s; next_id := next_id s; pending := pending s; completed := completed s;
              wq := grant_wq s c; rs := grant_rs s c |}
    | [], MBar id :: r =>
      Some {| cs := upd (cs s) c {| inbox := r; outq := []; consumed := consumed st; g_recv := g_recv st; g_sent := g_sent st |};
              output := output s; ackq := ackq s ++ [(c, id, snapshot st)];
              next_id := next_id s; pending := pending s; completed := completed s;
              wq := grant_wq s c; rs := grant_rs s c |}
    | _, _ => None
    end
  | Route c =>
    if negb (Nat.ltb c (n_ctx cfg)) then None else
    let st := cs s c in
    match outq st with
    | [] => None
    | e :: r =>
      match target_of cfg c e with
      | None =>
        Some {| cs := upd (cs s) c {| inbox := inbox st; outq := r; consumed := consumed st; g_recv := g_recv st; g_sent := g_sent st |};
                output := output s ++ [e]; ackq := ackq s; next_id := next_id s; pending := pending s; completed := completed s;
                wq := wq s; rs := rs s |}
      | Some t =>
        let sender := {| inbox := inbox st; outq := r; consumed := consumed st; g_recv := g_recv st; g_sent := g_sent st ++ [(t, e)] |} in
        let fwd (accepted : bool) (rs' : nat -> list nat) :=
          {| cs := let f := upd (cs s) c sender in
                   if accepted then upd f t (push_inbox (f t) (MEv (Some c) e)) else f;
             output := output s ++ [e]; ackq := ackq s; next_id := next_id s; pending := pending s; completed := completed s;
             wq := wq s; rs := rs' |} in
        if memb c (rs s t) then Some (fwd true (upd (rs s) t (remove_nat c (rs s t))))     (* the slot promised earlier *)
        else if memb c (wq s t) then None                                                  (* still waiting for a slot *)
        else if room cfg s t then Some (fwd true (rs s))
        else match mode cfg with Drop => Some (fwd false (rs s)) | Block => None end
      end
    end
  | Wait c =>
    (* send().await on a full inbox: the sender joins the FIFO of waiters of that inbox *)
    if negb (Nat.ltb c (n_ctx cfg)) then None else
    match mode cfg, outq (cs s c) with
    | Block, e :: _ =>
      match target_of cfg c e with
      | Some t => if memb c (rs s t) || memb c (wq s t) || room cfg s t then None
                  else Some {| cs := cs s; output := output s; ackq := ackq s; next_id := next_id s; pending := pending s;
                               completed := completed s; wq := upd (wq s) t (wq s t ++ [c]); rs := rs s |}
      | None => None
      end
    | _, _ => None
    end
  | Init =>
    match pending s with
    | Some _ => None
    | None => Some {| cs := cs s; output := output s; ackq := ackq s; next_id := next_id s + 1;
                      pending := Some {| p_id := next_id s; p_tosend := seq 0 (n_ctx cfg); p_acks := [] |};
                      completed := completed s; wq := wq s; rs := rs s |}
    end
  | BSend c =>
    match pending s with
    | Some p =>
      if existsb (Nat.eqb c) (p_tosend p) then
        let p' := {| p_id := p_id p; p_tosend := remove_nat c (p_tosend p); p_acks := p_acks p |} in
        Some {| cs := if room cfg s c then upd (cs s) c (push_inbox (cs s c) (MBar (p_id p))) else cs s;
                output := output s; ackq := ackq s; next_id := next_id s; pending := Some p'; completed := completed s;
                wq := wq s; rs := rs s |}
      else None
    | None => None
    end
  | AckRecv =>
    match ackq s with
    | [] => None
    | (c, id, sn) :: r =>
      match pending s with
      | Some p =>
        match p_tosend p with
        | _ :: _ => None                      (* initiate() has not returned yet *)
        | [] =>
          if N.eqb id (p_id p) then
            let acks := put_ack c sn (p_acks p) in
            if Nat.eqb (length acks) (n_ctx cfg)
            then Some {| cs := cs s; output := output s; ackq := r; next_id := next_id s; pending := None;
                         completed := completed s ++ [(p_id p, acks)]; wq := wq s; rs := rs s |}
            else Some {| cs := cs s; output := output s; ackq := r; next_id := next_id s;
                         pending := Some {| p_id := p_id p; p_tosend := []; p_acks := acks |}; completed := completed s;
                         wq := wq s; rs := rs s |}
          else Some {| cs := cs s; output := output s; ackq := r; next_id := next_id s; pending := pending s; completed := completed s;
                       wq := wq s; rs := rs s |}
        end
      | None => Some {| cs := cs s; output := output s; ackq := r; next_id := next_id s; pending := None; completed := completed s;
                        wq := wq s; rs := rs s |}
      end
    end
  end.

Fixpoint run (cfg : config) (s : state) (sched : list label) : option state :=
  match sched with
  | [] => Some s
  | l :: r => match next cfg s l with Some s' => run cfg s' r | None => None end
  end.

(* ---- restart from a completed checkpoint ---- *)
Fixpoint find_snap (c : nat) (l : list (nat * snap)) : option snap :=
  match l with [] => None | (x, sn) :: r => if Nat.eqb x c then Some sn else find_snap c r end.

Definition restore (cp : list (nat * snap)) : state :=
  {| cs := fun c => match find_snap c cp with
                    | Some sn => {| inbox := []; outq := []; consumed := sn_consumed sn; g_recv := sn_recv sn; g_sent := sn_sent sn |}
                    | None => cstate0
                    end;
     output := []; ackq := []; next_id := 1%N; pending := None; completed := []; wq := fun _ => []; rs := fun _ => [] |}.

(* ---- what the properties talk about ---- *)
(* events context b has consumed that came from context a, in consumption order *)
Definition recv_from (a : nat) (l : list (option nat * event)) : list event :=
  map snd (filter (fun x => match fst x with Some a' => Nat.eqb a' a | None => false end) l).
(* events context a has forwarded to context b, in production order *)
Definition sent_to (b : nat) (l : list (nat * event)) : list event :=
  map snd (filter (fun x => Nat.eqb (fst x) b) l).
(* events from a waiting in an inbox, in order *)
Definition inflight (a : nat) (l : list msg) : list event :=
  flat_map (fun m => match m with MEv (Some a') e => if Nat.eqb a' a then [e] else [] | _ => [] end) l.

(* exactly once, in production order: what b consumed from a, followed by what still waits in b's inbox, is what a sent to b *)
Definition delivery_exact (s : state) : Prop :=
  forall a b, a <> b -> recv_from a (g_recv (cs s b)) ++ inflight a (inbox (cs s b)) = sent_to b (g_sent (cs s a)).

(* a checkpoint is a consistent cut: for every pair of contexts, what b's snapshot has consumed from a is what a's
   snapshot has sent to b (nothing in flight across the cut, nothing consumed that the sender will send again) *)
Definition cut_consistent (n : nat) (cp : list (nat * snap)) : Prop :=
  forall a b sa sb, a < n -> b < n -> a <> b -> find_snap a cp = Some sa -> find_snap b cp = Some sb ->
    recv_from a (sn_recv sb) = sent_to b (sn_sent sa).

(* boolean versions for evaluation *)
Definition event_eqb (x y : event) : bool := N.eqb (e_ty x) (e_ty y) && Z.eqb (e_id x) (e_id y) && Z.eqb (e_v x) (e_v y).
Fixpoint events_eqb (l1 l2 : list event) : bool :=
  match l1, l2 with
  | [], [] => true
  | x :: r1, y :: r2 => event_eqb x y && events_eqb r1 r2
  | _, _ => false
  end.
Definition delivery_exactb (n : nat) (s : state) : bool :=
  forallb (fun a => forallb (fun b => Nat.eqb a b ||
     events_eqb (recv_from a (g_recv (cs s b)) ++ inflight a (inbox (cs s b))) (sent_to b (g_sent (cs s a)))) (seq 0 n)) (seq 0 n).
Definition cut_consistentb (n : nat) (cp : list (nat * snap)) : bool :=
  forallb (fun a => forallb (fun b => Nat.eqb a b ||
     match find_snap a cp, find_snap b cp with
     | Some sa, Some sb => events_eqb (recv_from a (sn_recv sb)) (sent_to b (sn_sent sa))
     | _, _ => true
     end) (seq 0 n)) (seq 0 n).
