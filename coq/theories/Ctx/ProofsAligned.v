(* Aligned barriers give consistent cuts for every schedule (reference design, Ctx/Aligned.v). *)
From VP Require Import Base.Tactics Ctx.Model Ctx.Aligned.

(* prefix of a channel history up to and including its j-th barrier *)
Fixpoint upto_bar (l : list item) (j : nat) : list item :=
  match l with
  | [] => []
  | IEv e :: r => match j with O => [] | S _ => IEv e :: upto_bar r j end
  | IBar :: r => match j with O => [] | S j' => IBar :: upto_bar r j' end
  end.

Lemma upto_bar_0 : forall l, upto_bar l 0 = [].
Proof. intros [|[e|] r]; reflexivity. Qed.
Lemma upto_bar_app : forall l x j, j <= nbars l -> upto_bar (l ++ x) j = upto_bar l j.
Proof.
  induction l as [|[e|] r IH]; intros x j Hj; cbn [nbars] in Hj.
  - assert (j = 0) by lia. subst. cbn [app]. rewrite upto_bar_0. reflexivity.
  - cbn [app upto_bar]. destruct j; [reflexivity|]. rewrite IH; [reflexivity | exact Hj].
  - cbn [app upto_bar]. destruct j; [reflexivity|]. rewrite IH; [reflexivity | lia].
Qed.
Lemma upto_bar_all : forall l j, nbars l = j -> upto_bar (l ++ [IBar]) (S j) = l ++ [IBar].
Proof.
  induction l as [|[e|] r IH]; intros j Hj; cbn [nbars] in Hj.
  - subst. reflexivity.
  - cbn [app upto_bar]. rewrite IH; [reflexivity | exact Hj].
  - destruct j; [discriminate|]. cbn [app upto_bar]. rewrite IH; [reflexivity | lia].
Qed.
Lemma events_app : forall l1 l2, events (l1 ++ l2) = events l1 ++ events l2.
Proof. induction l1 as [|[e|] r IH]; intros l2; cbn [app events]; rewrite ?IH; reflexivity. Qed.
Lemma nbars_app : forall l1 l2, nbars (l1 ++ l2) = nbars l1 + nbars l2.
Proof. induction l1 as [|[e|] r IH]; intros l2; cbn [app nbars]; rewrite ?IH; reflexivity. Qed.
Lemma events_map_IEv : forall l, events (map IEv l) = l.
Proof. induction l as [|e r IH]; cbn [map events]; rewrite ?IH; reflexivity. Qed.
Lemma nbars_map_IEv : forall l, nbars (map IEv l) = 0.
Proof. induction l as [|e r IH]; cbn [map nbars]; auto. Qed.

Lemma is_edge_In : forall g a b, In (a, b) (a_edges g) -> is_edge g a b = true.
Proof. intros g a b H. unfold is_edge. apply existsb_exists. exists (a, b). cbn. rewrite !Nat.eqb_refl. auto. Qed.
Lemma upstream_In : forall g a b, In (a, b) (a_edges g) -> In a (upstream g b).
Proof.
  intros g a b H. unfold upstream. apply in_map_iff. exists (a, b). split; [reflexivity|].
  apply filter_In. split; [exact H | cbn; apply Nat.eqb_refl].
Qed.

Definition hist (s : astate) (a b : nat) : list item := a_done s a b ++ a_chan s a b.
Definition blk (s : astate) (b a : nat) : nat := if memb a (a_blocked s b) then 1 else 0.

Record AInv (g : agraph) (s : astate) : Prop := {
  i_sent : forall a b, In (a, b) (a_edges g) -> events (hist s a b) = a_sent s a b;
  i_bars : forall a b, In (a, b) (a_edges g) -> nbars (hist s a b) = length (a_snaps s a);
  i_done : forall a b, In (a, b) (a_edges g) -> nbars (a_done s a b) = length (a_snaps s b) + blk s b a;
  i_last : forall a b, In (a, b) (a_edges g) -> memb a (a_blocked s b) = true -> exists d, a_done s a b = d ++ [IBar];
  i_ssent : forall a b k sa, In (a, b) (a_edges g) -> nth_error (a_snaps s a) k = Some sa ->
            as_sent sa b = events (upto_bar (hist s a b) (S k));
  i_srecv : forall a b k sb, In (a, b) (a_edges g) -> nth_error (a_snaps s b) k = Some sb ->
            as_recv sb a = events (upto_bar (a_done s a b) (S k)) }.

Lemma AInv_init : forall g, AInv g ainit.
Proof.
  intros g. constructor; intros; cbn in *; try reflexivity.
  - discriminate.
  - destruct k; discriminate.
  - destruct k; discriminate.
Qed.

Lemma AInv_set_ing : forall g s b l blkd, AInv g s -> AInv g (set_ing s b l blkd).
Proof. intros g s b l blkd [H1 H2 H3 H4 H5 H6]. constructor; assumption. Qed.

Lemma nth_lt : forall A (l : list A) k x, nth_error l k = Some x -> k < length l.
Proof. intros A l k x H. apply nth_error_Some. rewrite H. discriminate. Qed.

Lemma hist_apop : forall s a' b' i r bl, a_chan s a' b' = i :: r ->
  forall x y, hist (apop s a' b' i r bl) x y = hist s x y.
Proof.
  intros s a' b' i r bl Hc x y. unfold hist. cbn [apop a_done a_chan].
  destruct (Nat.eqb x a' && Nat.eqb y b') eqn:E; [|reflexivity].
  apply andb_prop in E. destruct E as [E1 E2]. apply Nat.eqb_eq in E1. apply Nat.eqb_eq in E2. subst.
  rewrite Hc, <- app_assoc. reflexivity.
Qed.

Lemma AInv_apop : forall g s a' b' i r, AInv g s ->
  a_chan s a' b' = i :: r -> memb a' (a_blocked s b') = false ->
  AInv g (apop s a' b' i r (match i with IBar => true | IEv _ => false end)).
Proof.
  intros g s a' b' i r [H1 H2 H3 H4 H5 H6] Hc Hnb.
  set (bl := match i with IBar => true | IEv _ => false end).
  constructor.
  - intros a b He. rewrite (hist_apop s a' b' i r bl Hc). apply H1. exact He.
  - intros a b He. rewrite (hist_apop s a' b' i r bl Hc). apply H2. exact He.
  - intros a b He. specialize (H3 a b He). unfold blk in *. cbn [apop a_done a_blocked a_snaps].
    destruct (Nat.eqb a a' && Nat.eqb b b') eqn:E.
    + apply andb_prop in E. destruct E as [E1 E2]. apply Nat.eqb_eq in E1. apply Nat.eqb_eq in E2. subst a b.
      rewrite Hnb in H3. rewrite nbars_app, H3. rewrite Nat.eqb_refl, andb_true_r. subst bl.
      destruct i as [e|]; cbn [nbars andb].
      * rewrite Hnb. lia.
      * unfold memb. cbn [existsb]. rewrite Nat.eqb_refl. cbn [orb]. lia.
    + rewrite H3. f_equal. destruct (bl && Nat.eqb b b') eqn:E2; [|reflexivity].
      apply andb_prop in E2. destruct E2 as [_ E2]. apply Nat.eqb_eq in E2. subst b.
      rewrite Nat.eqb_refl, andb_true_r in E. unfold memb. cbn [existsb]. rewrite E. reflexivity.
  - intros a b He Hm. cbn [apop a_done a_blocked] in *.
    destruct (Nat.eqb a a' && Nat.eqb b b') eqn:E.
    + apply andb_prop in E. destruct E as [E1 E2]. apply Nat.eqb_eq in E1. apply Nat.eqb_eq in E2. subst a b.
      rewrite Nat.eqb_refl, andb_true_r in Hm. subst bl. destruct i as [e|].
      * cbn [andb] in Hm. rewrite Hnb in Hm. discriminate.
      * eexists. reflexivity.
    + apply (H4 a b He). destruct (bl && Nat.eqb b b') eqn:E2; [|exact Hm].
      apply andb_prop in E2. destruct E2 as [_ E2]. apply Nat.eqb_eq in E2. subst b.
      rewrite Nat.eqb_refl, andb_true_r in E. unfold memb in Hm. cbn [existsb] in Hm. rewrite E in Hm. exact Hm.
  - intros a b k sa He Hn. rewrite (hist_apop s a' b' i r bl Hc). apply H5; assumption.
  - intros a b k sb He Hn. cbn [apop a_done a_snaps] in *. rewrite (H6 a b k sb He Hn).
    destruct (Nat.eqb a a' && Nat.eqb b b') eqn:E; [|reflexivity].
    apply andb_prop in E. destruct E as [E1 E2]. apply Nat.eqb_eq in E1. apply Nat.eqb_eq in E2. subst a b.
    rewrite upto_bar_app; [reflexivity|]. rewrite (H3 a' b' He). apply nth_lt in Hn. lia.
Qed.

Lemma hist_aprocess : forall g s c e x y,
  hist (aprocess g s c e) x y = hist s x y ++ (if Nat.eqb x c then map IEv (outs_to g c y e) else []).
Proof.
  intros. unfold hist. cbn [aprocess a_done a_chan]. destruct (Nat.eqb x c); [rewrite app_assoc | rewrite app_nil_r]; reflexivity.
Qed.

Lemma AInv_aprocess : forall g s c e, AInv g s -> AInv g (aprocess g s c e).
Proof.
  intros g s c e [H1 H2 H3 H4 H5 H6]. constructor.
  - intros a b He. rewrite hist_aprocess, events_app, (H1 a b He). cbn [aprocess a_sent].
    destruct (Nat.eqb a c); [rewrite events_map_IEv | cbn [events]; rewrite app_nil_r]; reflexivity.
  - intros a b He. rewrite hist_aprocess, nbars_app, (H2 a b He). cbn [aprocess a_snaps].
    destruct (Nat.eqb a c); [rewrite nbars_map_IEv | cbn [nbars]]; lia.
  - exact H3.
  - exact H4.
  - intros a b k sa He Hn. cbn [aprocess a_snaps] in Hn. rewrite hist_aprocess, upto_bar_app; [apply H5; assumption|].
    rewrite (H2 a b He). apply nth_lt in Hn. lia.
  - exact H6.
Qed.

Lemma AInv_asnapshot : forall g s b, AInv g s -> AInv g (asnapshot g s b).
Proof.
  intros g s b Inv. unfold asnapshot. destruct (ready g s b) eqn:Er; [|exact Inv].
  destruct Inv as [H1 H2 H3 H4 H5 H6].
  assert (Hup : forall a, In (a, b) (a_edges g) -> memb a (a_blocked s b) = true).
  { intros a He. unfold ready in Er. apply andb_prop in Er. destruct Er as [_ Er]. rewrite forallb_forall in Er.
    apply Er. apply upstream_In. exact He. }
  set (s' := {| a_chan := fun x y => if Nat.eqb x b && is_edge g b y then a_chan s x y ++ [IBar] else a_chan s x y;
                a_ing := a_ing s; a_blocked := fun x => if Nat.eqb x b then [] else a_blocked s x;
                a_ing_blocked := fun x => if Nat.eqb x b then false else a_ing_blocked s x;
                a_done := a_done s; a_sent := a_sent s;
                a_snaps := fun x => if Nat.eqb x b
                   then a_snaps s b ++ [{| as_recv := fun a => events (a_done s a b); as_sent := fun t => a_sent s b t |}]
                   else a_snaps s x |}).
  assert (Hh : forall x y, hist s' x y = hist s x y ++ (if Nat.eqb x b && is_edge g b y then [IBar] else [])).
  { intros x y. unfold hist. cbn [s' a_done a_chan]. destruct (Nat.eqb x b && is_edge g b y); [rewrite app_assoc | rewrite app_nil_r]; reflexivity. }
  constructor.
  - intros a y He. rewrite Hh, events_app, (H1 a y He). cbn [s' a_sent].
    destruct (Nat.eqb a b && is_edge g b y); cbn [events]; rewrite app_nil_r; reflexivity.
  - intros a y He. rewrite Hh, nbars_app, (H2 a y He). cbn [s' a_snaps].
    destruct (Nat.eqb a b) eqn:E.
    + apply Nat.eqb_eq in E. subst a. rewrite (is_edge_In g b y He). cbn [andb nbars]. rewrite app_length. cbn [length]. lia.
    + cbn [andb nbars]. lia.
  - intros a y He. unfold blk. cbn [s' a_done a_blocked a_snaps]. rewrite (H3 a y He). unfold blk.
    destruct (Nat.eqb y b) eqn:E.
    + apply Nat.eqb_eq in E. subst y. rewrite (Hup a He). cbn [memb existsb]. rewrite app_length. cbn [length]. lia.
    + reflexivity.
  - intros a y He Hm. cbn [s' a_done a_blocked] in *. destruct (Nat.eqb y b) eqn:E; [cbn in Hm; discriminate|].
    apply (H4 a y He Hm).
  - intros a y k sa He Hn. cbn [s' a_snaps] in Hn. rewrite Hh.
    destruct (Nat.eqb a b) eqn:E.
    + apply Nat.eqb_eq in E. subst a. rewrite (is_edge_In g b y He). cbn [andb].
      destruct (Nat.lt_ge_cases k (length (a_snaps s b))) as [Hk|Hk].
      * rewrite nth_error_app1 in Hn by exact Hk. rewrite upto_bar_app; [apply H5; assumption|]. rewrite (H2 b y He). lia.
      * rewrite nth_error_app2 in Hn by exact Hk.
        destruct (k - length (a_snaps s b)) eqn:Ek; [|destruct n; discriminate]. cbn [nth_error] in Hn. inv Hn.
        assert (k = length (a_snaps s b)) by lia. subst k. cbn [as_sent].
        rewrite upto_bar_all; [|apply H2; exact He]. rewrite events_app. cbn [events]. rewrite app_nil_r. symmetry. apply H1. exact He.
    + cbn [andb]. rewrite app_nil_r. apply H5; assumption.
  - intros a y k sb He Hn. cbn [s' a_snaps a_done] in *.
    destruct (Nat.eqb y b) eqn:E; [|apply H6; assumption].
    apply Nat.eqb_eq in E. subst y.
    destruct (Nat.lt_ge_cases k (length (a_snaps s b))) as [Hk|Hk].
    + rewrite nth_error_app1 in Hn by exact Hk. apply H6; assumption.
    + rewrite nth_error_app2 in Hn by exact Hk.
      destruct (k - length (a_snaps s b)) eqn:Ek; [|destruct n; discriminate]. cbn [nth_error] in Hn. inv Hn.
      assert (k = length (a_snaps s b)) by lia. subst k. cbn [as_recv].
      destruct (H4 a b He (Hup a He)) as [d Hd]. pose proof (H3 a b He) as Hn3. unfold blk in Hn3. rewrite (Hup a He) in Hn3.
      rewrite Hd in *. rewrite nbars_app in Hn3. cbn [nbars] in Hn3. rewrite upto_bar_all; [reflexivity | lia].
Qed.

Lemma AInv_next : forall g s l s', AInv g s -> anext g s l = Some s' -> AInv g s'.
Proof.
  intros g s l s' Inv Hn. destruct l as [b e | b | b | b a]; cbn [anext] in Hn.
  - inv Hn. apply AInv_set_ing. exact Inv.
  - inv Hn. apply AInv_set_ing. exact Inv.
  - destruct (a_ing_blocked s b); [discriminate|].
    destruct (a_ing s b) as [|[e|] r]; [discriminate| |]; inv Hn.
    + apply AInv_aprocess, AInv_set_ing. exact Inv.
    + apply AInv_asnapshot, AInv_set_ing. exact Inv.
  - destruct (negb (is_edge g a b) || memb a (a_blocked s b)) eqn:E; [discriminate|].
    apply orb_false_iff in E. destruct E as [_ Hnb].
    destruct (a_chan s a b) as [|[e|] r] eqn:Ec; [discriminate| |]; inv Hn.
    + apply AInv_aprocess. apply (AInv_apop g s a b (IEv e) r Inv Ec Hnb).
    + apply AInv_asnapshot. apply (AInv_apop g s a b IBar r Inv Ec Hnb).
Qed.

Lemma AInv_run : forall g sched s s', AInv g s -> arun g s sched = Some s' -> AInv g s'.
Proof.
  intros g sched. induction sched as [|l r IH]; intros s s' Inv Hr; cbn [arun] in Hr.
  - inv Hr. exact Inv.
  - destruct (anext g s l) as [s1|] eqn:En; [|discriminate]. eapply IH; [eapply AInv_next; eauto | exact Hr].
Qed.

Theorem aligned_consistent : forall g sched s a b k sa sb,
  arun g ainit sched = Some s -> In (a, b) (a_edges g) ->
  nth_error (a_snaps s a) k = Some sa -> nth_error (a_snaps s b) k = Some sb ->
  as_recv sb a = as_sent sa b.
Proof.
  intros g sched s a b k sa sb Hr He Ha Hb.
  destruct (AInv_run g sched ainit s (AInv_init g) Hr) as [H1 H2 H3 H4 H5 H6].
  rewrite (H6 a b k sb He Hb), (H5 a b k sa He Ha). unfold hist.
  rewrite upto_bar_app; [reflexivity|]. rewrite (H3 a b He). apply nth_lt in Hb. lia.
Qed.

(* non-vacuity: a schedule on the 2-context pipeline in which both contexts snapshot while an event crosses *)
Definition ex_graph : agraph :=
  {| a_edges := [(0, 1)]; a_react := fun c e => if Nat.eqb c 0 then [(1, {| e_ty := 100; e_id := e_id e; e_v := e_v e |})] else [] |}.
Definition ex_sched : list alabel :=
  [AIn 0 {| e_ty := 0; e_id := 1; e_v := 5 |}; AInject 0; AInject 1; ATakeIn 1; ATakeIn 0; ATakeIn 0; ATake 1 0; ATake 1 0].
Lemma ex_aligned : exists s sa sb, arun ex_graph ainit ex_sched = Some s /\
  nth_error (a_snaps s 0) 0 = Some sa /\ nth_error (a_snaps s 1) 0 = Some sb /\
  as_sent sa 1 = [ {| e_ty := 100; e_id := 1; e_v := 5 |} ] /\ as_recv sb 0 = [ {| e_ty := 100; e_id := 1; e_v := 5 |} ].
Proof. eexists. eexists. eexists. split; [vm_compute; reflexivity|]. split; [reflexivity|]. split; [reflexivity|]. split; reflexivity. Qed.
