(* Deadlock freedom of the blocking forward on ranked (acyclic) context graphs, with tokio's waiter queue:
   invariants of the waiter / promised-slot bookkeeping, then progress by descending induction on the context index. *)
From Coq Require Import Permutation.
From VP Require Import Base.Tactics Ctx.Model Ctx.Proofs.

Lemma memb_In : forall a l, memb a l = true <-> In a l.
Proof.
  intros a l. unfold memb. rewrite existsb_exists. split.
  - intros [x [Hx E]]. apply Nat.eqb_eq in E. subst. exact Hx.
  - intros H. exists a. split; [exact H | apply Nat.eqb_refl].
Qed.
Lemma memb_false : forall a l, memb a l = false -> ~ In a l.
Proof. intros a l H I. apply memb_In in I. rewrite I in H. discriminate. Qed.

Lemma remove_nat_In : forall c l x, In x (remove_nat c l) -> In x l.
Proof.
  intros c l. induction l as [|y r IH]; intros x H; cbn [remove_nat] in H; [destruct H|].
  destruct (Nat.eqb y c); [right; exact H|]. destruct H as [<-|H]; [left; reflexivity | right; apply IH; exact H].
Qed.
Lemma remove_nat_notin : forall c l, NoDup l -> ~ In c (remove_nat c l).
Proof.
  intros c l. induction l as [|y r IH]; intros N H; cbn [remove_nat] in H; [destruct H|]. inv N.
  destruct (Nat.eqb y c) eqn:E.
  - apply Nat.eqb_eq in E. subst. contradiction.
  - destruct H as [->|H]; [rewrite Nat.eqb_refl in E; discriminate | apply IH; assumption].
Qed.
Lemma remove_nat_length : forall c l, In c l -> S (length (remove_nat c l)) = length l.
Proof.
  intros c l. induction l as [|y r IH]; intros H; [destruct H|]. cbn [remove_nat].
  destruct (Nat.eqb y c) eqn:E; [reflexivity|]. cbn [length]. f_equal. apply IH.
  destruct H as [->|H]; [rewrite Nat.eqb_refl in E; discriminate | exact H].
Qed.
Lemma remove_nat_NoDup : forall c l, NoDup l -> NoDup (remove_nat c l).
Proof.
  intros c l. induction l as [|y r IH]; intros N; cbn [remove_nat]; [constructor|]. inv N.
  destruct (Nat.eqb y c); [assumption|]. constructor; [intros H; apply remove_nat_In in H; contradiction | apply IH; assumption].
Qed.
Lemma NoDup_app_remove : forall c l1 l2, NoDup (l1 ++ l2) -> NoDup (l1 ++ remove_nat c l2).
Proof.
  intros c l1. induction l1 as [|y r IH]; intros l2 N; cbn [app] in *; [apply remove_nat_NoDup; exact N|]. inv N.
  constructor; [|apply IH; assumption]. intros H. apply in_app_or in H. apply H1. apply in_or_app.
  destruct H as [H|H]; [left; exact H | right; eapply remove_nat_In; eauto].
Qed.

Lemma NoDup_app_disj : forall (l1 l2 : list nat) x, NoDup (l1 ++ l2) -> In x l1 -> In x l2 -> False.
Proof.
  induction l1 as [|y r IH]; intros l2 x N H1 H2; [destruct H1|]. cbn [app] in N. inv N.
  destruct H1 as [->|H1]; [apply H3; apply in_or_app; right; exact H2 | eapply IH; eauto].
Qed.

Lemma NoDup_app_r : forall (l1 l2 : list nat), NoDup (l1 ++ l2) -> NoDup l2.
Proof. induction l1 as [|y r IH]; intros l2 N; [exact N|]. cbn [app] in N. inv N. apply IH. assumption. Qed.

Lemma target_of_spec : forall cfg c e t, target_of cfg c e = Some t ->
  route (prog cfg) (e_ty e) = Some t /\ t < n_ctx cfg /\ t <> c.
Proof.
  intros cfg c e t H. unfold target_of in H. destruct (route (prog cfg) (e_ty e)) as [t0|]; [|discriminate].
  destruct (Nat.ltb t0 (n_ctx cfg) && negb (Nat.eqb t0 c)) eqn:E; inv H.
  apply andb_prop in E. destruct E as [E1 E2]. apply Nat.ltb_lt in E1. apply negb_true_iff in E2. apply Nat.eqb_neq in E2. auto.
Qed.

Lemma fwd_outq_other : forall (f : nat -> cstate) c sender t m c', c' <> c -> t <> c ->
  outq (upd (upd f c sender) t (push_inbox (upd f c sender t) m) c') = outq (f c').
Proof.
  intros f c sender t m c' H1 H2. destruct (Nat.eq_dec c' t) as [->|H3].
  - rewrite upd_same. cbn [outq push_inbox]. rewrite (upd_other _ _ _ _ t H2). reflexivity.
  - rewrite (upd_other _ _ _ _ c' H3), (upd_other _ _ _ _ c' H1). reflexivity.
Qed.

(* a context queued on (or promised a slot of) inbox t is in the middle of forwarding to t *)
Definition sending_to (cfg : config) (s : state) (c t : nat) : Prop :=
  c < n_ctx cfg /\ exists e r, outq (cs s c) = e :: r /\ target_of cfg c e = Some t.

Definition waits_ok (cfg : config) (s : state) : Prop :=
  (forall t c, In c (wq s t ++ rs s t) -> sending_to cfg s c t)
  /\ (forall t, wq s t <> [] -> room cfg s t = false)
  /\ (forall t, NoDup (wq s t ++ rs s t)).

Lemma init_waits_ok : forall cfg, waits_ok cfg init.
Proof. intros cfg. split; [|split]; cbn; [intros t c [] | intros t H; contradiction | constructor]. Qed.

(* a step that leaves the waiter bookkeeping alone and the engine output queues of waiting contexts alone *)
Lemma waits_ok_frame : forall cfg s s',
  waits_ok cfg s -> wq s' = wq s -> rs s' = rs s ->
  (forall t c, In c (wq s t ++ rs s t) -> outq (cs s' c) = outq (cs s c)) ->
  (forall t, wq s t <> [] -> room cfg s' t = false) ->
  waits_ok cfg s'.
Proof.
  intros cfg s s' [W1 [W2 W3]] Hw Hr Ho H2. split; [|split].
  - intros t c Hin. rewrite Hw, Hr in Hin. destruct (W1 t c Hin) as [Hc [e [r [Eo Et]]]].
    split; [exact Hc|]. exists e, r. rewrite (Ho t c Hin). auto.
  - intros t Hne. rewrite Hw in Hne. apply H2. exact Hne.
  - intros t. rewrite Hw, Hr. apply W3.
Qed.

Lemma next_waits_ok : forall cfg s l s', waits_ok cfg s -> next cfg s l = Some s' -> waits_ok cfg s'.
Proof.
  intros cfg s l s' W Hn. pose proof W as [W1 [W2 W3]].
  destruct l as [e | c | c | c | | c | ]; cbn [next] in Hn.
  - (* Ingress *)
    destruct (route (prog cfg) (e_ty e)) as [t|]; [|discriminate].
    destruct (Nat.ltb t (n_ctx cfg) && room cfg s t) eqn:E; inv Hn. apply andb_prop in E. destruct E as [_ Er].
    apply (waits_ok_frame cfg s); auto.
    + intros t0 c _. cbn [cs set_cs]. unfold upd. destruct (Nat.eqb c t) eqn:E; [apply Nat.eqb_eq in E; subst; reflexivity | reflexivity].
    + intros t0 Hne. destruct (Nat.eq_dec t0 t) as [->|Hd]; [rewrite (W2 t Hne) in Er; discriminate|].
      unfold room. cbn [cs set_cs rs]. rewrite (upd_other _ _ _ _ t0 Hd). apply (W2 t0 Hne).
  - (* Recv *)
    destruct (Nat.ltb c (n_ctx cfg)) eqn:Hc; [|discriminate]. cbn [negb] in Hn.
    destruct (outq (cs s c)) eqn:Eo; [|discriminate].
    assert (Hnotc : forall t c', In c' (wq s t ++ rs s t) -> c' <> c).
    { intros t c' Hin ->. destruct (W1 t c Hin) as [_ [e [r [Eo' _]]]]. rewrite Eo in Eo'. discriminate. }
    assert (G : forall s1 r, length r < length (inbox (cs s c)) -> S (length r) = length (inbox (cs s c)) ->
              wq s1 = grant_wq s c -> rs s1 = grant_rs s c ->
              (forall x, x <> c -> cs s1 x = cs s x) -> inbox (cs s1 c) = r -> waits_ok cfg s1).
    { intros s1 r _ Hlen Hw Hr Hcs Hin. unfold grant_wq in Hw. unfold grant_rs in Hr.
      split; [|split].
      - intros t c' Hi.
        assert (Hold : In c' (wq s t ++ rs s t)).
        { rewrite Hw, Hr in Hi. destruct (wq s c) as [|w rest] eqn:Ew; [exact Hi|].
          unfold upd in Hi. destruct (Nat.eqb t c) eqn:E.
          - apply Nat.eqb_eq in E. subst t. rewrite Ew. apply in_app_or in Hi. destruct Hi as [Hi|Hi].
            + right. apply in_or_app. left. exact Hi.
            + apply in_app_or in Hi. destruct Hi as [Hi|[<-|[]]]; [right; apply in_or_app; right; exact Hi | left; reflexivity].
          - exact Hi. }
        destruct (W1 t c' Hold) as [Hc' [e [r' [Eo' Et]]]]. split; [exact Hc'|]. exists e, r'.
        rewrite (Hcs c' (Hnotc t c' Hold)). auto.
      - intros t Hne. rewrite Hw in Hne. unfold room. rewrite Hr.
        destruct (wq s c) as [|w rest] eqn:Ew.
        + destruct (Nat.eq_dec t c) as [->|Hd]; [rewrite Ew in Hne; contradiction|].
          rewrite (Hcs t Hd). apply (W2 t Hne).
        + unfold upd in *. destruct (Nat.eqb t c) eqn:E.
          * apply Nat.eqb_eq in E. subst t. assert (Hf : room cfg s c = false) by (apply W2; rewrite Ew; discriminate).
            unfold room in Hf. apply Nat.ltb_ge in Hf. apply Nat.ltb_ge. rewrite Hin, app_length. cbn [length]. lia.
          * apply Nat.eqb_neq in E. rewrite (Hcs t E). apply (W2 t Hne).
      - intros t. rewrite Hw, Hr. destruct (wq s c) as [|w rest] eqn:Ew; [apply W3|].
        unfold upd. destruct (Nat.eqb t c) eqn:E; [|apply W3].
        specialize (W3 c). rewrite Ew in W3. rewrite app_assoc.
        apply (Permutation_NoDup (l := w :: (rest ++ rs s c))); [apply Permutation_cons_append | exact W3]. }
    destruct (inbox (cs s c)) as [|[src e|id] r] eqn:Ei; [discriminate| |]; inv Hn;
      (apply (G _ r); cbn [length wq rs cs inbox]; auto; [intros x Hx; apply upd_other; exact Hx | rewrite upd_same; reflexivity]).
  - (* Route *)
    destruct (Nat.ltb c (n_ctx cfg)) eqn:Hc; [|discriminate]. cbn [negb] in Hn.
    destruct (outq (cs s c)) as [|e r] eqn:Eo; [discriminate|].
    assert (Huniq : forall t t', In c (wq s t ++ rs s t) -> target_of cfg c e = t' -> t' = Some t).
    { intros t t' Hin <-. destruct (W1 t c Hin) as [_ [e' [r' [Eo' Et]]]]. rewrite Eo in Eo'. inv Eo'. exact Et. }
    destruct (target_of cfg c e) as [t|] eqn:Et.
    + destruct (target_of_spec cfg c e t Et) as [_ [Htn Htc]].
      destruct (memb c (rs s t)) eqn:Mr.
      * (* the promised slot *)
        inv Hn. apply memb_In in Mr. split; [|split]; cbn [wq rs cs].
        -- intros t0 c' Hi.
           assert (Hold : In c' (wq s t0 ++ rs s t0) /\ c' <> c).
           { unfold upd in Hi. destruct (Nat.eqb t0 t) eqn:E.
             - apply Nat.eqb_eq in E. subst t0. apply in_app_or in Hi. destruct Hi as [Hi|Hi].
               + split; [apply in_or_app; left; exact Hi|]. intros ->. exact (NoDup_app_disj _ _ c (W3 t) Hi Mr).
               + split; [apply in_or_app; right; eapply remove_nat_In; eauto|]. intros ->.
                 apply (remove_nat_notin c (rs s t) (NoDup_app_r _ _ (W3 t))). exact Hi.
             - split; [exact Hi|]. intros ->. apply Nat.eqb_neq in E. apply E.
               assert (Some t = Some t0) by (apply (Huniq t0 (Some t) Hi eq_refl)). congruence. }
           destruct Hold as [Hold Hne]. destruct (W1 t0 c' Hold) as [Hc' [e' [r' [Eo' Et']]]]. split; [exact Hc'|]. exists e', r'.
           split; [|exact Et']. rewrite <- Eo'. apply fwd_outq_other; assumption.
        -- intros t0 Hne. unfold room. cbn [cs rs]. unfold upd. destruct (Nat.eqb t0 t) eqn:E.
           ++ apply Nat.eqb_eq in E. subst t0. pose proof (W2 t Hne) as Hf. unfold room in Hf. apply Nat.ltb_ge in Hf. apply Nat.ltb_ge.
              destruct (Nat.eqb t c) eqn:E2; [apply Nat.eqb_eq in E2; contradiction|]. cbn [inbox push_inbox]. rewrite app_length. cbn [length].
              pose proof (remove_nat_length c (rs s t) Mr). lia.
           ++ pose proof (W2 t0 Hne) as Hf. unfold room in Hf.
              destruct (Nat.eqb t0 c) eqn:E2; [apply Nat.eqb_eq in E2; subst t0; cbn [inbox]; exact Hf | exact Hf].
        -- intros t0. unfold upd. destruct (Nat.eqb t0 t) eqn:E; [|apply W3]. apply Nat.eqb_eq in E. subst t0. apply NoDup_app_remove. apply W3.
      * destruct (memb c (wq s t)) eqn:Mw; [discriminate|].
        assert (Hnot : forall t0, ~ In c (wq s t0 ++ rs s t0)).
        { intros t0 Hin. assert (Some t = Some t0) by (apply (Huniq t0 (Some t) Hin eq_refl)). inv H.
          apply in_app_or in Hin. destruct Hin as [Hin|Hin]; [apply (memb_false _ _ Mw); exact Hin | apply (memb_false _ _ Mr); exact Hin]. }
        destruct (room cfg s t) eqn:Erm.
        -- inv Hn. apply (waits_ok_frame cfg s); auto.
           ++ intros t0 c' Hin. cbn [cs]. assert (c' <> c) by (intros ->; exact (Hnot t0 Hin)). apply fwd_outq_other; assumption.
           ++ intros t0 Hne. destruct (Nat.eq_dec t0 t) as [->|Hd]; [rewrite (W2 t Hne) in Erm; discriminate|].
              pose proof (W2 t0 Hne) as Hf. unfold room in *. cbn [cs rs]. rewrite (upd_other _ _ _ _ t0 Hd).
              unfold upd. destruct (Nat.eqb t0 c) eqn:E0; [apply Nat.eqb_eq in E0; subst t0; cbn [inbox]|]; exact Hf.
        -- destruct (mode cfg); [|discriminate]. inv Hn. apply (waits_ok_frame cfg s); auto.
           ++ intros t0 c' Hin. cbn [cs]. assert (c' <> c) by (intros ->; exact (Hnot t0 Hin)). rewrite (upd_other _ _ _ _ c' H). reflexivity.
           ++ intros t0 Hne. pose proof (W2 t0 Hne) as Hf. unfold room in *. cbn [cs rs]. unfold upd. destruct (Nat.eqb t0 c) eqn:E0; [apply Nat.eqb_eq in E0; subst t0; cbn [inbox]|]; exact Hf.
    + inv Hn. apply (waits_ok_frame cfg s); auto.
      * intros t0 c' Hin. cbn [cs]. assert (c' <> c).
        { intros ->. assert (None = Some t0) by (apply (Huniq t0 None Hin eq_refl)). discriminate. }
        rewrite (upd_other _ _ _ _ c' H). reflexivity.
      * intros t0 Hne. pose proof (W2 t0 Hne) as Hf. unfold room in *. cbn [cs rs]. unfold upd. destruct (Nat.eqb t0 c) eqn:E0; [apply Nat.eqb_eq in E0; subst t0; cbn [inbox]|]; exact Hf.
  - (* Wait *)
    destruct (Nat.ltb c (n_ctx cfg)) eqn:Hc; [|discriminate]. cbn [negb] in Hn. apply Nat.ltb_lt in Hc.
    destruct (mode cfg); [discriminate|]. destruct (outq (cs s c)) as [|e r] eqn:Eo; [discriminate|].
    destruct (target_of cfg c e) as [t|] eqn:Et; [|discriminate].
    destruct (memb c (rs s t) || memb c (wq s t) || room cfg s t) eqn:E; inv Hn.
    apply orb_false_iff in E. destruct E as [E Erm]. apply orb_false_iff in E. destruct E as [Mr Mw].
    split; [|split]; cbn [wq rs cs].
    + intros t0 c' Hi. unfold upd in Hi. destruct (Nat.eqb t0 t) eqn:E1; [|apply W1; exact Hi].
      apply Nat.eqb_eq in E1. subst t0. apply in_app_or in Hi. destruct Hi as [Hi|Hi].
      * apply in_app_or in Hi. destruct Hi as [Hi|[<-|[]]]; [apply W1; apply in_or_app; left; exact Hi|].
        split; [exact Hc|]. exists e, r. auto.
      * apply W1. apply in_or_app. right. exact Hi.
    + intros t0 Hne. unfold room. cbn [cs rs]. unfold upd in Hne. destruct (Nat.eqb t0 t) eqn:E1; [apply Nat.eqb_eq in E1; subst; exact Erm | apply (W2 t0 Hne)].
    + intros t0. unfold upd. destruct (Nat.eqb t0 t) eqn:E1; [|apply W3]. apply Nat.eqb_eq in E1. subst t0.
      rewrite <- app_assoc. cbn [app]. apply (Permutation_NoDup (l := c :: (wq s t ++ rs s t))); [apply Permutation_middle|].
      constructor; [|apply W3]. intros Hin. apply in_app_or in Hin.
      destruct Hin as [Hin|Hin]; [apply (memb_false _ _ Mw); exact Hin | apply (memb_false _ _ Mr); exact Hin].
  - (* Init *)
    destruct (pending s); inv Hn. apply (waits_ok_frame cfg s); auto.
  - (* BSend *)
    destruct (pending s) as [p|]; [|discriminate].
    destruct (existsb (Nat.eqb c) (p_tosend p)); inv Hn. apply (waits_ok_frame cfg s); auto.
    + intros t0 c' _. cbn [cs]. destruct (room cfg s c); [|reflexivity]. unfold upd.
      destruct (Nat.eqb c' c) eqn:E; [apply Nat.eqb_eq in E; subst; reflexivity | reflexivity].
    + intros t0 Hne. pose proof (W2 t0 Hne) as Hf. unfold room in *. cbn [cs rs].
      destruct (Nat.ltb (length (inbox (cs s c)) + length (rs s c)) (cap cfg)) eqn:Er; [|exact Hf].
      destruct (Nat.eq_dec t0 c) as [->|Hd]; [rewrite Er in Hf; discriminate | rewrite (upd_other _ _ _ _ t0 Hd); exact Hf].
  - (* AckRecv *)
    destruct (ackq s) as [|[[c id] sn] r]; [discriminate|].
    destruct (pending s) as [p|].
    + destruct (p_tosend p); [|discriminate].
      destruct (N.eqb id (p_id p)); [destruct (Nat.eqb (length (put_ack c sn (p_acks p))) (n_ctx cfg))|]; inv Hn; apply (waits_ok_frame cfg s); auto.
    + inv Hn. apply (waits_ok_frame cfg s); auto.
Qed.

Lemma run_waits_ok : forall cfg sched s s', waits_ok cfg s -> run cfg s sched = Some s' -> waits_ok cfg s'.
Proof.
  intros cfg sched. induction sched as [|l r IH]; intros s s' W Hr; cbn [run] in Hr.
  - inv Hr. exact W.
  - destruct (next cfg s l) as [s1|] eqn:En; [|discriminate]. eapply IH; [eapply next_waits_ok; eauto | exact Hr].
Qed.

(* ---- progress ---- *)
Definition ranked (cfg : config) : Prop :=
  forall s t, In s (prog cfg) -> route (prog cfg) (s_name s) = Some t -> t <> s_ctx s -> s_ctx s < t.
Definition rankedb (cfg : config) : bool :=
  forallb (fun s => match route (prog cfg) (s_name s) with
                    | Some t => Nat.eqb t (s_ctx s) || Nat.ltb (s_ctx s) t
                    | None => true end) (prog cfg).
Lemma rankedb_sound : forall cfg, rankedb cfg = true -> ranked cfg.
Proof.
  intros cfg H s t Hin Hr Hne. unfold rankedb in H. rewrite forallb_forall in H. specialize (H s Hin). rewrite Hr in H.
  apply orb_prop in H. destruct H as [H|H]; [apply Nat.eqb_eq in H; contradiction | apply Nat.ltb_lt in H; exact H].
Qed.

Definition has_work (s : state) (c : nat) : Prop := inbox (cs s c) <> [] \/ outq (cs s c) <> [].
(* a context can take its next inbox message, or complete the forward of its next engine output *)
Definition can_step (cfg : config) (s : state) (c : nat) : Prop :=
  (exists s', next cfg s (Recv c) = Some s') \/ (exists s', next cfg s (Route c) = Some s').

Lemma progress_from : forall cfg s, 1 <= cap cfg -> ranked cfg -> outq_wf cfg s -> waits_ok cfg s ->
  forall k c, n_ctx cfg - c <= k -> c < n_ctx cfg -> has_work s c -> exists c', c' < n_ctx cfg /\ can_step cfg s c'.
Proof.
  intros cfg s Hcap Hrk W [W1 [W2 W3]]. induction k as [|k IH]; intros c Hk Hc Hw; [lia|].
  assert (Hlt : Nat.ltb c (n_ctx cfg) = true) by (apply Nat.ltb_lt; exact Hc).
  destruct (outq (cs s c)) as [|e r] eqn:Eo.
  - destruct Hw as [Hw|Hw]; [|contradiction].
    exists c. split; [exact Hc|]. left. cbn [next]. rewrite Hlt. cbn [negb]. rewrite Eo.
    destruct (inbox (cs s c)) as [|[src e|id] r]; [contradiction| |]; eexists; reflexivity.
  - destruct (next cfg s (Route c)) as [s'|] eqn:En; [exists c; split; [exact Hc|]; right; exists s'; exact En|].
    cbn [next] in En. rewrite Hlt in En. cbn [negb] in En. rewrite Eo in En.
    destruct (target_of cfg c e) as [t|] eqn:Et; [|discriminate].
    destruct (target_of_spec cfg c e t Et) as [Er [Ht Htc]].
    destruct (memb c (rs s t)) eqn:Mr; [discriminate|].
    assert (Hfull : room cfg s t = false).
    { destruct (memb c (wq s t)) eqn:Mw.
      - apply W2. apply memb_In in Mw. intros E0. rewrite E0 in Mw. destruct Mw.
      - destruct (room cfg s t); [discriminate | reflexivity]. }
    unfold room in Hfull. apply Nat.ltb_ge in Hfull.
    destruct (rs s t) as [|c' rest] eqn:Ers.
    + (* the target's queue itself is full: the target has work and a larger index *)
      destruct (W c e) as [st [Hin [Hctx Hname]]]; [rewrite Eo; left; reflexivity|].
      assert (c < t). { subst c. apply (Hrk st t Hin); [rewrite Hname; exact Er | exact Htc]. }
      apply (IH t); [lia | exact Ht |]. left. cbn [length] in Hfull. destruct (inbox (cs s t)); [cbn in Hfull; lia | discriminate].
    + (* a waiter holds a promised slot of the target: it can complete its forward *)
      destruct (W1 t c') as [Hc' [e' [r' [Eo' Et']]]]; [apply in_or_app; right; rewrite Ers; left; reflexivity|].
      exists c'. split; [exact Hc'|]. right. cbn [next]. apply Nat.ltb_lt in Hc'. rewrite Hc'. cbn [negb]. rewrite Eo', Et'.
      assert (M : memb c' (rs s t) = true) by (apply memb_In; rewrite Ers; left; reflexivity). rewrite M. eexists. reflexivity.
Qed.
