(* Interpreter + rendering for the correspondence checks of C26/C27 (evaluated by vm_compute).

   The harness drives the real runtime at the granularity of one poll of a context's run() future; each such
   macro step is expanded here into the labels of Ctx.Model ([poll], [minit], [mcomplete]), so that what the
   implementation did is, by construction, compared with a schedule of the model's transition system
   (Ctx/Proofs.v: poll_is_run etc.). *)
From Coq Require Import String Ascii.
From VP Require Import Base.Tactics Base.Render Ctx.Model.
Open Scope string_scope.

Inductive macro := MIngress (e : event) | MPoll (c : nat) | MInit | MComplete | MRestore.

(* ContextRuntime::run polled until it blocks: route pending engine output, else take the next inbox message;
   a forward that finds the target inbox full leaves the context queued as a waiter of that inbox *)
Fixpoint poll (cfg : config) (fuel : nat) (s : state) (c : nat) : state * list label :=
  match fuel with
  | O => (s, [])
  | S f =>
    let l := match outq (cs s c) with [] => Recv c | _ :: _ => Route c end in
    match next cfg s l with
    | Some s' => let '(s2, ls) := poll cfg f s' c in (s2, l :: ls)
    | None => match next cfg s (Wait c) with
              | Some s' => (s', [Wait c])
              | None => (s, [])
              end
    end
  end.

Fixpoint run_labels (cfg : config) (s : state) (ls : list label) : state * list label :=
  match ls with
  | [] => (s, [])
  | l :: r => match next cfg s l with
              | Some s' => let '(s2, done) := run_labels cfg s' r in (s2, l :: done)
              | None => (s, [])
              end
  end.

(* CheckpointCoordinator::initiate: one barrier per context, no other thread in between *)
Definition minit (cfg : config) (s : state) : state * list label :=
  run_labels cfg s (Init :: map BSend (seq 0 (n_ctx cfg))).

(* CheckpointCoordinator::try_complete: drain acks until one completes the checkpoint *)
Fixpoint mcomplete (cfg : config) (fuel : nat) (s : state) : state * list label :=
  match fuel with
  | O => (s, [])
  | S f =>
    match next cfg s AckRecv with
    | Some s' => if Nat.ltb (length (completed s)) (length (completed s')) then (s', [AckRecv])
                 else let '(s2, ls) := mcomplete cfg f s' in (s2, AckRecv :: ls)
    | None => (s, [])
    end
  end.

Definition str_of_event (e : event) : string := str_of_N (e_ty e) ++ ":" ++ str_of_Z (e_id e) ++ ":" ++ str_of_Z (e_v e).
Definition new_output (s s' : state) : list event := skipn (length (output s)) (output s').
(* what Sender::capacity shows: queued messages plus slots promised to waiting senders *)
Definition str_inboxes (cfg : config) (s : state) : string :=
  join "," (map (fun c => str_of_nat (length (inbox (cs s c)) + length (rs s c))) (seq 0 (n_ctx cfg))).
Definition str_consumed (cfg : config) (cp : list (nat * snap)) : string :=
  join "," (map (fun c => match find_snap c cp with Some sn => str_of_N (sn_consumed sn) | None => "-" end) (seq 0 (n_ctx cfg))).

Definition obs (cfg : config) (r : string) (outs : list event) (s' : state) : string :=
  r ++ ";" ++ join "," (map str_of_event outs) ++ ";" ++ str_inboxes cfg s'.

(* one macro step: new state, new store of persisted checkpoints, expanded labels, observation *)
Definition mstep (cfg : config) (fuel : nat) (s : state) (store : list (list (nat * snap))) (m : macro)
  : state * list (list (nat * snap)) * list label * string :=
  match m with
  | MIngress e =>
    match next cfg s (Ingress e) with
    | Some s' => (s', store, [Ingress e], obs cfg "ok" [] s')
    | None => (s, store, [], obs cfg (match route (prog cfg) (e_ty e) with Some _ => "full" | None => "unrouted" end) [] s)
    end
  | MPoll c => let '(s', ls) := poll cfg fuel s c in (s', store, ls, obs cfg "-" (new_output s s') s')
  | MInit =>
    match pending s with
    | Some _ => (s, store, [], obs cfg "already-pending" [] s)
    | None => let '(s', ls) := minit cfg s in (s', store, ls, obs cfg "ok" [] s')
    end
  | MComplete =>
    let '(s', ls) := mcomplete cfg fuel s in
    if Nat.ltb (length (completed s)) (length (completed s'))
    then let cp := snd (last (completed s') (0%N, [])) in
         (s', (store ++ [cp])%list, ls, obs cfg "completed" [] s' ++ ";" ++ str_consumed cfg cp)
    else (s', store, ls, obs cfg "pending" [] s')
  | MRestore =>
    let cp := last store [] in
    let s' := restore cp in
    (s', store, [], obs cfg "restored" [] s' ++ ";" ++ str_consumed cfg cp)
  end.

Fixpoint msteps (cfg : config) (fuel : nat) (s : state) (store : list (list (nat * snap))) (ms : list macro)
  : list string * list label * state * list (list (nat * snap)) :=
  match ms with
  | [] => ([], [], s, store)
  | m :: r =>
    let '(s1, st1, ls, o) := mstep cfg fuel s store m in
    let '(os, ls2, s2, st2) := msteps cfg fuel s1 st1 r in
    (o :: os, (ls ++ ls2)%list, s2, st2)
  end.

Definition str_of_label (l : label) : string :=
  match l with
  | Ingress e => "I" ++ str_of_event e
  | Recv c => "R" ++ str_of_nat c
  | Route c => "F" ++ str_of_nat c
  | Wait c => "W" ++ str_of_nat c
  | Init => "N"
  | BSend c => "B" ++ str_of_nat c
  | AckRecv => "A"
  end.

Definition str_route (cfg : config) (tys : list N) : string :=
  join "," (map (fun t => str_of_N t ++ ">" ++ str_opt str_of_nat (route (prog cfg) t)) tys).

(* the schedule of the transition system a macro schedule stands for (for inspection) *)
Definition ctx_labels (n cap : nat) (blocking : bool) (p : list stream) (ms : list macro) : string :=
  let cfg := {| n_ctx := n; cap := cap; mode := if blocking then Block else Drop; prog := p |} in
  let '(os, ls, s, store) := msteps cfg 400 init [] ms in join " " (map str_of_label ls).

(* One case in full: observations per macro step # routing table # verdicts:
   D = delivery_exact at the end, K = cut_consistent of every persisted checkpoint (in order) *)
Definition ctx_case_full (n cap : nat) (blocking : bool) (p : list stream) (tys : list N) (ms : list macro) : string :=
  let cfg := {| n_ctx := n; cap := cap; mode := if blocking then Block else Drop; prog := p |} in
  let '(os, ls, s, store) := msteps cfg 400 init [] ms in
  join "|" os ++ "#" ++ str_route cfg tys
  ++ "#D=" ++ str_of_bool (delivery_exactb n s)
  ++ ";K=" ++ join "," (map (fun cp => str_of_bool (cut_consistentb n cp)) store).

(* printing long strings dominates the cost of a check run, so the per-step observations are compared through a
   digest (the driver computes the same digest of the implementation's observations and asks for the full string of
   a case only when the digests differ) *)
Fixpoint digest_acc (s : string) (h : N) : N :=
  match s with
  | EmptyString => h
  | String c r => digest_acc r (N.modulo (h * 131 + N_of_ascii c) 2305843009213693951)
  end.
Definition digest (s : string) : N := digest_acc s 7.

Definition ctx_case (n cap : nat) (blocking : bool) (p : list stream) (tys : list N) (ms : list macro) : string :=
  let cfg := {| n_ctx := n; cap := cap; mode := if blocking then Block else Drop; prog := p |} in
  let '(os, ls, s, store) := msteps cfg 400 init [] ms in
  str_of_N (digest (join "|" os)) ++ "#" ++ str_route cfg tys
  ++ "#D=" ++ str_of_bool (delivery_exactb n s)
  ++ ";K=" ++ join "," (map (fun cp => str_of_bool (cut_consistentb n cp)) store).

(* the reference: the same program in one engine (no contexts), one output list per input event *)
Definition ref_case (p : list stream) (evs : list event) : string :=
  join "|" (map (fun e => join "," (map str_of_event (engine p e))) evs).
