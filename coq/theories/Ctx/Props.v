(* C26 / C27 — property theorems only.  Model: Ctx/Model.v (the transition system run in the correspondence
   checks, Ctx/Run.v); lemmas: Ctx/Proofs.v, ProofsLive.v, ProofsCut.v, ProofsRun.v, ProofsAligned.v.

   "For every thread schedule" = for every list of labels [sched] with [run cfg init sched = Some s]: each label is one
   atomic action of one thread (an input dispatch, one context taking one inbox message through its engine, one
   forward of one engine output, the coordinator putting one barrier into one inbox, the coordinator taking one
   ack), and [run] is defined exactly when every action of the list is enabled when its turn comes.
   [mode cfg = Block] is the code (forward with send().await); [Drop] is the try_send design. *)
From VP Require Import Base.Tactics Ctx.Model Ctx.Run Ctx.Proofs Ctx.ProofsLive Ctx.ProofsCut Ctx.ProofsRun Ctx.Aligned Ctx.ProofsAligned.

(* ===== C26 ===== *)

(* Every event produced for a stream in another context is delivered exactly once and in production order, for
   every program, every capacity, every number of contexts and every schedule: what b has consumed from a, followed
   by what waits in b's inbox, is the list of what a has sent to b. *)
Theorem C26_delivery : forall cfg sched s,
  mode cfg = Block -> run cfg init sched = Some s ->
  forall a b, a <> b ->
    recv_from a (g_recv (cs s b)) ++ inflight a (inbox (cs s b)) = sent_to b (g_sent (cs s a)).
Proof. intros cfg sched s Hm Hr. exact (run_delivery_exact cfg sched init s Hm init_delivery_exact Hr). Qed.

(* ... in particular once b's inbox is empty it has consumed exactly what was sent to it, in order *)
Theorem C26_delivered_when_drained : forall cfg sched s a b,
  mode cfg = Block -> run cfg init sched = Some s -> a <> b -> inbox (cs s b) = [] ->
  recv_from a (g_recv (cs s b)) = sent_to b (g_sent (cs s a)).
Proof.
  intros cfg sched s a b Hm Hr Hab Hi. pose proof (C26_delivery cfg sched s Hm Hr a b Hab) as H.
  rewrite Hi in H. cbn [inflight flat_map] in H. rewrite app_nil_r in H. exact H.
Qed.

(* The blocking forward keeps delivery exact from any exact state (all schedules, all capacities). *)
Theorem C26_blocking_variant : forall cfg sched s s',
  mode cfg = Block -> delivery_exact s -> run cfg s sched = Some s' -> delivery_exact s'.
Proof. exact run_delivery_exact. Qed.

(* The try_send design (forward with try_send, failure ignored) loses events: 2 contexts, capacity 1. *)
Theorem C26_delivery_trysend_refuted : exists cfg sched s,
  mode cfg = Drop /\ n_ctx cfg = 2 /\ cap cfg = 1 /\ run cfg init sched = Some s /\
  ~ (forall a b, a <> b -> recv_from a (g_recv (cs s b)) ++ inflight a (inbox (cs s b)) = sent_to b (g_sent (cs s a))).
Proof.
  destruct trysend_refuted as [sched [s [Hr Hn]]]. exists (w_cfg Drop), sched, s. repeat split; auto.
Qed.

(* The blocking forward cannot deadlock when the context graph is ranked (every cross-context forward goes to a
   context with a larger index, i.e. the graph is acyclic up to renaming): whenever a context has a message or an
   engine output waiting, some context can take its next inbox message or complete its next forward — with
   tokio's waiter queues and promised slots as modelled by [Wait] / [wq] / [rs]. *)
Theorem C26_no_deadlock_acyclic : forall cfg sched s c,
  1 <= cap cfg -> ranked cfg -> run cfg init sched = Some s ->
  c < n_ctx cfg -> has_work s c -> exists c', c' < n_ctx cfg /\ can_step cfg s c'.
Proof.
  intros cfg sched s c Hcap Hrk Hr Hc Hw.
  apply (progress_from cfg s Hcap Hrk (run_outq_wf cfg sched init s (init_outq_wf cfg) Hr)
           (run_waits_ok cfg sched init s (init_waits_ok cfg) Hr) (n_ctx cfg - c) c (Nat.le_refl _) Hc Hw).
Qed.
Example C26_no_deadlock_hyp : 1 <= cap (w_cfg Block) /\ ranked (w_cfg Block).
Proof. split; [cbn; lia | apply rankedb_sound; reflexivity]. Qed.

(* Known finding "type-consumed-in-two-contexts": some event type is the source of streams of two different contexts.
   The routing table sends a type to ONE context, so the streams of the other context never see it: on such a
   program the run with contexts ends (nothing left to do anywhere) without an output the context-free engine
   produces.  (Outside the class the equality of the outputs with the context-free engine is tested, not proved.) *)
Definition Known_C26_two_consumers (p : list stream) : bool :=
  existsb (fun s1 => existsb (fun s2 => N.eqb (s_src s1) (s_src s2) && negb (Nat.eqb (s_ctx s1) (s_ctx s2))) p) p.

Theorem C26_two_consumers_refuted : exists cfg sched s e x,
  mode cfg = Block /\ Known_C26_two_consumers (prog cfg) = true /\
  run cfg init (Ingress e :: sched) = Some s /\ quiescent (n_ctx cfg) s /\
  In x (engine (prog cfg) e) /\ ~ In x (output s).
Proof.
  exists {| n_ctx := 3; cap := 4; mode := Block;
            prog := [ {| s_name := 100; s_src := 0; s_ctx := 0; s_thr := 0 |};
                      {| s_name := 101; s_src := 100; s_ctx := 1; s_thr := 0 |};
                      {| s_name := 102; s_src := 100; s_ctx := 2; s_thr := 0 |} ] |}.
  exists [Recv 0; Route 0; Recv 2; Route 2]. eexists. exists w_e1, {| e_ty := 101; e_id := 1; e_v := 5 |}.
  split; [reflexivity|]. split; [vm_compute; reflexivity|]. split; [vm_compute; reflexivity|].
  split; [apply quiescentb_sound; vm_compute; reflexivity|].
  split; [vm_compute; auto|]. vm_compute. intros [H|[H|[]]]; discriminate.
Qed.

(* What the correspondence check replays on the implementation (polls, initiate, try_complete) is a schedule of this
   transition system. *)
Theorem C26_macro_steps_are_schedules : forall cfg fuel ms s store os ls s' store',
  forallb (fun m => negb (is_restore m)) ms = true ->
  msteps cfg fuel s store ms = (os, ls, s', store') -> run cfg s ls = Some s'.
Proof. exact msteps_is_run. Qed.

(* ===== C27 ===== *)

(* Known finding "checkpoint-not-at-quiescence": barriers are injected while some context still has a message or an
   engine output waiting, or an input is dispatched before the checkpoint completes.
   [pre] = schedule up to the barrier injection, [post] = the rest. *)
Definition Known_C27_not_at_quiescence (cfg : config) (pre post : list label) : bool :=
  match run cfg init pre with
  | Some s => negb (quiescentb (n_ctx cfg) s && no_ingress post)
  | None => false
  end.

(* Outside that class every checkpoint completed by the coordinator is a consistent cut, for every schedule. *)
Theorem C27_consistent_cut : forall cfg pre post s s',
  mode cfg = Block -> run cfg init pre = Some s -> run cfg s post = Some s' ->
  Known_C27_not_at_quiescence cfg pre post = false ->
  forall cp, In cp (completed s') -> In cp (completed s) \/ cut_consistent (n_ctx cfg) (snd cp).
Proof.
  intros cfg pre post s s' Hm Hpre Hpost Hk. unfold Known_C27_not_at_quiescence in Hk. rewrite Hpre in Hk.
  apply negb_false_iff in Hk. apply andb_prop in Hk. destruct Hk as [Hq Hni].
  apply (quiescent_cut_consistent cfg s post s' Hm); auto.
  - intros a b _ _ Hab. exact (C26_delivery cfg pre s Hm Hpre a b Hab).
  - apply quiescentb_sound. exact Hq.
Qed.
Example C27_consistent_cut_hyp :
  let pre := [Ingress w_e1; Recv 0; Route 0; Recv 1; Route 1] in
  let post := [Init; BSend 0; BSend 1; Recv 1; Recv 0; AckRecv; AckRecv] in
  Known_C27_not_at_quiescence c27_cfg pre post = false /\
  exists s s', run c27_cfg init pre = Some s /\ run c27_cfg s post = Some s' /\ length (completed s') = 1.
Proof. split; [vm_compute; reflexivity|]. eexists. eexists. split; [vm_compute; reflexivity|]. split; vm_compute; reflexivity. Qed.

(* Inside the class the statement fails: the barrier overtakes an event in flight (2 contexts, one event). *)
Theorem C27_not_at_quiescence_refuted : exists cfg pre post s s' cp,
  mode cfg = Block /\ Known_C27_not_at_quiescence cfg pre post = true /\
  run cfg init pre = Some s /\ run cfg s post = Some s' /\
  In cp (completed s') /\ ~ In cp (completed s) /\ ~ cut_consistent (n_ctx cfg) (snd cp).
Proof.
  exists c27_cfg, [Ingress w_e1], (tl c27_sched).
  eexists. eexists. exists (1%N, c27_cp). split; [reflexivity|]. split; [vm_compute; reflexivity|].
  split; [vm_compute; reflexivity|]. split; [vm_compute; reflexivity|].
  split; [left; reflexivity|]. split; [intros []|]. exact c27_witness_inconsistent.
Qed.

(* so the unrestricted statement is refuted *)
Theorem C27_consistent_cut_refuted : exists cfg sched s cp,
  mode cfg = Block /\ run cfg init sched = Some s /\ In cp (completed s) /\ ~ cut_consistent (n_ctx cfg) (snd cp).
Proof.
  destruct c27_witness_run as [s [Hr Hc]]. exists c27_cfg, c27_sched, s, (1%N, c27_cp).
  split; [reflexivity|]. split; [exact Hr|]. split; [rewrite Hc; left; reflexivity | exact c27_witness_inconsistent].
Qed.

(* Restore and replay: restart every context from its snapshot (all channels empty), then run ANY schedule (any
   replay of inputs, any interleaving).  For contexts a, b of the checkpoint, delivery from a to b is exactly-once in
   the recovered run iff the checkpoint is consistent for that pair: an inconsistent cut is never repaired. *)
Theorem C27_restore_exactly_once_iff : forall cfg cp sched s' a b sa sb,
  mode cfg = Block -> a <> b -> find_snap a cp = Some sa -> find_snap b cp = Some sb ->
  run cfg (restore cp) sched = Some s' ->
  (recv_from a (g_recv (cs s' b)) ++ inflight a (inbox (cs s' b)) = sent_to b (g_sent (cs s' a))
   <-> recv_from a (sn_recv sb) = sent_to b (sn_sent sa)).
Proof. exact restore_exact_iff. Qed.

(* On the witness: after the restart the event that was in flight is lost for good. *)
Theorem C27_witness_lost_forever : forall sched s', run c27_cfg (restore c27_cp) sched = Some s' ->
  recv_from 0 (g_recv (cs s' 1)) ++ inflight 0 (inbox (cs s' 1)) <> sent_to 1 (g_sent (cs s' 0)).
Proof. exact c27_witness_lost_forever. Qed.

(* Reference design (Ctx/Aligned.v): barriers flow through the data channels and a context snapshots when the barrier
   has arrived on every input channel.  Then every schedule gives consistent cuts: the k-th snapshot of b has consumed
   from a exactly what the k-th snapshot of a has sent to b. *)
Theorem C27_aligned_consistent : forall g sched s a b k sa sb,
  arun g ainit sched = Some s -> In (a, b) (a_edges g) ->
  nth_error (a_snaps s a) k = Some sa -> nth_error (a_snaps s b) k = Some sb ->
  as_recv sb a = as_sent sa b.
Proof. exact aligned_consistent. Qed.
