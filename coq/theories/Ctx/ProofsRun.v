(* The macro steps the harness drives (one poll of a context's run() future, initiate, try_complete) are schedules
   of the transition system: what Ctx/Run.v computes for the correspondence check is [run] on the expanded labels. *)
From Coq Require Import String.
From VP Require Import Base.Tactics Ctx.Model Ctx.Run.

Lemma run_app : forall cfg l1 l2 s s1 s2, run cfg s l1 = Some s1 -> run cfg s1 l2 = Some s2 -> run cfg s (l1 ++ l2) = Some s2.
Proof.
  intros cfg l1. induction l1 as [|l r IH]; intros l2 s s1 s2 H1 H2; cbn [run app] in *.
  - inv H1. exact H2.
  - destruct (next cfg s l) as [s'|]; [|discriminate]. eapply IH; eauto.
Qed.

Lemma poll_is_run : forall cfg fuel s c s' ls, poll cfg fuel s c = (s', ls) -> run cfg s ls = Some s'.
Proof.
  intros cfg fuel. induction fuel as [|f IH]; intros s c s' ls H; cbn [poll] in H; [inv H; reflexivity|].
  destruct (next cfg s (match outq (cs s c) with [] => Recv c | _ :: _ => Route c end)) as [s1|] eqn:En.
  - destruct (poll cfg f s1 c) as [s2 ls2] eqn:Ep. inv H. cbn [run]. rewrite En. eapply IH; eauto.
  - destruct (next cfg s (Wait c)) as [s1|] eqn:Ew; inv H; cbn [run]; [rewrite Ew|]; reflexivity.
Qed.

Lemma run_labels_is_run : forall cfg ls s s' done, run_labels cfg s ls = (s', done) -> run cfg s done = Some s'.
Proof.
  intros cfg ls. induction ls as [|l r IH]; intros s s' done H; cbn [run_labels] in H; [inv H; reflexivity|].
  destruct (next cfg s l) as [s1|] eqn:En; [|inv H; reflexivity].
  destruct (run_labels cfg s1 r) as [s2 d2] eqn:Er. inv H. cbn [run]. rewrite En. eapply IH; eauto.
Qed.

Lemma mcomplete_is_run : forall cfg fuel s s' ls, mcomplete cfg fuel s = (s', ls) -> run cfg s ls = Some s'.
Proof.
  intros cfg fuel. induction fuel as [|f IH]; intros s s' ls H; cbn [mcomplete] in H; [inv H; reflexivity|].
  destruct (next cfg s AckRecv) as [s1|] eqn:En; [|inv H; reflexivity].
  destruct (Nat.ltb (length (completed s)) (length (completed s1))).
  - inv H. cbn [run]. rewrite En. reflexivity.
  - destruct (mcomplete cfg f s1) as [s2 ls2] eqn:Em. inv H. cbn [run]. rewrite En. eapply IH; eauto.
Qed.

Definition is_restore (m : macro) : bool := match m with MRestore => true | _ => false end.

Lemma mstep_is_run : forall cfg fuel s store m s' store' ls o,
  is_restore m = false -> mstep cfg fuel s store m = (s', store', ls, o) -> run cfg s ls = Some s'.
Proof.
  intros cfg fuel s store m s' store' ls o Hm H. destruct m as [e|c| | |]; [| | | |discriminate]; cbn [mstep] in H.
  - destruct (next cfg s (Ingress e)) as [s1|] eqn:En; inv H; cbn [run]; [rewrite En|]; reflexivity.
  - destruct (poll cfg fuel s c) as [s1 l1] eqn:Ep. inv H. eapply poll_is_run; eauto.
  - destruct (pending s); [inv H; reflexivity|]. destruct (minit cfg s) as [s1 l1] eqn:Ei. inv H.
    unfold minit in Ei. eapply run_labels_is_run; eauto.
  - destruct (mcomplete cfg fuel s) as [s1 l1] eqn:Ec.
    destruct (Nat.ltb (length (completed s)) (length (completed s1))); inv H; eapply mcomplete_is_run; eauto.
Qed.

(* a macro schedule without restart is one schedule of the model *)
Lemma msteps_is_run : forall cfg fuel ms s store os ls s' store',
  forallb (fun m => negb (is_restore m)) ms = true ->
  msteps cfg fuel s store ms = (os, ls, s', store') -> run cfg s ls = Some s'.
Proof.
  intros cfg fuel ms. induction ms as [|m r IH]; intros s store os ls s' store' Hnr H; cbn [msteps] in H; [inv H; reflexivity|].
  cbn [forallb] in Hnr. apply andb_prop in Hnr. destruct Hnr as [H1 H2]. apply negb_true_iff in H1.
  destruct (mstep cfg fuel s store m) as [[[s1 st1] l1] o1] eqn:Em.
  destruct (msteps cfg fuel s1 st1 r) as [[[os2 ls2] s2] st2] eqn:Er. inv H.
  eapply run_app; [eapply mstep_is_run; eauto | eapply IH; eauto].
Qed.
