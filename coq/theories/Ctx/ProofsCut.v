(* Lemmas for C27 on the transition system of Ctx/Model.v (blocking forward = the code):
   - every step appends the same events to "sent by a to b" and to "consumed by b from a ++ waiting in b's inbox"
     (so, started from ANY state, a run keeps the initial discrepancy between the two for ever);
   - hence a restart from a checkpoint is exactly-once afterwards iff the checkpoint is a consistent cut;
   - the coordinator's checkpoints are NOT consistent cuts in general (witness: the barrier overtakes an event in flight);
   - they are when the barriers are injected at a quiescent point and no input arrives before completion. *)
From VP Require Import Base.Tactics Ctx.Model Ctx.Proofs.

Definition sent_ab (s : state) (a b : nat) : list event := sent_to b (g_sent (cs s a)).
Definition got_ab (s : state) (a b : nat) : list event := recv_from a (g_recv (cs s b)) ++ inflight a (inbox (cs s b)).

Lemma next_delta : forall cfg s l s' a b,
  mode cfg = Block -> a <> b -> next cfg s l = Some s' ->
  exists d, sent_ab s' a b = sent_ab s a b ++ d /\ got_ab s' a b = got_ab s a b ++ d.
Proof.
  intros cfg s l s' a b Hm Hab Hn. unfold sent_ab, got_ab.
  destruct l as [e | c | c | c | | c | ]; cbn [next] in Hn.
  - destruct (route (prog cfg) (e_ty e)) as [t|]; [|discriminate].
    destruct (Nat.ltb t (n_ctx cfg) && room cfg s t); inv Hn. exists []. rewrite !app_nil_r. cbn [cs set_cs].
    split.
    + destruct (Nat.eq_dec a t) as [->|Ha]; [rewrite upd_same | rewrite (upd_other _ _ _ _ a Ha)]; reflexivity.
    + destruct (Nat.eq_dec b t) as [->|Hb]; [rewrite upd_same | rewrite (upd_other _ _ _ _ b Hb); reflexivity].
      cbn [inbox g_recv push_inbox]. rewrite inflight_app. cbn [inflight flat_map]. rewrite app_nil_r. reflexivity.
  - destruct (negb (Nat.ltb c (n_ctx cfg))); [discriminate|].
    destruct (outq (cs s c)) eqn:Eo; [|discriminate].
    destruct (inbox (cs s c)) as [|[src e|id] r] eqn:Ei; [discriminate| |]; inv Hn; exists []; rewrite !app_nil_r; cbn [cs set_cs]; split.
    + destruct (Nat.eq_dec a c) as [->|Ha]; [rewrite upd_same | rewrite (upd_other _ _ _ _ a Ha)]; reflexivity.
    + destruct (Nat.eq_dec b c) as [->|Hb]; [rewrite upd_same | rewrite (upd_other _ _ _ _ b Hb); reflexivity].
      cbn [inbox g_recv]. rewrite Ei, recv_from_app, recv_from_single, inflight_cons_ev, <- app_assoc. reflexivity.
    + destruct (Nat.eq_dec a c) as [->|Ha]; [rewrite upd_same | rewrite (upd_other _ _ _ _ a Ha)]; reflexivity.
    + destruct (Nat.eq_dec b c) as [->|Hb]; [rewrite upd_same | rewrite (upd_other _ _ _ _ b Hb); reflexivity].
      cbn [inbox g_recv]. rewrite Ei, inflight_cons_bar. reflexivity.
  - destruct (negb (Nat.ltb c (n_ctx cfg))); [discriminate|].
    destruct (outq (cs s c)) as [|e r] eqn:Eo; [discriminate|].
    destruct (target_of cfg c e) as [t|] eqn:Et.
    + assert (Htc : t <> c).
      { unfold target_of in Et. destruct (route (prog cfg) (e_ty e)) as [t0|]; [|discriminate].
        destruct (Nat.ltb t0 (n_ctx cfg) && negb (Nat.eqb t0 c)) eqn:E2; [|discriminate]. inv Et.
        apply andb_prop in E2. destruct E2 as [_ E2]. apply negb_true_iff in E2. apply Nat.eqb_neq in E2. exact E2. }
      assert (Hfwd : forall s1, next_fwd_cs s c t e r (cs s1) ->
                exists d, sent_to b (g_sent (cs s1 a)) = sent_to b (g_sent (cs s a)) ++ d /\
                          recv_from a (g_recv (cs s1 b)) ++ inflight a (inbox (cs s1 b)) =
                          (recv_from a (g_recv (cs s b)) ++ inflight a (inbox (cs s b))) ++ d).
      { intros s1 Hcs. unfold next_fwd_cs in Hcs. rewrite Hcs.
        exists (if Nat.eqb a c && Nat.eqb b t then [e] else []). split.
        * destruct (Nat.eq_dec a t) as [->|Hat].
          -- rewrite upd_same, (upd_other _ _ _ _ t Htc). cbn [g_sent push_inbox].
             destruct (Nat.eqb t c) eqn:E; [apply Nat.eqb_eq in E; contradiction|]. cbn [andb]. rewrite app_nil_r. reflexivity.
          -- rewrite (upd_other _ _ _ _ a Hat).
             destruct (Nat.eq_dec a c) as [->|Ha].
             ++ rewrite upd_same. cbn [g_sent]. rewrite sent_to_app, sent_to_single, Nat.eqb_refl. cbn [andb].
                rewrite (Nat.eqb_sym b t). reflexivity.
             ++ rewrite (upd_other _ _ _ _ a Ha). destruct (Nat.eqb a c) eqn:E; [apply Nat.eqb_eq in E; contradiction|].
                cbn [andb]. rewrite app_nil_r. reflexivity.
        * destruct (Nat.eq_dec b t) as [->|Hb].
          -- rewrite upd_same, (upd_other _ _ _ _ t Htc). cbn [inbox g_recv push_inbox].
             rewrite inflight_app, inflight_single_ev, Nat.eqb_refl, andb_true_r, (Nat.eqb_sym a c), app_assoc. reflexivity.
          -- rewrite (upd_other _ _ _ _ b Hb).
             destruct (Nat.eqb b t) eqn:E; [apply Nat.eqb_eq in E; contradiction|]. rewrite andb_false_r, app_nil_r.
             destruct (Nat.eq_dec b c) as [->|Hbc]; [rewrite upd_same | rewrite (upd_other _ _ _ _ b Hbc)]; reflexivity. }
      destruct (memb c (rs s t)); [inv Hn; apply Hfwd; reflexivity|].
      destruct (memb c (wq s t)); [discriminate|].
      destruct (room cfg s t); [inv Hn; apply Hfwd; reflexivity|].
      rewrite Hm in Hn. discriminate.
    + inv Hn. exists []. rewrite !app_nil_r. cbn [cs]. split.
      * destruct (Nat.eq_dec a c) as [->|Ha]; [rewrite upd_same | rewrite (upd_other _ _ _ _ a Ha)]; reflexivity.
      * destruct (Nat.eq_dec b c) as [->|Hb]; [rewrite upd_same | rewrite (upd_other _ _ _ _ b Hb)]; reflexivity.
  - destruct (negb (Nat.ltb c (n_ctx cfg))); [discriminate|].
    destruct (mode cfg); [discriminate|]. destruct (outq (cs s c)) as [|e r]; [discriminate|].
    destruct (target_of cfg c e) as [t|]; [|discriminate].
    destruct (memb c (rs s t) || memb c (wq s t) || room cfg s t); inv Hn. exists []. rewrite !app_nil_r. split; reflexivity.
  - destruct (pending s); inv Hn. exists []. rewrite !app_nil_r. split; reflexivity.
  - destruct (pending s) as [p|]; [|discriminate].
    destruct (existsb (Nat.eqb c) (p_tosend p)); inv Hn. exists []. rewrite !app_nil_r. cbn [cs].
    destruct (room cfg s c); [|split; reflexivity]. split.
    + destruct (Nat.eq_dec a c) as [->|Ha]; [rewrite upd_same | rewrite (upd_other _ _ _ _ a Ha)]; reflexivity.
    + destruct (Nat.eq_dec b c) as [->|Hb]; [rewrite upd_same | rewrite (upd_other _ _ _ _ b Hb); reflexivity].
      cbn [inbox g_recv push_inbox]. rewrite inflight_app. cbn [inflight flat_map]. rewrite app_nil_r. reflexivity.
  - destruct (ackq s) as [|[[c id] sn] r]; [discriminate|].
    destruct (pending s) as [p|].
    + destruct (p_tosend p); [|discriminate].
      destruct (N.eqb id (p_id p)); [destruct (Nat.eqb (length (put_ack c sn (p_acks p))) (n_ctx cfg))|]; inv Hn;
        exists []; rewrite !app_nil_r; split; reflexivity.
    + inv Hn. exists []. rewrite !app_nil_r. split; reflexivity.
Qed.

Lemma run_delta : forall cfg sched s s' a b,
  mode cfg = Block -> a <> b -> run cfg s sched = Some s' ->
  exists d, sent_ab s' a b = sent_ab s a b ++ d /\ got_ab s' a b = got_ab s a b ++ d.
Proof.
  intros cfg sched. induction sched as [|l r IH]; intros s s' a b Hm Hab Hr; cbn [run] in Hr.
  - inv Hr. exists []. rewrite !app_nil_r. split; reflexivity.
  - destruct (next cfg s l) as [s1|] eqn:En; [|discriminate].
    destruct (next_delta cfg s l s1 a b Hm Hab En) as [d1 [H1 H2]].
    destruct (IH s1 s' a b Hm Hab Hr) as [d2 [H3 H4]].
    exists (d1 ++ d2). rewrite H3, H4, H1, H2, !app_assoc. split; reflexivity.
Qed.

(* after any run from any state: delivery is exact for the pair iff it was exact at the start *)
Lemma run_exact_iff : forall cfg sched s s' a b,
  mode cfg = Block -> a <> b -> run cfg s sched = Some s' ->
  (got_ab s' a b = sent_ab s' a b <-> got_ab s a b = sent_ab s a b).
Proof.
  intros cfg sched s s' a b Hm Hab Hr. destruct (run_delta cfg sched s s' a b Hm Hab Hr) as [d [H1 H2]].
  rewrite H1, H2. split; [apply app_inv_tail | intros ->; reflexivity].
Qed.

Lemma restore_cs : forall cp c sn, find_snap c cp = Some sn ->
  g_recv (cs (restore cp) c) = sn_recv sn /\ g_sent (cs (restore cp) c) = sn_sent sn /\ inbox (cs (restore cp) c) = [].
Proof. intros cp c sn H. cbn [restore cs]. rewrite H. auto. Qed.

Lemma restore_exact_iff : forall cfg cp sched s' a b sa sb,
  mode cfg = Block -> a <> b -> find_snap a cp = Some sa -> find_snap b cp = Some sb ->
  run cfg (restore cp) sched = Some s' ->
  (recv_from a (g_recv (cs s' b)) ++ inflight a (inbox (cs s' b)) = sent_to b (g_sent (cs s' a))
   <-> recv_from a (sn_recv sb) = sent_to b (sn_sent sa)).
Proof.
  intros cfg cp sched s' a b sa sb Hm Hab Ha Hb Hr.
  pose proof (run_exact_iff cfg sched (restore cp) s' a b Hm Hab Hr) as H. unfold got_ab, sent_ab in H.
  destruct (restore_cs cp a sa Ha) as [_ [Hsa _]]. destruct (restore_cs cp b sb Hb) as [Hrb [_ Hib]].
  rewrite Hsa, Hrb, Hib in H. cbn [inflight flat_map] in H. rewrite app_nil_r in H. exact H.
Qed.

(* ---- the coordinator's checkpoint is not a consistent cut: the barrier overtakes an event in flight ---- *)
Definition c27_cfg : config := {| n_ctx := 2; cap := 4; mode := Block; prog := w_prog |}.
Definition c27_sched : list label :=
  [Ingress w_e1; Init; BSend 0; BSend 1; Recv 1; Recv 0; Route 0; Recv 0; AckRecv; AckRecv].
Definition c27_cp : list (nat * snap) :=
  [ (1, {| sn_consumed := 0; sn_recv := []; sn_sent := [] |});
    (0, {| sn_consumed := 1; sn_recv := [(None, w_e1)]; sn_sent := [(1, {| e_ty := 100; e_id := 1; e_v := 5 |})] |}) ].

Lemma c27_witness_run : exists s, run c27_cfg init c27_sched = Some s /\ completed s = [(1%N, c27_cp)].
Proof. eexists. split; vm_compute; reflexivity. Qed.

Lemma c27_witness_inconsistent : ~ cut_consistent 2 c27_cp.
Proof.
  intros C. specialize (C 0 1 _ _ ltac:(lia) ltac:(lia) ltac:(discriminate) eq_refl eq_refl). vm_compute in C. discriminate.
Qed.

(* and the loss is permanent: whatever is replayed after the restart, in whatever schedule, context 1 never gets
   the event context 0's snapshot says it has sent *)
Lemma c27_witness_lost_forever : forall sched s', run c27_cfg (restore c27_cp) sched = Some s' ->
  recv_from 0 (g_recv (cs s' 1)) ++ inflight 0 (inbox (cs s' 1)) <> sent_to 1 (g_sent (cs s' 0)).
Proof.
  intros sched s' Hr E.
  apply (restore_exact_iff c27_cfg c27_cp sched s' 0 1 _ _ eq_refl ltac:(discriminate) eq_refl eq_refl Hr) in E.
  vm_compute in E. discriminate.
Qed.

(* ---- checkpoints taken at a quiescent point are consistent ---- *)
Definition quiescent (n : nat) (s : state) : Prop :=
  (forall c, c < n -> inbox (cs s c) = [] /\ outq (cs s c) = []) /\ ackq s = [] /\ pending s = None.
Definition quiescentb (n : nat) (s : state) : bool :=
  forallb (fun c => match inbox (cs s c), outq (cs s c) with [], [] => true | _, _ => false end) (seq 0 n)
  && match ackq s with [] => true | _ => false end && match pending s with None => true | _ => false end.
Definition is_ingress (l : label) : bool := match l with Ingress _ => true | _ => false end.
Definition no_ingress (sched : list label) : bool := forallb (fun l => negb (is_ingress l)) sched.

Lemma quiescentb_sound : forall n s, quiescentb n s = true -> quiescent n s.
Proof.
  intros n s H. unfold quiescentb in H. apply andb_prop in H. destruct H as [H H3]. apply andb_prop in H. destruct H as [H1 H2].
  split; [|split].
  - intros c Hc. rewrite forallb_forall in H1. specialize (H1 c). rewrite in_seq in H1. specialize (H1 (conj (Nat.le_0_l _) Hc)).
    destruct (inbox (cs s c)); [|discriminate]. destruct (outq (cs s c)); [auto|discriminate].
  - destruct (ackq s); [reflexivity|discriminate].
  - destruct (pending s); [discriminate|reflexivity].
Qed.

Section Quiescent.
  Variable cfg : config.
  Variable s0 : state.

  Definition good_snap (c : nat) (sn : snap) : Prop := sn_recv sn = g_recv (cs s0 c) /\ sn_sent sn = g_sent (cs s0 c).
  Definition good_acks (l : list (nat * snap)) : Prop := forall c sn, In (c, sn) l -> good_snap c sn.

  Definition J (s : state) : Prop :=
    (forall c, c < n_ctx cfg -> outq (cs s c) = [] /\ (forall m, In m (inbox (cs s c)) -> exists id, m = MBar id)
                                /\ g_recv (cs s c) = g_recv (cs s0 c) /\ g_sent (cs s c) = g_sent (cs s0 c))
    /\ (forall c id sn, In (c, id, sn) (ackq s) -> good_snap c sn)
    /\ (forall p, pending s = Some p -> good_acks (p_acks p))
    /\ (forall cp, In cp (completed s) -> In cp (completed s0) \/ good_acks (snd cp)).

  Lemma J_next : forall s l s', J s -> is_ingress l = false -> next cfg s l = Some s' -> J s'.
  Proof.
    intros s l s' [Jc [Ja [Jp Jd]]] Hl Hn. destruct l as [e | c | c | c | | c | ]; [discriminate| | | | | |]; cbn [next] in Hn.
    - (* Recv *)
      destruct (Nat.ltb c (n_ctx cfg)) eqn:Hc; [|discriminate]. cbn [negb] in Hn. apply Nat.ltb_lt in Hc.
      destruct (Jc c Hc) as [Ho [Hi [Hr Hs]]]. rewrite Ho in Hn.
      destruct (inbox (cs s c)) as [|[src e|id] r] eqn:Ei; [discriminate| |].
      + destruct (Hi (MEv src e)) as [id Hid]; [left; reflexivity | discriminate].
      + inv Hn. split; [|split; [|split]]; cbn [cs ackq pending completed].
        * intros c0 Hc0. unfold upd. destruct (Nat.eqb c0 c) eqn:E.
          -- apply Nat.eqb_eq in E. subst c0. cbn [outq inbox g_recv g_sent]. repeat split; auto. intros m Hm. apply Hi. right. exact Hm.
          -- apply Jc. exact Hc0.
        * intros c0 id0 sn Hin. apply in_app_or in Hin. destruct Hin as [Hin|Hin]; [eapply Ja; eauto|].
          destruct Hin as [Hin|[]]. inv Hin. unfold good_snap, snapshot. cbn. auto.
        * exact Jp.
        * exact Jd.
    - (* Route: nothing to route *)
      destruct (Nat.ltb c (n_ctx cfg)) eqn:Hc; [|discriminate]. cbn [negb] in Hn. apply Nat.ltb_lt in Hc.
      destruct (Jc c Hc) as [Ho _]. rewrite Ho in Hn. discriminate.
    - (* Wait: nothing to forward *)
      destruct (Nat.ltb c (n_ctx cfg)) eqn:Hc; [|discriminate]. cbn [negb] in Hn. apply Nat.ltb_lt in Hc.
      destruct (Jc c Hc) as [Ho _]. rewrite Ho in Hn. destruct (mode cfg); discriminate.
    - (* Init *)
      destruct (pending s); inv Hn. split; [exact Jc | split; [exact Ja | split; [|exact Jd]]].
      cbn [pending]. intros p Hp. inv Hp. intros c sn [].
    - (* BSend *)
      destruct (pending s) as [p|] eqn:Ep; [|discriminate].
      destruct (existsb (Nat.eqb c) (p_tosend p)); inv Hn. split; [|split; [exact Ja | split; [|exact Jd]]]; cbn [cs pending].
      + intros c0 Hc0. destruct (room cfg s c); [|apply Jc; exact Hc0]. unfold upd. destruct (Nat.eqb c0 c) eqn:E; [|apply Jc; exact Hc0].
        apply Nat.eqb_eq in E. subst c0. destruct (Jc c Hc0) as [Ho [Hi [Hr Hs]]]. cbn [outq inbox g_recv g_sent push_inbox].
        repeat split; auto. intros m Hm. apply in_app_or in Hm. destruct Hm as [Hm|[<-|[]]]; [apply Hi; exact Hm | eexists; reflexivity].
      + intros p0 Hp0. inv Hp0. cbn [p_acks]. apply (Jp p eq_refl).
    - (* AckRecv *)
      destruct (ackq s) as [|[[c id] sn] r] eqn:Eq; [discriminate|].
      assert (Hg : good_snap c sn) by (apply (Ja c id sn); left; reflexivity).
      assert (Ja' : forall c0 id0 sn0, In (c0, id0, sn0) r -> good_snap c0 sn0) by (intros; eapply Ja; right; eauto).
      destruct (pending s) as [p|] eqn:Ep.
      + destruct (p_tosend p); [|discriminate].
        assert (Hput : good_acks (put_ack c sn (p_acks p))).
        { intros c0 sn0 Hin. unfold put_ack in Hin. apply in_app_or in Hin. destruct Hin as [Hin|[Hin|[]]].
          - apply filter_In in Hin. destruct Hin as [Hin _]. apply (Jp p eq_refl c0 sn0 Hin).
          - inv Hin. exact Hg. }
        destruct (N.eqb id (p_id p)).
        * destruct (Nat.eqb (length (put_ack c sn (p_acks p))) (n_ctx cfg)); inv Hn; (split; [exact Jc | split; [exact Ja' | split]]); cbn [pending completed].
          -- intros p0 Hp0. discriminate.
          -- intros cp Hin. apply in_app_or in Hin. destruct Hin as [Hin|[<-|[]]]; [apply Jd; exact Hin | right; exact Hput].
          -- intros p0 Hp0. inv Hp0. exact Hput.
          -- exact Jd.
        * inv Hn. split; [exact Jc | split; [exact Ja' | split; [|exact Jd]]]. cbn [pending]. exact Jp.
      + inv Hn. split; [exact Jc | split; [exact Ja' | split; [|exact Jd]]]. cbn [pending]. intros p Hp. discriminate.
  Qed.

  Lemma J_run : forall sched s s', J s -> no_ingress sched = true -> run cfg s sched = Some s' -> J s'.
  Proof.
    induction sched as [|l r IH]; intros s s' Hj Hni Hr; cbn [run] in Hr.
    - inv Hr. exact Hj.
    - destruct (next cfg s l) as [s1|] eqn:En; [|discriminate]. cbn [no_ingress forallb] in Hni. apply andb_prop in Hni.
      destruct Hni as [H1 H2]. apply negb_true_iff in H1. eapply IH; [eapply J_next; eauto | exact H2 | exact Hr].
  Qed.

  Lemma J_start : quiescent (n_ctx cfg) s0 -> J s0.
  Proof.
    intros [Hq [Ha Hp]]. split; [|split; [|split]].
    - intros c Hc. destruct (Hq c Hc) as [Hi Ho]. rewrite Hi, Ho. repeat split; auto. intros m [].
    - intros c id sn Hin. rewrite Ha in Hin. destruct Hin.
    - intros p Hpp. rewrite Hp in Hpp. discriminate.
    - intros cp Hin. left. exact Hin.
  Qed.
End Quiescent.

Lemma find_snap_In : forall c cp sn, find_snap c cp = Some sn -> In (c, sn) cp.
Proof.
  intros c cp. induction cp as [|[x y] r IH]; intros sn H; cbn [find_snap] in H; [discriminate|].
  destruct (Nat.eqb x c) eqn:E; [apply Nat.eqb_eq in E; subst; inv H; left; reflexivity | right; apply IH; exact H].
Qed.

Lemma quiescent_cut_consistent : forall cfg s sched s',
  mode cfg = Block ->
  (forall a b, a < n_ctx cfg -> b < n_ctx cfg -> a <> b ->
     recv_from a (g_recv (cs s b)) ++ inflight a (inbox (cs s b)) = sent_to b (g_sent (cs s a))) ->
  quiescent (n_ctx cfg) s -> no_ingress sched = true -> run cfg s sched = Some s' ->
  forall cp, In cp (completed s') -> In cp (completed s) \/ cut_consistent (n_ctx cfg) (snd cp).
Proof.
  intros cfg s sched s' Hm Hex Hq Hni Hr cp Hin.
  pose proof (J_run cfg s sched s s' (J_start cfg s Hq) Hni Hr) as [_ [_ [_ Jd]]].
  destruct (Jd cp Hin) as [Hold|Hg]; [left; exact Hold|]. right.
  intros a b sa sb Ha Hb Hab Fa Fb.
  destruct (Hg a sa (find_snap_In _ _ _ Fa)) as [_ Hsa]. destruct (Hg b sb (find_snap_In _ _ _ Fb)) as [Hrb _].
  rewrite Hsa, Hrb. specialize (Hex a b Ha Hb Hab). destruct Hq as [Hq _]. destruct (Hq b Hb) as [Hib _].
  rewrite Hib in Hex. cbn [inflight flat_map] in Hex. rewrite app_nil_r in Hex. exact Hex.
Qed.
