(* Lemmas about the context-runtime transition system (Ctx/Model.v): exactly-once in-order delivery under the
   blocking forward for every schedule, the refutation of the try_send design, deadlock freedom on ranked
   (acyclic) context graphs. *)
From VP Require Import Base.Tactics Ctx.Model.

(* ---- list plumbing ---- *)
Lemma recv_from_app : forall a l1 l2, recv_from a (l1 ++ l2) = recv_from a l1 ++ recv_from a l2.
Proof. intros. unfold recv_from. rewrite filter_app, map_app. reflexivity. Qed.
Lemma sent_to_app : forall b l1 l2, sent_to b (l1 ++ l2) = sent_to b l1 ++ sent_to b l2.
Proof. intros. unfold sent_to. rewrite filter_app, map_app. reflexivity. Qed.
Lemma inflight_app : forall a l1 l2, inflight a (l1 ++ l2) = inflight a l1 ++ inflight a l2.
Proof. intros. unfold inflight. apply flat_map_app. Qed.

Lemma upd_same : forall A (f : nat -> A) k v, upd f k v k = v.
Proof. intros. unfold upd. rewrite Nat.eqb_refl. reflexivity. Qed.
Lemma upd_other : forall A (f : nat -> A) k v x, x <> k -> upd f k v x = f x.
Proof. intros A f k v x Hx. unfold upd. destruct (Nat.eqb x k) eqn:E; [apply Nat.eqb_eq in E; contradiction | reflexivity]. Qed.

Definition recv_one (a : nat) (src : option nat) (e : event) : list event :=
  match src with Some a' => if Nat.eqb a' a then [e] else [] | None => [] end.
Lemma recv_from_single : forall a src e, recv_from a [(src, e)] = recv_one a src e.
Proof. intros a [a'|] e; unfold recv_from, recv_one; cbn; [destruct (Nat.eqb a' a)|]; reflexivity. Qed.
Lemma inflight_cons_ev : forall a src e r, inflight a (MEv src e :: r) = recv_one a src e ++ inflight a r.
Proof. intros a [a'|] e r; unfold recv_one; cbn; reflexivity. Qed.
Lemma inflight_cons_bar : forall a id r, inflight a (MBar id :: r) = inflight a r.
Proof. reflexivity. Qed.
Lemma inflight_single_ev : forall a c e, inflight a [MEv (Some c) e] = if Nat.eqb c a then [e] else [].
Proof. intros. cbn. destruct (Nat.eqb c a); reflexivity. Qed.
Lemma sent_to_single : forall b t e, sent_to b [(t, e)] = if Nat.eqb t b then [e] else [].
Proof. intros. unfold sent_to. cbn. destruct (Nat.eqb t b); reflexivity. Qed.

(* the per-context states after context c has forwarded e (head of its engine output, rest r) into t's inbox *)
Definition next_fwd_cs (s : state) (c t : nat) (e : event) (r : list event) (f' : nat -> cstate) : Prop :=
  f' = (let st := cs s c in
        let sender := {| inbox := inbox st; outq := r; consumed := consumed st; g_recv := g_recv st; g_sent := g_sent st ++ [(t, e)] |} in
        let f := upd (cs s) c sender in upd f t (push_inbox (f t) (MEv (Some c) e))).

(* ---- one step preserves exact delivery when forwarding blocks ---- *)
Lemma next_delivery_exact : forall cfg s l s',
  mode cfg = Block -> delivery_exact s -> next cfg s l = Some s' -> delivery_exact s'.
Proof.
  intros cfg s l s' Hm Inv Hn. destruct l as [e | c | c | c | | c | ]; cbn [next] in Hn.
  - (* Ingress *)
    destruct (route (prog cfg) (e_ty e)) as [t|]; [|discriminate].
    destruct (Nat.ltb t (n_ctx cfg) && room cfg s t); inv Hn.
    intros a b Hab. specialize (Inv a b Hab). cbn [cs set_cs].
    destruct (Nat.eq_dec b t) as [->|Hb].
    + rewrite upd_same. cbn [inbox g_recv push_inbox]. rewrite inflight_app. cbn [inflight flat_map]. rewrite app_nil_r.
      destruct (Nat.eq_dec a t) as [->|Ha]; [contradiction|]. rewrite (upd_other _ _ _ _ a Ha). exact Inv.
    + rewrite (upd_other _ _ _ _ b Hb).
      destruct (Nat.eq_dec a t) as [->|Ha]; [rewrite upd_same; cbn [g_sent push_inbox]; exact Inv | rewrite (upd_other _ _ _ _ a Ha); exact Inv].
  - (* Recv *)
    destruct (negb (Nat.ltb c (n_ctx cfg))); [discriminate|].
    destruct (outq (cs s c)) eqn:Eo; [|discriminate].
    destruct (inbox (cs s c)) as [|[src e|id] r] eqn:Ei; [discriminate| |]; inv Hn;
      intros a b Hab; specialize (Inv a b Hab); cbn [cs set_cs].
    + destruct (Nat.eq_dec b c) as [->|Hb].
      * rewrite upd_same. cbn [inbox g_recv]. rewrite recv_from_app, recv_from_single.
        rewrite Ei, inflight_cons_ev in Inv. rewrite <- app_assoc.
        rewrite (upd_other _ _ _ _ a Hab). exact Inv.
      * rewrite (upd_other _ _ _ _ b Hb).
        destruct (Nat.eq_dec a c) as [->|Ha]; [rewrite upd_same; cbn [g_sent]; exact Inv | rewrite (upd_other _ _ _ _ a Ha); exact Inv].
    + destruct (Nat.eq_dec b c) as [->|Hb].
      * rewrite upd_same. cbn [inbox g_recv]. rewrite Ei, inflight_cons_bar in Inv.
        rewrite (upd_other _ _ _ _ a Hab). exact Inv.
      * rewrite (upd_other _ _ _ _ b Hb).
        destruct (Nat.eq_dec a c) as [->|Ha]; [rewrite upd_same; cbn [g_sent]; exact Inv | rewrite (upd_other _ _ _ _ a Ha); exact Inv].
  - (* Route *)
    destruct (negb (Nat.ltb c (n_ctx cfg))); [discriminate|].
    destruct (outq (cs s c)) as [|e r] eqn:Eo; [discriminate|].
    destruct (target_of cfg c e) as [t|] eqn:Et.
    + assert (Htc : t <> c).
      { unfold target_of in Et. destruct (route (prog cfg) (e_ty e)) as [t0|]; [|discriminate].
        destruct (Nat.ltb t0 (n_ctx cfg) && negb (Nat.eqb t0 c)) eqn:E2; [|discriminate]. inv Et.
        apply andb_prop in E2. destruct E2 as [_ E2]. apply negb_true_iff in E2. apply Nat.eqb_neq in E2. exact E2. }
      assert (Hfwd : forall s1, next_fwd_cs s c t e r (cs s1) -> delivery_exact s1).
      { intros s1 Hcs a b Hab. specialize (Inv a b Hab). unfold next_fwd_cs in Hcs. rewrite Hcs.
        destruct (Nat.eq_dec b t) as [->|Hb].
        -- rewrite upd_same. rewrite (upd_other _ _ _ _ t Htc). cbn [inbox g_recv push_inbox].
           rewrite inflight_app, inflight_single_ev.
           destruct (Nat.eq_dec a c) as [->|Ha].
           ++ rewrite (upd_other _ _ _ _ c Hab), upd_same. cbn [g_sent]. rewrite sent_to_app, sent_to_single.
              rewrite !Nat.eqb_refl. rewrite app_assoc, Inv. reflexivity.
           ++ rewrite (upd_other _ _ _ _ a Hab), (upd_other _ _ _ _ a Ha).
              destruct (Nat.eqb c a) eqn:E; [apply Nat.eqb_eq in E; subst; contradiction|]. rewrite app_nil_r. exact Inv.
        -- rewrite (upd_other _ _ _ _ b Hb).
           destruct (Nat.eq_dec a t) as [->|Hat].
           ++ rewrite upd_same, (upd_other _ _ _ _ t Htc). cbn [g_sent push_inbox].
              destruct (Nat.eq_dec b c) as [->|Hbc]; [rewrite upd_same | rewrite (upd_other _ _ _ _ b Hbc)]; exact Inv.
           ++ rewrite (upd_other _ _ _ _ a Hat).
              destruct (Nat.eq_dec a c) as [->|Ha].
              ** rewrite upd_same. cbn [g_sent]. rewrite sent_to_app, sent_to_single.
                 destruct (Nat.eqb t b) eqn:E; [apply Nat.eqb_eq in E; subst; contradiction|]. rewrite app_nil_r.
                 rewrite (upd_other _ _ _ _ b (not_eq_sym Hab)). exact Inv.
              ** rewrite (upd_other _ _ _ _ a Ha).
                 destruct (Nat.eq_dec b c) as [->|Hbc]; [rewrite upd_same | rewrite (upd_other _ _ _ _ b Hbc)]; exact Inv. }
      destruct (memb c (rs s t)); [inv Hn; apply Hfwd; reflexivity|].
      destruct (memb c (wq s t)); [discriminate|].
      destruct (room cfg s t); [inv Hn; apply Hfwd; reflexivity|].
      rewrite Hm in Hn. discriminate.
    + inv Hn. intros a b Hab. specialize (Inv a b Hab). cbn [cs].
      destruct (Nat.eq_dec b c) as [->|Hb]; [rewrite upd_same | rewrite (upd_other _ _ _ _ b Hb)];
        (destruct (Nat.eq_dec a c) as [->|Ha]; [rewrite upd_same | rewrite (upd_other _ _ _ _ a Ha)]); cbn [inbox g_recv g_sent]; exact Inv.
  - (* Wait *)
    destruct (negb (Nat.ltb c (n_ctx cfg))); [discriminate|].
    destruct (mode cfg); [discriminate|]. destruct (outq (cs s c)) as [|e r]; [discriminate|].
    destruct (target_of cfg c e) as [t|]; [|discriminate].
    destruct (memb c (rs s t) || memb c (wq s t) || room cfg s t); inv Hn. exact Inv.
  - (* Init *)
    destruct (pending s); inv Hn. exact Inv.
  - (* BSend *)
    destruct (pending s) as [p|]; [|discriminate].
    destruct (existsb (Nat.eqb c) (p_tosend p)); inv Hn.
    intros a b Hab. specialize (Inv a b Hab). cbn [cs].
    destruct (room cfg s c); [|exact Inv].
    destruct (Nat.eq_dec b c) as [->|Hb].
    + rewrite upd_same, (upd_other _ _ _ _ a Hab). cbn [inbox g_recv push_inbox].
      rewrite inflight_app. cbn [inflight flat_map]. rewrite app_nil_r. exact Inv.
    + rewrite (upd_other _ _ _ _ b Hb).
      destruct (Nat.eq_dec a c) as [->|Ha]; [rewrite upd_same; cbn [g_sent push_inbox]; exact Inv | rewrite (upd_other _ _ _ _ a Ha); exact Inv].
  - (* AckRecv *)
    destruct (ackq s) as [|[[c id] sn] r]; [discriminate|].
    destruct (pending s) as [p|].
    + destruct (p_tosend p); [|discriminate].
      destruct (N.eqb id (p_id p)); [destruct (Nat.eqb (length (put_ack c sn (p_acks p))) (n_ctx cfg))|]; inv Hn; exact Inv.
    + inv Hn. exact Inv.
Qed.

Lemma run_delivery_exact : forall cfg sched s s',
  mode cfg = Block -> delivery_exact s -> run cfg s sched = Some s' -> delivery_exact s'.
Proof.
  intros cfg sched. induction sched as [|l r IH]; intros s s' Hm Inv Hr; cbn [run] in Hr.
  - inv Hr. exact Inv.
  - destruct (next cfg s l) as [s1|] eqn:En; [|discriminate].
    eapply IH; [exact Hm | eapply next_delivery_exact; eauto | exact Hr].
Qed.

Lemma init_delivery_exact : delivery_exact init.
Proof. intros a b _. reflexivity. Qed.

(* the boolean test used in the runs decides the property on contexts below n *)
Lemma event_eqb_eq : forall x y, event_eqb x y = true <-> x = y.
Proof.
  intros [t1 i1 v1] [t2 i2 v2]. unfold event_eqb. cbn. rewrite !andb_true_iff, N.eqb_eq, !Z.eqb_eq.
  split; [intros [[-> ->] ->]; reflexivity | intros H; inv H; auto].
Qed.
Lemma events_eqb_eq : forall l1 l2, events_eqb l1 l2 = true <-> l1 = l2.
Proof.
  induction l1 as [|x r IH]; intros [|y r2]; cbn; try (split; [discriminate | intros H; discriminate]); [split; reflexivity|].
  rewrite andb_true_iff, event_eqb_eq, IH. split; [intros [-> ->]; reflexivity | intros H; inv H; auto].
Qed.
Lemma delivery_exactb_sound : forall n s, delivery_exactb n s = true ->
  forall a b, a < n -> b < n -> a <> b ->
  recv_from a (g_recv (cs s b)) ++ inflight a (inbox (cs s b)) = sent_to b (g_sent (cs s a)).
Proof.
  intros n s H a b Ha Hb Hab. unfold delivery_exactb in H. rewrite forallb_forall in H.
  specialize (H a). rewrite in_seq in H. specialize (H (conj (Nat.le_0_l _) Ha)). rewrite forallb_forall in H.
  specialize (H b). rewrite in_seq in H. specialize (H (conj (Nat.le_0_l _) Hb)).
  apply orb_prop in H. destruct H as [H|H]; [apply Nat.eqb_eq in H; contradiction | apply events_eqb_eq; exact H].
Qed.

(* ---- the try_send design loses events: 2 contexts, capacity 1 ---- *)
Definition w_prog : list stream :=
  [ {| s_name := 100; s_src := 0; s_ctx := 0; s_thr := 0 |}; {| s_name := 101; s_src := 100; s_ctx := 1; s_thr := 0 |} ].
Definition w_cfg (m : sendmode) : config := {| n_ctx := 2; cap := 1; mode := m; prog := w_prog |}.
Definition w_e1 : event := {| e_ty := 0; e_id := 1; e_v := 5 |}.
Definition w_e2 : event := {| e_ty := 0; e_id := 2; e_v := 5 |}.
Definition w_sched : list label := [Ingress w_e1; Recv 0; Route 0; Ingress w_e2; Recv 0; Route 0; Recv 1; Route 1].

Lemma trysend_loses : exists s, run (w_cfg Drop) init w_sched = Some s /\
  inbox (cs s 1) = [] /\
  sent_to 1 (g_sent (cs s 0)) = [ {| e_ty := 100; e_id := 1; e_v := 5 |}; {| e_ty := 100; e_id := 2; e_v := 5 |} ] /\
  recv_from 0 (g_recv (cs s 1)) = [ {| e_ty := 100; e_id := 1; e_v := 5 |} ].
Proof. eexists. split; [vm_compute; reflexivity|]. vm_compute. auto. Qed.

Lemma trysend_refuted : exists sched s, run (w_cfg Drop) init sched = Some s /\ ~ delivery_exact s.
Proof.
  destruct trysend_loses as [s [Hr [Hi [Hs Hv]]]]. exists w_sched, s. split; [exact Hr|].
  intros D. specialize (D 0 1 ltac:(discriminate)). rewrite Hi, Hs, Hv in D. discriminate.
Qed.

(* the same schedule is not a schedule of the blocking design: the second forward waits *)
Lemma blocking_waits : run (w_cfg Block) init [Ingress w_e1; Recv 0; Route 0; Ingress w_e2; Recv 0; Route 0] = None.
Proof. vm_compute. reflexivity. Qed.

(* ---- well-formedness of the engine output queues (used by the progress theorem, Ctx/ProofsLive.v) ---- *)
(* every queued engine output of context c is the output of one of c's own streams *)
Definition outq_wf (cfg : config) (s : state) : Prop :=
  forall c e, In e (outq (cs s c)) -> exists st, In st (prog cfg) /\ s_ctx st = c /\ s_name st = e_ty e.

Lemma fire_ty : forall st e x, In x (fire st e) -> e_ty x = s_name st.
Proof. intros st e x H. unfold fire in H. destruct (_ && _); [destruct H as [<-|[]]; reflexivity | destruct H]. Qed.
Lemma step_event_src : forall ss e x, In x (step_event ss e) -> exists st, In st ss /\ s_name st = e_ty x.
Proof.
  intros ss e x H. unfold step_event in H. apply in_flat_map in H. destruct H as [st [Hs Hx]].
  exists st. split; [exact Hs | symmetry; eapply fire_ty; eauto].
Qed.
Lemma bfs_src : forall fuel ss level x, In x (bfs fuel ss level) -> exists st, In st ss /\ s_name st = e_ty x.
Proof.
  induction fuel as [|f IH]; intros ss level x H; cbn [bfs] in H; [destruct H|].
  apply in_app_or in H. destruct H as [H|H].
  - apply in_flat_map in H. destruct H as [e [_ Hx]]. eapply step_event_src; eauto.
  - eapply IH; eauto.
Qed.
Lemma engine_src : forall cfg c e x, In x (engine (streams_of (prog cfg) c) e) ->
  exists st, In st (prog cfg) /\ s_ctx st = c /\ s_name st = e_ty x.
Proof.
  intros cfg c e x H. apply bfs_src in H. destruct H as [st [Hs Hn]]. unfold streams_of in Hs. apply filter_In in Hs.
  destruct Hs as [Hs Hc]. apply Nat.eqb_eq in Hc. exists st. auto.
Qed.

Lemma next_outq_wf : forall cfg s l s', outq_wf cfg s -> next cfg s l = Some s' -> outq_wf cfg s'.
Proof.
  intros cfg s l s' W Hn. destruct l as [e | c | c | c | | c | ]; cbn [next] in Hn.
  - destruct (route (prog cfg) (e_ty e)) as [t|]; [|discriminate].
    destruct (Nat.ltb t (n_ctx cfg) && room cfg s t); inv Hn.
    intros c x. cbn [cs set_cs]. unfold upd. destruct (Nat.eqb c t) eqn:E; [apply Nat.eqb_eq in E; subst; cbn [outq push_inbox]|]; apply W.
  - destruct (negb (Nat.ltb c (n_ctx cfg))); [discriminate|].
    destruct (outq (cs s c)) eqn:Eo; [|discriminate].
    destruct (inbox (cs s c)) as [|[src e|id] r] eqn:Ei; [discriminate| |]; inv Hn; intros c0 x; cbn [cs set_cs]; unfold upd;
      (destruct (Nat.eqb c0 c) eqn:E; [apply Nat.eqb_eq in E; subst; cbn [outq]|apply W]).
    + apply engine_src.
    + intros [].
  - destruct (negb (Nat.ltb c (n_ctx cfg))); [discriminate|].
    destruct (outq (cs s c)) as [|e r] eqn:Eo; [discriminate|].
    assert (Wr : forall x, In x r -> exists st, In st (prog cfg) /\ s_ctx st = c /\ s_name st = e_ty x).
    { intros x Hx. apply (W c x). rewrite Eo. right. exact Hx. }
    destruct (target_of cfg c e) as [t|] eqn:Et.
    + assert (Hacc : forall s1, next_fwd_cs s c t e r (cs s1) -> outq_wf cfg s1).
      { intros s1 Hcs c0 x. unfold next_fwd_cs in Hcs. rewrite Hcs. unfold upd. destruct (Nat.eqb c0 t) eqn:E1.
        - apply Nat.eqb_eq in E1. subst. cbn [outq push_inbox]. destruct (Nat.eqb t c) eqn:E2; [apply Nat.eqb_eq in E2; subst; cbn [outq]; apply Wr | apply W].
        - destruct (Nat.eqb c0 c) eqn:E2; [apply Nat.eqb_eq in E2; subst; cbn [outq]; apply Wr | apply W]. }
      destruct (memb c (rs s t)); [inv Hn; apply Hacc; reflexivity|].
      destruct (memb c (wq s t)); [discriminate|].
      destruct (room cfg s t); [inv Hn; apply Hacc; reflexivity|].
      destruct (mode cfg); [|discriminate]. inv Hn. intros c0 x. cbn [cs]. unfold upd.
      destruct (Nat.eqb c0 c) eqn:E2; [apply Nat.eqb_eq in E2; subst; cbn [outq]; apply Wr | apply W].
    + inv Hn. intros c0 x. cbn [cs]. unfold upd. destruct (Nat.eqb c0 c) eqn:E2; [apply Nat.eqb_eq in E2; subst; cbn [outq]; apply Wr | apply W].
  - destruct (negb (Nat.ltb c (n_ctx cfg))); [discriminate|].
    destruct (mode cfg); [discriminate|]. destruct (outq (cs s c)) as [|e r]; [discriminate|].
    destruct (target_of cfg c e) as [t|]; [|discriminate].
    destruct (memb c (rs s t) || memb c (wq s t) || room cfg s t); inv Hn. exact W.
  - destruct (pending s); inv Hn. exact W.
  - destruct (pending s) as [p|]; [|discriminate].
    destruct (existsb (Nat.eqb c) (p_tosend p)); inv Hn.
    intros c0 x. cbn [cs]. destruct (room cfg s c); [|apply W]. unfold upd.
    destruct (Nat.eqb c0 c) eqn:E; [apply Nat.eqb_eq in E; subst; cbn [outq push_inbox]|]; apply W.
  - destruct (ackq s) as [|[[c id] sn] r]; [discriminate|].
    destruct (pending s) as [p|].
    + destruct (p_tosend p); [|discriminate].
      destruct (N.eqb id (p_id p)); [destruct (Nat.eqb (length (put_ack c sn (p_acks p))) (n_ctx cfg))|]; inv Hn; exact W.
    + inv Hn. exact W.
Qed.

Lemma run_outq_wf : forall cfg sched s s', outq_wf cfg s -> run cfg s sched = Some s' -> outq_wf cfg s'.
Proof.
  intros cfg sched. induction sched as [|l r IH]; intros s s' W Hr; cbn [run] in Hr.
  - inv Hr. exact W.
  - destruct (next cfg s l) as [s1|] eqn:En; [|discriminate]. eapply IH; [eapply next_outq_wf; eauto | exact Hr].
Qed.
Lemma init_outq_wf : forall cfg, outq_wf cfg init.
Proof. intros cfg c e []. Qed.

