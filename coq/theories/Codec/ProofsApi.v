(* Codec/ProofsApi.v — JSON payload -> runtime value -> JSON (C44). *)
From Coq Require Import List ZArith NArith Bool Lia.
From VP Require Import Codec.Model Codec.Proofs.
Import ListNotations.
Open Scope Z_scope.

Section JsonInd.
  Variable P : json -> Prop.
  Hypothesis HNull : P JNull.
  Hypothesis HBool : forall b, P (JBool b).
  Hypothesis HInt : forall z, P (JInt z).
  Hypothesis HFlt : forall b, P (JFlt b).
  Hypothesis HStr : forall s, P (JStr s).
  Hypothesis HArr : forall l, Forall P l -> P (JArr l).
  Hypothesis HObj : forall l, Forall (fun kv => P (snd kv)) l -> P (JObj l).
  Fixpoint json_ind' (j : json) : P j :=
    match j with
    | JNull => HNull | JBool b => HBool b | JInt z => HInt z | JFlt b => HFlt b | JStr s => HStr s
    | JArr l => HArr l ((fix go (l : list json) : Forall P l :=
                  match l with [] => Forall_nil _ | x :: r => Forall_cons x (json_ind' x) (go r) end) l)
    | JObj l => HObj l ((fix go (l : list (str * json)) : Forall (fun kv => P (snd kv)) l :=
                  match l with [] => Forall_nil _ | kv :: r => Forall_cons kv (json_ind' (snd kv)) (go r) end) l)
    end.
End JsonInd.

Lemma json_to_value_obj : forall l, json_to_value (JObj l) = VMap (map_of_list (map (on_snd json_to_value) l)).
Proof. intro l. cbn [json_to_value]. do 2 f_equal. induction l as [|[k x] r IH]; [reflexivity|]. rewrite IH. reflexivity. Qed.

Lemma value_to_json_map : forall l, value_to_json (VMap l) = JObj (map (on_snd value_to_json) l).
Proof. intro l. cbn [value_to_json]. f_equal. induction l as [|[k x] r IH]; [reflexivity|]. rewrite IH. reflexivity. Qed.

(* payloads for which the property is claimed: integers within i64, finite floats, distinct keys *)
Fixpoint api_ok (j : json) : bool :=
  match j with
  | JInt z => in_i64 z
  | JFlt b => f_finite b
  | JArr l => forallb api_ok l
  | JObj l => nodup_keys (map fst l) &&
              (fix go (l : list (str * json)) : bool := match l with [] => true | (_, x) :: r => api_ok x && go r end) l
  | _ => true
  end.

Lemma api_ok_obj : forall l, api_ok (JObj l) = nodup_keys (map fst l) && forallb (fun kv => api_ok (snd kv)) l.
Proof. intro l. cbn [api_ok]. f_equal. induction l as [|[k x] r IH]; [reflexivity|]. cbn [forallb snd]. rewrite IH. reflexivity. Qed.

Lemma api_roundtrip : forall j, api_ok j = true -> value_to_json (json_to_value j) = j.
Proof.
  induction j as [|b|z|b|s|l IH|l IH] using json_ind'; intro H; try reflexivity.
  - cbn [api_ok] in H. cbn [json_to_value]. rewrite H. reflexivity.
  - cbn [api_ok] in H. cbn [json_to_value value_to_json]. rewrite H. reflexivity.
  - cbn [json_to_value value_to_json]. f_equal. rewrite map_map. cbn [api_ok] in H. rewrite forallb_forall in H.
    rewrite Forall_forall in IH. rewrite <- (map_id l) at 2. apply map_ext_in. intros x Hx. apply IH; auto.
  - rewrite json_to_value_obj. rewrite api_ok_obj in H. apply andb_true_iff in H. destruct H as [Hk H].
    rewrite map_of_list_nodup by (rewrite map_fst_on_snd; apply nodup_keys_NoDup, Hk).
    rewrite value_to_json_map, map_map. f_equal. rewrite forallb_forall in H. rewrite Forall_forall in IH.
    rewrite <- (map_id l) at 2. apply map_ext_in. intros [k x] Hx. unfold on_snd. cbn [fst snd]. f_equal.
    apply (IH (k, x) Hx). apply (H (k, x) Hx).
Qed.

(* the runtime value has the type the JSON value has *)
Definition same_kind (j : json) (v : value) : bool :=
  match j, v with
  | JNull, VNull | JBool _, VBool _ | JInt _, VInt _ | JFlt _, VFloat _ | JStr _, VStr _ | JArr _, VArr _ | JObj _, VMap _ => true
  | _, _ => false
  end.

Lemma api_kind : forall j, api_ok j = true -> same_kind j (json_to_value j) = true.
Proof.
  intros [|b|z|b|s|l|l] H; try reflexivity.
  cbn [api_ok] in H. cbn [json_to_value]. rewrite H. reflexivity.
Qed.

Definition u64_max : Z := 18446744073709551615.

Lemma api_big_integer_refuted :
  exists z, two63 <= z <= u64_max /\ same_kind (JInt z) (json_to_value (JInt z)) = false /\
            value_to_json (json_to_value (JInt z)) <> JInt z.
Proof. exists u64_max. split; [unfold two63, u64_max; lia|]. split; [reflexivity|]. vm_compute. discriminate. Qed.

(* every integer literal above i64::MAX becomes a float *)
Lemma api_big_integer_always_float : forall z, two63 <= z -> exists b, json_to_value (JInt z) = VFloat b.
Proof.
  intros z H. cbn [json_to_value]. unfold in_i64.
  assert ((z <? two63) = false) as E by (apply Z.ltb_ge; exact H). rewrite E, andb_false_r. eexists. reflexivity.
Qed.

(* the known-finding class of C44: the payload holds an integer literal outside the i64 range *)
Fixpoint has_bigint (j : json) : bool :=
  match j with
  | JInt z => negb (in_i64 z)
  | JArr l => existsb has_bigint l
  | JObj l => (fix go (l : list (str * json)) : bool := match l with [] => false | (_, x) :: r => has_bigint x || go r end) l
  | _ => false
  end.

(* a payload as a JSON tree: finite floats, distinct keys per object *)
Fixpoint payload_wf (j : json) : bool :=
  match j with
  | JFlt b => f_finite b
  | JArr l => forallb payload_wf l
  | JObj l => nodup_keys (map fst l) &&
              (fix go (l : list (str * json)) : bool := match l with [] => true | (_, x) :: r => payload_wf x && go r end) l
  | _ => true
  end.

Lemma has_bigint_obj : forall l, has_bigint (JObj l) = existsb (fun kv => has_bigint (snd kv)) l.
Proof. intro l. cbn [has_bigint]. induction l as [|[k x] r IH]; [reflexivity|]. cbn [existsb snd]. rewrite IH. reflexivity. Qed.

Lemma payload_wf_obj : forall l, payload_wf (JObj l) = nodup_keys (map fst l) && forallb (fun kv => payload_wf (snd kv)) l.
Proof. intro l. cbn [payload_wf]. f_equal. induction l as [|[k x] r IH]; [reflexivity|]. cbn [forallb snd]. rewrite IH. reflexivity. Qed.

Lemma api_ok_split : forall j, payload_wf j = true -> has_bigint j = false -> api_ok j = true.
Proof.
  induction j as [|b|z|b|s|l IH|l IH] using json_ind'; intros Hw Hb; try reflexivity.
  - cbn [has_bigint] in Hb. cbn [api_ok]. apply negb_false_iff. exact Hb.
  - exact Hw.
  - cbn [api_ok]. cbn [payload_wf] in Hw. cbn [has_bigint] in Hb. rewrite forallb_forall in *. rewrite Forall_forall in IH.
    intros x Hx. apply IH; [exact Hx|apply Hw, Hx|].
    destruct (has_bigint x) eqn:E; [|reflexivity].
    assert (existsb has_bigint l = true) as E2 by (apply existsb_exists; exists x; split; assumption). congruence.
  - rewrite api_ok_obj. rewrite payload_wf_obj in Hw. rewrite has_bigint_obj in Hb. apply andb_true_iff in Hw. destruct Hw as [Hk Hw].
    rewrite Hk. cbn [andb]. rewrite forallb_forall in *. rewrite Forall_forall in IH.
    intros [k x] Hx. cbn [snd]. apply (IH (k, x) Hx); [apply (Hw (k, x) Hx)|].
    cbn [snd]. destruct (has_bigint x) eqn:E; [|reflexivity].
    assert (existsb (fun kv => has_bigint (snd kv)) l = true) as E2 by (apply existsb_exists; exists (k, x); split; assumption). congruence.
Qed.
