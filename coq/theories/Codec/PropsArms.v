(* Codec/PropsArms.v — T-tie for C44: the match arms of the three JSON <-> value conversion functions, as
   regenerated from the Rust source on every run (Gen_ApiArms.v), are the arms the model was written from.

   model clause (Codec/Model.v)                               Rust arm (normalised)
   value_to_json VNull        = JNull                         Value::Null => Value::Null
   value_to_json (VBool b)    = JBool b                       Value::Bool(x) => Value::Bool( *x )
   value_to_json (VInt z)     = JInt z                        Value::Int(x) => json!( *x )
   value_to_json (VFloat b)   = JFlt b / JNull if non-finite  Value::Float(x) => json!( *x )          (json!(f64) is Null for NaN/inf)
   value_to_json (VStr s)     = JStr s                        Value::Str(x) => Value::String(x.to_string())
   value_to_json (VTs z)      = JInt z                        Value::Timestamp(x) => json!( *x )
   value_to_json (VDur z)     = JInt z                        Value::Duration(x) => json!( *x )
   value_to_json (VArr l)     = JArr (map value_to_json l)    Value::Array(x) => Value::Array(x.iter().map(SELF).collect())
   value_to_json (VMap l)     = JObj (...)                    Value::Map(x) => { ... map(|(k,v)| (k.to_string(), SELF(v))).collect(); Value::Object(obj) }
   json_to_value ...                                          the six arms of json_to_runtime_value
   Both output functions (websocket::value_to_json used by the inject responses, api::json_from_value used by the
   log stream) must have exactly these arms; the second one is not reached by the differential run. *)
From Coq Require Import String List.
From VP Require Import Codec.Gen_ApiArms.
Import ListNotations.
Open Scope string_scope.

Definition expected_out_arms : list (string * string) :=
  [ ("Value::Array(x)", "Value::Array(x.iter().map(SELF).collect())");
    ("Value::Bool(x)", "Value::Bool(*x)");
    ("Value::Duration(x)", "json!(*x)");
    ("Value::Float(x)", "json!(*x)");
    ("Value::Int(x)", "json!(*x)");
    ("Value::Map(x)", "{letobj:Map<String,Value>=x.iter().map(|(k,v)|(k.to_string(),SELF(v))).collect();Value::Object(obj)}");
    ("Value::Null", "Value::Null");
    ("Value::Str(x)", "Value::String(x.to_string())");
    ("Value::Timestamp(x)", "json!(*x)") ].

Definition expected_in_arms : list (string * string) :=
  [ ("Value::Array(x)", "Value::array(x.iter().map(SELF).collect())");
    ("Value::Bool(x)", "Value::Bool(*x)");
    ("Value::Null", "Value::Null");
    ("Value::Number(x)", "{ifletSome(i)=x.as_i64(){Value::Int(i)}elseifletSome(f)=x.as_f64(){Value::Float(f)}else{Value::Null}}");
    ("Value::Object(x)", "{letmutm:IndexMap<Arc<str>,Value,FxBuildHasher>=IndexMap::with_hasher(FxBuildHasher);for(k,v)inx{m.insert(k.as_str().into(),SELF(v));}Value::map(m)}");
    ("Value::String(x)", "Value::Str(x.clone().into())") ].

Theorem C44_arms_value_to_json : arms_value_to_json = expected_out_arms.
Proof. reflexivity. Qed.

Theorem C44_arms_json_from_value : arms_json_from_value = expected_out_arms.
Proof. reflexivity. Qed.

Theorem C44_arms_json_to_runtime_value : arms_json_to_runtime_value = expected_in_arms.
Proof. reflexivity. Qed.
