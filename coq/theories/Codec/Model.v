(* Codec/Model.v — executable model of the checkpoint value/event codec (C20) and of the REST
   JSON <-> value conversion (C44). Definitions only.

   Rust (crates/varpulis-runtime/src/persistence.rs, codec.rs)         model
   ------------------------------------------------------------------  ------------------------------
   varpulis_core::Value                                                value
   SerializableValue                                                   sval
   value_to_serializable / serializable_to_value                       to_ser / of_ser
   #[derive(Serialize)] SerializableValue (externally tagged enum,     sv_json
     Float through float_serde) as a serde_json tree
   #[derive(Deserialize)] SerializableValue from a serde_json tree     sv_of_json
   From<&Event> for SerializableEvent / From<SerializableEvent>        ev_to_ser / ev_of_ser
   SerializableEvent as a JSON tree and back                           sev_json / sev_of_json
   Vec<SerializableEvent> inside a checkpoint                          evs_json / evs_of_json
   codec::serialize / deserialize (+ is_json sniffing)                 the JSON *text* layer is abstract: Section
                                                                       variables print/parse in Proofs (contract:
                                                                       parse (print t) = Some t on printable trees)
   Rust (crates/varpulis-cli/src/api.rs, websocket.rs)
   json_to_runtime_value                                               json_to_value
   websocket::value_to_json (inject responses) / json_from_value       value_to_json
   serde_json::Number::as_i64 / as_f64 (u64 -> f64 rounds to nearest)  f64_of_Z

   Numbers in a JSON tree: JInt z is an integer literal (serde_json keeps i64/u64 integers exactly; it only
   exists for -2^63 <= z < 2^64), JFlt bits is a finite binary64 given by its bit pattern.
   Strings are lists of unicode code points. Rust HashMap iteration order is not modelled: event fields
   are an association list in insertion order and compared up to order by the driver. *)
From Coq Require Import List ZArith NArith Bool.
Import ListNotations.
Open Scope Z_scope.

Definition str := list N.

Inductive value :=
| VNull | VBool (b : bool) | VInt (z : Z) | VFloat (bits : Z) | VStr (s : str)
| VTs (z : Z) | VDur (z : Z) | VArr (l : list value) | VMap (l : list (str * value)).

Inductive sval :=
| SInt (z : Z) | SFloat (bits : Z) | SBool (b : bool) | SString (s : str) | SNull
| STimestamp (z : Z) | SDuration (z : Z) | SArray (l : list sval) | SMap (l : list (str * sval)).

Inductive json :=
| JNull | JBool (b : bool) | JInt (z : Z) | JFlt (bits : Z) | JStr (s : str)
| JArr (l : list json) | JObj (l : list (str * json)).

(* ---- strings ---- *)
Fixpoint str_eqb (a b : str) : bool :=
  match a, b with
  | [], [] => true
  | x :: a', y :: b' => N.eqb x y && str_eqb a' b'
  | _, _ => false
  end.

(* ASCII names used by the encodings *)
Definition s_Int : str := [73; 110; 116]%N.
Definition s_Float : str := [70; 108; 111; 97; 116]%N.
Definition s_Bool : str := [66; 111; 111; 108]%N.
Definition s_String : str := [83; 116; 114; 105; 110; 103]%N.
Definition s_Null : str := [78; 117; 108; 108]%N.
Definition s_Timestamp : str := [84; 105; 109; 101; 115; 116; 97; 109; 112]%N.
Definition s_Duration : str := [68; 117; 114; 97; 116; 105; 111; 110]%N.
Definition s_Array : str := [65; 114; 114; 97; 121]%N.
Definition s_Map : str := [77; 97; 112]%N.
Definition s_NaN : str := [78; 97; 78]%N.
Definition s_Infinity : str := [73; 110; 102; 105; 110; 105; 116; 121]%N.
Definition s_NegInfinity : str := (45 :: s_Infinity)%N.
Definition s_event_type : str := [101; 118; 101; 110; 116; 95; 116; 121; 112; 101]%N.
Definition s_timestamp_ms : str := [116; 105; 109; 101; 115; 116; 97; 109; 112; 95; 109; 115]%N.
Definition s_fields : str := [102; 105; 101; 108; 100; 115]%N.

(* ---- binary64 bit patterns ---- *)
Definition two63 : Z := 9223372036854775808.
Definition two64 : Z := 18446744073709551616.
Definition two52 : Z := 4503599627370496.
Definition f_exp (bits : Z) : Z := (bits / two52) mod 2048.
Definition f_man (bits : Z) : Z := bits mod two52.
Definition f_finite (bits : Z) : bool := negb (f_exp bits =? 2047).
Definition f_nan (bits : Z) : bool := (f_exp bits =? 2047) && negb (f_man bits =? 0).
Definition bits_nan : Z := 9221120237041090560.        (* f64::NAN *)
Definition bits_inf : Z := 9218868437227405312.
Definition bits_ninf : Z := 18442240474082181120.

(* u64/i64 -> f64 (`as f64`): round to nearest, ties to even *)
Definition f64_of_pos (z : Z) : Z :=            (* 0 < z < 2^64 *)
  let e := Z.log2 z in
  if e <=? 52 then (e + 1023) * two52 + (z * 2 ^ (52 - e) - two52)
  else
    let sh := e - 52 in
    let q := z / 2 ^ sh in
    let r := z mod 2 ^ sh in
    let half := 2 ^ (sh - 1) in
    let q' := if (half <? r) || ((r =? half) && Z.odd q) then q + 1 else q in
    (* q' may be 2^53: the sum below then carries into the exponent, which is the right result *)
    (e + 1023) * two52 + (q' - two52).

Definition f64_of_Z (z : Z) : Z :=
  if z =? 0 then 0
  else if 0 <? z then f64_of_pos z
  else two63 + f64_of_pos (- z).

(* ---- Value <-> SerializableValue ---- *)
Fixpoint to_ser (v : value) : sval :=
  match v with
  | VInt z => SInt z
  | VFloat b => SFloat b
  | VBool b => SBool b
  | VStr s => SString s
  | VNull => SNull
  | VTs z => STimestamp z
  | VDur z => SDuration z
  | VArr l => SArray (map to_ser l)
  | VMap l => SMap ((fix go (l : list (str * value)) : list (str * sval) :=
                       match l with [] => [] | (k, x) :: r => (k, to_ser x) :: go r end) l)
  end.

(* IndexMap::insert: an existing key keeps its position and gets the new value *)
Fixpoint map_insert {A} (m : list (str * A)) (k : str) (x : A) : list (str * A) :=
  match m with
  | [] => [(k, x)]
  | (k', y) :: r => if str_eqb k' k then (k', x) :: r else (k', y) :: map_insert r k x
  end.

Definition map_of_list {A} (l : list (str * A)) : list (str * A) :=
  fold_left (fun m kv => map_insert m (fst kv) (snd kv)) l [].

Fixpoint of_ser (s : sval) : value :=
  match s with
  | SInt z => VInt z
  | SFloat b => VFloat b
  | SBool b => VBool b
  | SString s => VStr s
  | SNull => VNull
  | STimestamp z => VTs z
  | SDuration z => VDur z
  | SArray l => VArr (map of_ser l)
  | SMap l => VMap (map_of_list ((fix go (l : list (str * sval)) : list (str * value) :=
                       match l with [] => [] | (k, x) :: r => (k, of_ser x) :: go r end) l))
  end.

(* ---- SerializableValue as a serde_json tree ---- *)
Definition float_json (b : Z) : json :=
  if f_finite b then JFlt b
  else if f_nan b then JStr s_NaN
  else if b <? two63 then JStr s_Infinity else JStr s_NegInfinity.

Fixpoint sv_json (s : sval) : json :=
  match s with
  | SInt z => JObj [(s_Int, JInt z)]
  | SFloat b => JObj [(s_Float, float_json b)]
  | SBool b => JObj [(s_Bool, JBool b)]
  | SString x => JObj [(s_String, JStr x)]
  | SNull => JStr s_Null
  | STimestamp z => JObj [(s_Timestamp, JInt z)]
  | SDuration z => JObj [(s_Duration, JInt z)]
  | SArray l => JObj [(s_Array, JArr (map sv_json l))]
  | SMap l => JObj [(s_Map, JArr ((fix go (l : list (str * sval)) : list json :=
                       match l with [] => [] | (k, x) :: r => JArr [JStr k; sv_json x] :: go r end) l))]
  end.

Definition in_i64 (z : Z) : bool := (- two63 <=? z) && (z <? two63).
Definition in_u64 (z : Z) : bool := (0 <=? z) && (z <? two64).

(* float_serde::deserialize: a number, or the three names, or null (what older versions wrote) *)
Definition float_of_json (j : json) : option Z :=
  match j with
  | JFlt b => Some b
  | JInt z => Some (f64_of_Z z)
  | JNull => Some bits_nan
  | JStr s => if str_eqb s s_NaN then Some bits_nan
              else if str_eqb s s_Infinity then Some bits_inf
              else if str_eqb s s_NegInfinity then Some bits_ninf
              else None
  | _ => None
  end.

Fixpoint sv_of_json (j : json) : option sval :=
  match j with
  | JStr s => if str_eqb s s_Null then Some SNull else None
  | JObj [(k, x)] =>
      if str_eqb k s_Int then match x with JInt z => if in_i64 z then Some (SInt z) else None | _ => None end
      else if str_eqb k s_Float then option_map SFloat (float_of_json x)
      else if str_eqb k s_Bool then match x with JBool b => Some (SBool b) | _ => None end
      else if str_eqb k s_String then match x with JStr s => Some (SString s) | _ => None end
      else if str_eqb k s_Null then match x with JNull => Some SNull | _ => None end
      else if str_eqb k s_Timestamp then match x with JInt z => if in_i64 z then Some (STimestamp z) else None | _ => None end
      else if str_eqb k s_Duration then match x with JInt z => if in_u64 z then Some (SDuration z) else None | _ => None end
      else if str_eqb k s_Array then
        match x with
        | JArr l => option_map SArray ((fix go (l : list json) : option (list sval) :=
                      match l with
                      | [] => Some []
                      | y :: r => match sv_of_json y, go r with Some a, Some b => Some (a :: b) | _, _ => None end
                      end) l)
        | _ => None
        end
      else if str_eqb k s_Map then
        match x with
        | JArr l => option_map SMap ((fix go (l : list json) : option (list (str * sval)) :=
                      match l with
                      | [] => Some []
                      | JArr [JStr key; y] :: r =>
                          match sv_of_json y, go r with Some a, Some b => Some ((key, a) :: b) | _, _ => None end
                      | _ => None
                      end) l)
        | _ => None
        end
      else None
  | _ => None
  end.

(* ---- events ---- *)
Record event := mkEv { ety : str; ets : Z (* ns since the epoch *); efields : list (str * value) }.
Record sevent := mkSev { sty : str; sms : Z; sfields : list (str * sval) }.

Definition ms_ns : Z := 1000000.

(* From<&Event>: timestamp_millis() floors; fields into a HashMap *)
Definition ev_to_ser (e : event) : sevent :=
  mkSev (ety e) (ets e / ms_ns) (map_of_list (map (fun kv => (fst kv, to_ser (snd kv))) (efields e))).

(* From<SerializableEvent>: from_timestamp_millis; fields inserted into the event's IndexMap *)
Definition ev_of_ser (s : sevent) : event :=
  mkEv (sty s) (sms s * ms_ns) (map_of_list (map (fun kv => (fst kv, of_ser (snd kv))) (sfields s))).

Definition sev_json (s : sevent) : json :=
  JObj [(s_event_type, JStr (sty s)); (s_timestamp_ms, JInt (sms s));
        (s_fields, JObj (map (fun kv => (fst kv, sv_json (snd kv))) (sfields s)))].

Fixpoint obj_get (l : list (str * json)) (k : str) : option json :=
  match l with
  | [] => None
  | (k', x) :: r => if str_eqb k' k then Some x else obj_get r k
  end.

Fixpoint count_key (l : list (str * json)) (k : str) : nat :=
  match l with
  | [] => O
  | (k', _) :: r => if str_eqb k' k then S (count_key r k) else count_key r k
  end.

Fixpoint fields_of_json (l : list (str * json)) : option (list (str * sval)) :=
  match l with
  | [] => Some []
  | (k, x) :: r => match sv_of_json x, fields_of_json r with Some a, Some b => Some ((k, a) :: b) | _, _ => None end
  end.

(* derived struct visitor: every field exactly once, unknown keys ignored; HashMap: later duplicates win *)
Definition sev_of_json (j : json) : option sevent :=
  match j with
  | JObj l =>
      if (Nat.leb (count_key l s_event_type) 1 && Nat.leb (count_key l s_timestamp_ms) 1 && Nat.leb (count_key l s_fields) 1)%bool then
        match obj_get l s_event_type, obj_get l s_timestamp_ms, obj_get l s_fields with
        | Some (JStr ty), Some (JInt ms), Some (JObj fl) =>
            if in_i64 ms then option_map (fun f => mkSev ty ms (map_of_list f)) (fields_of_json fl) else None
        | _, _, _ => None
        end
      else None
  | _ => None
  end.

Definition evs_json (l : list sevent) : json := JArr (map sev_json l).

Fixpoint sevs_of_list (l : list json) : option (list sevent) :=
  match l with
  | [] => Some []
  | x :: r => match sev_of_json x, sevs_of_list r with Some a, Some b => Some (a :: b) | _, _ => None end
  end.

Definition evs_of_json (j : json) : option (list sevent) :=
  match j with JArr l => sevs_of_list l | _ => None end.

(* the whole path of a checkpoint's events at tree level *)
Definition encode_events (l : list event) : json := evs_json (map ev_to_ser l).
Definition decode_events (j : json) : option (list event) := option_map (map ev_of_ser) (evs_of_json j).

(* ---- REST: JSON <-> runtime value (C44) ---- *)
Fixpoint json_to_value (j : json) : value :=
  match j with
  | JNull => VNull
  | JBool b => VBool b
  | JInt z => if in_i64 z then VInt z else VFloat (f64_of_Z z)     (* as_i64, else as_f64 *)
  | JFlt b => VFloat b
  | JStr s => VStr s
  | JArr l => VArr (map json_to_value l)
  | JObj l => VMap (map_of_list ((fix go (l : list (str * json)) : list (str * value) :=
                       match l with [] => [] | (k, x) :: r => (k, json_to_value x) :: go r end) l))
  end.

(* serde_json::json!(f64) is Null for a non-finite float *)
Fixpoint value_to_json (v : value) : json :=
  match v with
  | VNull => JNull
  | VBool b => JBool b
  | VInt z => JInt z
  | VFloat b => if f_finite b then JFlt b else JNull
  | VStr s => JStr s
  | VTs z => JInt z
  | VDur z => JInt z
  | VArr l => JArr (map value_to_json l)
  | VMap l => JObj ((fix go (l : list (str * value)) : list (str * json) :=
                       match l with [] => [] | (k, x) :: r => (k, value_to_json x) :: go r end) l)
  end.
