(* Codec/Props.v — the C20 and C44 property theorems (statements only; proofs in Proofs.v / ProofsApi.v).

   C20 reading: a checkpoint's event-carrying part is a list of events; "serialised and read back" is
   events -> SerializableEvent -> JSON tree -> text -> JSON tree -> SerializableEvent -> events.
   The text layer is abstract (any print/parse with parse (print t) = Some t on trees holding i64/u64
   integers and finite floats). Equality is up to the payload bits of NaN (vnorm / enorm replace every NaN
   by the canonical one and change nothing else): a NaN is written as the string "NaN".
   Known finding (class event-timestamp-sub-millisecond): SerializableEvent keeps timestamp_ms only. *)
From Coq Require Import List ZArith NArith Bool.
From VP Require Import Codec.Model Codec.Proofs Codec.ProofsApi.
Import ListNotations.
Open Scope Z_scope.

(* ---------------- C20 ---------------- *)
Definition Known_C20_subms (e : event) : Prop := ets e mod ms_ns <> 0.

Theorem C20_value_roundtrip : forall v, vwf v = true ->
  option_map of_ser (sv_of_json (sv_json (to_ser v))) = Some (vnorm v).
Proof. exact value_roundtrip. Qed.

Theorem C20_norm_only_changes_nan : forall v, no_nan v = true -> vnorm v = v.
Proof. exact vnorm_no_nan. Qed.

Theorem C20_event_roundtrip : forall e, ewf e = true -> ~ Known_C20_subms e ->
  option_map ev_of_ser (sev_of_json (sev_json (ev_to_ser e))) = Some (enorm e).
Proof.
  intros e H K. apply event_roundtrip; [exact H|]. unfold whole_ms. unfold Known_C20_subms in K.
  destruct (Z.eq_dec (ets e mod ms_ns) 0) as [E|E]; [exact E|contradiction].
Qed.

Theorem C20_checkpoint_roundtrip :
  forall (text : Type) (print : json -> text) (parse : text -> option json),
  (forall j, json_ok j = true -> parse (print j) = Some j) ->
  forall l, Forall (fun e => ewf e = true /\ ~ Known_C20_subms e) l ->
    deserialize_events text parse (serialize_events text print l) = Some (map enorm l).
Proof.
  intros text print parse Hpp l H. apply checkpoint_roundtrip; [exact Hpp|].
  eapply Forall_impl; [|exact H]. intros e [He K]. split; [exact He|]. unfold whole_ms. unfold Known_C20_subms in K.
  destruct (Z.eq_dec (ets e mod ms_ns) 0) as [E|E]; [exact E|contradiction].
Qed.

Theorem C20_subms_refuted :
  exists e, ewf e = true /\ Known_C20_subms e /\ decode_events (encode_events [e]) <> Some [enorm e].
Proof.
  exists (mkEv [65%N] 1700000000123456789 [([120%N], VInt 1)]). split; [reflexivity|]. split.
  - unfold Known_C20_subms. vm_compute. discriminate.
  - vm_compute. discriminate.
Qed.

Example C20_hypotheses_satisfiable :
  let e := mkEv [65%N] 1700000000123000000
             [([120%N], VFloat bits_inf); ([121%N], VMap [([107%N], VArr [VNull; VFloat 18444492273895866368; VDur 18446744073709551615])])] in
  ewf e = true /\ ~ Known_C20_subms e /\ decode_events (encode_events [e]) = Some [enorm e] /\ enorm e <> e.
Proof. vm_compute. repeat split; try discriminate. intro H. apply H. reflexivity. Qed.

(* ---------------- C44 ---------------- *)
Definition Known_C44_bigint (j : json) : Prop := has_bigint j = true.   (* an integer literal outside the i64 range *)

Theorem C44_roundtrip : forall j, payload_wf j = true -> ~ Known_C44_bigint j ->
  value_to_json (json_to_value j) = j /\ same_kind j (json_to_value j) = true.
Proof.
  intros j Hw K. assert (api_ok j = true) as H.
  { apply api_ok_split; [exact Hw|]. unfold Known_C44_bigint in K. destruct (has_bigint j); [exfalso; apply K; reflexivity|reflexivity]. }
  split; [apply api_roundtrip, H|apply api_kind, H].
Qed.

Theorem C44_bigint_refuted :
  exists j, payload_wf j = true /\ Known_C44_bigint j /\
            ~ (value_to_json (json_to_value j) = j /\ same_kind j (json_to_value j) = true).
Proof.
  exists (JInt u64_max). split; [reflexivity|]. split; [reflexivity|]. intros [H _]. revert H. vm_compute. discriminate.
Qed.

Theorem C44_bigint_always_float : forall z, two63 <= z -> exists b, json_to_value (JInt z) = VFloat b.
Proof. exact api_big_integer_always_float. Qed.

Example C44_hypotheses_satisfiable :
  let j := JObj [([118%N], JArr [JInt 9223372036854775807; JInt (-9223372036854775808); JFlt 4607182418800017408; JNull]);
                 ([119%N], JObj [([97%N], JStr [104%N]); ([98%N], JBool true)])] in
  payload_wf j = true /\ ~ Known_C44_bigint j.
Proof. split; [reflexivity|]. unfold Known_C44_bigint. vm_compute. discriminate. Qed.
