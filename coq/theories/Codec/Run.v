(* Codec/Run.v — canonical rendering of trees, values and events, and the per-case entry points
   evaluated by the driver (checks/codec_common.py renders the implementation's answers the same way). *)
From Coq Require Import String List ZArith NArith Bool.
From VP Require Import Base.Render Codec.Model.
Import ListNotations.
Open Scope string_scope.

Definition r_str (s : str) : string := join "." (map str_of_N s).

Fixpoint str_ltb (a b : str) : bool :=
  match a, b with
  | [], [] => false
  | [], _ :: _ => true
  | _ :: _, [] => false
  | x :: a', y :: b' => if N.ltb x y then true else if N.eqb x y then str_ltb a' b' else false
  end.

(* stable insertion sort of an association list by key *)
Fixpoint ins_kv {A} (kv : str * A) (l : list (str * A)) : list (str * A) :=
  match l with
  | [] => [kv]
  | h :: r => if str_ltb (fst kv) (fst h) then kv :: l else h :: ins_kv kv r
  end.
Definition sort_kv {A} (l : list (str * A)) : list (str * A) := fold_right ins_kv [] l.

Definition r_float (b : Z) : string := if f_nan b then "nan" else str_of_Z b.

Fixpoint r_json (j : json) : string :=
  match j with
  | JNull => "n"
  | JBool b => if b then "t" else "f"
  | JInt z => "i" ++ str_of_Z z
  | JFlt b => "d" ++ r_float b
  | JStr s => "s" ++ r_str s
  | JArr l => "[" ++ join "," (map r_json l) ++ "]"
  | JObj l => "{" ++ join "," (map (fun kv : str * string => r_str (fst kv) ++ ":" ++ snd kv)
                 (sort_kv ((fix go (l : list (str * json)) : list (str * string) :=
                    match l with [] => [] | (k, x) :: r => (k, r_json x) :: go r end) l))) ++ "}"
  end.

Fixpoint r_value (v : value) : string :=
  match v with
  | VNull => "N"
  | VBool b => if b then "B1" else "B0"
  | VInt z => "I" ++ str_of_Z z
  | VFloat b => "F" ++ r_float b
  | VStr s => "S" ++ r_str s
  | VTs z => "T" ++ str_of_Z z
  | VDur z => "D" ++ str_of_Z z
  | VArr l => "A[" ++ join "," (map r_value l) ++ "]"
  | VMap l => "M{" ++ join "," ((fix go (l : list (str * value)) : list string :=
                    match l with [] => [] | (k, x) :: r => (r_str k ++ ":" ++ r_value x) :: go r end) l) ++ "}"
  end.

Definition r_event (e : event) : string :=
  "E(" ++ r_str (ety e) ++ ";" ++ str_of_Z (ets e) ++ ";{" ++
  join "," (map (fun kv : str * value => r_str (fst kv) ++ ":" ++ r_value (snd kv)) (sort_kv (efields e))) ++ "})".

(* C20: events -> tree, and the tree read back *)
Definition c20_case (evs : list event) : string :=
  let j := encode_events evs in
  "enc=" ++ r_json j ++ "|dec=" ++
  match decode_events j with
  | Some l => "ok:" ++ join ";" (map r_event l)
  | None => "err"
  end.

(* C20d: reading an arbitrary tree as a SerializableValue / SerializableEvent *)
Definition c20d_value (j : json) : string :=
  match sv_of_json j with Some s => "ok:" ++ r_value (of_ser s) | None => "err" end.
Definition c20d_event (j : json) : string :=
  match sev_of_json j with Some s => "ok:" ++ r_event (ev_of_ser s) | None => "err" end.

(* C44: a JSON payload through inject and back out *)
Definition c44_case (j : json) : string :=
  let v := json_to_value j in
  "val=" ++ r_value v ++ "|out=" ++ r_json (value_to_json v).
