(* Codec/Proofs.v — round-trip lemmas for the checkpoint codec model (C20).
   Base.Tactics is deliberately not required here: its [simpl never] settings for N.eqb would block the
   evaluation of the key comparisons on the constant variant names. *)
From Coq Require Import List ZArith NArith Bool Lia.
From VP Require Import Codec.Model.
Import ListNotations.
Open Scope Z_scope.
Ltac Zify.zify_post_hook ::= Z.div_mod_to_equations.

(* ---------------- strings and maps ---------------- *)
Lemma str_eqb_eq : forall a b, str_eqb a b = true <-> a = b.
Proof.
  induction a as [|x a IH]; intros [|y b]; cbn [str_eqb]; split; intro H; try discriminate; try reflexivity.
  - apply andb_true_iff in H. destruct H as [H1 H2]. apply N.eqb_eq in H1. apply IH in H2. subst. reflexivity.
  - inversion H; subst. apply andb_true_iff. split; [apply N.eqb_refl|apply IH; reflexivity].
Qed.

Lemma str_eqb_refl : forall a, str_eqb a a = true.
Proof. intro a. apply str_eqb_eq. reflexivity. Qed.

Lemma str_eqb_neq : forall a b, a <> b -> str_eqb a b = false.
Proof. intros a b H. destruct (str_eqb a b) eqn:E; [|reflexivity]. apply str_eqb_eq in E. contradiction. Qed.

Lemma map_insert_fresh : forall {A} (m : list (str * A)) k x,
  ~ In k (map fst m) -> map_insert m k x = m ++ [(k, x)].
Proof.
  intros A m k x. induction m as [|[k' y] m IH]; intro H; cbn [map_insert app]; [reflexivity|].
  cbn [map fst In] in H. rewrite str_eqb_neq by (intro; subst; apply H; left; reflexivity).
  rewrite IH by (intro; apply H; right; assumption). reflexivity.
Qed.

Lemma fold_insert_nodup : forall {A} (l : list (str * A)) (acc : list (str * A)),
  NoDup (map fst (acc ++ l)) ->
  fold_left (fun m kv => map_insert m (fst kv) (snd kv)) l acc = acc ++ l.
Proof.
  intros A l. induction l as [|[k x] l IH]; intros acc H; cbn [fold_left].
  - rewrite app_nil_r. reflexivity.
  - cbn [fst snd]. rewrite map_insert_fresh.
    + rewrite IH; rewrite <- app_assoc; [reflexivity|exact H].
    + rewrite map_app in H. cbn [map fst] in H. apply NoDup_remove_2 in H.
      intro Hin. apply H. apply in_or_app. left. exact Hin.
Qed.

Lemma map_of_list_nodup : forall {A} (l : list (str * A)), NoDup (map fst l) -> map_of_list l = l.
Proof. intros A l H. unfold map_of_list. apply (fold_insert_nodup l []). exact H. Qed.

(* ---------------- induction principles with nested lists ---------------- *)
Section ValueInd.
  Variable P : value -> Prop.
  Hypothesis HNull : P VNull.
  Hypothesis HBool : forall b, P (VBool b).
  Hypothesis HInt : forall z, P (VInt z).
  Hypothesis HFloat : forall b, P (VFloat b).
  Hypothesis HStr : forall s, P (VStr s).
  Hypothesis HTs : forall z, P (VTs z).
  Hypothesis HDur : forall z, P (VDur z).
  Hypothesis HArr : forall l, Forall P l -> P (VArr l).
  Hypothesis HMap : forall l, Forall (fun kv => P (snd kv)) l -> P (VMap l).
  Fixpoint value_ind' (v : value) : P v :=
    match v with
    | VNull => HNull | VBool b => HBool b | VInt z => HInt z | VFloat b => HFloat b | VStr s => HStr s
    | VTs z => HTs z | VDur z => HDur z
    | VArr l => HArr l ((fix go (l : list value) : Forall P l :=
                  match l with [] => Forall_nil _ | x :: r => Forall_cons x (value_ind' x) (go r) end) l)
    | VMap l => HMap l ((fix go (l : list (str * value)) : Forall (fun kv => P (snd kv)) l :=
                  match l with [] => Forall_nil _ | kv :: r => Forall_cons kv (value_ind' (snd kv)) (go r) end) l)
    end.
End ValueInd.

Section SvalInd.
  Variable P : sval -> Prop.
  Hypothesis HInt : forall z, P (SInt z).
  Hypothesis HFloat : forall b, P (SFloat b).
  Hypothesis HBool : forall b, P (SBool b).
  Hypothesis HStr : forall s, P (SString s).
  Hypothesis HNull : P SNull.
  Hypothesis HTs : forall z, P (STimestamp z).
  Hypothesis HDur : forall z, P (SDuration z).
  Hypothesis HArr : forall l, Forall P l -> P (SArray l).
  Hypothesis HMap : forall l, Forall (fun kv => P (snd kv)) l -> P (SMap l).
  Fixpoint sval_ind' (v : sval) : P v :=
    match v with
    | SInt z => HInt z | SFloat b => HFloat b | SBool b => HBool b | SString s => HStr s | SNull => HNull
    | STimestamp z => HTs z | SDuration z => HDur z
    | SArray l => HArr l ((fix go (l : list sval) : Forall P l :=
                  match l with [] => Forall_nil _ | x :: r => Forall_cons x (sval_ind' x) (go r) end) l)
    | SMap l => HMap l ((fix go (l : list (str * sval)) : Forall (fun kv => P (snd kv)) l :=
                  match l with [] => Forall_nil _ | kv :: r => Forall_cons kv (sval_ind' (snd kv)) (go r) end) l)
    end.
End SvalInd.

(* ---------------- the nested fixes as maps ---------------- *)
Definition on_snd {A B} (f : A -> B) (kv : str * A) : str * B := (fst kv, f (snd kv)).

Lemma to_ser_map : forall l, to_ser (VMap l) = SMap (map (on_snd to_ser) l).
Proof. intro l. cbn [to_ser]. f_equal. induction l as [|[k x] r IH]; [reflexivity|]. rewrite IH. reflexivity. Qed.

Lemma of_ser_map : forall l, of_ser (SMap l) = VMap (map_of_list (map (on_snd of_ser) l)).
Proof. intro l. cbn [of_ser]. do 2 f_equal. induction l as [|[k x] r IH]; [reflexivity|]. rewrite IH. reflexivity. Qed.

Definition entry_json (kv : str * sval) : json := JArr [JStr (fst kv); sv_json (snd kv)].

Lemma sv_json_map : forall l, sv_json (SMap l) = JObj [(s_Map, JArr (map entry_json l))].
Proof. intro l. cbn [sv_json]. do 4 f_equal. induction l as [|[k x] r IH]; [reflexivity|]. rewrite IH. reflexivity. Qed.

Fixpoint all_some {A} (l : list (option A)) : option (list A) :=
  match l with
  | [] => Some []
  | x :: r => match x, all_some r with Some a, Some b => Some (a :: b) | _, _ => None end
  end.

Definition entry_of_json (j : json) : option (str * sval) :=
  match j with
  | JArr [JStr key; y] => option_map (pair key) (sv_of_json y)
  | _ => None
  end.

Lemma sv_of_json_array : forall l,
  sv_of_json (JObj [(s_Array, JArr l)]) = option_map SArray (all_some (map sv_of_json l)).
Proof.
  intro l. cbn. f_equal. induction l as [|y r IH]; [reflexivity|]. cbn [map all_some]. rewrite <- IH.
  destruct (sv_of_json y); reflexivity.
Qed.

Lemma sv_of_json_map : forall l,
  sv_of_json (JObj [(s_Map, JArr l)]) = option_map SMap (all_some (map entry_of_json l)).
Proof.
  intro l. cbn. f_equal. induction l as [|y r IH]; [reflexivity|]. cbn [map all_some]. rewrite <- IH.
  destruct y as [| | | | |[|[| | | |key| |] [|y2 [|y3 l3]]]|]; try reflexivity.
  cbn [entry_of_json option_map]. destruct (sv_of_json y2); reflexivity.
Qed.

Lemma all_some_map : forall {A B} (f : A -> option B) (g : A -> B) l,
  Forall (fun x => f x = Some (g x)) l -> all_some (map f l) = Some (map g l).
Proof.
  intros A B f g l H. induction H as [|x l Hx Hl IH]; [reflexivity|]. cbn [map all_some]. rewrite Hx, IH. reflexivity.
Qed.

(* ---------------- well-formedness and NaN normalisation ---------------- *)
Definition in_bits (b : Z) : bool := (0 <=? b) && (b <? two64).

Fixpoint nodup_keys (l : list str) : bool :=
  match l with
  | [] => true
  | k :: r => negb (existsb (str_eqb k) r) && nodup_keys r
  end.

Lemma nodup_keys_NoDup : forall l, nodup_keys l = true -> NoDup l.
Proof.
  induction l as [|k r IH]; intro H; [constructor|]. cbn [nodup_keys] in H. apply andb_true_iff in H.
  destruct H as [H1 H2]. constructor; [|apply IH, H2]. intro Hin. apply negb_true_iff in H1.
  assert (existsb (str_eqb k) r = true) as E; [|congruence].
  apply existsb_exists. exists k. split; [exact Hin|apply str_eqb_refl].
Qed.

(* SerializableValue level *)
Fixpoint swf (s : sval) : bool :=
  match s with
  | SInt z => in_i64 z
  | SFloat b => in_bits b
  | STimestamp z => in_i64 z
  | SDuration z => in_u64 z
  | SArray l => forallb swf l
  | SMap l => (fix go (l : list (str * sval)) : bool := match l with [] => true | (_, x) :: r => swf x && go r end) l
  | _ => true
  end.

Lemma swf_map : forall l, swf (SMap l) = forallb (fun kv => swf (snd kv)) l.
Proof. intro l. cbn [swf]. induction l as [|[k x] r IH]; [reflexivity|]. cbn [forallb snd]. rewrite IH. reflexivity. Qed.

Definition fnorm (b : Z) : Z := if f_nan b then bits_nan else b.

Fixpoint snorm (s : sval) : sval :=
  match s with
  | SFloat b => SFloat (fnorm b)
  | SArray l => SArray (map snorm l)
  | SMap l => SMap ((fix go (l : list (str * sval)) : list (str * sval) :=
                       match l with [] => [] | (k, x) :: r => (k, snorm x) :: go r end) l)
  | _ => s
  end.

Lemma snorm_map : forall l, snorm (SMap l) = SMap (map (on_snd snorm) l).
Proof. intro l. cbn [snorm]. f_equal. induction l as [|[k x] r IH]; [reflexivity|]. rewrite IH. reflexivity. Qed.

Lemma float_roundtrip : forall b, in_bits b = true -> float_of_json (float_json b) = Some (fnorm b).
Proof.
  intros b H. unfold in_bits in H. apply andb_true_iff in H. destruct H as [H0 H1].
  apply Z.leb_le in H0. apply Z.ltb_lt in H1.
  unfold float_json, fnorm, f_nan, f_finite.
  destruct (f_exp b =? 2047) eqn:Ee; cbn [negb andb].
  - destruct (f_man b =? 0) eqn:Em; cbn [negb].
    + apply Z.eqb_eq in Ee. apply Z.eqb_eq in Em. unfold f_exp, f_man, two52, two63, two64 in *.
      destruct (b <? 9223372036854775808) eqn:Es.
      * apply Z.ltb_lt in Es. cbn. f_equal. unfold bits_inf. lia.
      * apply Z.ltb_ge in Es. cbn. f_equal. unfold bits_ninf. lia.
    + reflexivity.
  - reflexivity.
Qed.

Lemma sv_roundtrip : forall s, swf s = true -> sv_of_json (sv_json s) = Some (snorm s).
Proof.
  induction s as [z|b|b|x| |z|z|l IH|l IH] using sval_ind'; intro H.
  - cbn in *. rewrite H. reflexivity.
  - cbn [swf] in H. cbn [sv_json snorm]. change (sv_of_json (JObj [(s_Float, float_json b)]))
      with (option_map SFloat (float_of_json (float_json b))). rewrite float_roundtrip by exact H. reflexivity.
  - reflexivity.
  - reflexivity.
  - reflexivity.
  - cbn in *. rewrite H. reflexivity.
  - cbn in *. rewrite H. reflexivity.
  - cbn [sv_json snorm]. rewrite sv_of_json_array, map_map.
    rewrite (all_some_map (fun x => sv_of_json (sv_json x)) snorm); [reflexivity|].
    cbn [swf] in H. rewrite forallb_forall in H. rewrite Forall_forall in *. intros x Hx. apply IH; auto.
  - rewrite sv_json_map, snorm_map, sv_of_json_map, map_map.
    rewrite (all_some_map (fun kv => entry_of_json (entry_json kv)) (on_snd snorm)); [reflexivity|].
    rewrite swf_map in H. rewrite forallb_forall in H. rewrite Forall_forall in *. intros [k x] Hx.
    unfold entry_json, entry_of_json, on_snd. cbn [fst snd].
    pose proof (IH (k, x) Hx (H (k, x) Hx)) as IHx. cbn [snd] in IHx. rewrite IHx. reflexivity.
Qed.

(* Value level *)
Fixpoint vwf (v : value) : bool :=
  match v with
  | VInt z => in_i64 z
  | VFloat b => in_bits b
  | VTs z => in_i64 z
  | VDur z => in_u64 z
  | VArr l => forallb vwf l
  | VMap l => nodup_keys (map fst l) &&
              (fix go (l : list (str * value)) : bool := match l with [] => true | (_, x) :: r => vwf x && go r end) l
  | _ => true
  end.

Lemma vwf_map : forall l, vwf (VMap l) = nodup_keys (map fst l) && forallb (fun kv => vwf (snd kv)) l.
Proof. intro l. cbn [vwf]. f_equal. induction l as [|[k x] r IH]; [reflexivity|]. cbn [forallb snd]. rewrite IH. reflexivity. Qed.

Fixpoint vnorm (v : value) : value :=
  match v with
  | VFloat b => VFloat (fnorm b)
  | VArr l => VArr (map vnorm l)
  | VMap l => VMap ((fix go (l : list (str * value)) : list (str * value) :=
                       match l with [] => [] | (k, x) :: r => (k, vnorm x) :: go r end) l)
  | _ => v
  end.

Lemma vnorm_map : forall l, vnorm (VMap l) = VMap (map (on_snd vnorm) l).
Proof. intro l. cbn [vnorm]. f_equal. induction l as [|[k x] r IH]; [reflexivity|]. rewrite IH. reflexivity. Qed.

Lemma map_fst_on_snd : forall {A B} (f : A -> B) (l : list (str * A)), map fst (map (on_snd f) l) = map fst l.
Proof. intros. rewrite map_map. apply map_ext. intros [k x]. reflexivity. Qed.

Lemma to_ser_swf : forall v, vwf v = true -> swf (to_ser v) = true.
Proof.
  induction v as [|b|z|b|s|z|z|l IH|l IH] using value_ind'; intro H; try exact H; try reflexivity.
  - cbn [to_ser swf]. cbn [vwf] in H. rewrite forallb_forall in *. rewrite Forall_forall in IH.
    intros x Hx. apply in_map_iff in Hx. destruct Hx as [y [E Hy]]. subst. apply IH; auto.
  - rewrite to_ser_map, swf_map. rewrite vwf_map in H. apply andb_true_iff in H. destruct H as [_ H].
    rewrite forallb_forall in *. rewrite Forall_forall in IH.
    intros kv Hx. apply in_map_iff in Hx. destruct Hx as [[k y] [E Hy]]. subst. unfold on_snd. cbn [fst snd].
    apply (IH (k, y) Hy). apply (H (k, y) Hy).
Qed.

Lemma snorm_to_ser : forall v, snorm (to_ser v) = to_ser (vnorm v).
Proof.
  induction v as [|b|z|b|s|z|z|l IH|l IH] using value_ind'; try reflexivity.
  - cbn [to_ser snorm vnorm]. f_equal. rewrite !map_map. apply map_ext_in. rewrite Forall_forall in IH. exact IH.
  - rewrite to_ser_map, snorm_map, vnorm_map, to_ser_map. f_equal. rewrite !map_map.
    apply map_ext_in. rewrite Forall_forall in IH. intros [k x] Hx. unfold on_snd. cbn [fst snd]. f_equal. apply (IH (k, x) Hx).
Qed.

Lemma vnorm_vwf : forall v, vwf v = true -> vwf (vnorm v) = true.
Proof.
  induction v as [|b|z|b|s|z|z|l IH|l IH] using value_ind'; intro H; try exact H.
  - cbn [vnorm vwf] in *. unfold fnorm. destruct (f_nan b); [reflexivity|exact H].
  - cbn [vnorm vwf] in *. rewrite forallb_forall in *. rewrite Forall_forall in IH.
    intros x Hx. apply in_map_iff in Hx. destruct Hx as [y [E Hy]]. subst. apply IH; auto.
  - rewrite vnorm_map, vwf_map. rewrite vwf_map in H. apply andb_true_iff in H. destruct H as [Hk H].
    rewrite map_fst_on_snd, Hk. cbn [andb]. rewrite forallb_forall in *. rewrite Forall_forall in IH.
    intros kv Hx. apply in_map_iff in Hx. destruct Hx as [[k y] [E Hy]]. subst. unfold on_snd. cbn [fst snd].
    apply (IH (k, y) Hy). apply (H (k, y) Hy).
Qed.

Lemma of_ser_to_ser : forall v, vwf v = true -> of_ser (to_ser v) = v.
Proof.
  induction v as [|b|z|b|s|z|z|l IH|l IH] using value_ind'; intro H; try reflexivity.
  - cbn [to_ser of_ser]. f_equal. rewrite map_map. cbn [vwf] in H. rewrite forallb_forall in H.
    rewrite Forall_forall in IH. rewrite <- (map_id l) at 2. apply map_ext_in. intros x Hx. apply IH; auto.
  - rewrite to_ser_map, of_ser_map. f_equal. rewrite vwf_map in H. apply andb_true_iff in H. destruct H as [Hk H].
    rewrite map_map. rewrite map_of_list_nodup.
    + rewrite forallb_forall in H. rewrite Forall_forall in IH. rewrite <- (map_id l) at 2. apply map_ext_in.
      intros [k x] Hx. unfold on_snd. cbn [fst snd]. f_equal. apply (IH (k, x) Hx). apply (H (k, x) Hx).
    + rewrite map_map. cbn [on_snd fst]. apply nodup_keys_NoDup.
      erewrite map_ext; [exact Hk|]. intros [k x]. reflexivity.
Qed.

(* value -> SerializableValue -> JSON tree -> SerializableValue -> value *)
Definition value_rt (v : value) : option value := option_map of_ser (sv_of_json (sv_json (to_ser v))).

Lemma value_roundtrip : forall v, vwf v = true -> value_rt v = Some (vnorm v).
Proof.
  intros v H. unfold value_rt. rewrite sv_roundtrip by (apply to_ser_swf, H).
  cbn [option_map]. rewrite snorm_to_ser, of_ser_to_ser by (apply vnorm_vwf, H). reflexivity.
Qed.

Fixpoint no_nan (v : value) : bool :=
  match v with
  | VFloat b => negb (f_nan b)
  | VArr l => forallb no_nan l
  | VMap l => (fix go (l : list (str * value)) : bool := match l with [] => true | (_, x) :: r => no_nan x && go r end) l
  | _ => true
  end.

Lemma vnorm_no_nan : forall v, no_nan v = true -> vnorm v = v.
Proof.
  induction v as [|b|z|b|s|z|z|l IH|l IH] using value_ind'; intro H; try reflexivity.
  - cbn [vnorm no_nan] in *. unfold fnorm. destruct (f_nan b); [discriminate|reflexivity].
  - cbn [vnorm no_nan] in *. f_equal. rewrite forallb_forall in H. rewrite Forall_forall in IH.
    rewrite <- (map_id l) at 2. apply map_ext_in. intros x Hx. apply IH; auto.
  - rewrite vnorm_map. f_equal. rewrite Forall_forall in IH.
    assert (forall kv, In kv l -> no_nan (snd kv) = true) as Hall.
    { clear IH. cbn [no_nan] in H. induction l as [|[k x] r IHr]; intros kv Hin; [contradiction|].
      apply andb_true_iff in H. destruct H as [H1 H2]. destruct Hin as [E|Hin]; [subst; exact H1|apply IHr; assumption]. }
    rewrite <- (map_id l) at 2. apply map_ext_in. intros [k x] Hx. unfold on_snd. cbn [fst snd]. f_equal.
    apply (IH (k, x) Hx). apply (Hall (k, x) Hx).
Qed.

(* ---------------- events ---------------- *)
Definition ewf (e : event) : bool :=
  nodup_keys (map fst (efields e)) && forallb (fun kv => vwf (snd kv)) (efields e) && in_i64 (ets e / ms_ns).

Definition enorm (e : event) : event := mkEv (ety e) (ets e) (map (on_snd vnorm) (efields e)).

Definition whole_ms (e : event) : Prop := ets e mod ms_ns = 0.

Lemma fields_roundtrip : forall l, forallb (fun kv => swf (snd kv)) l = true ->
  fields_of_json (map (fun kv => (fst kv, sv_json (snd kv))) l) = Some (map (on_snd snorm) l).
Proof.
  induction l as [|[k x] r IH]; intro H; [reflexivity|]. cbn [forallb snd] in H. apply andb_true_iff in H.
  destruct H as [H1 H2]. cbn [map fields_of_json fst snd]. rewrite sv_roundtrip by exact H1. rewrite IH by exact H2. reflexivity.
Qed.

Lemma sev_roundtrip : forall s, in_i64 (sms s) = true -> NoDup (map fst (sfields s)) ->
  forallb (fun kv => swf (snd kv)) (sfields s) = true ->
  sev_of_json (sev_json s) = Some (mkSev (sty s) (sms s) (map (on_snd snorm) (sfields s))).
Proof.
  intros [ty ms fl] Hms Hk Hf. cbn [sty sms sfields] in *. unfold sev_json, sev_of_json. cbn [sty sms sfields].
  cbn. rewrite Hms. rewrite fields_roundtrip by exact Hf. cbn [option_map]. rewrite map_of_list_nodup; [reflexivity|].
  rewrite map_fst_on_snd. exact Hk.
Qed.

Lemma event_roundtrip : forall e, ewf e = true -> whole_ms e ->
  option_map ev_of_ser (sev_of_json (sev_json (ev_to_ser e))) = Some (enorm e).
Proof.
  intros [ty ts fl] H Hms. unfold ewf in H. cbn [efields ets] in H. apply andb_true_iff in H. destruct H as [H Hts].
  apply andb_true_iff in H. destruct H as [Hk Hv]. apply nodup_keys_NoDup in Hk.
  unfold whole_ms in Hms. cbn [ets] in Hms.
  unfold ev_to_ser. cbn [ety ets efields].
  assert (map (fun kv : str * value => (fst kv, to_ser (snd kv))) fl = map (on_snd to_ser) fl) as E1 by reflexivity.
  rewrite E1. rewrite map_of_list_nodup by (rewrite map_fst_on_snd; exact Hk).
  rewrite sev_roundtrip; cbn [sty sms sfields].
  - cbn [option_map]. unfold ev_of_ser, enorm. cbn [sty sms sfields ety ets efields]. f_equal. f_equal.
    + unfold ms_ns in *. lia.
    + assert (map (fun kv : str * sval => (fst kv, of_ser (snd kv))) (map (on_snd snorm) (map (on_snd to_ser) fl)) =
              map (on_snd vnorm) fl) as E2.
      { rewrite !map_map. apply map_ext_in. intros [k x] Hx. unfold on_snd. cbn [fst snd]. f_equal.
        rewrite snorm_to_ser. apply of_ser_to_ser. apply vnorm_vwf.
        rewrite forallb_forall in Hv. apply (Hv (k, x) Hx). }
      rewrite E2. apply map_of_list_nodup. rewrite map_fst_on_snd. exact Hk.
  - exact Hts.
  - rewrite map_fst_on_snd. exact Hk.
  - rewrite forallb_forall in *. intros kv Hx. apply in_map_iff in Hx. destruct Hx as [[k y] [E Hy]]. subst.
    unfold on_snd. cbn [fst snd]. apply to_ser_swf. apply (Hv (k, y) Hy).
Qed.

Lemma events_roundtrip : forall l, Forall (fun e => ewf e = true /\ whole_ms e) l ->
  decode_events (encode_events l) = Some (map enorm l).
Proof.
  intros l H. unfold decode_events, encode_events, evs_json, evs_of_json.
  assert (sevs_of_list (map sev_json (map ev_to_ser l)) <> None /\
          option_map (map ev_of_ser) (sevs_of_list (map sev_json (map ev_to_ser l))) = Some (map enorm l)) as [_ E]; [|exact E].
  induction H as [|e l [He Hm] Hl IH].
  - split; [discriminate|reflexivity].
  - cbn [map sevs_of_list]. pose proof (event_roundtrip e He Hm) as Ee.
    destruct (sev_of_json (sev_json (ev_to_ser e))) as [se|]; [|discriminate]. cbn [option_map] in Ee.
    destruct IH as [IH1 IH2]. destruct (sevs_of_list (map sev_json (map ev_to_ser l))) as [sl|]; [|congruence].
    cbn [option_map map] in *. split; [discriminate|]. assert (ev_of_ser se = enorm e) as E1 by congruence. assert (map ev_of_ser sl = map enorm l) as E2 by congruence. rewrite E1, E2. reflexivity.
Qed.

(* ---------------- with the text layer ---------------- *)
(* what the text layer is asked to carry: integers that fit serde_json's i64/u64 and finite floats *)
Fixpoint json_ok (j : json) : bool :=
  match j with
  | JInt z => (- two63 <=? z) && (z <? two64)
  | JFlt b => in_bits b && f_finite b
  | JArr l => forallb json_ok l
  | JObj l => (fix go (l : list (str * json)) : bool := match l with [] => true | (_, x) :: r => json_ok x && go r end) l
  | _ => true
  end.

Lemma json_ok_obj : forall l, json_ok (JObj l) = forallb (fun kv => json_ok (snd kv)) l.
Proof. intro l. cbn [json_ok]. induction l as [|[k x] r IH]; [reflexivity|]. cbn [forallb snd]. rewrite IH. reflexivity. Qed.

Lemma in_i64_ok : forall z, in_i64 z = true -> (- two63 <=? z) && (z <? two64) = true.
Proof.
  intros z H. unfold in_i64 in H. apply andb_true_iff in H. destruct H as [H1 H2]. apply andb_true_iff. split; [exact H1|].
  apply Z.ltb_lt in H2. apply Z.ltb_lt. unfold two63, two64 in *. lia.
Qed.

Lemma in_u64_ok : forall z, in_u64 z = true -> (- two63 <=? z) && (z <? two64) = true.
Proof.
  intros z H. unfold in_u64 in H. apply andb_true_iff in H. destruct H as [H1 H2]. apply andb_true_iff. split; [|exact H2].
  apply Z.leb_le in H1. apply Z.leb_le. unfold two63. lia.
Qed.

Lemma sv_json_ok : forall s, swf s = true -> json_ok (sv_json s) = true.
Proof.
  induction s as [z|b|b|x| |z|z|l IH|l IH] using sval_ind'; intro H; try reflexivity.
  - cbn [swf] in H. cbn [sv_json]. rewrite json_ok_obj. cbn [forallb snd json_ok]. rewrite (in_i64_ok z H). reflexivity.
  - cbn [swf] in H. cbn [sv_json]. rewrite json_ok_obj. cbn [forallb snd]. unfold float_json.
    destruct (f_finite b) eqn:Ef; [cbn [json_ok]; rewrite H, Ef; reflexivity|].
    destruct (f_nan b); [reflexivity|]. destruct (b <? two63); reflexivity.
  - cbn [swf] in H. cbn [sv_json]. rewrite json_ok_obj. cbn [forallb snd json_ok]. rewrite (in_i64_ok z H). reflexivity.
  - cbn [swf] in H. cbn [sv_json]. rewrite json_ok_obj. cbn [forallb snd json_ok]. rewrite (in_u64_ok z H). reflexivity.
  - cbn [sv_json]. rewrite json_ok_obj. cbn [forallb snd json_ok]. rewrite andb_true_r.
    cbn [swf] in H. rewrite forallb_forall in *. rewrite Forall_forall in IH.
    intros j Hj. apply in_map_iff in Hj. destruct Hj as [x [E Hx]]. subst. apply IH; auto.
  - rewrite sv_json_map, json_ok_obj. cbn [forallb snd json_ok]. rewrite andb_true_r.
    rewrite swf_map in H. rewrite forallb_forall in *. rewrite Forall_forall in IH.
    intros j Hj. apply in_map_iff in Hj. destruct Hj as [[k x] [E Hx]]. subst. unfold entry_json. cbn [fst snd json_ok forallb].
    pose proof (IH (k, x) Hx (H (k, x) Hx)) as IHx. cbn [snd] in IHx. rewrite IHx. reflexivity.
Qed.

Lemma encode_events_ok : forall l, Forall (fun e => ewf e = true) l -> json_ok (encode_events l) = true.
Proof.
  intros l H. unfold encode_events, evs_json. cbn [json_ok]. rewrite forallb_forall. intros j Hj.
  apply in_map_iff in Hj. destruct Hj as [se [E Hse]]. apply in_map_iff in Hse. destruct Hse as [e [E2 He]]. subst.
  rewrite Forall_forall in H. specialize (H e He). unfold ewf in H. apply andb_true_iff in H. destruct H as [H Hts].
  apply andb_true_iff in H. destruct H as [Hk Hv]. apply nodup_keys_NoDup in Hk.
  unfold sev_json, ev_to_ser. cbn [sty sms sfields]. rewrite json_ok_obj. cbn [forallb snd json_ok].
  rewrite (in_i64_ok _ Hts). cbn [andb]. rewrite andb_true_r.
  assert (map (fun kv : str * value => (fst kv, to_ser (snd kv))) (efields e) = map (on_snd to_ser) (efields e)) as E1 by reflexivity.
  rewrite E1, map_of_list_nodup by (rewrite map_fst_on_snd; exact Hk).
  change (json_ok (JObj (map (fun kv : str * sval => (fst kv, sv_json (snd kv))) (map (on_snd to_ser) (efields e)))) = true).
  rewrite json_ok_obj, forallb_forall. intros kv Hin. apply in_map_iff in Hin. destruct Hin as [[k s] [E Hin]]. subst. cbn [snd fst].
  apply in_map_iff in Hin. destruct Hin as [[k' x] [E Hin]]. inversion E; subst. apply sv_json_ok, to_ser_swf.
  rewrite forallb_forall in Hv. apply (Hv (k, x) Hin).
Qed.

Section Text.
  Variable text : Type.
  Variable print : json -> text.
  Variable parse : text -> option json.
  Hypothesis parse_print : forall j, json_ok j = true -> parse (print j) = Some j.

  Definition serialize_events (l : list event) : text := print (encode_events l).
  Definition deserialize_events (t : text) : option (list event) :=
    match parse t with Some j => decode_events j | None => None end.

  Lemma checkpoint_roundtrip : forall l, Forall (fun e => ewf e = true /\ whole_ms e) l ->
    deserialize_events (serialize_events l) = Some (map enorm l).
  Proof.
    intros l H. unfold deserialize_events, serialize_events. rewrite parse_print.
    - apply events_roundtrip, H.
    - apply encode_events_ok. eapply Forall_impl; [|exact H]. intros e [He _]. exact He.
  Qed.
End Text.
