(* Specification vocabulary for the coordinator properties (C32, C33): what "consistent
   bookkeeping" means on a model state, which steps of a history fall outside the property's
   assumptions, and which fall into a recorded finding class.  Definitions only. *)
From Coq Require Import Permutation.
From VP Require Import Base.Tactics Coord.Model.
Open Scope N_scope.

(* ---------------------------------------------------------------- the bookkeeping invariant *)
(* one placement entry counts for (worker w, name p) when it is Running on w under the name p *)
Definition dep_on (w p : N) (e : N * dep) : nat :=
  if N.eqb (fst e) p && N.eqb (dw (snd e)) w && dstat_eqb (dst (snd e)) DRunning then 1%nat else 0%nat.

Definition cnt_pl (w p : N) (pl : nmap dep) : nat := list_sum (map (dep_on w p) pl).

(* number of running placements named p on worker w, over all groups *)
Definition cnt_groups (w p : N) (gs : nmap group) : nat :=
  list_sum (map (fun e => cnt_pl w p (gpl (snd e))) gs).
Definition cnt (c : coord) (w p : N) : nat := cnt_groups w p (groups c).

(* the names of the running placements on w, with multiplicity (for the readable statement) *)
Definition placed_pl (w : N) (pl : nmap dep) : list N :=
  flat_map (fun e => if N.eqb (dw (snd e)) w && dstat_eqb (dst (snd e)) DRunning then [fst e] else []) pl.
Definition placed (c : coord) (w : N) : list N :=
  flat_map (fun e => placed_pl w (gpl (snd e))) (groups c).

(* maps are maps: group ids are unique and below the allocation counter, placement names unique per group *)
Definition WF (c : coord) : Prop :=
  NoDup (map fst (groups c)) /\
  (forall k, nextg c <= k -> get (groups c) k = None) /\
  (forall g gr, In (g, gr) (groups c) -> NoDup (map fst (gpl gr))).

Definition worker_ok (c : coord) (w : N) : Prop :=
  match get (workers c) w with
  | Some wk => (forall p, count_occ N.eq_dec (wasg wk) p = cnt c w p) /\ wrun wk = N.of_nat (length (wasg wk))
  | None => forall p, cnt c w p = 0%nat
  end.

Definition Inv (c : coord) : Prop := WF c /\ forall w, worker_ok c w.

(* ---------------------------------------------------------------- steps outside the assumptions / inside a finding class *)
(* does worker w hold a running placement? *)
Definition live (c : coord) (w : N) : bool :=
  existsb (fun e => existsb (fun d => N.eqb (dw (snd d)) w && dstat_eqb (dst (snd d)) DRunning) (gpl (snd e))) (groups c).

Fixpoint nodupb (l : list N) : bool :=
  match l with [] => true | x :: r => negb (existsb (N.eqb x) r) && nodupb r end.

(* the replica names a spec deploys *)
Definition spec_names (spec : list pspec) : list N :=
  flat_map (fun p => let count := N.max (preps p) 1 in map (fun k => replica_name (pn p) k count) (nseq count)) spec.

(* Assumptions of the property on one step (hypotheses of the theorem, restrictions of the generator's
   count oracle): a heartbeat reports the count the coordinator holds, a registration reports no
   running pipelines, the replica names of one group spec are distinct. *)
Definition assumed (s : sys) (o : op) : bool :=
  match o with
  | OHeartbeat w n => match get (workers (sc s)) w with Some wk => N.eqb n (wrun wk) | None => true end
  | ORegister _ _ _ run0 => N.eqb run0 0
  | OPlanDeploy spec _ => nodupb (spec_names spec)
  | _ => true
  end.

(* Recorded finding classes (known_findings.json), as predicates on the step and the state it runs in *)
Definition known_reregister (s : sys) (o : op) : bool :=
  match o with ORegister w _ _ _ => live (sc s) w | _ => false end.
Definition known_deregister (s : sys) (o : op) : bool :=
  match o with ODeregister w => live (sc s) w | _ => false end.
Definition known_drain (s : sys) (o : op) : bool :=
  match o with
  | ODrain w outs word pord =>
    match get (workers (sc s)) w with
    | Some wk => negb (wstatus_eqb (wst wk) WDraining) && live (fst (drain_loop (sc s) w outs word pord)) w
    | None => false
    end
  | _ => false
  end.
Definition known (s : sys) (o : op) : bool := known_reregister s o || known_deregister s o || known_drain s o.

(* a predicate holds at every step of a history run from s *)
Fixpoint all_steps (P : sys -> op -> bool) (s : sys) (ops : list op) : bool :=
  match ops with
  | [] => true
  | o :: r => P s o && all_steps P (fst (step s o)) r
  end.
Fixpoint some_step (P : sys -> op -> bool) (s : sys) (ops : list op) : bool :=
  match ops with
  | [] => false
  | o :: r => P s o || some_step P (fst (step s o)) r
  end.

(* ---------------------------------------------------------------- the readable statement of C32 *)
(* "each running pipeline replica is placed on exactly one registered worker; a worker's assigned
   pipelines and running count match exactly the running placements on it" *)
Definition Consistent (c : coord) : Prop :=
  (forall g gr p d, get (groups c) g = Some gr -> get (gpl gr) p = Some d -> dst d = DRunning ->
                    exists wk, get (workers c) (dw d) = Some wk) /\
  (forall w wk, get (workers c) w = Some wk ->
                Permutation (wasg wk) (placed c w) /\ wrun wk = N.of_nat (length (wasg wk))).
