(* Interpreter + rendering for the coordinator model (C32 / C33 correspondence).
   One case = one string: for every op "result~state", joined by "|". *)
From Coq Require Import String.
From VP Require Import Base.Tactics Base.Render Coord.Model.
Open Scope string_scope.

Fixpoint insert_by {A} (e : N * A) (l : list (N * A)) : list (N * A) :=
  match l with
  | [] => [e]
  | x :: r => if N.leb (fst e) (fst x) then e :: l else x :: insert_by e r
  end.
Definition sort_by {A} (l : list (N * A)) : list (N * A) := fold_right insert_by [] l.
Definition sortN (l : list N) : list N := map fst (sort_by (map (fun x => (x, tt)) l)).

Definition str_of_wstatus (s : wstatus) : string :=
  match s with WRegistering => "G" | WReady => "R" | WUnhealthy => "U" | WDraining => "D" end.
Definition str_of_dstat (s : dstat) : string := match s with DRunning => "R" | DFailed => "F" end.
Definition str_of_gstat (s : gstat) : string :=
  match s with GDeploying => "D" | GRunning => "R" | GPartial => "P" | GFailed => "F" end.
Definition str_of_err (e : err) : string :=
  match e with
  | ENoWorkers => "noworkers" | EWorkerNotFound => "noworker" | EGroupNotFound => "nogroup"
  | EMigration => "migration" | ENotAvailable => "unavailable"
  end.

Definition str_of_worker (now : Z) (e : N * worker) : string :=
  let w := snd e in
  "w" ++ str_of_N (fst e) ++ ":" ++ str_of_wstatus (wst w) ++ ":" ++ str_of_N (wrun w) ++ ":" ++ str_of_N (wmax w)
      ++ ":" ++ str_of_N (wcores w) ++ ":" ++ join "." (map str_of_N (wasg w)) ++ ":" ++ str_of_Z (now - whb w)%Z.

Definition str_of_dep (e : N * dep) : string :=
  let d := snd e in
  str_of_N (fst e) ++ "@" ++ str_of_N (dw d) ++ "," ++ str_of_dstat (dst d) ++ "," ++ str_of_bool (dhasid d) ++ "," ++ str_of_N (depoch d).

Definition str_of_group (e : N * group) : string :=
  "g" ++ str_of_N (fst e) ++ ":" ++ str_of_gstat (gst (snd e)) ++ ":" ++ join "/" (map str_of_dep (sort_by (gpl (snd e)))).

Definition str_of_state (c : coord) : string :=
  "W[" ++ join ";" (map (str_of_worker (cnow c)) (sort_by (workers c))) ++ "]G["
       ++ join ";" (map str_of_group (sort_by (groups c))) ++ "]".

Definition str_of_task (t : dtask) : string := str_of_N (tname t) ++ "@" ++ str_of_N (tw t).
Definition str_of_ob (o : option bool) : string := match o with None => "-" | Some b => str_of_bool b end.

Definition str_of_res (r : res) : string :=
  match r with
  | RUnit => "ok"
  | RBool b => "b" ++ str_of_bool b
  | RErr e => "err:" ++ str_of_err e
  | RNoPlan => "noplan"
  | RPlanD k ts => "plan" ++ str_of_nat k ++ ":" ++ join "/" (map str_of_task ts)
  | RPlanT k ts => "plan" ++ str_of_nat k ++ ":" ++ join "/" (map str_of_N (sortN (map fst ts)))
  | RPlanM k m => "plan" ++ str_of_nat k ++ ":" ++ str_of_N (msrc m) ++ ">" ++ str_of_N (mtgt m)
  | RGroup g => "g" ++ str_of_N g
  | RSweep l => "sweep:" ++ join "." (map str_of_N (sortN l))
  | REvac l => "evac:" ++ join "" (map str_of_ob l)
  | RDrain DrainNotFound => "err:noworker"
  | RDrain DrainAlready => "drain:0"
  | RDrain (DrainDone n) => "drain:" ++ str_of_N n
  | RMoves l => "moves:" ++ str_of_nat (length (filter (fun b => b) l))
  end.

Fixpoint runs (s : sys) (ops : list op) (acc : list string) : list string :=
  match ops with
  | [] => rev acc
  | o :: r => let '(s', res) := step s o in runs s' r ((str_of_res res ++ "~" ++ str_of_state (sc s')) :: acc)
  end.

Definition coord_case (timeout : Z) (ops : list op) : string := join "|" (runs (init timeout) ops []).
