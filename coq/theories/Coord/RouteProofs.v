(* Lemmas for C34: patterns, first matching route, key-hash stickiness, round-robin balance. *)
From Coq Require Import String Ascii.
From VP Require Import Base.Tactics Base.Render Coord.Model Coord.ProofsMap Coord.Route.
Open Scope N_scope.

(* ---------------------------------------------------------------- strings *)
Lemma str_eqb_eq a b : str_eqb a b = true <-> a = b.
Proof.
  revert b. induction a as [|x a IH]; intros [|y b]; cbn [str_eqb]; split; try discriminate; auto.
  - intros H. apply Bool.andb_true_iff in H. destruct H as [H1 H2]. apply Ascii.eqb_eq in H1. apply IH in H2. congruence.
  - intros H; inv H. rewrite Ascii.eqb_refl. cbn. now apply IH.
Qed.

Lemma is_prefix_spec p s : is_prefix p s = true <-> exists r, s = (p ++ r)%string.
Proof.
  revert s. induction p as [|x p IH]; intros s; cbn [is_prefix].
  - split; auto. intros _. exists s. reflexivity.
  - destruct s as [|y s].
    + split; [discriminate|]. intros [r H]. discriminate.
    + split.
      * intros H. apply Bool.andb_true_iff in H. destruct H as [H1 H2]. apply Ascii.eqb_eq in H1. apply IH in H2.
        destruct H2 as [r ->]. exists r. cbn. congruence.
      * intros [r H]. cbn in H. inv H. rewrite Ascii.eqb_refl. cbn. apply IH. eauto.
Qed.

Lemma strip_star_app p : strip_star (p ++ "*")%string = Some p.
Proof.
  induction p as [|c p IH]; cbn; auto.
  cbn in IH. rewrite IH. destruct (p ++ "*")%string eqn:E; auto. destruct p; discriminate.
Qed.

Lemma strip_star_some pat p : strip_star pat = Some p -> pat = (p ++ "*")%string.
Proof.
  revert p. induction pat as [|c r IH]; cbn [strip_star]; [discriminate|]. intros p.
  destruct r as [|c2 r2].
  - destruct (Ascii.eqb c "*"%char) eqn:E; [|discriminate]. apply Ascii.eqb_eq in E. intros H; inv H. reflexivity.
  - destruct (strip_star (String c2 r2)) as [r'|] eqn:E; [|discriminate]. intros H; inv H.
    cbn. f_equal. now apply IH.
Qed.

(* trailing wildcard: prefix match ("*" alone is the empty prefix) *)
Lemma matches_wildcard ty prefix : event_type_matches ty (prefix ++ "*")%string = is_prefix prefix ty.
Proof.
  unfold event_type_matches. rewrite strip_star_app.
  destruct (str_eqb (prefix ++ "*") "*") eqn:E; auto.
  apply str_eqb_eq in E. destruct prefix as [|c p]; [reflexivity|]. cbn in E. inv E. destruct p; discriminate.
Qed.

(* anything else: equality *)
Lemma matches_exact ty pat :
  (forall prefix, pat <> (prefix ++ "*")%string) -> event_type_matches ty pat = str_eqb ty pat.
Proof.
  intros H. unfold event_type_matches.
  destruct (str_eqb pat "*") eqn:E; [apply str_eqb_eq in E; exfalso; apply (H ""%string); now subst|].
  destruct (strip_star pat) as [p|] eqn:E2; auto. apply strip_star_some in E2. exfalso. now apply (H p).
Qed.

(* ---------------------------------------------------------------- routes *)
Lemma find_target_first routes pipelines ty :
  find_target routes pipelines ty =
  match find (fun r => existsb (event_type_matches ty) (r_patterns r)) routes with
  | Some r => Some (r_to r)
  | None => hd_error pipelines
  end.
Proof.
  unfold find_target.
  assert (H : find_route routes ty = option_map r_to (find (fun r => existsb (event_type_matches ty) (r_patterns r)) routes)).
  { induction routes as [|r rest IH]; cbn [find_route find option_map]; auto.
    destruct (existsb (event_type_matches ty) (r_patterns r)); auto. }
  rewrite H. destruct (find _ routes); cbn [option_map]; auto.
Qed.

(* ---------------------------------------------------------------- key-hash stickiness *)
Section Sticky.
  Variable hash : string -> N.

  Definition hash_replica (rg : rgroup) (ks : string) : N :=
    match rg_names rg with
    | [] => rg_pipeline rg
    | names => nth (N.to_nat (hash ks mod N.of_nat (length names))) names 0
    end.

  Lemma select_hash rg fields k :
    rg_key rg = Some k -> select_replica hash rg fields = (hash_replica rg (key_string fields k), rg).
  Proof. intros Hk. unfold select_replica, hash_replica. destruct (rg_names rg); auto. now rewrite Hk. Qed.

  (* the replica group of l is rg *)
  Definition keeps (l : N) (rg : rgroup) (st : rstate) : Prop := get (rs_groups st) l = Some rg.

  Lemma route_event_hash st l rg k fields :
    keeps l rg st -> rg_key rg = Some k ->
    fst (route_event hash st l fields) = hash_replica rg (key_string fields k).
  Proof. intros Hg Hk. unfold route_event, keeps in *. rewrite Hg, (select_hash rg fields k Hk). reflexivity. Qed.

  Lemma route_event_keeps st l rg k l' fields :
    keeps l rg st -> rg_key rg = Some k -> keeps l rg (snd (route_event hash st l' fields)).
  Proof.
    intros Hg Hk. unfold route_event, keeps in *. destruct (get (rs_groups st) l') as [rg'|] eqn:E; cbn [snd]; auto.
    destruct (select_replica hash rg' fields) as [n rg''] eqn:Es. cbn [snd set_group rs_groups].
    rewrite get_set. destruct (N.eqb l' l) eqn:E2; auto. apply N.eqb_eq in E2; subst l'.
    assert (rg' = rg) by congruence. subst rg'. rewrite (select_hash rg fields k Hk) in Es. now inv Es.
  Qed.

  Lemma route_event_frame st l fields :
    rs_routes (snd (route_event hash st l fields)) = rs_routes st /\
    rs_pipelines (snd (route_event hash st l fields)) = rs_pipelines st /\
    rs_placed (snd (route_event hash st l fields)) = rs_placed st.
  Proof.
    unfold route_event. destruct (get (rs_groups st) l); cbn [snd]; auto.
    destruct (select_replica hash r fields). cbn [snd set_group rs_routes rs_pipelines rs_placed]. auto.
  Qed.

  Lemma resolve_single_keeps st l rg k ty fields :
    keeps l rg st -> rg_key rg = Some k -> keeps l rg (snd (resolve_single hash st ty fields)).
  Proof.
    intros Hg Hk. unfold resolve_single. destruct (find_target (rs_routes st) (rs_pipelines st) ty) as [l'|]; cbn [snd]; auto.
    pose proof (route_event_keeps st l rg k l' fields Hg Hk) as H. destruct (route_event hash st l' fields). exact H.
  Qed.

  Lemma route_batch_keeps st l rg k ty data :
    keeps l rg st -> rg_key rg = Some k -> keeps l rg (snd (route_batch_event hash st ty data)).
  Proof.
    intros Hg Hk. unfold route_batch_event. destruct (find_target (rs_routes st) (rs_pipelines st) ty) as [l'|]; cbn [snd]; auto.
    pose proof (route_event_keeps st l rg k l' (batch_fields data) Hg Hk) as H. destruct (route_event hash st l' (batch_fields data)). exact H.
  Qed.
End Sticky.

(* ---------------------------------------------------------------- the key text of both paths *)
(* a key value as a client means it *)
Inductive kval := KInt (z : Z) (frepr : string) (* frepr: text of the f64 nearest to z *) | KFloat (repr : string)
                | KStr (s : string) | KBool (b : bool) | KNull | KMissing.

Definition in_i64 (z : Z) : bool := Z.leb (-9223372036854775808) z && Z.leb z 9223372036854775807.
Definition in_u64 (z : Z) : bool := Z.leb 0 z && Z.leb z 18446744073709551615.

(* single path: serde_json keeps integers up to u64 exactly, larger ones become f64 *)
Definition single_json (v : kval) : option jval :=
  match v with
  | KInt z r => Some (if in_i64 z then JInt z else if in_u64 z then JBig z r else JFloat r)
  | KFloat r => Some (JFloat r)
  | KStr s => Some (JStr s)
  | KBool b => Some (JBool b)
  | KNull => Some JNull
  | KMissing => None
  end.
(* batch path: the event-file parser yields i64 or else f64 *)
Definition batch_value (v : kval) : option rvalue :=
  match v with
  | KInt z r => Some (VJson (if in_i64 z then JInt z else JFloat r))
  | KFloat r => Some (VJson (JFloat r))
  | KStr s => Some (VJson (JStr s))
  | KBool b => Some (VJson (JBool b))
  | KNull => Some (VJson JNull)
  | KMissing => None
  end.

Definition opt_field {A} (k : string) (o : option A) : list (string * A) :=
  match o with Some a => [(k, a)] | None => [] end.

Lemma field_get_app_notin {A} (l1 l2 : list (string * A)) k :
  field_get l1 k = None -> field_get (l1 ++ l2) k = field_get l2 k.
Proof.
  induction l1 as [|[k' v] r IH]; cbn [field_get app]; auto. destruct (str_eqb k' k); [discriminate|auto].
Qed.

Lemma batch_fields_app a b : batch_fields (a ++ b) = (batch_fields a ++ batch_fields b)%list.
Proof. unfold batch_fields. apply flat_map_app. Qed.

Lemma same_key_text v k (other1 : list (string * jval)) (other2 : list (string * rvalue)) :
  field_get other1 k = None -> field_get (batch_fields other2) k = None ->
  key_string (other1 ++ opt_field k (single_json v)) k =
  key_string (batch_fields (other2 ++ opt_field k (batch_value v))) k.
Proof.
  intros H1 H2. unfold key_string. rewrite batch_fields_app, !field_get_app_notin by auto.
  destruct v as [z r| r | s | b | | ]; cbn [single_json batch_value opt_field batch_fields flat_map snd fst app field_get];
    rewrite ?(proj2 (str_eqb_eq k k) eq_refl); auto.
  destruct (in_i64 z); auto. destruct (in_u64 z); auto.
Qed.

(* ---------------------------------------------------------------- round robin *)
Definition F (n i X : N) : N := (X + n - 1 - i) / n.

Lemma step_count n i X : 0 < n -> i < n ->
  F n i (X + 1) = F n i X + (if N.eqb (X mod n) i then 1 else 0).
Proof.
  unfold F. intros Hn Hi. destruct (N.eqb (X mod n) i) eqn:E.
  - apply N.eqb_eq in E.
    pose proof (N.div_mod X n ltac:(lia)) as HX.
    pose proof (N.mod_lt X n ltac:(lia)).
    set (q := X / n) in *. rewrite E in HX.
    replace (X + 1 + n - 1 - i) with ((q + 1) * n) by nia.
    replace (X + n - 1 - i) with (q * n + (n - 1)) by nia.
    rewrite N.div_mul by lia. rewrite N.div_add_l by lia. rewrite N.div_small by lia. lia.
  - apply N.eqb_neq in E.
    pose proof (N.div_mod X n ltac:(lia)) as HX.
    pose proof (N.mod_lt X n ltac:(lia)).
    set (q := X / n) in *. set (r := X mod n) in *.
    destruct (N.lt_ge_cases r i).
    + replace (X + 1 + n - 1 - i) with (q * n + (r + n - i)) by nia.
      replace (X + n - 1 - i) with (q * n + (r + n - 1 - i)) by nia.
      rewrite !N.div_add_l by lia. rewrite !N.div_small by lia. lia.
    + replace (X + 1 + n - 1 - i) with ((q+1) * n + (r - i)) by nia.
      replace (X + n - 1 - i) with ((q+1) * n + (r - 1 - i)) by nia.
      rewrite !N.div_add_l by lia. rewrite !N.div_small by lia. lia.
Qed.

Lemma window_bounds A m n : 0 < n -> m / n <= (A + m) / n - A / n <= m / n + 1.
Proof.
  intros Hn.
  pose proof (N.div_mod A n ltac:(lia)). pose proof (N.mod_lt A n ltac:(lia)).
  pose proof (N.div_mod m n ltac:(lia)). pose proof (N.mod_lt m n ltac:(lia)).
  set (qa := A / n) in *. set (ra := A mod n) in *. set (qm := m / n) in *. set (rm := m mod n) in *.
  replace (A + m) with ((qa + qm) * n + (ra + rm)) by nia.
  rewrite N.div_add_l by lia.
  destruct (N.lt_ge_cases (ra + rm) n).
  - rewrite (N.div_small (ra + rm)) by lia. lia.
  - replace (ra + rm) with (1 * n + (ra + rm - n)) by lia. rewrite N.div_add_l by lia.
    rewrite (N.div_small (ra + rm - n)) by lia. lia.
Qed.

(* the replica indices chosen by m consecutive selections starting at counter c0 *)
Definition rr_indices (c0 n : N) (m : nat) : list N := map (fun k => (c0 + N.of_nat k) mod n) (seq 0 m).

Definition load (i : N) (l : list N) : N := N.of_nat (count_occ N.eq_dec l i).

Lemma rr_indices_S c0 n m : rr_indices c0 n (S m) = (rr_indices c0 n m ++ [(c0 + N.of_nat m) mod n])%list.
Proof. unfold rr_indices. rewrite seq_S, map_app. reflexivity. Qed.

Lemma load_rr c0 n i m : 0 < n -> i < n ->
  load i (rr_indices c0 n m) + F n i c0 = F n i (c0 + N.of_nat m).
Proof.
  intros Hn Hi. induction m as [|m IH].
  - unfold load, rr_indices. cbn. now rewrite N.add_0_r.
  - rewrite rr_indices_S. unfold load in *. rewrite count_occ_app. cbn [count_occ].
    replace (c0 + N.of_nat (S m)) with (c0 + N.of_nat m + 1) by lia.
    rewrite (step_count n i (c0 + N.of_nat m) Hn Hi).
    destruct (N.eq_dec ((c0 + N.of_nat m) mod n) i) as [E|E].
    + rewrite E, N.eqb_refl. lia.
    + destruct (N.eqb ((c0 + N.of_nat m) mod n) i) eqn:E2; [apply N.eqb_eq in E2; congruence|]. lia.
Qed.

Lemma load_bounds c0 n i m : 0 < n -> i < n ->
  N.of_nat m / n <= load i (rr_indices c0 n m) <= N.of_nat m / n + 1.
Proof.
  intros Hn Hi. pose proof (load_rr c0 n i m Hn Hi) as H. unfold F in *.
  pose proof (window_bounds (c0 + n - 1 - i) (N.of_nat m) n Hn) as HB.
  replace (c0 + N.of_nat m + n - 1 - i) with (c0 + n - 1 - i + N.of_nat m) in H by lia. lia.
Qed.

Lemma rr_balanced c0 n m i j : 0 < n -> i < n -> j < n ->
  load i (rr_indices c0 n m) <= load j (rr_indices c0 n m) + 1.
Proof.
  intros Hn Hi Hj. pose proof (load_bounds c0 n i m Hn Hi). pose proof (load_bounds c0 n j m Hn Hj). lia.
Qed.

(* the model's round-robin selections are exactly these indices *)
Section RR.
  Variable hash : string -> N.

  Fixpoint rr_run (rg : rgroup) (evs : list (list (string * jval))) : list N :=
    match evs with
    | [] => []
    | f :: r => let '(n, rg') := select_replica hash rg f in n :: rr_run rg' r
    end.

  Lemma rr_run_spec evs : forall rg,
    rg_key rg = None -> rg_names rg <> [] -> rg_counter rg + N.of_nat (length evs) < M64 ->
    rr_run rg evs =
    map (fun i => nth (N.to_nat i) (rg_names rg) 0) (rr_indices (rg_counter rg) (N.of_nat (length (rg_names rg))) (length evs)).
  Proof.
    induction evs as [|f r IH]; intros rg Hk Hn Hc; [reflexivity|].
    cbn [rr_run]. unfold select_replica. destruct (rg_names rg) as [|x names] eqn:En; [congruence|]. rewrite Hk.
    cbn [length] in Hc.
    specialize (IH (mkRG (rg_pipeline rg) (x :: names) None ((rg_counter rg + 1) mod M64))).
    cbn [rg_key rg_names rg_counter] in IH. rewrite IH; auto; try discriminate.
    - rewrite (N.mod_small (rg_counter rg + 1) M64) by lia. unfold rr_indices.
      change (length (f :: r)) with (S (length r)). cbn [seq map]. change (N.of_nat 0) with 0. rewrite N.add_0_r. f_equal.
      rewrite <- seq_shift, !map_map. apply map_ext. intros k. do 3 f_equal. lia.
    - rewrite (N.mod_small (rg_counter rg + 1) M64) by lia. lia.
  Qed.
End RR.
