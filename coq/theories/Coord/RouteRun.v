(* Interpreter + rendering for the routing model (C34 correspondence).  The hash is the real
   SipHash-1-3 of std's DefaultHasher, so replica indices are compared verbatim. *)
From Coq Require Import String.
From VP Require Import Base.Tactics Base.Render Coord.Model Coord.Route.
Open Scope string_scope.

Inductive revent :=
| ESingle (ty : string) (fields : list (string * jval))
| EBatch (evs : list (string * list (string * rvalue))).

Definition str_of_rres (r : rres) : string :=
  match r with
  | RTarget n => "t" ++ str_of_N n
  | RNotDeployed n => "nd"
  | RNoTarget => "nt"
  end.

Fixpoint run_batch (st : rstate) (evs : list (string * list (string * rvalue))) (acc : list rres) : list rres * rstate :=
  match evs with
  | [] => (rev acc, st)
  | (ty, data) :: r => let '(res, st') := route_batch_event str_hash st ty data in run_batch st' r (res :: acc)
  end.

Definition undeployed (l : list rres) : list N :=
  flat_map (fun r => match r with RNotDeployed n => [n] | _ => [] end) l.

Fixpoint insert_n (x : N) (l : list N) : list N :=
  match l with
  | [] => [x]
  | y :: r => if N.eqb x y then l else if N.ltb x y then x :: l else y :: insert_n x r
  end.
Definition sort_uniq (l : list N) : list N := fold_right insert_n [] l.

Fixpoint run_events (st : rstate) (evs : list revent) (acc : list string) : list string :=
  match evs with
  | [] => rev acc
  | ESingle ty fields :: r =>
    let '(res, st') := resolve_single str_hash st ty fields in
    run_events st' r ((match res with RNotDeployed n => "nd" ++ str_of_N n | _ => str_of_rres res end) :: acc)
  | EBatch b :: r =>
    let '(res, st') := run_batch st b [] in
    run_events st' r ((join "," (map str_of_rres res) ++ ";E:" ++ join "," (map str_of_N (sort_uniq (undeployed res)))) :: acc)
  end.

Definition route_case (routes : list route) (spec : list rspec) (outs : list bool) (evs : list revent) : string :=
  join "|" (run_events (init_state routes spec outs) evs []).

Definition hash_case (s : string) : string := str_of_N (str_hash s).
