(* Placement only on available workers; failure detection (C33). *)
From VP Require Import Base.Tactics Coord.Model Coord.Spec Coord.ProofsMap Coord.ProofsInv.
Open Scope N_scope.

(* available = registered, Ready, below capacity *)
Lemma avail_b_spec c w :
  avail_b c w = true <->
  exists wk, get (workers c) w = Some wk /\ wst wk = WReady /\ wrun wk < wmax wk.
Proof.
  unfold avail_b, is_available. split.
  - destruct (get (workers c) w) as [wk|]; [|discriminate]. intros H. apply Bool.andb_true_iff in H.
    destruct H as [H1 H2]. exists wk. split; auto. split; [destruct (wst wk); auto; discriminate|now apply N.ltb_lt].
  - intros (wk & -> & Hs & Hr). rewrite Hs. cbn. now apply N.ltb_lt.
Qed.

Lemma frame_avail c c' w : frame c c' -> avail_b c' w = avail_b c w.
Proof. intros (Hw & _ & _). unfold avail_b. now rewrite Hw. Qed.

Lemma Forall2_impl' {A B} (P Q : A -> B -> Prop) l l' :
  (forall a b, P a b -> Q a b) -> Forall2 P l l' -> Forall2 Q l l'.
Proof. intros H HF. induction HF; constructor; auto. Qed.

(* ---------------------------------------------------------------- deploy *)
Lemma place_rr_in c cands w : fst (place_rr c cands) = Some w -> In w cands.
Proof.
  unfold place_rr. destruct cands as [|x r]; cbn [fst]; [discriminate|]. intros H. now apply nth_error_In in H.
Qed.

Lemma select_worker_avail c word p w :
  fst (select_worker c word p) = Some w -> avail_b c w = true.
Proof.
  unfold select_worker. intros H.
  assert (Hrr : fst (place_rr c (filter (avail_b c) word)) = Some w -> avail_b c w = true).
  { intros H1. apply place_rr_in in H1. now apply filter_In in H1. }
  destruct (paff p) as [a|]; auto. destruct (avail_b c a) eqn:E; auto. cbn [fst] in H. now inv H.
Qed.

Lemma select_worker_affinity c word p a w :
  paff p = Some a -> avail_b c a = true -> fst (select_worker c word p) = Some w -> w = a.
Proof. unfold select_worker. intros -> ->. cbn [fst]. congruence. Qed.

(* every task of the replicas of one pipeline: on an available worker, and on the pinned worker when that one is available *)
Lemma plan_replicas_tasks word p count idxs : forall c ts,
  fst (plan_replicas c word p count idxs) = Some ts ->
  forall t, In t ts ->
    avail_b c (tw t) = true /\ (forall a, paff p = Some a -> avail_b c a = true -> tw t = a).
Proof.
  induction idxs as [|k r IH]; intros c ts; cbn [plan_replicas].
  - cbn [fst]. intros H; inv H. intros t [].
  - pose proof (select_worker_avail c word p) as Hav. pose proof (select_worker_frame c word p) as Hfr.
    pose proof (fun a => select_worker_affinity c word p a) as Haf.
    destruct (select_worker c word p) as [[w|] c']; cbn [fst snd] in *; [|discriminate].
    specialize (IH c'). destruct (plan_replicas c' word p count r) as [[ts'|] c'']; cbn [fst] in *; [|discriminate].
    intros H; inv H. intros t [Ht|Ht].
    + subst t. cbn [tw]. split; [now apply Hav|]. intros a Ha Hb. now apply (Haf a w Ha Hb).
    + destruct (IH ts' eq_refl t Ht) as [H1 H2]. rewrite (frame_avail _ _ _ Hfr) in H1. split; auto.
      intros a Ha Hb. apply H2; auto. now rewrite (frame_avail _ _ _ Hfr).
Qed.

Lemma plan_pipelines_tasks word spec : forall c ts,
  fst (plan_pipelines c word spec) = Some ts ->
  exists tss, ts = concat tss /\
    Forall2 (fun p tsp =>
               map tname tsp = map (fun k => replica_name (pn p) k (N.max (preps p) 1)) (nseq (N.max (preps p) 1)) /\
               forall t, In t tsp -> avail_b c (tw t) = true /\
                                     (forall a, paff p = Some a -> avail_b c a = true -> tw t = a))
            spec tss.
Proof.
  induction spec as [|p r IH]; intros c ts; cbn [plan_pipelines].
  - cbn [fst]. intros H; inv H. exists []. split; auto.
  - pose proof (plan_replicas_tasks word p (N.max (preps p) 1) (nseq (N.max (preps p) 1)) c) as Ht.
    destruct (plan_replicas_spec word p (N.max (preps p) 1) (nseq (N.max (preps p) 1)) c) as [Hf Hn].
    destruct (plan_replicas c word p (N.max (preps p) 1) (nseq (N.max (preps p) 1))) as [[ts1|] c']; cbn [fst snd] in *; [|discriminate].
    specialize (IH c'). destruct (plan_pipelines c' word r) as [[ts2|] c'']; cbn [fst] in *; [|discriminate].
    intros H; inv H. destruct (IH ts2 eq_refl) as (tss & -> & HF). exists (ts1 :: tss). split; auto.
    constructor.
    + split; [now apply Hn | now apply Ht].
    + eapply Forall2_impl'; [|exact HF]. cbn beta. intros p0 tsp [H1 H2]. split; auto.
      intros t Hin. destruct (H2 t Hin) as [H3 H4]. rewrite (frame_avail _ _ _ Hf) in H3. split; auto.
      intros a Ha Hb. apply H4; auto. now rewrite (frame_avail _ _ _ Hf).
Qed.

(* ---------------------------------------------------------------- migrations *)
Lemma plan_migrate_target c p g t m :
  plan_migrate c p g t = inr m -> mtgt m = t /\ avail_b c t = true.
Proof.
  unfold plan_migrate, avail_b. destruct (get (groups c) g) as [gr|]; [|discriminate].
  destruct (get (gpl gr) p) as [d|]; [|discriminate].
  destruct (get (workers c) t) as [w|]; [|discriminate].
  destruct (is_available w); cbn [negb]; [|discriminate].
  destruct (has_spec gr p); cbn [negb]; [|discriminate]. intros H; inv H. auto.
Qed.

Lemma migrate_target c p g t ok c' :
  migrate c p g t ok = (c', inr true) -> avail_b c t = true.
Proof.
  unfold migrate. destruct (plan_migrate c p g t) as [e|m] eqn:E; [discriminate|].
  intros _. now apply plan_migrate_target in E.
Qed.

Lemma min_by_load_in c rest : forall best, In (min_by_load c best rest) (fst best :: rest).
Proof.
  induction rest as [|id r IH]; intros best; cbn [min_by_load]; [now left|].
  assert (Hstep : forall b, fst b = fst best \/ fst b = id -> In (min_by_load c b r) (fst best :: id :: r)).
  { intros b Hb. destruct (IH b) as [H|H].
    - destruct Hb as [Hb|Hb]; rewrite <- H, Hb; [now left | right; now left].
    - right; now right. }
  destruct (get (workers c) id) as [w|]; [destruct (load_lt w (snd best))|]; apply Hstep; cbn [fst]; auto.
Qed.

Lemma least_loaded_in c cands w : least_loaded c cands = Some w -> In w cands.
Proof.
  induction cands as [|id r IH]; cbn [least_loaded]; [discriminate|].
  destruct (get (workers c) id) as [wk|].
  - intros H; inv H. apply (min_by_load_in c r (id, wk)).
  - intros H. right; auto.
Qed.

Lemma failover_target_spec c word w t :
  failover_target c word w = Some t -> avail_b c t = true /\ t <> w.
Proof.
  unfold failover_target. intros H. apply least_loaded_in in H. apply filter_In in H. destruct H as [_ H].
  apply Bool.andb_true_iff in H. destruct H as [H1 H2]. split; auto.
  intro; subst. rewrite N.eqb_refl in H2. discriminate.
Qed.

(* ---------------------------------------------------------------- failure detection *)
Lemma sweep_exact c w wk :
  get (workers c) w = Some wk ->
  get (workers (fst (sweep c))) w =
    Some (if wstatus_eqb (wst wk) WReady && Z.ltb (ctimeout c) (cnow c - whb wk) then w_set_status WUnhealthy wk else wk).
Proof.
  intros H. unfold sweep. cbn [fst workers set_workers].
  rewrite get_map_entries by (intros e; destruct (stale c (snd e)); reflexivity).
  rewrite H. cbn [option_map snd]. unfold stale. destruct (_ && _); reflexivity.
Qed.

Lemma sweep_reported c w wk :
  NoDup (map fst (workers c)) -> get (workers c) w = Some wk ->
  (In w (snd (sweep c)) <-> wst wk = WReady /\ (ctimeout c < cnow c - whb wk)%Z).
Proof.
  intros Hnd H. unfold sweep. cbn [snd]. rewrite in_map_iff. split.
  - intros ([w' wk'] & Hw & Hin). cbn [fst] in Hw. subst w'. apply filter_In in Hin. destruct Hin as [Hin Hs].
    rewrite (In_get_NoDup _ _ _ Hnd Hin) in H. inv H. cbn [snd] in Hs. unfold stale in Hs.
    apply Bool.andb_true_iff in Hs. destruct Hs as [H1 H2]. split; [destruct (wst wk); auto; discriminate|now apply Z.ltb_lt].
  - intros [H1 H2]. exists (w, wk). split; auto. apply filter_In. split; [now apply get_In|].
    cbn [snd]. unfold stale. rewrite H1. cbn. now apply Z.ltb_lt.
Qed.

Lemma heartbeat_recovers c w n wk :
  get (workers c) w = Some wk -> wst wk = WUnhealthy \/ wst wk = WReady ->
  exists wk', get (workers (fst (heartbeat c w n))) w = Some wk' /\
              wst wk' = WReady /\ whb wk' = cnow c /\ wrun wk' = n /\
              (avail_b (fst (heartbeat c w n)) w = true <-> n < wmax wk).
Proof.
  intros H Hs. unfold heartbeat. rewrite H. cbn [fst workers set_workers]. eexists. split; [apply get_set_eq|].
  cbn [wst whb wrun]. split; [destruct Hs as [-> | ->]; reflexivity|]. split; auto. split; auto.
  unfold avail_b. cbn [workers set_workers]. rewrite get_set_eq. unfold is_available. cbn [wst wrun wmax].
  assert (Hst : wstatus_eqb (if wstatus_eqb (wst wk) WUnhealthy then WReady else wst wk) WReady = true)
    by (destruct Hs as [-> | ->]; reflexivity).
  rewrite Hst. cbn [andb]. apply N.ltb_lt.
Qed.

(* ---------------------------------------------------------------- only the sweep marks a worker unhealthy *)
Definition status_of (c : coord) (w : N) : option wstatus := option_map wst (get (workers c) w).

(* the status of w is unchanged, or w was removed *)
Definition status_kept (c c' : coord) (w : N) : Prop :=
  status_of c' w = status_of c w \/ status_of c' w = None.

Lemma status_kept_refl c w : status_kept c c w. Proof. now left. Qed.
Lemma status_kept_trans a b c w : status_kept a b w -> status_kept b c w -> status_kept a c w.
Proof.
  unfold status_kept. intros [H1|H1] [H2|H2]; auto; try (left; congruence); right; congruence.
Qed.

Lemma upd_worker_status c id f w :
  (forall x, wst (f x) = wst x) -> status_of (upd_worker c id f) w = status_of c w.
Proof.
  intros Hf. unfold status_of. rewrite get_upd_worker. destruct (N.eqb id w) eqn:E; auto.
  apply N.eqb_eq in E; subst. destruct (get (workers c) w); cbn [option_map]; auto. now rewrite Hf.
Qed.

Lemma w_assign_st n x : wst (w_assign n x) = wst x. Proof. reflexivity. Qed.
Lemma w_unassign_st n x : wst (w_unassign n x) = wst x.
Proof. unfold w_unassign. destruct (remove_one n (wasg x)); reflexivity. Qed.

Lemma switch_status c p g tgt gr d w : status_of (switch c p g tgt gr d) w = status_of c w.
Proof.
  unfold switch. rewrite upd_worker_status by apply w_assign_st.
  destruct (dstat_eqb (dst d) DRunning); [rewrite upd_worker_status by apply w_unassign_st|]; reflexivity.
Qed.

Lemma commit_migrate_status c m ok w : status_of (fst (commit_migrate c m ok)) w = status_of c w.
Proof.
  unfold commit_migrate. destruct ok; cbn [negb fst]; auto.
  destruct (get (groups c) (mg m)) as [gr|]; cbn [fst]; auto.
  destruct (get (gpl gr) (mp m)) as [d|]; cbn [fst]; auto.
  destruct (dep_eqb d (mold m)); cbn [negb fst]; auto.
  destruct (get (workers c) (mtgt m)); cbn [fst]; auto. apply switch_status.
Qed.

Lemma migrate_status c p g t ok w : status_of (fst (migrate c p g t ok)) w = status_of c w.
Proof.
  unfold migrate. destruct (plan_migrate c p g t) as [e|m]; cbn [fst]; auto.
  pose proof (commit_migrate_status c m ok w) as H. destruct (commit_migrate c m ok). exact H.
Qed.

Lemma migrate_next_status c p g t os w : status_of (fst (fst (migrate_next c p g t os))) w = status_of c w.
Proof.
  unfold migrate_next. destruct (plan_migrate c p g t) as [e|m]; cbn [fst]; auto.
  destruct (next_outcome os) as [o os'].
  pose proof (commit_migrate_status c m o w) as H. destruct (commit_migrate c m o). exact H.
Qed.

Lemma evacuate_status word w0 aff w : forall c os, status_of (fst (evacuate c word w0 aff os)) w = status_of c w.
Proof.
  induction aff as [|[g p] r IH]; intros c os; cbn [evacuate fst]; auto.
  destruct (failover_target c word w0) as [t|].
  - pose proof (migrate_next_status c p g t os w) as H1. destruct (migrate_next c p g t os) as [[c1 b] os']. cbn [fst] in H1.
    specialize (IH c1 os'). destruct (evacuate c1 word w0 r os'). cbn [fst] in *. congruence.
  - specialize (IH c os). destruct (evacuate c word w0 r os). exact IH.
Qed.

Lemma run_migrations_status ms w : forall c os, status_of (fst (run_migrations c ms os)) w = status_of c w.
Proof.
  induction ms as [|[[g p] t] r IH]; intros c os; cbn [run_migrations fst]; auto.
  pose proof (migrate_next_status c p g t os w) as H1. destruct (migrate_next c p g t os) as [[c1 b] os']. cbn [fst] in H1.
  specialize (IH c1 os'). destruct (run_migrations c1 r os'). cbn [fst] in *. congruence.
Qed.

Lemma fold_unassign_status pl w : forall c, status_of (fold_left unassign_entry pl c) w = status_of c w.
Proof.
  induction pl as [|e r IH]; intros c; cbn [fold_left]; auto. rewrite IH. unfold unassign_entry.
  destruct (dstat_eqb _ _); auto. apply upd_worker_status, w_unassign_st.
Qed.

Lemma fold_commit_status rs w : forall c pl, status_of (fst (fold_left commit_result rs (c, pl))) w = status_of c w.
Proof.
  induction rs as [|[t ok] r IH]; intros c pl; cbn [fold_left fst]; auto.
  unfold commit_result at 2. destruct ok; [destruct (get (workers c) (tw t))|]; rewrite IH; auto.
  apply upd_worker_status, w_assign_st.
Qed.

Lemma frame_status c c' w : frame c c' -> status_of c' w = status_of c w.
Proof. intros (H & _ & _). unfold status_of. now rewrite H. Qed.

(* a Ready worker stays Ready or disappears under every operation except the sweep and an outside status write *)
Lemma step_keeps_ready s o w :
  (match o with OSweep | OSetStatus _ _ => False | _ => True end) ->
  status_of (sc s) w = Some WReady ->
  status_of (sc (fst (step s o))) w = Some WReady \/ status_of (sc (fst (step s o))) w = None.
Proof.
  intros Ho Hr. destruct o; try contradiction; cbn [step].
  - (* register *) cbn [fst sc]. unfold status_of, register in *. cbn [workers set_workers]. rewrite get_set.
    destruct (N.eqb w0 w); auto.
  - (* deregister *) unfold deregister. destruct (get (workers (sc s)) w0); cbn [fst sc]; auto.
    unfold status_of in *. cbn [workers set_workers]. rewrite get_remove. destruct (N.eqb w0 w); auto.
  - (* heartbeat *) unfold heartbeat. destruct (get (workers (sc s)) w0) as [wk|] eqn:E; cbn [fst sc]; auto.
    unfold status_of in *. cbn [workers set_workers]. rewrite get_set. destruct (N.eqb w0 w) eqn:E2; auto.
    apply N.eqb_eq in E2; subst. rewrite E in Hr. cbn [option_map] in *. inv Hr. rewrite H0. auto.
  - (* advance *) cbn [fst sc]. auto.
  - (* plan deploy *)
    destruct (plan_deploy_spec (sc s) word spec) as [Hf _].
    destruct (plan_deploy (sc s) word spec) as [[e|ts] c']; cbn [fst snd sc] in *; rewrite (frame_status _ _ _ Hf); auto.
  - (* commit deploy *)
    unfold take_plan. destruct (nth_error (pend s) k) as [[[spec ts|g ts|m]|]|]; cbn [fst sc]; auto.
    unfold commit_deploy. destruct (fold_left commit_result (combine ts outs) (sc s, [])) as [c1 pl] eqn:EF.
    assert (H : status_of c1 w = status_of (sc s) w).
    { change c1 with (fst (c1, pl)). rewrite <- EF. apply fold_commit_status. }
    left. unfold status_of in *. cbn [workers]. congruence.
  - (* plan teardown *) destruct (plan_teardown (sc s) g); cbn [fst sc]; auto.
  - (* commit teardown *)
    unfold take_plan. destruct (nth_error (pend s) k) as [[[spec ts|g ts|m]|]|]; cbn [fst sc]; auto.
    unfold commit_teardown. destruct (get (groups (sc s)) g); auto.
    left. pose proof (fold_unassign_status (gpl g0) w (sc s)) as H. unfold status_of in *. cbn [workers set_groups]. congruence.
  - (* plan migrate *) destruct (plan_migrate (sc s) p g t); cbn [fst sc]; auto.
  - (* commit migrate *)
    unfold take_plan. destruct (nth_error (pend s) k) as [[[spec ts|g ts|m]|]|]; cbn [fst sc]; auto.
    pose proof (commit_migrate_status (sc s) m ok w) as H. destruct (commit_migrate (sc s) m ok). cbn [fst sc] in *. left; congruence.
  - (* migrate *)
    pose proof (migrate_status (sc s) p g t ok w) as H. destruct (migrate (sc s) p g t ok) as [c' [e|b]]; cbn [fst sc] in *; left; congruence.
  - (* failover *)
    pose proof (evacuate_status word w0 (filter (placed_on (sc s) w0) pord) w (sc s) outs) as H. unfold failover.
    destruct (evacuate (sc s) word w0 (filter (placed_on (sc s) w0) pord) outs). cbn [fst sc] in *. left; congruence.
  - (* drain *)
    unfold drain. destruct (get (workers (sc s)) w0) as [wk|] eqn:E; cbn [fst sc]; auto.
    destruct (wstatus_eqb (wst wk) WDraining); cbn [fst sc]; auto.
    unfold drain_loop.
    pose proof (evacuate_status word w0 (filter (placed_on (upd_worker (sc s) w0 (w_set_status WDraining)) w0) pord) w
                  (upd_worker (sc s) w0 (w_set_status WDraining)) outs) as H.
    destruct (evacuate (upd_worker (sc s) w0 (w_set_status WDraining)) word w0 _ outs) as [c2 res]. cbn [fst sc] in *.
    unfold status_of in *. cbn [workers set_workers]. rewrite get_remove. destruct (N.eqb w0 w) eqn:E2; auto.
    left. rewrite H, get_upd_worker, E2. exact Hr.
  - (* rebalance *)
    unfold rebalance. destruct (N.ltb _ 2); cbn [fst sc]; auto. destruct (N.eqb _ 0); cbn [fst sc]; auto.
    pose proof (run_migrations_status
      (rb_plan (sc s) (map (fun id => (id, match get (workers (sc s)) id with Some w1 => wrun w1 | None => 0 end)) (filter (avail_b (sc s)) word))
               (filter (avail_b (sc s)) word) (filter (avail_b (sc s)) word) pord
               (fold_left N.add (map snd (map (fun id => (id, match get (workers (sc s)) id with Some w1 => wrun w1 | None => 0 end)) (filter (avail_b (sc s)) word))) 0)
               (N.of_nat (length (filter (avail_b (sc s)) word)))) w (sc s) outs) as H.
    destruct (run_migrations (sc s) _ outs). cbn [fst sc] in *. left; congruence.
Qed.
