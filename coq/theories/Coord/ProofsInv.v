(* The bookkeeping invariant is preserved by every coordinator operation (C32). *)
From VP Require Import Base.Tactics Coord.Model Coord.Spec Coord.ProofsMap.
Open Scope N_scope.

Definition ind (b : bool) : nat := if b then 1%nat else 0%nat.

Lemma dep_on_ind w p e :
  dep_on w p e = ind (N.eqb (fst e) p && N.eqb (dw (snd e)) w && dstat_eqb (dst (snd e)) DRunning).
Proof. reflexivity. Qed.

(* ---------------------------------------------------------------- counting *)
Lemma cnt_pl_set_some w q pl p d d0 :
  get pl p = Some d0 ->
  (cnt_pl w q (set pl p d) + dep_on w q (p, d0) = cnt_pl w q pl + dep_on w q (p, d))%nat.
Proof. intros H. unfold cnt_pl. now apply sum_set_some. Qed.

Lemma cnt_pl_set_none w q pl p d :
  get pl p = None -> cnt_pl w q (set pl p d) = (cnt_pl w q pl + dep_on w q (p, d))%nat.
Proof. intros H. unfold cnt_pl. now apply sum_set_none. Qed.

Lemma cnt_groups_set_some w q gs g gr gr0 :
  get gs g = Some gr0 ->
  (cnt_groups w q (set gs g gr) + cnt_pl w q (gpl gr0) = cnt_groups w q gs + cnt_pl w q (gpl gr))%nat.
Proof.
  intros H. unfold cnt_groups.
  apply (sum_set_some (fun e => cnt_pl w q (gpl (snd e))) gs g gr gr0 H).
Qed.

Lemma cnt_groups_set_none w q gs g gr :
  get gs g = None -> cnt_groups w q (set gs g gr) = (cnt_groups w q gs + cnt_pl w q (gpl gr))%nat.
Proof.
  intros H. unfold cnt_groups.
  apply (sum_set_none (fun e => cnt_pl w q (gpl (snd e))) gs g gr H).
Qed.

Lemma cnt_groups_remove w q gs g gr0 :
  NoDup (map fst gs) -> get gs g = Some gr0 ->
  (cnt_groups w q (remove gs g) + cnt_pl w q (gpl gr0) = cnt_groups w q gs)%nat.
Proof.
  intros Hnd H. unfold cnt_groups.
  apply (sum_remove (fun e => cnt_pl w q (gpl (snd e))) gs g gr0 Hnd H).
Qed.

Lemma cnt_pl_ge w q pl p d :
  In (p, d) pl -> (dep_on w q (p, d) <= cnt_pl w q pl)%nat.
Proof.
  unfold cnt_pl. induction pl as [|e r IH]; cbn [In map]; [tauto|]. rewrite list_sum_cons.
  intros [H|H]; [subst; lia|]. specialize (IH H). lia.
Qed.

Lemma cnt_groups_ge w q gs g gr :
  In (g, gr) gs -> (cnt_pl w q (gpl gr) <= cnt_groups w q gs)%nat.
Proof.
  unfold cnt_groups. induction gs as [|e r IH]; cbn [In map]; [tauto|]. rewrite list_sum_cons.
  intros [H|H]; [subst; cbn [snd]; lia|]. specialize (IH H). lia.
Qed.

(* a running placement is counted *)
Lemma cnt_running c g gr p d :
  get (groups c) g = Some gr -> get (gpl gr) p = Some d -> dst d = DRunning ->
  (1 <= cnt c (dw d) p)%nat.
Proof.
  intros Hg Hp Hr. unfold cnt.
  pose proof (cnt_groups_ge (dw d) p _ _ _ (get_In _ _ _ Hg)) as H1.
  pose proof (cnt_pl_ge (dw d) p _ _ _ (get_In _ _ _ Hp)) as H2.
  unfold dep_on in H2. cbn [fst snd] in H2. rewrite !N.eqb_refl, Hr in H2. cbn in H2. lia.
Qed.

(* ---------------------------------------------------------------- lists of assigned names *)
Lemma count_occ_snoc (l : list N) n p :
  count_occ N.eq_dec (l ++ [n]) p = (count_occ N.eq_dec l p + ind (N.eqb n p))%nat.
Proof.
  rewrite count_occ_app. cbn [count_occ]. unfold ind.
  destruct (N.eq_dec n p) as [E|E].
  - subst. now rewrite N.eqb_refl.
  - destruct (N.eqb n p) eqn:E2; auto. apply N.eqb_eq in E2; congruence.
Qed.

Lemma remove_one_some n l l' :
  remove_one n l = Some l' ->
  length l = S (length l') /\
  forall p, (count_occ N.eq_dec l' p + ind (N.eqb n p) = count_occ N.eq_dec l p)%nat.
Proof.
  revert l'. induction l as [|x r IH]; cbn [remove_one]; [discriminate|]. intros l'.
  destruct (N.eqb x n) eqn:E.
  - intros H; inv H. apply N.eqb_eq in E; subst x. split; auto. intros p. cbn [count_occ]. unfold ind.
    destruct (N.eq_dec n p) as [E|E].
    + subst. rewrite N.eqb_refl. lia.
    + destruct (N.eqb n p) eqn:E2; [apply N.eqb_eq in E2; congruence|lia].
  - destruct (remove_one n r) as [r'|] eqn:Hr; [|discriminate]. intros H; inv H.
    destruct (IH _ eq_refl) as [Hl Hc]. split; [cbn [length]; lia|]. intros p. cbn [count_occ].
    specialize (Hc p). destruct (N.eq_dec x p); lia.
Qed.

Lemma remove_one_none n l : remove_one n l = None -> count_occ N.eq_dec l n = 0%nat.
Proof.
  induction l as [|x r IH]; cbn [remove_one count_occ]; auto.
  destruct (N.eqb x n) eqn:E; [discriminate|].
  destruct (remove_one n r); [discriminate|]. intros _.
  destruct (N.eq_dec x n) as [E2|E2]; [subst; rewrite N.eqb_refl in E; discriminate|auto].
Qed.

(* ---------------------------------------------------------------- worker updates *)
Lemma upd_worker_groups c id f : groups (upd_worker c id f) = groups c.
Proof. unfold upd_worker. now destruct (get (workers c) id). Qed.
Lemma upd_worker_nextg c id f : nextg (upd_worker c id f) = nextg c.
Proof. unfold upd_worker. now destruct (get (workers c) id). Qed.

Lemma get_upd_worker c id f w :
  get (workers (upd_worker c id f)) w =
  if N.eqb id w then option_map f (get (workers c) id) else get (workers c) w.
Proof.
  unfold upd_worker. destruct (get (workers c) id) as [wk|] eqn:E; cbn [workers set_workers option_map].
  - apply get_set.
  - destruct (N.eqb id w) eqn:E2; auto. apply N.eqb_eq in E2; subst. auto.
Qed.

Lemma gpl_update_status g : gpl (update_status g) = gpl g.
Proof. unfold update_status. destruct (gpl g) eqn:E; auto. Qed.
Lemma gspec_update_status g : gspec (update_status g) = gspec g.
Proof. unfold update_status. destruct (gpl g) eqn:E; auto. Qed.

(* ---------------------------------------------------------------- well-formedness *)
Lemma WF_ext c c' :
  groups c' = groups c -> nextg c' = nextg c -> WF c -> WF c'.
Proof. unfold WF. intros -> ->. auto. Qed.

Lemma Inv_ext c c' :
  workers c' = workers c -> groups c' = groups c -> nextg c' = nextg c -> Inv c -> Inv c'.
Proof.
  intros Hw Hg Hn [Hwf Hok]. split; [eapply WF_ext; eauto|].
  intros w. specialize (Hok w). unfold worker_ok, cnt in *. now rewrite Hw, Hg.
Qed.

Lemma WF_set_group c g gr gr' :
  WF c -> get (groups c) g = Some gr -> NoDup (map fst (gpl gr')) ->
  WF (set_groups c (set (groups c) g gr')).
Proof.
  intros (Hnd & Hfresh & Hpl) Hg Hnd'. unfold WF. cbn [groups set_groups nextg].
  split; [now apply NoDup_keys_set|]. split.
  - intros k Hk. rewrite get_set. destruct (N.eqb g k) eqn:E; auto.
    apply N.eqb_eq in E; subst. rewrite (Hfresh _ Hk) in Hg. discriminate.
  - intros g0 gr0 Hin. apply In_set in Hin. destruct Hin as [[-> ->]|Hin]; eauto.
Qed.

(* ---------------------------------------------------------------- per-worker records *)
Lemma w_assign_spec n wk :
  (forall q, count_occ N.eq_dec (wasg (w_assign n wk)) q = (count_occ N.eq_dec (wasg wk) q + ind (N.eqb n q))%nat) /\
  (wrun wk = N.of_nat (length (wasg wk)) -> wrun (w_assign n wk) = N.of_nat (length (wasg (w_assign n wk)))).
Proof.
  split.
  - intros q. cbn [w_assign wasg]. apply count_occ_snoc.
  - intros H. cbn [w_assign wasg wrun]. rewrite app_length. cbn [length]. lia.
Qed.

Lemma w_unassign_spec n wk :
  (1 <= count_occ N.eq_dec (wasg wk) n)%nat ->
  (forall q, (count_occ N.eq_dec (wasg (w_unassign n wk)) q + ind (N.eqb n q) = count_occ N.eq_dec (wasg wk) q)%nat) /\
  (wrun wk = N.of_nat (length (wasg wk)) -> wrun (w_unassign n wk) = N.of_nat (length (wasg (w_unassign n wk)))).
Proof.
  intros H. unfold w_unassign. destruct (remove_one n (wasg wk)) as [l'|] eqn:E.
  - destruct (remove_one_some _ _ _ E) as [Hl Hc]. cbn [wasg wrun]. split; auto. intros Hr. lia.
  - apply remove_one_none in E. lia.
Qed.

Lemma inv_registered c w p :
  Inv c -> (1 <= cnt c w p)%nat ->
  exists wk, get (workers c) w = Some wk /\ (1 <= count_occ N.eq_dec (wasg wk) p)%nat.
Proof.
  intros [_ Hok] H. specialize (Hok w). unfold worker_ok in Hok.
  destruct (get (workers c) w) as [wk|].
  - exists wk. split; auto. destruct Hok as [Hc _]. rewrite Hc. auto.
  - rewrite Hok in H. lia.
Qed.

Ltac boolcases :=
  repeat match goal with
         | |- context [N.eqb ?a ?b] => let E := fresh "E" in destruct (N.eqb a b) eqn:E;
             [apply N.eqb_eq in E; try subst | ]
         | H : context [N.eqb ?a ?b] |- _ => let E := fresh "E" in destruct (N.eqb a b) eqn:E;
             [apply N.eqb_eq in E; try subst | ]
         end.

(* ---------------------------------------------------------------- the switch of a migration *)
Lemma switch_cnt c p g tgt gr d w q :
  get (groups c) g = Some gr -> get (gpl gr) p = Some d ->
  let new := mkD tgt DRunning true (depoch d + 1) in
  (cnt (switch c p g tgt gr d) w q + dep_on w q (p, d) = cnt c w q + dep_on w q (p, new))%nat.
Proof.
  intros Hg Hp new. unfold switch, cnt.
  rewrite upd_worker_groups.
  assert (Hgs : forall c0, groups (if dstat_eqb (dst d) DRunning then upd_worker c0 (dw d) (w_unassign p) else c0) = groups c0).
  { intros c0. destruct (dstat_eqb (dst d) DRunning); auto using upd_worker_groups. }
  rewrite Hgs. cbn [groups set_groups].
  pose proof (cnt_groups_set_some w q (groups c) g
     (update_status (mkG (gspec gr) (set (gpl gr) p new) (gst gr))) gr Hg) as H1.
  rewrite gpl_update_status in H1. cbn [gpl] in H1.
  pose proof (cnt_pl_set_some w q (gpl gr) p new d Hp) as H2.
  fold new. lia.
Qed.

Lemma switch_workers c p g tgt gr d w :
  get (workers (switch c p g tgt gr d)) w =
  let mid := fun x => if dstat_eqb (dst d) DRunning
                      then (if N.eqb (dw d) x then option_map (w_unassign p) (get (workers c) (dw d)) else get (workers c) x)
                      else get (workers c) x in
  if N.eqb tgt w then option_map (w_assign p) (mid tgt) else mid w.
Proof.
  unfold switch. rewrite get_upd_worker. cbv zeta.
  destruct (dstat_eqb (dst d) DRunning); rewrite ?get_upd_worker; cbn [workers set_groups]; reflexivity.
Qed.

Lemma switch_WF c p g tgt gr d :
  WF c -> get (groups c) g = Some gr -> WF (switch c p g tgt gr d).
Proof.
  intros Hwf Hg. unfold switch.
  eapply WF_ext; [apply upd_worker_groups | apply upd_worker_nextg |].
  assert (H : WF (set_groups c (set (groups c) g
      (update_status (mkG (gspec gr) (set (gpl gr) p (mkD tgt DRunning true (depoch d + 1))) (gst gr)))))).
  { apply WF_set_group with (gr := gr); auto. rewrite gpl_update_status. cbn [gpl].
    apply NoDup_keys_set. destruct Hwf as (_ & _ & Hpl). eapply Hpl. apply get_In; eauto. }
  destruct (dstat_eqb (dst d) DRunning); auto.
  eapply WF_ext; [apply upd_worker_groups | apply upd_worker_nextg | auto].
Qed.

Ltac norm_dep H :=
  unfold dep_on in H; cbn [fst snd dw dst] in H;
  repeat match type of H with
         | context [N.eqb ?a ?a] => rewrite (N.eqb_refl a) in H
         | context [N.eqb ?a ?b] =>
           match goal with E : N.eqb a b = _ |- _ => rewrite E in H end
         | context [dstat_eqb ?a ?b] =>
           match goal with E : dstat_eqb a b = _ |- _ => rewrite E in H end
         end;
  cbn [dstat_eqb] in H; rewrite ?Bool.andb_false_r, ?Bool.andb_true_r in H; cbn [andb] in H;
  unfold ind in *.

Lemma switch_inv c p g tgt gr d wt :
  Inv c -> get (groups c) g = Some gr -> get (gpl gr) p = Some d -> get (workers c) tgt = Some wt ->
  Inv (switch c p g tgt gr d).
Proof.
  intros HI Hg Hp Ht. split; [apply switch_WF; auto; apply HI|].
  intros w. unfold worker_ok. rewrite switch_workers. cbv zeta.
  assert (Hcnt := fun q => switch_cnt c p g tgt gr d w q Hg Hp). cbv zeta in Hcnt.
  destruct HI as [Hwf Hok].
  pose proof (Hok w) as Hw. pose proof (Hok tgt) as Htg. unfold worker_ok in Hw, Htg. rewrite Ht in Htg.
  destruct Htg as [Htc Htr].
  destruct (dstat_eqb (dst d) DRunning) eqn:Hrun.
  - (* the old placement was running on its worker *)
    assert (Hd : dst d = DRunning) by (destruct (dst d); auto; discriminate).
    destruct (inv_registered c (dw d) p (conj Hwf Hok) (cnt_running c g gr p d Hg Hp Hd)) as (ws & Hs & Hs1).
    pose proof (Hok (dw d)) as Hsrc. unfold worker_ok in Hsrc. rewrite Hs in Hsrc. destruct Hsrc as [Hsc Hsr].
    destruct (w_unassign_spec p ws Hs1) as [Hu1 Hu2].
    rewrite Hs. cbn [option_map].
    destruct (N.eqb tgt w) eqn:Etw.
    + apply N.eqb_eq in Etw; subst w.
      destruct (N.eqb (dw d) tgt) eqn:Est.
      * (* source = target *)
        cbn [option_map].
        destruct (w_assign_spec p (w_unassign p ws)) as [Ha1 Ha2]. split.
        -- intros q. rewrite Ha1. specialize (Hu1 q). specialize (Hcnt q). norm_dep Hcnt.
           apply N.eqb_eq in Est. specialize (Hsc q). rewrite Est in Hsc.
           destruct (N.eqb p q); lia.
        -- apply Ha2, Hu2, Hsr.
      * rewrite Ht. cbn [option_map]. destruct (w_assign_spec p wt) as [Ha1 Ha2]. split.
        -- intros q. rewrite Ha1. specialize (Hcnt q). specialize (Htc q). norm_dep Hcnt.
           destruct (N.eqb p q); lia.
        -- apply Ha2, Htr.
    + destruct (N.eqb (dw d) w) eqn:Esw.
      * cbn [option_map]. split.
        -- intros q. specialize (Hu1 q). specialize (Hcnt q). norm_dep Hcnt.
           apply N.eqb_eq in Esw; subst w. specialize (Hsc q).
           destruct (N.eqb p q); lia.
        -- apply Hu2, Hsr.
      * destruct (get (workers c) w) as [wk|].
        -- destruct Hw as [Hwc Hwr]. split; auto. intros q. specialize (Hcnt q). specialize (Hwc q).
           norm_dep Hcnt. lia.
        -- intros q. specialize (Hcnt q). specialize (Hw q). norm_dep Hcnt. lia.
  - (* the old placement was not running: nobody loses an entry *)
    destruct (N.eqb tgt w) eqn:Etw.
    + apply N.eqb_eq in Etw; subst w. rewrite Ht. cbn [option_map].
      destruct (w_assign_spec p wt) as [Ha1 Ha2]. split.
      * intros q. rewrite Ha1. specialize (Hcnt q). specialize (Htc q). norm_dep Hcnt.
        destruct (N.eqb p q); lia.
      * apply Ha2, Htr.
    + destruct (get (workers c) w) as [wk|].
      * destruct Hw as [Hwc Hwr]. split; auto. intros q. specialize (Hcnt q). specialize (Hwc q).
        norm_dep Hcnt. lia.
      * intros q. specialize (Hcnt q). specialize (Hw q). norm_dep Hcnt. lia.
Qed.

(* ---------------------------------------------------------------- migrations *)
Lemma commit_migrate_inv c m ok : Inv c -> Inv (fst (commit_migrate c m ok)).
Proof.
  intros HI. unfold commit_migrate.
  destruct ok; cbn [negb fst]; auto.
  destruct (get (groups c) (mg m)) as [gr|] eqn:Hg; cbn [fst]; auto.
  destruct (get (gpl gr) (mp m)) as [d|] eqn:Hp; cbn [fst]; auto.
  destruct (dep_eqb d (mold m)); cbn [negb fst]; auto.
  destruct (get (workers c) (mtgt m)) as [wt|] eqn:Ht; cbn [fst]; auto.
  eapply switch_inv; eauto.
Qed.

Lemma migrate_inv c p g t ok : Inv c -> Inv (fst (migrate c p g t ok)).
Proof.
  intros HI. unfold migrate. destruct (plan_migrate c p g t) as [e|m]; cbn [fst]; auto.
  pose proof (commit_migrate_inv c m ok HI) as H. destruct (commit_migrate c m ok). exact H.
Qed.

Lemma migrate_next_inv c p g t os : Inv c -> Inv (fst (fst (migrate_next c p g t os))).
Proof.
  intros HI. unfold migrate_next. destruct (plan_migrate c p g t) as [e|m]; cbn [fst]; auto.
  destruct (next_outcome os) as [o os'].
  pose proof (commit_migrate_inv c m o HI) as H. destruct (commit_migrate c m o). exact H.
Qed.

Lemma evacuate_inv word w aff : forall c os, Inv c -> Inv (fst (evacuate c word w aff os)).
Proof.
  induction aff as [|[g p] r IH]; intros c os HI; cbn [evacuate fst]; auto.
  destruct (failover_target c word w) as [t|].
  - pose proof (migrate_next_inv c p g t os HI) as H1. destruct (migrate_next c p g t os) as [[c1 b] os']. cbn [fst] in H1.
    specialize (IH c1 os' H1). destruct (evacuate c1 word w r os'). exact IH.
  - specialize (IH c os HI). destruct (evacuate c word w r os). exact IH.
Qed.

Lemma run_migrations_inv ms : forall c os, Inv c -> Inv (fst (run_migrations c ms os)).
Proof.
  induction ms as [|[[g p] t] r IH]; intros c os HI; cbn [run_migrations fst]; auto.
  pose proof (migrate_next_inv c p g t os HI) as H1. destruct (migrate_next c p g t os) as [[c1 b] os']. cbn [fst] in H1.
  specialize (IH c1 os' H1). destruct (run_migrations c1 r os'). exact IH.
Qed.

Lemma failover_inv c w os word pord : Inv c -> Inv (fst (failover c w os word pord)).
Proof. intros. unfold failover. now apply evacuate_inv. Qed.

Lemma rebalance_inv c os word pord : Inv c -> Inv (fst (rebalance c os word pord)).
Proof.
  intros HI. unfold rebalance.
  destruct (N.ltb _ 2); cbn [fst]; auto.
  destruct (N.eqb _ 0); cbn [fst]; auto.
  now apply run_migrations_inv.
Qed.

(* ---------------------------------------------------------------- operations that only touch worker records *)
Lemma inv_upd_status c id st : Inv c -> Inv (upd_worker c id (w_set_status st)).
Proof.
  intros [Hwf Hok]. split.
  - eapply WF_ext; [apply upd_worker_groups | apply upd_worker_nextg | auto].
  - intros w. specialize (Hok w). unfold worker_ok, cnt in *. rewrite get_upd_worker, upd_worker_groups.
    destruct (N.eqb id w) eqn:E; auto. apply N.eqb_eq in E; subst.
    destruct (get (workers c) w); cbn [option_map]; auto.
Qed.

Lemma heartbeat_inv c id n :
  match get (workers c) id with Some wk => n = wrun wk | None => True end ->
  Inv c -> Inv (fst (heartbeat c id n)).
Proof.
  intros Hn [Hwf Hok]. unfold heartbeat. destruct (get (workers c) id) as [wk|] eqn:E; cbn [fst]; [|split; auto].
  split; [eapply WF_ext; eauto; reflexivity|].
  intros w. pose proof (Hok w) as Hw. unfold worker_ok, cnt in *. cbn [workers set_workers groups].
  rewrite get_set. destruct (N.eqb id w) eqn:E2; auto. apply N.eqb_eq in E2; subst.
  rewrite E in Hw. cbn [wasg wrun]. auto.
Qed.

Lemma get_map_entries {A} (f : N * A -> N * A) (m : nmap A) k :
  (forall e, fst (f e) = fst e) ->
  get (map f m) k = option_map (fun v => snd (f (k, v))) (get m k).
Proof.
  intros Hf. induction m as [|[k0 v0] r IH]; cbn [map get option_map]; auto.
  specialize (Hf (k0, v0)). destruct (f (k0, v0)) as [k1 v1] eqn:E. cbn [fst] in Hf. subst k1.
  destruct (N.eqb k0 k) eqn:E2; auto. apply N.eqb_eq in E2; subst. cbn [option_map]. now rewrite E.
Qed.

Lemma sweep_inv c : Inv c -> Inv (fst (sweep c)).
Proof.
  intros [Hwf Hok]. unfold sweep. cbn [fst]. split; [eapply WF_ext; eauto; reflexivity|].
  intros w. specialize (Hok w). unfold worker_ok, cnt in *. cbn [workers set_workers groups].
  rewrite get_map_entries by (intros e; destruct (stale c (snd e)); reflexivity).
  destruct (get (workers c) w) as [wk|]; cbn [option_map]; auto.
  cbn [snd]. destruct (stale c wk); cbn [snd]; auto.
Qed.

Lemma advance_inv c d : Inv c -> Inv (advance c d).
Proof. intros. eapply Inv_ext; eauto; reflexivity. Qed.

(* no running placement on w <-> nothing counted for w *)
Lemma cnt_pl_zero w p pl :
  existsb (fun d : N * dep => N.eqb (dw (snd d)) w && dstat_eqb (dst (snd d)) DRunning) pl = false ->
  cnt_pl w p pl = 0%nat.
Proof.
  unfold cnt_pl. induction pl as [|[q d] r IH]; cbn [map existsb]; auto. rewrite list_sum_cons.
  intros H. apply Bool.orb_false_iff in H. destruct H as [H1 H2]. rewrite (IH H2).
  rewrite dep_on_ind. cbn [fst snd] in *. rewrite <- Bool.andb_assoc, H1, Bool.andb_false_r. reflexivity.
Qed.

Lemma live_false_cnt c w : live c w = false -> forall p, cnt c w p = 0%nat.
Proof.
  unfold live, cnt, cnt_groups. intros H p.
  induction (groups c) as [|[g gr] r IH]; cbn [map]; auto. rewrite list_sum_cons.
  cbn [existsb] in H. apply Bool.orb_false_iff in H. destruct H as [H1 H2]. rewrite (IH H2). cbn [snd] in *.
  now rewrite (cnt_pl_zero w p _ H1).
Qed.

Lemma register_inv c id cores maxp :
  live c id = false -> Inv c -> Inv (register c id cores maxp 0).
Proof.
  intros Hl [Hwf Hok]. unfold register. split; [eapply WF_ext; eauto; reflexivity|].
  intros w. specialize (Hok w). unfold worker_ok, cnt in *. cbn [workers set_workers groups].
  rewrite get_set. destruct (N.eqb id w) eqn:E; auto. apply N.eqb_eq in E; subst.
  cbn [wasg wrun length count_occ]. split; auto. intros p. symmetry. now apply live_false_cnt.
Qed.

Lemma remove_worker_inv c id :
  live c id = false -> Inv c -> Inv (set_workers c (remove (workers c) id)).
Proof.
  intros Hl [Hwf Hok]. split; [eapply WF_ext; eauto; reflexivity|].
  intros w. specialize (Hok w). unfold worker_ok, cnt in *. cbn [workers set_workers groups].
  rewrite get_remove. destruct (N.eqb id w) eqn:E; auto. apply N.eqb_eq in E; subst.
  now apply live_false_cnt.
Qed.

Lemma deregister_inv c id : live c id = false -> Inv c -> Inv (fst (deregister c id)).
Proof.
  intros Hl HI. unfold deregister. destruct (get (workers c) id); cbn [fst]; auto.
  now apply remove_worker_inv.
Qed.

Lemma drain_loop_inv c w os word pord : Inv c -> Inv (fst (drain_loop c w os word pord)).
Proof. intros HI. unfold drain_loop. apply evacuate_inv. now apply inv_upd_status. Qed.

Lemma drain_inv c w os word pord :
  live (fst (drain_loop c w os word pord)) w = false -> Inv c -> Inv (fst (drain c w os word pord)).
Proof.
  intros Hl HI. unfold drain. destruct (get (workers c) w) as [wk|]; cbn [fst]; auto.
  destruct (wstatus_eqb (wst wk) WDraining); cbn [fst]; auto.
  pose proof (drain_loop_inv c w os word pord HI) as H.
  destruct (drain_loop c w os word pord) as [c2 res]. cbn [fst] in *.
  now apply remove_worker_inv.
Qed.

(* ---------------------------------------------------------------- loops over placement entries *)
(* worker records agree with [base] plus the running placements of the entry list [pl] *)
Definition balanced (base : N -> N -> nat) (ws : nmap worker) (pl : nmap dep) : Prop :=
  forall w, match get ws w with
            | Some wk => (forall q, count_occ N.eq_dec (wasg wk) q = (base w q + cnt_pl w q pl)%nat) /\
                         wrun wk = N.of_nat (length (wasg wk))
            | None => forall q, (base w q + cnt_pl w q pl = 0)%nat
            end.

Lemma unassign_entry_groups c e : groups (unassign_entry c e) = groups c.
Proof. unfold unassign_entry. destruct (dstat_eqb _ _); auto using upd_worker_groups. Qed.
Lemma unassign_entry_nextg c e : nextg (unassign_entry c e) = nextg c.
Proof. unfold unassign_entry. destruct (dstat_eqb _ _); auto using upd_worker_nextg. Qed.

Lemma cnt_pl_cons w q e pl : cnt_pl w q (e :: pl) = (dep_on w q e + cnt_pl w q pl)%nat.
Proof. unfold cnt_pl. cbn [map]. now rewrite list_sum_cons. Qed.

Lemma teardown_loop base rest : forall cur,
  balanced base (workers cur) rest ->
  balanced base (workers (fold_left unassign_entry rest cur)) [].
Proof.
  induction rest as [|[n d] r IH]; intros cur HB; cbn [fold_left]; auto.
  apply IH. intros w. specialize (HB w). unfold unassign_entry. cbn [fst snd].
  destruct (dstat_eqb (dst d) DRunning) eqn:Hrun.
  - rewrite get_upd_worker. destruct (N.eqb (dw d) w) eqn:E.
    + apply N.eqb_eq in E; subst w. destruct (get (workers cur) (dw d)) as [wk|]; cbn [option_map].
      * destruct HB as [Hc Hr].
        assert (H1 : (1 <= count_occ N.eq_dec (wasg wk) n)%nat).
        { rewrite Hc, cnt_pl_cons. unfold dep_on. cbn [fst snd]. rewrite !N.eqb_refl, Hrun. cbn. lia. }
        destruct (w_unassign_spec n wk H1) as [Hu1 Hu2]. split; auto.
        intros q. specialize (Hu1 q). specialize (Hc q). rewrite cnt_pl_cons in Hc.
        unfold dep_on in Hc. cbn [fst snd] in Hc. rewrite N.eqb_refl, Hrun, Bool.andb_true_r in Hc. unfold ind in *.
        destruct (N.eqb n q); cbn [andb] in Hc; lia.
      * intros q. specialize (HB q). rewrite cnt_pl_cons in HB. lia.
    + destruct (get (workers cur) w) as [wk|].
      * destruct HB as [Hc Hr]. split; auto. intros q. rewrite Hc, cnt_pl_cons.
        unfold dep_on. cbn [fst snd]. rewrite E, Bool.andb_false_r. cbn. lia.
      * intros q. specialize (HB q). rewrite cnt_pl_cons in HB. lia.
  - destruct (get (workers cur) w) as [wk|].
    + destruct HB as [Hc Hr]. split; auto. intros q. rewrite Hc, cnt_pl_cons.
      unfold dep_on. cbn [fst snd]. rewrite Hrun, Bool.andb_false_r. cbn. lia.
    + intros q. specialize (HB q). rewrite cnt_pl_cons in HB. lia.
Qed.

Lemma fold_unassign_groups pl : forall c, groups (fold_left unassign_entry pl c) = groups c /\ nextg (fold_left unassign_entry pl c) = nextg c.
Proof.
  induction pl as [|e r IH]; intros c; cbn [fold_left]; auto.
  destruct (IH (unassign_entry c e)) as [H1 H2]. now rewrite H1, H2, unassign_entry_groups, unassign_entry_nextg.
Qed.

Lemma commit_teardown_inv c g : Inv c -> Inv (commit_teardown c g).
Proof.
  intros [Hwf Hok]. unfold commit_teardown. destruct (get (groups c) g) as [gr|] eqn:Hg; [|split; auto].
  destruct Hwf as (Hnd & Hfresh & Hpl). split.
  - unfold WF. cbn [groups set_groups nextg]. destruct (fold_unassign_groups (gpl gr) c) as [_ Hn]. rewrite Hn.
    split; [now apply NoDup_keys_remove|]. split.
    + intros k Hk. rewrite get_remove. destruct (N.eqb g k); auto.
    + intros g0 gr0 Hin. apply In_remove in Hin. destruct Hin as [_ Hin]. eauto.
  - pose (base := fun w q => cnt_groups w q (remove (groups c) g)).
    assert (HB : balanced base (workers c) (gpl gr)).
    { intros w. specialize (Hok w). unfold worker_ok, cnt in Hok.
      destruct (get (workers c) w) as [wk|].
      - destruct Hok as [Hc Hr]. split; auto. intros q. rewrite Hc. unfold base.
        pose proof (cnt_groups_remove w q _ _ _ Hnd Hg). lia.
      - intros q. specialize (Hok q). unfold base. pose proof (cnt_groups_remove w q _ _ _ Hnd Hg). lia. }
    apply teardown_loop in HB. intros w. specialize (HB w). unfold worker_ok, cnt. cbn [workers groups set_groups].
    unfold base in HB. destruct (get (workers (fold_left unassign_entry (gpl gr) c)) w) as [wk|].
    + destruct HB as [Hc Hr]. split; auto. intros q. rewrite Hc. unfold cnt_pl. cbn. lia.
    + intros q. specialize (HB q). unfold cnt_pl in HB. cbn in HB. lia.
Qed.

(* ---------------------------------------------------------------- commit of a deploy *)
Lemma deploy_loop base tasks : forall outs cur (pl : nmap dep) c1 pl1,
  NoDup (map tname tasks) ->
  (forall t, In t tasks -> get pl (tname t) = None) ->
  NoDup (map fst pl) ->
  balanced base (workers cur) pl ->
  fold_left commit_result (combine tasks outs) (cur, pl) = (c1, pl1) ->
  groups c1 = groups cur /\ nextg c1 = nextg cur /\ NoDup (map fst pl1) /\ balanced base (workers c1) pl1.
Proof.
  induction tasks as [|t r IH]; intros outs cur pl c1 pl1 Hnd Hfresh Hndpl HB; cbn [combine fold_left].
  { intros H; inv H; auto. }
  destruct outs as [|ok outs]; cbn [combine fold_left].
  { intros H; inv H; auto. }
  inversion Hnd as [|x l Hni Hnd']; subst.
  assert (Hnone : get pl (tname t) = None) by (apply Hfresh; now left).
  assert (Hfresh' : forall d t', In t' r -> get (set pl (tname t) d) (tname t') = None).
  { intros d t' Hin. rewrite get_set. destruct (N.eqb (tname t) (tname t')) eqn:E.
    - apply N.eqb_eq in E. exfalso. apply Hni. rewrite E. now apply in_map.
    - apply Hfresh. now right. }
  assert (Hfail : balanced base (workers cur) (set pl (tname t) (mkD (tw t) DFailed false 0))).
  { intros w. specialize (HB w). destruct (get (workers cur) w) as [wk|].
    - destruct HB as [Hc Hr]. split; auto. intros q. rewrite Hc, cnt_pl_set_none by auto.
      unfold dep_on. cbn [fst snd dst]. rewrite Bool.andb_false_r. lia.
    - intros q. rewrite cnt_pl_set_none by auto. unfold dep_on. cbn [fst snd dst]. rewrite Bool.andb_false_r.
      specialize (HB q). lia. }
  unfold commit_result at 2. 
  destruct ok.
  - destruct (get (workers cur) (tw t)) as [wt|] eqn:Ht.
    + intros EF.
      specialize (IH outs (upd_worker cur (tw t) (w_assign (tname t))) (set pl (tname t) (mkD (tw t) DRunning true 0)) c1 pl1).
      rewrite upd_worker_groups, upd_worker_nextg in IH. apply IH; auto using NoDup_keys_set.
      intros w. specialize (HB w). rewrite get_upd_worker. destruct (N.eqb (tw t) w) eqn:E.
      * apply N.eqb_eq in E; subst w. rewrite Ht in *. cbn [option_map]. destruct HB as [Hc Hr].
        destruct (w_assign_spec (tname t) wt) as [Ha1 Ha2]. split; auto.
        intros q. rewrite Ha1, Hc, cnt_pl_set_none by auto. unfold dep_on, ind. cbn [fst snd dw dst dstat_eqb].
        rewrite N.eqb_refl, !Bool.andb_true_r. lia.
      * destruct (get (workers cur) w) as [wk|].
        -- destruct HB as [Hc Hr]. split; auto. intros q. rewrite Hc, cnt_pl_set_none by auto.
           unfold dep_on. cbn [fst snd dw dst]. rewrite E, Bool.andb_false_r. cbn. lia.
        -- intros q. rewrite cnt_pl_set_none by auto. unfold dep_on. cbn [fst snd dw dst]. rewrite E, Bool.andb_false_r. cbn.
           specialize (HB q). lia.
    + apply IH; auto using NoDup_keys_set.
  - apply IH; auto using NoDup_keys_set.
Qed.

Lemma commit_deploy_inv c spec tasks outs :
  NoDup (map tname tasks) -> Inv c -> Inv (commit_deploy c spec tasks outs).
Proof.
  intros Hnd [Hwf Hok]. unfold commit_deploy.
  assert (HB0 : balanced (cnt c) (workers c) []).
  { intros w. specialize (Hok w). unfold worker_ok in Hok. destruct (get (workers c) w) as [wk|].
    - destruct Hok as [Hc Hr]. split; auto. intros q. rewrite Hc. unfold cnt_pl. cbn. lia.
    - intros q. rewrite Hok. reflexivity. }
  destruct (fold_left commit_result (combine tasks outs) (c, [])) as [c1 pl1] eqn:EF.
  destruct (deploy_loop (cnt c) tasks outs c [] c1 pl1 Hnd (fun _ _ => eq_refl) (NoDup_nil _) HB0 EF) as (Hg & Hn & Hndpl & HB).
  destruct Hwf as (Hndg & Hfresh & Hpl).
  assert (Hnone : get (groups c1) (nextg c1) = None) by (rewrite Hg, Hn; apply Hfresh; lia).
  split.
  - unfold WF. cbn [groups nextg]. rewrite Hg, Hn in *. split; [now apply NoDup_keys_set|]. split.
    + intros k Hk. rewrite get_set. destruct (N.eqb (nextg c) k) eqn:E; [apply N.eqb_eq in E; lia|].
      apply Hfresh. lia.
    + intros g0 gr0 Hin. apply In_set in Hin. destruct Hin as [[-> ->]|Hin]; eauto.
      now rewrite gpl_update_status.
  - intros w. specialize (HB w). unfold worker_ok, cnt. cbn [workers groups].
    destruct (get (workers c1) w) as [wk|].
    + destruct HB as [Hc Hr]. split; auto. intros q. rewrite cnt_groups_set_none by auto.
      rewrite Hc, gpl_update_status. cbn [gpl]. unfold cnt. now rewrite Hg.
    + intros q. rewrite cnt_groups_set_none by auto. specialize (HB q). rewrite gpl_update_status. cbn [gpl].
      unfold cnt in HB. rewrite Hg. lia.
Qed.

(* ---------------------------------------------------------------- plan phases *)
Definition frame (c c' : coord) : Prop :=
  workers c' = workers c /\ groups c' = groups c /\ nextg c' = nextg c.

Lemma frame_refl c : frame c c. Proof. unfold frame; auto. Qed.
Lemma frame_trans a b c : frame a b -> frame b c -> frame a c.
Proof. unfold frame. intros (A1 & A2 & A3) (B1 & B2 & B3). repeat split; congruence. Qed.

Lemma place_rr_frame c cands : frame c (snd (place_rr c cands)).
Proof. unfold place_rr. destruct cands; cbn [snd]; unfold frame; auto. Qed.

Lemma select_worker_frame c word p : frame c (snd (select_worker c word p)).
Proof.
  unfold select_worker. destruct (paff p) as [a|]; [destruct (avail_b c a); cbn [snd]|]; auto using frame_refl, place_rr_frame.
Qed.

Lemma plan_replicas_spec word p count idxs : forall c,
  frame c (snd (plan_replicas c word p count idxs)) /\
  forall ts, fst (plan_replicas c word p count idxs) = Some ts ->
             map tname ts = map (fun k => replica_name (pn p) k count) idxs.
Proof.
  induction idxs as [|k r IH]; intros c; cbn [plan_replicas].
  - cbn [fst snd]. split; [apply frame_refl|]. intros ts H; inv H. reflexivity.
  - pose proof (select_worker_frame c word p) as Hs. destruct (select_worker c word p) as [[w|] c']; cbn [snd] in Hs.
    + destruct (IH c') as [Hf Hn]. destruct (plan_replicas c' word p count r) as [[ts|] c'']; cbn [fst snd] in *.
      * split; [eapply frame_trans; eauto|]. intros ts0 H; inv H. cbn [map tname]. f_equal. now apply Hn.
      * split; [eapply frame_trans; eauto|]. discriminate.
    + cbn [fst snd]. split; auto. discriminate.
Qed.

Lemma plan_pipelines_spec word spec : forall c,
  frame c (snd (plan_pipelines c word spec)) /\
  forall ts, fst (plan_pipelines c word spec) = Some ts -> map tname ts = spec_names spec.
Proof.
  induction spec as [|p r IH]; intros c; cbn [plan_pipelines].
  - cbn [fst snd]. split; [apply frame_refl|]. intros ts H; inv H. reflexivity.
  - destruct (plan_replicas_spec word p (N.max (preps p) 1) (nseq (N.max (preps p) 1)) c) as [Hf Hn].
    destruct (plan_replicas c word p (N.max (preps p) 1) (nseq (N.max (preps p) 1))) as [[ts|] c']; cbn [fst snd] in *.
    + destruct (IH c') as [Hf' Hn']. destruct (plan_pipelines c' word r) as [[ts'|] c'']; cbn [fst snd] in *.
      * split; [eapply frame_trans; eauto|]. intros ts0 H; inv H. unfold spec_names. cbn [flat_map].
        rewrite map_app. f_equal; [apply Hn | apply Hn']; reflexivity.
      * split; [eapply frame_trans; eauto|]. discriminate.
    + split; auto. discriminate.
Qed.

Lemma plan_deploy_spec c word spec :
  frame c (snd (plan_deploy c word spec)) /\
  forall ts, fst (plan_deploy c word spec) = inr ts -> map tname ts = spec_names spec.
Proof.
  unfold plan_deploy. destruct (filter (avail_b c) word); cbn [fst snd].
  - split; [apply frame_refl|discriminate].
  - destruct (plan_pipelines_spec word spec c) as [Hf Hn].
    destruct (plan_pipelines c word spec) as [[ts|] c']; cbn [fst snd] in *.
    + split; auto. intros ts0 H; inv H. now apply Hn.
    + split; auto. discriminate.
Qed.

Lemma nodupb_NoDup l : nodupb l = true -> NoDup l.
Proof.
  induction l as [|x r IH]; cbn [nodupb]; [constructor|].
  intros H. apply Bool.andb_true_iff in H. destruct H as [H1 H2]. constructor; auto.
  intro Hin. apply Bool.negb_true_iff in H1. 
  assert (existsb (N.eqb x) r = true) by (apply existsb_exists; exists x; split; auto; apply N.eqb_refl).
  congruence.
Qed.

(* ---------------------------------------------------------------- the system *)
Definition SysInv (s : sys) : Prop :=
  Inv (sc s) /\
  forall k spec ts, nth_error (pend s) k = Some (Some (PD spec ts)) -> NoDup (map tname ts).

Lemma pend_snoc_ok (l : list (option plan)) x :
  (forall k spec ts, nth_error l k = Some (Some (PD spec ts)) -> NoDup (map tname ts)) ->
  (forall spec ts, x = Some (PD spec ts) -> NoDup (map tname ts)) ->
  forall k spec ts, nth_error (l ++ [x]) k = Some (Some (PD spec ts)) -> NoDup (map tname ts).
Proof.
  intros Hl Hx k spec ts H. destruct (Nat.lt_ge_cases k (length l)) as [Hk|Hk].
  - rewrite nth_error_app1 in H by auto. eauto.
  - rewrite nth_error_app2 in H by auto. destruct (k - length l)%nat as [|j]; cbn [nth_error] in H.
    + inv H. eauto.
    + destruct j; discriminate.
Qed.

Lemma clear_nth_ok {A} (l : list (option A)) j : forall k p,
  nth_error (clear_nth l j) k = Some (Some p) -> nth_error l k = Some (Some p).
Proof.
  revert j. induction l as [|x r IH]; intros j k p; cbn [clear_nth]; auto.
  destruct j as [|j']; destruct k as [|k']; cbn [nth_error]; auto; try discriminate.
  apply IH.
Qed.

Lemma step_inv s o :
  SysInv s -> assumed s o = true -> known s o = false -> SysInv (fst (step s o)).
Proof.
  intros [HI HP] Ha Hk. unfold known in Hk. apply Bool.orb_false_iff in Hk. destruct Hk as [Hk Hk3].
  apply Bool.orb_false_iff in Hk. destruct Hk as [Hk1 Hk2].
  destruct o; cbn [step assumed known_reregister known_deregister known_drain] in *.
  - (* register *)
    apply N.eqb_eq in Ha. subst. cbn [fst]. split; auto. cbn [sc]. now apply register_inv.
  - (* deregister *)
    pose proof (deregister_inv (sc s) w Hk2 HI) as H. destruct (deregister (sc s) w). cbn [fst sc pend] in *. split; auto.
  - (* heartbeat *)
    assert (H : Inv (fst (heartbeat (sc s) w n))).
    { apply heartbeat_inv; auto. destruct (get (workers (sc s)) w); auto. now apply N.eqb_eq in Ha. }
    destruct (heartbeat (sc s) w n). cbn [fst sc pend] in *. split; auto.
  - (* advance *)
    cbn [fst sc pend]. split; auto.
  - (* sweep *)
    pose proof (sweep_inv (sc s) HI) as H. destruct (sweep (sc s)). cbn [fst sc pend] in *. split; auto.
  - (* status written from outside *)
    cbn [fst sc pend]. split; auto. cbn [sc]. now apply inv_upd_status.
  - (* plan deploy *)
    destruct (plan_deploy_spec (sc s) word spec) as [(Hw & Hg & Hn) Hnames].
    destruct (plan_deploy (sc s) word spec) as [[e|ts] c']; cbn [fst snd sc pend] in *.
    + split; [eapply Inv_ext; eauto|]. apply pend_snoc_ok; auto. discriminate.
    + split; [eapply Inv_ext; eauto|]. apply pend_snoc_ok; auto. intros spec0 ts0 H; inv H.
      rewrite (Hnames _ eq_refl). now apply nodupb_NoDup.
  - (* commit deploy *)
    unfold take_plan. destruct (nth_error (pend s) k) as [[[spec ts|g ts|m]|]|] eqn:E; cbn [fst]; try (split; auto; fail).
    cbn [sc pend]. split.
    + apply commit_deploy_inv; eauto.
    + intros k0 spec0 ts0 H. apply clear_nth_ok in H. eauto.
  - (* plan teardown *)
    destruct (plan_teardown (sc s) g); cbn [fst sc pend]; (split; auto; apply pend_snoc_ok; auto; discriminate).
  - (* commit teardown *)
    unfold take_plan. destruct (nth_error (pend s) k) as [[[spec ts|g ts|m]|]|] eqn:E; cbn [fst]; try (split; auto; fail).
    cbn [sc pend]. split.
    + now apply commit_teardown_inv.
    + intros k0 spec0 ts0 H. apply clear_nth_ok in H. eauto.
  - (* plan migrate *)
    destruct (plan_migrate (sc s) p g t); cbn [fst sc pend]; (split; auto; apply pend_snoc_ok; auto; discriminate).
  - (* commit migrate *)
    unfold take_plan. destruct (nth_error (pend s) k) as [[[spec ts|g ts|m]|]|] eqn:E; cbn [fst]; try (split; auto; fail).
    pose proof (commit_migrate_inv (sc s) m ok HI) as H. destruct (commit_migrate (sc s) m ok). cbn [fst sc pend] in *. split; auto.
    intros k0 spec0 ts0 H0. apply clear_nth_ok in H0. eauto.
  - (* migrate *)
    pose proof (migrate_inv (sc s) p g t ok HI) as H. destruct (migrate (sc s) p g t ok) as [c' [e|b]]; cbn [fst sc pend] in *; split; auto.
  - (* failover *)
    pose proof (failover_inv (sc s) w outs word pord HI) as H. destruct (failover (sc s) w outs word pord). cbn [fst sc pend] in *. split; auto.
  - (* drain *)
    assert (H : Inv (fst (drain (sc s) w outs word pord))).
    { unfold drain. destruct (get (workers (sc s)) w) as [wk|] eqn:E; cbn [fst]; auto.
      destruct (wstatus_eqb (wst wk) WDraining) eqn:E2; cbn [fst negb andb] in *; auto.
      pose proof (drain_loop_inv (sc s) w outs word pord HI) as H.
      destruct (drain_loop (sc s) w outs word pord) as [c2 res]. cbn [fst] in *. now apply remove_worker_inv. }
    destruct (drain (sc s) w outs word pord). cbn [fst sc pend] in *. split; auto.
  - (* rebalance *)
    pose proof (rebalance_inv (sc s) outs word pord HI) as H. destruct (rebalance (sc s) outs word pord). cbn [fst sc pend] in *. split; auto.
Qed.

Lemma init_inv t : SysInv (init t).
Proof.
  split.
  - split.
    + unfold WF, init. cbn. split; [constructor|]. split; auto. intros ? ? [].
    + intros w. unfold worker_ok, init. cbn. auto.
  - intros k spec ts H. unfold init in H. cbn [pend] in H. destruct k; discriminate.
Qed.

Lemma run_inv ops : forall s,
  SysInv s -> all_steps assumed s ops = true -> some_step known s ops = false -> SysInv (run s ops).
Proof.
  induction ops as [|o r IH]; intros s HS Ha Hk; cbn [run fold_left]; auto.
  cbn [all_steps some_step] in *. apply Bool.andb_true_iff in Ha. destruct Ha as [Ha1 Ha2].
  apply Bool.orb_false_iff in Hk. destruct Hk as [Hk1 Hk2].
  apply IH; auto. now apply step_inv.
Qed.

(* ---------------------------------------------------------------- from the invariant to the readable statement *)
Lemma count_placed_pl w p pl : count_occ N.eq_dec (placed_pl w pl) p = cnt_pl w p pl.
Proof.
  unfold placed_pl, cnt_pl. induction pl as [|[n d] r IH]; cbn [flat_map map]; auto.
  rewrite count_occ_app, list_sum_cons, IH. f_equal. unfold dep_on. cbn [fst snd].
  destruct (N.eqb (dw d) w && dstat_eqb (dst d) DRunning) eqn:E.
  - cbn [count_occ]. rewrite <- Bool.andb_assoc, E, Bool.andb_true_r.
    destruct (N.eq_dec n p) as [E2|E2].
    + subst. now rewrite N.eqb_refl.
    + destruct (N.eqb n p) eqn:E3; auto. apply N.eqb_eq in E3; congruence.
  - cbn [count_occ]. now rewrite <- Bool.andb_assoc, E, Bool.andb_false_r.
Qed.

Lemma count_placed c w p : count_occ N.eq_dec (placed c w) p = cnt c w p.
Proof.
  unfold placed, cnt, cnt_groups. induction (groups c) as [|[g gr] r IH]; cbn [flat_map map]; auto.
  now rewrite count_occ_app, list_sum_cons, IH, count_placed_pl.
Qed.

Lemma Inv_Consistent c : Inv c -> Consistent c.
Proof.
  intros HI. split.
  - intros g gr p d Hg Hp Hr.
    destruct (inv_registered c (dw d) p HI (cnt_running c g gr p d Hg Hp Hr)) as (wk & H & _). eauto.
  - intros w wk Hw. destruct HI as [_ Hok]. specialize (Hok w). unfold worker_ok in Hok. rewrite Hw in Hok.
    destruct Hok as [Hc Hr]. split; auto.
    apply (Permutation.Permutation_count_occ N.eq_dec). intros p. now rewrite Hc, count_placed.
Qed.
