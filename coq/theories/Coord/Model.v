(* Executable model of the cluster coordinator's bookkeeping
   (crates/varpulis-cluster/src/{coordinator,worker,pipeline_group,health,lib}.rs).
   Definitions only -- proofs live in Proofs*.v.  Function by function:

     is_available             worker.rs        WorkerNode::is_available
     unassign                 worker.rs        WorkerNode::unassign_pipeline
     place_rr                 lib.rs           RoundRobinPlacement::place
     least_loaded             lib.rs           LeastLoadedPlacement::place  (Iterator::min_by: first minimum)
     update_status            pipeline_group.rs DeployedPipelineGroup::update_status
     register / heartbeat / deregister        coordinator.rs register_worker / heartbeat / deregister_worker
     sweep                    health.rs        health_sweep (via Coordinator::health_sweep)
     plan_deploy / commit_deploy              coordinator.rs plan_deploy_group / commit_deploy_group
     plan_teardown / commit_teardown          coordinator.rs plan_teardown_group / commit_teardown_group
     plan_migrate / commit_migrate            coordinator.rs plan_migrate_pipeline / commit_migrate_pipeline
     migrate                  coordinator.rs   migrate_pipeline (monolithic; one boolean = did the deploy on the target succeed)
     failover / drain / rebalance             coordinator.rs handle_worker_failure / drain_worker (no timeout) / rebalance

   Conventions.
   * Worker ids, group ids and pipeline names are numbers.  A replica name is [16*l + 0] for the
     un-replicated pipeline "p<l>" and [16*l + k + 1] for "p<l>#k"; [logical n = n / 16] mirrors
     [rsplit_once('#')].  Group ids are uuids in the code; the model numbers groups in commit order
     (the uuid is opaque and never compared with anything but itself).
   * Rust iterates std HashMaps in an order the model cannot know.  Every function whose result
     depends on such an order takes the order as an argument ([word]: ids in the order of
     [self.workers.values()], [pord]: (group, name) pairs in the order of
     [pipeline_groups.iter() x placements.iter()]); the harness observes the real order through the
     public fields and passes it in; the theorems quantify over all such lists.
   * [Instant::now()] is the virtual clock [cnow] (seconds); [whb] is the time of the last heartbeat.
   * HTTP outcomes of the execute phases are inputs (lists of booleans).
   * usize counters are unbounded [N] (no wrap on the explored sizes). *)
From VP Require Import Base.Tactics.
Open Scope N_scope.

Notation "'do' x <- a ; b" := (match a with Some x => b | None => None end)
  (at level 200, x pattern, a at level 100, b at level 200, right associativity).

(* ---------------------------------------------------------------- maps keyed by N *)
Section NMap.
  Context {A : Type}.
  Definition nmap := list (N * A).
  Fixpoint get (m : nmap) (k : N) : option A :=
    match m with
    | [] => None
    | (k', v) :: r => if N.eqb k' k then Some v else get r k
    end.
  (* HashMap::insert: replace or add *)
  Fixpoint set (m : nmap) (k : N) (v : A) : nmap :=
    match m with
    | [] => [(k, v)]
    | (k', v') :: r => if N.eqb k' k then (k, v) :: r else (k', v') :: set r k v
    end.
  Definition remove (m : nmap) (k : N) : nmap :=
    filter (fun e => negb (N.eqb (fst e) k)) m.
End NMap.
Arguments nmap : clear implicits.

(* ---------------------------------------------------------------- state *)
Inductive wstatus := WRegistering | WReady | WUnhealthy | WDraining.
Definition wstatus_eqb (a b : wstatus) : bool :=
  match a, b with
  | WRegistering, WRegistering | WReady, WReady | WUnhealthy, WUnhealthy | WDraining, WDraining => true
  | _, _ => false
  end.

Record worker := mkW {
  wst : wstatus;
  wrun : N;              (* capacity.pipelines_running *)
  wmax : N;              (* capacity.max_pipelines *)
  wcores : N;            (* capacity.cpu_cores *)
  wasg : list N;         (* assigned_pipelines *)
  whb : Z                (* last_heartbeat (virtual seconds) *)
}.

Inductive dstat := DRunning | DFailed.
Definition dstat_eqb (a b : dstat) : bool :=
  match a, b with DRunning, DRunning | DFailed, DFailed => true | _, _ => false end.

Record dep := mkD {
  dw : N;                (* worker_id *)
  dst : dstat;           (* status (only Running / Failed are ever written) *)
  dhasid : bool;         (* !pipeline_id.is_empty() *)
  depoch : N
}.

Record pspec := mkP { pn : N (* logical name *); paff : option N; preps : N }.

Inductive gstat := GDeploying | GRunning | GPartial | GFailed.

Record group := mkG { gspec : list pspec; gpl : nmap dep; gst : gstat }.

Record coord := mkC {
  workers : nmap worker;
  groups : nmap group;
  rr : N;                (* RoundRobinPlacement.counter *)
  nextg : N;             (* number of groups committed so far (names the next uuid) *)
  cnow : Z;              (* virtual clock *)
  ctimeout : Z           (* heartbeat_timeout *)
}.

Definition set_workers (c : coord) (ws : nmap worker) : coord :=
  mkC ws (groups c) (rr c) (nextg c) (cnow c) (ctimeout c).
Definition set_groups (c : coord) (gs : nmap group) : coord :=
  mkC (workers c) gs (rr c) (nextg c) (cnow c) (ctimeout c).

Definition logical (n : N) : N := N.div n 16.
Definition replica_name (l k count : N) : N :=
  if N.ltb 1 count then 16 * l + k + 1 else 16 * l.

(* ---------------------------------------------------------------- workers *)
Definition is_available (w : worker) : bool :=
  wstatus_eqb (wst w) WReady && N.ltb (wrun w) (wmax w).

Definition avail_b (c : coord) (id : N) : bool :=
  match get (workers c) id with Some w => is_available w | None => false end.

Definition upd_worker (c : coord) (id : N) (f : worker -> worker) : coord :=
  match get (workers c) id with
  | Some w => set_workers c (set (workers c) id (f w))
  | None => c
  end.

Definition w_assign (n : N) (w : worker) : worker :=
  mkW (wst w) (wrun w + 1) (wmax w) (wcores w) (wasg w ++ [n]) (whb w).

(* remove the first occurrence *)
Fixpoint remove_one (n : N) (l : list N) : option (list N) :=
  match l with
  | [] => None
  | x :: r => if N.eqb x n then Some r
              else match remove_one n r with Some r' => Some (x :: r') | None => None end
  end.

(* WorkerNode::unassign_pipeline: drop one entry and one unit of running count, only when listed *)
Definition w_unassign (n : N) (w : worker) : worker :=
  match remove_one n (wasg w) with
  | Some l => mkW (wst w) (N.pred (wrun w)) (wmax w) (wcores w) l (whb w)
  | None => w
  end.

Definition w_set_status (s : wstatus) (w : worker) : worker :=
  mkW s (wrun w) (wmax w) (wcores w) (wasg w) (whb w).

(* ---------------------------------------------------------------- placement strategies *)
Definition place_rr (c : coord) (cands : list N) : option N * coord :=
  match cands with
  | [] => (None, c)
  | _ => (nth_error cands (N.to_nat (N.modulo (rr c) (N.of_nat (length cands)))),
          mkC (workers c) (groups c) (rr c + 1) (nextg c) (cnow c) (ctimeout c))
  end.

(* compare (ratio, running): running/max(cores,1) as exact rationals *)
Definition load_lt (a b : worker) : bool :=
  let ca := N.max (wcores a) 1 in
  let cb := N.max (wcores b) 1 in
  let x := wrun a * cb in
  let y := wrun b * ca in
  N.ltb x y || (N.eqb x y && N.ltb (wrun a) (wrun b)).

(* Iterator::min_by: keep the current minimum unless the next one is strictly smaller *)
Fixpoint min_by_load (c : coord) (best : N * worker) (rest : list N) : N :=
  match rest with
  | [] => fst best
  | id :: r =>
    match get (workers c) id with
    | Some w => if load_lt w (snd best) then min_by_load c (id, w) r else min_by_load c best r
    | None => min_by_load c best r
    end
  end.

Fixpoint least_loaded (c : coord) (cands : list N) : option N :=
  match cands with
  | [] => None
  | id :: r =>
    match get (workers c) id with
    | Some w => Some (min_by_load c (id, w) r)
    | None => least_loaded c r
    end
  end.

(* ---------------------------------------------------------------- group status *)
Definition update_status (g : group) : group :=
  match gpl g with
  | [] => g
  | pl =>
    let all_run := forallb (fun e => dstat_eqb (dst (snd e)) DRunning) pl in
    let any_run := existsb (fun e => dstat_eqb (dst (snd e)) DRunning) pl in
    let all_fail := forallb (fun e => dstat_eqb (dst (snd e)) DFailed) pl in
    mkG (gspec g) pl
        (if all_run then GRunning else if all_fail then GFailed else if any_run then GPartial else GDeploying)
  end.

(* ---------------------------------------------------------------- simple operations *)
Inductive err := ENoWorkers | EWorkerNotFound | EGroupNotFound | EMigration | ENotAvailable.

Definition register (c : coord) (id cores maxp run0 : N) : coord :=
  set_workers c (set (workers c) id (mkW WReady run0 maxp cores [] (cnow c))).

Definition heartbeat (c : coord) (id n : N) : coord * bool :=
  match get (workers c) id with
  | None => (c, false)
  | Some w =>
    let st := if wstatus_eqb (wst w) WUnhealthy then WReady else wst w in
    (set_workers c (set (workers c) id (mkW st n (wmax w) (wcores w) (wasg w) (cnow c))), true)
  end.

Definition deregister (c : coord) (id : N) : coord * bool :=
  match get (workers c) id with
  | None => (c, false)
  | Some _ => (set_workers c (remove (workers c) id), true)
  end.

Definition stale (c : coord) (w : worker) : bool :=
  wstatus_eqb (wst w) WReady && Z.ltb (ctimeout c) (cnow c - whb w).

(* health_sweep: returns the ids newly marked unhealthy (in map order) *)
Definition sweep (c : coord) : coord * list N :=
  (set_workers c (map (fun e => if stale c (snd e) then (fst e, w_set_status WUnhealthy (snd e)) else e) (workers c)),
   map fst (filter (fun e => stale c (snd e)) (workers c))).

Definition advance (c : coord) (d : Z) : coord :=
  mkC (workers c) (groups c) (rr c) (nextg c) (cnow c + d) (ctimeout c).

(* ---------------------------------------------------------------- deploy *)
Record dtask := mkT { tname : N; tw : N }.

Definition select_worker (c : coord) (word : list N) (p : pspec) : option N * coord :=
  let avail := filter (avail_b c) word in
  match paff p with
  | Some a => if avail_b c a then (Some a, c) else place_rr c avail
  | None => place_rr c avail
  end.

Fixpoint plan_replicas (c : coord) (word : list N) (p : pspec) (count : N) (idxs : list N)
  : option (list dtask) * coord :=
  match idxs with
  | [] => (Some [], c)
  | k :: r =>
    match select_worker c word p with
    | (None, c') => (None, c')
    | (Some w, c') =>
      match plan_replicas c' word p count r with
      | (Some ts, c'') => (Some (mkT (replica_name (pn p) k count) w :: ts), c'')
      | (None, c'') => (None, c'')
      end
    end
  end.

Definition nseq (n : N) : list N := map N.of_nat (seq 0 (N.to_nat n)).

Fixpoint plan_pipelines (c : coord) (word : list N) (ps : list pspec) : option (list dtask) * coord :=
  match ps with
  | [] => (Some [], c)
  | p :: r =>
    let count := N.max (preps p) 1 in
    match plan_replicas c word p count (nseq count) with
    | (None, c') => (None, c')
    | (Some ts, c') =>
      match plan_pipelines c' word r with
      | (Some ts', c'') => (Some (ts ++ ts'), c'')
      | (None, c'') => (None, c'')
      end
    end
  end.

Definition plan_deploy (c : coord) (word : list N) (spec : list pspec) : (err + list dtask) * coord :=
  match filter (avail_b c) word with
  | [] => (inl ENoWorkers, c)
  | _ =>
    match plan_pipelines c word spec with
    | (Some ts, c') => (inr ts, c')
    | (None, c') => (inl ENoWorkers, c')
    end
  end.

(* one DeployTaskResult *)
Definition commit_result (cg : coord * nmap dep) (r : dtask * bool) : coord * nmap dep :=
  let '(c, pl) := cg in
  let '(t, ok) := r in
  if ok then
    match get (workers c) (tw t) with
    | Some _ => (upd_worker c (tw t) (w_assign (tname t)), set pl (tname t) (mkD (tw t) DRunning true 0))
    | None => (c, set pl (tname t) (mkD (tw t) DFailed false 0))     (* worker gone since planning *)
    end
  else (c, set pl (tname t) (mkD (tw t) DFailed false 0)).

Definition commit_deploy (c : coord) (spec : list pspec) (tasks : list dtask) (outcomes : list bool) : coord :=
  let '(c1, pl) := fold_left commit_result (combine tasks outcomes) (c, []) in
  let g := update_status (mkG spec pl GDeploying) in
  mkC (workers c1) (set (groups c1) (nextg c1) g) (rr c1) (nextg c1 + 1) (cnow c1) (ctimeout c1).

(* ---------------------------------------------------------------- teardown *)
Definition plan_teardown (c : coord) (g : N) : err + list (N * dep) :=
  match get (groups c) g with
  | None => inl EGroupNotFound
  | Some gr => inr (filter (fun e => dhasid (snd e)) (gpl gr))
  end.

Definition unassign_entry (c : coord) (e : N * dep) : coord :=
  if dstat_eqb (dst (snd e)) DRunning then upd_worker c (dw (snd e)) (w_unassign (fst e)) else c.

(* commit_teardown_group: bookkeeping follows the group's placements at commit time *)
Definition commit_teardown (c : coord) (g : N) : coord :=
  match get (groups c) g with
  | None => c
  | Some gr => set_groups (fold_left unassign_entry (gpl gr) c) (remove (groups c) g)
  end.

(* ---------------------------------------------------------------- migration *)
Record mplan := mkM { mp : N; mg : N; msrc : N; mtgt : N; mold : dep }.

Definition has_spec (gr : group) (n : N) : bool :=
  existsb (fun p => N.eqb (pn p) (logical n)) (gspec gr).

Definition plan_migrate (c : coord) (p g tgt : N) : err + mplan :=
  match get (groups c) g with
  | None => inl EGroupNotFound
  | Some gr =>
    match get (gpl gr) p with
    | None => inl EMigration
    | Some d =>
      match get (workers c) tgt with
      | None => inl EWorkerNotFound
      | Some w =>
        if negb (is_available w) then inl ENotAvailable
        else if negb (has_spec gr p) then inl EMigration
        else inr (mkM p g (dw d) tgt d)
      end
    end
  end.

Definition dep_eqb (a b : dep) : bool :=
  N.eqb (dw a) (dw b) && dstat_eqb (dst a) (dst b) && Bool.eqb (dhasid a) (dhasid b) && N.eqb (depoch a) (depoch b).

(* the switch: placement -> target (epoch + 1), source loses the name if it was running there, target gains it *)
Definition switch (c : coord) (p g tgt : N) (gr : group) (old : dep) : coord :=
  let gr' := update_status (mkG (gspec gr) (set (gpl gr) p (mkD tgt DRunning true (depoch old + 1))) (gst gr)) in
  let c1 := set_groups c (set (groups c) g gr') in
  let c2 := if dstat_eqb (dst old) DRunning then upd_worker c1 (dw old) (w_unassign p) else c1 in
  upd_worker c2 tgt (w_assign p).

(* commit_migrate_pipeline: [true] = committed, [false] = recorded as failed (no state change) *)
Definition commit_migrate (c : coord) (m : mplan) (ok : bool) : coord * bool :=
  if negb ok then (c, false)
  else
    match get (groups c) (mg m) with
    | None => (c, false)
    | Some gr =>
      match get (gpl gr) (mp m) with
      | None => (c, false)
      | Some d =>
        if negb (dep_eqb d (mold m)) then (c, false)                        (* placement changed since planning *)
        else match get (workers c) (mtgt m) with
             | None => (c, false)                                            (* target deregistered since planning *)
             | Some _ => (switch c (mp m) (mg m) (mtgt m) gr d, true)
             end
      end
    end.

Definition migrate (c : coord) (p g tgt : N) (ok : bool) : coord * (err + bool) :=
  match plan_migrate c p g tgt with
  | inl e => (c, inl e)
  | inr m => let '(c', b) := commit_migrate c m ok in (c', inr b)
  end.

(* ---------------------------------------------------------------- failover / drain / rebalance *)
Definition placed_on (c : coord) (w : N) (gp : N * N) : bool :=
  match get (groups c) (fst gp) with
  | None => false
  | Some gr => match get (gpl gr) (snd gp) with Some d => N.eqb (dw d) w | None => false end
  end.

Definition failover_target (c : coord) (word : list N) (w : N) : option N :=
  least_loaded c (filter (fun id => avail_b c id && negb (N.eqb id w)) word).

Definition next_outcome (os : list bool) : bool * list bool :=
  match os with [] => (true, []) | o :: r => (o, r) end.

(* One migration inside failover / drain / rebalance.  The scripted outcome of the deploy call on the
   target is consumed only when migrate_pipeline gets as far as that call, i.e. when its checks pass. *)
Definition migrate_next (c : coord) (p g t : N) (os : list bool) : coord * bool * list bool :=
  match plan_migrate c p g t with
  | inl _ => (c, false, os)
  | inr m =>
    let '(o, os') := next_outcome os in
    let '(c', b) := commit_migrate c m o in
    (c', b, os')
  end.

(* result per affected pipeline: Some true = migrated, Some false = migration failed, None = no target *)
Fixpoint evacuate (c : coord) (word : list N) (w : N) (aff : list (N * N)) (os : list bool)
  : coord * list (option bool) :=
  match aff with
  | [] => (c, [])
  | (g, p) :: r =>
    match failover_target c word w with
    | None => let '(c', res) := evacuate c word w r os in (c', None :: res)
    | Some t =>
      let '(c1, b, os') := migrate_next c p g t os in
      let '(c', res) := evacuate c1 word w r os' in
      (c', Some b :: res)
    end
  end.

Definition failover (c : coord) (w : N) (os : list bool) (word : list N) (pord : list (N * N))
  : coord * list (option bool) :=
  evacuate c word w (filter (placed_on c w) pord) os.

Inductive drain_res := DrainNotFound | DrainAlready | DrainDone (migrated : N).

(* the migration loop of drain_worker (after marking the worker Draining) *)
Definition drain_loop (c : coord) (w : N) (os : list bool) (word : list N) (pord : list (N * N))
  : coord * list (option bool) :=
  let c1 := upd_worker c w (w_set_status WDraining) in
  evacuate c1 word w (filter (placed_on c1 w) pord) os.

Definition drain (c : coord) (w : N) (os : list bool) (word : list N) (pord : list (N * N))
  : coord * drain_res :=
  match get (workers c) w with
  | None => (c, DrainNotFound)
  | Some wk =>
    if wstatus_eqb (wst wk) WDraining then (c, DrainAlready)
    else
      let '(c2, res) := drain_loop c w os word pord in
      (set_workers c2 (remove (workers c2) w),
       DrainDone (N.of_nat (length (filter (fun r => match r with Some true => true | _ => false end) res))))
  end.

(* -- rebalance -- *)
Definition pinned (c : coord) (gp : N * N) : bool :=
  match get (groups c) (fst gp) with
  | None => false
  | Some gr => existsb (fun p => N.eqb (pn p) (logical (snd gp)) && match paff p with Some _ => true | None => false end) (gspec gr)
  end.

Definition load_of (loads : nmap N) (id : N) : N := match get loads id with Some n => n | None => 0 end.

(* Iterator::min_by_key: first minimum *)
Fixpoint min_by_key (loads : nmap N) (best : N) (rest : list N) : N :=
  match rest with
  | [] => best
  | id :: r => if N.ltb (load_of loads id) (load_of loads best) then min_by_key loads id r else min_by_key loads best r
  end.

Definition rb_target (loads : nmap N) (availw : list N) (wid : N) : option N :=
  match filter (fun id => negb (N.eqb id wid)) availw with
  | [] => None
  | b :: r => Some (min_by_key loads b r)
  end.

Fixpoint rb_moves (loads : nmap N) (availw : list N) (wid : N) (mov : list (N * N))
  : nmap N * list (N * N * N) :=
  match mov with
  | [] => (loads, [])
  | (g, p) :: r =>
    match rb_target loads availw wid with
    | None => rb_moves loads availw wid r
    | Some t =>
      let l1 := set loads wid (load_of loads wid - 1) in
      let loads1 := set l1 t (load_of l1 t + 1) in
      let '(loads', ms) := rb_moves loads1 availw wid r in
      (loads', (g, p, t) :: ms)
    end
  end.

Fixpoint rb_plan (c : coord) (loads : nmap N) (availw : list N) (todo : list N) (pord : list (N * N)) (total len : N)
  : list (N * N * N) :=
  match todo with
  | [] => []
  | wid :: r =>
    let load := load_of loads wid in
    if N.leb (load * len) (total + len) then rb_plan c loads availw r pord total len
    else
      let excess := load - N.div (total + len - 1) len in
      if N.eqb excess 0 then rb_plan c loads availw r pord total len
      else
        let movable := filter (fun gp => placed_on c wid gp && negb (pinned c gp)) pord in
        let '(loads', ms) := rb_moves loads availw wid (firstn (N.to_nat excess) movable) in
        ms ++ rb_plan c loads' availw r pord total len
  end.

Fixpoint run_migrations (c : coord) (ms : list (N * N * N)) (os : list bool) : coord * list bool :=
  match ms with
  | [] => (c, [])
  | (g, p, t) :: r =>
    let '(c1, b, os') := migrate_next c p g t os in
    let '(c', res) := run_migrations c1 r os' in
    (c', b :: res)
  end.

Definition rebalance (c : coord) (os : list bool) (word : list N) (pord : list (N * N)) : coord * list bool :=
  let availw := filter (avail_b c) word in
  let len := N.of_nat (length availw) in
  if N.ltb len 2 then (c, [])
  else
    let loads := map (fun id => (id, match get (workers c) id with Some w => wrun w | None => 0 end)) availw in
    let total := fold_left N.add (map snd loads) 0 in
    if N.eqb total 0 then (c, [])
    else run_migrations c (rb_plan c loads availw availw pord total len) os.

(* ---------------------------------------------------------------- the system: coordinator + plans in flight *)
(* A plan lives outside the coordinator between its plan phase (read lock) and its commit phase
   (write lock); any other operation may run in between.  [pend] holds the plans produced so far;
   a commit consumes its plan; a failed plan phase leaves an empty slot, so that slot k always
   belongs to the k-th plan operation of the history. *)
Inductive plan :=
| PD (spec : list pspec) (tasks : list dtask)
| PT (g : N) (tasks : list (N * dep))
| PM (m : mplan).

Record sys := mkS { sc : coord; pend : list (option plan) }.

Inductive op :=
| ORegister (w cores maxp run0 : N)
| ODeregister (w : N)
| OHeartbeat (w n : N)
| OAdvance (d : Z)
| OSweep
| OSetStatus (w : N) (st : wstatus)      (* status written from outside: sync_from_raft / k8s pod watcher *)
| OPlanDeploy (spec : list pspec) (word : list N)
| OCommitDeploy (k : nat) (outs : list bool)
| OPlanTeardown (g : N)
| OCommitTeardown (k : nat)
| OPlanMigrate (p g t : N)
| OCommitMigrate (k : nat) (ok : bool)
| OMigrate (p g t : N) (ok : bool)
| OFailover (w : N) (outs : list bool) (word : list N) (pord : list (N * N))
| ODrain (w : N) (outs : list bool) (word : list N) (pord : list (N * N))
| ORebalance (outs : list bool) (word : list N) (pord : list (N * N)).

Inductive res :=
| RUnit
| RBool (b : bool)
| RErr (e : err)
| RNoPlan
| RPlanD (k : nat) (ts : list dtask)
| RPlanT (k : nat) (ts : list (N * dep))
| RPlanM (k : nat) (m : mplan)
| RGroup (g : N)
| RSweep (l : list N)
| REvac (l : list (option bool))
| RDrain (r : drain_res)
| RMoves (l : list bool).

Fixpoint clear_nth {A} (l : list (option A)) (k : nat) : list (option A) :=
  match l, k with
  | [], _ => []
  | _ :: r, O => None :: r
  | x :: r, S k' => x :: clear_nth r k'
  end.

Definition take_plan (s : sys) (k : nat) : option plan :=
  match nth_error (pend s) k with Some (Some p) => Some p | _ => None end.

Definition step (s : sys) (o : op) : sys * res :=
  let c := sc s in
  match o with
  | ORegister w cores maxp run0 => (mkS (register c w cores maxp run0) (pend s), RUnit)
  | ODeregister w => let '(c', b) := deregister c w in (mkS c' (pend s), RBool b)
  | OHeartbeat w n => let '(c', b) := heartbeat c w n in (mkS c' (pend s), RBool b)
  | OAdvance d => (mkS (advance c d) (pend s), RUnit)
  | OSweep => let '(c', l) := sweep c in (mkS c' (pend s), RSweep l)
  | OSetStatus w st => (mkS (upd_worker c w (w_set_status st)) (pend s), RUnit)
  | OPlanDeploy spec word =>
    match plan_deploy c word spec with
    | (inl e, c') => (mkS c' (pend s ++ [None]), RErr e)
    | (inr ts, c') => (mkS c' (pend s ++ [Some (PD spec ts)]), RPlanD (length (pend s)) ts)
    end
  | OCommitDeploy k outs =>
    match take_plan s k with
    | Some (PD spec ts) => (mkS (commit_deploy c spec ts outs) (clear_nth (pend s) k), RGroup (nextg c))
    | _ => (s, RNoPlan)
    end
  | OPlanTeardown g =>
    match plan_teardown c g with
    | inl e => (mkS c (pend s ++ [None]), RErr e)
    | inr ts => (mkS c (pend s ++ [Some (PT g ts)]), RPlanT (length (pend s)) ts)
    end
  | OCommitTeardown k =>
    match take_plan s k with
    | Some (PT g _) => (mkS (commit_teardown c g) (clear_nth (pend s) k), RUnit)
    | _ => (s, RNoPlan)
    end
  | OPlanMigrate p g t =>
    match plan_migrate c p g t with
    | inl e => (mkS c (pend s ++ [None]), RErr e)
    | inr m => (mkS c (pend s ++ [Some (PM m)]), RPlanM (length (pend s)) m)
    end
  | OCommitMigrate k ok =>
    match take_plan s k with
    | Some (PM m) => let '(c', b) := commit_migrate c m ok in (mkS c' (clear_nth (pend s) k), RBool b)
    | _ => (s, RNoPlan)
    end
  | OMigrate p g t ok =>
    match migrate c p g t ok with
    | (c', inl e) => (mkS c' (pend s), RErr e)
    | (c', inr b) => (mkS c' (pend s), RBool b)
    end
  | OFailover w outs word pord => let '(c', l) := failover c w outs word pord in (mkS c' (pend s), REvac l)
  | ODrain w outs word pord => let '(c', r) := drain c w outs word pord in (mkS c' (pend s), RDrain r)
  | ORebalance outs word pord => let '(c', l) := rebalance c outs word pord in (mkS c' (pend s), RMoves l)
  end.

Definition init (timeout : Z) : sys := mkS (mkC [] [] 0 0 0 timeout) [].

Definition run (s : sys) (ops : list op) : sys := fold_left (fun s o => fst (step s o)) ops s.
