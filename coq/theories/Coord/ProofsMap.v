(* Lemmas about the association-list maps of Coord/Model.v. *)
From VP Require Import Base.Tactics Coord.Model.
Open Scope N_scope.

Lemma list_sum_cons x l : list_sum (x :: l) = (x + list_sum l)%nat.
Proof. reflexivity. Qed.

Lemma NoDup_app_snoc {B} (l : list B) (x : B) : NoDup l -> ~ In x l -> NoDup (l ++ [x]).
Proof.
  induction l as [|y r IH]; cbn [app]; intros Hnd Hni.
  - constructor; auto.
  - inv Hnd. constructor.
    + rewrite in_app_iff. cbn [In]. intros [H|[H|[]]]; [tauto|]. subst. apply Hni. now left.
    + apply IH; auto. intro; apply Hni; now right.
Qed.

Section Maps.
  Context {A : Type}.
  Implicit Types (m : nmap A) (k : N) (v : A).

  Lemma get_set_eq m k v : get (set m k v) k = Some v.
  Proof.
    induction m as [|[k' v'] r IH]; cbn [set get].
    - now rewrite N.eqb_refl.
    - destruct (N.eqb k' k) eqn:E; cbn [get]; rewrite ?E, ?N.eqb_refl; auto.
  Qed.

  Lemma get_set_neq m k k' v : k <> k' -> get (set m k v) k' = get m k'.
  Proof.
    intros Hne. induction m as [|[k0 v0] r IH]; cbn [set get].
    - destruct (N.eqb k k') eqn:E; auto. apply N.eqb_eq in E; congruence.
    - destruct (N.eqb k0 k) eqn:E; cbn [get].
      + apply N.eqb_eq in E; subst k0.
        destruct (N.eqb k k') eqn:E2; auto. apply N.eqb_eq in E2; congruence.
      + destruct (N.eqb k0 k'); auto.
  Qed.

  Lemma get_set m k k' v : get (set m k v) k' = if N.eqb k k' then Some v else get m k'.
  Proof.
    destruct (N.eqb k k') eqn:E.
    - apply N.eqb_eq in E; subst; apply get_set_eq.
    - apply get_set_neq. intro; subst; rewrite N.eqb_refl in E; discriminate.
  Qed.

  Lemma get_remove m k k' : get (remove m k) k' = if N.eqb k k' then None else get m k'.
  Proof.
    unfold remove. induction m as [|[k0 v0] r IH]; cbn [filter get fst].
    - now destruct (N.eqb k k').
    - destruct (N.eqb k0 k) eqn:E; cbn [negb get].
      + apply N.eqb_eq in E; subst k0. rewrite IH. now destruct (N.eqb k k').
      + rewrite IH. destruct (N.eqb k0 k') eqn:E2; auto.
        apply N.eqb_eq in E2; subst k0. rewrite N.eqb_sym, E. reflexivity.
  Qed.

  Lemma get_In m k v : get m k = Some v -> In (k, v) m.
  Proof.
    induction m as [|[k0 v0] r IH]; cbn [get]; [discriminate|].
    destruct (N.eqb k0 k) eqn:E; intros H.
    - apply N.eqb_eq in E; subst. inv H. now left.
    - right; auto.
  Qed.

  Lemma get_None_notin m k : get m k = None -> ~ In k (map fst m).
  Proof.
    induction m as [|[k0 v0] r IH]; cbn [get map fst]; [tauto|].
    destruct (N.eqb k0 k) eqn:E; [discriminate|]. intros H [H1|H1].
    - subst. rewrite N.eqb_refl in E; discriminate.
    - now apply IH.
  Qed.

  Lemma notin_get_None m k : ~ In k (map fst m) -> get m k = None.
  Proof.
    induction m as [|[k0 v0] r IH]; cbn [get map fst]; [tauto|]. intros H.
    destruct (N.eqb k0 k) eqn:E.
    - apply N.eqb_eq in E; subst. exfalso; apply H; now left.
    - apply IH. intro; apply H; now right.
  Qed.

  Lemma In_get_NoDup m k v : NoDup (map fst m) -> In (k, v) m -> get m k = Some v.
  Proof.
    induction m as [|[k0 v0] r IH]; cbn [get map fst]; [intros _ []|]. intros Hnd [H|H].
    - inv H. now rewrite N.eqb_refl.
    - inversion Hnd as [|x l Hni Hnd']; subst. destruct (N.eqb k0 k) eqn:E.
      + apply N.eqb_eq in E; subst. exfalso. apply Hni. now apply (in_map fst) in H.
      + auto.
  Qed.

  Lemma In_set m k v k' v' : In (k', v') (set m k v) -> (k' = k /\ v' = v) \/ In (k', v') m.
  Proof.
    induction m as [|[k0 v0] r IH]; cbn [set].
    - intros [H|[]]; inv H; auto.
    - destruct (N.eqb k0 k) eqn:E.
      + intros [H|H]; [inv H; auto | right; now right].
      + intros [H|H]; [right; now left|]. destruct (IH H) as [?|?]; auto. right; now right.
  Qed.

  Lemma keys_set m k v : map fst (set m k v) = match get m k with Some _ => map fst m | None => map fst m ++ [k] end.
  Proof.
    induction m as [|[k0 v0] r IH]; cbn [set get map fst app]; auto.
    destruct (N.eqb k0 k) eqn:E; cbn [map fst].
    - apply N.eqb_eq in E; subst; auto.
    - rewrite IH. now destruct (get r k).
  Qed.

  Lemma NoDup_keys_set m k v : NoDup (map fst m) -> NoDup (map fst (set m k v)).
  Proof.
    intros H. rewrite keys_set. destruct (get m k) eqn:E; auto.
    apply NoDup_app_snoc; auto. now apply get_None_notin.
  Qed.

  Lemma NoDup_keys_remove m k : NoDup (map fst m) -> NoDup (map fst (remove m k)).
  Proof.
    unfold remove. induction m as [|[k0 v0] r IH]; cbn [filter map fst]; auto.
    intros Hnd; inversion Hnd as [|x l Hni Hnd']; subst. destruct (negb (N.eqb k0 k)); cbn [map fst]; auto.
    constructor; auto. intro Hin. apply Hni.
    apply in_map_iff in Hin. destruct Hin as [[k1 v1] [Hk Hf]]. apply filter_In in Hf.
    apply in_map_iff. exists (k1, v1). tauto.
  Qed.

  Lemma In_remove m k k' v' : In (k', v') (remove m k) -> k' <> k /\ In (k', v') m.
  Proof.
    unfold remove. intros H. apply filter_In in H. destruct H as [H1 H2]. cbn [fst] in H2.
    split; auto. intro; subst. rewrite N.eqb_refl in H2; discriminate.
  Qed.

  (* ---- sums over entries ---- *)
  Variable f : N * A -> nat.

  Lemma sum_set_some m k v v0 :
    get m k = Some v0 ->
    (list_sum (map f (set m k v)) + f (k, v0) = list_sum (map f m) + f (k, v))%nat.
  Proof.
    induction m as [|[k0 v1] r IH]; cbn [get set map]; rewrite ?list_sum_cons; [discriminate|].
    destruct (N.eqb k0 k) eqn:E; intros H; cbn [map]; rewrite ?list_sum_cons.
    - apply N.eqb_eq in E; subst. inv H. lia.
    - specialize (IH H). lia.
  Qed.

  Lemma sum_set_none m k v :
    get m k = None -> list_sum (map f (set m k v)) = (list_sum (map f m) + f (k, v))%nat.
  Proof.
    induction m as [|[k0 v1] r IH]; cbn [get set map]; rewrite ?list_sum_cons; [lia|].
    destruct (N.eqb k0 k) eqn:E; intros H; [discriminate|]. cbn [map]; rewrite ?list_sum_cons. rewrite (IH H). lia.
  Qed.

  Lemma remove_notin m k : ~ In k (map fst m) -> remove m k = m.
  Proof.
    unfold remove. induction m as [|[k0 v1] r IH]; cbn [filter map fst]; auto. intros H.
    destruct (N.eqb k0 k) eqn:E.
    - apply N.eqb_eq in E; subst. exfalso; apply H; now left.
    - cbn [negb]. f_equal. apply IH. intro; apply H; now right.
  Qed.

  Lemma sum_remove m k v0 :
    NoDup (map fst m) -> get m k = Some v0 ->
    (list_sum (map f (remove m k)) + f (k, v0) = list_sum (map f m))%nat.
  Proof.
    induction m as [|[k0 v1] r IH]; cbn [get map fst]; rewrite ?list_sum_cons; [discriminate|].
    intros Hnd H. inversion Hnd as [|x l Hni Hnd']; subst. unfold remove; cbn [filter fst]. destruct (N.eqb k0 k) eqn:E; cbn [negb].
    - apply N.eqb_eq in E; subst. inv H. fold (remove r k). rewrite remove_notin by auto. lia.
    - cbn [map]; rewrite ?list_sum_cons. fold (remove r k). specialize (IH Hnd' H). lia.
  Qed.

  Lemma sum_remove_none m k : get m k = None -> remove m k = m.
  Proof. intros H. apply remove_notin. now apply get_None_notin. Qed.
End Maps.
