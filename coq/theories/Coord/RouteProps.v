(* Property theorems for C34: routing of injected events to pipelines and replicas.
   Only statements; proofs are in RouteProofs.v.  Model: Coord/Route.v. *)
From Coq Require Import String Ascii.
From VP Require Import Base.Tactics Coord.Model Coord.Route Coord.RouteProofs.
Open Scope N_scope.

(* An injected event goes to the pipeline of the first route one of whose patterns matches its type,
   and to the group's first pipeline when no route matches. *)
Theorem C34_first_matching_route :
  forall routes pipelines ty,
    find_target routes pipelines ty =
    match find (fun r => existsb (event_type_matches ty) (r_patterns r)) routes with
    | Some r => Some (r_to r)
    | None => hd_error pipelines
    end.
Proof. exact find_target_first. Qed.

(* what "matches" means: a trailing '*' is a prefix match, anything else is equality *)
Theorem C34_wildcard_is_prefix :
  forall ty prefix, event_type_matches ty (prefix ++ "*")%string = true <-> exists rest, ty = (prefix ++ rest)%string.
Proof. intros. rewrite matches_wildcard. apply is_prefix_spec. Qed.
Theorem C34_exact_otherwise :
  forall ty pat, (forall prefix, pat <> (prefix ++ "*")%string) -> (event_type_matches ty pat = true <-> ty = pat).
Proof. intros ty pat H. rewrite (matches_exact ty pat H). apply str_eqb_eq. Qed.

(* Key-hash partitioning, for an arbitrary hash function: the replica of a key-hashed group is a
   function of the key text alone; no injection of either kind ever changes that group; and the two
   injection paths produce the same key text for the same key value.  Hence all events with the
   same key value reach the same replica, singly or in a batch, anywhere in a run. *)
Theorem C34_replica_depends_on_key_text_only :
  forall hash st l rg k fields,
    keeps l rg st -> rg_key rg = Some k ->
    fst (route_event hash st l fields) = hash_replica hash rg (key_string fields k).
Proof. exact route_event_hash. Qed.

Theorem C34_hash_group_unchanged_by_single :
  forall hash st l rg k ty fields,
    keeps l rg st -> rg_key rg = Some k -> keeps l rg (snd (resolve_single hash st ty fields)).
Proof. exact resolve_single_keeps. Qed.
Theorem C34_hash_group_unchanged_by_batch_event :
  forall hash st l rg k ty data,
    keeps l rg st -> rg_key rg = Some k -> keeps l rg (snd (route_batch_event hash st ty data)).
Proof. exact route_batch_keeps. Qed.

Theorem C34_same_key_text_single_and_batch :
  forall v k (other1 : list (string * jval)) (other2 : list (string * rvalue)),
    field_get other1 k = None -> field_get (batch_fields other2) k = None ->
    key_string (other1 ++ opt_field k (single_json v)) k =
    key_string (batch_fields (other2 ++ opt_field k (batch_value v))) k.
Proof. exact same_key_text. Qed.

(* the statement in one piece: two injections of the same key value into the same key-hashed
   pipeline, one single and one inside a batch, in two arbitrary states of the same group *)
Theorem C34_sticky :
  forall hash l rg k st1 st2 v other1 other2,
    keeps l rg st1 -> keeps l rg st2 -> rg_key rg = Some k ->
    field_get other1 k = None -> field_get (batch_fields other2) k = None ->
    fst (route_event hash st1 l (other1 ++ opt_field k (single_json v))) =
    fst (route_event hash st2 l (batch_fields (other2 ++ opt_field k (batch_value v)))).
Proof.
  intros hash l rg k st1 st2 v o1 o2 H1 H2 Hk Ho1 Ho2.
  rewrite (route_event_hash hash st1 l rg k _ H1 Hk), (route_event_hash hash st2 l rg k _ H2 Hk).
  now rewrite (same_key_text v k o1 o2 Ho1 Ho2).
Qed.

Example C34_sticky_nonvacuous :
  let st := init_state [] [mkRSpec 1 3 (Some "k"%string)] [true; true; true] in
  exists rg, keeps 16 rg st /\ rg_key rg = Some "k"%string /\ length (rg_names rg) = 3%nat /\
    fst (resolve_single str_hash st "A" [("seq"%string, JInt 1); ("k"%string, JBig 18446744073709551615 "1.8446744073709552e+19")]) =
    fst (route_batch_event str_hash st "A" [("seq"%string, VJson (JInt 2)); ("k"%string, VJson (JFloat "1.8446744073709552e+19"))]).
Proof. vm_compute. eexists. repeat split; reflexivity. Qed.

(* Round robin: over any run of m selections that does not cross the 2^64 wrap of the counter, the
   chosen replica indices are (c0 + k) mod n, and the loads of any two replicas differ by at most one. *)
Theorem C34_round_robin_indices :
  forall hash evs rg,
    rg_key rg = None -> rg_names rg <> [] -> rg_counter rg + N.of_nat (length evs) < M64 ->
    rr_run hash rg evs =
    map (fun i => nth (N.to_nat i) (rg_names rg) 0)
        (rr_indices (rg_counter rg) (N.of_nat (length (rg_names rg))) (length evs)).
Proof. exact rr_run_spec. Qed.

Theorem C34_round_robin_balanced :
  forall c0 n m i j, 0 < n -> i < n -> j < n ->
    load i (rr_indices c0 n m) <= load j (rr_indices c0 n m) + 1.
Proof. exact rr_balanced. Qed.

Example C34_round_robin_example :
  rr_indices 7 3 8 = [1; 2; 0; 1; 2; 0; 1; 2] /\ load 0 (rr_indices 7 3 8) = 2 /\ load 1 (rr_indices 7 3 8) = 3.
Proof. vm_compute. auto. Qed.
