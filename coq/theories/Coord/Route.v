(* Executable model of event routing in the cluster coordinator
   (crates/varpulis-cluster/src/routing.rs, pipeline_group.rs ReplicaGroup, coordinator.rs inject paths).
   Definitions only.

     event_type_matches       routing.rs        event_type_matches
     find_target              routing.rs        find_target_pipeline
     render                   serde_json        Value::to_string on the key field (numbers, strings, bool, null)
     key_string               pipeline_group.rs select_replica: fields.get(field).to_string() / empty string when missing
     select_replica           pipeline_group.rs ReplicaGroup::select_replica
     make_groups              coordinator.rs    commit_deploy_group (replica group registration)
     resolve_single           coordinator.rs    resolve_inject_target
     route_batch_event        coordinator.rs    inject_batch (per event: target, Value -> JSON, replica)
     siphash13 / str_hash     std               DefaultHasher::new() (SipHash-1-3, zero keys), <str as Hash>::hash

   Pipeline names are numbers as in Model.v (16*l = "p<l>", 16*l+k+1 = "p<l>#k"); event types,
   patterns and keys are strings.  The text of a float (serde_json/ryu) is an input ([JFloat repr]).
   The replica counter is an AtomicUsize: [N] modulo 2^64. *)
From Coq Require Import String Ascii.
From VP Require Import Base.Tactics Base.Render Coord.Model.
Open Scope N_scope.

(* ---------------------------------------------------------------- patterns *)
Fixpoint str_eqb (a b : string) : bool :=
  match a, b with
  | EmptyString, EmptyString => true
  | String x a', String y b' => Ascii.eqb x y && str_eqb a' b'
  | _, _ => false
  end.

Fixpoint is_prefix (p s : string) : bool :=
  match p, s with
  | EmptyString, _ => true
  | String x p', String y s' => Ascii.eqb x y && is_prefix p' s'
  | String _ _, EmptyString => false
  end.

(* str::strip_suffix('*') *)
Fixpoint strip_star (p : string) : option string :=
  match p with
  | EmptyString => None
  | String c EmptyString => if Ascii.eqb c "*"%char then Some EmptyString else None
  | String c r => match strip_star r with Some r' => Some (String c r') | None => None end
  end.

Definition event_type_matches (ty pat : string) : bool :=
  if str_eqb pat "*" then true
  else match strip_star pat with
       | Some prefix => is_prefix prefix ty
       | None => str_eqb ty pat
       end.

Record route := mkRoute { r_to : N; r_patterns : list string }.

Fixpoint find_route (routes : list route) (ty : string) : option N :=
  match routes with
  | [] => None
  | r :: rest => if existsb (event_type_matches ty) (r_patterns r) then Some (r_to r) else find_route rest ty
  end.

(* logical names of the spec's pipelines, in spec order *)
Definition find_target (routes : list route) (pipelines : list N) (ty : string) : option N :=
  match find_route routes ty with
  | Some t => Some t
  | None => match pipelines with p :: _ => Some p | [] => None end
  end.

(* ---------------------------------------------------------------- key rendering *)
Inductive jval :=
| JNull | JBool (b : bool) | JInt (z : Z) | JFloat (repr : string) | JStr (s : string)
| JBig (z : Z) (frepr : string).   (* a JSON integer that does not fit i64; frepr = text of its f64 value *)

(* serde_json string escaping for the characters the check generates: double quote and backslash (others pass through) *)
Fixpoint escape (s : string) : string :=
  match s with
  | EmptyString => EmptyString
  | String c r =>
    if Ascii.eqb c """"%char then String "\"%char (String """"%char (escape r))
    else if Ascii.eqb c "\"%char then String "\"%char (String "\"%char (escape r))
    else String c (escape r)
  end.

Definition render (v : jval) : string :=
  match v with
  | JNull => "null"
  | JBool true => "true"
  | JBool false => "false"
  | JInt z => str_of_Z z
  | JFloat r => r
  | JBig _ r => r            (* select_replica: numbers the engine cannot hold as i64 are keyed by their f64 text *)
  | JStr s => String """"%char (escape s ++ String """"%char EmptyString)
  end.

Fixpoint field_get {A} (fields : list (string * A)) (k : string) : option A :=
  match fields with
  | [] => None
  | (k', v) :: r => if str_eqb k' k then Some v else field_get r k
  end.

Definition key_string (fields : list (string * jval)) (field : string) : string :=
  match field_get fields field with Some v => render v | None => EmptyString end.

(* ---------------------------------------------------------------- SipHash-1-3 (std DefaultHasher) *)
Definition M64 : N := 18446744073709551616.
Definition add64 (a b : N) : N := (a + b) mod M64.
Definition rotl64 (x : N) (b : N) : N := N.lor (N.shiftl x b mod M64) (N.shiftr x (64 - b)).

Definition sipround (v : N * N * N * N) : N * N * N * N :=
  let '(v0, v1, v2, v3) := v in
  let v0 := add64 v0 v1 in let v1 := rotl64 v1 13 in let v1 := N.lxor v1 v0 in let v0 := rotl64 v0 32 in
  let v2 := add64 v2 v3 in let v3 := rotl64 v3 16 in let v3 := N.lxor v3 v2 in
  let v0 := add64 v0 v3 in let v3 := rotl64 v3 21 in let v3 := N.lxor v3 v0 in
  let v2 := add64 v2 v1 in let v1 := rotl64 v1 17 in let v1 := N.lxor v1 v2 in let v2 := rotl64 v2 32 in
  (v0, v1, v2, v3).

Definition compress (v : N * N * N * N) (m : N) : N * N * N * N :=
  let '(v0, v1, v2, v3) := v in
  let '(v0, v1, v2, v3) := sipround (v0, v1, v2, N.lxor v3 m) in
  (N.lxor v0 m, v1, v2, v3).

(* little-endian word of up to 8 bytes *)
Fixpoint le_word (bs : list N) : N :=
  match bs with [] => 0 | b :: r => b + 256 * le_word r end.

Fixpoint sip_blocks (fuel : nat) (v : N * N * N * N) (bs : list N) (total : N) : N * N * N * N :=
  match fuel with
  | O => v
  | S f =>
    if Nat.leb 8 (length bs) then sip_blocks f (compress v (le_word (firstn 8 bs))) (skipn 8 bs) total
    else compress v (N.lor (N.shiftl (total mod 256) 56) (le_word bs))
  end.

Definition siphash13 (bs : list N) : N :=
  let v := (8317987319222330741, 7237128888997146477, 7816392313619706465, 8387220255154660723) in
  let '(v0, v1, v2, v3) := sip_blocks (S (length bs)) v bs (N.of_nat (length bs)) in
  let '(v0, v1, v2, v3) := sipround (sipround (sipround (v0, v1, N.lxor v2 255, v3))) in
  N.lxor (N.lxor v0 v1) (N.lxor v2 v3).

Fixpoint bytes_of (s : string) : list N :=
  match s with EmptyString => [] | String c r => N_of_ascii c :: bytes_of r end.

(* <str as Hash>::hash: the bytes, then 0xff *)
Definition str_hash (s : string) : N := siphash13 (bytes_of s ++ [255]).

(* ---------------------------------------------------------------- replica groups *)
Record rgroup := mkRG {
  rg_pipeline : N;
  rg_names : list N;               (* replica_names: the replicas whose deploy succeeded, in replica order *)
  rg_key : option string;          (* Some field = HashKey(field), None = RoundRobin *)
  rg_counter : N
}.

Section Select.
  Variable hash : string -> N.

  Definition select_replica (rg : rgroup) (fields : list (string * jval)) : N * rgroup :=
    match rg_names rg with
    | [] => (rg_pipeline rg, rg)
    | names =>
      let len := N.of_nat (length names) in
      match rg_key rg with
      | None =>
        (nth (N.to_nat (rg_counter rg mod len)) names 0,
         mkRG (rg_pipeline rg) names None ((rg_counter rg + 1) mod M64))
      | Some field =>
        (nth (N.to_nat (hash (key_string fields field) mod len)) names 0, rg)
      end
    end.

  Record rstate := mkRS {
    rs_routes : list route;
    rs_pipelines : list N;           (* logical names in spec order *)
    rs_groups : nmap rgroup;         (* logical name -> replica group *)
    rs_placed : list N               (* keys of group.placements *)
  }.

  Inductive rres := RTarget (n : N) | RNotDeployed (n : N) | RNoTarget.

  Definition set_group (st : rstate) (l : N) (rg : rgroup) : rstate :=
    mkRS (rs_routes st) (rs_pipelines st) (set (rs_groups st) l rg) (rs_placed st).

  (* the replica-aware target of one event (both inject paths) *)
  Definition route_event (st : rstate) (logical : N) (fields : list (string * jval)) : N * rstate :=
    match get (rs_groups st) logical with
    | Some rg => let '(n, rg') := select_replica rg fields in (n, set_group st logical rg')
    | None => (logical, st)
    end.

  Definition deployed (st : rstate) (n : N) : bool := existsb (N.eqb n) (rs_placed st).

  (* resolve_inject_target *)
  Definition resolve_single (st : rstate) (ty : string) (fields : list (string * jval)) : rres * rstate :=
    match find_target (rs_routes st) (rs_pipelines st) ty with
    | None => (RNoTarget, st)
    | Some l =>
      let '(n, st') := route_event st l fields in
      (if deployed st' n then RTarget n else RNotDeployed n, st')
    end.
End Select.

(* Value -> serde_json::to_value: a field whose value cannot be serialised (NaN, infinities) is dropped *)
Inductive rvalue := VJson (j : jval) | VUnserialisable.

Definition batch_fields (data : list (string * rvalue)) : list (string * jval) :=
  flat_map (fun kv => match snd kv with VJson j => [(fst kv, j)] | VUnserialisable => [] end) data.

(* inject_batch, one parsed event: logical target (first pipeline when nothing matches, "default" = none), replica *)
Definition route_batch_event (hash : string -> N) (st : rstate) (ty : string) (data : list (string * rvalue))
  : rres * rstate :=
  match find_target (rs_routes st) (rs_pipelines st) ty with
  | None => (RNoTarget, st)
  | Some l =>
    let '(n, st') := route_event hash st l (batch_fields data) in
    (if deployed st' n then RTarget n else RNotDeployed n, st')
  end.

(* commit_deploy_group: placements for every task; a replica group for each pipeline with replicas > 1
   and at least one successful replica *)
Record rspec := mkRSpec { rp_name : N (* l *); rp_reps : N; rp_key : option string }.

Definition replica_results (p : rspec) (outs : list bool) : list (N * bool) :=
  let count := N.max (rp_reps p) 1 in
  combine (map (fun k => replica_name (rp_name p) k count) (nseq count)) outs.

Fixpoint make_state (routes : list route) (spec : list rspec) (outs : list bool) (acc : rstate) : rstate :=
  match spec with
  | [] => acc
  | p :: r =>
    let count := N.max (rp_reps p) 1 in
    let lname := 16 * rp_name p in                     (* the name "p<l>" *)
    let res := replica_results p outs in
    let ok_names := map fst (filter snd res) in
    let groups' := if N.ltb 1 count && negb (match ok_names with [] => true | _ => false end)
                   then set (rs_groups acc) lname (mkRG lname ok_names (rp_key p) 0)
                   else rs_groups acc in
    make_state routes r (skipn (N.to_nat count) outs)
               (mkRS routes (rs_pipelines acc ++ [lname]) groups' (rs_placed acc ++ map fst res))
  end.

Definition init_state (routes : list route) (spec : list rspec) (outs : list bool) : rstate :=
  make_state routes spec outs (mkRS routes [] [] []).
