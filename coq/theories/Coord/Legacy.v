(* The commit of a migration as it was before fix f5a501f (no re-validation against the current
   placement, source worker taken from the plan, every entry of the name removed), kept only to
   record -- as a checked statement -- that the interleaving defect was real: two migrations of the
   same pipeline planned in the same consistent state and both committed leave an orphaned
   assignment.  Nothing else depends on this file. *)
From Coq Require Import Permutation.
From VP Require Import Base.Tactics Coord.Model Coord.Spec Coord.ProofsInv.
Open Scope N_scope.

Definition legacy_unassign (n : N) (w : worker) : worker :=
  mkW (wst w) (wrun w - 1) (wmax w) (wcores w) (filter (fun x => negb (N.eqb x n)) (wasg w)) (whb w).

Definition legacy_commit_migrate (c : coord) (m : mplan) : coord :=
  let c1 :=
    match get (groups c) (mg m) with
    | Some gr =>
      let ep := match get (gpl gr) (mp m) with Some d => depoch d + 1 | None => 1 end in
      set_groups c (set (groups c) (mg m)
        (update_status (mkG (gspec gr) (set (gpl gr) (mp m) (mkD (mtgt m) DRunning true ep)) (gst gr))))
    | None => c
    end in
  let c2 := upd_worker c1 (mtgt m) (w_assign (mp m)) in
  upd_worker c2 (msrc m) (legacy_unassign (mp m)).

Definition legacy_state : coord :=
  sc (run (init 5) [ORegister 1 4 10 0; ORegister 2 4 10 0; ORegister 3 4 10 0;
                    OPlanDeploy [mkP 1 (Some 1) 1] [1; 2; 3]; OCommitDeploy 0 [true]]).

Theorem C32_legacy_stale_migration_commit_refuted :
  exists c m1 m2,
    Inv c /\ plan_migrate c 16 0 2 = inr m1 /\ plan_migrate c 16 0 3 = inr m2 /\
    ~ Consistent (legacy_commit_migrate (legacy_commit_migrate c m1) m2).
Proof.
  exists legacy_state, (mkM 16 0 1 2 (mkD 1 DRunning true 0)), (mkM 16 0 1 3 (mkD 1 DRunning true 0)).
  split.
  - apply (run_inv _ (init 5) (init_inv 5)); reflexivity.
  - split; [reflexivity|]. split; [reflexivity|]. intros [_ H].
    destruct (H 2 (mkW WReady 1 10 4 [16] 0) eq_refl) as [HP _]. vm_compute in HP.
    apply Permutation_sym, Permutation_nil in HP. discriminate.
Qed.
